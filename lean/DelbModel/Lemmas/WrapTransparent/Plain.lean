import DelbModel.Lemmas.WrapTransparent.Pieces
import DelbModel.Lemmas.WrapTransparent.LayRel
/-!
# C03 (width ≥ 1): sub-trees written by the plain serializers

The space-preserving serializer (`writeToks` of `emitNode`) and the line-fitting serializer
(`lfSerializeNode`) write pieces that read back as the plain emission of the node.
-/
set_option linter.unusedSimpArgs false
namespace Delb.Wrapping
open Delb.Ser Delb.WS Delb.Pretty

/-! ## reducedness of sub-trees -/

/-- a parser-shaped sub-tree that whitespace reduction in mode `m` leaves unchanged -/
def RedIn (m : Mode) (k : Node) : Prop := merged k = true ∧ reduceNode rcS m k = k

theorem collapse_of_rc_fixed {s : Str} {f l : Bool} (h : rcS s f l = s) : collapse pyWs s = s := by
  have hO : OnlySp pyWs s := by rw [← h]; exact spec_onlySp _ _ _ _
  have hN : NoDbl s := by rw [← h]; exact spec_noDbl _ pyWs_space _ _ _
  exact collapseAux_fixed pyWs false s hO hN (by simp)

theorem textsOK_mem : ∀ (l : List Node) (f : Bool) (s : Str), TextsOK rcS f l → Node.text s ∈ l →
    ∃ f' l', rcS s f' l' = s ∧ s ≠ [] := by
  intro l
  induction l with
  | nil => intro f s _ h; simp at h
  | cons k ks ih =>
    intro f s hok hmem
    cases hk : k.isText with
    | true =>
      cases k with
      | text t =>
        rw [textsOK_text] at hok
        rcases List.mem_cons.1 hmem with h | h
        · cases h; exact ⟨_, _, hok.1, hok.2.1⟩
        · exact ih _ _ hok.2.2 h
      | _ => simp [Node.isText] at hk
    | false =>
      rw [textsOK_nontext _ _ _ _ hk] at hok
      rcases List.mem_cons.1 hmem with h | h
      · subst h; simp at hk
      · exact ih _ _ hok h

/-- what a fixed point of the reduction says about the children (any inherited mode) -/
theorem redIn_kids {m : Mode} {ns name : String} {attrs : List Attr} {kids : List Node}
    (h : RedIn m (.tag ns name attrs kids)) :
    mergedKids kids = true ∧ mergedAll kids = true ∧
    (∀ k ∈ kids, k.isText = false → RedIn (directive attrs m) k) ∧
    (directive attrs m = .default → TextsOK rcS true kids) := by
  obtain ⟨hm, hr⟩ := h
  simp only [merged_tag, Bool.and_eq_true] at hm
  obtain ⟨hmk, hma⟩ := hm
  have hmem : ∀ k ∈ kids, merged k = true := by
    intro k hk
    clear hr hmk
    induction kids with
    | nil => simp at hk
    | cons x xs ih =>
      simp only [mergedAll_cons, Bool.and_eq_true] at hma
      rcases List.mem_cons.1 hk with rfl | hk
      · exact hma.1
      · exact ih hma.2 hk
  rw [reduceNode_tag] at hr
  simp only [Node.tag.injEq, true_and] at hr
  have hidem := (idem_reduce_all _ (spec_idem pyWs pyWs_space)).2 kids (directive attrs m) hma
  have hmk2 := (((merged_reduce_all (reduceContentSpec pyWs)).2 kids (directive attrs m) hma).2 hmk).1
  refine ⟨hmk, hma, ?_, ?_⟩
  · intro k hk hnt
    refine ⟨hmem k hk, ?_⟩
    cases hd : directive attrs m with
    | preserve =>
      rw [hd] at hr hidem
      simp only [finishKids_preserve] at hr
      rw [hr] at hidem
      exact (hidem k hk).1
    | default =>
      rw [hd] at hr hidem
      simp only [finishKids_default] at hr
      generalize reduceList (reduceContentSpec pyWs) .default kids = K2 at *
      have hk' : k ∈ reduceTexts (reduceContentSpec pyWs) K2.length 0 K2 := by rw [hr]; exact hk
      rcases mem_reduceTexts _ _ _ _ _ hk' with ⟨s, rfl, _⟩ | ⟨_, hk2⟩
      · simp at hnt
      · exact (hidem k hk2).1
  · intro hd
    rw [hd] at hr hmk2
    simp only [finishKids_default] at hr
    generalize reduceList (reduceContentSpec pyWs) .default kids = K2 at *
    apply textsOK_of_fixed
    rw [reduceTexts_eq_F _ _ 0 _ (by simp)] at hr
    have := reduceTextsF_idem _ (spec_idem pyWs pyWs_space) true K2 hmk2
    simp only [beq_self_eq_true] at hr
    rw [hr] at this
    exact this

theorem mergedKids_text_ne {kids : List Node} (h : mergedKids kids = true) {s : Str} (hs : Node.text s ∈ kids) :
    s ≠ [] := by
  induction kids with
  | nil => simp at hs
  | cons k ks ih =>
    cases hk : k.isText with
    | true =>
      cases k with
      | text t =>
        rw [mergedKids_text] at h
        simp only [Bool.and_eq_true, Bool.not_eq_true'] at h
        rcases List.mem_cons.1 hs with h' | h'
        · cases h'; simpa [List.isEmpty_iff] using h.1.1
        · exact ih h.2 h'
      | _ => simp [Node.isText] at hk
    | false =>
      rw [mergedKids_nontext _ _ hk] at h
      rcases List.mem_cons.1 hs with h' | h'
      · subst h'; simp at hk
      · exact ih h h'

/-! ## exact writes -/

theorem write_text_exact (st : St) (s : Str) (hs : s ≠ [])
    (h : st.preserveSpace = true ∨ st.offset ≠ 0 ∨ s.head? ≠ some '\n') :
    (write st [.text s]).out = st.out ++ [.text s] ∧
      ((write st [.text s]).offset = 0 → s.getLast? = some '\n') := by
  have hprep : prep st [.text s] = [.text s] := by
    unfold prep
    have he : isEmptyPiece (.text s) = false := by cases s <;> simp_all [isEmptyPiece]
    by_cases hc : (!st.preserveSpace && st.offset == 0) = true
    · rw [if_pos hc]
      simp only [Bool.and_eq_true, Bool.not_eq_true', beq_iff_eq] at hc
      have hd : s.dropWhile isNl = s := by
        rcases h with h | h | h
        · rw [hc.1] at h; cases h
        · exact absurd hc.2 h
        · cases s with
          | nil => rfl
          | cons c cs =>
            have : c ≠ '\n' := by simpa using h
            have hb : (c == '\n') = false := by simpa using this
            simp [List.dropWhile, isNl, hb]
      have hne : (s.dropWhile isNl).isEmpty = false := by rw [hd]; cases s <;> simp_all
      simp [stripNl, hne, hd, he, hs]
    · rw [if_neg hc]; simp [he]
  have hr : (renderP [Piece.text s]).isEmpty = false := by
    rw [renderP_single]
    have := escapeText_ne_nil hs
    cases h : escapeText s with
    | nil => exact absurd h this
    | cons => simp [renderPiece, h]
  rw [write_eq, hprep, hr]
  simp only [Bool.false_eq_true, if_false, true_and]
  intro h0
  rw [renderP_single] at h0
  have := newOffset_zero _ _ (by simpa [renderPiece] using escapeText_ne_nil hs) h0
  exact escapeText_last this

def IsMkTok : Tok → Prop
  | .chars _ => False
  | _ => True

theorem renderTok_mk_last {t : Tok} (h : IsMkTok t) : (renderTok t).getLast? = some '>' := by
  cases t with
  | stag qn attrs sc =>
    cases sc
    · show ((['<'] ++ qn ++ renderAttrs attrs) ++ ['>']).getLast? = some '>'
      exact List.getLast?_concat
    · show (['<'] ++ qn ++ renderAttrs attrs ++ ['/', '>']).getLast? = some '>'
      rw [getLast?_append_ne _ _ (by simp)]; rfl
  | etag qn =>
    show ((['<', '/'] ++ qn) ++ ['>']).getLast? = some '>'
    exact List.getLast?_concat
  | comment s =>
    show ("<!--".toList ++ s ++ "-->".toList).getLast? = some '>'
    rw [getLast?_append_ne _ _ (by decide)]; decide
  | pi t s =>
    show ("<?".toList ++ t.toList ++ [' '] ++ s ++ "?>".toList).getLast? = some '>'
    rw [getLast?_append_ne _ _ (by decide)]; decide
  | chars s => simp [IsMkTok] at h

theorem write_verb_mk (st : St) (t : Tok) (ht : IsMkTok t) :
    (write st [.verbatim [t]]).out = st.out ++ [.verbatim [t]] ∧ (write st [.verbatim [t]]).offset ≠ 0 := by
  have hprep : prep st [.verbatim [t]] = [.verbatim [t]] := by
    unfold prep
    have h1 : stripNl [.verbatim [t]] = [.verbatim [t]] := by cases t <;> simp_all [IsMkTok, stripNl]
    have h2 : isEmptyPiece (.verbatim [t]) = false := by cases t <;> simp_all [IsMkTok, isEmptyPiece]
    split <;> simp [h1, h2]
  have hlast := renderTok_mk_last ht
  have hrp : renderP [Piece.verbatim [t]] = renderTok t := by simp [renderP, renderPiece, render]
  have hne : (renderP [Piece.verbatim [t]]).isEmpty = false := by
    rw [hrp]
    cases hr : renderTok t with
    | nil => rw [hr] at hlast; simp at hlast
    | cons => rfl
  rw [write_eq, hprep, hne]
  simp only [Bool.false_eq_true, if_false, true_and]
  rw [hrp]
  exact newOffset_ne_zero _ _ '>' hlast (by decide)

theorem write_verb_chars (st : St) (s : Str) (hs : s ≠ []) (h : st.preserveSpace = true ∨ st.offset ≠ 0) :
    (write st [.verbatim [.chars s]]).out = st.out ++ [.verbatim [.chars s]] := by
  have hprep : prep st [.verbatim [.chars s]] = [.verbatim [.chars s]] := by
    unfold prep
    have he : isEmptyPiece (.verbatim [.chars s]) = false := by cases s <;> simp_all [isEmptyPiece]
    have hc : (!st.preserveSpace && st.offset == 0) = false := by
      rcases h with h | h
      · simp [h]
      · simp [h]
    rw [hc]; simp [he]
  have hr : (renderP [Piece.verbatim [.chars s]]).isEmpty = false := by
    have : renderP [Piece.verbatim [.chars s]] = escapeText s := by simp [renderP, renderPiece, render, renderTok]
    rw [this]
    have := escapeText_ne_nil hs
    cases h : escapeText s with
    | nil => exact absurd h this
    | cons => rfl
  rw [write_eq, hprep, hr]
  simp

/-- the space-preserving serializer: tokens are written as they are -/
theorem writeToks_preserve : ∀ (toks : List Tok) (st : St), st.preserveSpace = true →
    (∀ s, Tok.chars s ∈ toks → s ≠ []) →
    (writeToks st toks).out = st.out ++ toks.map (fun t => Piece.verbatim [t]) ∧
    (writeToks st toks).preserveSpace = true ∧ (writeToks st toks).level = st.level ∧
    (writeToks st toks).unwritten = st.unwritten ∧ (writeToks st toks).space = st.space ∧
    (∀ t, toks.getLast? = some t → IsMkTok t → (writeToks st toks).offset ≠ 0) := by
  intro toks
  induction toks with
  | nil => intro st h _; simp [writeToks, h]
  | cons t ts ih =>
    intro st hp hne
    have hstep : (write st [.verbatim [t]]).out = st.out ++ [.verbatim [t]] := by
      cases t with
      | chars s => exact write_verb_chars st s (hne s (by simp)) (Or.inl hp)
      | _ => exact (write_verb_mk st _ (by simp [IsMkTok])).1
    have ih' := ih (write st [.verbatim [t]]) (by simp [hp]) (fun s hs => hne s (by simp [hs]))
    obtain ⟨i1, i2, i3, i4, i5, i6⟩ := ih'
    have e : writeToks st (t :: ts) = writeToks (write st [.verbatim [t]]) ts := by simp [writeToks]
    rw [e]
    refine ⟨by rw [i1, hstep]; simp, i2, by simpa using i3, by simpa using i4, by simpa using i5, ?_⟩
    intro t' hl hmk
    cases ts with
    | nil =>
      simp at hl; subst hl
      simp only [writeToks, List.foldl_nil]
      exact (write_verb_mk st _ hmk).2
    | cons t2 ts2 => exact i6 t' (by simpa using hl) hmk

theorem eraseAll_verbatim (toks : List Tok) : eraseAll (toks.map (fun t => Piece.verbatim [t])) = toks := by
  induction toks with
  | nil => rfl
  | cons t ts ih => simp [erase, ih]

/-! ## the line-fitting serializer -/

theorem plainAttrs_erase (ad : List (Str × Str)) : (plainAttrs ad).map (fun a => (a.2.1, a.2.2)) = ad := by
  simp [plainAttrs, Function.comp_def]

/-- a text node as the line-fitting serializer may meet it in mode `mode` -/
def TextOK (mode : Mode) : Node → Prop
  | .text s => s ≠ [] ∧ (mode = .default → collapse pyWs s = s)
  | _ => True

/-- what the line-fitting serializer guarantees for one node -/
def LfPost (m : Dict) (k : Node) (st st' : St) : Prop :=
  ∃ toks N, emitNode m k = .ok toks ∧ st'.out = st.out ++ N ∧ eraseAll N = toks ∧ st'.space = st.space ∧
    st'.level = st.level ∧ st'.unwritten = st.unwritten ∧ (k.isText = false → st'.offset ≠ 0 ∧ EndsMarkup N)

theorem collapse_no_nl_head {s : Str} (h : collapse pyWs s = s) : s.head? ≠ some '\n' := by
  cases s with
  | nil => simp
  | cons c cs =>
    intro hc
    simp at hc; subst hc
    unfold collapse at h
    rw [collapseAux_cons] at h
    simp [pyWs_nl] at h

theorem lf_spec (m : Dict) :
    (∀ k : Node, ∀ st mode, st.space = mode → RedIn mode k → TextOK mode k → (k.isText = true → st.offset ≠ 0) →
      Post (lfSerializeNode m k st) (LfPost m k st)) ∧
    (∀ ks : List Node, ∀ st mode, st.space = mode → mergedKids ks = true →
      (∀ k ∈ ks, k.isText = false → RedIn mode k) → (∀ k ∈ ks, TextOK mode k) →
      (headIsText ks = true → st.offset ≠ 0) →
      Post (lfHandleChildNodes m ks st) (fun st' => ∃ toks N, emitKids m ks = .ok toks ∧ st'.out = st.out ++ N ∧
        eraseAll N = toks ∧ st'.space = st.space ∧ st'.level = st.level ∧ st'.unwritten = st.unwritten)) := by
  apply Pretty.node_induct
  · -- tag
    intro ns name attrs kids ih st mode hmode hred _ _ st' hst
    rw [lfSerializeNode] at hst
    simp only at hst
    split at hst
    · cases hst
    · cases hst
    · rename_i p ad hp had
      split at hst
      · cases hst
      · rename_i st1 hbody
        cases hst
        obtain ⟨hmk, _, hkids, htexts⟩ := redIn_kids hred
        -- the state after the mode switch
        generalize hs0 : (if (directive attrs st.space != st.space) = true then
            { st with space := directive attrs st.space, preserveSpace := directive attrs st.space == Mode.default }
          else st) = st0 at hbody
        have h0out : st0.out = st.out := by subst hs0; split <;> rfl
        have h0lev : st0.level = st.level := by subst hs0; split <;> rfl
        have h0unw : st0.unwritten = st.unwritten := by subst hs0; split <;> rfl
        have h0sp : st0.space = directive attrs mode := by
          subst hs0 hmode
          split
          · rfl
          · rename_i h
            have : directive attrs st.space = st.space := by simpa using h
            exact this.symm
        have hfin : ∀ stx : St, (if (directive attrs st.space != st.space) = true then
              { stx with space := st.space, preserveSpace := st.space == Mode.default } else stx).out = stx.out ∧
            (if (directive attrs st.space != st.space) = true then
              { stx with space := st.space, preserveSpace := st.space == Mode.default } else stx).level = stx.level ∧
            (if (directive attrs st.space != st.space) = true then
              { stx with space := st.space, preserveSpace := st.space == Mode.default } else stx).unwritten = stx.unwritten ∧
            (if (directive attrs st.space != st.space) = true then
              { stx with space := st.space, preserveSpace := st.space == Mode.default } else stx).offset = stx.offset ∧
            (stx.space = directive attrs st.space →
              (if (directive attrs st.space != st.space) = true then
                { stx with space := st.space, preserveSpace := st.space == Mode.default } else stx).space = st.space) := by
          intro stx
          split
          · exact ⟨rfl, rfl, rfl, rfl, fun _ => rfl⟩
          · rename_i h
            refine ⟨rfl, rfl, rfl, rfl, fun hx => ?_⟩
            rw [hx]; have : directive attrs st.space = st.space := by simpa using h
            exact this
        obtain ⟨f1, f2, f3, f4, f5⟩ := hfin st1
        by_cases hke : kids.isEmpty = true
        · rw [if_pos hke] at hbody
          cases hbody
          have hke' : kids = [] := by simpa using hke
          subst hke'
          obtain ⟨w1, w2⟩ := write_mk st0 (.stag (p ++ name).toList (plainAttrs ad) [] true) trivial
          refine ⟨[.stag (p ++ name).toList ad true], [.stag (p ++ name).toList (plainAttrs ad) [] true], ?_, ?_, ?_, ?_, ?_, ?_, ?_⟩
          · simp [emitNode, hp, had, emitKids]
          · rw [f1, w1, h0out]
          · simp [erase, plainAttrs_erase]
          · apply f5; rw [write_space, h0sp, hmode]
          · rw [f2, write_level, h0lev]
          · rw [f3, write_unwritten, h0unw]
          · intro _; rw [f4]; exact ⟨w2, ⟨[], _, rfl, rfl⟩⟩
        · rw [if_neg hke] at hbody
          split at hbody
          · cases hbody
          · rename_i st2 hk
            cases hbody
            obtain ⟨w1, w2⟩ := write_mk st0 (.stag (p ++ name).toList (plainAttrs ad) [] false) trivial
            have hsp1 : (write st0 [.stag (p ++ name).toList (plainAttrs ad) [] false]).space = directive attrs mode := by
              rw [write_space, h0sp]
            have htx : ∀ k ∈ kids, TextOK (directive attrs mode) k := by
              intro k hk
              cases k with
              | text s =>
                refine ⟨mergedKids_text_ne hmk hk, fun hd => ?_⟩
                obtain ⟨f', l', hfix, _⟩ := textsOK_mem _ _ _ (htexts hd) hk
                exact collapse_of_rc_fixed hfix
              | _ => trivial
            obtain ⟨toks, N, e1, e2, e3, e4, e5, e6⟩ := ih _ _ hsp1 hmk hkids htx (fun _ => w2) _ hk
            obtain ⟨v1, v2⟩ := write_mk st2 (.etag (p ++ name).toList) trivial
            refine ⟨.stag (p ++ name).toList ad false :: toks ++ [.etag (p ++ name).toList],
              [.stag (p ++ name).toList (plainAttrs ad) [] false] ++ N ++ [.etag (p ++ name).toList], ?_, ?_, ?_, ?_, ?_, ?_, ?_⟩
            · simp [emitNode, hp, had, e1, hke]
            · rw [f1, v1, e2, w1, h0out]; simp
            · simp [erase, plainAttrs_erase, e3]
            · apply f5; rw [write_space, e4, hsp1, hmode]
            · rw [f2, write_level, e5, write_level, h0lev]
            · rw [f3, write_unwritten, e6, write_unwritten, h0unw]
            · intro _; rw [f4]; exact ⟨v2, ⟨_, _, rfl, rfl⟩⟩
  · -- text
    intro s st mode hmode _ htx hoff st' hst
    obtain ⟨hs, hcol⟩ := htx
    have hse : s.isEmpty = false := by cases s <;> simp_all
    rw [lfSerializeNode, hse] at hst
    simp only [Bool.false_eq_true, if_false] at hst
    have hemit : emitNode m (.text s) = .ok [.chars s] := by simp [emitNode, hse]
    split at hst
    · rename_i hd
      cases hst
      have hmd : mode = .default := by rw [← hmode]; simpa using hd
      have hns : normText s = s := hcol hmd
      rw [hns]
      obtain ⟨w1, _⟩ := write_text_exact st s hs (Or.inr (Or.inl (hoff rfl)))
      exact ⟨_, [.text s], hemit, w1, by simp [erase], by simp, by simp, by simp, by simp [Node.isText]⟩
    · cases hst
      obtain ⟨w1, _⟩ := write_text_exact st s hs (Or.inr (Or.inl (hoff rfl)))
      exact ⟨_, [.text s], hemit, w1, by simp [erase], by simp, by simp, by simp, by simp [Node.isText]⟩
  · -- comment
    intro s st mode _ _ _ _ st' hst
    rw [lfSerializeNode] at hst
    cases hst
    obtain ⟨w1, w2⟩ := write_mk st (.comment s) trivial
    exact ⟨[.comment s], [.comment s], by simp [emitNode], w1, by simp [erase], by simp, by simp, by simp,
      fun _ => ⟨w2, ⟨[], _, rfl, rfl⟩⟩⟩
  · -- pi
    intro t s st mode _ _ _ _ st' hst
    rw [lfSerializeNode] at hst
    cases hst
    obtain ⟨w1, w2⟩ := write_mk st (.pi t s) trivial
    exact ⟨[.pi t s], [.pi t s], by simp [emitNode], w1, by simp [erase], by simp, by simp, by simp,
      fun _ => ⟨w2, ⟨[], _, rfl, rfl⟩⟩⟩
  · -- nil
    intro st mode _ _ _ _ _ st' hst
    rw [lfHandleChildNodes] at hst
    cases hst
    exact ⟨[], [], by simp [emitKids], by simp, rfl, rfl, rfl, rfl⟩
  · -- cons
    intro k ks ihk ihks st mode hmode hmk hred htx hoff st' hst
    rw [lfHandleChildNodes] at hst
    split at hst
    · cases hst
    · rename_i st1 h1
      have hk1 : k.isText = false → RedIn mode k := fun h => hred k (by simp) h
      have hredk : RedIn mode k := by
        cases hkt : k.isText with
        | false => exact hk1 hkt
        | true => cases k <;> simp_all [Node.isText, RedIn]
      obtain ⟨toks, N, e1, e2, e3, e4, e5, e6, e7⟩ := ihk st mode hmode hredk (htx k (by simp))
        (fun h => hoff (by simpa using h)) _ h1
      have hmk' : mergedKids ks = true := by
        cases hkt : k.isText with
        | false => rw [mergedKids_nontext _ _ hkt] at hmk; exact hmk
        | true =>
          cases k with
          | text s => rw [mergedKids_text] at hmk; simp at hmk; exact hmk.2
          | _ => simp [Node.isText] at hkt
      have hoff' : headIsText ks = true → st1.offset ≠ 0 := by
        intro hh
        cases hkt : k.isText with
        | false => exact (e7 hkt).1
        | true =>
          cases k with
          | text s => rw [mergedKids_text] at hmk; simp at hmk; rw [hmk.1.2] at hh; cases hh
          | _ => simp [Node.isText] at hkt
      obtain ⟨toks2, N2, g1, g2, g3, g4, g5, g6⟩ := ihks st1 mode (by rw [e4, hmode]) hmk'
        (fun x hx => hred x (by simp [hx])) (fun x hx => htx x (by simp [hx])) hoff' _ hst
      refine ⟨toks ++ toks2, N ++ N2, ?_, ?_, ?_, ?_, ?_, ?_⟩
      · simp [emitKids, e1, g1]
      · rw [g2, e2]; simp
      · simp [e3, g3]
      · rw [g4, e4]
      · rw [g5, e5]
      · rw [g6, e6]

/-! ## `_serialize_appendable_node` -/

theorem emit_chars_ne (m : Dict) :
    (∀ k : Node, ∀ toks, emitNode m k = .ok toks → ∀ s, Tok.chars s ∈ toks → s ≠ []) ∧
    (∀ ks : List Node, ∀ toks, emitKids m ks = .ok toks → ∀ s, Tok.chars s ∈ toks → s ≠ []) := by
  apply Pretty.node_induct
  · intro ns name attrs kids ih toks h s hs
    obtain ⟨p, ad, ks, _, _, hks, rfl⟩ := emitNode_tag_inv h
    split at hs
    · simp at hs
    · simp at hs
      exact ih _ hks s hs
  · intro t toks h s hs
    rw [emitNode.eq_2] at h
    split at h
    · cases h; simp at hs
    · rename_i hne
      cases h
      simp at hs; subst hs
      simpa [List.isEmpty_iff] using hne
  · intro t toks h s hs
    rw [emitNode.eq_3] at h; cases h; simp at hs
  · intro t c toks h s hs
    rw [emitNode.eq_4] at h; cases h; simp at hs
  · intro toks h s hs
    rw [emitKids.eq_1] at h; cases h; simp at hs
  · intro k ks ihk ihks toks h s hs
    obtain ⟨a, b, ha, hb, rfl⟩ := emitKids_cons_inv h
    rcases List.mem_append.1 hs with hs | hs
    · exact ihk _ ha s hs
    · exact ihks _ hb s hs

theorem allWs_dropWhile' {s : Str} (f : Char → Bool) (h : AllWs s) : AllWs (s.dropWhile f) :=
  fun c hc => h c ((List.dropWhile_suffix f).subset hc)

/-- writing whitespace -/
theorem write_ws (st : St) (x : Str) (hx : AllWs x) :
    ∃ g, (write st [.layout x]).out = st.out ++ g ∧ AllGap g ∧ NonEmp g ∧ AllWs (gapChars g) ∧
      (g = [] → write st [.layout x] = st) ∧
      ((write st [.layout x]).offset = 0 → (g = [] ∧ st.offset = 0) ∨ (gapChars g).getLast? = some '\n') ∧
      (st.offset ≠ 0 → x ≠ [] → gapChars g = x) := by
  obtain ⟨g, h1, h2, h3, h4, h5, h6, _⟩ := write_gap st [.layout x] (by intro p hp; simp at hp; subst hp; rfl)
  refine ⟨g, h1, h2, h3, ?_, h5, h6, ?_⟩
  · rcases h4 with h4 | ⟨_, _, h4⟩
    · rw [h4]; simpa [gapChars, strs, pieceStr] using hx
    · rw [h4]; apply allWs_dropWhile'; simpa [gapChars, strs, pieceStr] using hx
  · intro ho _
    rcases h4 with h4 | ⟨h0, _, _⟩
    · simpa [gapChars, strs, pieceStr] using h4
    · exact absurd h0 ho

section
variable (e : Env) (hind : AllWs e.o.indent)
include hind

theorem appendable_spec {p : Path} {k : Node} {st : St} (hk : nodeAt e.root p = some k) (hnt : k.isText = false)
    (hred : RedIn .default k) (hsp : st.space = .default) (hps : k.isTag = false → st.preserveSpace = false) :
    Post (serializeAppendableNode e p st) (fun st' => ∃ ind N toks, st'.out = st.out ++ ind ++ N ∧
      AllGap ind ∧ NonEmp ind ∧ AllWs (gapChars ind) ∧ (ind ≠ [] → st.offset = 0) ∧
      emitNode e.m k = .ok toks ∧ eraseAll N = toks ∧ EndsMarkup N ∧ st'.offset ≠ 0 ∧
      st'.preserveSpace = false ∧ st'.level = st.level ∧ st'.unwritten = st.unwritten ∧ st'.space = .default) := by
  rw [serializeAppendableNode_eq]
  have hget : getNode e p = .ok k := by simp [getNode, hk]
  refine (Post_bind _ _ _).2 ?_
  rw [hget, Post_ok]
  -- the indentation
  obtain ⟨ind, st0, hs0, i1, i2, i3, i4, i5, i6, i7, i8, i9⟩ : ∃ ind st0,
      (if (st.offset == 0 && !e.o.indent.isEmpty) = true then write st [.layout (indentN e.o st.level)] else st) = st0 ∧
      st0.out = st.out ++ ind ∧ AllGap ind ∧ NonEmp ind ∧ AllWs (gapChars ind) ∧ (ind ≠ [] → st.offset = 0) ∧
      st0.level = st.level ∧ st0.unwritten = st.unwritten ∧ st0.space = st.space ∧
      st0.preserveSpace = st.preserveSpace := by
    by_cases hc : (st.offset == 0 && !e.o.indent.isEmpty) = true
    · rw [if_pos hc]
      obtain ⟨g, g1, g2, g3, g4, _⟩ := write_ws st (indentN e.o st.level) (allWs_indentN e.o hind _)
      refine ⟨g, _, rfl, g1, g2, g3, g4, fun _ => ?_, by simp, by simp, by simp, by simp⟩
      simp at hc; exact hc.1
    · rw [if_neg hc]
      exact ⟨[], _, rfl, by simp, allGap_nil, nonEmp_nil, by simp [AllWs], fun h => absurd rfl h, rfl, rfl, rfl, rfl⟩
  rw [hs0]
  cases k with
  | text s => simp [Node.isText] at hnt
  | comment s =>
    simp only
    rw [Post_pure]
    obtain ⟨w1, w2⟩ := write_mk st0 (.comment s) trivial
    exact ⟨ind, [.comment s], [.comment s], by rw [w1, i1], i2, i3, i4, i5, by simp [emitNode], by simp [erase],
      ⟨[], _, rfl, rfl⟩, w2, by simp [i9, hps (by simp [Node.isTag])], by simp [i6], by simp [i7], by simp [i8, hsp]⟩
  | pi t s =>
    simp only
    rw [Post_pure]
    obtain ⟨w1, w2⟩ := write_mk st0 (.pi t s) trivial
    exact ⟨ind, [.pi t s], [.pi t s], by rw [w1, i1], i2, i3, i4, i5, by simp [emitNode], by simp [erase],
      ⟨[], _, rfl, rfl⟩, w2, by simp [i9, hps (by simp [Node.isTag])], by simp [i6], by simp [i7], by simp [i8, hsp]⟩
  | tag ns name attrs kids =>
    simp only
    split
    · -- written by the space-preserving serializer
      refine (Post_bind _ _ _).2 ?_
      intro toks htoks
      rw [Post_pure]
      obtain ⟨v1, v2, v3, v4, v5, v6⟩ := writeToks_preserve toks { st0 with preserveSpace := true } rfl
        ((emit_chars_ne e.m).1 _ _ htoks)
      obtain ⟨pp, ad, ks, _, _, _, hform⟩ := emitNode_tag_inv htoks
      have hlast : ∃ t, toks.getLast? = some t ∧ IsMkTok t := by
        rw [hform]
        split
        · exact ⟨_, rfl, trivial⟩
        · refine ⟨.etag (pp ++ name).toList, ?_, trivial⟩
          rw [show Tok.stag (pp ++ name).toList ad false :: ks ++ [Tok.etag (pp ++ name).toList] =
            (Tok.stag (pp ++ name).toList ad false :: ks) ++ [Tok.etag (pp ++ name).toList] from rfl]
          exact List.getLast?_concat
      obtain ⟨tl, htl, hmk⟩ := hlast
      have hne : toks ≠ [] := by intro h; rw [h] at htl; simp at htl
      refine ⟨ind, toks.map (fun t => Piece.verbatim [t]), toks, ?_, i2, i3, i4, i5, htoks, eraseAll_verbatim toks,
        ?_, v6 tl htl hmk, rfl, by show (writeToks _ toks).level = _; rw [v3]; exact i6,
        by show (writeToks _ toks).unwritten = _; rw [v4]; exact i7,
        by show (writeToks _ toks).space = _; rw [v5]; show st0.space = _; rw [i8, hsp]⟩
      · show (writeToks _ toks).out = _
        rw [v1, i1]
      · obtain ⟨L, b, hLb⟩ : ∃ L b, toks = L ++ [b] := by
          rcases List.eq_nil_or_concat toks with h | ⟨L, b, h⟩
          · exact absurd h hne
          · exact ⟨L, b, by rw [h, List.concat_eq_append]⟩
        exact ⟨L.map (fun t => Piece.verbatim [t]), .verbatim [b], by rw [hLb]; simp, rfl⟩
    · -- written by the line-fitting serializer
      refine Post_bind_of ((lf_spec e.m).1 _ st0 .default (by rw [i8, hsp]) hred trivial (by simp)) ?_
      intro st1 h1
      obtain ⟨toks, N, e1, e2, e3, e4, e5, e6, e7⟩ := h1
      rw [Post_pure]
      obtain ⟨o1, o2⟩ := e7 rfl
      exact ⟨ind, N, toks, by show st1.out = _; rw [e2, i1], i2, i3, i4, i5, e1, e3, o2, o1, rfl,
        by show st1.level = _; rw [e5, i6], by show st1.unwritten = _; rw [e6, i7],
        by show st1.space = _; rw [e4, i8, hsp]⟩
end
/-! ## the space-preserving serializer at the root (`writer.preserve_space` is not set there) -/

def isCharsTok : Tok → Bool
  | .chars _ => true
  | _ => false

/-- no two adjacent character-data tokens -/
def CharsSep : List Tok → Prop
  | [] => True
  | [_] => True
  | a :: b :: rest => (isCharsTok a = true → isCharsTok b = false) ∧ CharsSep (b :: rest)

theorem charsSep_tail {a : Tok} {rest : List Tok} (h : CharsSep (a :: rest)) : CharsSep rest := by
  cases rest with
  | nil => trivial
  | cons b r => exact h.2

theorem isMkTok_iff (t : Tok) : IsMkTok t ↔ isCharsTok t = false := by
  cases t <;> simp [IsMkTok, isCharsTok]

theorem writeToks_sep : ∀ (toks : List Tok) (st : St),
    (st.offset ≠ 0 ∨ ∀ t ∈ toks.head?, isCharsTok t = false) → CharsSep toks →
    (∀ s, Tok.chars s ∈ toks → s ≠ []) →
    (writeToks st toks).out = st.out ++ toks.map (fun t => Piece.verbatim [t]) ∧
    (writeToks st toks).level = st.level ∧ (writeToks st toks).unwritten = st.unwritten ∧
    (writeToks st toks).space = st.space ∧
    (∀ t, toks.getLast? = some t → IsMkTok t → (writeToks st toks).offset ≠ 0) := by
  intro toks
  induction toks with
  | nil => intro st _ _ _; simp [writeToks]
  | cons t ts ih =>
    intro st h0 hsep hne
    have e : writeToks st (t :: ts) = writeToks (write st [.verbatim [t]]) ts := by simp [writeToks]
    have hstep : (write st [.verbatim [t]]).out = st.out ++ [.verbatim [t]] ∧
        (isCharsTok t = false → (write st [.verbatim [t]]).offset ≠ 0) := by
      cases ht : isCharsTok t with
      | false =>
        have := write_verb_mk st t ((isMkTok_iff t).2 ht)
        exact ⟨this.1, fun _ => this.2⟩
      | true =>
        cases t with
        | chars s =>
          have ho : st.offset ≠ 0 := by
            rcases h0 with h | h
            · exact h
            · have := h (.chars s) (by simp); simp [isCharsTok] at this
          exact ⟨write_verb_chars st s (hne s (by simp)) (Or.inr ho), fun h => by cases h⟩
        | _ => simp [isCharsTok] at ht
    have hnext : (write st [.verbatim [t]]).offset ≠ 0 ∨ ∀ t' ∈ ts.head?, isCharsTok t' = false := by
      cases ht : isCharsTok t with
      | false => exact Or.inl (hstep.2 ht)
      | true =>
        right
        intro t' ht'
        cases ts with
        | nil => simp at ht'
        | cons b r =>
          simp at ht'; subst ht'
          exact hsep.1 ht
    obtain ⟨i1, i2, i3, i4, i5⟩ := ih (write st [.verbatim [t]]) hnext (charsSep_tail hsep)
      (fun s hs => hne s (by simp [hs]))
    rw [e]
    refine ⟨by rw [i1, hstep.1]; simp, by simpa using i2, by simpa using i3, by simpa using i4, ?_⟩
    intro t' hl hmk
    cases ts with
    | nil =>
      simp at hl; subst hl
      simp only [writeToks, List.foldl_nil]
      exact hstep.2 ((isMkTok_iff _).1 hmk)
    | cons t2 ts2 => exact i5 t' (by simpa using hl) hmk

/-- starts (if not empty) with a markup token -/
def StartsMk (toks : List Tok) : Prop := ∀ t ∈ toks.head?, isCharsTok t = false
/-- ends (if not empty) with a markup token -/
def EndsMk (toks : List Tok) : Prop := ∀ t ∈ toks.getLast?, isCharsTok t = false

theorem charsSep_append : ∀ (a b : List Tok), CharsSep a → CharsSep b → (EndsMk a ∨ StartsMk b) → CharsSep (a ++ b)
  | [], b, _, hb, _ => hb
  | [x], b, _, hb, h => by
    cases b with
    | nil => trivial
    | cons y r =>
      refine ⟨fun hx => ?_, hb⟩
      rcases h with h | h
      · have := h x (by simp); rw [this] at hx; cases hx
      · exact h y (by simp)
  | x :: y :: r, b, ha, hb, h => by
    refine ⟨ha.1, ?_⟩
    have := charsSep_append (y :: r) b ha.2 hb (by
      rcases h with h | h
      · left; intro t ht; exact h t (by simpa using ht)
      · exact Or.inr h)
    exact this

theorem emit_sep (m : Dict) :
    (∀ k : Node, merged k = true → ∀ toks, emitNode m k = .ok toks →
      CharsSep toks ∧ (k.isText = false → StartsMk toks ∧ EndsMk toks ∧ toks ≠ [])) ∧
    (∀ ks : List Node, mergedKids ks = true → mergedAll ks = true → ∀ toks, emitKids m ks = .ok toks →
      CharsSep toks ∧ (headIsText ks = false → StartsMk toks)) := by
  apply Pretty.node_induct
  · intro ns name attrs kids ih hm toks h
    simp only [merged_tag, Bool.and_eq_true] at hm
    obtain ⟨p, ad, ks, _, _, hks, rfl⟩ := emitNode_tag_inv h
    obtain ⟨i1, _⟩ := ih hm.1 hm.2 ks hks
    by_cases hke : kids.isEmpty = true
    · rw [if_pos hke]
      exact ⟨trivial, fun _ => ⟨by intro t ht; simp at ht; subst ht; rfl, by intro t ht; simp at ht; subst ht; rfl,
        by simp⟩⟩
    · rw [if_neg hke]
      have hs1 : CharsSep (ks ++ [Tok.etag (p ++ name).toList]) :=
        charsSep_append ks _ i1 trivial (Or.inr (by intro t ht; simp at ht; subst ht; rfl))
      have hs2 : CharsSep ([Tok.stag (p ++ name).toList ad false] ++ (ks ++ [Tok.etag (p ++ name).toList])) :=
        charsSep_append _ _ trivial hs1 (Or.inl (by intro t ht; simp at ht; subst ht; rfl))
      refine ⟨by simpa using hs2, fun _ => ⟨by intro t ht; simp at ht; subst ht; rfl, ?_, by simp⟩⟩
      intro t ht
      rw [show Tok.stag (p ++ name).toList ad false :: ks ++ [Tok.etag (p ++ name).toList] =
        (Tok.stag (p ++ name).toList ad false :: ks) ++ [Tok.etag (p ++ name).toList] from rfl,
        List.getLast?_concat] at ht
      simp at ht; subst ht; rfl
  · intro s _ toks h
    rw [emitNode.eq_2] at h
    split at h <;> cases h
    · exact ⟨trivial, fun h => by simp at h⟩
    · exact ⟨trivial, fun h => by simp at h⟩
  · intro s _ toks h
    rw [emitNode.eq_3] at h; cases h
    exact ⟨trivial, fun _ => ⟨by intro t ht; simp at ht; subst ht; rfl, by intro t ht; simp at ht; subst ht; rfl,
      by simp⟩⟩
  · intro t s _ toks h
    rw [emitNode.eq_4] at h; cases h
    exact ⟨trivial, fun _ => ⟨by intro t ht; simp at ht; subst ht; rfl, by intro t ht; simp at ht; subst ht; rfl,
      by simp⟩⟩
  · intro _ _ toks h
    rw [emitKids.eq_1] at h; cases h
    exact ⟨trivial, fun _ => by intro t ht; simp at ht⟩
  · intro k ks ihk ihks hmk hma toks h
    obtain ⟨a, b, ha, hb, rfl⟩ := emitKids_cons_inv h
    simp only [mergedAll_cons, Bool.and_eq_true] at hma
    obtain ⟨k1, k2⟩ := ihk hma.1 a ha
    cases hkt : k.isText with
    | false =>
      rw [mergedKids_nontext _ _ hkt] at hmk
      obtain ⟨r1, _⟩ := ihks hmk hma.2 b hb
      obtain ⟨s1, s2, s3⟩ := k2 hkt
      refine ⟨charsSep_append a b k1 r1 (Or.inl s2), fun _ => ?_⟩
      intro t ht
      obtain ⟨x, xs, rfl⟩ := List.exists_cons_of_ne_nil s3
      exact s1 t (by simpa using ht)
    | true =>
      cases k with
      | text s =>
        rw [mergedKids_text] at hmk
        simp only [Bool.and_eq_true, Bool.not_eq_true'] at hmk
        obtain ⟨r1, r2⟩ := ihks hmk.2 hma.2 b hb
        exact ⟨charsSep_append a b k1 r1 (Or.inr (r2 hmk.1.2)), fun h => by simp at h⟩
      | _ => simp [Node.isText] at hkt

end Delb.Wrapping

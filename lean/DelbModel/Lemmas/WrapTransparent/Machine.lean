import DelbModel.Lemmas.WrapTransparent.Hoare
/-!
# The text-wrapping serializer's methods in a form that is convenient for proofs

The `do` blocks of `Model/Wrapping.lean` with their join points named; every equation is `rfl`.
-/
namespace Delb.Wrapping
open Delb.Ser Delb.WS Delb.Pretty

/-- last step of `serialize_node` -/
def afterNodeK (st : St) (followingFits : Bool) : Except Err St :=
  if !followingFits then pure (write st [nl]) else pure st

/-- the tail of `serialize_node`: a newline after the node when that is legit and what follows does not fit -/
def afterNode (e : Env) (p : Path) (st : St) : Except Err St :=
  if legitAfter e.root p then
    match fetchFollowing e.root p with
    | none => afterNodeK st false
    | some following => nodeFitsRemainingLine e st following >>= afterNodeK st
  else pure st

/-- `Serializer.serialize_node` as called from the non-fitting branch, with continuation `k` -/
def plainNodeK (e : Env) (fuel : Nat) (p : Path) (node : Node) (st : St) (k : St → Except Err St) : Except Err St :=
  match node with
  | .tag _ _ attrs _ =>
    attrsData e.m (sortAttrs attrs) >>= fun ad =>
    serializeTag e fuel p ad (if directive attrs .default == .preserve then { st with preserveSpace := true } else st) >>= k
  | .comment s => k (write st [.comment s])
  | .pi t s => k (write st [.pi t s])
  | .text s => k (if s.isEmpty then st else write st [.text s])

/-- `serialize_node` after pending text has been written -/
def nodeStep (e : Env) (fuel : Nat) (p : Path) (node : Node) (st : St) : Except Err St :=
  nodeFitsRemainingLine e st p >>= fun fits =>
  if fits then
    serializeAppendableNode e p st >>= fun st =>
    if (availableSpace e st == 0 || isLastChild e.root p) && legitAfter e.root p then pure (write st [nl])
    else afterNode e p st
  else if lineOffset e st > 0 && legitBefore e.root p then serializeNode e fuel p (write st [nl])
  else
    plainNodeK e fuel p node
      (if !e.o.indent.isEmpty && st.offset == 0 && legitBefore e.root p then
        write st [.layout (indentN e.o st.level)] else st)
      (fun st => afterNode e p { st with preserveSpace := false })

theorem serializeNode_succ (e : Env) (fuel : Nat) (p : Path) (st : St) :
    serializeNode e (fuel+1) p st =
      (getNode e p >>= fun node =>
        if st.unwritten.isEmpty then nodeStep e fuel p node st
        else serializeText e st >>= nodeStep e fuel p node) := by
  rw [serializeNode]; rfl

theorem serializeTag_succ (e : Env) (fuel : Nat) (p : Path) (ad : List (Str × Str)) (st : St) :
    serializeTag e (fuel+1) p ad st =
      (nodeFitsRemainingLine e st p >>= fun fits =>
        if !p.isEmpty && fits then serializeAppendableNode e p st else prettySerializeTag e fuel p ad st) := by
  rw [serializeTag]

/-- `_space_preserving_serializer._serialize_tag(node, attributes_data)` -/
def preserveTag (st : St) (ad : List (Str × Str)) (toks : List Tok) : St :=
  match toks with
  | .stag qn _ sc :: rest => writeToks st (.stag qn ad sc :: rest)
  | ts => writeToks st ts

/-- `PrettySerializer._serialize_tag` for a node in default mode -/
def defaultTag (e : Env) (fuel : Nat) (p : Path) (ad : List (Str × Str)) (st : St) (ns name : String)
    (kids : List Node) : Except Err St :=
  pfx e.m ns >>= fun pr =>
  if kids.isEmpty then
    pure (write st [.stag (pr ++ name).toList (layoutAttrs e.o st.level ad).1 (layoutAttrs e.o st.level ad).2 true])
  else
    handleChildNodes e fuel p kids.length
      (write st [.stag (pr ++ name).toList (layoutAttrs e.o st.level ad).1 (layoutAttrs e.o st.level ad).2 false])
      >>= fun st => pure (write st [.etag (pr ++ name).toList])

theorem prettySerializeTag_succ (e : Env) (fuel : Nat) (p : Path) (ad : List (Str × Str)) (st : St) :
    prettySerializeTag e (fuel+1) p ad st =
      (getNode e p >>= fun node =>
        match node with
        | .tag ns name attrs kids =>
          if directive attrs .default == .preserve then
            emitNode e.m (.tag ns name attrs kids) >>= fun toks => pure (preserveTag st ad toks)
          else defaultTag e fuel p ad st ns name kids
        | _ => throw (.invalidCodePath "_serialize_tag on a non-tag node")) := by
  rw [prettySerializeTag]
  cases getNode e p with
  | error err => rfl
  | ok node =>
    cases node with
    | tag ns name attrs kids =>
      simp only [bind, Except.bind, defaultTag, preserveTag]
      split
      · cases emitNode e.m (.tag ns name attrs kids) with
        | error err => rfl
        | ok toks =>
          cases toks with
          | nil => rfl
          | cons t ts => cases t <;> rfl
      · rfl
    | _ => rfl

theorem handleChildNodes_succ (e : Env) (fuel : Nat) (p : Path) (n : Nat) (st : St) :
    handleChildNodes e (fuel+1) p n st =
      (serializeChildNodes e fuel p 0 n
          { (if legitBefore e.root (p ++ [0]) then write st [nl] else st) with
            level := (if legitBefore e.root (p ++ [0]) then write st [nl] else st).level + 1 } >>= fun st =>
        if !e.o.indent.isEmpty && legitAfter e.root (p ++ [n - 1]) then
          pure (write { st with level := st.level - 1 } [.layout (indentN e.o (st.level - 1))])
        else pure { st with level := st.level - 1 }) := by
  rw [handleChildNodes]

theorem serializeChildNodes_succ (e : Env) (fuel : Nat) (p : Path) (i n : Nat) (st : St) :
    serializeChildNodes e (fuel+1) p i n st =
      if i ≥ n then (if st.unwritten.isEmpty then pure st else serializeText e st)
      else
        getNode e (p ++ [i]) >>= fun node =>
        match node with
        | .text s =>
          serializeChildNodes e fuel p (i + 1) n
            (if s.isEmpty then st else { st with unwritten := st.unwritten ++ [p ++ [i]] })
        | _ => serializeNode e fuel (p ++ [i]) st >>= fun st => serializeChildNodes e fuel p (i + 1) n st := by
  rw [serializeChildNodes]
  split
  · rfl
  · cases getNode e (p ++ [i]) with
    | error err => rfl
    | ok node => cases node <;> rfl

/-! ## text -/

/-- the loop of `_serialize_text_over_lines` -/
def writeLines (pre : Str) (st : St) (lines : List Str) : St :=
  lines.foldl (fun st line => if line.isEmpty then write st [nl] else write st [.layout pre, textPiece line, nl]) st

/-- `_serialize_text_over_lines` from `_consolidate_text_lines` on -/
def linesK (e : Env) (st : St) (lines : List Str) : Except Err St :=
  consolidateTextLines e st lines >>= fun lines =>
  match lines.getLast? with
  | some lastLine =>
    pure (if lastLine.isEmpty then writeLines (indentN e.o st.level) st lines.dropLast
          else write (writeLines (indentN e.o st.level) st lines.dropLast) [.layout (indentN e.o st.level), textPiece lastLine])
  | _ => throw (.invalidCodePath "IndexError: lines[-1]")

/-- `_serialize_text_over_lines` once the lines are known -/
def overLinesTail (e : Env) (lastNode : Path) (st : St) (lines : List Str) : Except Err St :=
  match lines.getLast? with
  | some lastLine =>
    if lastLine.getLast? == some ' ' && legitAfter e.root lastNode then
      match fetchFollowingSibling e.root lastNode with
      | none => linesK e st lines
      | some followingSibling =>
        requiredSpace e e.fuel followingSibling ((e.width : Int) - lastLine.length) >>= fun r =>
        match r with
        | none => linesK e st (lines ++ [[]])
        | some 0 => linesK e st (lines ++ [[]])
        | some _ => linesK e st lines
    else linesK e st lines
  | _ => throw (.invalidCodePath "IndexError: lines[-1]")

/-- `_serialize_text_over_lines` in the middle of a line, once the first part is known -/
def fillingK (e : Env) (firstNode lastNode : Path) (st : St) (content : Str) (filling : Str) : Except Err St :=
  if !(filling.length > availableSpace e st && legitBefore e.root firstNode) then
    if (content.drop (filling.length + 1)).isEmpty then pure (write st [textPiece filling])
    else overLinesTail e lastNode (write st [textPiece filling])
      ([[]] ++ Wrap.wrapText e.width (content.drop (filling.length + 1)))
  else overLinesTail e lastNode st ([[]] ++ Wrap.wrapText e.width content)

theorem serializeTextOverLines_eq (e : Env) (st : St) (content : Str) :
    serializeTextOverLines e st content =
      match st.unwritten.head? with
      | some firstNode =>
        match st.unwritten.getLast? with
        | some lastNode =>
          if st.offset == 0 then
            overLinesTail e lastNode st
              ((if legitBefore e.root firstNode then [[]] else []) ++ Wrap.wrapText e.width (ltrim pyWs content))
          else if content.head? == some ' ' then
            wrapFirst ((availableSpace e st : Int) - 1) (content.drop 1) >>= fun f =>
              fillingK e firstNode lastNode st content (' ' :: f)
          else wrapFirst (availableSpace e st) content >>= fillingK e firstNode lastNode st content
        | _ => throw (.invalidCodePath "IndexError: no unwritten text nodes")
      | _ => throw (.invalidCodePath "IndexError: no unwritten text nodes") := by
  rw [serializeTextOverLines]
  rfl

/-- the end of `_serialize_text` -/
def finishText (st : St) : Except Err St := pure { st with unwritten := [] }

/-- `_serialize_text`, text fits current line, once it is known whether a line break follows -/
def fitsK (st : St) (pre content : Str) (lineBreak : Bool) : Except Err St :=
  finishText (write st (textPieces pre content lineBreak lineBreak))

def fitsLine (e : Env) (st : St) (lastNode : Path) (pre content : Str) : Except Err St :=
  if isLastChild e.root lastNode then fitsK st pre content true
  else
    match fetchFollowing e.root lastNode with
    | none => fitsK st pre content false
    | some following =>
      if legitBefore e.root following then
        requiredSpace e e.fuel following
          ((availableSpace e st : Int) - ((pre.length + content.length : Nat) : Int)) >>= fun r =>
        fitsK st pre content r.isNone
      else fitsK st pre content false

/-- `_serialize_text` for the content of the pending text nodes -/
def textBody (e : Env) (st : St) (content : Str) (lastNode : Path) : Except Err St :=
  if availableSpace e st == (rtrim pyWs content).length && legitAfter e.root lastNode then
    if st.offset == 0 then finishText (write st (textPieces (indentN e.o st.level) (ltrim pyWs content) true true))
    else finishText (write st (textPieces [] content true true))
  else if availableSpace e st > content.length then
    fitsLine e st lastNode (if st.offset == 0 then (indentN e.o st.level, ltrim pyWs content) else ([], content)).1
      (if st.offset == 0 then (indentN e.o st.level, ltrim pyWs content) else ([], content)).2
  else if content == [' '] then finishText (write st [nl])
  else serializeTextOverLines e st content >>= finishText

theorem serializeText_eq (e : Env) (st : St) :
    serializeText e st =
      (st.unwritten.mapM (textAt e) >>= fun ss =>
        match st.unwritten.getLast? with
        | some lastNode => textBody e st (normalizeText ss.flatten) lastNode
        | _ => throw (.invalidCodePath "IndexError: no unwritten text nodes")) := by
  rw [serializeText]
  rfl

theorem serializeAppendableNode_eq (e : Env) (p : Path) (st : St) :
    serializeAppendableNode e p st =
      (getNode e p >>= fun node =>
        match node with
        | .text _ => throw (.assertion "_serialize_appendable_node on a text node")
        | .comment s => pure (write (if st.offset == 0 && !e.o.indent.isEmpty then write st [.layout (indentN e.o st.level)] else st) [.comment s])
        | .pi t s => pure (write (if st.offset == 0 && !e.o.indent.isEmpty then write st [.layout (indentN e.o st.level)] else st) [.pi t s])
        | .tag _ _ attrs _ =>
          if directive attrs .default == .preserve then
            emitNode e.m node >>= fun toks =>
            pure { writeToks { (if st.offset == 0 && !e.o.indent.isEmpty then write st [.layout (indentN e.o st.level)] else st) with preserveSpace := true } toks with preserveSpace := false }
          else
            lfSerializeNode e.m node (if st.offset == 0 && !e.o.indent.isEmpty then write st [.layout (indentN e.o st.level)] else st) >>= fun st =>
            pure { st with preserveSpace := false }) := by
  rw [serializeAppendableNode]
  rfl

end Delb.Wrapping

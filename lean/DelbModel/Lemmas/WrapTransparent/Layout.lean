import DelbModel.Lemmas.WrapTransparent.Hoare
import DelbModel.Lemmas.WrapTransparent.Machine
import DelbModel.Lemmas.PrettyTransparent
/-!
# C03 (width ≥ 1), stage 1: every layout piece the text-wrapping serializer writes is whitespace
-/
set_option linter.unusedSimpArgs false
namespace Delb.Wrapping
open Delb.Ser Delb.WS Delb.Pretty

/-- all layout pieces consist of whitespace -/
def LW (ps : List Piece) : Prop := ∀ s, Piece.layout s ∈ ps → AllWs s

theorem LW_nil : LW [] := by intro s h; simp at h
theorem LW_append {a b : List Piece} (ha : LW a) (hb : LW b) : LW (a ++ b) := by
  intro s h
  rcases List.mem_append.1 h with h | h
  · exact ha s h
  · exact hb s h
theorem LW_cons_layout {s : Str} {ps : List Piece} (hs : AllWs s) (h : LW ps) : LW (.layout s :: ps) := by
  intro t ht
  rcases List.mem_cons.1 ht with h' | h'
  · cases h'; exact hs
  · exact h t h'
theorem LW_cons_other {p : Piece} {ps : List Piece} (hp : ∀ s, p ≠ .layout s) (h : LW ps) : LW (p :: ps) := by
  intro t ht
  rcases List.mem_cons.1 ht with h' | h'
  · exact absurd h'.symm (hp t)
  · exact h t h'
theorem LW_tail {p : Piece} {ps : List Piece} (h : LW (p :: ps)) : LW ps :=
  fun s hs => h s (List.mem_cons_of_mem _ hs)
theorem LW_filter {ps : List Piece} (f : Piece → Bool) (h : LW ps) : LW (ps.filter f) :=
  fun s hs => h s (List.mem_filter.1 hs).1

theorem allWs_dropWhile {s : Str} (f : Char → Bool) (h : AllWs s) : AllWs (s.dropWhile f) :=
  fun c hc => h c ((List.dropWhile_suffix f).subset hc)

theorem LW_stripNl : ∀ {ps : List Piece}, LW ps → LW (stripNl ps) := by
  intro ps
  induction ps with
  | nil => intro h; simpa [stripNl] using h
  | cons p ps ih =>
    intro h
    cases p with
    | text s =>
      simp only [stripNl]
      split
      · exact ih (LW_tail h)
      · exact LW_cons_other (by intro s; simp) (LW_tail h)
    | layout s =>
      simp only [stripNl]
      split
      · exact ih (LW_tail h)
      · exact LW_cons_layout (allWs_dropWhile _ (h s (by simp))) (LW_tail h)
    | verbatim ts =>
      match ts with
      | [.chars s] =>
        simp only [stripNl]
        split
        · exact ih (LW_tail h)
        · exact LW_cons_other (by intro s; simp) (LW_tail h)
      | [] => simpa [stripNl] using h
      | [.stag ..] => simpa [stripNl] using h
      | [.etag ..] => simpa [stripNl] using h
      | [.comment ..] => simpa [stripNl] using h
      | [.pi ..] => simpa [stripNl] using h
      | _ :: _ :: _ => simpa [stripNl] using h
    | stag => simpa [stripNl] using h
    | etag => simpa [stripNl] using h
    | comment => simpa [stripNl] using h
    | pi => simpa [stripNl] using h

/-- the pieces `write` looks at: leading newlines stripped at the beginning of a line, empty strings dropped -/
def prep (st : St) (ps : List Piece) : List Piece :=
  (if !st.preserveSpace && st.offset == 0 then stripNl ps else ps).filter (fun p => !isEmptyPiece p)

/-- the pieces `write` appends -/
def written (st : St) (ps : List Piece) : List Piece :=
  if (renderP (prep st ps)).isEmpty then [] else prep st ps

theorem write_eq (st : St) (ps : List Piece) :
    write st ps = if (renderP (prep st ps)).isEmpty then st
      else { st with out := st.out ++ prep st ps, offset := newOffset st.offset (renderP (prep st ps)) } := rfl

theorem write_out (st : St) (ps : List Piece) : (write st ps).out = st.out ++ written st ps := by
  rw [write_eq]; unfold written
  by_cases h : (renderP (prep st ps)).isEmpty = true <;> simp [h]

@[simp] theorem write_level (st : St) (ps : List Piece) : (write st ps).level = st.level := by
  rw [write_eq]; by_cases h : (renderP (prep st ps)).isEmpty = true <;> simp [h]
@[simp] theorem write_unwritten (st : St) (ps : List Piece) : (write st ps).unwritten = st.unwritten := by
  rw [write_eq]; by_cases h : (renderP (prep st ps)).isEmpty = true <;> simp [h]
@[simp] theorem write_space (st : St) (ps : List Piece) : (write st ps).space = st.space := by
  rw [write_eq]; by_cases h : (renderP (prep st ps)).isEmpty = true <;> simp [h]
@[simp] theorem write_preserveSpace (st : St) (ps : List Piece) : (write st ps).preserveSpace = st.preserveSpace := by
  rw [write_eq]; by_cases h : (renderP (prep st ps)).isEmpty = true <;> simp [h]

theorem prep_LW {st : St} {ps : List Piece} (hp : LW ps) : LW (prep st ps) := by
  unfold prep
  apply LW_filter
  by_cases h : (!st.preserveSpace && st.offset == 0) = true
  · rw [if_pos h]; exact LW_stripNl hp
  · rw [if_neg h]; exact hp

theorem written_LW {st : St} {ps : List Piece} (hp : LW ps) : LW (written st ps) := by
  unfold written
  by_cases h : (renderP (prep st ps)).isEmpty = true
  · rw [if_pos h]; exact LW_nil
  · rw [if_neg h]; exact prep_LW hp

theorem write_LW {st : St} {ps : List Piece} (h : LW st.out) (hp : LW ps) : LW (write st ps).out := by
  rw [write_out]; exact LW_append h (written_LW hp)

theorem LW_nl : LW [nl] := LW_cons_layout allWs_nl LW_nil

theorem LW_single_other {p : Piece} (hp : ∀ s, p ≠ .layout s) : LW [p] := LW_cons_other hp LW_nil

theorem writeToks_LW : ∀ (ts : List Tok) {st : St}, LW st.out → LW (writeToks st ts).out := by
  intro ts
  induction ts with
  | nil => intro st h; exact h
  | cons t ts ih =>
    intro st h
    simp only [writeToks, List.foldl_cons]
    exact ih (write_LW h (LW_single_other (by intro s; simp)))

theorem lf_LW (m : Dict) :
    (∀ n : Node, ∀ st, LW st.out → Post (lfSerializeNode m n st) (fun st' => LW st'.out)) ∧
    (∀ l : List Node, ∀ st, LW st.out → Post (lfHandleChildNodes m l st) (fun st' => LW st'.out)) := by
  apply Pretty.node_induct
  · intro ns name attrs kids ih st h st' hst
    rw [lfSerializeNode] at hst
    simp only at hst
    split at hst
    · cases hst
    · cases hst
    · rename_i p ad _ _
      split at hst
      · cases hst
      · rename_i st1 hbody
        cases hst
        have : LW st1.out := by
          split at hbody
          · cases hbody
            apply write_LW _ (LW_single_other (by intro s; simp))
            split <;> exact h
          · split at hbody
            · cases hbody
            · rename_i st2 hk
              cases hbody
              apply write_LW _ (LW_single_other (by intro s; simp))
              refine ih _ ?_ _ hk
              apply write_LW _ (LW_single_other (by intro s; simp))
              split <;> exact h
        split <;> exact this
  · intro s st h st' hst
    rw [lfSerializeNode] at hst
    split at hst
    · cases hst; exact h
    · split at hst <;> (cases hst; exact write_LW h (LW_single_other (by intro s; simp)))
  · intro s st h st' hst
    rw [lfSerializeNode] at hst
    cases hst; exact write_LW h (LW_single_other (by intro s; simp))
  · intro t s st h st' hst
    rw [lfSerializeNode] at hst
    cases hst; exact write_LW h (LW_single_other (by intro s; simp))
  · intro st h st' hst
    rw [lfHandleChildNodes] at hst
    cases hst; exact h
  · intro k ks ihk ihks st h st' hst
    rw [lfHandleChildNodes] at hst
    split at hst
    · cases hst
    · rename_i st1 h1
      exact ihks _ (ihk _ h _ h1) _ hst
theorem allWs_rtrim {s : Str} (h : AllWs s) : AllWs (rtrim pyWs s) := by
  intro c hc
  unfold rtrim at hc
  rw [List.mem_reverse] at hc
  exact h c (List.mem_reverse.1 ((List.dropWhile_suffix _).subset hc))

theorem LW_textPieces {pre body : Str} (hpre : AllWs pre) (r n : Bool) : LW (textPieces pre body r n) := by
  unfold textPieces textPiece
  simp only
  apply LW_append
  · apply LW_cons_layout
    · exact allWs_ite (allWs_rtrim hpre) hpre
    · exact LW_single_other (by intro s; simp)
  · exact (by split; exact LW_nl; exact LW_nil)

theorem LW_line {pre line : Str} (hpre : AllWs pre) : LW [.layout pre, textPiece line, nl] :=
  LW_cons_layout hpre (LW_cons_other (by intro s; simp [textPiece]) LW_nl)
theorem LW_lastLine {pre line : Str} (hpre : AllWs pre) : LW [.layout pre, textPiece line] :=
  LW_cons_layout hpre (LW_single_other (by intro s; simp [textPiece]))

theorem writeLines_LW {pre : Str} (hpre : AllWs pre) : ∀ (lines : List Str) {st : St}, LW st.out →
    LW (writeLines pre st lines).out := by
  intro lines
  induction lines with
  | nil => intro st h; exact h
  | cons l ls ih =>
    intro st h
    simp only [writeLines, List.foldl_cons]
    apply ih
    split
    · exact write_LW h LW_nl
    · exact write_LW h (LW_line hpre)

section
variable (e : Env) (hind : AllWs e.o.indent)
include hind

theorem linesK_LW {st : St} (h : LW st.out) (lines : List Str) : Post (linesK e st lines) (fun st' => LW st'.out) := by
  unfold linesK
  refine Post_bind_of (Post_true _) (fun lines' _ => ?_)
  have hpre := allWs_indentN e.o hind st.level
  split
  · rw [Post_pure]
    split
    · exact writeLines_LW hpre _ h
    · exact write_LW (writeLines_LW hpre _ h) (LW_lastLine hpre)
  · exact Post_throw _ _

theorem overLinesTail_LW {st : St} (h : LW st.out) (lastNode : Path) (lines : List Str) :
    Post (overLinesTail e lastNode st lines) (fun st' => LW st'.out) := by
  unfold overLinesTail
  split
  · split
    · split
      · exact linesK_LW e hind h _
      · refine Post_bind_of (Post_true _) (fun r _ => ?_)
        split <;> exact linesK_LW e hind h _
    · exact linesK_LW e hind h _
  · exact Post_throw _ _

theorem fillingK_LW {st : St} (h : LW st.out) (f l : Path) (content filling : Str) :
    Post (fillingK e f l st content filling) (fun st' => LW st'.out) := by
  unfold fillingK
  have h1 : LW (write st [textPiece filling]).out := write_LW h (LW_single_other (by intro s; simp [textPiece]))
  split
  · split
    · rw [Post_pure]; exact h1
    · exact overLinesTail_LW e hind h1 _ _
  · exact overLinesTail_LW e hind h _ _

theorem serializeTextOverLines_LW {st : St} (h : LW st.out) (content : Str) :
    Post (serializeTextOverLines e st content) (fun st' => LW st'.out) := by
  rw [serializeTextOverLines_eq]
  split
  · split
    · split
      · exact overLinesTail_LW e hind h _ _
      · split
        · exact Post_bind_of (Post_true _) (fun _ _ => fillingK_LW e hind h _ _ _ _)
        · exact Post_bind_of (Post_true _) (fun _ _ => fillingK_LW e hind h _ _ _ _)
    · exact Post_throw _ _
  · exact Post_throw _ _

omit hind in
theorem finishText_LW {st : St} (h : LW st.out) : Post (finishText st) (fun st' => LW st'.out) := by
  unfold finishText; rw [Post_pure]; exact h

omit hind in
theorem fitsLine_LW {st : St} (h : LW st.out) (lastNode : Path) (pre content : Str) (hpre : AllWs pre) :
    Post (fitsLine e st lastNode pre content) (fun st' => LW st'.out) := by
  have hk : ∀ b, Post (fitsK st pre content b) (fun st' => LW st'.out) := fun b =>
    finishText_LW (write_LW h (LW_textPieces hpre _ _))
  unfold fitsLine
  split
  · exact hk _
  · split
    · exact hk _
    · split
      · exact Post_bind_of (Post_true _) (fun _ _ => hk _)
      · exact hk _

theorem serializeText_LW {st : St} (h : LW st.out) : Post (serializeText e st) (fun st' => LW st'.out) := by
  rw [serializeText_eq]
  refine Post_bind_of (Post_true _) (fun ss _ => ?_)
  split
  · unfold textBody
    have hpre := allWs_indentN e.o hind st.level
    split
    · split
      · exact finishText_LW (write_LW h (LW_textPieces hpre _ _))
      · exact finishText_LW (write_LW h (LW_textPieces allWs_nil _ _))
    · split
      · apply fitsLine_LW e h
        split
        · exact hpre
        · exact allWs_nil
      · split
        · exact finishText_LW (write_LW h LW_nl)
        · exact Post_bind_of (serializeTextOverLines_LW e hind h _) (fun st1 h1 => finishText_LW h1)
  · exact Post_throw _ _

theorem serializeAppendableNode_LW {st : St} (h : LW st.out) (p : Path) :
    Post (serializeAppendableNode e p st) (fun st' => LW st'.out) := by
  rw [serializeAppendableNode_eq]
  refine Post_bind_of (Post_true _) (fun node _ => ?_)
  have h0 : LW (if (st.offset == 0 && !e.o.indent.isEmpty) = true then write st [.layout (indentN e.o st.level)] else st).out := by
    split
    · exact write_LW h (LW_cons_layout (allWs_indentN e.o hind _) LW_nil)
    · exact h
  split
  · exact Post_throw _ _
  · rw [Post_pure]; exact write_LW h0 (LW_single_other (by intro s; simp))
  · rw [Post_pure]; exact write_LW h0 (LW_single_other (by intro s; simp))
  · split
    · refine Post_bind_of (Post_true _) (fun toks _ => ?_)
      rw [Post_pure]
      exact writeToks_LW toks h0
    · refine Post_bind_of ((lf_LW e.m).1 _ _ h0) (fun st1 h1 => ?_)
      rw [Post_pure]; exact h1
end
section
variable (e : Env) (hind : AllWs e.o.indent)
include hind

omit hind in
theorem afterNode_LW {st : St} (h : LW st.out) (p : Path) : Post (afterNode e p st) (fun st' => LW st'.out) := by
  have hk : ∀ b, Post (afterNodeK st b) (fun st' => LW st'.out) := by
    intro b; unfold afterNodeK
    split
    · rw [Post_pure]; exact write_LW h LW_nl
    · rw [Post_pure]; exact h
  unfold afterNode
  split
  · split
    · exact hk _
    · exact Post_bind_of (Post_true _) (fun _ _ => hk _)
  · rw [Post_pure]; exact h

def LWP (x : Except Err St) : Prop := Post x (fun st' => LW st'.out)

theorem machine_LW : ∀ fuel,
    (∀ p st, LW st.out → LWP (serializeNode e fuel p st)) ∧
    (∀ p ad st, LW st.out → LWP (serializeTag e fuel p ad st)) ∧
    (∀ p ad st, LW st.out → LWP (prettySerializeTag e fuel p ad st)) ∧
    (∀ p n st, LW st.out → LWP (handleChildNodes e fuel p n st)) ∧
    (∀ p i n st, LW st.out → LWP (serializeChildNodes e fuel p i n st)) := by
  intro fuel
  induction fuel with
  | zero =>
    refine ⟨?_, ?_, ?_, ?_, ?_⟩ <;> intros <;> intro a h <;> simp [serializeNode, serializeTag, prettySerializeTag, handleChildNodes, serializeChildNodes] at h
  | succ fuel ih =>
    obtain ⟨ihN, ihT, ihP, ihH, ihC⟩ := ih
    have hindent : ∀ l, LW [Piece.layout (indentN e.o l)] := fun l => LW_cons_layout (allWs_indentN e.o hind l) LW_nil
    refine ⟨?_, ?_, ?_, ?_, ?_⟩
    · intro p st h
      unfold LWP
      rw [serializeNode_succ]
      refine Post_bind_of (Post_true _) (fun node _ => ?_)
      have hstep : ∀ st, LW st.out → Post (nodeStep e fuel p node st) (fun st' => LW st'.out) := by
        intro st h
        unfold nodeStep
        refine Post_bind_of (Post_true _) (fun fits _ => ?_)
        split
        · refine Post_bind_of (serializeAppendableNode_LW e hind h p) (fun st1 h1 => ?_)
          split
          · rw [Post_pure]; exact write_LW h1 LW_nl
          · exact afterNode_LW e h1 p
        · split
          · exact ihN _ _ (write_LW h LW_nl)
          · have h0 : LW (if (!e.o.indent.isEmpty && st.offset == 0 && legitBefore e.root p) = true then
                write st [.layout (indentN e.o st.level)] else st).out := by
              split
              · exact write_LW h (hindent _)
              · exact h
            generalize (if (!e.o.indent.isEmpty && st.offset == 0 && legitBefore e.root p) = true then
                write st [.layout (indentN e.o st.level)] else st) = st0 at h0
            have hk : ∀ st1 : St, LW st1.out → Post (afterNode e p { st1 with preserveSpace := false }) (fun st' => LW st'.out) :=
              fun st1 h1 => afterNode_LW e (st := { st1 with preserveSpace := false }) h1 p
            unfold plainNodeK
            split
            · refine Post_bind_of (Post_true _) (fun ad _ => ?_)
              refine Post_bind_of (ihT _ _ _ ?_) hk
              split <;> exact h0
            · exact hk _ (write_LW h0 (LW_single_other (by intro s; simp)))
            · exact hk _ (write_LW h0 (LW_single_other (by intro s; simp)))
            · apply hk
              split
              · exact h0
              · exact write_LW h0 (LW_single_other (by intro s; simp))
      split
      · exact hstep _ h
      · exact Post_bind_of (serializeText_LW e hind h) hstep
    · intro p ad st h
      unfold LWP
      rw [serializeTag_succ]
      refine Post_bind_of (Post_true _) (fun fits _ => ?_)
      split
      · exact serializeAppendableNode_LW e hind h p
      · exact ihP _ _ _ h
    · intro p ad st h
      unfold LWP
      rw [prettySerializeTag_succ]
      refine Post_bind_of (Post_true _) (fun node _ => ?_)
      split
      · split
        · refine Post_bind_of (Post_true _) (fun toks _ => ?_)
          rw [Post_pure]
          unfold preserveTag
          split <;> exact writeToks_LW _ h
        · unfold defaultTag
          refine Post_bind_of (Post_true _) (fun pr _ => ?_)
          split
          · rw [Post_pure]; exact write_LW h (LW_single_other (by intro s; simp))
          · refine Post_bind_of (ihH _ _ _ (write_LW h (LW_single_other (by intro s; simp)))) (fun st1 h1 => ?_)
            rw [Post_pure]; exact write_LW h1 (LW_single_other (by intro s; simp))
      · exact Post_throw _ _
    · intro p n st h
      unfold LWP
      rw [handleChildNodes_succ]
      refine Post_bind_of (ihC _ _ _ _ ?_) (fun st1 h1 => ?_)
      · show LW (if legitBefore e.root (p ++ [0]) = true then write st [nl] else st).out
        split
        · exact write_LW h LW_nl
        · exact h
      · split
        · rw [Post_pure]; exact write_LW h1 (hindent _)
        · rw [Post_pure]; exact h1
    · intro p i n st h
      unfold LWP
      rw [serializeChildNodes_succ]
      split
      · split
        · rw [Post_pure]; exact h
        · exact serializeText_LW e hind h
      · refine Post_bind_of (Post_true _) (fun node _ => ?_)
        split
        · apply ihC
          split <;> exact h
        · exact Post_bind_of (ihN _ _ h) (fun st1 h1 => ihC _ _ _ _ h1)
end

theorem wrapRoot_layout (o : Opts) (ho : AllWs o.indent) (width : Nat) (m : Dict) (t : Node)
    (ps : List Piece) (h : wrapRoot o width m t = .ok ps) : LW ps := by
  unfold wrapRoot at h
  split at h
  · split at h
    · cases h
    · dsimp only at h
      split at h
      · cases h
      · rename_i st hst
        cases h
        exact ((machine_LW _ ho _).2.1 _ _ _ LW_nil) _ hst
  · cases h
end Delb.Wrapping

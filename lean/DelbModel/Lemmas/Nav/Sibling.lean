import DelbModel.Model.Nav
import DelbModel.Lemmas.Edit
/-!
# C05 helper lemmas: sibling walking on the slot/chain encoding
-/
namespace Delb.Nav
open Delb.Edit

/-! ## prefix sums of the visible widths of the child elements -/

/-- the number of visible children contributed by the first `k` child elements -/
def takeSum (kids : List (El × Chain)) (k : Nat) : Nat :=
  ((kids.take k).map (fun p => 1 + p.2.length)).sum

theorem takeSum_zero (kids : List (El × Chain)) : takeSum kids 0 = 0 := by simp [takeSum]

theorem takeSum_eq_absKids (kids : List (El × Chain)) (k : Nat) :
    takeSum kids k = (absKids (kids.take k)).length := by
  rw [absKids_length, takeSum]

theorem takeSum_succ (kids : List (El × Chain)) (k : Nat) (h : k < kids.length) :
    takeSum kids (k + 1) = takeSum kids k + (1 + (tailOf kids k).length) := by
  induction kids generalizing k with
  | nil => simp at h
  | cons x kids ih =>
    cases k with
    | zero => simp [takeSum, tailOf]
    | succ k =>
      have h' : k < kids.length := by simpa using h
      have := ih k h'
      simp only [takeSum, List.take_succ_cons, List.map_cons, List.sum_cons] at this ⊢
      have ht : tailOf (x :: kids) (k + 1) = tailOf kids k := by simp [tailOf]
      rw [ht]; omega

/-- the total width splits into the prefix sum and a rest that counts at least the remaining elements -/
theorem takeSum_rest (kids : List (El × Chain)) (k : Nat) (h : k ≤ kids.length) :
    ∃ r, (kids.map (fun p => 1 + p.2.length)).sum = takeSum kids k + r ∧ kids.length - k ≤ r ∧
      (k = kids.length → r = 0) := by
  induction kids generalizing k with
  | nil => exact ⟨0, by simp [takeSum], by simp, by simp⟩
  | cons x kids ih =>
    cases k with
    | zero =>
      refine ⟨((x :: kids).map (fun p => 1 + p.2.length)).sum, by simp [takeSum], ?_, by simp⟩
      obtain ⟨r, h1, h2, _⟩ := ih 0 (by simp)
      simp only [List.map_cons, List.sum_cons, List.length_cons]
      rw [h1]; simp at h2; omega
    | succ k =>
      obtain ⟨r, h1, h2, h3⟩ := ih k (by simpa using h)
      refine ⟨r, ?_, by simpa using h2, by simpa using h3⟩
      simp only [takeSum, List.take_succ_cons, List.map_cons, List.sum_cons] at h1 ⊢
      rw [h1]; omega

theorem visLen_takeSum (data : Chain) (kids : List (El × Chain)) (k : Nat) (h : k ≤ kids.length) :
    ∃ r, visLen data kids = data.length + takeSum kids k + r ∧ kids.length - k ≤ r ∧
      (k = kids.length → r = 0) := by
  obtain ⟨r, h1, h2, h3⟩ := takeSum_rest kids k h
  exact ⟨r, by simp [visLen, h1]; omega, h2, h3⟩

theorem locIndex_elem (data : Chain) (kids : List (El × Chain)) (k : Nat) :
    locIndex data kids (.elem k) = data.length + takeSum kids k := rfl

theorem locIndex_inTail (data : Chain) (kids : List (El × Chain)) (k j : Nat) :
    locIndex data kids (.inTail k j) = data.length + takeSum kids k + 1 + j := rfl

theorem locIndex_inData (data : Chain) (kids : List (El × Chain)) (j : Nat) :
    locIndex data kids (.inData j) = j := rfl

theorem tailOf_length_of_ge (kids : List (El × Chain)) (k : Nat) (h : kids.length ≤ k) :
    tailOf kids k = [] := by
  simp [tailOf, List.getElem?_eq_none h]

/-! ## valid locations are the ones `locate` describes -/

theorem locValid_LocAt (data : Chain) (kids : List (El × Chain)) (l : Loc)
    (hv : locValid data kids l = true) : LocAt data kids (locIndex data kids l) l := by
  cases l with
  | inData j => exact ⟨rfl, by simpa [locValid] using hv⟩
  | elem k =>
    have hk : k < kids.length := by simpa [locValid] using hv
    obtain ⟨pre, x, post, hsplit, hlen⟩ := lt_length_split hk
    obtain ⟨e, tl⟩ := x
    refine ⟨pre, e, tl, post, hsplit, hlen, ?_⟩
    rw [locIndex_elem, takeSum_eq_absKids]
    subst hsplit hlen
    simp
  | inTail k j =>
    simp only [locValid, Bool.and_eq_true, decide_eq_true_eq] at hv
    obtain ⟨hk, hj⟩ := hv
    obtain ⟨pre, x, post, hsplit, hlen⟩ := lt_length_split hk
    obtain ⟨e, tl⟩ := x
    subst hsplit hlen
    rw [tailOf_mid] at hj
    refine ⟨pre, e, tl, post, rfl, rfl, hj, ?_⟩
    rw [locIndex_inTail, takeSum_eq_absKids]
    simp

theorem locIndex_lt (data : Chain) (kids : List (El × Chain)) (l : Loc)
    (hv : locValid data kids l = true) : locIndex data kids l < visLen data kids := by
  rw [visLen_eq]
  exact locate_lt _ _ _ _ (locValid_LocAt data kids l hv)

/-- the node at a valid location is the visible child at the location's index -/
theorem locNode_eq (data : Chain) (kids : List (El × Chain)) (l : Loc)
    (hv : locValid data kids l = true) :
    locNode data kids l = (absChain data ++ absKids kids)[locIndex data kids l]? := by
  have h := locValid_LocAt data kids l hv
  cases l with
  | inData j =>
    obtain ⟨t, h1, h2⟩ := h.inData_get
    rw [h2]; simp [locNode, h1]
  | elem k =>
    obtain ⟨e, tl, h1, h2⟩ := h.elem_get
    rw [h2]; simp [locNode, h1]
  | inTail k j =>
    obtain ⟨t, h1, h2⟩ := h.inTail_get
    rw [h2]; simp [locNode, h1]

/-! ## `locate`, `nextLoc`, `prevLoc` against the index -/

theorem locate_index (data : Chain) (kids : List (El × Chain)) (i : Nat) (l : Loc)
    (h : locate data kids i = some l) : locIndex data kids l = i ∧ locValid data kids l = true := by
  have hl := locate_sound _ _ _ _ h
  cases l with
  | inData j =>
    obtain ⟨rfl, hj⟩ := hl
    exact ⟨rfl, by simpa [locValid] using hj⟩
  | elem k =>
    obtain ⟨pre, e, tl, post, rfl, rfl, rfl⟩ := hl
    refine ⟨?_, by simp [locValid]⟩
    rw [locIndex_elem, takeSum_eq_absKids]; simp
  | inTail k j =>
    obtain ⟨pre, e, tl, post, rfl, rfl, hj, rfl⟩ := hl
    refine ⟨?_, by simp [locValid, tailOf_mid, hj]⟩
    rw [locIndex_inTail, takeSum_eq_absKids]; simp

theorem next_index (data : Chain) (kids : List (El × Chain)) (l : Loc) (hv : locValid data kids l = true) :
    (∀ l', nextLoc data kids l = some l' →
        locIndex data kids l' = locIndex data kids l + 1 ∧ locValid data kids l' = true) ∧
    (nextLoc data kids l = none ↔ locIndex data kids l + 1 = visLen data kids) := by
  cases l with
  | inData j =>
    have hj : j < data.length := by simpa [locValid] using hv
    obtain ⟨r, hr1, hr2, hr3⟩ := visLen_takeSum data kids 0 (Nat.zero_le _)
    rw [takeSum_zero] at hr1
    simp only [nextLoc, locIndex_inData]
    by_cases h1 : j + 1 < data.length
    · simp only [h1, if_true]
      refine ⟨?_, by simp; omega⟩
      intro l' hl'; cases hl'
      exact ⟨rfl, by simpa [locValid] using h1⟩
    · simp only [h1, if_false]
      by_cases h2 : kids.length > 0
      · simp only [h2, if_true]
        refine ⟨?_, by simp; omega⟩
        intro l' hl'; cases hl'
        exact ⟨by rw [locIndex_elem, takeSum_zero]; omega, by simpa [locValid] using h2⟩
      · simp only [h2, if_false]
        refine ⟨by simp, ?_⟩
        have := hr3 (by omega)
        simp; omega
  | elem k =>
    have hk : k < kids.length := by simpa [locValid] using hv
    obtain ⟨r, hr1, hr2, hr3⟩ := visLen_takeSum data kids (k + 1) hk
    have hs := takeSum_succ kids k hk
    simp only [nextLoc, locIndex_elem]
    by_cases h1 : (tailOf kids k).length > 0
    · simp only [h1, if_true]
      refine ⟨?_, by simp; omega⟩
      intro l' hl'; cases hl'
      exact ⟨by rw [locIndex_inTail], by simp [locValid, hk, h1]⟩
    · simp only [h1, if_false]
      by_cases h2 : k + 1 < kids.length
      · simp only [h2, if_true]
        refine ⟨?_, by simp; omega⟩
        intro l' hl'; cases hl'
        exact ⟨by rw [locIndex_elem]; omega, by simpa [locValid] using h2⟩
      · simp only [h2, if_false]
        refine ⟨by simp, ?_⟩
        have := hr3 (by omega)
        simp; omega
  | inTail k j =>
    simp only [locValid, Bool.and_eq_true, decide_eq_true_eq] at hv
    obtain ⟨hk, hj⟩ := hv
    obtain ⟨r, hr1, hr2, hr3⟩ := visLen_takeSum data kids (k + 1) hk
    have hs := takeSum_succ kids k hk
    simp only [nextLoc, locIndex_inTail]
    by_cases h1 : j + 1 < (tailOf kids k).length
    · simp only [h1, if_true]
      refine ⟨?_, by simp; omega⟩
      intro l' hl'; cases hl'
      exact ⟨by rw [locIndex_inTail]; omega, by simp [locValid, hk, h1]⟩
    · simp only [h1, if_false]
      by_cases h2 : k + 1 < kids.length
      · simp only [h2, if_true]
        refine ⟨?_, by simp; omega⟩
        intro l' hl'; cases hl'
        exact ⟨by rw [locIndex_elem]; omega, by simpa [locValid] using h2⟩
      · simp only [h2, if_false]
        refine ⟨by simp, ?_⟩
        have := hr3 (by omega)
        simp; omega

theorem prev_index (data : Chain) (kids : List (El × Chain)) (l : Loc) (hv : locValid data kids l = true) :
    (∀ l', prevLoc data kids l = some l' →
        locIndex data kids l' + 1 = locIndex data kids l ∧ locValid data kids l' = true) ∧
    (prevLoc data kids l = none ↔ locIndex data kids l = 0) := by
  cases l with
  | inData j =>
    have hj : j < data.length := by simpa [locValid] using hv
    cases j with
    | zero => simp [prevLoc, locIndex_inData]
    | succ j =>
      simp only [prevLoc, locIndex_inData]
      refine ⟨?_, by simp⟩
      intro l' hl'; cases hl'
      exact ⟨rfl, by simp [locValid]; omega⟩
  | elem k =>
    have hk : k < kids.length := by simpa [locValid] using hv
    cases k with
    | zero =>
      simp only [prevLoc, locIndex_elem, takeSum_zero]
      by_cases h1 : data.length > 0
      · simp only [h1, if_true]
        refine ⟨?_, ⟨fun h => (by cases h), fun h => (by omega)⟩⟩
        intro l' hl'; cases hl'
        exact ⟨by rw [locIndex_inData]; omega, by simp [locValid]; omega⟩
      · simp only [h1, if_false]
        exact ⟨by simp, ⟨fun _ => (by omega), fun _ => (by simp)⟩⟩
    | succ k =>
      have hk' : k < kids.length := by omega
      have hs := takeSum_succ kids k hk'
      simp only [prevLoc, locIndex_elem]
      by_cases h1 : (tailOf kids k).length > 0
      · simp only [h1, if_true]
        refine ⟨?_, by simp; omega⟩
        intro l' hl'; cases hl'
        exact ⟨by rw [locIndex_inTail]; omega, by simp [locValid, hk']; omega⟩
      · simp only [h1, if_false]
        refine ⟨?_, by simp; omega⟩
        intro l' hl'; cases hl'
        exact ⟨by rw [locIndex_elem]; omega, by simpa [locValid] using hk'⟩
  | inTail k j =>
    simp only [locValid, Bool.and_eq_true, decide_eq_true_eq] at hv
    obtain ⟨hk, hj⟩ := hv
    cases j with
    | zero =>
      simp only [prevLoc, locIndex_inTail]
      refine ⟨?_, by simp⟩
      intro l' hl'; cases hl'
      exact ⟨by rw [locIndex_elem], by simpa [locValid] using hk⟩
    | succ j =>
      simp only [prevLoc, locIndex_inTail]
      refine ⟨?_, by simp⟩
      intro l' hl'; cases hl'
      exact ⟨by rw [locIndex_inTail]; omega, by simp [locValid, hk]; omega⟩

/-! ## `locIndex` is injective on valid locations; the two sibling relations are inverse -/

theorem takeSum_mono (kids : List (El × Chain)) (k k' : Nat) (h : k ≤ k') (h' : k' ≤ kids.length) :
    takeSum kids k ≤ takeSum kids k' := by
  induction k' with
  | zero => have : k = 0 := by omega
            subst this; exact Nat.le_refl _
  | succ n ih =>
    by_cases hk : k = n + 1
    · subst hk; exact Nat.le_refl _
    · have := ih (by omega) (by omega)
      have hs := takeSum_succ kids n (by omega)
      omega

theorem locIndex_inj (data : Chain) (kids : List (El × Chain)) (l l' : Loc)
    (hv : locValid data kids l = true) (hv' : locValid data kids l' = true)
    (h : locIndex data kids l = locIndex data kids l') : l = l' := by
  have key : ∀ k k', k < kids.length → k' < kids.length → k < k' →
      takeSum kids k + (1 + (tailOf kids k).length) ≤ takeSum kids k' := by
    intro k k' hk hk' hlt
    have := takeSum_mono kids (k + 1) k' (by omega) (by omega)
    have := takeSum_succ kids k hk
    omega
  cases l with
  | inData j =>
    cases l' with
    | inData j' => simp only [locIndex_inData] at h; rw [h]
    | elem k' =>
      simp [locValid] at hv; simp only [locIndex_inData, locIndex_elem] at h; omega
    | inTail k' j' =>
      simp [locValid] at hv; simp only [locIndex_inData, locIndex_inTail] at h; omega
  | elem k =>
    have hk : k < kids.length := by simpa [locValid] using hv
    cases l' with
    | inData j' =>
      simp [locValid] at hv'; simp only [locIndex_inData, locIndex_elem] at h; omega
    | elem k' =>
      have hk' : k' < kids.length := by simpa [locValid] using hv'
      simp only [locIndex_elem] at h
      have h1 := key k k' hk hk'
      have h2 := key k' k hk' hk
      have : k = k' := by omega
      rw [this]
    | inTail k' j' =>
      simp only [locValid, Bool.and_eq_true, decide_eq_true_eq] at hv'
      obtain ⟨hk', hj'⟩ := hv'
      simp only [locIndex_inTail, locIndex_elem] at h
      have h1 := key k k' hk hk'
      have h2 := key k' k hk' hk
      exfalso
      by_cases hkk : k = k'
      · subst hkk; omega
      · omega
  | inTail k j =>
    simp only [locValid, Bool.and_eq_true, decide_eq_true_eq] at hv
    obtain ⟨hk, hj⟩ := hv
    cases l' with
    | inData j' =>
      simp [locValid] at hv'; simp only [locIndex_inData, locIndex_inTail] at h; omega
    | elem k' =>
      have hk' : k' < kids.length := by simpa [locValid] using hv'
      simp only [locIndex_inTail, locIndex_elem] at h
      have h1 := key k k' hk hk'
      have h2 := key k' k hk' hk
      exfalso
      by_cases hkk : k = k'
      · subst hkk; omega
      · omega
    | inTail k' j' =>
      simp only [locValid, Bool.and_eq_true, decide_eq_true_eq] at hv'
      obtain ⟨hk', hj'⟩ := hv'
      simp only [locIndex_inTail] at h
      have h1 := key k k' hk hk'
      have h2 := key k' k hk' hk
      by_cases hkk : k = k'
      · subst hkk
        have : j = j' := by omega
        rw [this]
      · exfalso; omega

theorem next_prev_inverse (data : Chain) (kids : List (El × Chain)) (l l' : Loc)
    (hv : locValid data kids l = true) (hv' : locValid data kids l' = true) :
    nextLoc data kids l = some l' ↔ prevLoc data kids l' = some l := by
  have hn := next_index data kids l hv
  have hp := prev_index data kids l' hv'
  constructor
  · intro h
    obtain ⟨h1, _⟩ := hn.1 l' h
    cases hpl : prevLoc data kids l' with
    | none => have := hp.2.1 hpl; omega
    | some l'' =>
      obtain ⟨h2, h3⟩ := hp.1 l'' hpl
      rw [locIndex_inj data kids l'' l h3 hv (by omega)]
  · intro h
    obtain ⟨h1, _⟩ := hp.1 l h
    have hlt := locIndex_lt data kids l' hv'
    cases hnl : nextLoc data kids l with
    | none => have := hn.2.1 hnl; omega
    | some l'' =>
      obtain ⟨h2, h3⟩ := hn.1 l'' hnl
      rw [locIndex_inj data kids l'' l' h3 hv' (by omega)]

/-! ## walking -/

theorem walkFrom_none (data : Chain) (kids : List (El × Chain)) (fuel : Nat) :
    walkFrom data kids fuel none = [] := by
  cases fuel <;> rfl

theorem walkFrom_spec (data : Chain) (kids : List (El × Chain)) (fuel : Nat) (l : Loc)
    (hv : locValid data kids l = true) (hf : visLen data kids - locIndex data kids l ≤ fuel) :
    (walkFrom data kids fuel (some l)).filterMap (locNode data kids) =
        (absChain data ++ absKids kids).drop (locIndex data kids l) ∧
    (walkFrom data kids fuel (some l)).map (locIndex data kids) =
        List.range' (locIndex data kids l) (visLen data kids - locIndex data kids l) := by
  induction fuel generalizing l with
  | zero => have := locIndex_lt data kids l hv; omega
  | succ fuel ih =>
    have hlt := locIndex_lt data kids l hv
    have hn := next_index data kids l hv
    have hlen : locIndex data kids l < (absChain data ++ absKids kids).length := by
      rw [← visLen_eq]; exact hlt
    have hnode : locNode data kids l = some ((absChain data ++ absKids kids)[locIndex data kids l]) := by
      rw [locNode_eq data kids l hv, List.getElem?_eq_getElem hlen]
    have hvl : visLen data kids - locIndex data kids l = (visLen data kids - (locIndex data kids l + 1)) + 1 := by
      omega
    simp only [walkFrom, List.filterMap_cons, hnode, List.map_cons]
    rw [List.drop_eq_getElem_cons hlen, hvl, List.range'_succ]
    cases hnl : nextLoc data kids l with
    | none =>
      have := hn.2.1 hnl
      rw [walkFrom_none]
      have hd : (absChain data ++ absKids kids).drop (locIndex data kids l + 1) = [] :=
        List.drop_eq_nil_of_le (by rw [← visLen_eq]; omega)
      have h0 : visLen data kids - (locIndex data kids l + 1) = 0 := by omega
      simp [hd, h0]
    | some l' =>
      obtain ⟨h1, h2⟩ := hn.1 l' hnl
      obtain ⟨ih1, ih2⟩ := ih l' h2 (by omega)
      rw [ih1, ih2, h1]
      exact ⟨rfl, rfl⟩

theorem children_walk (data : Chain) (kids : List (El × Chain)) :
    (childLocs data kids).filterMap (locNode data kids) = absChain data ++ absKids kids ∧
    (childLocs data kids).map (locIndex data kids) = List.range (visLen data kids) := by
  unfold childLocs
  cases hf : firstLoc data kids with
  | none =>
    unfold firstLoc at hf
    split at hf
    · cases hf
    · split at hf
      · cases hf
      · have hd : data = [] := by cases data <;> simp_all
        have hk : kids = [] := by cases kids <;> simp_all
        subst hd hk
        simp [walkFrom_none, visLen]
  | some l =>
    have hl : locIndex data kids l = 0 ∧ locValid data kids l = true := by
      unfold firstLoc at hf
      split at hf
      · cases hf; exact ⟨rfl, by simpa [locValid]⟩
      · split at hf
        · cases hf; rename_i h1 h2
          refine ⟨?_, by simpa [locValid] using h2⟩
          rw [locIndex_elem, takeSum_zero]; omega
        · cases hf
    obtain ⟨h1, h2⟩ := walkFrom_spec data kids (visLen data kids + 1) l hl.2 (by omega)
    rw [h1, h2, hl.1]
    simp [List.range_eq_range']

end Delb.Nav

import DelbModel.Model.Nav
import DelbModel.Lemmas.Edit
/-!
# C05 helper lemmas: tree walking over plain trees
-/
namespace Delb.Nav
open Delb.Edit

/-! ## `preorder`, `size` -/

@[simp] theorem preorderList_nil : preorderList [] = [] := by simp [preorderList]
@[simp] theorem preorderList_cons (k : PTree) (ks : List PTree) :
    preorderList (k :: ks) = preorder k ++ preorderList ks := by simp [preorderList]

theorem preorderList_append (a b : List PTree) :
    preorderList (a ++ b) = preorderList a ++ preorderList b := by
  induction a with
  | nil => simp
  | cons x a ih => simp [ih]

theorem preorder_eq (t : PTree) : preorder t = t :: preorderList t.kids := by
  cases t <;> simp [preorder, PTree.kids]

@[simp] theorem sizeList_nil : sizeList [] = 0 := by simp [sizeList]
@[simp] theorem sizeList_cons (k : PTree) (ks : List PTree) :
    sizeList (k :: ks) = size k + sizeList ks := by simp [sizeList]

theorem sizeList_append (a b : List PTree) : sizeList (a ++ b) = sizeList a + sizeList b := by
  induction a with
  | nil => simp
  | cons x a ih => simp [ih]; omega

theorem size_eq (t : PTree) : size t = 1 + sizeList t.kids := by
  cases t <;> simp [size, PTree.kids]

theorem size_pos (t : PTree) : 0 < size t := by rw [size_eq]; omega

/-! ## `iterate_descendants` -/

theorem descLoop_spec (fuel : Nat) (cand : List PTree) (stack : List (List PTree))
    (hf : 2 * sizeList cand + 2 * (stack.map sizeList).sum + stack.length ≤ fuel) :
    descLoop fuel cand stack = preorderList cand ++ stack.flatMap preorderList := by
  induction fuel generalizing cand stack with
  | zero =>
    have h1 : sizeList cand = 0 := by omega
    have h2 : stack = [] := by cases stack with
      | nil => rfl
      | cons s st => simp at hf
    cases cand with
    | nil => subst h2; simp [descLoop]
    | cons n rest => have := size_pos n; simp at h1; omega
  | succ fuel ih =>
    cases cand with
    | nil =>
      cases stack with
      | nil => simp [descLoop]
      | cons s stack =>
        simp only [descLoop]
        rw [ih s stack (by simp at hf; omega)]
        simp
    | cons n rest =>
      cases n with
      | tag i ns nm a ks =>
        simp only [descLoop]
        rw [ih ks (rest :: stack) (by simp [size] at hf ⊢; omega)]
        simp [preorder]
      | text i s =>
        simp only [descLoop]
        rw [ih rest stack (by simp [size] at hf ⊢; omega)]
        simp [preorder]
      | comment i s =>
        simp only [descLoop]
        rw [ih rest stack (by simp [size] at hf ⊢; omega)]
        simp [preorder]
      | pi i t s =>
        simp only [descLoop]
        rw [ih rest stack (by simp [size] at hf ⊢; omega)]
        simp [preorder]

theorem descendants_eq (t : PTree) : descendants t = preorderList t.kids := by
  unfold descendants
  rw [descLoop_spec _ _ _ (by have := size_eq t; simp; omega)]
  simp

/-! ## `full_text` -/

mutual
  theorem fullText_eq : (t : PTree) → fullText t = (preorder t).flatMap textContent
    | .tag i ns n a ks => by
      simp only [fullText, preorder, List.flatMap_cons, textContent, List.nil_append]
      exact fullTextList_eq ks
    | .text i s => by simp [fullText, preorder, textContent]
    | .comment i s => by simp [fullText, preorder, textContent]
    | .pi i t s => by simp [fullText, preorder, textContent]
  theorem fullTextList_eq : (ks : List PTree) → fullTextList ks = (preorderList ks).flatMap textContent
    | [] => by simp [fullTextList]
    | k :: ks => by
      simp only [fullTextList, preorderList_cons, List.flatMap_append]
      rw [fullText_eq k, fullTextList_eq ks]
end

/-! ## `last_descendant` -/

theorem lastDescendant_spec (fuel : Nat) (t : PTree) (hf : size t ≤ fuel) :
    lastDescendant fuel t = (preorderList t.kids).getLast? := by
  induction fuel generalizing t with
  | zero => have := size_pos t; omega
  | succ fuel ih =>
    simp only [lastDescendant]
    cases hl : t.kids.getLast? with
    | none =>
      have : t.kids = [] := by simpa using hl
      simp [this]
    | some l =>
      obtain ⟨init, hk⟩ : ∃ init, t.kids = init ++ [l] := by
        rw [List.getLast?_eq_some_iff] at hl; exact hl
      have hs : size l ≤ fuel := by
        have := size_eq t
        rw [hk, sizeList_append] at this
        simp at this; omega
      simp only []
      rw [ih l hs, hk, preorderList_append]
      simp only [preorderList_cons, preorderList_nil, List.append_nil]
      rw [preorder_eq l]
      cases hd : (preorderList l.kids).getLast? with
      | none =>
        have : preorderList l.kids = [] := by simpa using hd
        simp [this]
      | some d =>
        obtain ⟨i2, h2⟩ : ∃ i2, preorderList l.kids = i2 ++ [d] := by
          rw [List.getLast?_eq_some_iff] at hd; exact hd
        rw [h2]
        rw [show preorderList init ++ l :: (i2 ++ [d]) = (preorderList init ++ l :: i2) ++ [d] by simp,
          List.getLast?_concat]

/-! ## the traversers -/

mutual
  theorem postorder_perm : (t : PTree) → (postorder t).Perm (preorder t)
    | .tag i ns n a ks => by
      simp only [postorder, preorder]
      have := postorderList_perm ks
      exact (List.perm_append_comm).trans (by simpa using this)
    | .text i s => by simp [postorder, preorder]
    | .comment i s => by simp [postorder, preorder]
    | .pi i t s => by simp [postorder, preorder]
  theorem postorderList_perm : (ks : List PTree) → (postorderList ks).Perm (preorderList ks)
    | [] => by simp [postorderList]
    | k :: ks => by
      simp only [postorderList, preorderList_cons]
      exact (postorder_perm k).append (postorderList_perm ks)
end

theorem bfLoop_perm (fuel : Nat) (queue : List PTree) (hf : sizeList queue ≤ fuel) :
    (bfLoop fuel queue).Perm (preorderList queue) := by
  induction fuel generalizing queue with
  | zero =>
    cases queue with
    | nil => simp [bfLoop]
    | cons n q => have := size_pos n; simp at hf; omega
  | succ fuel ih =>
    cases queue with
    | nil => simp [bfLoop]
    | cons n q =>
      simp only [bfLoop, preorderList_cons]
      rw [preorder_eq n]
      have h := ih (q ++ n.kids) (by
        have := size_eq n
        rw [sizeList_append]; simp at hf; omega)
      rw [preorderList_append] at h
      exact (h.trans List.perm_append_comm).cons n

theorem traverseBF_perm (t : PTree) : (traverseBF t).Perm (preorder t) := by
  unfold traverseBF
  rw [preorder_eq t]
  exact (bfLoop_perm _ _ (by have := size_eq t; omega)).cons t

end Delb.Nav

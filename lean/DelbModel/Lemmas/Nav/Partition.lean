import DelbModel.Lemmas.Nav.Tree
/-!
# C05 helper lemmas: ancestors, `iterate_following`, `iterate_preceding`
-/
namespace Delb.Nav
open Delb.Edit

/-! ## `downFrom` -/

theorem downFrom_zero : downFrom 0 = [] := by simp [downFrom]

theorem downFrom_succ (n : Nat) : downFrom (n + 1) = n :: downFrom n := by
  simp [downFrom, List.range_succ]

/-- peel the smallest element off -/
theorem downFrom_succ' (n : Nat) : downFrom (n + 1) = (downFrom n).map (· + 1) ++ [0] := by
  simp only [downFrom, List.range_succ_eq_map, List.reverse_cons, List.map_reverse]

theorem mem_downFrom {n k : Nat} : k ∈ downFrom n ↔ k < n := by simp [downFrom]

theorem downFrom_length (n : Nat) : (downFrom n).length = n := by simp [downFrom]

theorem downFrom_getElem? (n k : Nat) (h : k < n) : (downFrom n)[n - 1 - k]? = some k := by
  unfold downFrom
  rw [List.getElem?_reverse (by simp; omega)]
  simp only [List.length_range]
  rw [List.getElem?_range (by omega)]
  congr 1; omega

theorem flatMap_congr' {α β} {l : List α} {f g : α → List β} (h : ∀ x ∈ l, f x = g x) :
    l.flatMap f = l.flatMap g := by
  induction l with
  | nil => rfl
  | cons a l ih =>
    simp only [List.flatMap_cons]
    rw [h a (by simp), ih (fun x hx => h x (by simp [hx]))]

/-! ## ancestors -/

theorem getAtP_nil (t : PTree) : getAtP t [] = some t := by simp [getAtP]

theorem getAtP_cons_tag (i : Nat) (ns nm : String) (a : List Attr) (ks : List PTree) (k : Nat) (p : List Nat)
    (c : PTree) (hc : ks[k]? = some c) : getAtP (.tag i ns nm a ks) (k :: p) = getAtP c p := by
  simp [getAtP, hc]

/-- a node addressed by `k :: p` sits under a tag whose `k`-th child resolves `p` -/
theorem getAtP_cons_some {root : PTree} {k : Nat} {p : List Nat} {n : PTree}
    (h : getAtP root (k :: p) = some n) :
    ∃ i ns nm a ks c, root = .tag i ns nm a ks ∧ ks[k]? = some c ∧ getAtP c p = some n := by
  cases root with
  | tag i ns nm a ks =>
    simp only [getAtP] at h
    cases hc : ks[k]? with
    | none => simp [hc] at h
    | some c => simp only [hc] at h; exact ⟨i, ns, nm, a, ks, c, rfl, hc, h⟩
  | text i s => simp [getAtP] at h
  | comment i s => simp [getAtP] at h
  | pi i t s => simp [getAtP] at h

theorem getAtP_prefix (root : PTree) (path : List Nat) (n : PTree) (h : getAtP root path = some n) (k : Nat) :
    ∃ m, getAtP root (path.take k) = some m := by
  induction path generalizing root k with
  | nil => exact ⟨root, by simp [getAtP]⟩
  | cons x p ih =>
    cases k with
    | zero => exact ⟨root, by simp [getAtP]⟩
    | succ k =>
      obtain ⟨i, ns, nm, a, ks, c, rfl, hc, hn⟩ := getAtP_cons_some h
      obtain ⟨m, hm⟩ := ih c hn k
      exact ⟨m, by rw [List.take_succ_cons, getAtP_cons_tag _ _ _ _ _ _ _ _ hc, hm]⟩

theorem filterMap_all_some {α β} (f : α → Option β) (l : List α) (h : ∀ x ∈ l, ∃ y, f x = some y) :
    (l.filterMap f).length = l.length ∧ ∀ i : Nat, (l.filterMap f)[i]? = (l[i]?).bind f := by
  induction l with
  | nil => simp
  | cons a l ih =>
    obtain ⟨y, hy⟩ := h a (by simp)
    obtain ⟨ih1, ih2⟩ := ih (fun x hx => h x (by simp [hx]))
    simp only [List.filterMap_cons, hy, List.length_cons, ih1, true_and]
    intro i
    cases i with
    | zero => simp [hy]
    | succ i => simp [ih2]

theorem ancestors_depth (root : PTree) (path : List Nat) (n : PTree) (h : getAtP root path = some n) :
    depth root path = path.length ∧
    ∀ k, k < path.length → (ancestors root path)[path.length - 1 - k]? = getAtP root (path.take k) := by
  obtain ⟨h1, h2⟩ := filterMap_all_some (fun k => getAtP root (path.take k)) (downFrom path.length)
    (fun k _ => getAtP_prefix root path n h k)
  refine ⟨by simp [depth, ancestors, h1, downFrom_length], ?_⟩
  intro k hk
  unfold ancestors
  rw [h2, downFrom_getElem? _ _ hk]
  rfl

/-! ## reverse document order -/

@[simp] theorem revPostList_nil : revPostList [] = [] := by simp [revPostList]
@[simp] theorem revPostList_cons (k : PTree) (ks : List PTree) :
    revPostList (k :: ks) = revPostList ks ++ revPost k := by simp [revPostList]

mutual
  theorem revPost_reverse : (t : PTree) → (revPost t).reverse = preorder t
    | .tag i ns n a ks => by
      simp only [revPost, preorder, List.reverse_append, List.reverse_cons, List.reverse_nil,
        List.nil_append, List.singleton_append]
      rw [revPostList_reverse ks]
    | .text i s => by simp [revPost, preorder]
    | .comment i s => by simp [revPost, preorder]
    | .pi i t s => by simp [revPost, preorder]
  theorem revPostList_reverse : (ks : List PTree) → (revPostList ks).reverse = preorderList ks
    | [] => by simp
    | k :: ks => by
      simp only [revPostList_cons, List.reverse_append, preorderList_cons]
      rw [revPost_reverse k, revPostList_reverse ks]
end

theorem reverse_flatMap_revPost (l : List PTree) : l.reverse.flatMap revPost = revPostList l := by
  induction l with
  | nil => simp
  | cons k ks ih => simp [ih]

/-! ## sibling lists below a child -/

theorem splitLast_cons_cons (i x : Nat) (xs : List Nat) :
    splitLast (i :: x :: xs) = (splitLast (x :: xs)).map (fun q => (i :: q.1, q.2)) := by
  simp only [splitLast]
  cases splitLast (x :: xs) with
  | none => rfl
  | some q => obtain ⟨p, l⟩ := q; rfl

theorem followingSiblings_single (i : Nat) (ns nm : String) (a : List Attr) (ks : List PTree) (k : Nat) :
    followingSiblings (.tag i ns nm a ks) [k] = ks.drop (k + 1) := by
  simp [followingSiblings, splitLast, getAtP, PTree.kids]

theorem precedingSiblings_single (i : Nat) (ns nm : String) (a : List Attr) (ks : List PTree) (k : Nat) :
    precedingSiblings (.tag i ns nm a ks) [k] = (ks.take k).reverse := by
  simp [precedingSiblings, splitLast, getAtP, PTree.kids]

theorem followingSiblings_cons (i : Nat) (ns nm : String) (a : List Attr) (ks : List PTree) (k : Nat)
    (c : PTree) (hc : ks[k]? = some c) (x : Nat) (xs : List Nat) :
    followingSiblings (.tag i ns nm a ks) (k :: x :: xs) = followingSiblings c (x :: xs) := by
  unfold followingSiblings
  rw [splitLast_cons_cons]
  cases splitLast (x :: xs) with
  | none => rfl
  | some q =>
    obtain ⟨p, l⟩ := q
    simp only [Option.map_some, getAtP_cons_tag _ _ _ _ _ _ _ _ hc]

theorem precedingSiblings_cons (i : Nat) (ns nm : String) (a : List Attr) (ks : List PTree) (k : Nat)
    (c : PTree) (hc : ks[k]? = some c) (x : Nat) (xs : List Nat) :
    precedingSiblings (.tag i ns nm a ks) (k :: x :: xs) = precedingSiblings c (x :: xs) := by
  unfold precedingSiblings
  rw [splitLast_cons_cons]
  cases splitLast (x :: xs) with
  | none => rfl
  | some q =>
    obtain ⟨p, l⟩ := q
    simp only [Option.map_some, getAtP_cons_tag _ _ _ _ _ _ _ _ hc]

/-- `path.take (k + 1)` is a non-empty path when `k < path.length` -/
theorem take_succ_cons_form (p : List Nat) (k : Nat) (hk : k < p.length) :
    ∃ x xs, p.take (k + 1) = x :: xs := by
  cases p with
  | nil => simp at hk
  | cons x xs => exact ⟨x, xs.take k, by simp⟩

/-! ## `following` / `preceding` of a node below the `k`-th child -/

theorem following_cons (i : Nat) (ns nm : String) (a : List Attr) (ks : List PTree) (k : Nat)
    (c : PTree) (hc : ks[k]? = some c) (p : List Nat) :
    following (.tag i ns nm a ks) (k :: p) = following c p ++ preorderList (ks.drop (k + 1)) := by
  unfold following
  rw [getAtP_cons_tag _ _ _ _ _ _ _ _ hc, List.length_cons, downFrom_succ', List.flatMap_append,
    List.flatMap_map]
  simp only [List.flatMap_cons, List.flatMap_nil, List.append_nil, List.take_succ_cons, List.take_zero,
    followingSiblings_single, List.append_assoc]
  congr 2
  apply flatMap_congr'
  intro j hj
  obtain ⟨x, xs, hx⟩ := take_succ_cons_form p j (mem_downFrom.mp hj)
  rw [hx, followingSiblings_cons _ _ _ _ _ _ _ hc]

theorem preceding_cons (i : Nat) (ns nm : String) (a : List Attr) (ks : List PTree) (k : Nat)
    (c : PTree) (hc : ks[k]? = some c) (p : List Nat) :
    preceding (.tag i ns nm a ks) (k :: p) =
      preceding c p ++ (revPostList (ks.take k) ++ [.tag i ns nm a ks]) := by
  unfold preceding
  rw [List.length_cons, downFrom_succ', List.flatMap_append, List.flatMap_map]
  simp only [List.flatMap_cons, List.flatMap_nil, List.append_nil, List.take_succ_cons, List.take_zero,
    precedingSiblings_single, reverse_flatMap_revPost, getAtP_nil]
  congr 1
  apply flatMap_congr'
  intro j hj
  obtain ⟨x, xs, hx⟩ := take_succ_cons_form p j (mem_downFrom.mp hj)
  rw [hx, precedingSiblings_cons _ _ _ _ _ _ _ hc, getAtP_cons_tag _ _ _ _ _ _ _ _ hc]

theorem partition (root : PTree) (path : List Nat) (n : PTree) (h : getAtP root path = some n) :
    (preceding root path).reverse ++ n :: following root path = preorder root := by
  induction path generalizing root with
  | nil =>
    simp only [getAtP, Option.some.injEq] at h
    subst h
    simp [preceding, following, downFrom_zero, getAtP, preorder_eq root]
  | cons k p ih =>
    obtain ⟨i, ns, nm, a, ks, c, rfl, hc, hn⟩ := getAtP_cons_some h
    rw [preceding_cons _ _ _ _ _ _ _ hc, following_cons _ _ _ _ _ _ _ hc]
    have hks : ks = ks.take k ++ c :: ks.drop (k + 1) := by
      obtain ⟨A, B, hAB, hA⟩ := getElem?_split hc
      subst hAB hA
      simp
    simp only [List.reverse_append, List.reverse_cons, List.reverse_nil, List.nil_append,
      revPostList_reverse, List.append_assoc, List.cons_append]
    rw [preorder, List.cons.injEq]
    refine ⟨rfl, ?_⟩
    conv => rhs; rw [hks, preorderList_append, preorderList_cons, ← ih c hn]
    simp

end Delb.Nav

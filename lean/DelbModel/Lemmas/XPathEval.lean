import DelbModel.Model.XPath.Eval
import DelbModel.Lemmas.XPathEval.DocOrder
import DelbModel.Lemmas.XPathEval.Axes
import DelbModel.Lemmas.XPathEval.Steps
import DelbModel.Lemmas.XPathEval.Denote
import DelbModel.Lemmas.XPathEval.PredSpec
/-!
# C06 helper lemmas

* `XPathEval/DocOrder.lean` — `pathLt` is a strict total order extending the prefix relation;
  `pathsOf` lists exactly the valid addresses and is strictly `pathLt`-sorted
* `XPathEval/Axes.lean` — the axis generators (children, descendants, ancestors, following / preceding,
  siblings) and that every axis is duplicate-free
* `XPathEval/Steps.lean` — `filterTest`, `filterPred` / `applyPreds`, the positional predicate,
  `addNew`, `evalStep`, `evalPaths`, `insertPath` / `sortPaths`
* `XPathEval/Denote.lean` — the mechanism model against the specification `Model/XPath/Spec.lean`
  (axes, node tests, predicates, steps, paths, expressions; when nothing raises)
* `XPathEval/PredSpec.lean` — the mechanism's predicate values (`evalExpr`, `truthy`) against the XPath 1.0
  value semantics `Model/XPath/PredSpec.lean`, outside the situations marked by `PredSafe`
-/

import DelbModel.Model.Gc
/-! helper lemmas for Props/C04.lean

The threshold values are hypotheses here; `Props/C04.lean` discharges them from `c04_thresholds`. -/
namespace Delb.Gc

/-- the minimum of a non-empty list whose entries all equal `c` is `c` -/
theorem foldl_min_const (c : Nat) (l : List Nat) (acc : Nat) (hacc : acc = c) (h : ∀ x ∈ l, x = c) :
    l.foldl min acc = c := by
  induction l generalizing acc with
  | nil => simpa using hacc
  | cons x xs ih =>
    simp only [List.foldl_cons]
    apply ih
    · have := h x (by simp); omega
    · intro y hy; exact h y (by simp [hy])

theorem base_of_all (c : Nat) (l : List Nat) (hne : l ≠ []) (h : ∀ x ∈ l, x = c) :
    l.foldl min (l.headD 0) = c := by
  apply foldl_min_const c l _ _ h
  cases l with
  | nil => exact absurd rfl hne
  | cons x xs => simpa using h x (by simp)

/-- the derived constants, given that every comparison of a kind uses the same base -/
theorem thresholds_of_lists
    (hw : Gen.gcWrapperBases ≠ [] ∧ ∀ x ∈ Gen.gcWrapperBases, x = 4)
    (hd : Gen.gcDocumentIdles ≠ [] ∧ ∀ x ∈ Gen.gcDocumentIdles, x = 4)
    (ha : Gen.gcAppendedBases ≠ [] ∧ ∀ x ∈ Gen.gcAppendedBases, x = 3)
    (hh : Gen.gcHeadBases ≠ [] ∧ ∀ x ∈ Gen.gcHeadBases, x = 3) :
    Gen.gcWrapperBase = 4 ∧ Gen.gcDocumentIdle = 4 ∧ Gen.gcAppendedBase = 3 ∧ Gen.gcHeadBase = 3 :=
  ⟨base_of_all 4 _ hw.1 hw.2, base_of_all 4 _ hd.1 hd.2, base_of_all 3 _ ha.1 ha.2, base_of_all 3 _ hh.1 hh.2⟩

theorem chainReferenced_eq (ha : Gen.gcAppendedBase = 3) (l : List TextObj) :
    chainReferenced l = l.any (·.userRefs > 0) := by
  induction l with
  | nil => rfl
  | cons t rest ih =>
    simp only [chainReferenced, List.any_cons, ih, appendedRefcount, ha]
    congr 1
    cases rest <;> simp <;> omega

theorem headReferenced_eq (hh : Gen.gcHeadBase = 3) (s : Slot) :
    headReferenced s = decide (s.headRefs > 0) := by
  simp only [headReferenced, headRefcount, hh]
  cases s.appended <;> simp <;> omega

theorem wrapperReferenced_eq (hw : Gen.gcWrapperBase = 4) (hd : Gen.gcDocumentIdle = 4) (w : Wrapper) :
    wrapperReferenced w =
      (decide (w.userRefs > 0) || (match w.docRefs with | some d => decide (d > 0) | none => false)) := by
  simp only [wrapperReferenced, wrapperRefcount, documentRefcount, hw, hd]
  cases hdoc : w.docRefs with
  | none => cases w.isTag <;> simp <;> omega
  | some d =>
    rcases Nat.eq_zero_or_pos d with h0 | hpos
    · subst h0; cases w.isTag <;> simp <;> omega
    · have hne : (d + 4 == 4) = false := by simp; omega
      have hd' : decide (d > 0) = true := by simp; omega
      cases w.isTag <;> simp [hne, hd']

theorem keeps_eq_anyReferenced
    (hw : Gen.gcWrapperBase = 4) (hd : Gen.gcDocumentIdle = 4)
    (ha : Gen.gcAppendedBase = 3) (hh : Gen.gcHeadBase = 3) (w : Wrapper) :
    keeps w = anyReferenced w := by
  simp only [keeps, anyReferenced, wrapperReferenced_eq hw hd, headReferenced_eq hh,
    chainReferenced_eq ha]
  have hb : ∀ a c e d : Bool, (a || c || e || d) = (a || c || d || e) := by decide
  exact hb _ _ _ _

/-! ## `gcStep`, for any `keeps` -/

theorem gcStep_locked (s : State) (h : s.locks > 0) : gcStep s = (s, []) := by
  simp [gcStep, h]

theorem gcStep_cache_sublist (s : State) : List.Sublist (gcStep s).1.cache s.cache := by
  unfold gcStep
  split
  · exact List.Sublist.refl _
  · exact List.filter_sublist

theorem mem_gcStep_cache_of_keeps (s : State) (w : Wrapper) (hw : w ∈ s.cache) (h : keeps w = true) :
    w ∈ (gcStep s).1.cache := by
  unfold gcStep
  split
  · exact hw
  · exact List.mem_filter.mpr ⟨hw, h⟩

theorem keeps_false_of_not_mem_gcStep (s : State) (w : Wrapper) (hw : w ∈ s.cache)
    (h : w ∉ (gcStep s).1.cache) : keeps w = false := by
  cases hk : keeps w with
  | false => rfl
  | true => exact absurd (mem_gcStep_cache_of_keeps s w hw hk) h

theorem evict_text (w : Wrapper) : (evict w).text = slotText w.data := rfl
theorem evict_tail (w : Wrapper) : (evict w).tail = slotText w.tail := rfl

theorem gcStep_mem_or_evicted (s : State) (w : Wrapper) (hw : w ∈ s.cache) :
    w ∈ (gcStep s).1.cache ∨ (evict w ∈ (gcStep s).2 ∧ keeps w = false) := by
  cases hk : keeps w with
  | true => exact Or.inl (mem_gcStep_cache_of_keeps s w hw hk)
  | false =>
    unfold gcStep
    split
    · exact Or.inl hw
    · refine Or.inr ⟨?_, rfl⟩
      exact List.mem_map.mpr ⟨w, List.mem_filter.mpr ⟨hw, by simp [hk]⟩, rfl⟩

theorem gcStep_evicted_origin (s : State) (e : Element) (he : e ∈ (gcStep s).2) :
    ∃ w ∈ s.cache, e = evict w ∧ keeps w = false ∧ w ∉ (gcStep s).1.cache := by
  unfold gcStep at he ⊢
  split at he
  · simp at he
  · rename_i hl
    obtain ⟨w, hwf, rfl⟩ := List.mem_map.mp he
    obtain ⟨hwc, hk⟩ := List.mem_filter.mp hwf
    have hk' : keeps w = false := by simpa using hk
    refine ⟨w, hwc, rfl, hk', ?_⟩
    rw [if_neg hl]
    intro hmem
    have := (List.mem_filter.mp hmem).2
    simp [hk'] at this

theorem gcStep_nothing_left (s : State) (hl : s.locks = 0) (h : ∀ w ∈ s.cache, keeps w = false) :
    (gcStep s).1.cache = [] := by
  unfold gcStep
  rw [if_neg (by omega)]
  simp only [List.filter_eq_nil_iff]
  intro w hw
  simp [h w hw]

theorem gcStep_idempotent (s : State) : gcStep (gcStep s).1 = ((gcStep s).1, []) := by
  by_cases hl : s.locks > 0
  · rw [gcStep_locked s hl]; exact gcStep_locked s hl
  · have h1 : gcStep s = ({ s with cache := s.cache.filter keeps },
        (s.cache.filter (fun w => !keeps w)).map evict) := by
      unfold gcStep; rw [if_neg hl]
    rw [h1]
    show gcStep { s with cache := s.cache.filter keeps } = _
    unfold gcStep
    rw [if_neg hl]
    simp only [List.filter_filter, Bool.and_self]
    congr 1
    simp

theorem lockCount_openBlocks : ∀ (ops : List LockOp) (d : Nat) (k : Nat),
    openBlocks d ops = some k → lockCount 1 (-1) (d : Int) ops = (k : Int)
  | [], d, k, h => by simp only [openBlocks, Option.some.injEq] at h; simp [lockCount, h]
  | .enter :: ops, d, k, h => by
    simp only [openBlocks] at h
    have := lockCount_openBlocks ops (d + 1) k h
    simpa [lockCount] using this
  | .exit :: ops, 0, k, h => by simp [openBlocks] at h
  | .exit :: ops, d + 1, k, h => by
    simp only [openBlocks] at h
    have := lockCount_openBlocks ops d k h
    simp only [lockCount]
    have e : ((d + 1 : Nat) : Int) + -1 = (d : Int) := by omega
    rw [e]; exact this

end Delb.Gc

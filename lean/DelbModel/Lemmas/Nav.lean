import DelbModel.Model.Nav
import DelbModel.Lemmas.Nav.Sibling
import DelbModel.Lemmas.Nav.Tree
import DelbModel.Lemmas.Nav.Partition
/-!
# C05 helper lemmas

* `Nav/Sibling.lean` — `locIndex`/`locValid`/`locNode` against `locate`, `nextLoc`/`prevLoc` move the
  index by one, `locIndex` is injective on valid locations, `walkFrom` enumerates the visible children
* `Nav/Tree.lean` — `descLoop`, `fullText`, `lastDescendant`, `postorder`, `bfLoop` against `preorder`
* `Nav/Partition.lean` — `ancestors`, `following`, `preceding` by induction on the path
-/

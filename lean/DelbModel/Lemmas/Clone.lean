import DelbModel.Model.Clone
import DelbModel.Lemmas.Edit
/-!
# Lemmas for C10 (clones)
-/
namespace Delb.Clone
open Delb.Edit

/-! ## `strip` / `idsOf` equations -/

@[simp] theorem strip_tag (i ns n a ks) : strip (.tag i ns n a ks) = .tag ns n a (stripList ks) := by
  simp [strip]
@[simp] theorem strip_text (i s) : strip (.text i s) = .text s := by simp [strip]
@[simp] theorem strip_comment (i s) : strip (.comment i s) = .comment s := by simp [strip]
@[simp] theorem strip_pi (i t s) : strip (.pi i t s) = .pi t s := by simp [strip]
@[simp] theorem stripList_nil : stripList [] = [] := by simp [stripList]
@[simp] theorem stripList_cons (k ks) : stripList (k :: ks) = strip k :: stripList ks := by
  simp [stripList]

@[simp] theorem idsOf_tag (i ns n a ks) : idsOf (.tag i ns n a ks) = i :: idsOfList ks := by
  simp [idsOf]
@[simp] theorem idsOf_text (i s) : idsOf (.text i s) = [i] := by simp [idsOf]
@[simp] theorem idsOf_comment (i s) : idsOf (.comment i s) = [i] := by simp [idsOf]
@[simp] theorem idsOf_pi (i t s) : idsOf (.pi i t s) = [i] := by simp [idsOf]
@[simp] theorem idsOfList_nil : idsOfList [] = [] := by simp [idsOfList]
@[simp] theorem idsOfList_cons (k ks) : idsOfList (k :: ks) = idsOf k ++ idsOfList ks := by
  simp [idsOfList]

@[simp] theorem cloneP_tag (n i ns name a ks) :
    cloneP n (.tag i ns name a ks) = (.tag n ns name a (cloneListP (n + 1) ks).1, (cloneListP (n + 1) ks).2) := by
  simp [cloneP]
@[simp] theorem cloneP_text (n i s) : cloneP n (.text i s) = (.text n s, n + 1) := by simp [cloneP]
@[simp] theorem cloneP_comment (n i s) : cloneP n (.comment i s) = (.comment n s, n + 1) := by simp [cloneP]
@[simp] theorem cloneP_pi (n i t s) : cloneP n (.pi i t s) = (.pi n t s, n + 1) := by simp [cloneP]
@[simp] theorem cloneListP_nil (n) : cloneListP n [] = ([], n) := by simp [cloneListP]
@[simp] theorem cloneListP_cons (n k ks) :
    cloneListP n (k :: ks) = ((cloneP n k).1 :: (cloneListP (cloneP n k).2 ks).1, (cloneListP (cloneP n k).2 ks).2) := by
  simp [cloneListP]

/-! ## clone equal / fresh -/

mutual
  theorem strip_cloneP : ∀ (t : PTree) (n : Nat), strip (cloneP n t).1 = strip t
    | .tag _ _ _ _ ks, n => by simp [stripList_cloneListP ks (n + 1)]
    | .text _ _, n => by simp
    | .comment _ _, n => by simp
    | .pi _ _ _, n => by simp
  theorem stripList_cloneListP : ∀ (ks : List PTree) (n : Nat), stripList (cloneListP n ks).1 = stripList ks
    | [], n => by simp
    | k :: ks, n => by simp [strip_cloneP k n, stripList_cloneListP ks (cloneP n k).2]
end

mutual
  theorem ids_cloneP : ∀ (t : PTree) (n : Nat),
      idsOf (cloneP n t).1 = List.range' n (idsOf t).length ∧ (cloneP n t).2 = n + (idsOf t).length
    | .tag _ _ _ _ ks, n => by
      have h := ids_cloneListP ks (n + 1)
      refine ⟨?_, ?_⟩
      · simp [h.1, List.range'_succ]
      · simp [h.2]; omega
    | .text _ _, n => by simp [List.range'_succ]
    | .comment _ _, n => by simp [List.range'_succ]
    | .pi _ _ _, n => by simp [List.range'_succ]
  theorem ids_cloneListP : ∀ (ks : List PTree) (n : Nat),
      idsOfList (cloneListP n ks).1 = List.range' n (idsOfList ks).length ∧
        (cloneListP n ks).2 = n + (idsOfList ks).length
    | [], n => by simp
    | k :: ks, n => by
      have h1 := ids_cloneP k n
      have h2 := ids_cloneListP ks (cloneP n k).2
      rw [h1.2] at h2
      refine ⟨?_, ?_⟩
      · simp only [cloneListP_cons, idsOfList_cons, h1.1, h1.2, h2.1, List.length_append]
        rw [← List.range'_append_1]
      · simp only [cloneListP_cons, idsOfList_cons, h1.2, h2.2, List.length_append]; omega
end

/-! ## frame -/

theorem takeSourceA_frame (s s' : StateA) (tgt : Nat) (src : Source) (new : PTree)
    (h : takeSourceA s tgt src = .ok (s', new)) :
    s'.groups.length = s.groups.length ∧
      ∀ g, g ∉ sourceGroups src → s'.groups[g]? = s.groups[g]? := by
  cases src with
  | newText str =>
    simp only [takeSourceA, Except.ok.injEq, Prod.mk.injEq] at h
    obtain ⟨rfl, _⟩ := h
    simp
  | group g0 =>
    simp only [takeSourceA] at h
    split at h
    · cases h
    · split at h
      · simp only [Except.ok.injEq, Prod.mk.injEq] at h
        obtain ⟨rfl, _⟩ := h
        refine ⟨by simp, ?_⟩
        intro g hg
        simp only [sourceGroups, List.mem_singleton] at hg
        simp [List.getElem?_set_ne (Ne.symm hg)]
      · cases h

theorem modifyGroupA_frame (s s' : StateA) (g0 : Nat) (f : PTree → Except EditErr PTree)
    (h : modifyGroupA s g0 f = .ok s') :
    s'.groups.length = s.groups.length ∧ ∀ g, g ≠ g0 → s'.groups[g]? = s.groups[g]? := by
  simp only [modifyGroupA] at h
  split at h
  · split at h
    · simp only [Except.ok.injEq] at h
      subst h
      refine ⟨by simp, ?_⟩
      intro g hg
      simp [List.getElem?_set_ne (Ne.symm hg)]
    · cases h
  · cases h

/-- the combined shape of an add-edit -/
theorem take_modify_frame (s s' : StateA) (a : Addr) (src : Source)
    (F : PTree → PTree → Except EditErr PTree)
    (h : (match takeSourceA s a.g src with
          | .error e => Except.error e
          | .ok (s1, new) => modifyGroupA s1 a.g (F new)) = Except.ok s') :
    s'.groups.length = s.groups.length ∧
      ∀ g, g ∉ a.g :: sourceGroups src → s'.groups[g]? = s.groups[g]? := by
  split at h
  · cases h
  · rename_i s1 new hts
    have h1 := takeSourceA_frame s s1 a.g src new hts
    have h2 := modifyGroupA_frame s1 s' a.g (F new) h
    refine ⟨h2.1.trans h1.1, ?_⟩
    intro g hg
    simp only [List.mem_cons, not_or] at hg
    rw [h2.2 g hg.1, h1.2 g hg.2]

theorem stepA_frame (s s' : StateA) (p : Prim) (h : stepA s p = .ok s') :
    s.groups.length ≤ s'.groups.length ∧
      ∀ g, g ∉ touched p → g < s.groups.length → s'.groups[g]? = s.groups[g]? := by
  cases p with
  | addFollowing a src =>
    simp only [stepA] at h
    split at h
    · cases h
    · rename_i p i _
      have := take_modify_frame s s' a src (fun new t => modifyAtP
          (fun parent => if i < parent.kids.length then insertKid (i + 1) new parent else .error .badAddress) t p) h
      exact ⟨Nat.le_of_eq this.1.symm, fun g hg _ => this.2 g hg⟩
  | addPreceding a src =>
    simp only [stepA] at h
    split at h
    · cases h
    · rename_i p i _
      have := take_modify_frame s s' a src (fun new t => modifyAtP
          (fun parent => if i < parent.kids.length then insertKid i new parent else .error .badAddress) t p) h
      exact ⟨Nat.le_of_eq this.1.symm, fun g hg _ => this.2 g hg⟩
  | addFirst a src =>
    simp only [stepA] at h
    have := take_modify_frame s s' a src (fun new t => modifyAtP
        (fun parent => if parent.isTag && parent.kids.isEmpty then insertKid 0 new parent else .error .badAddress) t a.path) h
    exact ⟨Nat.le_of_eq this.1.symm, fun g hg _ => this.2 g hg⟩
  | detach a =>
    simp only [stepA] at h
    split at h
    · simp only [Except.ok.injEq] at h
      subst h
      exact ⟨Nat.le_refl _, fun _ _ _ => rfl⟩
    · split at h
      · split at h
        · cases h
        · split at h
          · cases h
          · split at h
            · simp only [Except.ok.injEq] at h
              subst h
              refine ⟨by simp, ?_⟩
              intro g hg hlt
              simp only [touched, List.mem_singleton] at hg
              simp only
              rw [List.getElem?_append_left (by simpa using hlt), List.getElem?_set_ne (Ne.symm hg)]
            · cases h
      · cases h
  | setContent a str =>
    simp only [stepA] at h
    split at h
    · split at h
      · simp only [Except.ok.injEq] at h
        subst h
        refine ⟨by simp, ?_⟩
        intro g hg _
        simp only [touched, List.mem_singleton] at hg
        simp [List.getElem?_set_ne (Ne.symm hg)]
      · cases h
    · have := modifyGroupA_frame s s' a.g _ h
      refine ⟨Nat.le_of_eq this.1.symm, fun g hg _ => this.2 g ?_⟩
      simpa [touched] using hg
  | merge a =>
    simp only [stepA] at h
    have := modifyGroupA_frame s s' a.g _ h
    refine ⟨Nat.le_of_eq this.1.symm, fun g hg _ => this.2 g ?_⟩
    simpa [touched] using hg
  | newTag ns name attrs =>
    simp only [stepA, Except.ok.injEq] at h
    subst h
    exact ⟨by simp, fun g _ hlt => by simp [List.getElem?_append_left hlt]⟩
  | newComment str =>
    simp only [stepA, Except.ok.injEq] at h
    subst h
    exact ⟨by simp, fun g _ hlt => by simp [List.getElem?_append_left hlt]⟩
  | newPI t str =>
    simp only [stepA, Except.ok.injEq] at h
    subst h
    exact ⟨by simp, fun g _ hlt => by simp [List.getElem?_append_left hlt]⟩
  | cloneDeep a =>
    simp only [stepA] at h
    split at h
    · split at h
      · simp only [Except.ok.injEq] at h
        subst h
        exact ⟨by simp, fun g _ hlt => by simp [List.getElem?_append_left hlt]⟩
      · cases h
    · cases h

theorem runA_frame : ∀ (ops : List Prim) (s s' : StateA), runA s ops = .ok s' → ∀ (g : Nat),
    (∀ p ∈ ops, g ∉ touched p) → g < s.groups.length → s'.groups[g]? = s.groups[g]?
  | [], s, s', h, g, _, _ => by
    simp only [runA, Except.ok.injEq] at h
    subst h; rfl
  | p :: ps, s, s', h, g, hg, hlt => by
    simp only [runA] at h
    split at h
    · rename_i s1 hs1
      have hf := stepA_frame s s1 p hs1
      have ih := runA_frame ps s1 s' h g (fun q hq => hg q (List.mem_cons_of_mem _ hq))
        (Nat.lt_of_lt_of_le hlt hf.1)
      rw [ih, hf.2 g (hg p List.mem_cons_self) hlt]
    · cases h

/-! ## clone step -/

theorem cloneDeep_step (s s' : StateA) (a : Addr) (h : stepA s (.cloneDeep a) = .ok s') :
    ∃ t x c, s.groups[a.g]? = some (some t) ∧ getAtP t a.path = some x ∧
      s'.groups = s.groups ++ [some c] ∧ strip c = strip x ∧ ∀ i ∈ idsOf c, s.nextId ≤ i := by
  simp only [stepA] at h
  split at h
  · rename_i t ht
    split at h
    · rename_i x hx
      simp only [Except.ok.injEq] at h
      subst h
      refine ⟨t, x, (cloneP s.nextId x).1, ht, hx, rfl, strip_cloneP x _, ?_⟩
      intro i hi
      rw [(ids_cloneP x s.nextId).1] at hi
      exact (List.mem_range'_1.mp hi).1
    · cases h
  · cases h

/-! ## `_copy_root_siblings` -/

theorem pushAll_go (l st : List PTree) : l.foldl (fun st x => x :: st) st = l.reverse ++ st := by
  induction l generalizing st with
  | nil => rfl
  | cons x xs ih => simp [ih]

theorem pushAll_eq (l : List PTree) : pushAll l = l.reverse := by
  rw [pushAll, pushAll_go]; simp

theorem popAddPrevious_eq (st acc : List PTree) : popAddPrevious st acc = acc ++ st := by
  induction st generalizing acc with
  | nil => simp [popAddPrevious]
  | cons x xs ih => simp [popAddPrevious, ih]

theorem popAddNext_eq (st acc : List PTree) : popAddNext st acc = st.reverse ++ acc := by
  induction st generalizing acc with
  | nil => simp [popAddNext]
  | cons x xs ih => simp [popAddNext, ih]

/-! ## `Document.clone` -/

theorem stripList_eq_map : ∀ (l : List PTree), stripList l = l.map strip
  | [] => by simp
  | k :: ks => by simp [stripList_eq_map ks]

theorem idsOfList_eq_flatMap : ∀ (l : List PTree), idsOfList l = l.flatMap idsOf
  | [] => by simp
  | k :: ks => by simp [idsOfList_eq_flatMap ks]

theorem stripList_reverse (l : List PTree) : stripList l.reverse = (stripList l).reverse := by
  simp [stripList_eq_map]

theorem idsOfList_reverse_perm (l : List PTree) : (idsOfList l.reverse).Perm (idsOfList l) := by
  rw [idsOfList_eq_flatMap, idsOfList_eq_flatMap]
  exact List.Perm.flatMap_right _ (List.reverse_perm l)

theorem popCopyAddPrevious_eq : ∀ (st acc : List PTree) (n : Nat),
    popCopyAddPrevious n st acc = (acc ++ (cloneListP n st).1, (cloneListP n st).2)
  | [], acc, n => by simp [popCopyAddPrevious]
  | x :: st, acc, n => by
    simp [popCopyAddPrevious, popCopyAddPrevious_eq st]

theorem popCopyAddNext_eq : ∀ (st acc : List PTree) (n : Nat),
    popCopyAddNext n st acc = ((cloneListP n st).1.reverse ++ acc, (cloneListP n st).2)
  | [], acc, n => by simp [popCopyAddNext]
  | x :: st, acc, n => by
    simp [popCopyAddNext, popCopyAddNext_eq st]

/-- `Document.clone` without the stacks -/
theorem cloneDocument_eq (n : Nat) (d : PDoc) :
    cloneDocument n d =
      ({ prologue := (cloneListP (cloneP n d.root).2 d.prologue).1,
         root := (cloneP n d.root).1,
         epilogue := (cloneListP (cloneListP (cloneP n d.root).2 d.prologue).2 d.epilogue.reverse).1.reverse },
       (cloneListP (cloneListP (cloneP n d.root).2 d.prologue).2 d.epilogue.reverse).2) := by
  simp [cloneDocument, pushAll_eq, popCopyAddPrevious_eq, popCopyAddNext_eq]

end Delb.Clone

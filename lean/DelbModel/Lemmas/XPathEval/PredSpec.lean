import DelbModel.Model.XPath.PredSpec
/-!
# C06 helper lemmas: the mechanism's predicate values against `Model/XPath/PredSpec.lean`

`mechVal tag e x` is the Python object the mechanism computes for an expression `e` whose XPath 1.0
value is `x` (on a tag node / another node).  `evalExpr_mechVal` proves that, outside the marked
situations, this is what `evalExpr` returns.
-/
namespace Delb.XPath
open Delb.Edit

/-- the mechanism's rendering of an XPath 1.0 value where `@name` is `attrVal`: a boolean, number,
    string as such; the node-set as the value or `""` on a tag node, `None` elsewhere -/
def mechV (tag : Bool) : XVal → Val
  | .bool b => .b b
  | .num n => .i n
  | .str s => .s s
  | .nodes a => if tag then .s (a.getD []) else .none

/-- … where `@name` is `hasAttr`: the node-set as presence -/
def mechB : XVal → Val
  | .bool b => .b b
  | .num n => .i n
  | .str s => .s s
  | .nodes a => .b a.isSome

/-- the Python object the mechanism computes for expression `e` with XPath 1.0 value `x` -/
def mechVal (tag : Bool) (e : Expr) (x : XVal) : Val :=
  if isHasAttr e then mechB x else mechV tag x

theorem mechVal_of_not_hasAttr {tag : Bool} {e : Expr} (h : isHasAttr e = false) (x : XVal) :
    mechVal tag e x = mechV tag x := by simp [mechVal, h]

theorem mechVal_of_not_nodes {tag : Bool} {e : Expr} {x : XVal} (h : ∀ a, x ≠ .nodes a) :
    mechVal tag e x = mechB x := by
  cases x <;> simp_all [mechVal, mechB, mechV]

def mechVals (tag : Bool) : List Expr → List XVal → List Val
  | a :: as, x :: xs => mechVal tag a x :: mechVals tag as xs
  | _, _ => []

theorem evalExpr_hasAttr_mechVal (root : PTree) (env : NsEnv) (c : Ctx) (pfx : Option Str) (name : Str) (x : XVal)
    (h : valSpec root env c (.hasAttr pfx name) = some x) :
    evalExpr root env c (.hasAttr pfx name) = .ok (mechVal (isTagNode root c.node) (.hasAttr pfx name) x) := by
  simp only [valSpec, attrNode] at h
  unfold evalExpr
  cases pfx with
  | none =>
    simp only [Option.map_some, Option.some.injEq] at h
    subst h
    simp only [checkPrefix, mechVal, mechB, isHasAttr, if_true]
    cases hn : nodeOf root c.node with
    | none => simp
    | some t => cases t <;> simp
  | some p =>
    cases hd : Ser.dget env (showS p) with
    | none => simp [hd] at h
    | some uri =>
      simp only [hd, Option.map_some, Option.some.injEq] at h
      subst h
      simp only [checkPrefix, hd, Option.isSome_some, if_true, mechVal, mechB, isHasAttr]
      cases hn : nodeOf root c.node with
      | none => simp
      | some t => cases t <;> simp [hd]

theorem evalExpr_attrVal_mechVal (root : PTree) (env : NsEnv) (c : Ctx) (pfx : Option Str) (name : Str) (x : XVal)
    (h : valSpec root env c (.attrVal pfx name) = some x) :
    evalExpr root env c (.attrVal pfx name) = .ok (mechVal (isTagNode root c.node) (.attrVal pfx name) x) := by
  simp only [valSpec, attrNode] at h
  unfold evalExpr
  have hm : mechVal (isTagNode root c.node) (.attrVal pfx name) =
      fun x => match x with
        | .bool b => .b b | .num n => .i n | .str s => .s s
        | .nodes a => if isTagNode root c.node then .s (a.getD []) else .none := by
    funext x; cases x <;> simp [mechVal, mechV, isHasAttr]
  rw [hm]
  unfold isTagNode
  cases pfx with
  | none =>
    simp only [Option.map_some, Option.some.injEq] at h
    subst h
    simp only [checkPrefix]
    cases hn : nodeOf root c.node with
    | none => simp
    | some t => cases t <;> simp
  | some p =>
    cases hd : Ser.dget env (showS p) with
    | none => simp [hd] at h
    | some uri =>
      simp only [hd, Option.map_some, Option.some.injEq] at h
      subst h
      simp only [checkPrefix, hd, Option.isSome_some, if_true]
      cases hn : nodeOf root c.node with
      | none => simp
      | some t => cases t <;> simp [hd]

@[simp] theorem val_s_beq (a b : Str) : (Val.s a == Val.s b) = (a == b) := by
  rw [Bool.eq_iff_iff]; simp
@[simp] theorem val_none_beq_s (b : Str) : (Val.none == Val.s b) = false := by simp
@[simp] theorem val_s_beq_none (b : Str) : (Val.s b == Val.none) = false := by simp

def nodesSome : XVal → Bool
  | .nodes (some _) => true
  | _ => false

def isNodes : XVal → Bool
  | .nodes _ => true
  | _ => false

theorem binop_mechVal (tag : Bool) (root : PTree) (env : NsEnv) (c : Ctx) (op : String) (l r : Expr) (x y z : XVal)
    (hl : valSpec root env c l = some x) (hr : valSpec root env c r = some y)
    (hx : tag = false → nodesSome x = false) (hy : tag = false → nodesSome y = false)
    (hxl : isNodes x = true → isAttrVal l = false → isHasAttr l = true)
    (hyr : isNodes y = true → isAttrVal r = false → isHasAttr r = true)
    (hz : binSpec op x y = some z)
    (h0 : shapeAt (.binop op l r) = true)
    (h1 : attrCompareAt root env c (.binop op l r) = true)
    (h5 : andOrAt root env c (.binop op l r) = true)
    (h6 : boolCompareAt root env c (.binop op l r) = true) :
    applyOp op (mechVal tag l x) (mechVal tag r y) = .ok (mechVal tag (.binop op l r) z) := by
  simp only [attrCompareAt, andOrAt, boolCompareAt, shapeAt, hl, hr] at h0 h1 h5 h6
  rw [mechVal_of_not_hasAttr (e := .binop op l r) rfl]
  unfold binSpec at hz
  split at hz
  · simp (config := {decide := true}) at h0 h1 h5 h6
    obtain ⟨hhl, hhr⟩ := h0
    rw [mechVal_of_not_hasAttr hhl, mechVal_of_not_hasAttr hhr]
    rcases x with a | s | n | b <;> rcases y with a' | s' | n' | b' <;> simp [eqSpec] at hz h1 h6 <;> subst hz <;>
      cases tag <;> simp [mechV, applyOp, asInt] <;> (try rcases a with _ | a) <;> (try rcases a' with _ | a') <;>
      simp_all [nodesSome, XVal.toBool] <;>
      first | (cases b <;> cases b' <;> decide) | (rw [Bool.eq_iff_iff]; simp only [beq_iff_eq]; exact Int.ofNat_inj)
  · simp (config := {decide := true}) at h0 h1 h5 h6
    obtain ⟨hhl, hhr⟩ := h0
    rw [mechVal_of_not_hasAttr hhl, mechVal_of_not_hasAttr hhr]
    rcases x with a | s | n | b <;> rcases y with a' | s' | n' | b' <;> simp [eqSpec] at hz h1 h6 <;> subst hz <;>
      cases tag <;> simp [mechV, applyOp, asInt] <;> (try rcases a with _ | a) <;> (try rcases a' with _ | a') <;>
      simp_all [nodesSome, XVal.toBool] <;>
      first | (cases b <;> cases b' <;> decide) | (rw [Bool.eq_iff_iff]; simp only [beq_iff_eq]; exact Int.ofNat_inj)
  · simp (config := {decide := true}) at h0 h1 h5 h6
    obtain ⟨hhl, hhr⟩ := h0
    rw [mechVal_of_not_hasAttr hhl, mechVal_of_not_hasAttr hhr]
    rcases x with a | s | n | b <;> rcases y with a' | s' | n' | b' <;> simp [relSpec, XVal.toNum] at hz <;> subst hz <;>
      simp [mechV, applyOp, asInt] <;> (try cases b) <;> (try cases b') <;> simp <;> omega
  · simp (config := {decide := true}) at h0 h1 h5 h6
    obtain ⟨hhl, hhr⟩ := h0
    rw [mechVal_of_not_hasAttr hhl, mechVal_of_not_hasAttr hhr]
    rcases x with a | s | n | b <;> rcases y with a' | s' | n' | b' <;> simp [relSpec, XVal.toNum] at hz <;> subst hz <;>
      simp [mechV, applyOp, asInt] <;> (try cases b) <;> (try cases b') <;> simp <;> omega
  · simp (config := {decide := true}) at h0 h1 h5 h6
    obtain ⟨hhl, hhr⟩ := h0
    rw [mechVal_of_not_hasAttr hhl, mechVal_of_not_hasAttr hhr]
    rcases x with a | s | n | b <;> rcases y with a' | s' | n' | b' <;> simp [relSpec, XVal.toNum] at hz <;> subst hz <;>
      simp [mechV, applyOp, asInt] <;> (try cases b) <;> (try cases b') <;> simp <;> omega
  · simp (config := {decide := true}) at h0 h1 h5 h6
    obtain ⟨hhl, hhr⟩ := h0
    rw [mechVal_of_not_hasAttr hhl, mechVal_of_not_hasAttr hhr]
    rcases x with a | s | n | b <;> rcases y with a' | s' | n' | b' <;> simp [relSpec, XVal.toNum] at hz <;> subst hz <;>
      simp [mechV, applyOp, asInt] <;> (try cases b) <;> (try cases b') <;> simp <;> omega
  · simp (config := {decide := true}) at h0 h1 h5 h6
    obtain ⟨hal, har⟩ := h0
    have hl' := fun h => hxl h hal
    have hr' := fun h => hyr h har
    simp only [Option.some.injEq] at hz
    subst hz
    rcases x with a | s | n | b <;> rcases y with a' | s' | n' | b' <;> simp at h5 <;>
      simp [isNodes] at hl' hr' <;> simp [mechVal, mechB, mechV, applyOp, XVal.toBool, *]
  · simp (config := {decide := true}) at h0 h1 h5 h6
    obtain ⟨hal, har⟩ := h0
    have hl' := fun h => hxl h hal
    have hr' := fun h => hyr h har
    simp only [Option.some.injEq] at hz
    subst hz
    rcases x with a | s | n | b <;> rcases y with a' | s' | n' | b' <;> simp at h5 <;>
      simp [isNodes] at hl' hr' <;> simp [mechVal, mechB, mechV, applyOp, XVal.toBool, *]
  · simp at hz

theorem binSpec_not_nodes {op : String} {x y z : XVal} (h : binSpec op x y = some z) : isNodes z = false := by
  cases z with
  | nodes a => unfold binSpec at h; split at h <;> simp at h
  | _ => rfl

theorem funSpec_not_nodes {c : Ctx} {n : String} {xs : List XVal} {z : XVal} (h : funSpec c n xs = some z) :
    isNodes z = false := by
  unfold funSpec at h
  split at h
  · cases h; rfl
  · cases h; rfl
  · cases h; rfl
  · cases h; rfl
  · split at h <;> cases h; rfl
  · split at h <;> cases h; rfl
  · cases h

theorem valSpec_nodes_form {root : PTree} {env : NsEnv} {c : Ctx} {e : Expr} {x : XVal}
    (h : valSpec root env c e = some x) (hn : isNodes x = true) (hv : isAttrVal e = false) : isHasAttr e = true := by
  cases e with
  | num n => simp [valSpec] at h; subst h; simp [isNodes] at hn
  | str s => simp [valSpec] at h; subst h; simp [isNodes] at hn
  | hasAttr p n => rfl
  | attrVal p n => simp [isAttrVal] at hv
  | binop op l r =>
    simp only [valSpec] at h
    split at h
    · rw [binSpec_not_nodes h] at hn; cases hn
    · cases h
  | func name args =>
    simp only [valSpec] at h
    split at h
    · rw [funSpec_not_nodes h] at hn; cases hn
    · cases h

theorem attrNode_nontag {root : PTree} {env : NsEnv} {n : XNode} {pfx : Option Str} {name : Str} {a : Option Str}
    (ht : isTagNode root n = false) (h : attrNode root env n pfx name = some a) : a = none := by
  unfold isTagNode at ht
  unfold attrNode at h
  have : (match nodeOf root n with
      | some (.tag _ _ _ attrs _) => true
      | _ => false) = false := ht
  cases hn : nodeOf root n with
  | none => 
    simp only [hn] at h
    cases pfx with
    | none => simp at h; exact h.symm
    | some p => 
      simp at h
      split at h <;> simp at h
      exact h.symm
  | some t =>
    cases t with
    | tag => simp [hn] at ht
    | _ =>
      simp only [hn] at h
      cases pfx with
      | none => simp at h; exact h.symm
      | some p => 
        simp at h
        split at h <;> simp at h
        exact h.symm

theorem valSpec_nodes_nontag {root : PTree} {env : NsEnv} {c : Ctx} {e : Expr} {x : XVal}
    (h : valSpec root env c e = some x) (ht : isTagNode root c.node = false) : nodesSome x = false := by
  cases e with
  | num n => simp [valSpec] at h; subst h; rfl
  | str s => simp [valSpec] at h; subst h; rfl
  | hasAttr p n =>
    simp only [valSpec, Option.map_eq_some_iff] at h
    obtain ⟨a, ha, rfl⟩ := h
    rw [attrNode_nontag ht ha]; rfl
  | attrVal p n =>
    simp only [valSpec, Option.map_eq_some_iff] at h
    obtain ⟨a, ha, rfl⟩ := h
    rw [attrNode_nontag ht ha]; rfl
  | binop op l r =>
    simp only [valSpec] at h
    split at h
    · have := binSpec_not_nodes h
      cases x <;> simp_all [isNodes, nodesSome]
    · cases h
  | func name args =>
    simp only [valSpec] at h
    split at h
    · have := funSpec_not_nodes h
      cases x <;> simp_all [isNodes, nodesSome]
    · cases h


theorem valSpecArgs_nil {root : PTree} {env : NsEnv} {c : Ctx} {args : List Expr}
    (h : valSpecArgs root env c args = some []) : args = [] := by
  cases args with
  | nil => rfl
  | cons a as =>
    simp only [valSpecArgs] at h
    split at h <;> cases h

theorem valSpecArgs_cons {root : PTree} {env : NsEnv} {c : Ctx} {args : List Expr} {x : XVal} {xs : List XVal}
    (h : valSpecArgs root env c args = some (x :: xs)) :
    ∃ a as, args = a :: as ∧ valSpec root env c a = some x ∧ valSpecArgs root env c as = some xs := by
  cases args with
  | nil => simp [valSpecArgs] at h
  | cons a as =>
    simp only [valSpecArgs] at h
    split at h
    · next hx hxs =>
      simp only [Option.some.injEq, List.cons.injEq] at h
      obtain ⟨rfl, rfl⟩ := h
      exact ⟨a, as, rfl, hx, hxs⟩
    · cases h

theorem truthy_mechV_toBool (tag : Bool) (x : XVal) (hx : tag = false → nodesSome x = false)
    (h : (match some x with | some (.nodes (some v)) => !v.isEmpty | _ => true) = true) :
    truthy (mechV tag x) = x.toBool := by
  rcases x with a | s | n | b
  · rcases a with _ | a
    · cases tag <;> simp [mechV, truthy, XVal.toBool]
    · cases tag
      · simp [nodesSome] at hx
      · simp at h; simp [mechV, truthy, XVal.toBool, h]
  · simp [mechV, truthy, XVal.toBool]
  · simp only [mechV, truthy, XVal.toBool]
    rw [Bool.eq_iff_iff]; simp only [bne_iff_ne, ne_eq]; omega
  · simp [mechV, truthy, XVal.toBool]

theorem mechV_toStr (tag : Bool) {root : PTree} {env : NsEnv} {c : Ctx} {a : Expr} {x : XVal} {s : Str}
    (ha : valSpec root env c a = some x) (hs : x.toStr = some s) (h0 : isHasAttr a = false)
    (h4 : tag = true ∨ isAttrVal a = false) : mechV tag x = .s s := by
  rcases x with o | s' | n | b
  · have : isAttrVal a = true := by
      cases hv : isAttrVal a with
      | true => rfl
      | false => rw [valSpec_nodes_form ha rfl hv] at h0; cases h0
    have ht : tag = true := by
      rcases h4 with h | h
      · exact h
      · rw [this] at h; cases h
    subst ht
    simp [XVal.toStr] at hs
    simp [mechV, hs]
  · simp [XVal.toStr] at hs
    simp [mechV, hs]
  · simp [XVal.toStr] at hs
  · simp [XVal.toStr] at hs

theorem func_mechVal (root : PTree) (env : NsEnv) (c : Ctx) (name : Str) (args : List Expr) (xs : List XVal) (z : XVal)
    (hargs : valSpecArgs root env c args = some xs)
    (hev : evalArgs root env c args = .ok (mechVals (isTagNode root c.node) args xs))
    (hz : funSpec c (showS name) xs = some z)
    (h0 : shapeAt (.func name args) = true)
    (h2 : attrBooleanAt root env c (.func name args) = true)
    (h4 : attrFunctionAt root c (.func name args) = true) :
    evalExpr root env c (.func name args) = .ok (mechVal (isTagNode root c.node) (.func name args) z) := by
  rw [mechVal_of_not_hasAttr (e := .func name args) rfl]
  unfold evalExpr
  rw [hev]
  simp only
  unfold funSpec at hz
  split at hz
  · next hn =>
    cases valSpecArgs_nil hargs
    simp only [Option.some.injEq] at hz; subst hz
    simp [hn, mechVals, mechV]
  · next hn =>
    cases valSpecArgs_nil hargs
    simp only [Option.some.injEq] at hz; subst hz
    simp [hn, mechVals, mechV]
  · next x hn =>
    obtain ⟨a, as, rfl, ha, has⟩ := valSpecArgs_cons hargs
    cases valSpecArgs_nil has
    simp only [Option.some.injEq] at hz; subst hz
    simp [shapeAt] at h0
    simp [attrBooleanAt, hn, ha] at h2
    have ht := truthy_mechV_toBool (isTagNode root c.node) x (fun ht => valSpec_nodes_nontag ha ht) h2
    simp [hn, mechVals, mechVal_of_not_hasAttr h0, ht]
    simp [mechV]
  · next x hn =>
    obtain ⟨a, as, rfl, ha, has⟩ := valSpecArgs_cons hargs
    cases valSpecArgs_nil has
    simp only [Option.some.injEq] at hz; subst hz
    simp [shapeAt] at h0
    simp [attrBooleanAt, hn, ha] at h2
    have ht := truthy_mechV_toBool (isTagNode root c.node) x (fun ht => valSpec_nodes_nontag ha ht) h2
    simp [hn, mechVals, mechVal_of_not_hasAttr h0, ht]
    simp [mechV]
  · next x y hn =>
    obtain ⟨a, as, rfl, ha, has⟩ := valSpecArgs_cons hargs
    obtain ⟨b, bs, rfl, hb, hbs⟩ := valSpecArgs_cons has
    cases valSpecArgs_nil hbs
    simp [shapeAt] at h0
    simp [attrFunctionAt, hn] at h4
    split at hz
    · next sa sb hsa hsb =>
      simp only [Option.some.injEq] at hz; subst hz
      have e1 := mechV_toStr (isTagNode root c.node) ha hsa h0.1 (h4.imp id (fun h => h.1))
      have e2 := mechV_toStr (isTagNode root c.node) hb hsb h0.2 (h4.imp id (fun h => h.2))
      simp [hn, mechVals, mechVal_of_not_hasAttr h0.1, mechVal_of_not_hasAttr h0.2, e1, e2]
      simp [mechV]
    · cases hz
  · next x y hn =>
    obtain ⟨a, as, rfl, ha, has⟩ := valSpecArgs_cons hargs
    obtain ⟨b, bs, rfl, hb, hbs⟩ := valSpecArgs_cons has
    cases valSpecArgs_nil hbs
    simp [shapeAt] at h0
    simp [attrFunctionAt, hn] at h4
    split at hz
    · next sa sb hsa hsb =>
      simp only [Option.some.injEq] at hz; subst hz
      have e1 := mechV_toStr (isTagNode root c.node) ha hsa h0.1 (h4.imp id (fun h => h.1))
      have e2 := mechV_toStr (isTagNode root c.node) hb hsb h0.2 (h4.imp id (fun h => h.2))
      simp [hn, mechVals, mechVal_of_not_hasAttr h0.1, mechVal_of_not_hasAttr h0.2, e1, e2]
      simp [mechV]
    · cases hz
  · cases hz


/-- all the per-node conditions of `PredSafe`, at every subexpression -/
def SubSafe (root : PTree) (env : NsEnv) (c : Ctx) (e : Expr) : Prop :=
  allSub shapeAt e = true ∧ allSub (attrCompareAt root env c) e = true ∧
  allSub (attrBooleanAt root env c) e = true ∧ allSub (attrFunctionAt root c) e = true ∧
  allSub (andOrAt root env c) e = true ∧ allSub (boolCompareAt root env c) e = true

def SubSafeArgs (root : PTree) (env : NsEnv) (c : Ctx) (as : List Expr) : Prop :=
  allSubArgs shapeAt as = true ∧ allSubArgs (attrCompareAt root env c) as = true ∧
  allSubArgs (attrBooleanAt root env c) as = true ∧ allSubArgs (attrFunctionAt root c) as = true ∧
  allSubArgs (andOrAt root env c) as = true ∧ allSubArgs (boolCompareAt root env c) as = true

mutual
  theorem evalExpr_mechVal (root : PTree) (env : NsEnv) (c : Ctx) :
      (e : Expr) → (x : XVal) → SubSafe root env c e → valSpec root env c e = some x →
      evalExpr root env c e = .ok (mechVal (isTagNode root c.node) e x)
    | .num n, x, _, h => by
      simp only [valSpec, Option.some.injEq] at h; subst h
      simp [evalExpr, mechVal, isHasAttr, mechV]
    | .str s, x, _, h => by
      simp only [valSpec, Option.some.injEq] at h; subst h
      simp [evalExpr, mechVal, isHasAttr, mechV]
    | .hasAttr p n, x, _, h => evalExpr_hasAttr_mechVal root env c p n x h
    | .attrVal p n, x, _, h => evalExpr_attrVal_mechVal root env c p n x h
    | .binop op l r, z, hs, h => by
      obtain ⟨s0, s1, s2, s4, s5, s6⟩ := hs
      simp only [allSub, Bool.and_eq_true] at s0 s1 s2 s4 s5 s6
      simp only [valSpec] at h
      split at h
      · next x y hl hr =>
        have el := evalExpr_mechVal root env c l x ⟨s0.1.2, s1.1.2, s2.1.2, s4.1.2, s5.1.2, s6.1.2⟩ hl
        have er := evalExpr_mechVal root env c r y ⟨s0.2, s1.2, s2.2, s4.2, s5.2, s6.2⟩ hr
        unfold evalExpr
        rw [el, er]
        exact binop_mechVal _ root env c op l r x y z hl hr (valSpec_nodes_nontag hl) (valSpec_nodes_nontag hr)
          (valSpec_nodes_form hl) (valSpec_nodes_form hr) h s0.1.1 s1.1.1 s5.1.1 s6.1.1
      · cases h
    | .func name args, z, hs, h => by
      obtain ⟨s0, s1, s2, s4, s5, s6⟩ := hs
      simp only [allSub, Bool.and_eq_true] at s0 s1 s2 s4 s5 s6
      simp only [valSpec] at h
      split at h
      · next xs hxs =>
        have ea := evalArgs_mechVals root env c args xs ⟨s0.2, s1.2, s2.2, s4.2, s5.2, s6.2⟩ hxs
        exact func_mechVal root env c name args xs z hxs ea h s0.1 s2.1 s4.1
      · cases h
  theorem evalArgs_mechVals (root : PTree) (env : NsEnv) (c : Ctx) :
      (as : List Expr) → (xs : List XVal) → SubSafeArgs root env c as → valSpecArgs root env c as = some xs →
      evalArgs root env c as = .ok (mechVals (isTagNode root c.node) as xs)
    | [], xs, _, h => by
      simp only [valSpecArgs, Option.some.injEq] at h; subst h
      simp [evalArgs, mechVals]
    | a :: as, xs, hs, h => by
      obtain ⟨s0, s1, s2, s4, s5, s6⟩ := hs
      simp only [allSubArgs, Bool.and_eq_true] at s0 s1 s2 s4 s5 s6
      simp only [valSpecArgs] at h
      split at h
      · next x xs' hx hxs =>
        simp only [Option.some.injEq] at h; subst h
        have e1 := evalExpr_mechVal root env c a x ⟨s0.1, s1.1, s2.1, s4.1, s5.1, s6.1⟩ hx
        have e2 := evalArgs_mechVals root env c as xs' ⟨s0.2, s1.2, s2.2, s4.2, s5.2, s6.2⟩ hxs
        simp only [evalArgs, e1, e2, mechVals]
      · cases h
end

/-- outside the marked situations the mechanism returns a value whose truthiness is the XPath 1.0 value of
    the predicate -/
theorem evalExpr_truthy_of_predSafe (root : PTree) (env : NsEnv) (c : Ctx) (e : Expr) (b : Bool)
    (hs : PredSafe root env c e) (hb : predSpec root env c e = some b) :
    ∃ v, evalExpr root env c e = .ok v ∧ truthy v = b := by
  unfold predSpec at hb
  have hnum := hs.numberPred
  unfold numberPredOk at hnum
  cases hx : valSpec root env c e with
  | none => simp [hx] at hb
  | some x =>
    have hev := evalExpr_mechVal root env c e x
      ⟨hs.shape, hs.attrCompare, hs.attrBoolean, hs.attrFunction, hs.andOr, hs.boolCompare⟩ hx
    refine ⟨_, hev, ?_⟩
    rcases x with a | s | n | b'
    · simp only [hx, Option.some.injEq] at hb
      subst hb
      have hh : isHasAttr e = true := valSpec_nodes_form hx rfl hs.shapeTop
      simp [mechVal, hh, mechB, truthy, XVal.toBool]
    · simp only [hx, Option.some.injEq] at hb
      subst hb
      rw [mechVal_of_not_nodes (by intro a h; cases h)]
      simp [mechB, truthy, XVal.toBool]
    · simp [hx] at hnum
    · simp only [hx, Option.some.injEq] at hb
      subst hb
      rw [mechVal_of_not_nodes (by intro a h; cases h)]
      simp [mechB, truthy, XVal.toBool]

/-- the declarative reading of `isInfix` (Eval.lean), used by `contains` in the specification:
    `sub` occurs in `s` as a contiguous block -/
theorem isInfix_iff (sub s : Str) : isInfix sub s = true ↔ ∃ pre post, s = pre ++ sub ++ post := by
  induction s with
  | nil =>
    simp only [isInfix, List.isEmpty_iff]
    constructor
    · rintro rfl; exact ⟨[], [], rfl⟩
    · rintro ⟨pre, post, h⟩
      have h' := congrArg List.length h
      simp at h'
      exact List.eq_nil_of_length_eq_zero (by omega)
  | cons ch cs ih =>
    simp only [isInfix, Bool.or_eq_true, ih]
    constructor
    · rintro (h | ⟨pre, post, h⟩)
      · obtain ⟨t, ht⟩ := List.isPrefixOf_iff_prefix.1 h
        exact ⟨[], t, by simp [ht]⟩
      · exact ⟨ch :: pre, post, by simp [h]⟩
    · rintro ⟨pre, post, h⟩
      cases pre with
      | nil =>
        left
        exact List.isPrefixOf_iff_prefix.2 ⟨post, by simpa using h.symm⟩
      | cons p pre' =>
        right
        simp only [List.cons_append, List.cons.injEq] at h
        exact ⟨pre', post, h.2⟩


theorem predFilter_eq_xpath1 (root : PTree) (env : NsEnv) (pred : Expr) (l : List XNode)
    (h : ∀ n ∈ l, ∀ pos, predHolds root env pred n pos l.length = predHoldsXPath1 root env pred n pos l.length) :
    predFilter root env pred l = predFilterXPath1 root env pred l := by
  unfold predFilter predFilterXPath1
  congr 1
  apply List.filter_congr
  intro ni hni
  have hm : ni.1 ∈ l := by
    have : ni.1 ∈ (l.zipIdx 1).map (·.1) := List.mem_map_of_mem hni
    simpa using this
  exact h ni.1 hm ni.2

theorem predFilter_sublist' (root : PTree) (env : NsEnv) (pred : Expr) (l : List XNode) :
    (predFilter root env pred l).Sublist l := by
  unfold predFilter
  have h1 : (List.map (fun x => x.1) (List.filter (fun ni => predHolds root env pred ni.1 ni.2 l.length) (l.zipIdx 1))).Sublist
      (List.map (fun x => x.1) (l.zipIdx 1)) := List.Sublist.map _ List.filter_sublist
  have h2 : List.map (fun x => x.1) (l.zipIdx 1) = l := by simp
  rw [h2] at h1
  exact h1

/-- if on every candidate of the step (a node on the axis that passes the node test), for every position
    and size, each predicate is outside the marked situations and has an XPath 1.0 value, the step
    denotation with the mechanism's predicate values is the one with XPath 1.0's -/
theorem stepDenote_eq_xpath1 (root : PTree) (env : NsEnv) (s : Step) (ctx : XNode)
    (h : ∀ pred ∈ s.preds, ∀ n ∈ (axisDenote root s.axis ctx).filter (testDenote root env s.test), ∀ pos size,
      PredSafe root env { node := n, position := pos, size := size } pred ∧
      (predSpec root env { node := n, position := pos, size := size } pred).isSome = true) :
    stepDenote root env s ctx = stepDenoteXPath1 root env s ctx := by
  unfold stepDenote stepDenoteXPath1
  generalize hc : (axisDenote root s.axis ctx).filter (testDenote root env s.test) = cands at h
  have : ∀ (ps : List Expr) (l : List XNode), (∀ p ∈ ps, p ∈ s.preds) → l.Sublist cands →
      ps.foldl (fun cur pred => predFilter root env pred cur) l =
      ps.foldl (fun cur pred => predFilterXPath1 root env pred cur) l := by
    intro ps
    induction ps with
    | nil => intros; rfl
    | cons p ps ih =>
      intro l hps hl
      simp only [List.foldl_cons]
      have e : predFilter root env p l = predFilterXPath1 root env p l := by
        apply predFilter_eq_xpath1
        intro n hn pos
        obtain ⟨hsafe, hsome⟩ := h p (hps p (List.mem_cons_self ..)) n (hl.subset hn) pos l.length
        obtain ⟨b, hb⟩ := Option.isSome_iff_exists.1 hsome
        obtain ⟨v, hv, ht⟩ := evalExpr_truthy_of_predSafe root env _ p b hsafe hb
        simp [predHolds, predHoldsXPath1, hv, hb, ht]
      rw [← e]
      exact ih _ (fun q hq => hps q (List.mem_cons_of_mem _ hq)) ((predFilter_sublist' root env p l).trans hl)
  exact this s.preds cands (fun p hp => hp) (List.Sublist.refl _)


end Delb.XPath

import DelbModel.Model.XPath.Spec
import DelbModel.Lemmas.XPathEval.Steps
/-!
# C06 helper lemmas: the mechanism model (`Eval.lean`) against the specification (`Spec.lean`)

* document order on `XNode` (`docBefore`) is a strict order, `docNodes` is strictly sorted by it;
  two sorted lists with the same members are equal (`sorted_ext`)
* every axis generator yields `axisDenote` (`axisNodes_eq_denote`)
* `nodeTest` against `testDenote`, `filterPred` / `applyPreds` against `predFilter`
* `evalStepAt` against `stepDenote`; `evalSteps` against `Selects` / `stepsDenote`; `evalPaths`
* when nothing raises
-/
namespace Delb.XPath
open Delb.Edit Delb.Nav

/-! ## document order on nodes -/

theorem docBefore_irrefl (a : XNode) : docBefore a a = false := by
  cases a <;> simp [docBefore, pathLt_irrefl]

theorem docBefore_trans {a b c : XNode} (h₁ : docBefore a b = true) (h₂ : docBefore b c = true) :
    docBefore a c = true := by
  cases a <;> cases b <;> cases c <;> simp_all [docBefore]
  exact pathLt_trans h₁ h₂

theorem docBefore_asymm {a b : XNode} (h : docBefore a b = true) : docBefore b a = false := by
  cases hb : docBefore b a with
  | false => rfl
  | true => have := docBefore_trans h hb; rw [docBefore_irrefl] at this; cases this

/-- strictly sorted in document order -/
abbrev DocSorted (l : List XNode) : Prop := l.Pairwise (fun a b => docBefore a b = true)

/-- two strictly sorted lists with the same members are equal -/
theorem sorted_ext {α} {lt : α → α → Bool}
    (irrefl : ∀ a, lt a a = false) (asymm : ∀ {a b}, lt a b = true → lt b a = false)
    {l₁ l₂ : List α} (h₁ : l₁.Pairwise (fun a b => lt a b = true)) (h₂ : l₂.Pairwise (fun a b => lt a b = true))
    (hm : ∀ x, x ∈ l₁ ↔ x ∈ l₂) : l₁ = l₂ := by
  induction l₁ generalizing l₂ with
  | nil =>
    cases l₂ with
    | nil => rfl
    | cons b l₂ => exact absurd ((hm b).2 (by simp)) (by simp)
  | cons a l₁ ih =>
    cases l₂ with
    | nil => exact absurd ((hm a).1 (by simp)) (by simp)
    | cons b l₂ =>
      rw [List.pairwise_cons] at h₁ h₂
      have hab : a = b := by
        rcases List.mem_cons.1 ((hm a).1 (by simp)) with h | h
        · exact h
        · rcases List.mem_cons.1 ((hm b).2 (by simp)) with h' | h'
          · exact h'.symm
          · have e1 := h₂.1 a h
            have e2 := h₁.1 b h'
            rw [asymm e1] at e2; cases e2
      subst hab
      congr 1
      refine ih h₁.2 h₂.2 (fun x => ?_)
      constructor
      · intro hx
        rcases List.mem_cons.1 ((hm x).1 (List.mem_cons_of_mem _ hx)) with h | h
        · subst h; have := h₁.1 x hx; rw [irrefl] at this; cases this
        · exact h
      · intro hx
        rcases List.mem_cons.1 ((hm x).2 (List.mem_cons_of_mem _ hx)) with h | h
        · subst h; have := h₂.1 x hx; rw [irrefl] at this; cases this
        · exact h

theorem docSorted_ext {l₁ l₂ : List XNode} (h₁ : DocSorted l₁) (h₂ : DocSorted l₂)
    (hm : ∀ x, x ∈ l₁ ↔ x ∈ l₂) : l₁ = l₂ :=
  sorted_ext docBefore_irrefl docBefore_asymm h₁ h₂ hm

theorem docSorted_map_at {l : List (List Nat)} (h : l.Pairwise (fun a b => pathLt a b = true)) :
    DocSorted (l.map XNode.at) := by
  unfold DocSorted
  rw [List.pairwise_map]
  exact h.imp (fun hab => by simpa [docBefore] using hab)

theorem docSorted_doc_cons {l : List (List Nat)} (h : l.Pairwise (fun a b => pathLt a b = true)) :
    DocSorted (XNode.doc :: l.map XNode.at) := by
  unfold DocSorted
  rw [List.pairwise_cons]
  refine ⟨?_, docSorted_map_at h⟩
  intro b hb
  obtain ⟨q, _, rfl⟩ := List.mem_map.1 hb
  rfl

theorem docNodes_sorted (root : PTree) : DocSorted (docNodes root) :=
  docSorted_doc_cons (docOrder_sorted root)

theorem docNodes_nodup (root : PTree) : (docNodes root).Nodup := by
  have := docNodes_sorted root
  unfold List.Nodup
  exact this.imp (fun h e => by subst e; rw [docBefore_irrefl] at h; cases h)

theorem doc_mem_docNodes (root : PTree) : XNode.doc ∈ docNodes root := by simp [docNodes]

theorem at_mem_docNodes (root : PTree) (p : List Nat) : XNode.at p ∈ docNodes root ↔ p ∈ docOrder root := by
  simp [docNodes]

/-- `docBefore` is the order of the listing `docNodes` -/
theorem docBefore_iff (root : PTree) (a b : XNode) (ha : a ∈ docNodes root) (hb : b ∈ docNodes root) :
    docBefore a b = true ↔ ∃ l₁ l₂ l₃, docNodes root = l₁ ++ a :: l₂ ++ b :: l₃ := by
  have hs : (docNodes root).Pairwise (fun a b => docBefore a b = true) := docNodes_sorted root
  constructor
  · intro hab
    obtain ⟨x, y, hxy⟩ := List.append_of_mem ha
    rw [hxy] at hs hb
    rw [List.pairwise_append] at hs
    obtain ⟨_, hy, hxa⟩ := hs
    rw [List.pairwise_cons] at hy
    rcases List.mem_append.1 hb with hbx | hby
    · have := hxa b hbx a (by simp)
      rw [docBefore_asymm hab] at this; cases this
    · rcases List.mem_cons.1 hby with rfl | hby
      · rw [docBefore_irrefl] at hab; cases hab
      · obtain ⟨c, d, rfl⟩ := List.append_of_mem hby
        exact ⟨x, c, d, by rw [hxy]; simp⟩
  · rintro ⟨l₁, l₂, l₃, h⟩
    rw [h, List.append_assoc, List.pairwise_append] at hs
    obtain ⟨_, hb', _⟩ := hs
    rw [List.cons_append, List.pairwise_cons] at hb'
    exact hb'.1 b (by simp)

/-- a list that is sorted and whose members are the members of `docNodes` satisfying `P` is the filter -/
theorem eq_filter_docNodes (root : PTree) (P : XNode → Bool) (l : List XNode) (hs : DocSorted l)
    (hm : ∀ n, n ∈ l ↔ (n ∈ docNodes root ∧ P n = true)) : l = (docNodes root).filter P := by
  refine docSorted_ext hs ((docNodes_sorted root).sublist List.filter_sublist) (fun n => ?_)
  rw [hm, List.mem_filter]

/-- the reverse-axis variant: nearest first means reverse document order -/
theorem eq_reverse_filter_docNodes (root : PTree) (P : XNode → Bool) (l : List XNode) (hs : DocSorted l.reverse)
    (hm : ∀ n, n ∈ l ↔ (n ∈ docNodes root ∧ P n = true)) : l = ((docNodes root).filter P).reverse := by
  rw [← eq_filter_docNodes root P l.reverse hs (fun n => by rw [List.mem_reverse, hm]), List.reverse_reverse]

/-! ## addresses -/

theorem path_nil_or_concat (p : List Nat) : p = [] ∨ ∃ par i, p = par ++ [i] := by
  rcases List.eq_nil_or_concat p with h | ⟨l, b, h⟩
  · exact .inl h
  · exact .inr ⟨l, b, by simpa [List.concat_eq_append] using h⟩

theorem pathLt_append_left (p a b : List Nat) : pathLt (p ++ a) (p ++ b) = pathLt a b := by
  induction p with
  | nil => rfl
  | cons x p ih => simp [pathLt, ih]

theorem pathLt_concat (par : List Nat) (i j : Nat) : pathLt (par ++ [i]) (par ++ [j]) = true ↔ i < j := by
  rw [pathLt_append_left]; simp [pathLt]

theorem concat_inj {par par' : List Nat} {i j : Nat} : par ++ [i] = par' ++ [j] ↔ par = par' ∧ i = j := by
  constructor
  · intro h
    have := List.append_inj' h rfl
    simpa using this
  · rintro ⟨rfl, rfl⟩; rfl

theorem parentOf_concat (par : List Nat) (i : Nat) : parentOf (.at (par ++ [i])) = some (.at par) := by
  simp [parentOf]

theorem parentOf_eq_some_at (n : XNode) (par : List Nat) :
    parentOf n = some (.at par) ↔ ∃ j, n = .at (par ++ [j]) := by
  cases n with
  | doc => simp [parentOf]
  | «at» q =>
    rcases path_nil_or_concat q with rfl | ⟨par', i, rfl⟩
    · simp [parentOf]
    · rw [parentOf_concat]
      simp only [Option.some.injEq, XNode.at.injEq, concat_inj]
      constructor
      · rintro rfl; exact ⟨i, rfl, rfl⟩
      · rintro ⟨j, rfl, _⟩; rfl

theorem parentOf_eq_some_doc (n : XNode) : parentOf n = some .doc ↔ n = .at [] := by
  cases n with
  | doc => simp [parentOf]
  | «at» q =>
    rcases path_nil_or_concat q with rfl | ⟨par', i, rfl⟩
    · simp [parentOf]
    · rw [parentOf_concat]; simp

theorem isAncestorOf_at_at (p q : List Nat) : isAncestorOf (.at p) (.at q) = true ↔ (p <+: q ∧ p ≠ q) := by
  simp [isAncestorOf]

theorem nil_mem_docOrder (root : PTree) : [] ∈ docOrder root := nil_mem_pathsOf root

theorem splitLast_nil : splitLast ([] : List Nat) = none := rfl

/-! ## every axis generator yields the axis of the specification -/

theorem axisDenote_forward (root : PTree) (axis : String) (ctx : XNode) (h : isReverseAxis axis = false) :
    axisDenote root axis ctx = (docNodes root).filter (axisRel axis ctx) := by
  simp [axisDenote, axisOrder, h]

theorem axisDenote_reverse (root : PTree) (axis : String) (ctx : XNode) (h : isReverseAxis axis = true) :
    axisDenote root axis ctx = ((docNodes root).filter (axisRel axis ctx)).reverse := by
  simp [axisDenote, axisOrder, h]

theorem docSorted_children (par : List Nat) {f : List Nat} (hf : f.Pairwise (fun a b => a < b)) :
    DocSorted (f.map (fun j => XNode.at (par ++ [j]))) := by
  unfold DocSorted
  rw [List.pairwise_map]
  exact hf.imp (fun {a b} hab => by
    show pathLt (par ++ [a]) (par ++ [b]) = true
    exact (pathLt_concat par a b).2 hab)

theorem at_concat_mem_docNodes (root : PTree) (par : List Nat) (j : Nat) :
    XNode.at (par ++ [j]) ∈ docNodes root ↔ j < kidsCount root par := by
  rw [at_mem_docNodes, mem_docOrder, lt_kidsCount_iff]

theorem denote_child_at (root : PTree) (p : List Nat) :
    (List.range (kidsCount root p)).map (fun i => XNode.at (p ++ [i])) = axisDenote root "child" (.at p) := by
  rw [axisDenote_forward root _ _ rfl]
  refine eq_filter_docNodes root _ _ (docSorted_children p List.pairwise_lt_range) (fun n => ?_)
  show _ ↔ (_ ∧ (parentOf n == some (.at p)) = true)
  rw [beq_iff_eq, parentOf_eq_some_at, List.mem_map]
  constructor
  · rintro ⟨i, hi, rfl⟩
    exact ⟨(at_concat_mem_docNodes root p i).2 (List.mem_range.1 hi), i, rfl⟩
  · rintro ⟨hn, j, rfl⟩
    exact ⟨j, List.mem_range.2 ((at_concat_mem_docNodes root p j).1 hn), rfl⟩

theorem denote_descendant_at (root : PTree) (p : List Nat) :
    (descendantPaths root p).map XNode.at = axisDenote root "descendant" (.at p) := by
  rw [axisDenote_forward root _ _ rfl]
  refine eq_filter_docNodes root _ _
    (docSorted_map_at ((docOrder_sorted root).sublist (descendantPaths_sublist root p))) (fun n => ?_)
  show _ ↔ (_ ∧ isAncestorOf (.at p) n = true)
  cases n with
  | doc => simp [isAncestorOf]
  | «at» q =>
    rw [at_mem_map_at, mem_descendantPaths, at_mem_docNodes, mem_docOrder, isAncestorOf_at_at]
    constructor
    · rintro ⟨h1, h2, h3⟩; exact ⟨h3, h1, fun e => h2 e.symm⟩
    · rintro ⟨h3, h1, h2⟩; exact ⟨h1, fun e => h2 e.symm, h3⟩

theorem denote_descendant_or_self_at (root : PTree) (p : List Nat) (hp : p ∈ docOrder root) :
    XNode.at p :: (descendantPaths root p).map XNode.at = axisDenote root "descendant_or_self" (.at p) := by
  rw [axisDenote_forward root _ _ rfl]
  refine eq_filter_docNodes root _ _ ?_ (fun n => ?_)
  · unfold DocSorted
    rw [List.pairwise_cons]
    refine ⟨?_, docSorted_map_at ((docOrder_sorted root).sublist (descendantPaths_sublist root p))⟩
    intro b hb
    obtain ⟨q, hq, rfl⟩ := List.mem_map.1 hb
    rw [mem_descendantPaths] at hq
    exact pathLt_of_prefix hq.1 (fun e => hq.2.1 e.symm)
  · show _ ↔ (_ ∧ (n == XNode.at p || isAncestorOf (.at p) n) = true)
    rw [List.mem_cons, Bool.or_eq_true, beq_iff_eq]
    cases n with
    | doc => simp [isAncestorOf]
    | «at» q =>
      rw [at_mem_map_at, mem_descendantPaths, at_mem_docNodes, mem_docOrder, isAncestorOf_at_at]
      constructor
      · rintro (h | ⟨h1, h2, h3⟩)
        · have e : q = p := XNode.at.inj h
          subst e; exact ⟨(mem_docOrder root q).1 hp, .inl rfl⟩
        · exact ⟨h3, .inr ⟨h1, fun e => h2 e.symm⟩⟩
      · rintro ⟨h3, h | ⟨h1, h2⟩⟩
        · exact .inl h
        · exact .inr ⟨h1, fun e => h2 e.symm, h3⟩

/-! following / preceding -/

theorem mem_following_preceding (root : PTree) (p : List Nat) (hp : p ∈ docOrder root) (q : List Nat) :
    (q ∈ followingPaths root p ↔ (q ∈ docOrder root ∧ pathLt p q = true)) ∧
    (q ∈ precedingPaths root p ↔ (q ∈ docOrder root ∧ pathLt q p = true)) := by
  have hpart := preceding_following_partition root p hp
  have hs := docOrder_sorted root
  rw [← hpart, List.pairwise_append] at hs
  obtain ⟨_, h2, h3⟩ := hs
  rw [List.pairwise_cons] at h2
  have hmem : q ∈ docOrder root ↔ (q ∈ precedingPaths root p ∨ q = p ∨ q ∈ followingPaths root p) := by
    rw [← hpart]; simp
  constructor
  · constructor
    · intro hq; exact ⟨hmem.2 (.inr (.inr hq)), h2.1 q hq⟩
    · rintro ⟨hq, hlt⟩
      rcases hmem.1 hq with h | rfl | h
      · have := h3 q (List.mem_reverse.2 h) p (by simp)
        rw [pathLt_asymm hlt] at this; cases this
      · rw [pathLt_irrefl] at hlt; cases hlt
      · exact h
  · constructor
    · intro hq; exact ⟨hmem.2 (.inl hq), h3 q (List.mem_reverse.2 hq) p (by simp)⟩
    · rintro ⟨hq, hlt⟩
      rcases hmem.1 hq with h | rfl | h
      · exact h
      · rw [pathLt_irrefl] at hlt; cases hlt
      · have := h2.1 q h
        rw [pathLt_asymm hlt] at this; cases this

theorem denote_following_at (root : PTree) (p : List Nat) (hp : p ∈ docOrder root) :
    (followingPaths root p).map XNode.at = axisDenote root "following" (.at p) := by
  rw [axisDenote_forward root _ _ rfl]
  refine eq_filter_docNodes root _ _
    (docSorted_map_at ((docOrder_sorted root).sublist (followingPaths_sublist root p))) (fun n => ?_)
  show _ ↔ (_ ∧ docBefore (.at p) n = true)
  cases n with
  | doc => simp [docBefore]
  | «at» q =>
    rw [at_mem_map_at, (mem_following_preceding root p hp q).1, at_mem_docNodes]
    rfl

theorem denote_preceding_at (root : PTree) (p : List Nat) (hp : p ∈ docOrder root) :
    (precedingPaths root p).map XNode.at = axisDenote root "preceding" (.at p) := by
  rw [axisDenote_reverse root _ _ rfl]
  refine eq_reverse_filter_docNodes root _ _ ?_ (fun n => ?_)
  · rw [← List.map_reverse]
    exact docSorted_map_at ((docOrder_sorted root).sublist (precedingPaths_rev_sublist root p))
  · show _ ↔ (_ ∧ (docBefore n (.at p) && n != .doc) = true)
    cases n with
    | doc => simp
    | «at» q =>
      rw [at_mem_map_at, (mem_following_preceding root p hp q).2, at_mem_docNodes]
      simp [docBefore]

/-! siblings -/

theorem lt_kidsCount_of_mem (root : PTree) (par : List Nat) (i : Nat) (hp : par ++ [i] ∈ docOrder root) :
    i < kidsCount root par := by
  rw [lt_kidsCount_iff, ← mem_docOrder]; exact hp

theorem denote_following_sibling_at (root : PTree) (p : List Nat) :
    (siblingsAfter root p).map XNode.at = axisDenote root "following_sibling" (.at p) := by
  rw [axisDenote_forward root _ _ rfl]
  rcases path_nil_or_concat p with rfl | ⟨par, i, rfl⟩
  · refine eq_filter_docNodes root _ _ (by simp [siblingsAfter, splitLast]) (fun n => ?_)
    show _ ↔ (_ ∧ (parentOf n == parentOf (.at []) && docBefore (.at []) n) = true)
    have : parentOf (.at []) = some .doc := rfl
    rw [this, Bool.and_eq_true, beq_iff_eq, parentOf_eq_some_doc]
    constructor
    · intro h; simp [siblingsAfter, splitLast] at h
    · rintro ⟨_, rfl, h⟩; rw [docBefore_irrefl] at h; cases h
  · rw [siblingsAfter_eq, List.map_map]
    refine eq_filter_docNodes root _ _
      (docSorted_children par (List.pairwise_lt_range.sublist List.filter_sublist)) (fun n => ?_)
    show _ ↔ (_ ∧ (parentOf n == parentOf (.at (par ++ [i])) && docBefore (.at (par ++ [i])) n) = true)
    rw [parentOf_concat, Bool.and_eq_true, beq_iff_eq, parentOf_eq_some_at, List.mem_map]
    constructor
    · rintro ⟨j, hj, rfl⟩
      rw [List.mem_filter, List.mem_range] at hj
      refine ⟨(at_concat_mem_docNodes root par j).2 hj.1, ⟨j, rfl⟩, ?_⟩
      exact (pathLt_concat par i j).2 (by simpa using hj.2)
    · rintro ⟨hn, ⟨j, rfl⟩, hlt⟩
      refine ⟨j, ?_, rfl⟩
      rw [List.mem_filter, List.mem_range]
      exact ⟨(at_concat_mem_docNodes root par j).1 hn, by simpa using (pathLt_concat par i j).1 hlt⟩

theorem denote_preceding_sibling_at (root : PTree) (p : List Nat) (hp : p ∈ docOrder root) :
    (siblingsBefore root p).map XNode.at = axisDenote root "preceding_sibling" (.at p) := by
  rw [axisDenote_reverse root _ _ rfl]
  rcases path_nil_or_concat p with rfl | ⟨par, i, rfl⟩
  · refine eq_reverse_filter_docNodes root _ _ (by simp [siblingsBefore, splitLast]) (fun n => ?_)
    show _ ↔ (_ ∧ (parentOf n == parentOf (.at []) && docBefore n (.at [])) = true)
    have : parentOf (.at []) = some .doc := rfl
    rw [this, Bool.and_eq_true, beq_iff_eq, parentOf_eq_some_doc]
    constructor
    · intro h; simp [siblingsBefore, splitLast] at h
    · rintro ⟨_, rfl, h⟩; rw [docBefore_irrefl] at h; cases h
  · have hi := lt_kidsCount_of_mem root par i hp
    rw [siblingsBefore_eq, List.map_map]
    refine eq_reverse_filter_docNodes root _ _ ?_ (fun n => ?_)
    · rw [← List.map_reverse, List.reverse_reverse]
      exact docSorted_children par List.pairwise_lt_range
    · show _ ↔ (_ ∧ (parentOf n == parentOf (.at (par ++ [i])) && docBefore n (.at (par ++ [i]))) = true)
      rw [parentOf_concat, Bool.and_eq_true, beq_iff_eq, parentOf_eq_some_at, List.mem_map]
      constructor
      · rintro ⟨j, hj, rfl⟩
        rw [List.mem_reverse, List.mem_range] at hj
        refine ⟨(at_concat_mem_docNodes root par j).2 (by omega), ⟨j, rfl⟩, ?_⟩
        exact (pathLt_concat par j i).2 hj
      · rintro ⟨_, ⟨j, rfl⟩, hlt⟩
        refine ⟨j, ?_, rfl⟩
        rw [List.mem_reverse, List.mem_range]
        exact (pathLt_concat par j i).1 hlt

/-! parent, self -/

theorem denote_parent_at (root : PTree) (p : List Nat) (hp : p ∈ docOrder root) :
    (match splitLast p with | some (par, _) => [XNode.at par] | none => [XNode.doc])
      = axisDenote root "parent" (.at p) := by
  rw [axisDenote_forward root _ _ rfl]
  rcases path_nil_or_concat p with rfl | ⟨par, i, rfl⟩
  · refine eq_filter_docNodes root _ _ (by simp [splitLast]) (fun n => ?_)
    show _ ↔ (_ ∧ (parentOf (.at []) == some n) = true)
    have : parentOf (.at []) = some .doc := rfl
    rw [this, beq_iff_eq]
    simp only [splitLast, List.mem_singleton, Option.some.injEq]
    constructor
    · rintro rfl; exact ⟨doc_mem_docNodes root, rfl⟩
    · rintro ⟨_, h⟩; exact h.symm
  · rw [splitLast_append_single]
    refine eq_filter_docNodes root _ _ (by simp) (fun n => ?_)
    show _ ↔ (_ ∧ (parentOf (.at (par ++ [i])) == some n) = true)
    rw [parentOf_concat, beq_iff_eq]
    simp only [List.mem_singleton, Option.some.injEq]
    constructor
    · rintro rfl
      exact ⟨(at_mem_docNodes root par).2 (mem_docOrder_of_prefix hp (List.prefix_append par [i])), rfl⟩
    · rintro ⟨_, h⟩; exact h.symm

theorem denote_self (root : PTree) (c : XNode) (hc : c ∈ docNodes root) :
    [c] = axisDenote root "self" c := by
  rw [axisDenote_forward root _ _ rfl]
  refine eq_filter_docNodes root _ _ (by simp) (fun n => ?_)
  show _ ↔ (_ ∧ (n == c) = true)
  rw [beq_iff_eq, List.mem_singleton]
  constructor
  · rintro rfl; exact ⟨hc, rfl⟩
  · rintro ⟨_, h⟩; exact h

/-! ancestors -/

theorem ancestorPaths_reverse (p : List Nat) :
    (ancestorPaths p).reverse = (List.range p.length).map (fun k => p.take k) := by
  simp [ancestorPaths, downFrom, List.map_reverse]

theorem ancestorPaths_reverse_sorted (p : List Nat) :
    (ancestorPaths p).reverse.Pairwise (fun a b => pathLt a b = true) := by
  rw [ancestorPaths_reverse, List.pairwise_map]
  refine List.Pairwise.imp_of_mem ?_ (List.pairwise_lt_range (n := p.length))
  intro a b ha hb hab
  rw [List.mem_range] at ha hb
  refine pathLt_of_prefix (List.take_prefix_take_left (by omega)) (fun e => ?_)
  have := congrArg List.length e
  simp only [List.length_take] at this
  omega

theorem ancestor_axis_reverse (p : List Nat) :
    ((ancestorPaths p).map XNode.at ++ [XNode.doc]).reverse = XNode.doc :: (ancestorPaths p).reverse.map XNode.at := by
  simp [List.map_reverse]

theorem denote_ancestor_at (root : PTree) (p : List Nat) (hp : p ∈ docOrder root) :
    (ancestorPaths p).map XNode.at ++ [XNode.doc] = axisDenote root "ancestor" (.at p) := by
  rw [axisDenote_reverse root _ _ rfl]
  refine eq_reverse_filter_docNodes root _ _ ?_ (fun n => ?_)
  · rw [ancestor_axis_reverse]
    exact docSorted_doc_cons (ancestorPaths_reverse_sorted p)
  · show _ ↔ (_ ∧ isAncestorOf n (.at p) = true)
    cases n with
    | doc => simp [isAncestorOf, doc_mem_docNodes]
    | «at» q =>
      rw [isAncestorOf_at_at, at_mem_docNodes]
      simp only [List.mem_append, at_mem_map_at, List.mem_singleton, reduceCtorEq, or_false, mem_ancestorPaths]
      constructor
      · rintro ⟨h1, h2⟩; exact ⟨mem_docOrder_of_prefix hp h1, h1, h2⟩
      · rintro ⟨_, h1, h2⟩; exact ⟨h1, h2⟩

theorem denote_ancestor_or_self_at (root : PTree) (p : List Nat) (hp : p ∈ docOrder root) :
    XNode.at p :: (ancestorPaths p).map XNode.at ++ [XNode.doc] = axisDenote root "ancestor_or_self" (.at p) := by
  rw [axisDenote_reverse root _ _ rfl]
  refine eq_reverse_filter_docNodes root _ _ ?_ (fun n => ?_)
  · rw [List.cons_append, List.reverse_cons, ancestor_axis_reverse]
    unfold DocSorted
    rw [List.pairwise_append]
    refine ⟨docSorted_doc_cons (ancestorPaths_reverse_sorted p), by simp, ?_⟩
    intro a ha b hb
    rw [List.mem_singleton] at hb
    subst hb
    rcases List.mem_cons.1 ha with rfl | ha
    · rfl
    · obtain ⟨q, hq, rfl⟩ := List.mem_map.1 ha
      rw [List.mem_reverse, mem_ancestorPaths] at hq
      exact pathLt_of_prefix hq.1 hq.2
  · show _ ↔ (_ ∧ (n == XNode.at p || isAncestorOf n (.at p)) = true)
    rw [Bool.or_eq_true, beq_iff_eq]
    cases n with
    | doc => simp [isAncestorOf, doc_mem_docNodes]
    | «at» q =>
      rw [isAncestorOf_at_at, at_mem_docNodes]
      simp only [List.cons_append, List.mem_cons, List.mem_append, at_mem_map_at, reduceCtorEq,
        mem_ancestorPaths, XNode.at.injEq, List.not_mem_nil, or_false]
      constructor
      · rintro (rfl | ⟨h1, h2⟩)
        · exact ⟨hp, .inl rfl⟩
        · exact ⟨mem_docOrder_of_prefix hp h1, .inr ⟨h1, h2⟩⟩
      · rintro ⟨_, h⟩; exact h

/-! the root node as context -/

theorem denote_child_doc (root : PTree) : [XNode.at []] = axisDenote root "child" .doc := by
  rw [axisDenote_forward root _ _ rfl]
  refine eq_filter_docNodes root _ _ (by simp) (fun n => ?_)
  show _ ↔ (_ ∧ (parentOf n == some .doc) = true)
  rw [beq_iff_eq, parentOf_eq_some_doc, List.mem_singleton]
  constructor
  · rintro rfl; exact ⟨(at_mem_docNodes root []).2 (nil_mem_docOrder root), rfl⟩
  · rintro ⟨_, h⟩; exact h

theorem denote_descendant_doc (root : PTree) :
    (docOrder root).map XNode.at = axisDenote root "descendant" .doc := by
  rw [axisDenote_forward root _ _ rfl]
  refine eq_filter_docNodes root _ _ (docSorted_map_at (docOrder_sorted root)) (fun n => ?_)
  show _ ↔ (_ ∧ isAncestorOf .doc n = true)
  cases n with
  | doc => simp [isAncestorOf]
  | «at» q => simp [isAncestorOf, docNodes]

theorem denote_descendant_or_self_doc (root : PTree) :
    XNode.doc :: (docOrder root).map XNode.at = axisDenote root "descendant_or_self" .doc := by
  rw [axisDenote_forward root _ _ rfl]
  refine eq_filter_docNodes root _ _ (docNodes_sorted root) (fun n => ?_)
  show _ ↔ (_ ∧ (n == XNode.doc || isAncestorOf .doc n) = true)
  cases n with
  | doc => simp [docNodes]
  | «at» q => simp [isAncestorOf, docNodes]

/-- every axis generator yields exactly the axis of the specification, in proximity order -/
theorem axisNodes_eq_denote (root : PTree) (axis : String) (ctx : XNode) (l : List XNode)
    (hctx : ctx ∈ docNodes root) (h : axisNodes root axis ctx = .ok l) : l = axisDenote root axis ctx := by
  unfold axisNodes at h
  split at h
  · split at h
    · cases h; exact denote_child_doc root
    · cases h; exact denote_descendant_doc root
    · cases h; exact denote_descendant_or_self_doc root
    · cases h; exact denote_self root _ hctx
    · split at h <;> cases h
  · rename_i p
    have hp : p ∈ docOrder root := (at_mem_docNodes root p).1 hctx
    split at h
    · cases h; exact denote_ancestor_at root p hp
    · cases h; exact denote_ancestor_or_self_at root p hp
    · cases h; exact denote_child_at root p
    · cases h; exact denote_descendant_at root p
    · cases h; exact denote_descendant_or_self_at root p hp
    · cases h; exact denote_following_at root p hp
    · cases h; exact denote_following_sibling_at root p
    · cases h; exact denote_parent_at root p hp
    · cases h; exact denote_preceding_at root p hp
    · cases h; exact denote_preceding_sibling_at root p hp
    · cases h; exact denote_self root _ hctx
    · cases h

/-! ## node tests -/

theorem nsOk_eq (ns : String) (wanted : Option String) :
    (match wanted with
     | none => ns.isEmpty
     | some w => if w.isEmpty then ns.isEmpty else ns == w) = (ns == wanted.getD "") := by
  have e : ns.isEmpty = (ns == "") := by
    rw [Bool.eq_iff_iff, String.isEmpty_iff, beq_iff_eq]
  cases wanted with
  | none => simpa using e
  | some w =>
    by_cases hw : w.isEmpty = true
    · have : w = "" := String.isEmpty_iff.1 hw
      subst this
      simpa using e
    · simp [hw]

/-- the mechanism's node test, when it does not raise, is the specification's — except where the
    recorded finding `document-node-type-tests` shows (`text()` etc. on the root node) -/
theorem nodeTest_eq_denote (root : PTree) (env : NsEnv) (t : NodeTest) (n : XNode) (b : Bool)
    (hd : ∀ ty, t = .type ty → ty ≠ "TagNode" → n ≠ .doc)
    (h : nodeTest root env t n = .ok b) : b = testDenote root env t n := by
  cases t with
  | anyName pfx =>
    simp only [nodeTest] at h
    simp only [testDenote]
    cases hc : checkPrefix env pfx with
    | error e => simp [hc] at h
    | ok u =>
      simp only [hc] at h
      cases hn : nodeOf root n with
      | none => simp only [hn, Except.ok.injEq] at h ⊢; exact h.symm
      | some t =>
        cases t with
        | tag i ns nm a ks =>
          simp only [hn] at h ⊢
          cases pfx with
          | none => simp only [Except.ok.injEq] at h; exact h.symm
          | some p =>
            simp only at h ⊢
            by_cases hp : p.isEmpty = true
            · simp [hp] at h ⊢; exact h
            · simp [hp] at h ⊢; exact h.symm
        | text i s => simp only [hn, Except.ok.injEq] at h ⊢; exact h.symm
        | comment i s => simp only [hn, Except.ok.injEq] at h ⊢; exact h.symm
        | pi i t s => simp only [hn, Except.ok.injEq] at h ⊢; exact h.symm
  | name pfx local_ =>
    simp only [nodeTest] at h
    simp only [testDenote]
    cases hc : checkPrefix env pfx with
    | error e => simp [hc] at h
    | ok u =>
      simp only [hc] at h
      cases hn : nodeOf root n with
      | none => simp only [hn, Except.ok.injEq] at h ⊢; exact h.symm
      | some t =>
        cases t with
        | tag i ns nm a ks =>
          simp only [hn, Except.ok.injEq] at h ⊢
          subst h
          cases pfx with
          | none => simp only []; exact congrArg (· && nm == showS local_) (nsOk_eq ns _)
          | some p => simp only []; exact congrArg (· && nm == showS local_) (nsOk_eq ns _)
        | text i s => simp only [hn, Except.ok.injEq] at h ⊢; exact h.symm
        | comment i s => simp only [hn, Except.ok.injEq] at h ⊢; exact h.symm
        | pi i t s => simp only [hn, Except.ok.injEq] at h ⊢; exact h.symm
  | type ty =>
    cases n with
    | doc =>
      simp only [nodeTest, Except.ok.injEq] at h
      subst h
      simp only [testDenote]
      by_cases hty : ty = "TagNode"
      · subst hty; rfl
      · exact absurd rfl (hd ty rfl hty)
    | «at» p =>
      simp only [nodeTest] at h
      simp only [testDenote]
      split at h <;> simp only [Except.ok.injEq] at h <;> subst h <;> simp_all
  | pi target =>
    cases n with
    | doc => simp [nodeTest] at h
    | «at» p =>
      simp only [nodeTest] at h
      simp only [testDenote]
      split at h
      · rename_i heq
        simp only [Except.ok.injEq] at h
        subst h
        simp [heq]
      · rename_i hno
        simp only [Except.ok.injEq] at h
        subst h
        split
        · rename_i heq; exact absurd heq (hno _ _ _)
        · rfl

/-! ## filtering by the node test, by the predicates -/

theorem mem_axisDenote (root : PTree) (axis : String) (ctx n : XNode) :
    n ∈ axisDenote root axis ctx ↔ (n ∈ docNodes root ∧ axisRel axis ctx n = true) := by
  unfold axisDenote axisOrder
  split <;> simp [List.mem_filter]

theorem filterTest_eq_filter (root : PTree) (env : NsEnv) (t : NodeTest) (l r : List XNode)
    (hd : ∀ n ∈ l, ∀ ty, t = .type ty → ty ≠ "TagNode" → n ≠ .doc)
    (h : filterTest root env t l = .ok r) : r = l.filter (testDenote root env t) := by
  induction l generalizing r with
  | nil => simp only [filterTest, Except.ok.injEq] at h; subst h; rfl
  | cons n rest ih =>
    cases hb : nodeTest root env t n with
    | error e => simp [filterTest, hb] at h
    | ok b =>
      cases hr : filterTest root env t rest with
      | error e => simp [filterTest, hb, hr] at h
      | ok r' =>
        have hb' := nodeTest_eq_denote root env t n b (hd n (by simp)) hb
        have hr' := ih r' (fun m hm => hd m (List.mem_cons_of_mem _ hm)) hr
        simp only [filterTest, hb, hr, Except.ok.injEq] at h
        subst h
        rw [List.filter_cons, ← hb', ← hr']

theorem filterPred_eq (root : PTree) (env : NsEnv) (pred : Expr) (size pos : Nat) (l r : List XNode)
    (h : filterPred root env pred size pos l = .ok r) :
    r = ((l.zipIdx pos).filter (fun ni => predHolds root env pred ni.1 ni.2 size)).map (·.1) := by
  induction l generalizing pos r with
  | nil => simp only [filterPred, Except.ok.injEq] at h; subst h; rfl
  | cons n rest ih =>
    simp only [filterPred] at h
    cases hv : evalExpr root env { node := n, position := pos, size := size } pred with
    | error e => simp [hv] at h
    | ok v =>
      cases hr : filterPred root env pred size (pos + 1) rest with
      | error e => simp [hv, hr] at h
      | ok r' =>
        have hr' := ih (pos + 1) r' hr
        simp only [hv, hr, Except.ok.injEq] at h
        subst h
        have hp : predHolds root env pred n pos size = truthy v := by simp [predHolds, hv]
        rw [List.zipIdx_cons, List.filter_cons]
        simp only [hp]
        split
        · rw [List.map_cons, ← hr']
        · exact hr'

theorem applyPreds_eq (root : PTree) (env : NsEnv) (ps : List Expr) (l r : List XNode)
    (h : applyPreds root env ps l = .ok r) :
    r = ps.foldl (fun cur pred => predFilter root env pred cur) l := by
  induction ps generalizing l with
  | nil => simp only [applyPreds, Except.ok.injEq] at h; subst h; rfl
  | cons p ps ih =>
    simp only [applyPreds] at h
    split at h
    · cases h
    · rename_i next hn
      rw [List.foldl_cons, ih next h]
      have := filterPred_eq root env p l.length 1 l next hn
      rw [this]; rfl

/-! ## a step at one context node -/

theorem docTypeOk_axis (root : PTree) (s : Step) (ctx : XNode) (hd : DocTypeOk s ctx) :
    ∀ n ∈ axisDenote root s.axis ctx, ∀ ty, s.test = .type ty → ty ≠ "TagNode" → n ≠ .doc := by
  intro n hn ty hty hne e
  subst e
  have := hd ty hty hne
  rw [((mem_axisDenote root s.axis ctx .doc).1 hn).2] at this
  cases this

/-- `LocationStep._evaluate(node)` returns the specification's node list: same nodes, same order -/
theorem evalStepAt_eq_denote (root : PTree) (env : NsEnv) (s : Step) (ctx : XNode) (r : List XNode)
    (hctx : ctx ∈ docNodes root) (hd : DocTypeOk s ctx) (h : evalStepAt root env s ctx = .ok r) :
    r = stepDenote root env s ctx := by
  cases ha : axisNodes root s.axis ctx with
  | error e => simp [evalStepAt, ha] at h
  | ok axis =>
    obtain ⟨cands, hc, hp⟩ := evalStepAt_spec root env s ctx axis r ha h
    have hax := axisNodes_eq_denote root s.axis ctx axis hctx ha
    subst hax
    have hc' := filterTest_eq_filter root env s.test _ cands (docTypeOk_axis root s ctx hd) hc
    subst hc'
    exact applyPreds_eq root env s.preds _ r hp

theorem stepDenote_sublist (root : PTree) (env : NsEnv) (s : Step) (ctx : XNode) :
    (stepDenote root env s ctx).Sublist (axisDenote root s.axis ctx) := by
  unfold stepDenote
  have : ∀ (ps : List Expr) (l : List XNode),
      (ps.foldl (fun cur pred => predFilter root env pred cur) l).Sublist l := by
    intro ps
    induction ps with
    | nil => intro l; exact List.Sublist.refl _
    | cons p ps ih =>
      intro l
      rw [List.foldl_cons]
      refine (ih _).trans ?_
      unfold predFilter
      have h1 : (List.map (fun x => x.1) (List.filter (fun ni => predHolds root env p ni.1 ni.2 l.length) (l.zipIdx 1))).Sublist
          (List.map (fun x => x.1) (l.zipIdx 1)) := List.Sublist.map _ List.filter_sublist
      have h2 : List.map (fun x => x.1) (l.zipIdx 1) = l := by
        simp
      rw [h2] at h1; exact h1
  exact (this _ _).trans List.filter_sublist

theorem stepDenote_subset_docNodes (root : PTree) (env : NsEnv) (s : Step) (ctx n : XNode)
    (h : n ∈ stepDenote root env s ctx) : n ∈ docNodes root :=
  ((mem_axisDenote root s.axis ctx n).1 ((stepDenote_sublist root env s ctx).subset h)).1

theorem axisDenote_nodup (root : PTree) (axis : String) (ctx : XNode) : (axisDenote root axis ctx).Nodup := by
  unfold axisDenote axisOrder
  split
  · exact nodup_reverse_iff.2 (List.filter_sublist.nodup (docNodes_nodup root))
  · exact List.filter_sublist.nodup (docNodes_nodup root)

theorem stepDenote_nodup (root : PTree) (env : NsEnv) (s : Step) (ctx : XNode) :
    (stepDenote root env s ctx).Nodup :=
  (stepDenote_sublist root env s ctx).nodup (axisDenote_nodup root s.axis ctx)

/-! ## paths -/

theorem selects_nil_iff (root : PTree) (env : NsEnv) (c n : XNode) : Selects root env [] c n ↔ n = c := by
  constructor
  · intro h; cases h; rfl
  · rintro rfl; exact .nil _

theorem selects_cons_iff (root : PTree) (env : NsEnv) (s : Step) (ss : List Step) (c n : XNode) :
    Selects root env (s :: ss) c n ↔ ∃ m ∈ stepDenote root env s c, Selects root env ss m n := by
  constructor
  · intro h; cases h with | cons h1 h2 => exact ⟨_, h1, h2⟩
  · rintro ⟨m, h1, h2⟩; exact .cons h1 h2

/-- the list-valued composition and the chain relation say the same -/
theorem mem_stepsDenote (root : PTree) (env : NsEnv) (ss : List Step) (ns : List XNode) (n : XNode) :
    n ∈ stepsDenote root env ss ns ↔ ∃ c ∈ ns, Selects root env ss c n := by
  induction ss generalizing ns with
  | nil => simp [stepsDenote, selects_nil_iff]
  | cons s ss ih =>
    rw [stepsDenote, ih]
    simp only [List.mem_flatMap, selects_cons_iff]
    constructor
    · rintro ⟨m, ⟨c, hc, hm⟩, hs⟩; exact ⟨c, hc, m, hm, hs⟩
    · rintro ⟨c, hc, m, hm, hs⟩; exact ⟨m, ⟨c, hc, hm⟩, hs⟩

theorem mem_pathDenote (root : PTree) (env : NsEnv) (ctx : List Nat) (p : Path) (n : XNode) :
    n ∈ pathDenote root env ctx p ↔ Selects root env p.steps (pathStart ctx p) n := by
  simp [pathDenote, mem_stepsDenote]

theorem mem_exprDenote (root : PTree) (env : NsEnv) (ctx : List Nat) (x : XExpr) (n : XNode) :
    n ∈ exprDenote root env ctx x ↔ ∃ p ∈ x, Selects root env p.steps (pathStart ctx p) n := by
  simp [exprDenote, mem_pathDenote]

theorem selects_subset_docNodes (root : PTree) (env : NsEnv) (ss : List Step) (c n : XNode)
    (hc : c ∈ docNodes root) (h : Selects root env ss c n) : n ∈ docNodes root := by
  induction h with
  | nil c => exact hc
  | cons h1 _ ih => exact ih (stepDenote_subset_docNodes root env _ _ _ h1)

theorem evalStep_ok_each (root : PTree) (env : NsEnv) (s : Step) (acc ns r : List XNode)
    (h : evalStep root env s acc ns = .ok r) : ∀ n ∈ ns, ∃ l, evalStepAt root env s n = .ok l := by
  induction ns generalizing acc with
  | nil => intro n hn; cases hn
  | cons n rest ih =>
    simp only [evalStep] at h
    split at h
    · cases h
    · rename_i l hl
      intro m hm
      rcases List.mem_cons.1 hm with rfl | hm
      · exact ⟨l, hl⟩
      · exact ih _ h m hm

/-- one step over a node set: the union of the specification's step over its members -/
theorem evalStep_eq_denote (root : PTree) (env : NsEnv) (s : Step) (ns r : List XNode)
    (hv : ∀ c ∈ ns, c ∈ docNodes root) (hd : ∀ c ∈ ns, DocTypeOk s c)
    (h : evalStep root env s [] ns = .ok r) :
    (∀ m, m ∈ r ↔ ∃ c ∈ ns, m ∈ stepDenote root env s c) ∧ r.Nodup := by
  obtain ⟨hn, hm⟩ := evalStep_spec root env s [] ns r h
  have hok := evalStep_ok_each root env s [] ns r h
  refine ⟨fun m => ?_, hn List.nodup_nil⟩
  rw [hm m]
  simp only [List.not_mem_nil, false_or]
  constructor
  · rintro ⟨c, hc, l, hl, hml⟩
    exact ⟨c, hc, by rw [← evalStepAt_eq_denote root env s c l (hv c hc) (hd c hc) hl]; exact hml⟩
  · rintro ⟨c, hc, hmc⟩
    obtain ⟨l, hl⟩ := hok c hc
    exact ⟨c, hc, l, hl, by rw [evalStepAt_eq_denote root env s c l (hv c hc) (hd c hc) hl]; exact hmc⟩

/-- the steps of a path over a node set -/
theorem evalSteps_eq_denote (root : PTree) (env : NsEnv) (ss : List Step) (ns r : List XNode)
    (hv : ∀ c ∈ ns, c ∈ docNodes root)
    (hd : ∀ c ∈ ns, ∀ s c', Visits root env ss c s c' → DocTypeOk s c')
    (h : evalSteps root env ss ns = .ok r) :
    (∀ n, n ∈ r ↔ ∃ c ∈ ns, Selects root env ss c n) ∧ (ns.Nodup → r.Nodup) := by
  induction ss generalizing ns with
  | nil =>
    simp only [evalSteps, Except.ok.injEq] at h
    subst h
    exact ⟨fun n => by simp [selects_nil_iff], id⟩
  | cons s ss ih =>
    simp only [evalSteps] at h
    split at h
    · cases h
    · rename_i r1 h1
      obtain ⟨hm1, hn1⟩ := evalStep_eq_denote root env s ns r1 hv (fun c hc => hd c hc s c .here) h1
      have hv1 : ∀ m ∈ r1, m ∈ docNodes root := by
        intro m hm
        obtain ⟨c, _, hmc⟩ := (hm1 m).1 hm
        exact stepDenote_subset_docNodes root env s c m hmc
      have hd1 : ∀ m ∈ r1, ∀ s' c', Visits root env ss m s' c' → DocTypeOk s' c' := by
        intro m hm s' c' hvis
        obtain ⟨c, hc, hmc⟩ := (hm1 m).1 hm
        exact hd c hc s' c' (.there hmc hvis)
      obtain ⟨hm2, hn2⟩ := ih r1 hv1 hd1 h
      refine ⟨fun n => ?_, fun _ => hn2 hn1⟩
      rw [hm2 n]
      simp only [selects_cons_iff]
      constructor
      · rintro ⟨m, hm, hs⟩
        obtain ⟨c, hc, hmc⟩ := (hm1 m).1 hm
        exact ⟨c, hc, m, hmc, hs⟩
      · rintro ⟨c, hc, m, hmc, hs⟩
        exact ⟨m, (hm1 m).2 ⟨c, hc, hmc⟩, hs⟩

theorem pathStart_mem_docNodes (root : PTree) (ctx : List Nat) (p : Path) (hctx : ctx ∈ docOrder root) :
    pathStart ctx p ∈ docNodes root := by
  unfold pathStart
  split
  · exact doc_mem_docNodes root
  · exact (at_mem_docNodes root ctx).2 hctx

theorem evalPath_eq_denote (root : PTree) (env : NsEnv) (ctx : List Nat) (p : Path) (r : List XNode)
    (hctx : ctx ∈ docOrder root)
    (hd : ∀ s c, Visits root env p.steps (pathStart ctx p) s c → DocTypeOk s c)
    (h : evalPath root env ctx p = .ok r) :
    (∀ n, n ∈ r ↔ n ∈ pathDenote root env ctx p) ∧ r.Nodup := by
  have h' : evalSteps root env p.steps [pathStart ctx p] = .ok r := h
  obtain ⟨hm, hn⟩ := evalSteps_eq_denote root env p.steps [pathStart ctx p] r
    (fun c hc => by rw [List.mem_singleton] at hc; subst hc; exact pathStart_mem_docNodes root ctx p hctx)
    (fun c hc => by rw [List.mem_singleton] at hc; subst hc; exact hd) h'
  refine ⟨fun n => ?_, hn (by simp)⟩
  rw [hm n, mem_pathDenote]
  simp

/-! ## expressions -/

theorem evalPaths_ok_each (root : PTree) (env : NsEnv) (ctx : List Nat) (acc : List XNode) (ps : List Path)
    (r : List XNode) (h : evalPaths root env ctx acc ps = .ok r) :
    ∀ p ∈ ps, ∃ l, evalPath root env ctx p = .ok l ∧ XNode.doc ∉ l := by
  induction ps generalizing acc with
  | nil => intro p hp; cases hp
  | cons p rest ih =>
    simp only [evalPaths] at h
    split at h
    · cases h
    · rename_i l hl
      split at h
      · cases h
      · rename_i hdoc
        intro q hq
        rcases List.mem_cons.1 hq with rfl | hq
        · exact ⟨l, hl, by simpa using hdoc⟩
        · exact ih _ h q hq

theorem evaluate_eq_denote (root : PTree) (env : NsEnv) (ctx : List Nat) (x : XExpr) (r : List XNode)
    (hctx : ctx ∈ docOrder root)
    (hd : ∀ p ∈ x, ∀ s c, Visits root env p.steps (pathStart ctx p) s c → DocTypeOk s c)
    (h : evaluate root env ctx x = .ok r) :
    (∀ n, n ∈ r ↔ n ∈ exprDenote root env ctx x) ∧ r.Nodup ∧ XNode.doc ∉ r := by
  obtain ⟨hn, hdoc, hm⟩ := evalPaths_spec root env ctx [] x r h
  have hok := evalPaths_ok_each root env ctx [] x r h
  refine ⟨fun n => ?_, hn List.nodup_nil, hdoc (by simp)⟩
  rw [hm n]
  simp only [List.not_mem_nil, false_or, exprDenote, List.mem_flatMap]
  constructor
  · rintro ⟨p, hp, l, hl, hnl⟩
    exact ⟨p, hp, ((evalPath_eq_denote root env ctx p l hctx (hd p hp) hl).1 n).1 hnl⟩
  · rintro ⟨p, hp, hnp⟩
    obtain ⟨l, hl, _⟩ := hok p hp
    exact ⟨p, hp, l, hl, ((evalPath_eq_denote root env ctx p l hctx (hd p hp) hl).1 n).2 hnp⟩

/-! ## `in_document_order()` -/

theorem mem_addrsOf (l : List XNode) (p : List Nat) : p ∈ addrsOf l ↔ XNode.at p ∈ l := by
  unfold addrsOf
  rw [List.mem_filterMap]
  constructor
  · rintro ⟨n, hn, h⟩
    cases n with
    | doc => simp at h
    | «at» q => simp only [Option.some.injEq] at h; subst h; exact hn
  · intro h; exact ⟨_, h, rfl⟩

theorem mem_exprDenote_docNodes (root : PTree) (env : NsEnv) (ctx : List Nat) (x : XExpr) (n : XNode)
    (hctx : ctx ∈ docOrder root) (h : n ∈ exprDenote root env ctx x) : n ∈ docNodes root := by
  obtain ⟨p, _, hs⟩ := (mem_exprDenote root env ctx x n).1 h
  exact selects_subset_docNodes root env p.steps _ n (pathStart_mem_docNodes root ctx p hctx) hs

theorem sortPaths_eq_denoteSorted (root : PTree) (env : NsEnv) (ctx : List Nat) (x : XExpr) (r : List XNode)
    (hctx : ctx ∈ docOrder root) (hm : ∀ n, n ∈ r ↔ n ∈ exprDenote root env ctx x) :
    sortPaths (addrsOf r) = exprDenoteSorted root env ctx x := by
  obtain ⟨h1, h2⟩ := sortPaths_spec (addrsOf r)
  refine sorted_ext pathLt_irrefl pathLt_asymm h2 ((docOrder_sorted root).sublist List.filter_sublist) (fun p => ?_)
  rw [h1, mem_addrsOf, hm]
  unfold exprDenoteSorted
  rw [List.mem_filter, List.contains_iff_mem]
  constructor
  · intro h
    exact ⟨(at_mem_docNodes root p).1 (mem_exprDenote_docNodes root env ctx x _ hctx h), h⟩
  · exact fun h => h.2

/-! ## when nothing raises -/

theorem axisNodes_ok (root : PTree) (axis : String) (c : XNode) (hax : axis ∈ realAxes)
    (hdoc : c = .doc → axis ∈ docAxes) : ∃ l, axisNodes root axis c = .ok l := by
  cases c with
  | doc =>
    have := hdoc rfl
    simp only [docAxes, List.mem_cons, List.not_mem_nil, or_false] at this
    rcases this with rfl | rfl | rfl | rfl <;> exact ⟨_, rfl⟩
  | «at» p =>
    simp only [realAxes, List.mem_cons, List.not_mem_nil, or_false] at hax
    rcases hax with rfl | rfl | rfl | rfl | rfl | rfl | rfl | rfl | rfl | rfl | rfl <;> exact ⟨_, rfl⟩

theorem nodeTest_ok (root : PTree) (env : NsEnv) (t : NodeTest) (n : XNode)
    (hp : checkPrefix env (testPrefix t) = .ok ()) (hpi : ∀ tg, t = .pi tg → n ≠ .doc) :
    ∃ b, nodeTest root env t n = .ok b := by
  cases t with
  | anyName pfx =>
    simp only [testPrefix] at hp
    simp only [nodeTest, hp]
    split
    · split <;> first | exact ⟨_, rfl⟩ | (split <;> exact ⟨_, rfl⟩)
    · exact ⟨_, rfl⟩
  | name pfx local_ =>
    simp only [testPrefix] at hp
    simp only [nodeTest, hp]
    split <;> exact ⟨_, rfl⟩
  | type ty =>
    simp only [nodeTest]
    split
    · exact ⟨_, rfl⟩
    · split <;> exact ⟨_, rfl⟩
  | pi target =>
    cases n with
    | doc => exact absurd rfl (hpi target rfl)
    | «at» p =>
      simp only [nodeTest]
      split <;> exact ⟨_, rfl⟩

theorem filterTest_ok (root : PTree) (env : NsEnv) (t : NodeTest) (l : List XNode)
    (h : ∀ n ∈ l, ∃ b, nodeTest root env t n = .ok b) : ∃ r, filterTest root env t l = .ok r := by
  induction l with
  | nil => exact ⟨_, rfl⟩
  | cons n rest ih =>
    obtain ⟨b, hb⟩ := h n (by simp)
    obtain ⟨r, hr⟩ := ih (fun m hm => h m (List.mem_cons_of_mem _ hm))
    exact ⟨if b then n :: r else r, by simp only [filterTest, hb, hr]⟩

theorem filterPred_ok (root : PTree) (env : NsEnv) (pred : Expr) (size pos : Nat) (l : List XNode)
    (h : ∀ n ∈ l, ∀ pos, ∃ v, evalExpr root env { node := n, position := pos, size := size } pred = .ok v) :
    ∃ r, filterPred root env pred size pos l = .ok r := by
  induction l generalizing pos with
  | nil => exact ⟨_, rfl⟩
  | cons n rest ih =>
    obtain ⟨v, hv⟩ := h n (by simp) pos
    obtain ⟨r, hr⟩ := ih (pos + 1) (fun m hm => h m (List.mem_cons_of_mem _ hm))
    exact ⟨if truthy v then n :: r else r, by simp only [filterPred, hv, hr]⟩

theorem applyPreds_ok (root : PTree) (env : NsEnv) (ps : List Expr) (l : List XNode)
    (h : ∀ pred ∈ ps, ∀ n ∈ l, ∀ pos size, ∃ v, evalExpr root env { node := n, position := pos, size := size } pred = .ok v) :
    ∃ r, applyPreds root env ps l = .ok r := by
  induction ps generalizing l with
  | nil => exact ⟨_, rfl⟩
  | cons p ps ih =>
    obtain ⟨next, hn⟩ := filterPred_ok root env p l.length 1 l (fun n hn pos => h p (by simp) n hn pos l.length)
    have hs := filterPred_sublist root env p _ _ l next hn
    obtain ⟨r, hr⟩ := ih next (fun q hq n hn pos size => h q (List.mem_cons_of_mem _ hq) n (hs.subset hn) pos size)
    exact ⟨r, by simp only [applyPreds, hn, hr]⟩

/-- a step at one context node does not raise outside the marked situations -/
theorem evalStepAt_ok (root : PTree) (env : NsEnv) (s : Step) (c : XNode) (hc : c ∈ docNodes root)
    (hs : StepSafe root env s c) (hd : DocTypeOk s c) : ∃ r, evalStepAt root env s c = .ok r := by
  obtain ⟨hax, hdoc, hpfx, hpi, hpreds⟩ := hs
  obtain ⟨axis, ha⟩ := axisNodes_ok root s.axis c hax hdoc
  have hax' := axisNodes_eq_denote root s.axis c axis hc ha
  subst hax'
  obtain ⟨cands, hcands⟩ := filterTest_ok root env s.test (axisDenote root s.axis c) (fun n hn =>
    nodeTest_ok root env s.test n hpfx (fun tg htg e => by
      subst e
      have := hpi tg htg
      rw [((mem_axisDenote root s.axis c .doc).1 hn).2] at this
      cases this))
  have hc' := filterTest_eq_filter root env s.test _ cands (docTypeOk_axis root s c hd) hcands
  obtain ⟨r, hr⟩ := applyPreds_ok root env s.preds cands (fun pred hp n hn pos size => by
    rw [hc', List.mem_filter] at hn
    exact hpreds pred hp n pos size hn.1 hn.2)
  exact ⟨r, by simp only [evalStepAt, ha, hcands, hr]⟩

theorem evalStep_ok (root : PTree) (env : NsEnv) (s : Step) (acc ns : List XNode)
    (h : ∀ c ∈ ns, ∃ l, evalStepAt root env s c = .ok l) : ∃ r, evalStep root env s acc ns = .ok r := by
  induction ns generalizing acc with
  | nil => exact ⟨_, rfl⟩
  | cons n rest ih =>
    obtain ⟨l, hl⟩ := h n (by simp)
    obtain ⟨r, hr⟩ := ih (addNew acc l) (fun m hm => h m (List.mem_cons_of_mem _ hm))
    exact ⟨r, by simp only [evalStep, hl, hr]⟩

theorem evalSteps_ok (root : PTree) (env : NsEnv) (ss : List Step) (ns : List XNode)
    (hv : ∀ c ∈ ns, c ∈ docNodes root)
    (hs : ∀ c ∈ ns, ∀ s c', Visits root env ss c s c' → (StepSafe root env s c' ∧ DocTypeOk s c')) :
    ∃ r, evalSteps root env ss ns = .ok r := by
  induction ss generalizing ns with
  | nil => exact ⟨_, rfl⟩
  | cons s ss ih =>
    obtain ⟨r1, h1⟩ := evalStep_ok root env s [] ns (fun c hc =>
      evalStepAt_ok root env s c (hv c hc) (hs c hc s c .here).1 (hs c hc s c .here).2)
    obtain ⟨hm1, _⟩ := evalStep_eq_denote root env s ns r1 hv (fun c hc => (hs c hc s c .here).2) h1
    obtain ⟨r, hr⟩ := ih r1
      (fun m hm => by
        obtain ⟨c, _, hmc⟩ := (hm1 m).1 hm
        exact stepDenote_subset_docNodes root env s c m hmc)
      (fun m hm s' c' hvis => by
        obtain ⟨c, hc, hmc⟩ := (hm1 m).1 hm
        exact hs c hc s' c' (.there hmc hvis))
    exact ⟨r, by simp only [evalSteps, h1, hr]⟩

theorem evalPaths_ok (root : PTree) (env : NsEnv) (ctx : List Nat) (acc : List XNode) (ps : List Path)
    (h : ∀ p ∈ ps, ∃ l, evalPath root env ctx p = .ok l ∧ XNode.doc ∉ l) :
    ∃ r, evalPaths root env ctx acc ps = .ok r := by
  induction ps generalizing acc with
  | nil => exact ⟨_, rfl⟩
  | cons p rest ih =>
    obtain ⟨l, hl, hdoc⟩ := h p (by simp)
    obtain ⟨r, hr⟩ := ih (addNew acc l) (fun q hq => h q (List.mem_cons_of_mem _ hq))
    have hc : l.contains XNode.doc = false := by simpa using hdoc
    exact ⟨r, by simp only [evalPaths, hl, hc, hr]; simp⟩

theorem evalPaths_doc_error (root : PTree) (env : NsEnv) (ctx : List Nat) (acc : List XNode) (ps : List Path)
    (p : Path) (l : List XNode) (hp : p ∈ ps) (hl : evalPath root env ctx p = .ok l) (hdoc : XNode.doc ∈ l) :
    ∃ e, evalPaths root env ctx acc ps = .error e := by
  induction ps generalizing acc with
  | nil => cases hp
  | cons q rest ih =>
    simp only [evalPaths]
    cases hq : evalPath root env ctx q with
    | error e => exact ⟨e, rfl⟩
    | ok lq =>
      simp only []
      by_cases hd : lq.contains XNode.doc = true
      · simp only [hd, if_true]; exact ⟨_, rfl⟩
      · simp only [hd]
        rcases List.mem_cons.1 hp with rfl | hp'
        · rw [hl] at hq; cases hq
          exact absurd (by simpa using hdoc) hd
        · exact ih _ hp'

/-! ## sanity of the specification's auxiliary relations -/

/-- the ancestors are the parent and the parent's ancestors (§2.2) -/
theorem isAncestorOf_unfold (a n : XNode) :
    isAncestorOf a n = true ↔ (parentOf n = some a ∨ ∃ m, parentOf n = some m ∧ isAncestorOf a m = true) := by
  cases n with
  | doc => simp [isAncestorOf, parentOf]
  | «at» q =>
    rcases path_nil_or_concat q with rfl | ⟨par, i, rfl⟩
    · cases a with
      | doc => simp [isAncestorOf, parentOf]
      | «at» p => simp [isAncestorOf, parentOf]
    · rw [parentOf_concat]
      cases a with
      | doc => simp [isAncestorOf]
      | «at» p =>
        simp only [Option.some.injEq, XNode.at.injEq, exists_eq_left', isAncestorOf_at_at, List.prefix_concat_iff]
        constructor
        · rintro ⟨h | h, hne⟩
          · exact absurd h hne
          · by_cases e : par = p
            · exact .inl e
            · exact .inr ⟨h, fun e' => e e'.symm⟩
        · rintro (rfl | ⟨h, hne⟩)
          · exact ⟨.inr (List.prefix_refl _), fun e => by simpa using congrArg List.length e⟩
          · refine ⟨.inr h, fun e => ?_⟩
            have := h.length_le
            rw [e] at this
            simp at this
            omega

theorem docBefore_doc_right (c : XNode) : docBefore c .doc = false := by
  cases c <;> rfl

theorem docTypeOk_of_free (s : Step) (c : XNode) (h : stepDocTypeFree s = true) : DocTypeOk s c := by
  intro ty hty hne
  unfold stepDocTypeFree at h
  rw [hty] at h
  simp only [Bool.or_eq_true, beq_iff_eq, hne, false_or, Bool.not_eq_true', List.contains_eq_mem, List.mem_cons,
    List.not_mem_nil, or_false, decide_eq_false_iff_not, not_or] at h
  obtain ⟨h1, h2, h3, h4, h5⟩ := h
  unfold axisRel
  split
  · rename_i hx; exact absurd hx h1
  · simp [parentOf]
  · rename_i hx; exact absurd hx h5
  · cases c <;> rfl
  · rename_i hx; exact absurd hx h2
  · rename_i hx; exact absurd hx h3
  · rename_i hx; exact absurd hx h4
  · simp [docBefore_doc_right]
  · cases c with
    | doc => rfl
    | «at» p => simp only [parentOf]; split <;> simp
  · exact docBefore_doc_right c
  · simp
  · rfl

theorem visits_mem (root : PTree) (env : NsEnv) (ss : List Step) (c : XNode) (s : Step) (c' : XNode)
    (h : Visits root env ss c s c') : s ∈ ss := by
  induction h with
  | here => simp
  | there _ _ ih => exact List.mem_cons_of_mem _ ih

/-! ## paths that stay inside the tree -/

theorem axisRel_doc_of_ne (axis : String) (c : XNode) (hc : c ≠ .doc) (h : axisRel axis c .doc = true) :
    axis = "ancestor" ∨ axis = "ancestor_or_self" ∨ axis = "parent" := by
  unfold axisRel at h
  split at h
  · rw [beq_iff_eq] at h; exact absurd h.symm hc
  · simp [parentOf] at h
  · exact .inr (.inr rfl)
  · rw [show isAncestorOf c .doc = false from by cases c <;> rfl] at h; cases h
  · rw [show isAncestorOf c .doc = false from by cases c <;> rfl, Bool.or_false, beq_iff_eq] at h
    exact absurd h.symm hc
  · exact .inl rfl
  · exact .inr (.inl rfl)
  · rw [docBefore_doc_right, Bool.and_false] at h; cases h
  · cases c with
    | doc => exact absurd rfl hc
    | «at» p => simp only [parentOf] at h; split at h <;> simp at h
  · rw [docBefore_doc_right] at h; cases h
  · simp at h
  · cases h

theorem testDenote_doc (root : PTree) (env : NsEnv) (t : NodeTest) (h : testDenote root env t .doc = true) :
    ∃ ty, t = .type ty := by
  cases t with
  | anyName pfx => simp [testDenote, nodeOf] at h
  | name pfx l => simp [testDenote, nodeOf] at h
  | type ty => exact ⟨ty, rfl⟩
  | pi tg => simp [testDenote, nodeOf] at h

theorem stepAvoidsDoc_axisRel (s : Step) (c : XNode) (hc : c ≠ .doc) (hs : stepAvoidsDoc s = true)
    (ht : ∀ pfx, s.test ≠ .anyName pfx) (ht' : ∀ pfx l, s.test ≠ .name pfx l) :
    axisRel s.axis c .doc = false := by
  cases hax : axisRel s.axis c .doc with
  | false => rfl
  | true =>
    have h3 := axisRel_doc_of_ne s.axis c hc hax
    unfold stepAvoidsDoc at hs
    split at hs
    · rename_i pfx heq; exact absurd heq (ht pfx)
    · rename_i pfx l heq; exact absurd heq (ht' pfx l)
    · rcases h3 with h | h | h <;> simp [h] at hs

theorem predFold_sublist (root : PTree) (env : NsEnv) (ps : List Expr) (l : List XNode) :
    (ps.foldl (fun cur pred => predFilter root env pred cur) l).Sublist l := by
  induction ps generalizing l with
  | nil => exact List.Sublist.refl _
  | cons p ps ih =>
    rw [List.foldl_cons]
    refine (ih _).trans ?_
    unfold predFilter
    have h1 : (List.map (fun x => x.1) (List.filter (fun ni => predHolds root env p ni.1 ni.2 l.length) (l.zipIdx 1))).Sublist
        (List.map (fun x => x.1) (l.zipIdx 1)) := List.Sublist.map _ List.filter_sublist
    have h2 : List.map (fun x => x.1) (l.zipIdx 1) = l := by simp
    rw [h2] at h1; exact h1

theorem doc_not_mem_stepDenote (root : PTree) (env : NsEnv) (s : Step) (c : XNode) (hc : c ≠ .doc)
    (hs : stepAvoidsDoc s = true) : XNode.doc ∉ stepDenote root env s c := by
  intro h
  have htest : XNode.doc ∈ (axisDenote root s.axis c).filter (testDenote root env s.test) :=
    (predFold_sublist root env s.preds _).subset h
  rw [List.mem_filter] at htest
  obtain ⟨ty, hty⟩ := testDenote_doc root env s.test htest.2
  have := stepAvoidsDoc_axisRel s c hc hs (fun pfx e => by rw [hty] at e; cases e) (fun pfx l e => by rw [hty] at e; cases e)
  rw [((mem_axisDenote root s.axis c .doc).1 htest.1).2] at this
  cases this

theorem visits_ne_doc (root : PTree) (env : NsEnv) (ss : List Step) (c0 : XNode) (s : Step) (c : XNode)
    (hc0 : c0 ≠ .doc) (hss : ∀ s ∈ ss, stepAvoidsDoc s = true) (h : Visits root env ss c0 s c) : c ≠ .doc := by
  induction h with
  | here => exact hc0
  | @there s1 s2 ss1 c1 m c2 hm _ ih =>
    refine ih ?_ (fun s hs => hss s (List.mem_cons_of_mem _ hs))
    intro e; subst e
    exact doc_not_mem_stepDenote root env s1 c1 hc0 (hss s1 (by simp)) hm

theorem selects_ne_doc (root : PTree) (env : NsEnv) (ss : List Step) (c0 n : XNode)
    (hc0 : c0 ≠ .doc) (hss : ∀ s ∈ ss, stepAvoidsDoc s = true) (h : Selects root env ss c0 n) : n ≠ .doc := by
  induction h with
  | nil c => exact hc0
  | @cons s1 ss1 c1 m n1 hm _ ih =>
    refine ih ?_ (fun s hs => hss s (List.mem_cons_of_mem _ hs))
    intro e; subst e
    exact doc_not_mem_stepDenote root env s1 c1 hc0 (hss s1 (by simp)) hm

/-- a step that cannot reach the root node is safe at every tree node, given an existing axis, a bound
    prefix and predicates that have values -/
theorem stepSafe_of_avoidsDoc (root : PTree) (env : NsEnv) (s : Step) (c : XNode) (hc : c ≠ .doc)
    (hax : s.axis ∈ realAxes) (hs : stepAvoidsDoc s = true)
    (hpfx : checkPrefix env (testPrefix s.test) = .ok ())
    (hpreds : ∀ pred ∈ s.preds, ∀ cx, ∃ v, evalExpr root env cx pred = .ok v) :
    StepSafe root env s c ∧ DocTypeOk s c := by
  refine ⟨⟨hax, fun e => absurd e hc, hpfx, fun t ht => ?_, fun pred hp n pos size _ _ => hpreds pred hp _⟩,
    fun ty hty _ => ?_⟩
  · exact stepAvoidsDoc_axisRel s c hc hs (fun pfx e => by rw [ht] at e; cases e) (fun pfx l e => by rw [ht] at e; cases e)
  · exact stepAvoidsDoc_axisRel s c hc hs (fun pfx e => by rw [hty] at e; cases e) (fun pfx l e => by rw [hty] at e; cases e)

end Delb.XPath

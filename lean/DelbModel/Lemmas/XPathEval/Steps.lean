import DelbModel.Lemmas.XPathEval.Axes
/-!
# C06 helper lemmas: node test filtering, predicates, steps, unions, sorting
-/
namespace Delb.XPath
open Delb.Edit Delb.Nav

/-! ## `filterTest` -/

theorem filterTest_spec (root : PTree) (env : NsEnv) (t : NodeTest) (l r : List XNode)
    (h : filterTest root env t l = .ok r) :
    r.Sublist l ∧ ∀ m, m ∈ r ↔ (m ∈ l ∧ nodeTest root env t m = .ok true) := by
  induction l generalizing r with
  | nil =>
    simp only [filterTest] at h
    cases h; simp
  | cons n rest ih =>
    cases hb : nodeTest root env t n with
    | error e => simp [filterTest, hb] at h
    | ok b =>
      cases hr : filterTest root env t rest with
      | error e => simp [filterTest, hb, hr] at h
      | ok r' =>
        obtain ⟨hs, hm⟩ := ih r' hr
        simp only [filterTest, hb, hr] at h
        cases b with
        | true =>
          simp only [if_true, Except.ok.injEq] at h
          subst h
          refine ⟨hs.cons_cons n, fun m => ?_⟩
          rw [List.mem_cons, List.mem_cons, hm]
          constructor
          · rintro (rfl | ⟨h1, h2⟩)
            · exact ⟨.inl rfl, hb⟩
            · exact ⟨.inr h1, h2⟩
          · rintro ⟨rfl | h1, h2⟩
            · exact .inl rfl
            · exact .inr ⟨h1, h2⟩
        | false =>
          simp only [Bool.false_eq_true, if_false, Except.ok.injEq] at h
          subst h
          refine ⟨hs.cons n, fun m => ?_⟩
          rw [List.mem_cons, hm]
          constructor
          · rintro ⟨h1, h2⟩; exact ⟨.inr h1, h2⟩
          · rintro ⟨rfl | h1, h2⟩
            · rw [hb] at h2; cases h2
            · exact ⟨h1, h2⟩

/-! ## predicates -/

theorem filterPred_sublist (root : PTree) (env : NsEnv) (pred : Expr) (size pos : Nat) (l r : List XNode)
    (h : filterPred root env pred size pos l = .ok r) : r.Sublist l := by
  induction l generalizing pos r with
  | nil => simp only [filterPred] at h; cases h; simp
  | cons n rest ih =>
    simp only [filterPred] at h
    split at h
    · cases h
    · split at h
      · cases h
      · rename_i v _ r' hr
        have hs := ih (pos + 1) r' hr
        simp only [Except.ok.injEq] at h
        subst h
        split
        · exact hs.cons_cons n
        · exact hs.cons n

theorem applyPreds_sublist (root : PTree) (env : NsEnv) (ps : List Expr) (l r : List XNode)
    (h : applyPreds root env ps l = .ok r) : r.Sublist l := by
  induction ps generalizing l with
  | nil => simp only [applyPreds, Except.ok.injEq] at h; subst h; exact List.Sublist.refl _
  | cons p ps ih =>
    simp only [applyPreds] at h
    split at h
    · cases h
    · rename_i next hn
      exact (ih next h).trans (filterPred_sublist root env p _ _ l next hn)

theorem applyPreds_cons (root : PTree) (env : NsEnv) (p : Expr) (ps : List Expr) (cands : List XNode) :
    applyPreds root env (p :: ps) cands =
      (match filterPred root env p cands.length 1 cands with
       | .error e => .error e
       | .ok next => applyPreds root env ps next) := by
  cases h : filterPred root env p cands.length 1 cands <;> simp [applyPreds, h]

/-! ## a step at one node -/

theorem evalStepAt_spec (root : PTree) (env : NsEnv) (s : Step) (n : XNode) (axis r : List XNode)
    (ha : axisNodes root s.axis n = .ok axis) (h : evalStepAt root env s n = .ok r) :
    ∃ cands, filterTest root env s.test axis = .ok cands ∧ applyPreds root env s.preds cands = .ok r := by
  simp only [evalStepAt, ha] at h
  split at h
  · cases h
  · rename_i cands hc
    exact ⟨cands, hc, h⟩

/-! ## positional predicate -/

theorem showS_position : showS "position".toList = "position" := by
  simp [showS]

theorem evalExpr_position (root : PTree) (env : NsEnv) (c : Ctx) :
    evalExpr root env c (.func "position".toList []) = .ok (.i c.position) := by
  rw [evalExpr, evalArgs]
  simp only [showS_position]

theorem applyOp_eq_int (a b : Int) : applyOp "=" (.i a) (.i b) = .ok (.b (a == b)) := by
  simp [applyOp, asInt]

theorem natCast_beq (a b : Nat) : ((a : Int) == (b : Int)) = (a == b) := by
  rw [Bool.eq_iff_iff]
  simp only [beq_iff_eq]
  constructor <;> intro h <;> omega

theorem evalExpr_poseq (root : PTree) (env : NsEnv) (c : Ctx) (k : Nat) :
    evalExpr root env c (.binop "=" (.func "position".toList []) (.num k)) = .ok (.b (c.position == k)) := by
  rw [evalExpr, evalExpr_position]
  simp only [evalExpr, applyOp_eq_int, natCast_beq]

theorem filterPred_poseq (root : PTree) (env : NsEnv) (k size pos : Nat) (l : List XNode) :
    filterPred root env (.binop "=" (.func "position".toList []) (.num k)) size pos l =
      .ok (if pos ≤ k then (l[k - pos]?).toList else []) := by
  induction l generalizing pos with
  | nil => simp [filterPred]
  | cons n rest ih =>
    simp only [filterPred, evalExpr_poseq, ih, truthy]
    congr 1
    by_cases h1 : pos = k
    · subst h1; simp; intro h; omega
    · have hb : (pos == k) = false := by simpa using h1
      simp only [hb, Bool.false_eq_true, if_false]
      by_cases h2 : pos + 1 ≤ k
      · have h3 : pos ≤ k := by omega
        simp only [h2, h3, if_true]
        have : k - pos = (k - (pos + 1)) + 1 := by omega
        rw [this, List.getElem?_cons_succ]
      · have h3 : ¬ pos ≤ k := by omega
        simp [h2, h3]

/-! ## `addNew` -/

theorem mem_addNew (acc l : List XNode) (m : XNode) : m ∈ addNew acc l ↔ (m ∈ acc ∨ m ∈ l) := by
  induction l generalizing acc with
  | nil => simp [addNew]
  | cons n rest ih =>
    simp only [addNew]
    split
    · rename_i hc
      have hc' : n ∈ acc := by simpa using hc
      rw [ih, List.mem_cons]
      constructor
      · rintro (h | h)
        · exact .inl h
        · exact .inr (.inr h)
      · rintro (h | rfl | h)
        · exact .inl h
        · exact .inl hc'
        · exact .inr h
    · rw [ih, List.mem_append, List.mem_singleton, List.mem_cons]
      constructor
      · rintro ((h | h) | h)
        · exact .inl h
        · exact .inr (.inl h)
        · exact .inr (.inr h)
      · rintro (h | h | h)
        · exact .inl (.inl h)
        · exact .inl (.inr h)
        · exact .inr h

theorem nodup_addNew (acc l : List XNode) (h : acc.Nodup) : (addNew acc l).Nodup := by
  induction l generalizing acc with
  | nil => simpa [addNew] using h
  | cons n rest ih =>
    simp only [addNew]
    split
    · exact ih acc h
    · rename_i hc
      have hc' : n ∉ acc := by simpa using hc
      apply ih
      rw [List.nodup_append]
      refine ⟨h, by simp, ?_⟩
      intro a ha b hb
      simp only [List.mem_singleton] at hb
      subst hb
      intro e; subst e; exact hc' ha

/-! ## a step over a node set -/

theorem evalStep_spec (root : PTree) (env : NsEnv) (s : Step) (acc ns r : List XNode)
    (h : evalStep root env s acc ns = .ok r) :
    (acc.Nodup → r.Nodup) ∧
    ∀ m, m ∈ r ↔ (m ∈ acc ∨ ∃ n ∈ ns, ∃ l, evalStepAt root env s n = .ok l ∧ m ∈ l) := by
  induction ns generalizing acc with
  | nil =>
    simp only [evalStep, Except.ok.injEq] at h
    subst h
    exact ⟨id, fun m => by simp⟩
  | cons n rest ih =>
    simp only [evalStep] at h
    split at h
    · cases h
    · rename_i l hl
      obtain ⟨hn, hm⟩ := ih (addNew acc l) h
      refine ⟨fun ha => hn (nodup_addNew acc l ha), fun m => ?_⟩
      rw [hm, mem_addNew]
      constructor
      · rintro ((h1 | h1) | ⟨n', hn', l', hl', hml'⟩)
        · exact .inl h1
        · exact .inr ⟨n, by simp, l, hl, h1⟩
        · exact .inr ⟨n', by simp [hn'], l', hl', hml'⟩
      · rintro (h1 | ⟨n', hn', l', hl', hml'⟩)
        · exact .inl (.inl h1)
        · rcases List.mem_cons.1 hn' with rfl | hn'
          · rw [hl] at hl'; cases hl'; exact .inl (.inr hml')
          · exact .inr ⟨n', hn', l', hl', hml'⟩

/-! ## union of paths -/

theorem evalPaths_spec (root : PTree) (env : NsEnv) (ctx : List Nat) (acc : List XNode) (ps : List Path)
    (r : List XNode) (h : evalPaths root env ctx acc ps = .ok r) :
    (acc.Nodup → r.Nodup) ∧ (XNode.doc ∉ acc → XNode.doc ∉ r) ∧
    ∀ m, m ∈ r ↔ (m ∈ acc ∨ ∃ p ∈ ps, ∃ l, evalPath root env ctx p = .ok l ∧ m ∈ l) := by
  induction ps generalizing acc with
  | nil =>
    simp only [evalPaths, Except.ok.injEq] at h
    subst h
    exact ⟨id, id, fun m => by simp⟩
  | cons p rest ih =>
    simp only [evalPaths] at h
    split at h
    · cases h
    · rename_i l hl
      split at h
      · cases h
      · rename_i hdoc
        have hdoc' : XNode.doc ∉ l := by simpa using hdoc
        obtain ⟨hn, hd, hm⟩ := ih (addNew acc l) h
        refine ⟨fun ha => hn (nodup_addNew acc l ha), fun ha => hd ?_, fun m => ?_⟩
        · rw [mem_addNew]; rintro (h1 | h1)
          · exact ha h1
          · exact hdoc' h1
        · rw [hm, mem_addNew]
          constructor
          · rintro ((h1 | h1) | ⟨p', hp', l', hl', hml'⟩)
            · exact .inl h1
            · exact .inr ⟨p, by simp, l, hl, h1⟩
            · exact .inr ⟨p', by simp [hp'], l', hl', hml'⟩
          · rintro (h1 | ⟨p', hp', l', hl', hml'⟩)
            · exact .inl (.inl h1)
            · rcases List.mem_cons.1 hp' with rfl | hp'
              · rw [hl] at hl'; cases hl'; exact .inl (.inr hml')
              · exact .inr ⟨p', hp', l', hl', hml'⟩

/-! ## `sortPaths` -/

theorem mem_insertPath (p x : List Nat) (l : List (List Nat)) : x ∈ insertPath p l ↔ (x = p ∨ x ∈ l) := by
  induction l with
  | nil => simp [insertPath]
  | cons q qs ih =>
    simp only [insertPath]
    split
    · simp
    · split
      · rename_i hpq
        have : p = q := by simpa using hpq
        subst this
        simp
      · rw [List.mem_cons, ih, List.mem_cons]
        constructor
        · rintro (h | h | h)
          · exact .inr (.inl h)
          · exact .inl h
          · exact .inr (.inr h)
        · rintro (h | h | h)
          · exact .inr (.inl h)
          · exact .inl h
          · exact .inr (.inr h)

theorem insertPath_sorted (p : List Nat) (l : List (List Nat))
    (h : l.Pairwise (fun a b => pathLt a b = true)) :
    (insertPath p l).Pairwise (fun a b => pathLt a b = true) := by
  induction l with
  | nil => simp [insertPath]
  | cons q qs ih =>
    rw [List.pairwise_cons] at h
    obtain ⟨hq, hqs⟩ := h
    simp only [insertPath]
    split
    · rename_i hpq
      rw [List.pairwise_cons]
      refine ⟨?_, List.pairwise_cons.2 ⟨hq, hqs⟩⟩
      intro x hx
      rcases List.mem_cons.1 hx with rfl | hx
      · exact hpq
      · exact pathLt_trans hpq (hq x hx)
    · rename_i hpq
      split
      · exact List.pairwise_cons.2 ⟨hq, hqs⟩
      · rename_i hne
        have hne' : p ≠ q := by simpa using hne
        have hpq' : pathLt p q = false := by simpa using hpq
        rw [List.pairwise_cons]
        refine ⟨?_, ih hqs⟩
        intro x hx
        rcases (mem_insertPath p x qs).1 hx with rfl | hx
        · exact pathLt_total hpq' hne'
        · exact hq x hx

theorem sortPaths_spec (ps : List (List Nat)) :
    (∀ p, p ∈ sortPaths ps ↔ p ∈ ps) ∧ (sortPaths ps).Pairwise (fun a b => pathLt a b = true) := by
  induction ps with
  | nil => simp [sortPaths]
  | cons q qs ih =>
    have e : sortPaths (q :: qs) = insertPath q (sortPaths qs) := by simp [sortPaths]
    rw [e]
    refine ⟨fun p => ?_, insertPath_sorted q _ ih.2⟩
    rw [mem_insertPath, ih.1, List.mem_cons]

end Delb.XPath

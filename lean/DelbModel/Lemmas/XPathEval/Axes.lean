import DelbModel.Lemmas.XPathEval.DocOrder
/-!
# C06 helper lemmas: the axes
-/
namespace Delb.XPath
open Delb.Edit Delb.Nav

theorem isPrefix_iff (p q : List Nat) : isPrefix p q = true ↔ p <+: q := by
  simp [isPrefix]

/-! ## `Nodup` helpers (core only) -/

theorem nodup_map_of_injective {α β} {f : α → β} (hf : Function.Injective f) {l : List α} (h : l.Nodup) :
    (l.map f).Nodup := by
  unfold List.Nodup at h ⊢
  rw [List.pairwise_map]
  exact h.imp (fun hab hfab => hab (hf hfab))

theorem nodup_of_nodup_map {α β} (f : α → β) {l : List α} (h : (l.map f).Nodup) : l.Nodup := by
  unfold List.Nodup at h ⊢
  rw [List.pairwise_map] at h
  exact h.imp (fun hab e => hab (congrArg f e))

theorem nodup_reverse_iff {α} {l : List α} : l.reverse.Nodup ↔ l.Nodup := by
  unfold List.Nodup
  rw [List.pairwise_reverse]
  constructor <;> intro h <;> exact h.imp (fun hab e => hab e.symm)

theorem nodup_filter {α} (p : α → Bool) {l : List α} (h : l.Nodup) : (l.filter p).Nodup :=
  List.filter_sublist.nodup h

/-! ## children -/

theorem getAtP_append (root : PTree) (p q : List Nat) :
    getAtP root (p ++ q) = (getAtP root p).bind (fun t => getAtP t q) := by
  induction p generalizing root with
  | nil => simp [getAtP]
  | cons k p ih =>
    cases root with
    | tag i ns nm a ks =>
      simp only [List.cons_append, getAtP]
      cases hc : ks[k]? with
      | none => simp
      | some c => simp [ih]
    | text i s => simp [getAtP]
    | comment i s => simp [getAtP]
    | pi i t s => simp [getAtP]

theorem getAtP_single (t : PTree) (i : Nat) : getAtP t [i] = t.kids[i]? := by
  cases t with
  | tag id ns nm a ks =>
    simp only [getAtP, PTree.kids]
    cases ks[i]? <;> rfl
  | text id s => simp [getAtP, PTree.kids]
  | comment id s => simp [getAtP, PTree.kids]
  | pi id t s => simp [getAtP, PTree.kids]

theorem lt_kidsCount_iff (root : PTree) (p : List Nat) (i : Nat) :
    i < kidsCount root p ↔ (getAtP root (p ++ [i])).isSome := by
  rw [getAtP_append]
  unfold kidsCount
  cases h : getAtP root p with
  | none => simp
  | some t =>
    simp only [Option.bind_some, getAtP_single]
    simp

/-! ## descendants -/

theorem mem_descendantPaths (root : PTree) (p q : List Nat) :
    q ∈ descendantPaths root p ↔ (p <+: q ∧ q ≠ p ∧ (getAtP root q).isSome) := by
  unfold descendantPaths
  rw [List.mem_filter, mem_docOrder, Bool.and_eq_true, isPrefix_iff]
  simp only [bne_iff_ne, ne_eq]
  constructor
  · rintro ⟨h1, h2, h3⟩; exact ⟨h2, h3, h1⟩
  · rintro ⟨h1, h2, h3⟩; exact ⟨h3, h1, h2⟩

theorem descendantPaths_sublist (root : PTree) (p : List Nat) :
    (descendantPaths root p).Sublist (docOrder root) := List.filter_sublist

/-! ## ancestors -/

theorem mem_ancestorPaths (p q : List Nat) : q ∈ ancestorPaths p ↔ (q <+: p ∧ q ≠ p) := by
  unfold ancestorPaths
  rw [List.mem_map]
  constructor
  · rintro ⟨k, hk, rfl⟩
    rw [mem_downFrom] at hk
    refine ⟨List.take_prefix k p, fun h => ?_⟩
    have := congrArg List.length h
    rw [List.length_take] at this
    omega
  · rintro ⟨hq, hne⟩
    refine ⟨q.length, ?_, (List.prefix_iff_eq_take.1 hq).symm⟩
    rw [mem_downFrom]
    have hle := hq.length_le
    rcases Nat.lt_or_ge q.length p.length with h | h
    · exact h
    · exact absurd (hq.eq_of_length (by omega)) hne

theorem ancestorPaths_lengths (p : List Nat) :
    (ancestorPaths p).map List.length = (List.range p.length).reverse := by
  unfold ancestorPaths
  rw [List.map_map]
  show (downFrom p.length).map _ = downFrom p.length
  conv => rhs; rw [← List.map_id (downFrom p.length)]
  apply List.map_congr_left
  intro k hk
  rw [mem_downFrom] at hk
  simp only [Function.comp, List.length_take, id]
  omega

theorem ancestorPaths_nodup (p : List Nat) : (ancestorPaths p).Nodup := by
  have h : ((ancestorPaths p).map List.length).Nodup := by
    rw [ancestorPaths_lengths]
    exact nodup_reverse_iff.2 List.nodup_range
  exact nodup_of_nodup_map _ h

/-! ## following / preceding -/

theorem takeWhile_dropWhile_mem {α} [BEq α] [LawfulBEq α] (l : List α) (p : α) (hp : p ∈ l) :
    l.takeWhile (· != p) ++ p :: (l.dropWhile (· != p)).drop 1 = l := by
  induction l with
  | nil => cases hp
  | cons x l ih =>
    by_cases hx : x = p
    · subst hx; simp [List.takeWhile, List.dropWhile]
    · have hp' : p ∈ l := by
        rcases List.mem_cons.1 hp with h | h
        · exact absurd h.symm hx
        · exact h
      have hb : (x != p) = true := by simpa using hx
      simp only [List.takeWhile_cons, List.dropWhile_cons, hb, if_true, List.cons_append]
      rw [ih hp']

theorem preceding_following_partition (root : PTree) (p : List Nat) (hp : p ∈ docOrder root) :
    (precedingPaths root p).reverse ++ p :: followingPaths root p = docOrder root := by
  unfold precedingPaths followingPaths
  rw [List.reverse_reverse]
  exact takeWhile_dropWhile_mem _ p hp

theorem followingPaths_sublist (root : PTree) (p : List Nat) :
    (followingPaths root p).Sublist (docOrder root) :=
  (List.drop_sublist _ _).trans (List.dropWhile_sublist _)

theorem precedingPaths_rev_sublist (root : PTree) (p : List Nat) :
    (precedingPaths root p).reverse.Sublist (docOrder root) := by
  unfold precedingPaths
  rw [List.reverse_reverse]
  exact List.takeWhile_sublist _

/-! ## siblings -/

theorem splitLast_append_single (par : List Nat) (i : Nat) : splitLast (par ++ [i]) = some (par, i) := by
  induction par with
  | nil => simp [splitLast]
  | cons x par ih =>
    cases par with
    | nil => simp [splitLast]
    | cons y par =>
      simp only [List.cons_append] at ih ⊢
      rw [splitLast_cons_cons, ih]; rfl

theorem siblingsAfter_eq (root : PTree) (par : List Nat) (i : Nat) :
    siblingsAfter root (par ++ [i]) =
      ((List.range (kidsCount root par)).filter (· > i)).map (fun j => par ++ [j]) := by
  simp [siblingsAfter, splitLast_append_single]

theorem siblingsBefore_eq (root : PTree) (par : List Nat) (i : Nat) :
    siblingsBefore root (par ++ [i]) = ((List.range i).reverse).map (fun j => par ++ [j]) := by
  simp [siblingsBefore, splitLast_append_single]

theorem append_single_injective (par : List Nat) : Function.Injective (fun j : Nat => par ++ [j]) := by
  intro a b h
  simpa using h

theorem siblingsAfter_nodup (root : PTree) (p : List Nat) : (siblingsAfter root p).Nodup := by
  unfold siblingsAfter
  split
  · simp
  · exact nodup_map_of_injective (append_single_injective _) (nodup_filter _ List.nodup_range)

theorem siblingsBefore_nodup (root : PTree) (p : List Nat) : (siblingsBefore root p).Nodup := by
  unfold siblingsBefore
  split
  · simp
  · exact nodup_map_of_injective (append_single_injective _) (nodup_reverse_iff.2 List.nodup_range)

/-! ## every axis is duplicate-free -/

theorem XNode.at_injective : Function.Injective XNode.at := by
  intro a b h; cases h; rfl

theorem nodup_map_at {l : List (List Nat)} (h : l.Nodup) : (l.map XNode.at).Nodup :=
  nodup_map_of_injective XNode.at_injective h

theorem doc_not_mem_map_at (l : List (List Nat)) : XNode.doc ∉ l.map XNode.at := by
  simp

theorem at_mem_map_at (l : List (List Nat)) (p : List Nat) : XNode.at p ∈ l.map XNode.at ↔ p ∈ l := by
  simp

theorem self_not_mem_ancestorPaths (p : List Nat) : p ∉ ancestorPaths p := by
  rw [mem_ancestorPaths]; simp

theorem self_not_mem_descendantPaths (root : PTree) (p : List Nat) : p ∉ descendantPaths root p := by
  rw [mem_descendantPaths]; simp

theorem ancestor_axis_nodup (p : List Nat) : ((ancestorPaths p).map XNode.at ++ [XNode.doc]).Nodup := by
  rw [List.nodup_append]
  refine ⟨nodup_map_at (ancestorPaths_nodup p), by simp, ?_⟩
  intro a ha b hb
  simp only [List.mem_singleton] at hb
  subst hb
  intro h; subst h
  exact doc_not_mem_map_at _ ha

theorem axis_nodup (root : PTree) (axis : String) (n : XNode) (l : List XNode)
    (h : axisNodes root axis n = .ok l) : l.Nodup := by
  unfold axisNodes at h
  split at h
  · split at h
    · cases h; simp
    · cases h; exact nodup_map_at (docOrder_nodup root)
    · cases h
      exact List.nodup_cons.2 ⟨doc_not_mem_map_at _, nodup_map_at (docOrder_nodup root)⟩
    · cases h; simp
    · split at h <;> cases h
  · rename_i p
    split at h
    · cases h; exact ancestor_axis_nodup p
    · cases h
      rw [List.cons_append]
      refine List.nodup_cons.2 ⟨?_, ancestor_axis_nodup p⟩
      simp only [List.mem_append, at_mem_map_at, List.mem_singleton, reduceCtorEq, or_false]
      exact self_not_mem_ancestorPaths p
    · cases h
      refine nodup_map_of_injective ?_ List.nodup_range
      intro a b hab
      simpa using hab
    · cases h; exact nodup_map_at ((descendantPaths_sublist root p).nodup (docOrder_nodup root))
    · cases h
      refine List.nodup_cons.2 ⟨?_, nodup_map_at ((descendantPaths_sublist root p).nodup (docOrder_nodup root))⟩
      rw [at_mem_map_at]; exact self_not_mem_descendantPaths root p
    · cases h; exact nodup_map_at ((followingPaths_sublist root p).nodup (docOrder_nodup root))
    · cases h; exact nodup_map_at (siblingsAfter_nodup root p)
    · cases h; split <;> simp
    · cases h
      refine nodup_map_at ?_
      exact nodup_reverse_iff.1 ((precedingPaths_rev_sublist root p).nodup (docOrder_nodup root))
    · cases h; exact nodup_map_at (siblingsBefore_nodup root p)
    · cases h; simp
    · cases h

end Delb.XPath

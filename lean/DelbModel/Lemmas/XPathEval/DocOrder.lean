import DelbModel.Model.XPath.Eval
import DelbModel.Lemmas.Edit
import DelbModel.Lemmas.Nav
/-!
# C06 helper lemmas: `pathLt`, `pathsOf` / `docOrder`
-/
namespace Delb.XPath
open Delb.Edit Delb.Nav

/-! ## `pathLt` is a strict total order -/

theorem pathLt_irrefl (p : List Nat) : pathLt p p = false := by
  induction p with
  | nil => simp [pathLt]
  | cons a p ih => simp [pathLt, ih]

theorem pathLt_cons (a b : Nat) (p q : List Nat) :
    pathLt (a :: p) (b :: q) = true ↔ a < b ∨ (a = b ∧ pathLt p q = true) := by
  simp [pathLt]

theorem pathLt_nil_left (q : List Nat) : pathLt [] q = true ↔ q ≠ [] := by
  cases q <;> simp [pathLt]

theorem pathLt_nil_right (p : List Nat) : pathLt p [] = false := by
  cases p <;> simp [pathLt]

theorem pathLt_trans {p q r : List Nat} (h₁ : pathLt p q = true) (h₂ : pathLt q r = true) :
    pathLt p r = true := by
  induction p generalizing q r with
  | nil =>
    cases r with
    | nil => simp [pathLt_nil_right] at h₂
    | cons c r => simp [pathLt]
  | cons a p ih =>
    cases q with
    | nil => simp [pathLt] at h₁
    | cons b q =>
      cases r with
      | nil => simp [pathLt] at h₂
      | cons c r =>
        rw [pathLt_cons] at h₁ h₂ ⊢
        rcases h₁ with h₁ | ⟨rfl, h₁⟩
        · rcases h₂ with h₂ | ⟨rfl, h₂⟩
          · exact .inl (by omega)
          · exact .inl h₁
        · rcases h₂ with h₂ | ⟨rfl, h₂⟩
          · exact .inl h₂
          · exact .inr ⟨rfl, ih h₁ h₂⟩

theorem pathLt_asymm {p q : List Nat} (h : pathLt p q = true) : pathLt q p = false := by
  cases hq : pathLt q p with
  | false => rfl
  | true => have := pathLt_trans h hq; rw [pathLt_irrefl] at this; cases this

theorem pathLt_ne {p q : List Nat} (h : pathLt p q = true) : p ≠ q := by
  rintro rfl; rw [pathLt_irrefl] at h; cases h

theorem pathLt_total {p q : List Nat} (h : pathLt p q = false) (hne : p ≠ q) : pathLt q p = true := by
  induction p generalizing q with
  | nil =>
    cases q with
    | nil => exact absurd rfl hne
    | cons b q => simp [pathLt] at h
  | cons a p ih =>
    cases q with
    | nil => simp [pathLt]
    | cons b q =>
      rw [pathLt_cons]
      have h' : ¬ (a < b ∨ (a = b ∧ pathLt p q = true)) := by
        rw [← pathLt_cons]; simp [h]
      by_cases hab : b < a
      · exact .inl hab
      · have hab' : a = b := by
          rcases Nat.lt_trichotomy a b with h1 | h1 | h1
          · exact absurd (.inl h1) h'
          · exact h1
          · exact absurd h1 hab
        subst hab'
        refine .inr ⟨rfl, ih ?_ ?_⟩
        · cases hpq : pathLt p q with
          | false => rfl
          | true => exact absurd (.inr ⟨rfl, hpq⟩) h'
        · intro hpq; exact hne (by rw [hpq])

theorem pathLt_of_prefix {p q : List Nat} (hpq : p <+: q) (hne : p ≠ q) : pathLt p q = true := by
  obtain ⟨t, rfl⟩ := hpq
  induction p with
  | nil =>
    cases t with
    | nil => exact absurd rfl hne
    | cons x t => simp [pathLt]
  | cons a p ih =>
    simp only [List.cons_append]
    rw [pathLt_cons]
    exact .inr ⟨rfl, ih (fun h => hne (by simp only [List.cons_append]; rw [← h]))⟩

/-! ## "`p` comes before `q` in `l`" for strictly sorted lists -/

theorem before_of_pairwise {l : List (List Nat)} (hl : l.Pairwise (fun a b => pathLt a b = true))
    {p q : List Nat} (hp : p ∈ l) (hq : q ∈ l) (hpq : pathLt p q = true) :
    ∃ l₁ l₂ l₃, l = l₁ ++ p :: l₂ ++ q :: l₃ := by
  obtain ⟨a, b, rfl⟩ := List.append_of_mem hp
  rw [List.pairwise_append] at hl
  obtain ⟨_, hb, hab⟩ := hl
  rw [List.pairwise_cons] at hb
  rcases List.mem_append.1 hq with hqa | hqb
  · have := hab q hqa p (by simp)
    rw [pathLt_asymm hpq] at this; cases this
  · rcases List.mem_cons.1 hqb with rfl | hqb
    · rw [pathLt_irrefl] at hpq; cases hpq
    · obtain ⟨c, d, rfl⟩ := List.append_of_mem hqb
      exact ⟨a, c, d, by simp⟩

theorem pathLt_of_before {l : List (List Nat)} (hl : l.Pairwise (fun a b => pathLt a b = true))
    {p q : List Nat} {l₁ l₂ l₃ : List (List Nat)} (h : l = l₁ ++ p :: l₂ ++ q :: l₃) :
    pathLt p q = true := by
  subst h
  rw [List.append_assoc, List.pairwise_append] at hl
  obtain ⟨_, hb, _⟩ := hl
  rw [List.cons_append, List.pairwise_cons] at hb
  exact hb.1 q (by simp)

theorem nodup_of_pairwise_pathLt {l : List (List Nat)} (hl : l.Pairwise (fun a b => pathLt a b = true)) :
    l.Nodup := by
  unfold List.Nodup
  exact hl.imp (fun h => pathLt_ne h)

/-! ## `pathsOf` -/

theorem pathsOf_tag (i : Nat) (ns nm : String) (a : List Attr) (ks : List PTree) :
    pathsOf (.tag i ns nm a ks) = [] :: pathsOfList 0 ks := by simp [pathsOf]

@[simp] theorem pathsOfList_nil (i : Nat) : pathsOfList i [] = [] := by simp [pathsOfList]
@[simp] theorem pathsOfList_cons (i : Nat) (k : PTree) (ks : List PTree) :
    pathsOfList i (k :: ks) = (pathsOf k).map (i :: ·) ++ pathsOfList (i + 1) ks := by simp [pathsOfList]

theorem nil_mem_pathsOf (t : PTree) : [] ∈ pathsOf t := by
  cases t <;> simp [pathsOf]

theorem mem_pathsOfList (ks : List PTree) (i : Nat) (q : List Nat) :
    q ∈ pathsOfList i ks ↔ ∃ j rest c, q = (i + j) :: rest ∧ ks[j]? = some c ∧ rest ∈ pathsOf c := by
  induction ks generalizing i with
  | nil => simp
  | cons k ks ih =>
    rw [pathsOfList_cons, List.mem_append, ih]
    constructor
    · rintro (h | ⟨j, rest, c, rfl, hc, hr⟩)
      · obtain ⟨rest, hr, rfl⟩ := List.mem_map.1 h
        exact ⟨0, rest, k, by simp, by simp, hr⟩
      · exact ⟨j + 1, rest, c, by simp; omega, by simpa using hc, hr⟩
    · rintro ⟨j, rest, c, rfl, hc, hr⟩
      cases j with
      | zero =>
        simp at hc; subst hc
        exact .inl (List.mem_map.2 ⟨rest, hr, by simp⟩)
      | succ j =>
        exact .inr ⟨j, rest, c, by simp; omega, by simpa using hc, hr⟩

theorem mem_pathsOf (t : PTree) (p : List Nat) : p ∈ pathsOf t ↔ (getAtP t p).isSome := by
  induction p generalizing t with
  | nil => simp [nil_mem_pathsOf, getAtP]
  | cons k p ih =>
    cases t with
    | tag i ns nm a ks =>
      rw [pathsOf_tag, List.mem_cons, mem_pathsOfList]
      simp only [getAtP]
      constructor
      · rintro (h | ⟨j, rest, c, h, hc, hr⟩)
        · cases h
        · simp only [Nat.zero_add, List.cons.injEq] at h
          obtain ⟨rfl, rfl⟩ := h
          simp only [hc]; exact (ih c).1 hr
      · intro h
        cases hc : ks[k]? with
        | none => simp [hc] at h
        | some c =>
          simp only [hc] at h
          exact .inr ⟨k, p, c, by simp, hc, (ih c).2 h⟩
    | text i s => simp [pathsOf, getAtP]
    | comment i s => simp [pathsOf, getAtP]
    | pi i t s => simp [pathsOf, getAtP]

theorem pathsOfList_head (ks : List PTree) (i : Nat) (q : List Nat) (h : q ∈ pathsOfList i ks) :
    ∃ j rest, q = j :: rest ∧ i ≤ j := by
  obtain ⟨j, rest, c, rfl, _, _⟩ := (mem_pathsOfList ks i q).1 h
  exact ⟨i + j, rest, rfl, by omega⟩

mutual
  theorem pathsOf_sorted : ∀ (t : PTree), (pathsOf t).Pairwise (fun a b => pathLt a b = true)
    | .tag i ns nm a ks => by
      rw [pathsOf_tag, List.pairwise_cons]
      refine ⟨?_, pathsOfList_sorted ks 0⟩
      intro q hq
      obtain ⟨j, rest, rfl, _⟩ := pathsOfList_head ks 0 q hq
      simp [pathLt]
    | .text i s => by simp [pathsOf]
    | .comment i s => by simp [pathsOf]
    | .pi i t s => by simp [pathsOf]
  theorem pathsOfList_sorted : ∀ (ks : List PTree) (i : Nat),
      (pathsOfList i ks).Pairwise (fun a b => pathLt a b = true)
    | [], i => by simp
    | k :: ks, i => by
      rw [pathsOfList_cons, List.pairwise_append]
      refine ⟨?_, pathsOfList_sorted ks (i + 1), ?_⟩
      · rw [List.pairwise_map]
        exact (pathsOf_sorted k).imp (fun h => by rw [pathLt_cons]; exact .inr ⟨rfl, h⟩)
      · intro x hx y hy
        obtain ⟨r, _, rfl⟩ := List.mem_map.1 hx
        obtain ⟨j, rest, rfl, hj⟩ := pathsOfList_head ks (i + 1) y hy
        rw [pathLt_cons]; exact .inl (by omega)
end

theorem docOrder_sorted (root : PTree) : (docOrder root).Pairwise (fun a b => pathLt a b = true) :=
  pathsOf_sorted root

theorem docOrder_nodup (root : PTree) : (docOrder root).Nodup :=
  nodup_of_pairwise_pathLt (docOrder_sorted root)

theorem mem_docOrder (root : PTree) (p : List Nat) : p ∈ docOrder root ↔ (getAtP root p).isSome :=
  mem_pathsOf root p

/-- prefixes of valid addresses are valid -/
theorem mem_docOrder_of_prefix {root : PTree} {p q : List Nat} (hq : q ∈ docOrder root) (hpq : p <+: q) :
    p ∈ docOrder root := by
  rw [mem_docOrder] at hq ⊢
  obtain ⟨n, hn⟩ := Option.isSome_iff_exists.1 hq
  obtain ⟨m, hm⟩ := getAtP_prefix root q n hn p.length
  rw [List.prefix_iff_eq_take.1 hpq, hm]; rfl

end Delb.XPath

import DelbModel.Model.Guards
/-!
# Helper lemmas for the guard model (C09)
-/
namespace Delb.Guards
open Delb.Edit

/-- `hasSub` decides the existence of a decomposition around `sub` -/
theorem hasSub_iff (sub s : Str) : hasSub sub s = true ↔ ∃ pre post, s = pre ++ sub ++ post := by
  induction s with
  | nil =>
    simp only [hasSub, List.isEmpty_iff]
    constructor
    · intro h; exact ⟨[], [], by simp [h]⟩
    · rintro ⟨pre, post, h⟩
      have := congrArg List.length h
      simp at this
      exact List.eq_nil_of_length_eq_zero (by omega)
  | cons c cs ih =>
    simp only [hasSub, Bool.or_eq_true, ih, List.isPrefixOf_iff_prefix]
    constructor
    · rintro (⟨t, ht⟩ | ⟨pre, post, h⟩)
      · exact ⟨[], t, by simp [ht]⟩
      · exact ⟨c :: pre, post, by simp [h]⟩
    · rintro ⟨pre, post, h⟩
      cases pre with
      | nil => left; exact ⟨post, by simpa using h.symm⟩
      | cons d pre =>
        right
        simp only [List.cons_append, List.cons.injEq] at h
        exact ⟨pre, post, h.2⟩

/-- the last character differs from `x` iff the string is empty or ends in another character -/
theorem getLast?_ne_iff (s : Str) (x : Char) :
    s.getLast? ≠ some x ↔ (s = [] ∨ ∃ pre c, s = pre ++ [c] ∧ c ≠ x) := by
  rcases List.eq_nil_or_concat s with rfl | ⟨pre, c, rfl⟩
  · simp
  · simp only [List.concat_eq_append, List.getLast?_append, List.getLast?_singleton, Option.some_or, ne_eq,
      Option.some.injEq, List.append_eq_nil_iff, List.cons_ne_self, and_false, false_or]
    constructor
    · intro h; exact ⟨pre, c, rfl, h⟩
    · rintro ⟨pre', c', h, hc⟩
      have := List.append_inj' h (by simp)
      simp at this
      rw [this.2]; exact hc

end Delb.Guards

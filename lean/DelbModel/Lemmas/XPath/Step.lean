import DelbModel.Lemmas.XPath.Expr
import DelbModel.Lemmas.XPath.Group
import DelbModel.Lemmas.XPath.Tokenizer
/-! helper lemmas for C16: `parse_location_step`, `parse_location_path`, `parse` -/
namespace Delb.XPath

/-- invariant of the token list while a location step is consumed -/
def StepOK (n fuel : Nat) (l : List TT) : Prop :=
  WF (PosLt n) l ∧ ∀ g, TT.group g ∈ l → ttsSize g < fuel

theorem StepOK.drop_succ {n fuel : Nat} {l : List TT} {k : Nat} {t : Token} (h : StepOK n fuel l)
    (hk : l[k]? = some (.tok t)) (ho : isOpener t = false) : StepOK n fuel (l.drop (k+1)) :=
  ⟨h.1.drop_succ hk ho, fun g hg => h.2 g (List.mem_of_mem_drop hg)⟩

theorem parsePreds_spec (n fuel : Nat) : ∀ (k : Nat) (tokens : List TT), StepOK n fuel tokens → tokens.length < k →
    ∀ e, parsePreds k fuel tokens = .error e → ErrOK n e := by
  intro k
  induction k with
  | zero => intro tokens _ h; omega
  | succ k ih =>
    intro tokens hok hlen e h
    cases tokens with
    | nil => simp [parsePreds] at h
    | cons x xs =>
      rw [parsePreds] at h
      split at h
      · rename_i hm
        obtain ⟨hl, hc⟩ := initialMatch_spec hm
        obtain ⟨g, hg⟩ := comparePattern_group _ _ 1 hc rfl (by simp at hl ⊢; omega)
        obtain ⟨t2, ht2, hty⟩ := comparePattern_tok _ _ 2 _ hc rfl (by simp at hl ⊢; omega)
        rw [getGroup_eq _ hg] at h
        simp only at h
        have hgm : TT.group g ∈ x :: xs := List.mem_of_getElem? hg
        split at h
        · rename_i e' he'
          cases h
          exact parseExpr_spec n fuel g (hok.1.grp g hgm).2 (hok.2 g hgm) _ he'
        · split at h
          · rename_i e' he'
            cases h
            split at he'
            · split at he'
              · cases he'
              · cases he'; trivial
            · cases he'
          · split at h
            · rename_i e' he'
              cases h
              refine ih _ (hok.drop_succ ht2 (by simp [isOpener, hty, tokType_beq])) ?_ _ he'
              simp at hlen ⊢; omega
            · cases h
      · obtain ⟨t, ht, htp⟩ := hok.1.last (by simp)
        rw [getLastTok_eq _ ht] at h
        cases h
        exact Nat.le_of_lt htp


/-- a token that really is a slice of the input -/
abbrev Real (n : Nat) : Token → Prop := fun t => t.pos + t.str.length ≤ n

theorem parseStep_spec (n fuel : Nat) (all : List TT) (hok : StepOK n fuel all) (hax : axOK (Real n) all) :
    ∀ e, parseStep fuel all = .error e → ErrOK n e := by
  intro e h
  unfold parseStep at h
  split at h
  · cases h; trivial
  rename_i hne
  have hne' : all ≠ [] := by simpa using hne
  simp only at h
  split at h
  · -- the axis stage fails
    rename_i e' heq
    cases h
    split at heq
    · rename_i hm
      obtain ⟨hl, hc⟩ := initialMatch_spec hm
      obtain ⟨t0, ht0, _⟩ := comparePattern_tok _ _ 0 _ hc rfl (by simp at hl ⊢; omega)
      rw [getTok_eq _ ht0] at heq
      simp only at heq
      split at heq
      · cases heq; exact Nat.le_of_lt (hok.1.pos t0 (List.mem_of_getElem? ht0))
      · cases heq
    · cases heq
  rename_i axis tokens heq
  -- what the axis stage leaves behind
  have hst1 : StepOK n fuel tokens ∧
      (tokens = [] → ∃ lt, all.getLast? = some (.tok lt) ∧ lt.pos + lt.str.length ≤ n) := by
    split at heq
    · rename_i hm
      obtain ⟨hl, hc⟩ := initialMatch_spec hm
      obtain ⟨t0, ht0, _⟩ := comparePattern_tok _ _ 0 _ hc rfl (by simp at hl ⊢; omega)
      obtain ⟨t1, ht1, hty1⟩ := comparePattern_tok _ _ 1 _ hc rfl (by simp at hl ⊢; omega)
      rw [getTok_eq _ ht0] at heq
      simp only at heq
      split at heq
      · cases heq
      · cases heq
        refine ⟨hok.drop_succ ht1 (by simp [isOpener, hty1, tokType_beq]), fun hnil => ?_⟩
        rcases all with _ | ⟨a, _ | ⟨b, _ | ⟨c, r⟩⟩⟩
        · simp at hl
        · simp at hl
        · simp at ht1; subst ht1
          cases a with
          | tok ta =>
            simp [axOK] at hax
            exact ⟨t1, rfl, hax.2 hty1⟩
          | group g => simp at ht0
        · simp at hnil
    · cases heq
      exact ⟨hok, fun hnil => absurd hnil hne'⟩
  obtain ⟨hok1, hlast⟩ := hst1
  clear heq
  split at h
  · rename_i hemp
    obtain ⟨lt, hlt, hreal⟩ := hlast (by simpa using hemp)
    rw [getLastTok_eq _ hlt] at h
    cases h
    exact hreal
  rename_i hne1
  have hne1' : tokens ≠ [] := by simpa using hne1
  clear hlast
  split at h
  · -- the prefix stage fails
    rename_i e' heq
    cases h
    split at heq
    · rename_i hm
      simp only [Bool.or_eq_true] at hm
      rcases hm with hm | hm <;>
      · obtain ⟨hl, hc⟩ := initialMatch_spec hm
        obtain ⟨t0, ht0, _⟩ := comparePattern_tok _ _ 0 _ hc rfl (by simp at hl ⊢; omega)
        rw [getTok_eq _ ht0] at heq
        cases heq
    · cases heq
  rename_i pfx tokens2 heq
  have hst2 : StepOK n fuel tokens2 ∧ tokens2 ≠ [] := by
    split at heq
    · rename_i hm
      simp only [Bool.or_eq_true] at hm
      rcases hm with hm | hm <;>
      · obtain ⟨hl, hc⟩ := initialMatch_spec hm
        obtain ⟨t0, ht0, _⟩ := comparePattern_tok _ _ 0 _ hc rfl (by simp at hl ⊢; omega)
        obtain ⟨t1, ht1, hty1⟩ := comparePattern_tok _ _ 1 _ hc rfl (by simp at hl ⊢; omega)
        rw [getTok_eq _ ht0] at heq
        cases heq
        refine ⟨hok1.drop_succ ht1 (by simp [isOpener, hty1, tokType_beq]), ?_⟩
        intro hnil
        have := congrArg List.length hnil
        simp at this hl; omega
    · cases heq; exact ⟨hok1, hne1'⟩
  obtain ⟨hok2, hne2⟩ := hst2
  clear heq
  obtain ⟨h0, hh0, hp0⟩ := hok2.1.head hne2
  have hp0' : h0.pos ≤ n := Nat.le_of_lt hp0
  split at h
  · -- the node-test stage fails
    rename_i e' heq
    cases h
    split at heq
    · rename_i hm
      obtain ⟨hl, hc⟩ := initialMatch_spec hm
      obtain ⟨g, hg⟩ := comparePattern_group _ _ 2 hc rfl (by simp at hl ⊢; omega)
      rw [getTok_eq _ hh0] at heq
      simp only at heq
      split at heq
      · cases heq; exact hp0'
      · rw [getGroup_eq _ hg] at heq
        simp only at heq
        have hgm : TT.group g ∈ tokens2 := List.mem_of_getElem? hg
        obtain ⟨hgne, hgw⟩ := hok2.1.grp g hgm
        obtain ⟨tg, htg, _⟩ := hgw.head hgne
        rw [getTok_eq _ htg] at heq
        cases heq
    split at heq
    · rw [getTok_eq _ hh0] at heq
      simp only at heq
      split at heq
      · cases heq; exact hp0'
      · cases heq
    split at heq
    · cases heq
    split at heq
    · rw [getTok_eq _ hh0] at heq
      cases heq
    split at heq
    · rw [getTok_eq _ hh0] at heq
      cases heq; exact hp0'
    · rw [getTok_eq _ hh0] at heq
      cases heq; exact hp0'
  rename_i test tokens3 heq
  have hok3 : StepOK n fuel tokens3 := by
    split at heq
    · rename_i hm
      obtain ⟨hl, hc⟩ := initialMatch_spec hm
      obtain ⟨g, hg⟩ := comparePattern_group _ _ 2 hc rfl (by simp at hl ⊢; omega)
      obtain ⟨t3, ht3, hty3⟩ := comparePattern_tok _ _ 3 _ hc rfl (by simp at hl ⊢; omega)
      rw [getTok_eq _ hh0] at heq
      simp only at heq
      split at heq
      · cases heq
      · rw [getGroup_eq _ hg] at heq
        simp only at heq
        split at heq
        · cases heq
        · cases heq
          exact hok2.drop_succ ht3 (by simp [isOpener, hty3, tokType_beq])
    split at heq
    · rename_i hm
      obtain ⟨hl, hc⟩ := initialMatch_spec hm
      obtain ⟨t2, ht2, hty2⟩ := comparePattern_tok _ _ 2 _ hc rfl (by simp at hl ⊢; omega)
      rw [getTok_eq _ hh0] at heq
      simp only at heq
      split at heq
      · cases heq
      · cases heq
        exact hok2.drop_succ ht2 (by simp [isOpener, hty2, tokType_beq])
    split at heq
    · rename_i hm
      obtain ⟨hl, hc⟩ := initialMatch_spec hm
      obtain ⟨t0, ht0, hty0⟩ := comparePattern_tok _ _ 0 _ hc rfl (by simp at hl ⊢; omega)
      cases heq
      exact hok2.drop_succ ht0 (by simp [isOpener, hty0, tokType_beq])
    split at heq
    · rename_i hm
      obtain ⟨hl, hc⟩ := initialMatch_spec hm
      obtain ⟨t0, ht0, hty0⟩ := comparePattern_tok _ _ 0 _ hc rfl (by simp at hl ⊢; omega)
      rw [getTok_eq _ hh0] at heq
      cases heq
      exact hok2.drop_succ ht0 (by simp [isOpener, hty0, tokType_beq])
    split at heq
    · rw [getTok_eq _ hh0] at heq
      cases heq
    · rw [getTok_eq _ hh0] at heq
      cases heq
  clear heq
  split at h
  · rename_i e' he'
    cases h
    exact parsePreds_spec n fuel _ _ hok3 (Nat.lt_succ_self _) _ he'
  · cases h

theorem parseSteps_spec (n fuel : Nat) : ∀ ps : List (List TT),
    (∀ p ∈ ps, StepOK n fuel p ∧ axOK (Real n) p) → ∀ e, parseSteps fuel ps = .error e → ErrOK n e := by
  intro ps
  induction ps with
  | nil => intro _ e h; simp [parseSteps] at h
  | cons p ps ih =>
    intro hps e h
    rw [parseSteps] at h
    split at h
    · rename_i e' he'
      cases h
      exact parseStep_spec n fuel p (hps p (by simp)).1 (hps p (by simp)).2 _ he'
    · split at h
      · rename_i e' he'
        cases h
        exact ih (fun q hq => hps q (by simp [hq])) _ he'
      · cases h

/-- a token that is a non-empty slice of the input -/
abbrev RealTok (n : Nat) : Token → Prop := fun t => t.pos < n ∧ t.pos + t.str.length ≤ n

/-- invariant of the token list of a location path (before `expand_axes`) -/
def PathOK (n fuel : Nat) (l : List TT) : Prop :=
  WF (RealTok n) l ∧ ∀ g, TT.group g ∈ l → ttsSize g < fuel

theorem parsePath_spec (n fuel : Nat) (tokens : List TT) (hok : PathOK n fuel tokens) :
    ∀ e, parsePath fuel tokens = .error e → ErrOK n e := by
  intro e h
  unfold parsePath at h
  split at h
  · cases h; trivial
  rename_i hne
  have hne' : tokens ≠ [] := by simpa using hne
  simp only at h
  have hwf : WF (PosLt n) (expandAxes tokens) :=
    WF.expandAxes (P := PosLt n) (fun t u ht hu => by simp only [PosLt] at ht ⊢; omega)
      (hok.1.mono (fun t ht => ht.1))
  obtain ⟨t0, ht0, _⟩ := hwf.head (expandAxes_ne_nil hne')
  have hhead : (expandAxes tokens).head? = some (.tok t0) := by
    rw [List.head?_eq_getElem?]; exact ht0
  rw [hhead] at h
  simp only at h
  split at h
  · rename_i e' he'
    cases h
    refine parseSteps_spec n fuel _ (fun p hp => ⟨⟨hwf.partition sepOK_SLASH hp, fun g hg => ?_⟩, ?_⟩) _ he'
    · exact hok.2 g (group_mem_expandAxes (partitionTokens_mem hp _ hg))
    · exact partitionTokens_axOK (axOK_expandAxes (fun t ht => (hok.1.pos t ht).2)) hp
  · cases h

theorem parsePaths_spec (n fuel : Nat) : ∀ ps : List (List TT),
    (∀ p ∈ ps, PathOK n fuel p) → ∀ e, parsePaths fuel ps = .error e → ErrOK n e := by
  intro ps
  induction ps with
  | nil => intro _ e h; simp [parsePaths] at h
  | cons p ps ih =>
    intro hps e h
    rw [parsePaths] at h
    split at h
    · rename_i e' he'
      cases h
      exact parsePath_spec n fuel p (hps p (by simp)) _ he'
    · split at h
      · rename_i e' he'
        cases h
        exact ih (fun q hq => hps q (by simp [hq])) _ he'
      · cases h

theorem tokenize_spec (s : Str) :
    (∀ e, tokenize s = .error e → ∃ p, e = .parsing (some p) "Unrecognized token." ∧ p < s.length) ∧
    (∀ ts, tokenize s = .ok ts → ∀ t ∈ ts, t.str ≠ [] ∧ (s.drop t.pos).take t.str.length = t.str ∧
        t.pos + t.str.length ≤ s.length) := by
  simpa [tokenize] using tokenizeAux_spec (s.length + 1) [] s (Nat.lt_succ_self _)

theorem parse_spec (s : Str) (e : Err) (h : parse s = .error e) :
    ErrOK s.length e ∧ ∀ msg, e ≠ .parsing none msg := by
  unfold parse at h
  simp only at h
  split at h
  · cases h
    exact ⟨Nat.zero_le _, fun msg hm => by cases hm⟩
  rename_i r hnot
  refine ⟨?_, fun msg hm => hnot msg (by rw [← hm]; exact h)⟩
  obtain ⟨htokE, htokO⟩ := tokenize_spec s
  split at h
  · rename_i e' he'
    cases h
    obtain ⟨p, rfl, hp⟩ := htokE _ he'
    exact Nat.le_of_lt hp
  rename_i toks htoks
  have hreal : ∀ t ∈ toks, RealTok s.length t := by
    intro t ht
    obtain ⟨h1, _, h3⟩ := htokO toks htoks t ht
    have : 0 < t.str.length := List.length_pos_iff.2 h1
    exact ⟨by omega, h3⟩
  obtain ⟨hgO, hgE⟩ := groupEnclosed_spec s.length (RealTok s.length) (fun t ht => ht.1) toks hreal
  split at h
  · rename_i e' he'
    cases h
    exact hgE _ he'
  rename_i tokens htokens
  have hwf := hgO tokens htokens
  have hpath : PathOK s.length (ttsSize tokens + 1) tokens :=
    ⟨hwf, fun g hg => by have := ttsSize_group_lt hg; omega⟩
  split at h
  · refine parsePaths_spec s.length _ _ (fun p hp => ⟨hwf.partition sepOK_PASEQ hp, fun g hg => ?_⟩) _ h
    exact hpath.2 g (partitionTokens_mem hp _ hg)
  · exact parsePaths_spec s.length _ _ (fun p hp => by simp at hp; subst hp; exact hpath) _ h

end Delb.XPath

import DelbModel.Lemmas.XPath.TokenTree
/-! helper lemmas for C16: `group_enclosed_expressions`, `expand_axes`, `partition_tokens` -/
namespace Delb.XPath

/-! ## grouping -/

def FramesOK (P : Token → Prop) (frames : List (Token × List TT)) : Prop :=
  ∀ f ∈ frames, isOpener f.1 = true ∧ P f.1 ∧ WF P f.2.reverse

theorem complement_of_opener {t : Token} (h : isOpener t = true) : ∃ c, complement t.type = some c := by
  simp [isOpener] at h
  rcases h with h | h <;> simp [h, complement]

theorem WF.single {P : Token → Prop} {t : Token} (h : P t) : WF P [.tok t] :=
  ⟨by simp [okSeq], by simpa using h, by simp, by simp⟩

theorem WF.items {P : Token → Prop} {op t : Token} {inner : List TT} (hop : isOpener op = true) (hopp : P op)
    (ht : isCloser t = true) (htp : P t) (hin : WF P inner.reverse) :
    WF P (if inner.isEmpty then [TT.tok op, TT.tok t] else [TT.tok op, TT.group inner.reverse, TT.tok t]) := by
  split
  · exact ⟨by simp [okSeq], by simp; exact ⟨hopp, htp⟩, by simp, by simp⟩
  · rename_i hne
    refine ⟨by simp [okSeq, hop, nextCloser, ht], ?_, ?_, ?_⟩
    · simp; exact ⟨hopp, htp⟩
    · simp; simpa using hne
    · simp; exact hin

theorem groupAux_spec (n : Nat) (P : Token → Prop) (hP : ∀ t, P t → t.pos < n) :
    ∀ (toks : List Token) (frames : List (Token × List TT)) (acc : List TT),
    (∀ t ∈ toks, P t) → FramesOK P frames → WF P acc.reverse →
    (∀ l, groupAux toks frames acc = .ok l → WF P l) ∧
    (∀ e, groupAux toks frames acc = .error e → ErrOK n e) := by
  intro toks
  induction toks with
  | nil =>
    intro frames acc _ hf hacc
    cases frames with
    | nil => simp [groupAux]; exact hacc
    | cons f frames =>
      obtain ⟨op, inner⟩ := f
      simp [groupAux, ErrOK]
      exact Nat.le_of_lt (hP _ (hf (op, inner) (by simp)).2.1)
  | cons t ts ih =>
    intro frames acc htoks hf hacc
    have htp : P t := htoks t (by simp)
    have htn := hP t htp
    have hts : ∀ t ∈ ts, P t := fun x hx => htoks x (by simp [hx])
    rw [groupAux.eq_def]
    simp only
    split
    · rename_i hop
      apply ih _ _ hts _ hacc
      intro f hfm
      rcases List.mem_cons.1 hfm with rfl | hfm
      · exact ⟨hop, htp, by simpa using WF.nil P⟩
      · exact hf f hfm
    · rename_i hop
      split
      · rename_i hcl
        cases frames with
        | nil => simp [ErrOK]; omega
        | cons f frames' =>
          obtain ⟨op, inner⟩ := f
          obtain ⟨hfo, hfp, hfi⟩ := hf (op, inner) (by simp)
          obtain ⟨c, hc⟩ := complement_of_opener hfo
          simp only [hc]
          split
          · simp [ErrOK]; omega
          · have hitems := WF.items hfo hfp hcl htp hfi
            cases frames' with
            | nil =>
              simp only
              apply ih _ _ hts (by intro f hf; cases hf)
              rw [List.reverse_append, List.reverse_reverse]
              exact hacc.append hitems
            | cons f' rest =>
              obtain ⟨op', inner'⟩ := f'
              simp only
              apply ih _ _ hts _ hacc
              intro f hfm
              rcases List.mem_cons.1 hfm with rfl | hfm
              · obtain ⟨h1, h2, h3⟩ := hf (op', inner') (by simp)
                refine ⟨h1, h2, ?_⟩
                simp only
                rw [List.reverse_append, List.reverse_reverse]
                exact h3.append hitems
              · exact hf f (by simp [hfm])
      · rename_i hcl
        have hop' : isOpener t = false := by simpa using hop
        cases frames with
        | nil =>
          simp only
          apply ih _ _ hts (by intro f hf; cases hf)
          rw [List.reverse_cons]
          exact hacc.append (WF.single htp)
        | cons f rest =>
          obtain ⟨op, inner⟩ := f
          simp only
          apply ih _ _ hts _ hacc
          intro f hfm
          rcases List.mem_cons.1 hfm with rfl | hfm
          · obtain ⟨h1, h2, h3⟩ := hf (op, inner) (by simp)
            refine ⟨h1, h2, ?_⟩
            simp only
            rw [List.reverse_cons]
            exact h3.append (WF.single htp)
          · exact hf f (by simp [hfm])

theorem groupEnclosed_spec (n : Nat) (P : Token → Prop) (hP : ∀ t, P t → t.pos < n) (toks : List Token)
    (h : ∀ t ∈ toks, P t) :
    (∀ l, groupEnclosed toks = .ok l → WF P l) ∧ (∀ e, groupEnclosed toks = .error e → ErrOK n e) :=
  groupAux_spec n P hP toks [] [] h (by intro f hf; cases hf) (by simpa using WF.nil P)

end Delb.XPath

import DelbModel.Lemmas.XPath.Expand
/-! helper lemmas for C16: patterns and `parse_evaluation_expression` -/
namespace Delb.XPath

/-! ## patterns -/

theorem comparePattern_tail {x : TT} {l : List TT} {q : Option TokType} {p : Pattern}
    (h : comparePattern (x :: l) (q :: p) = true) : comparePattern l p = true := by
  cases x <;> cases q <;> simp [comparePattern] at h ⊢
  · exact h.2
  · exact h

theorem comparePattern_tok : ∀ (l : List TT) (p : Pattern) (k : Nat) (ty : TokType),
    comparePattern l p = true → p[k]? = some (some ty) → k < l.length →
    ∃ t, l[k]? = some (.tok t) ∧ t.type = ty := by
  intro l
  induction l with
  | nil => intro p k ty _ _ hk; simp at hk
  | cons x l ih =>
    intro p k ty h hp hk
    cases p with
    | nil => simp at hp
    | cons q p =>
      cases k with
      | zero =>
        simp at hp; subst hp
        cases x with
        | tok t => simp [comparePattern] at h; exact ⟨t, rfl, h.1⟩
        | group g => simp [comparePattern] at h
      | succ k =>
        simp at hp hk ⊢
        exact ih p k ty (comparePattern_tail h) hp hk

theorem comparePattern_group : ∀ (l : List TT) (p : Pattern) (k : Nat),
    comparePattern l p = true → p[k]? = some none → k < l.length →
    ∃ g, l[k]? = some (.group g) := by
  intro l
  induction l with
  | nil => intro p k _ _ hk; simp at hk
  | cons x l ih =>
    intro p k h hp hk
    cases p with
    | nil => simp at hp
    | cons q p =>
      cases k with
      | zero =>
        simp at hp; subst hp
        cases x with
        | tok t => simp [comparePattern] at h
        | group g => exact ⟨g, rfl⟩
      | succ k =>
        simp at hp hk ⊢
        exact ih p k (comparePattern_tail h) hp hk

theorem allMatch_spec {l : List TT} {p : Pattern} (h : allMatch l p = true) :
    l.length = p.length ∧ comparePattern l p = true := by
  simpa [allMatch] using h

theorem initialMatch_spec {l : List TT} {p : Pattern} (h : initialMatch l p = true) :
    p.length ≤ l.length ∧ comparePattern l p = true := by
  simpa [initialMatch] using h

theorem getTok_eq {l : List TT} {k : Nat} {t : Token} (site : String) (h : l[k]? = some (.tok t)) :
    getTok l k site = .ok t := by simp [getTok, h]

theorem getGroup_eq {l : List TT} {k : Nat} {g : List TT} (site : String) (h : l[k]? = some (.group g)) :
    getGroup l k site = .ok g := by simp [getGroup, h]

theorem getLastTok_eq {l : List TT} {t : Token} (site : String) (h : l.getLast? = some (.tok t)) :
    getLastTok l site = .ok t := by simp [getLastTok, h]

/-! ## operators -/

theorem findOp_spec (op : TokType × String) : ∀ (l : List TT) (k i : Nat) (t : Token),
    findOp op k l = some (i, t) → k ≤ i ∧ l[i - k]? = some (.tok t) ∧ t.type = op.1 := by
  intro l
  induction l with
  | nil => intro k i t h; simp [findOp] at h
  | cons x l ih =>
    intro k i t h
    cases x with
    | tok u =>
      rw [findOp] at h
      split at h
      · rename_i hc
        simp at h; obtain ⟨rfl, rfl⟩ := h
        simp at hc
        simp [hc.1]
      · obtain ⟨h1, h2, h3⟩ := ih _ _ _ h
        refine ⟨by omega, ?_, h3⟩
        have : i - k = (i - (k+1)) + 1 := by omega
        rw [this]; simpa using h2
    | group g =>
      rw [findOp] at h
      obtain ⟨h1, h2, h3⟩ := ih _ _ _ h
      refine ⟨by omega, ?_, h3⟩
      have : i - k = (i - (k+1)) + 1 := by omega
      rw [this]; simpa using h2

theorem findFirstOp_spec (ts : List TT) : ∀ (ops : List (TokType × String)) (name : String) (i : Nat) (t : Token),
    findFirstOp ts ops = some (name, i, t) → ts[i]? = some (.tok t) ∧ ∃ op ∈ ops, t.type = op.1 := by
  intro ops
  induction ops with
  | nil => intro name i t h; simp [findFirstOp] at h
  | cons op ops ih =>
    intro name i t h
    rw [findFirstOp] at h
    split at h
    · rename_i j u hf
      simp at h; obtain ⟨_, rfl, rfl⟩ := h
      obtain ⟨_, h2, h3⟩ := findOp_spec op ts 0 _ _ hf
      exact ⟨by simpa using h2, op, by simp, h3⟩
    · obtain ⟨h1, op', hop', h3⟩ := ih _ _ _ h
      exact ⟨h1, op', by simp [hop'], h3⟩

theorem operator_nonbracket {ts : List TT} {name : String} {i : Nat} {t : Token}
    (h : findFirstOp ts operators = some (name, i, t)) :
    ts[i]? = some (.tok t) ∧ isOpener t = false ∧ isCloser t = false := by
  obtain ⟨h1, op, hop, h3⟩ := findFirstOp_spec ts _ _ _ _ h
  refine ⟨h1, ?_⟩
  simp [operators] at hop
  rcases hop with rfl | rfl | rfl | rfl | rfl | rfl | rfl | rfl <;> simp [isOpener, isCloser, h3, tokType_beq]

/-! ## `parseExpr` -/

abbrev PosLt (n : Nat) : Token → Prop := fun t => t.pos < n

theorem parseArgs_spec (n fuel : Nat)
    (hA : ∀ tokens, WF (PosLt n) tokens → ttsSize tokens < fuel → ∀ e, parseExpr fuel tokens = .error e → ErrOK n e) :
    ∀ ps : List (List TT), (∀ p ∈ ps, WF (PosLt n) p ∧ ttsSize p < fuel) →
      ∀ e, parseArgs fuel ps = .error e → ErrOK n e := by
  intro ps
  induction ps with
  | nil => intro _ e h; simp [parseArgs] at h
  | cons p ps ih =>
    intro hps e h
    rw [parseArgs] at h
    split at h
    · rename_i e' he'
      cases h
      exact hA p (hps p (by simp)).1 (hps p (by simp)).2 _ he'
    · split at h
      · rename_i e' he'
        cases h
        exact ih (fun q hq => hps q (by simp [hq])) _ he'
      · cases h

theorem parseExpr_spec (n : Nat) : ∀ fuel tokens, WF (PosLt n) tokens → ttsSize tokens < fuel →
    ∀ e, parseExpr fuel tokens = .error e → ErrOK n e := by
  intro fuel
  induction fuel with
  | zero => intro tokens _ h; omega
  | succ fuel ih =>
    intro tokens hwf hsz e h
    rw [parseExpr] at h
    split at h
    · cases h; trivial
    rename_i hne
    have hne' : tokens ≠ [] := by simpa using hne
    split at h
    · rename_i hm
      obtain ⟨hl, hc⟩ := allMatch_spec hm
      obtain ⟨t, ht, _⟩ := comparePattern_tok _ _ 0 _ hc rfl (by rw [hl]; decide)
      rw [getTok_eq _ ht] at h
      simp only at h
      split at h
      · cases h; exact Nat.le_of_lt (hwf.pos t (List.mem_of_getElem? ht))
      · cases h
    split at h
    · rename_i hm
      obtain ⟨hl, hc⟩ := allMatch_spec hm
      obtain ⟨t, ht, _⟩ := comparePattern_tok _ _ 0 _ hc rfl (by rw [hl]; decide)
      rw [getTok_eq _ ht] at h
      cases h
    split at h
    · rename_i hm
      obtain ⟨hl, hc⟩ := allMatch_spec hm
      obtain ⟨t, ht, _⟩ := comparePattern_tok _ _ 1 _ hc rfl (by rw [hl]; decide)
      rw [getTok_eq _ ht] at h
      cases h
    split at h
    · rename_i hm
      obtain ⟨hl, hc⟩ := allMatch_spec hm
      obtain ⟨t1, ht1, _⟩ := comparePattern_tok _ _ 1 _ hc rfl (by rw [hl]; decide)
      obtain ⟨t3, ht3, _⟩ := comparePattern_tok _ _ 3 _ hc rfl (by rw [hl]; decide)
      rw [getTok_eq _ ht1, getTok_eq _ ht3] at h
      cases h
    split at h
    · rename_i hm
      obtain ⟨hl, hc⟩ := allMatch_spec hm
      obtain ⟨t0, ht0, _⟩ := comparePattern_tok _ _ 0 _ hc rfl (by rw [hl]; decide)
      obtain ⟨g, hg⟩ := comparePattern_group _ _ 2 hc rfl (by rw [hl]; decide)
      rw [getTok_eq _ ht0, getGroup_eq _ hg] at h
      simp only at h
      have hgm : TT.group g ∈ tokens := List.mem_of_getElem? hg
      have hgw := (hwf.grp g hgm).2
      have hgs := ttsSize_group_lt hgm
      split at h
      · rename_i e' he'
        cases h
        refine parseArgs_spec n fuel ih _ (fun p hp => ⟨hgw.partition sepOK_COMMA hp, ?_⟩) _ he'
        have := partitionTokens_size hp
        omega
      · split at h
        · cases h; exact Nat.le_of_lt (hwf.pos t0 (List.mem_of_getElem? ht0))
        · cases h
    split at h
    · rename_i hm
      obtain ⟨hl, hc⟩ := allMatch_spec hm
      obtain ⟨t0, ht0, _⟩ := comparePattern_tok _ _ 0 _ hc rfl (by rw [hl]; decide)
      rw [getTok_eq _ ht0] at h
      simp only at h
      split at h
      · cases h; trivial
      · cases h
    split at h
    · rename_i hm
      obtain ⟨hl, hc⟩ := allMatch_spec hm
      obtain ⟨g, hg⟩ := comparePattern_group _ _ 1 hc rfl (by rw [hl]; decide)
      rw [getGroup_eq _ hg] at h
      simp only at h
      have hgm : TT.group g ∈ tokens := List.mem_of_getElem? hg
      have hgs := ttsSize_group_lt hgm
      exact ih g (hwf.grp g hgm).2 (by omega) e h
    split at h
    · rename_i op i t hf
      obtain ⟨hi, ho, hcl⟩ := operator_nonbracket hf
      have htm : TT.tok t ∈ tokens := List.mem_of_getElem? hi
      split at h
      · cases h; exact Nat.le_of_lt (hwf.pos t htm)
      · obtain ⟨hw1, hw2⟩ := hwf.take_drop hi ho hcl
        have hsp := ttsSize_split hi
        simp only [ttSize_tok] at hsp
        split at h
        · rename_i e' he'
          cases h
          exact ih _ hw1 (by omega) _ he'
        · split at h
          · rename_i e' he'
            cases h
            exact ih _ hw2 (by omega) _ he'
          · split at h <;> cases h
    · obtain ⟨t, ht, htp⟩ := hwf.head hne'
      rw [getTok_eq _ ht] at h
      cases h
      exact Nat.le_of_lt htp


end Delb.XPath

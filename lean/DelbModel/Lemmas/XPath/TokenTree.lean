import DelbModel.Model.XPath.Parser
/-! helper lemmas for C16: shape invariant of token trees -/
namespace Delb.XPath

/-! ## error classification -/

/-- the acceptable errors: parsing errors / unsupported with a position `≤ n` (or none yet) -/
def ErrOK (n : Nat) : Err → Prop
  | .parsing none _ => True
  | .parsing (some p) _ => p ≤ n
  | .unsupported p _ => p ≤ n
  | .pyError _ _ => False
  | .outOfFuel => False

theorem tokType_beq (a b : TokType) : (a == b) = decide (a = b) := rfl

/-! ## sizes -/

@[simp] theorem ttsSize_nil : ttsSize [] = 0 := by simp [ttsSize]
@[simp] theorem ttsSize_cons (x : TT) (l : List TT) : ttsSize (x :: l) = ttSize x + ttsSize l := by
  simp [ttsSize]
@[simp] theorem ttSize_tok (t : Token) : ttSize (.tok t) = 1 := by simp [ttSize]
@[simp] theorem ttSize_group (g : List TT) : ttSize (.group g) = 1 + ttsSize g := by simp [ttSize]

theorem ttSize_pos (x : TT) : 1 ≤ ttSize x := by cases x <;> simp

@[simp] theorem ttsSize_append (a b : List TT) : ttsSize (a ++ b) = ttsSize a + ttsSize b := by
  induction a with
  | nil => simp
  | cons x a ih => simp [ih]; omega

@[simp] theorem ttsSize_reverse (a : List TT) : ttsSize a.reverse = ttsSize a := by
  induction a with
  | nil => simp
  | cons x a ih => simp [ih]; omega

theorem length_le_ttsSize (l : List TT) : l.length ≤ ttsSize l := by
  induction l with
  | nil => simp
  | cons x l ih => have := ttSize_pos x; simp; omega

theorem ttSize_le_of_mem {x : TT} {l : List TT} (h : x ∈ l) : ttSize x ≤ ttsSize l := by
  induction l with
  | nil => cases h
  | cons y l ih =>
    rcases List.mem_cons.1 h with rfl | h
    · simp
    · have := ih h; simp; omega

theorem ttsSize_group_lt {g l : List TT} (h : TT.group g ∈ l) : ttsSize g < ttsSize l := by
  have := ttSize_le_of_mem h; simp at this; omega

theorem ttsSize_split {l : List TT} {i : Nat} {x : TT} (h : l[i]? = some x) :
    ttsSize l = ttsSize (l.take i) + ttSize x + ttsSize (l.drop (i+1)) := by
  induction l generalizing i with
  | nil => simp at h
  | cons y l ih =>
    cases i with
    | zero => simp at h; subst h; simp
    | succ i => simp at h; have := ih h; simp; omega

/-! ## local shape of token-tree lists -/

def nextCloser : List TT → Bool
  | .tok c :: _ => isCloser c
  | _ => false

/-- no group at the start unless `b`; every group sits between an opener and a closer token -/
def okSeq : Bool → List TT → Bool
  | _, [] => true
  | _, .tok t :: rest => okSeq (isOpener t) rest
  | b, .group _ :: rest => b && nextCloser rest && okSeq false rest

theorem okSeq_mono {b : Bool} {l : List TT} (h : okSeq false l = true) : okSeq b l = true := by
  cases l with
  | nil => simp [okSeq]
  | cons x l => cases x <;> simp_all [okSeq]

theorem nextCloser_append {l : List TT} (m : List TT) (h : nextCloser l = true) : nextCloser (l ++ m) = true := by
  cases l with
  | nil => simp [nextCloser] at h
  | cons x l => cases x <;> simp_all [nextCloser]

theorem okSeq_append {b : Bool} {l m : List TT} (hl : okSeq b l = true) (hm : okSeq false m = true) :
    okSeq b (l ++ m) = true := by
  induction l generalizing b with
  | nil => simpa using okSeq_mono hm
  | cons x l ih =>
    cases x with
    | tok t => simp [okSeq] at hl ⊢; exact ih hl
    | group g =>
      simp [okSeq] at hl ⊢
      exact ⟨⟨hl.1.1, nextCloser_append m hl.1.2⟩, ih hl.2⟩

theorem okSeq_split {b : Bool} {a m : List TT} {t : Token} (ho : isOpener t = false) (hc : isCloser t = false)
    (h : okSeq b (a ++ .tok t :: m) = true) : okSeq b a = true ∧ okSeq false m = true := by
  induction a generalizing b with
  | nil => simpa [okSeq, ho] using h
  | cons x a ih =>
    cases x with
    | tok u => simp [okSeq] at h ⊢; exact ih h
    | group g =>
      simp [okSeq] at h ⊢
      obtain ⟨⟨hb, hn⟩, hr⟩ := h
      have := ih hr
      refine ⟨⟨⟨hb, ?_⟩, this.1⟩, this.2⟩
      cases a with
      | nil => simp [nextCloser, hc] at hn
      | cons y a => cases y <;> simp_all [nextCloser]

theorem okSeq_tail {b : Bool} {x : TT} {l : List TT} (h : okSeq b (x :: l) = true) : ∃ b', okSeq b' l = true := by
  cases x with
  | tok t => exact ⟨_, by simpa [okSeq] using h⟩
  | group g => simp [okSeq] at h; exact ⟨_, h.2⟩

theorem okSeq_drop_succ {b : Bool} {l : List TT} {k : Nat} {t : Token} (h : okSeq b l = true)
    (hk : l[k]? = some (.tok t)) (ho : isOpener t = false) : okSeq false (l.drop (k+1)) = true := by
  induction l generalizing b k with
  | nil => simp at hk
  | cons x l ih =>
    cases k with
    | zero => simp at hk; subst hk; simpa [okSeq, ho] using h
    | succ k =>
      simp at hk
      obtain ⟨b', hb'⟩ := okSeq_tail h
      simpa using ih hb' hk

theorem okSeq_head {l : List TT} (h : okSeq false l = true) (hne : l ≠ []) : ∃ t, l[0]? = some (.tok t) := by
  cases l with
  | nil => exact absurd rfl hne
  | cons x l => cases x with
    | tok t => exact ⟨t, rfl⟩
    | group g => simp [okSeq] at h

theorem okSeq_last {b : Bool} {l : List TT} (h : okSeq b l = true) (hne : l ≠ []) :
    ∃ t, l.getLast? = some (.tok t) := by
  induction l generalizing b with
  | nil => exact absurd rfl hne
  | cons x l ih =>
    cases l with
    | nil =>
      cases x with
      | tok t => exact ⟨t, rfl⟩
      | group g => simp [okSeq, nextCloser] at h
    | cons y l =>
      obtain ⟨b', hb'⟩ := okSeq_tail h
      obtain ⟨t, ht⟩ := ih hb' (by simp)
      exact ⟨t, by simpa [List.getLast?_cons_cons] using ht⟩

/-! ## the well-formedness invariant -/

/-- well-formed token trees whose tokens all satisfy `P` -/
inductive WF (P : Token → Prop) : List TT → Prop
  | mk {l : List TT} : okSeq false l = true → (∀ t, TT.tok t ∈ l → P t) →
      (∀ g, TT.group g ∈ l → g ≠ []) → (∀ g, TT.group g ∈ l → WF P g) → WF P l

theorem WF.ok {P l} (h : WF P l) : okSeq false l = true := by cases h; assumption
theorem WF.pos {P l} (h : WF P l) : ∀ t, TT.tok t ∈ l → P t := by cases h; assumption
theorem WF.grp {P l} (h : WF P l) : ∀ g, TT.group g ∈ l → g ≠ [] ∧ WF P g := by
  cases h with
  | mk _ _ h1 h2 => exact fun g hg => ⟨h1 g hg, h2 g hg⟩

theorem WF.mono {P Q : Token → Prop} (hPQ : ∀ t, P t → Q t) {l : List TT} (h : WF P l) : WF Q l := by
  induction h with
  | mk hok hpos hne _ ih => exact ⟨hok, fun t ht => hPQ t (hpos t ht), hne, ih⟩

theorem WF.nil (P : Token → Prop) : WF P [] := ⟨by simp [okSeq], by simp, by simp, by simp⟩

theorem WF.sub {P : Token → Prop} {l m : List TT} (h : WF P l) (hok : okSeq false m = true) (hs : ∀ x ∈ m, x ∈ l) :
    WF P m :=
  ⟨hok, fun t ht => h.pos t (hs _ ht), fun g hg => (h.grp g (hs _ hg)).1, fun g hg => (h.grp g (hs _ hg)).2⟩

theorem WF.append {P : Token → Prop} {l m : List TT} (hl : WF P l) (hm : WF P m) : WF P (l ++ m) :=
  ⟨okSeq_append hl.ok hm.ok,
   fun t ht => by rcases List.mem_append.1 ht with h | h; exact hl.pos t h; exact hm.pos t h,
   fun g hg => by rcases List.mem_append.1 hg with h | h; exact (hl.grp g h).1; exact (hm.grp g h).1,
   fun g hg => by rcases List.mem_append.1 hg with h | h; exact (hl.grp g h).2; exact (hm.grp g h).2⟩

theorem split_at {α} {l : List α} {i : Nat} {x : α} (h : l[i]? = some x) : l = l.take i ++ x :: l.drop (i+1) := by
  induction l generalizing i with
  | nil => simp at h
  | cons y l ih =>
    cases i with
    | zero => simp at h; subst h; simp
    | succ i => simp at h; simpa using ih h

theorem WF.take_drop {P : Token → Prop} {l : List TT} {i : Nat} {t : Token} (h : WF P l) (hi : l[i]? = some (.tok t))
    (ho : isOpener t = false) (hc : isCloser t = false) : WF P (l.take i) ∧ WF P (l.drop (i+1)) := by
  have hs := split_at hi
  have hok := h.ok
  rw [hs] at hok
  obtain ⟨h1, h2⟩ := okSeq_split ho hc hok
  exact ⟨h.sub h1 (fun _ hx => List.mem_of_mem_take hx), h.sub h2 (fun _ hx => List.mem_of_mem_drop hx)⟩

theorem WF.drop_succ {P : Token → Prop} {l : List TT} {k : Nat} {t : Token} (h : WF P l) (hk : l[k]? = some (.tok t))
    (ho : isOpener t = false) : WF P (l.drop (k+1)) :=
  h.sub (okSeq_drop_succ h.ok hk ho) (fun _ hx => List.mem_of_mem_drop hx)

theorem WF.head {P : Token → Prop} {l : List TT} (h : WF P l) (hne : l ≠ []) : ∃ t, l[0]? = some (.tok t) ∧ P t := by
  obtain ⟨t, ht⟩ := okSeq_head h.ok hne
  exact ⟨t, ht, h.pos t (List.mem_of_getElem? ht)⟩

theorem WF.last {P : Token → Prop} {l : List TT} (h : WF P l) (hne : l ≠ []) :
    ∃ t, l.getLast? = some (.tok t) ∧ P t := by
  obtain ⟨t, ht⟩ := okSeq_last h.ok hne
  exact ⟨t, ht, h.pos t (List.mem_of_getLast? ht)⟩

end Delb.XPath

import DelbModel.Model.XPath.Tokenizer
/-! helper lemmas for C16: tokenizer -/
namespace Delb.XPath

theorem scanString_le (d : Char) : ∀ (cs : List Char) (n : Nat), scanString d cs = some n → n ≤ cs.length := by
  intro cs
  induction cs using scanString.induct d with
  | case1 => intro n h; unfold scanString at h; simp at h
  | case2 cs => intro n h; unfold scanString at h; simp at h; subst h; simp
  | case3 c hc he => intro n h; unfold scanString at h; simp [hc, he] at h
  | case4 c hc he e cs' hn => intro n h; unfold scanString at h; simp [hc, he, hn] at h
  | case5 c hc he e cs' hn ih =>
    intro n h
    unfold scanString at h
    simp [hc, he, hn] at h
    obtain ⟨m, hm, rfl⟩ := h
    have := ih m hm
    simp; omega
  | case6 c cs hc he ih =>
    intro n h
    unfold scanString at h
    simp [hc, he] at h
    obtain ⟨m, hm, rfl⟩ := h
    have := ih m hm
    simp; omega

theorem isPrefixOf_length_le {α} [BEq α] : ∀ (l cs : List α), l.isPrefixOf cs = true → l.length ≤ cs.length
  | [], _, _ => by simp
  | _ :: _, [], h => by simp [List.isPrefixOf] at h
  | a :: l, c :: cs, h => by
    simp [List.isPrefixOf] at h
    have := isPrefixOf_length_le l cs h.2
    simp; omega

theorem matchLiteral_bounds (cs : List Char) : ∀ (tbl : List (List Char × String)) (n : Nat) (ty : TokType),
    matchLiteral cs tbl = some (n, ty) → 1 ≤ n ∧ n ≤ cs.length := by
  intro tbl
  induction tbl with
  | nil => intro n ty h; simp [matchLiteral] at h
  | cons hd tl ih =>
    intro n ty h
    obtain ⟨lit, g⟩ := hd
    unfold matchLiteral at h
    split at h
    · rename_i hc
      split at h
      · simp at h
        obtain ⟨rfl, _⟩ := h
        refine ⟨?_, isPrefixOf_length_le _ _ hc.2⟩
        cases lit with
        | nil => exact absurd rfl hc.1
        | cons _ _ => simp
      · exact ih n ty h
    · exact ih n ty h

theorem takeWhile_length_le {α} (p : α → Bool) (l : List α) : (l.takeWhile p).length ≤ l.length :=
  (List.takeWhile_sublist p).length_le

theorem grab_bounds (cs : List Char) (n : Nat) (ty : TokType) (h : grab cs = some (n, ty)) :
    1 ≤ n ∧ n ≤ cs.length := by
  unfold grab at h
  split at h
  · simp at h
  · rename_i c rest
    split at h
    · rename_i m hm
      simp at h
      obtain ⟨rfl, _⟩ := h
      split at hm
      · have := scanString_le c rest m hm
        simp; omega
      · simp at hm
    · split at h
      · simp at h; obtain ⟨rfl, _⟩ := h
        have := takeWhile_length_le isDigit rest
        simp; omega
      · split at h
        · simp at h; obtain ⟨rfl, _⟩ := h
          have := takeWhile_length_le isNameChar rest
          simp; omega
        · split at h
          · rename_i r hr
            simp at h; subst h
            exact matchLiteral_bounds _ _ _ _ hr
          · split at h
            · simp at h; obtain ⟨rfl, _⟩ := h
              have := takeWhile_length_le isTokWs rest
              simp; omega
            · simp at h

/-- invariant of the tokenizer loop relative to the whole input `pre ++ cs` -/
theorem tokenizeAux_spec : ∀ (fuel : Nat) (pre cs : List Char), cs.length < fuel →
    (∀ e, tokenizeAux fuel pre.length cs = .error e →
        ∃ p, e = .parsing (some p) "Unrecognized token." ∧ p < (pre ++ cs).length) ∧
    (∀ ts, tokenizeAux fuel pre.length cs = .ok ts →
        ∀ t ∈ ts, t.str ≠ [] ∧ ((pre ++ cs).drop t.pos).take t.str.length = t.str ∧
          t.pos + t.str.length ≤ (pre ++ cs).length) := by
  intro fuel
  induction fuel with
  | zero => intro pre cs h; omega
  | succ fuel ih =>
    intro pre cs hf
    cases cs with
    | nil => simp [tokenizeAux]
    | cons c rest =>
      rw [tokenizeAux]
      cases hg : grab (c :: rest) with
      | none =>
        simp
      | some r =>
        obtain ⟨n, ty⟩ := r
        obtain ⟨h1, h2⟩ := grab_bounds _ _ _ hg
        have hsplit : pre ++ c :: rest = (pre ++ (c :: rest).take n) ++ (c :: rest).drop n := by
          rw [List.append_assoc, List.take_append_drop]
        have hlen : (pre ++ (c :: rest).take n).length = pre.length + n := by
          simp only [List.length_append, List.length_take, List.length_cons] at h2 ⊢; omega
        have hdl : ((c :: rest).drop n).length < fuel := by
          rw [List.length_drop]; simp only [List.length_cons] at hf h2 ⊢; omega
        have ih' := ih (pre ++ (c :: rest).take n) ((c :: rest).drop n) hdl
        rw [hlen, ← hsplit] at ih'
        obtain ⟨ihe, iho⟩ := ih'
        simp only
        cases hr : tokenizeAux fuel (pre.length + n) (List.drop n (c :: rest)) with
        | error e =>
          simp only
          refine ⟨fun e' he' => ?_, fun ts hts => by cases hts⟩
          cases he'
          exact ihe e hr
        | ok ts =>
          simp only
          refine ⟨fun e' he' => (by split at he' <;> cases he'), fun ts' hts' => ?_⟩
          have iho' := iho ts hr
          split at hts'
          · cases hts'; exact iho'
          · cases hts'
            intro t ht
            rcases List.mem_cons.1 ht with rfl | ht
            · simp only
              have htl : ((c :: rest).take n).length = n := by
                simp [List.length_take]; simp at h2; omega
              refine ⟨?_, ?_, ?_⟩
              · intro h0; rw [h0] at htl; simp at htl; omega
              · rw [htl, List.drop_append_of_le_length (by omega)]
                simp [List.drop_length]
              · rw [htl]; simp at h2 ⊢; omega
            · exact iho' t ht

end Delb.XPath

import DelbModel.Lemmas.XPath.TokenTree
/-! helper lemmas for C16: `expand_axes`, `partition_tokens` -/
namespace Delb.XPath

/-! ## `expandAxes` -/

@[simp] theorem expandAxes_nil : expandAxes [] = [] := by simp [expandAxes]
@[simp] theorem expandAxes_tok (t : Token) (ts : List TT) :
    expandAxes (.tok t :: ts) = expandOne t ++ expandAxes ts := by simp [expandAxes]
@[simp] theorem expandAxes_group (g : List TT) (ts : List TT) :
    expandAxes (.group g :: ts) = .group g :: expandAxes ts := by simp [expandAxes]

theorem okSeq_expandOne (b : Bool) (t : Token) (m : List TT) :
    okSeq b (expandOne t ++ m) = okSeq (isOpener t) m := by
  cases h : t.type <;> simp [expandOne, h, okSeq, isOpener, tokType_beq]

theorem nextCloser_expandOne (t : Token) (m : List TT) :
    nextCloser (expandOne t ++ m) = isCloser t := by
  cases h : t.type <;> simp [expandOne, h, nextCloser, isCloser, tokType_beq]

theorem nextCloser_expandAxes (l : List TT) : nextCloser (expandAxes l) = nextCloser l := by
  cases l with
  | nil => simp
  | cons x l =>
    cases x with
    | tok t => rw [expandAxes_tok, nextCloser_expandOne]; simp [nextCloser]
    | group g => simp [nextCloser]

theorem okSeq_expandAxes (b : Bool) (l : List TT) : okSeq b (expandAxes l) = okSeq b l := by
  induction l generalizing b with
  | nil => simp
  | cons x l ih =>
    cases x with
    | tok t => simp [okSeq_expandOne, okSeq, ih]
    | group g => simp [okSeq, ih, nextCloser_expandAxes]

theorem expandOne_ne_nil (t : Token) : expandOne t ≠ [] := by
  cases h : t.type <;> simp [expandOne, h]

theorem expandAxes_ne_nil {l : List TT} (h : l ≠ []) : expandAxes l ≠ [] := by
  cases l with
  | nil => exact absurd rfl h
  | cons x l => cases x <;> simp [expandOne_ne_nil]

theorem mem_expandOne {t : Token} {x : TT} (h : x ∈ expandOne t) : ∃ u, x = .tok u ∧ u.pos = t.pos := by
  cases ht : t.type <;> simp [expandOne, ht] at h <;>
    first
    | (subst h; exact ⟨_, rfl, rfl⟩)
    | (rcases h with h | h | h | h | h | h | h <;> subst h <;> exact ⟨_, rfl, rfl⟩)
    | (rcases h with h | h | h | h | h <;> subst h <;> exact ⟨_, rfl, rfl⟩)

theorem mem_expandAxes {l : List TT} {x : TT} (h : x ∈ expandAxes l) :
    (∃ g, x = .group g ∧ .group g ∈ l) ∨ (∃ u t, x = .tok u ∧ .tok t ∈ l ∧ u.pos = t.pos) := by
  induction l with
  | nil => simp at h
  | cons y l ih =>
    cases y with
    | tok t =>
      simp at h
      rcases h with h | h
      · obtain ⟨u, rfl, hu⟩ := mem_expandOne h
        exact Or.inr ⟨u, t, rfl, by simp, hu⟩
      · rcases ih h with ⟨g, rfl, hg⟩ | ⟨u, t', rfl, ht', hu⟩
        · exact Or.inl ⟨g, rfl, by simp [hg]⟩
        · exact Or.inr ⟨u, t', rfl, by simp [ht'], hu⟩
    | group g =>
      simp at h
      rcases h with rfl | h
      · exact Or.inl ⟨g, rfl, by simp⟩
      · rcases ih h with ⟨g', rfl, hg⟩ | ⟨u, t', rfl, ht', hu⟩
        · exact Or.inl ⟨g', rfl, by simp [hg]⟩
        · exact Or.inr ⟨u, t', rfl, by simp [ht'], hu⟩

theorem group_mem_expandAxes {l g : List TT} (h : TT.group g ∈ expandAxes l) : TT.group g ∈ l := by
  rcases mem_expandAxes h with ⟨g', hg, hm⟩ | ⟨u, t, hx, _⟩
  · cases hg; exact hm
  · cases hx

theorem WF.expandAxes {P : Token → Prop} (hP : ∀ t u : Token, P t → u.pos = t.pos → P u) {l : List TT}
    (h : WF P l) : WF P (expandAxes l) := by
  refine ⟨by rw [okSeq_expandAxes]; exact h.ok, ?_, ?_, ?_⟩
  · intro u hu
    rcases mem_expandAxes hu with ⟨g', hg, _⟩ | ⟨u', t, hx, ht, hpos⟩
    · cases hg
    · cases hx; exact hP t _ (h.pos t ht) hpos
  · intro g hg; exact (h.grp g (group_mem_expandAxes hg)).1
  · intro g hg; exact (h.grp g (group_mem_expandAxes hg)).2

/-- every `::` token is either a real one (`R`) or followed by something that is not a `/` -/
def axOK (R : Token → Prop) : List TT → Prop
  | [] => True
  | .tok t :: rest =>
    (t.type = .AXIS_SEPARATOR → R t ∨ ∃ x, rest.head? = some x ∧ isSep .SLASH x = false) ∧ axOK R rest
  | .group _ :: rest => axOK R rest

theorem axOK_expandOne {R : Token → Prop} (t : Token) (m : List TT) (ht : R t) (hm : axOK R m) :
    axOK R (expandOne t ++ m) := by
  cases h : t.type <;> simp [expandOne, h, axOK, hm, isSep, tokType_beq]
  all_goals first | exact Or.inl ht | exact fun _ => Or.inl ht

theorem axOK_expandAxes {R : Token → Prop} {l : List TT} (h : ∀ t, TT.tok t ∈ l → R t) :
    axOK R (expandAxes l) := by
  induction l with
  | nil => simp [axOK]
  | cons x l ih =>
    have ih' := ih (fun t ht => h t (by simp [ht]))
    cases x with
    | tok t => simp; exact axOK_expandOne t _ (h t (by simp)) ih'
    | group g => simpa [axOK] using ih'

theorem axOK_split {R : Token → Prop} {a m : List TT} {t : Token} (ht : t.type = .SLASH)
    (h : axOK R (a ++ .tok t :: m)) : axOK R a ∧ axOK R m := by
  induction a with
  | nil => simp [axOK] at h; exact ⟨by simp [axOK], h.2⟩
  | cons x a ih =>
    cases x with
    | tok u =>
      rw [List.cons_append, axOK] at h
      rw [axOK]
      obtain ⟨h1, h2⟩ := h
      obtain ⟨ih1, ih2⟩ := ih h2
      refine ⟨⟨fun hu => ?_, ih1⟩, ih2⟩
      rcases h1 hu with h | ⟨x, hx, hs⟩
      · exact Or.inl h
      · cases a with
        | nil =>
          rw [List.nil_append, List.head?_cons] at hx
          cases hx; simp [isSep, ht] at hs
        | cons y a => exact Or.inr ⟨x, hx, hs⟩
    | group g => simpa [axOK] using ih (by simpa [axOK] using h)

/-! ## `partitionTokens` -/

theorem isSep_true {sep : TokType} {x : TT} (h : isSep sep x = true) : ∃ t, x = .tok t ∧ t.type = sep := by
  cases x with
  | tok t => exact ⟨t, rfl, by simpa [isSep] using h⟩
  | group g => simp [isSep] at h

theorem partitionAux_mem {sep : TokType} : ∀ (rest cur p : List TT), p ∈ partitionAux sep cur rest →
    ∀ x ∈ p, x ∈ cur ∨ x ∈ rest := by
  intro rest
  induction rest with
  | nil => intro cur p hp x hx; simp [partitionAux] at hp; subst hp; simpa using hx
  | cons y rest ih =>
    intro cur p hp x hx
    rw [partitionAux] at hp
    split at hp
    · split at hp
      · rcases ih _ _ hp x hx with h | h
        · simp at h
        · exact Or.inr (by simp [h])
      · rcases List.mem_cons.1 hp with rfl | hp
        · exact Or.inl (by simpa using hx)
        · rcases ih _ _ hp x hx with h | h
          · simp at h
          · exact Or.inr (by simp [h])
    · rcases ih _ _ hp x hx with h | h
      · rcases List.mem_cons.1 h with rfl | h
        · exact Or.inr (by simp)
        · exact Or.inl h
      · exact Or.inr (by simp [h])

theorem partitionTokens_mem {sep : TokType} {l p : List TT} (hp : p ∈ partitionTokens sep l) :
    ∀ x ∈ p, x ∈ l := by
  intro x hx
  rcases partitionAux_mem l [] p hp x hx with h | h
  · simp at h
  · exact h

/-- a separator type that is not a bracket -/
def SepOK (sep : TokType) : Prop := ∀ t : Token, t.type = sep → isOpener t = false ∧ isCloser t = false

theorem partitionAux_ok {sep : TokType} (hsep : SepOK sep) : ∀ (rest cur p : List TT),
    okSeq false (cur.reverse ++ rest) = true → p ∈ partitionAux sep cur rest → okSeq false p = true := by
  intro rest
  induction rest with
  | nil => intro cur p h hp; simp [partitionAux] at hp; subst hp; simpa using h
  | cons y rest ih =>
    intro cur p h hp
    rw [partitionAux] at hp
    split at hp
    · rename_i hs
      obtain ⟨t, rfl, ht⟩ := isSep_true hs
      obtain ⟨h1, h2⟩ := okSeq_split (hsep t ht).1 (hsep t ht).2 h
      split at hp
      · exact ih [] p (by simpa using h2) hp
      · rcases List.mem_cons.1 hp with rfl | hp
        · exact h1
        · exact ih [] p (by simpa using h2) hp
    · exact ih _ p (by simpa using h) hp

theorem partitionAux_size {sep : TokType} : ∀ (rest cur p : List TT), p ∈ partitionAux sep cur rest →
    ttsSize p ≤ ttsSize cur + ttsSize rest := by
  intro rest
  induction rest with
  | nil => intro cur p hp; simp [partitionAux] at hp; subst hp; simp
  | cons y rest ih =>
    intro cur p hp
    rw [partitionAux] at hp
    split at hp
    · split at hp
      · have := ih _ _ hp; simp at this ⊢; omega
      · rcases List.mem_cons.1 hp with rfl | hp
        · simp
        · have := ih _ _ hp; simp at this ⊢; omega
    · have := ih _ _ hp; simp at this ⊢; omega

theorem partitionTokens_size {sep : TokType} {l p : List TT} (hp : p ∈ partitionTokens sep l) :
    ttsSize p ≤ ttsSize l := by
  simpa using partitionAux_size l [] p hp

theorem WF.partition {P : Token → Prop} {sep : TokType} (hsep : SepOK sep) {l p : List TT} (h : WF P l)
    (hp : p ∈ partitionTokens sep l) : WF P p :=
  h.sub (partitionAux_ok hsep l [] p (by simpa using h.ok) hp) (partitionTokens_mem hp)

theorem partitionAux_axOK {R : Token → Prop} : ∀ (rest cur p : List TT),
    axOK R (cur.reverse ++ rest) → p ∈ partitionAux .SLASH cur rest → axOK R p := by
  intro rest
  induction rest with
  | nil => intro cur p h hp; simp [partitionAux] at hp; subst hp; simpa using h
  | cons y rest ih =>
    intro cur p h hp
    rw [partitionAux] at hp
    split at hp
    · rename_i hs
      obtain ⟨t, rfl, ht⟩ := isSep_true hs
      obtain ⟨h1, h2⟩ := axOK_split ht h
      split at hp
      · exact ih [] p (by simpa using h2) hp
      · rcases List.mem_cons.1 hp with rfl | hp
        · exact h1
        · exact ih [] p (by simpa using h2) hp
    · exact ih _ p (by simpa using h) hp

theorem partitionTokens_axOK {R : Token → Prop} {l p : List TT} (h : axOK R l)
    (hp : p ∈ partitionTokens .SLASH l) : axOK R p :=
  partitionAux_axOK l [] p (by simpa using h) hp

theorem sepOK_SLASH : SepOK .SLASH := by intro t h; simp [isOpener, isCloser, h]
theorem sepOK_COMMA : SepOK .COMMA := by intro t h; simp [isOpener, isCloser, h]
theorem sepOK_PASEQ : SepOK .PASEQ := by intro t h; simp [isOpener, isCloser, h]

end Delb.XPath

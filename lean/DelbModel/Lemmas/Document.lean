import DelbModel.Model.Document
/-! helper lemmas for Props/C12.lean -/
namespace Delb.Doc
open Delb.Ser

/-! ## the shape of `docPieces` -/

theorem flatMap_shift (nl : List DPiece) (l : List Node) :
    nl ++ l.flatMap (fun n => DPiece.misc n :: nl) = l.flatMap (fun n => nl ++ [DPiece.misc n]) ++ nl := by
  induction l with
  | nil => simp
  | cons x xs ih =>
    simp only [List.flatMap_cons, List.append_assoc]
    rw [← ih]; simp

/-- `docPieces` without the case distinction on the last epilogue member -/
theorem docPieces_eq (f : Bool) (enc : String) (d : Document) (rs : Str) :
    docPieces f enc d rs
      = [.decl (upper enc)] ++ (if f then [DPiece.newline] else [])
        ++ d.prologue.flatMap (fun n => DPiece.misc n :: (if f then [DPiece.newline] else []))
        ++ [.root rs]
        ++ d.epilogue.flatMap (fun n => (if f then [DPiece.newline] else []) ++ [DPiece.misc n]) := by
  obtain ⟨pro, root, epi⟩ := d
  rcases List.eq_nil_or_concat epi with h | ⟨init, last, h⟩
  · subst h; simp [docPieces]
  · subst h
    simp only [docPieces]
    rw [flatMap_shift]; simp

theorem flatMap_singleton_misc (l : List Node) :
    l.flatMap (fun n => [DPiece.misc n]) = l.map DPiece.misc := by
  induction l with
  | nil => rfl
  | cons x xs ih => simp [ih]

theorem docPieces_false (enc : String) (d : Document) (rs : Str) :
    docPieces false enc d rs
      = .decl (upper enc) :: (d.prologue.map DPiece.misc ++ .root rs :: d.epilogue.map DPiece.misc) := by
  rw [docPieces_eq]; simp [flatMap_singleton_misc]

theorem docPieces_true (enc : String) (d : Document) (rs : Str) :
    docPieces true enc d rs
      = .decl (upper enc) :: .newline :: (d.prologue.flatMap (fun n => [DPiece.misc n, .newline])
          ++ .root rs :: d.epilogue.flatMap (fun n => [DPiece.newline, .misc n])) := by
  rw [docPieces_eq]; simp

/-! ## interspersing -/

theorem intersperse_cons_map (sep a : DPiece) (l : List Node) :
    (a :: l.map DPiece.misc).intersperse sep = a :: l.flatMap (fun n => [sep, DPiece.misc n]) := by
  induction l generalizing a with
  | nil => simp
  | cons x xs ih => simp [ih]

theorem intersperse_map_append (sep a : DPiece) (pro epi : List Node) :
    (pro.map DPiece.misc ++ a :: epi.map DPiece.misc).intersperse sep
      = pro.flatMap (fun n => [DPiece.misc n, sep]) ++ a :: epi.flatMap (fun n => [sep, DPiece.misc n]) := by
  induction pro with
  | nil => simpa using intersperse_cons_map sep a epi
  | cons x xs ih =>
    cases xs with
    | nil => simpa using intersperse_cons_map sep a epi
    | cons y ys => simpa using ih

/-! ## filtering the separators -/

theorem filter_misc (p : DPiece → Bool) (hm : ∀ n, p (.misc n) = true) (l : List Node) :
    (l.map DPiece.misc).filter p = l.map DPiece.misc := by
  rw [List.filter_eq_self]; intro x hx
  obtain ⟨n, _, rfl⟩ := List.mem_map.1 hx; exact hm n

theorem filter_misc_nl (p : DPiece → Bool) (hm : ∀ n, p (.misc n) = true) (hn : p .newline = false)
    (l : List Node) :
    (l.flatMap (fun n => [DPiece.misc n, .newline])).filter p = l.map DPiece.misc := by
  induction l with
  | nil => rfl
  | cons x xs ih => simp [hm, hn, ih]

theorem filter_nl_misc (p : DPiece → Bool) (hm : ∀ n, p (.misc n) = true) (hn : p .newline = false)
    (l : List Node) :
    (l.flatMap (fun n => [DPiece.newline, .misc n])).filter p = l.map DPiece.misc := by
  induction l with
  | nil => rfl
  | cons x xs ih => simp [hm, hn, ih]

/-- the pieces after the declaration, separators removed -/
theorem docPieces_filter (p : DPiece → Bool) (hm : ∀ n, p (.misc n) = true) (hn : p .newline = false)
    (hd : ∀ e, p (.decl e) = true) (hr : ∀ s, p (.root s) = true)
    (f : Bool) (enc : String) (d : Document) (rs : Str) :
    ∃ rest, docPieces f enc d rs = .decl (upper enc) :: rest ∧
      rest.filter p = d.prologue.map DPiece.misc ++ .root rs :: d.epilogue.map DPiece.misc ∧
      (docPieces f enc d rs).filter p
        = .decl (upper enc) :: (d.prologue.map DPiece.misc ++ .root rs :: d.epilogue.map DPiece.misc) := by
  cases f with
  | false =>
    refine ⟨_, docPieces_false enc d rs, ?_, ?_⟩
    · simp [filter_misc p hm, hr]
    · rw [docPieces_false]; simp [filter_misc p hm, hr, hd]
  | true =>
    refine ⟨_, docPieces_true enc d rs, ?_, ?_⟩
    · simp [filter_misc_nl p hm hn, filter_nl_misc p hm hn, hr, hn]
    · rw [docPieces_true]
      simp [filter_misc_nl p hm hn, filter_nl_misc p hm hn, hr, hn, hd]

/-! ## reading back -/

theorem takeWhile_misc (p : DPiece → Bool) (hm : ∀ n, p (.misc n) = true) (hr : ∀ s, p (.root s) = false)
    (pro : List Node) (s : Str) (after : List DPiece) :
    (pro.map DPiece.misc ++ .root s :: after).takeWhile p = pro.map DPiece.misc := by
  induction pro with
  | nil => simp [hr]
  | cons x xs ih => simp [hm, ih]

theorem filterMap_misc (g : DPiece → Option Node) (hg : ∀ n, g (.misc n) = some n) (l : List Node) :
    (l.map DPiece.misc).filterMap g = l := by
  induction l with
  | nil => rfl
  | cons x xs ih => simp [hg, ih]

theorem all_misc (p : DPiece → Bool) (hm : ∀ n, p (.misc n) = true) (l : List Node) :
    (l.map DPiece.misc).all p = true := by
  simp [hm]

theorem readDoc_of_filter (enc : String) (rest : List DPiece) (pro epi : List Node) (s : Str)
    (h : rest.filter (fun p => match p with | .newline => false | _ => true)
      = pro.map DPiece.misc ++ .root s :: epi.map DPiece.misc) :
    readDoc (.decl enc :: rest) = some (enc, pro, s, epi) := by
  simp only [readDoc]
  generalize hitems : List.filter _ rest = items
  have h' : items = pro.map DPiece.misc ++ .root s :: epi.map DPiece.misc := by
    rw [← hitems]; exact h
  subst h'
  rw [takeWhile_misc _ (fun _ => rfl) (fun _ => rfl)]
  have hd : (pro.map DPiece.misc ++ .root s :: epi.map DPiece.misc).drop (pro.map DPiece.misc).length
      = .root s :: epi.map DPiece.misc := by
    rw [List.drop_append_of_le_length (by simp)]; simp
  rw [hd]
  simp only []
  rw [all_misc _ (fun _ => rfl), filterMap_misc _ (fun _ => rfl), filterMap_misc _ (fun _ => rfl)]
  simp

/-! ## case labels -/

theorem lower_upper_nat : ∀ n < 123, 97 ≤ n →
    ('a' ≤ Char.ofNat n ∧ Char.ofNat n ≤ 'z') ∧
    ¬ ('A' ≤ Char.ofNat n ∧ Char.ofNat n ≤ 'Z') ∧
    ('A' ≤ Char.ofNat (n - 32) ∧ Char.ofNat (n - 32) ≤ 'Z') ∧
    Char.ofNat ((Char.ofNat (n - 32)).toNat + 32) = Char.ofNat n := by
  decide

theorem lower_upper (c : Char) :
    (if 'A' ≤ upperAscii c ∧ upperAscii c ≤ 'Z' then Char.ofNat ((upperAscii c).toNat + 32) else upperAscii c)
      = (if 'A' ≤ c ∧ c ≤ 'Z' then Char.ofNat (c.toNat + 32) else c) := by
  unfold upperAscii
  by_cases h : 'a' ≤ c ∧ c ≤ 'z'
  · have h1 : 97 ≤ c.toNat := UInt32.le_iff_toNat_le.1 (Char.le_def.1 h.1)
    have h2 : c.toNat < 123 := by
      have : c.toNat ≤ 122 := UInt32.le_iff_toNat_le.1 (Char.le_def.1 h.2)
      omega
    have hk := lower_upper_nat c.toNat h2 h1
    rw [Char.ofNat_toNat] at hk
    rw [if_pos h, if_pos hk.2.2.1, if_neg hk.2.1, hk.2.2.2]
  · rw [if_neg h]

/-! ## parser options -/

mutual
  theorem dropKinds_nothing : ∀ t : Node, dropKinds false false t = t
    | .tag _ _ _ ks => by simp [dropKinds, dropKindsList_nothing ks]
    | .text _ => by simp [dropKinds]
    | .comment _ => by simp [dropKinds]
    | .pi _ _ => by simp [dropKinds]
  theorem dropKindsList_nothing : ∀ ks : List Node, dropKindsList false false ks = ks
    | [] => by simp [dropKindsList]
    | .tag ns name a ks' :: ks => by
      simp [dropKindsList, dropKinds_nothing (.tag ns name a ks'), dropKindsList_nothing ks]
    | .text _ :: ks => by simp [dropKindsList, dropKinds, dropKindsList_nothing ks]
    | .comment _ :: ks => by simp [dropKindsList, dropKindsList_nothing ks]
    | .pi _ _ :: ks => by simp [dropKindsList, dropKindsList_nothing ks]
end

end Delb.Doc

import DelbModel.Model.Scan
import DelbModel.Lemmas.Roundtrip
/-!
# Helper lemmas for the scanner (`Model/Scan.lean`)

Every construct has a *prefix lemma* `scanX (renderX x ++ rest) = some (x, rest)`; the round trip
`scanToks fuel (render ts) = some ts` for merged token lists follows by induction on the list.
-/
namespace Delb.Ser

/-! ## character classes -/

theorem nameChar_docChar {c : Char} (h : nameChar c = true) : docChar c = true := by
  unfold nameChar isWs at h; unfold docChar
  by_cases hr : c = '\r' <;> simp_all

theorem nameChar_not_ws {c : Char} (h : nameChar c = true) : isWs c = false := by
  unfold nameChar at h
  cases hw : isWs c <;> simp_all

theorem docChar_xmlChar {c : Char} (h : docChar c = true) : xmlChar c = true := by
  simp only [docChar, Bool.and_eq_true] at h; exact h.1

theorem docChar_ne_cr {c : Char} (h : docChar c = true) : c ≠ '\r' := by
  simp only [docChar, Bool.and_eq_true, bne_iff_ne] at h; exact h.2

/-- the characters `nameChar` excludes -/
theorem nameChar_ne {c : Char} (h : nameChar c = true) :
    c ≠ '<' ∧ c ≠ '>' ∧ c ≠ '/' ∧ c ≠ '=' ∧ c ≠ '"' ∧ c ≠ '\'' ∧ c ≠ '&' ∧ c ≠ '!' ∧ c ≠ '?' ∧
    c ≠ ' ' := by
  unfold nameChar isWs at h
  refine ⟨?_, ?_, ?_, ?_, ?_, ?_, ?_, ?_, ?_, ?_⟩ <;> (intro e; subst e; revert h; decide)

/-! ## pieces -/

theorem takeName_append (n : Str) (c : Char) (r : Str) (hn : ∀ x ∈ n, nameChar x = true)
    (hc : nameChar c = false) : takeName (n ++ c :: r) = (n, c :: r) := by
  induction n with
  | nil => simp [takeName, hc]
  | cons x n ih =>
    have hx : nameChar x = true := hn x (by simp)
    have := ih (fun y hy => hn y (by simp [hy]))
    simp [takeName, hx, this]

theorem skipWs_cons {c : Char} (r : Str) (h : isWs c = false) : skipWs (c :: r) = c :: r := by
  simp [skipWs, h]

theorem takeUntil_append (d : Char) (v r : Str) (h : d ∉ v) :
    takeUntil d (v ++ d :: r) = some (v, r) := by
  induction v with
  | nil => simp [takeUntil]
  | cons x v ih =>
    have hx : x ≠ d := fun e => h (by simp [e])
    have := ih (fun hm => h (by simp [hm]))
    simp [takeUntil, hx, this]

theorem takeText_append (s r : Str) (h : '<' ∉ s) (hr : r = [] ∨ ∃ r', r = '<' :: r') :
    takeText (s ++ r) = (s, r) := by
  induction s with
  | nil =>
    rcases hr with rfl | ⟨r', rfl⟩ <;> simp [takeText]
  | cons x s ih =>
    have hx : x ≠ '<' := fun e => h (by simp [e])
    have := ih (fun hm => h (by simp [hm]))
    simp [takeText, hx, this]

theorem normEol_id (s : Str) (h : '\r' ∉ s) : normEol false s = s := by
  induction s with
  | nil => simp [normEol]
  | cons x s ih =>
    have hx : x ≠ '\r' := fun e => h (by simp [e])
    have := ih (fun hm => h (by simp [hm]))
    simp [normEol, hx, this]

theorem normAttr_id (s : Str) (h : ∀ c ∈ s, isWs c = false ∨ c = ' ') : normAttr s = s := by
  induction s with
  | nil => simp [normAttr]
  | cons x s ih =>
    have := ih (fun c hc => h c (by simp [hc]))
    simp only [normAttr, List.map_cons] at this ⊢
    rw [this]
    rcases h x (by simp) with hx | hx
    · simp [hx]
    · simp [hx]

/-! ## escaped strings -/

theorem textEscapes_eq : Gen.textEscapes = textTable := by decide
theorem attrEscapes_eq : Gen.attrEscapes = attrTable := by decide

theorem escapeText_eq (s : Str) : escapeText s = escape textTable s := by
  unfold escapeText; rw [textEscapes_eq]
theorem escapeAttr_eq (s : Str) : escapeAttr s = escape attrTable s := by
  unfold escapeAttr; rw [attrEscapes_eq]

theorem escape_cons (T : List (Char × List Char)) (c : Char) (s : Str) :
    escape T (c :: s) = escapeChar T c ++ escape T s := by simp [escape]

theorem escape_append (T : List (Char × List Char)) (a b : Str) :
    escape T (a ++ b) = escape T a ++ escape T b := by simp [escape]

/-- the characters the entity references consist of -/
def entityChars : List Char := ['&', 'a', 'm', 'p', ';', 'l', 't', 'g', 'q', 'u', 'o']

theorem entity_sub : ∀ y, (y ∈ ['&','a','m','p',';'] ∨ y ∈ ['&','l','t',';'] ∨ y ∈ ['&','g','t',';'] ∨
    y ∈ ['&','q','u','o','t',';']) → y ∈ entityChars := by
  intro y h
  simp only [entityChars, List.mem_cons, List.not_mem_nil, or_false] at h ⊢
  rcases h with (h|h|h|h|h) | (h|h|h|h) | (h|h|h|h) | (h|h|h|h|h|h) <;> simp [h]

theorem mem_escapeChar_text {x c : Char} (h : x ∈ escapeChar textTable c) : x = c ∨ x ∈ entityChars := by
  rw [escapeChar_textTable] at h
  split at h
  · right; exact entity_sub _ (by first | exact Or.inl h | exact Or.inr (Or.inl h) | exact Or.inr (Or.inr (Or.inl h)) | exact Or.inr (Or.inr (Or.inr h)))
  split at h
  · right; exact entity_sub _ (by first | exact Or.inl h | exact Or.inr (Or.inl h) | exact Or.inr (Or.inr (Or.inl h)) | exact Or.inr (Or.inr (Or.inr h)))
  split at h
  · right; exact entity_sub _ (by first | exact Or.inl h | exact Or.inr (Or.inl h) | exact Or.inr (Or.inr (Or.inl h)) | exact Or.inr (Or.inr (Or.inr h)))
  · left; simpa using h

theorem mem_escapeChar_attr {x c : Char} (h : x ∈ escapeChar attrTable c) : x = c ∨ x ∈ entityChars := by
  rw [escapeChar_attrTable] at h
  split at h
  · right; exact entity_sub _ (by first | exact Or.inl h | exact Or.inr (Or.inl h) | exact Or.inr (Or.inr (Or.inl h)) | exact Or.inr (Or.inr (Or.inr h)))
  split at h
  · right; exact entity_sub _ (by first | exact Or.inl h | exact Or.inr (Or.inl h) | exact Or.inr (Or.inr (Or.inl h)) | exact Or.inr (Or.inr (Or.inr h)))
  split at h
  · right; exact entity_sub _ (by first | exact Or.inl h | exact Or.inr (Or.inl h) | exact Or.inr (Or.inr (Or.inl h)) | exact Or.inr (Or.inr (Or.inr h)))
  split at h
  · right; exact entity_sub _ (by first | exact Or.inl h | exact Or.inr (Or.inl h) | exact Or.inr (Or.inr (Or.inl h)) | exact Or.inr (Or.inr (Or.inr h)))
  · left; simpa using h

theorem mem_escapeText {x : Char} {s : Str} (h : x ∈ escapeText s) : x ∈ s ∨ x ∈ entityChars := by
  rw [escapeText_eq] at h
  simp only [escape, List.mem_flatMap] at h
  obtain ⟨c, hc, hx⟩ := h
  rcases mem_escapeChar_text hx with rfl | h'
  · exact Or.inl hc
  · exact Or.inr h'

theorem mem_escapeAttr {x : Char} {s : Str} (h : x ∈ escapeAttr s) : x ∈ s ∨ x ∈ entityChars := by
  rw [escapeAttr_eq] at h
  simp only [escape, List.mem_flatMap] at h
  obtain ⟨c, hc, hx⟩ := h
  rcases mem_escapeChar_attr hx with rfl | h'
  · exact Or.inl hc
  · exact Or.inr h'

theorem entityChars_doc : ∀ c ∈ entityChars, docChar c = true ∧ isWs c = false := by decide

theorem refsOk_escape_text (s : Str) : refsOk (escape textTable s) = true := by
  induction s with
  | nil => simp [escape, refsOk]
  | cons c s ih =>
    rw [escape_cons, escapeChar_textTable]
    by_cases h1 : c = '&'
    · subst h1
      simp [refsOk, matchEntity, entities, amp_lit, List.isPrefixOf, ih]
    by_cases h2 : c = '<'
    · subst h2
      simp [refsOk, matchEntity, entities, amp_lit, lt_lit, List.isPrefixOf, ih]
    by_cases h3 : c = '>'
    · subst h3
      simp [refsOk, matchEntity, entities, amp_lit, lt_lit, gt_lit, List.isPrefixOf, ih]
    simp [h1, h2, h3, refsOk, ih]

theorem refsOk_escape_attr (s : Str) : refsOk (escape attrTable s) = true := by
  induction s with
  | nil => simp [escape, refsOk]
  | cons c s ih =>
    rw [escape_cons, escapeChar_attrTable]
    by_cases h0 : c = '"'
    · subst h0
      simp [refsOk, matchEntity, entities, amp_lit, lt_lit, gt_lit, quot_lit, List.isPrefixOf, ih]
    by_cases h1 : c = '&'
    · subst h1
      simp [refsOk, matchEntity, entities, amp_lit, List.isPrefixOf, ih]
    by_cases h2 : c = '<'
    · subst h2
      simp [refsOk, matchEntity, entities, amp_lit, lt_lit, List.isPrefixOf, ih]
    by_cases h3 : c = '>'
    · subst h3
      simp [refsOk, matchEntity, entities, amp_lit, lt_lit, gt_lit, List.isPrefixOf, ih]
    simp [h0, h1, h2, h3, refsOk, ih]

theorem hasCDEnd_false (s : Str) (h : '>' ∉ s) : hasCDEnd s = false := by
  induction s with
  | nil => simp [hasCDEnd]
  | cons c s ih =>
    have := ih (fun hm => h (by simp [hm]))
    simp only [hasCDEnd, this, Bool.or_false, Bool.and_eq_false_iff]
    right
    cases s with
    | nil => simp
    | cons d s =>
      cases s with
      | nil => simp
      | cons e s =>
        have : e ≠ '>' := fun he => h (by simp [he])
        simp [this]

/-! ## comments and processing instructions -/

theorem scanComment_append_aux (r : Str) : ∀ (n : Nat) (s : Str), s.length ≤ n → commentBody s = true →
    scanComment (s ++ '-' :: '-' :: '>' :: r) = some (s, r) := by
  intro n
  induction n with
  | zero =>
    intro s hl _
    have : s = [] := List.eq_nil_of_length_eq_zero (by omega)
    subst this
    simp [scanComment]
  | succ n ih =>
    intro s hl h
    cases s with
    | nil => simp [scanComment]
    | cons c cs =>
      by_cases hc : c = '-'
      · subst hc
        cases cs with
        | nil => simp [commentBody] at h
        | cons d ds =>
          simp only [commentBody, if_true, Bool.and_eq_true, bne_iff_ne, ne_eq] at h
          have hl' : ds.length ≤ n := by simp at hl; omega
          have := ih ds hl' h.2
          simp [scanComment, h.1, this]
      · unfold commentBody at h
        simp only [hc, if_false] at h
        have hl' : cs.length ≤ n := by simp at hl; omega
        have := ih cs hl' h
        rw [List.cons_append, scanComment.eq_def]
        simp [hc, this]

theorem scanComment_append (s r : Str) (h : commentBody s = true) :
    scanComment (s ++ '-' :: '-' :: '>' :: r) = some (s, r) :=
  scanComment_append_aux r s.length s (Nat.le_refl _) h

theorem splitPI_append (s r : Str) (h : hasPIEnd s = false) :
    splitPI (s ++ '?' :: '>' :: r) = some (s, r) := by
  induction s with
  | nil => simp [splitPI]
  | cons c s ih =>
    simp only [hasPIEnd, Bool.or_eq_false_iff] at h
    have := ih h.2
    cases s with
    | nil =>
      simp [splitPI]
    | cons d s =>
      have h1 := h.1
      simp only [List.head?_cons, Bool.and_eq_false_iff, beq_eq_false_iff_ne, ne_eq] at h1
      have hne : ¬ (c = '?' ∧ d = '>') := fun ⟨a, b⟩ => by
        rcases h1 with h1 | h1
        · exact h1 a
        · exact h1 (by rw [b])
      simp only [List.cons_append] at this
      simp only [List.cons_append, splitPI, List.head?_cons] at this ⊢
      simp only [Option.some.injEq, Bool.and_eq_true, decide_eq_true_eq, hne, if_false] at this ⊢
      rw [this]

/-! ## the comment grammar and `?>` in other words -/

theorem commentBody_iff_aux : ∀ (n : Nat) (s : Str), s.length ≤ n →
    (commentBody s = true ↔ (∀ a b, s ≠ a ++ '-' :: '-' :: b) ∧ (∀ a, s ≠ a ++ ['-'])) := by
  intro n
  induction n with
  | zero =>
    intro s hl
    have : s = [] := List.eq_nil_of_length_eq_zero (by omega)
    subst this
    simp [commentBody]
  | succ n ih =>
    intro s hl
    cases s with
    | nil => simp [commentBody]
    | cons c cs =>
      have hcs : cs.length ≤ n := by simp at hl; omega
      by_cases hc : c = '-'
      · subst hc
        cases cs with
        | nil =>
          simp only [commentBody, if_true]
          constructor
          · intro h; cases h
          · intro ⟨_, h2⟩; exact absurd rfl (h2 [])
        | cons d ds =>
          have hds : ds.length ≤ n := by simp at hcs; omega
          simp only [commentBody, if_true, Bool.and_eq_true, bne_iff_ne, ne_eq, ih ds hds]
          constructor
          · intro ⟨hd, h1, h2⟩
            constructor
            · intro a b e
              rcases a with _ | ⟨x, a⟩
              · simp at e; exact hd e.1
              · rcases a with _ | ⟨y, a⟩
                · simp at e; exact hd e.2.1
                · simp at e; exact h1 a b e.2.2
            · intro a e
              rcases a with _ | ⟨x, a⟩
              · simp at e
              · rcases a with _ | ⟨y, a⟩
                · simp at e; exact hd e.2.1
                · simp at e; exact h2 a e.2.2
          · intro ⟨h1, h2⟩
            refine ⟨?_, ?_, ?_⟩
            · intro hd; subst hd; exact h1 [] ds rfl
            · intro a b e; exact h1 ('-' :: d :: a) b (by rw [e]; rfl)
            · intro a e; exact h2 ('-' :: d :: a) (by rw [e]; rfl)
      · have : commentBody (c :: cs) = commentBody cs := by
          rw [commentBody.eq_def]; simp [hc]
        rw [this, ih cs hcs]
        constructor
        · intro ⟨h1, h2⟩
          constructor
          · intro a b e
            rcases a with _ | ⟨x, a⟩
            · simp at e; exact hc e.1
            · simp at e; exact h1 a b e.2
          · intro a e
            rcases a with _ | ⟨x, a⟩
            · simp at e; exact hc e.1
            · simp at e; exact h2 a e.2
        · intro ⟨h1, h2⟩
          exact ⟨fun a b e => h1 (c :: a) b (by rw [e]; rfl), fun a e => h2 (c :: a) (by rw [e]; rfl)⟩

theorem commentBody_iff (s : Str) :
    commentBody s = true ↔ (∀ a b, s ≠ a ++ '-' :: '-' :: b) ∧ (∀ a, s ≠ a ++ ['-']) :=
  commentBody_iff_aux s.length s (Nat.le_refl _)

theorem hasPIEnd_false_iff (s : Str) : hasPIEnd s = false ↔ ∀ a b, s ≠ a ++ '?' :: '>' :: b := by
  induction s with
  | nil => simp [hasPIEnd]
  | cons c cs ih =>
    simp only [hasPIEnd, Bool.or_eq_false_iff, ih]
    constructor
    · intro ⟨h1, h2⟩ a b e
      rcases a with _ | ⟨x, a⟩
      · simp at e; simp [e.1, e.2] at h1
      · simp at e; exact h2 a b e.2
    · intro h
      refine ⟨?_, fun a b e => h (c :: a) b (by rw [e]; rfl)⟩
      cases hb : (c == '?' && cs.head? == some '>') with
      | false => rfl
      | true =>
        simp only [Bool.and_eq_true, beq_iff_eq] at hb
        obtain ⟨h1, h2⟩ := hb
        cases cs with
        | nil => simp at h2
        | cons d ds =>
          simp at h2
          exact absurd (by rw [h1, h2]; rfl) (h [] ds)

/-! ## token well-formedness, unpacked -/

theorem nameOk_iff {n : Str} : nameOk n = true ↔ n ≠ [] ∧ ∀ x ∈ n, nameChar x = true := by
  simp [nameOk, List.all_eq_true]

theorem nameOk_cons {n : Str} (h : nameOk n = true) :
    ∃ x n', n = x :: n' ∧ nameChar x = true ∧ ∀ y ∈ n, nameChar y = true := by
  obtain ⟨h1, h2⟩ := nameOk_iff.mp h
  cases n with
  | nil => exact absurd rfl h1
  | cons x n' => exact ⟨x, n', rfl, h2 x (by simp), h2⟩

theorem valueOk_iff {v : Str} :
    valueOk v = true ↔ ∀ c ∈ v, docChar c = true ∧ (isWs c = false ∨ c = ' ') := by
  simp only [valueOk, List.all_eq_true]
  constructor
  · intro h c hc
    have := h c hc
    by_cases hs : c = ' '
    · subst hs; exact ⟨by decide, Or.inr rfl⟩
    · simp [hs] at this; exact ⟨this.1, Or.inl this.2⟩
  · intro h c hc
    obtain ⟨h1, h2⟩ := h c hc
    rcases h2 with h2 | h2
    · simp [h1, h2]
    · simp [h2]

theorem textOk_iff {s : Str} : textOk s = true ↔ ∀ c ∈ s, docChar c = true := by
  simp [textOk, List.all_eq_true]

/-! ## attributes -/

theorem unescape_normAttr_escapeAttr (v : Str) (hv : valueOk v = true) :
    unescape (normAttr (escapeAttr v)) = v := by
  rw [normAttr_id, escapeAttr_eq, unescape_escape_attr]
  intro c hc
  rcases mem_escapeAttr hc with h | h
  · exact (valueOk_iff.mp hv c h).2
  · exact Or.inl (entityChars_doc c h).2

theorem scanAttrs_step (fuel : Nat) (k v R : Str) (hk : nameOk k = true) (hv : valueOk v = true) :
    scanAttrs (fuel+1) (' ' :: (k ++ '=' :: '"' :: (escapeAttr v ++ '"' :: R))) =
      match scanAttrs fuel R with
      | some (as, sc, rest) => some ((k, v) :: as, sc, rest)
      | none => none := by
  obtain ⟨x, k', rfl, hx, hall⟩ := nameOk_cons hk
  have hxne := nameChar_ne hx
  have hws : isWs x = false := nameChar_not_ws hx
  have htn : takeName (x :: k' ++ '=' :: '"' :: (escapeAttr v ++ '"' :: R)) =
      (x :: k', '=' :: '"' :: (escapeAttr v ++ '"' :: R)) :=
    takeName_append _ _ _ hall (by decide)
  have hq : '"' ∉ escapeAttr v := (by rw [escapeAttr_eq]; exact (escape_attrTable_safe v).2.2)
  have hlt : '<' ∉ escapeAttr v := (by rw [escapeAttr_eq]; exact (escape_attrTable_safe v).1)
  have htu := takeUntil_append '"' (escapeAttr v) R hq
  have href : refsOk (escapeAttr v) = true := by rw [escapeAttr_eq]; exact refsOk_escape_attr v
  have hun := unescape_normAttr_escapeAttr v hv
  rw [scanAttrs]
  have hsk : skipWs (' ' :: (x :: k' ++ '=' :: '"' :: (escapeAttr v ++ '"' :: R))) =
      x :: (k' ++ '=' :: '"' :: (escapeAttr v ++ '"' :: R)) := by
    rw [skipWs]; simp only [show isWs ' ' = true by decide, if_true, List.cons_append]
    exact skipWs_cons _ hws
  rw [hsk]
  simp only [hxne.2.1, hxne.2.2.1, if_false, List.head?_cons, Option.any_some,
    show isWs ' ' = true by decide, Bool.not_true, Bool.false_eq_true]
  rw [← List.cons_append, htn]
  simp only [List.isEmpty_cons, bne_self_eq_false, Bool.or_self, Bool.false_eq_true, if_false, htu]
  simp only [hlt, href, hun, List.contains_eq_mem, decide_false, Bool.not_true, Bool.or_self, Bool.false_eq_true, if_false]
  rcases scanAttrs fuel R with _ | ⟨as, sc, rest⟩ <;> rfl

theorem renderAttrs_cons_append (k v : Str) (as : List (Str × Str)) (X : Str) :
    renderAttrs ((k, v) :: as) ++ X =
      ' ' :: (k ++ '=' :: '"' :: (escapeAttr v ++ '"' :: (renderAttrs as ++ X))) := by
  simp [renderAttrs]

def closeOf (sc : Bool) : Str := if sc then ['/', '>'] else ['>']

theorem scanAttrs_close (fuel : Nat) (sc : Bool) (rest : Str) :
    scanAttrs (fuel+1) (closeOf sc ++ rest) = some ([], sc, rest) := by
  cases sc
  · rw [scanAttrs]; simp [closeOf, skipWs, isWs]
  · rw [scanAttrs]; simp [closeOf, skipWs, isWs]

theorem scanAttrs_render (sc : Bool) (rest : Str) : ∀ (attrs : List (Str × Str)) (fuel : Nat),
    attrs.length < fuel → (∀ kv ∈ attrs, nameOk kv.1 = true ∧ valueOk kv.2 = true) →
    scanAttrs fuel (renderAttrs attrs ++ (closeOf sc ++ rest)) = some (attrs, sc, rest) := by
  intro attrs
  induction attrs with
  | nil =>
    intro fuel hf _
    cases fuel with
    | zero => omega
    | succ fuel => simpa [renderAttrs] using scanAttrs_close fuel sc rest
  | cons kv as ih =>
    intro fuel hf hok
    obtain ⟨k, v⟩ := kv
    cases fuel with
    | zero => omega
    | succ fuel =>
      have h1 := hok (k, v) (by simp)
      rw [renderAttrs_cons_append, scanAttrs_step fuel k v _ h1.1 h1.2,
        ih fuel (by simp at hf; omega) (fun kv hkv => hok kv (by simp [hkv]))]

theorem renderAttrs_length (attrs : List (Str × Str)) : attrs.length ≤ (renderAttrs attrs).length := by
  induction attrs with
  | nil => simp
  | cons kv as ih =>
    obtain ⟨k, v⟩ := kv
    simp only [renderAttrs, List.length_append, List.length_cons]
    omega

/-- what follows a name in a start tag is no name character -/
theorem afterName_stag (attrs : List (Str × Str)) (sc : Bool) (rest : Str) :
    ∃ c r, renderAttrs attrs ++ (closeOf sc ++ rest) = c :: r ∧ nameChar c = false := by
  cases attrs with
  | nil =>
    cases sc
    · exact ⟨'>', rest, by simp [renderAttrs, closeOf], by decide⟩
    · exact ⟨'/', '>' :: rest, by simp [renderAttrs, closeOf], by decide⟩
  | cons kv as =>
    obtain ⟨k, v⟩ := kv
    exact ⟨' ', _, renderAttrs_cons_append k v as _, by decide⟩

/-! ## one token -/

theorem scanSTag_render (qn : Str) (attrs : List (Str × Str)) (sc : Bool) (rest : Str)
    (hq : nameOk qn = true) (ha : ∀ kv ∈ attrs, nameOk kv.1 = true ∧ valueOk kv.2 = true)
    (hd : distinct (attrs.map (·.1)) = true) :
    scanSTag (qn ++ (renderAttrs attrs ++ (closeOf sc ++ rest))) = some (.stag qn attrs sc, rest) := by
  obtain ⟨c, r, hcr, hc⟩ := afterName_stag attrs sc rest
  have hall := (nameOk_iff.mp hq).2
  have hne := (nameOk_iff.mp hq).1
  have htn : takeName (qn ++ (renderAttrs attrs ++ (closeOf sc ++ rest))) =
      (qn, renderAttrs attrs ++ (closeOf sc ++ rest)) := by
    rw [hcr]; exact takeName_append qn c r hall hc
  have hfuel : attrs.length < (qn ++ (renderAttrs attrs ++ (closeOf sc ++ rest))).length + 1 := by
    have := renderAttrs_length attrs
    simp only [List.length_append]
    omega
  unfold scanSTag
  simp only [htn, scanAttrs_render sc rest attrs _ hfuel ha, hd, if_true]
  simp [hne]

theorem scanETag_render (qn rest : Str) (hq : nameOk qn = true) :
    scanETag (qn ++ '>' :: rest) = some (.etag qn, rest) := by
  have hall := (nameOk_iff.mp hq).2
  have hne := (nameOk_iff.mp hq).1
  have htn := takeName_append qn '>' rest hall (by decide)
  unfold scanETag
  simp only [htn, skipWs_cons rest (show isWs '>' = false by decide), if_true]
  simp [hne]

theorem scanPI_render (t : String) (s rest : Str) (ht : nameOk t.toList = true)
    (hx : isXmlTarget t.toList = false) (he : hasPIEnd s = false) (hw : s.head?.any isWs = false) :
    scanPI (t.toList ++ ' ' :: (s ++ '?' :: '>' :: rest)) = some (.pi t s, rest) := by
  have hall := (nameOk_iff.mp ht).2
  have hne := (nameOk_iff.mp ht).1
  have htn := takeName_append t.toList ' ' (s ++ '?' :: '>' :: rest) hall (by decide)
  have hsk : skipWs (s ++ '?' :: '>' :: rest) = s ++ '?' :: '>' :: rest := by
    cases s with
    | nil => exact skipWs_cons _ (by decide)
    | cons c s => exact skipWs_cons _ (by simpa using hw)
  unfold scanPI
  simp only [htn, hx, Bool.or_false, show isWs ' ' = true by decide, if_true, hsk,
    splitPI_append s rest he, String.ofList_toList]
  simp [hne]

theorem scanText_render (s rest : Str) (hr : rest = [] ∨ ∃ r', rest = '<' :: r') :
    scanText (escapeText s ++ rest) = some (.chars s, rest) := by
  have hsafe := escape_textTable_safe s
  rw [← escapeText_eq] at hsafe
  have htt := takeText_append (escapeText s) rest hsafe.1 hr
  have href : refsOk (escapeText s) = true := by rw [escapeText_eq]; exact refsOk_escape_text s
  have hcd := hasCDEnd_false (escapeText s) hsafe.2
  have hun : unescape (escapeText s) = s := by rw [escapeText_eq]; exact unescape_escape_text s
  unfold scanText
  simp [htt, href, hcd, hun]

/-- a token other than character data is written with `<` in front -/
theorem renderTok_lt (t : Tok) (h : ∀ s, t ≠ .chars s) : ∃ r, renderTok t = '<' :: r := by
  cases t with
  | stag qn attrs sc => exact ⟨qn ++ renderAttrs attrs ++ closeOf sc, by simp [renderTok, closeOf]⟩
  | etag qn => exact ⟨'/' :: (qn ++ ['>']), by simp [renderTok]⟩
  | chars s => exact absurd rfl (h s)
  | comment s => exact ⟨"!--".toList ++ s ++ "-->".toList, by simp [renderTok]⟩
  | pi t s => exact ⟨"?".toList ++ t.toList ++ [' '] ++ s ++ "?>".toList, by simp [renderTok]⟩

theorem comment_open_lit : "<!--".toList = ['<', '!', '-', '-'] := by decide
theorem comment_close_lit : "-->".toList = ['-', '-', '>'] := by decide
theorem pi_open_lit : "<?".toList = ['<', '?'] := by decide
theorem pi_close_lit : "?>".toList = ['?', '>'] := by decide

theorem escapeText_ne_nil {s : Str} (h : s ≠ []) : ∃ c r, escapeText s = c :: r ∧ c ≠ '<' := by
  cases s with
  | nil => exact absurd rfl h
  | cons x s =>
    rw [escapeText_eq, escape_cons, escapeChar_textTable]
    by_cases h1 : x = '&'
    · exact ⟨'&', 'a' :: 'm' :: 'p' :: ';' :: escape textTable s, by simp [h1], by decide⟩
    by_cases h2 : x = '<'
    · exact ⟨'&', 'l' :: 't' :: ';' :: escape textTable s, by simp [h2], by decide⟩
    by_cases h3 : x = '>'
    · exact ⟨'&', 'g' :: 't' :: ';' :: escape textTable s, by simp [h3], by decide⟩
    · exact ⟨x, escape textTable s, by simp [h1, h2, h3], h2⟩

theorem scanTok_render (t : Tok) (rest : Str) (hok : tokOk t = true)
    (hch : ∀ s, t = .chars s → s ≠ [] ∧ (rest = [] ∨ ∃ r', rest = '<' :: r')) :
    scanTok (renderTok t ++ rest) = some (t, rest) := by
  cases t with
  | stag qn attrs sc =>
    simp only [tokOk, Bool.and_eq_true, List.all_eq_true] at hok
    obtain ⟨⟨hq, ha⟩, hd⟩ := hok
    obtain ⟨x, qn', rfl, hx, _⟩ := nameOk_cons hq
    have hxne := nameChar_ne hx
    have e : renderTok (.stag (x :: qn') attrs sc) ++ rest =
        '<' :: x :: (qn' ++ (renderAttrs attrs ++ (closeOf sc ++ rest))) := by
      simp [renderTok, closeOf]
    rw [e, scanTok]
    simp only [if_true, scanMarkup, hxne.2.2.2.2.2.2.2.1, hxne.2.2.2.2.2.2.2.2.1, hxne.2.2.1, if_false]
    exact scanSTag_render (x :: qn') attrs sc rest hq ha hd
  | etag qn =>
    simp only [tokOk] at hok
    have e : renderTok (.etag qn) ++ rest = '<' :: '/' :: (qn ++ '>' :: rest) := by
      simp [renderTok]
    rw [e, scanTok]
    simp only [if_true, scanMarkup, show ('/' : Char) ≠ '!' by decide, show ('/' : Char) ≠ '?' by decide,
      if_false]
    exact scanETag_render qn rest hok
  | chars s =>
    obtain ⟨hne, hr⟩ := hch s rfl
    obtain ⟨c, r, hcr, hc⟩ := escapeText_ne_nil hne
    have := scanText_render s rest hr
    simp only [renderTok]
    rw [hcr] at this ⊢
    simp only [List.cons_append, scanTok, hc, if_false] at this ⊢
    exact this
  | comment s =>
    simp only [tokOk, Bool.and_eq_true] at hok
    have e : renderTok (.comment s) ++ rest = '<' :: '!' :: '-' :: '-' :: (s ++ '-' :: '-' :: '>' :: rest) := by
      simp [renderTok, comment_open_lit, comment_close_lit]
    rw [e, scanTok]
    simp only [if_true, scanMarkup, scanComment_append s rest hok.2, Bool.and_self, decide_true]
  | pi t s =>
    simp only [tokOk, Bool.and_eq_true, Bool.not_eq_true'] at hok
    obtain ⟨⟨⟨⟨ht, hx⟩, _⟩, he⟩, hw⟩ := hok
    have e : renderTok (.pi t s) ++ rest = '<' :: '?' :: (t.toList ++ ' ' :: (s ++ '?' :: '>' :: rest)) := by
      simp [renderTok, pi_open_lit, pi_close_lit]
    rw [e, scanTok]
    simp only [if_true, scanMarkup, show ('?' : Char) ≠ '!' by decide, if_false]
    exact scanPI_render t s rest ht hx he hw

/-! ## token lists -/

def isChars : Tok → Bool
  | .chars _ => true
  | _ => false

/-- no empty and no adjacent character data -/
def Merged : List Tok → Bool
  | [] => true
  | .chars s :: rest => !s.isEmpty && !(rest.head?.any isChars) && Merged rest
  | _ :: rest => Merged rest

theorem render_cons (t : Tok) (ts : List Tok) : render (t :: ts) = renderTok t ++ render ts := by
  simp [render]

theorem render_head_lt {ts : List Tok} (h : ts.head?.any isChars = false) :
    render ts = [] ∨ ∃ r', render ts = '<' :: r' := by
  cases ts with
  | nil => left; rfl
  | cons t ts =>
    right
    have ht : ∀ s, t ≠ .chars s := by
      intro s e; subst e; simp [isChars] at h
    obtain ⟨r, hr⟩ := renderTok_lt t ht
    exact ⟨r ++ render ts, by rw [render_cons, hr]; rfl⟩

theorem renderTok_ne_nil (t : Tok) (h : ∀ s, t = .chars s → s ≠ []) : renderTok t ≠ [] := by
  by_cases hc : ∃ s, t = .chars s
  · obtain ⟨s, rfl⟩ := hc
    obtain ⟨c, r, hcr, _⟩ := escapeText_ne_nil (h s rfl)
    simp [renderTok, hcr]
  · obtain ⟨r, hr⟩ := renderTok_lt t (fun s e => hc ⟨s, e⟩)
    simp [hr]

theorem scanToks_succ (fuel : Nat) (s : Str) (hs : s ≠ []) :
    scanToks (fuel+1) s =
      match scanTok s with
      | some (t, rest) =>
        match scanToks fuel rest with
        | some ts => some (t :: ts)
        | none => none
      | none => none := by
  cases s with
  | nil => exact absurd rfl hs
  | cons c cs =>
    rw [scanToks]
    cases scanTok (c :: cs) with
    | none => rfl
    | some p =>
      obtain ⟨t, rest⟩ := p
      cases scanToks fuel rest <;> rfl

theorem scanToks_render : ∀ (ts : List Tok) (fuel : Nat), Merged ts = true → ts.all tokOk = true →
    (render ts).length < fuel → scanToks fuel (render ts) = some ts := by
  intro ts
  induction ts with
  | nil => intro fuel _ _ _; simp [render, scanToks]
  | cons t ts ih =>
    intro fuel hm hok hf
    simp only [List.all_cons, Bool.and_eq_true] at hok
    have hch : ∀ s, t = .chars s → s ≠ [] ∧ (render ts = [] ∨ ∃ r', render ts = '<' :: r') := by
      intro s e; subst e
      simp only [Merged, Bool.and_eq_true, Bool.not_eq_true', List.isEmpty_eq_false_iff] at hm
      exact ⟨hm.1.1, render_head_lt hm.1.2⟩
    have hm' : Merged ts = true := by
      cases t <;> simp_all [Merged]
    have hne : renderTok t ≠ [] := renderTok_ne_nil t (fun s e => (hch s e).1)
    have hlen : 0 < (renderTok t).length := List.length_pos_iff.mpr hne
    rw [render_cons] at hf ⊢
    cases fuel with
    | zero => omega
    | succ fuel =>
      rw [scanToks_succ _ _ (by simp [hne]), scanTok_render t (render ts) hok.1 hch]
      simp only [ih fuel hm' hok.2 (by simp only [List.length_append] at hf; omega)]

/-! ## `mergeChars` -/

theorem mergeChars_chars_cases (s : Str) (rest : List Tok) :
    (∃ t rest', mergeChars rest = .chars t :: rest' ∧
      mergeChars (.chars s :: rest) = .chars (s ++ t) :: rest') ∨
    ((mergeChars rest).head?.any isChars = false ∧
      mergeChars (.chars s :: rest) = if s = [] then mergeChars rest else .chars s :: mergeChars rest) := by
  rw [mergeChars]
  split
  · rename_i t rest' heq
    exact Or.inl ⟨t, rest', heq, rfl⟩
  · rename_i rest' hne
    right
    refine ⟨?_, rfl⟩
    cases hr : mergeChars rest with
    | nil => rfl
    | cons u us =>
      cases u with
      | chars t' => exact absurd hr (hne t' us)
      | _ => simp [isChars]

theorem mergeChars_other (t : Tok) (rest : List Tok) (h : isChars t = false) :
    mergeChars (t :: rest) = t :: mergeChars rest := by
  cases t with
  | chars s => simp [isChars] at h
  | _ => rw [mergeChars]; intro s e; cases e

theorem isChars_true {t : Tok} (h : isChars t = true) : ∃ s, t = .chars s := by
  cases t <;> simp [isChars] at h
  exact ⟨_, rfl⟩

theorem merged_mergeChars (ts : List Tok) : Merged (mergeChars ts) = true := by
  induction ts with
  | nil => simp [mergeChars, Merged]
  | cons t ts ih =>
    by_cases hc : isChars t = true
    · obtain ⟨s, rfl⟩ := isChars_true hc
      rcases mergeChars_chars_cases s ts with ⟨t', rest', heq, hm⟩ | ⟨hh, hm⟩
      · rw [hm]
        rw [heq] at ih
        simp only [Merged, Bool.and_eq_true, Bool.not_eq_true', List.isEmpty_eq_false_iff] at ih ⊢
        refine ⟨⟨?_, ih.1.2⟩, ih.2⟩
        intro e
        exact ih.1.1 (List.append_eq_nil_iff.mp e).2
      · rw [hm]
        split
        · exact ih
        · rename_i hs
          simp only [Merged, Bool.and_eq_true, Bool.not_eq_true', List.isEmpty_eq_false_iff]
          exact ⟨⟨hs, hh⟩, ih⟩
    · have hc' : isChars t = false := by simpa using hc
      rw [mergeChars_other t ts hc']
      cases t <;> first | simpa [Merged] using ih | simp [isChars] at hc'

theorem tokOk_mergeChars (ts : List Tok) (h : ts.all tokOk = true) :
    (mergeChars ts).all tokOk = true := by
  induction ts with
  | nil => simp [mergeChars]
  | cons t ts ih =>
    simp only [List.all_cons, Bool.and_eq_true] at h
    have ih := ih h.2
    by_cases hc : isChars t = true
    · obtain ⟨s, rfl⟩ := isChars_true hc
      rcases mergeChars_chars_cases s ts with ⟨t', rest', heq, hm⟩ | ⟨hh, hm⟩
      · rw [hm]
        rw [heq] at ih
        simp only [List.all_cons, Bool.and_eq_true] at ih ⊢
        refine ⟨?_, ih.2⟩
        have h1 := h.1
        have h2 := ih.1
        simp only [tokOk, textOk, List.all_append, Bool.and_eq_true] at h1 h2 ⊢
        exact ⟨h1, h2⟩
      · rw [hm]
        split
        · exact ih
        · simp only [List.all_cons, Bool.and_eq_true]
          exact ⟨h.1, ih⟩
    · have hc' : isChars t = false := by simpa using hc
      rw [mergeChars_other t ts hc']
      simp only [List.all_cons, Bool.and_eq_true]
      exact ⟨h.1, ih⟩

theorem render_mergeChars (ts : List Tok) : render (mergeChars ts) = render ts := by
  induction ts with
  | nil => rfl
  | cons t ts ih =>
    by_cases hc : isChars t = true
    · obtain ⟨s, rfl⟩ := isChars_true hc
      rcases mergeChars_chars_cases s ts with ⟨t', rest', heq, hm⟩ | ⟨hh, hm⟩
      · rw [hm, render_cons (.chars s), ← ih, heq, render_cons, render_cons]
        simp only [renderTok, escapeText_eq, escape_append, List.append_assoc]
      · rw [hm, render_cons (.chars s), ← ih]
        split
        · rename_i hs
          subst hs
          simp [renderTok, escapeText_eq, escape]
        · rw [render_cons]
    · have hc' : isChars t = false := by simpa using hc
      rw [mergeChars_other t ts hc', render_cons, render_cons, ih]

/-! ## the rendered string consists of document characters -/

def DocAll (l : Str) : Prop := ∀ c ∈ l, docChar c = true

theorem DocAll.append {a b : Str} (ha : DocAll a) (hb : DocAll b) : DocAll (a ++ b) := by
  intro c hc
  rcases List.mem_append.mp hc with h | h
  · exact ha c h
  · exact hb c h

theorem DocAll.cons {c : Char} {b : Str} (hc : docChar c = true) (hb : DocAll b) : DocAll (c :: b) := by
  intro x hx
  rcases List.mem_cons.mp hx with h | h
  · rw [h]; exact hc
  · exact hb x h

theorem DocAll.nil : DocAll [] := by intro c hc; cases hc

theorem docAll_name {n : Str} (h : nameOk n = true) : DocAll n :=
  fun c hc => nameChar_docChar ((nameOk_iff.mp h).2 c hc)

theorem docAll_escapeText {s : Str} (h : textOk s = true) : DocAll (escapeText s) := by
  intro c hc
  rcases mem_escapeText hc with h' | h'
  · exact textOk_iff.mp h c h'
  · exact (entityChars_doc c h').1

theorem docAll_escapeAttr {s : Str} (h : valueOk s = true) : DocAll (escapeAttr s) := by
  intro c hc
  rcases mem_escapeAttr hc with h' | h'
  · exact (valueOk_iff.mp h c h').1
  · exact (entityChars_doc c h').1

theorem docAll_renderAttrs : ∀ (attrs : List (Str × Str)),
    (∀ kv ∈ attrs, nameOk kv.1 = true ∧ valueOk kv.2 = true) → DocAll (renderAttrs attrs) := by
  intro attrs
  induction attrs with
  | nil => intro _; exact DocAll.nil
  | cons kv as ih =>
    intro h
    obtain ⟨k, v⟩ := kv
    have h1 := h (k, v) (by simp)
    have := renderAttrs_cons_append k v as []
    simp only [List.append_nil] at this
    rw [this]
    refine DocAll.cons (by decide) (DocAll.append (docAll_name h1.1) (DocAll.cons (by decide)
      (DocAll.cons (by decide) (DocAll.append (docAll_escapeAttr h1.2) (DocAll.cons (by decide)
      (ih (fun kv hkv => h kv (by simp [hkv]))))))))

theorem docAll_renderTok (t : Tok) (h : tokOk t = true) : DocAll (renderTok t) := by
  cases t with
  | stag qn attrs sc =>
    simp only [tokOk, Bool.and_eq_true, List.all_eq_true] at h
    obtain ⟨⟨hq, ha⟩, _⟩ := h
    simp only [renderTok]
    refine DocAll.append (DocAll.append (DocAll.append (DocAll.cons (by decide) DocAll.nil)
      (docAll_name hq)) (docAll_renderAttrs attrs ha)) ?_
    cases sc
    · exact DocAll.cons (by decide) DocAll.nil
    · exact DocAll.cons (by decide) (DocAll.cons (by decide) DocAll.nil)
  | etag qn =>
    simp only [tokOk] at h
    simp only [renderTok]
    exact DocAll.append (DocAll.append (DocAll.cons (by decide) (DocAll.cons (by decide) DocAll.nil))
      (docAll_name h)) (DocAll.cons (by decide) DocAll.nil)
  | chars s =>
    simp only [tokOk] at h
    exact docAll_escapeText h
  | comment s =>
    simp only [tokOk, Bool.and_eq_true] at h
    simp only [renderTok, comment_open_lit, comment_close_lit]
    refine DocAll.append (DocAll.append ?_ (textOk_iff.mp h.1)) ?_
    · intro c hc; revert c; decide
    · intro c hc; revert c; decide
  | pi t s =>
    simp only [tokOk, Bool.and_eq_true] at h
    obtain ⟨⟨⟨⟨ht, _⟩, hs⟩, _⟩, _⟩ := h
    simp only [renderTok, pi_open_lit, pi_close_lit]
    refine DocAll.append (DocAll.append (DocAll.append (DocAll.append ?_ (docAll_name ht))
      (DocAll.cons (by decide) DocAll.nil)) (textOk_iff.mp hs)) ?_
    · intro c hc; revert c; decide
    · intro c hc; revert c; decide

theorem docAll_render (ts : List Tok) (h : ts.all tokOk = true) : DocAll (render ts) := by
  induction ts with
  | nil => exact DocAll.nil
  | cons t ts ih =>
    simp only [List.all_cons, Bool.and_eq_true] at h
    rw [render_cons]
    exact DocAll.append (docAll_renderTok t h.1) (ih h.2)

/-! ## the scanner on rendered tokens -/

theorem scan_render (ts : List Tok) (h : ToksOk ts) : scan (render ts) = some (mergeChars ts) := by
  have hd := docAll_render ts h
  have hx : (render ts).all xmlChar = true :=
    List.all_eq_true.mpr (fun c hc => docChar_xmlChar (hd c hc))
  have hcr : '\r' ∉ render ts := fun hm => docChar_ne_cr (hd _ hm) rfl
  unfold scan
  rw [if_pos hx, normEol_id _ hcr]
  have := scanToks_render (mergeChars ts) ((render ts).length + 1) (merged_mergeChars ts)
    (tokOk_mergeChars ts h) (by rw [render_mergeChars]; omega)
  rwa [render_mergeChars] at this

end Delb.Ser

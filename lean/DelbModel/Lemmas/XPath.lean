import DelbModel.Model.XPath.Parser
import DelbModel.Lemmas.XPath.Tokenizer
import DelbModel.Lemmas.XPath.TokenTree
import DelbModel.Lemmas.XPath.Group
import DelbModel.Lemmas.XPath.Expand
import DelbModel.Lemmas.XPath.Expr
import DelbModel.Lemmas.XPath.Step
/-!
# Helper lemmas for C16 (XPath tokenizer / parser model)

* `XPath/Tokenizer.lean` — `grab` consumes between 1 and all remaining characters; loop invariant of `tokenizeAux`
* `XPath/TokenTree.lean` — `ErrOK`, sizes, the shape invariant `okSeq` / `WF` of token trees
* `XPath/Group.lean` — `groupAux` produces well-formed trees and only positioned parsing errors
* `XPath/Expand.lean` — `expandAxes` and `partitionTokens` preserve the invariants; `axOK`
* `XPath/Expr.lean` — pattern matching facts and `parseExpr_spec`
* `XPath/Step.lean` — `parsePreds` … `parse_spec`
-/

import DelbModel.Model.Filters
namespace Delb.Filters

/-- generalisation of `c08_balanced_restores`: with `d` own frames `pre` open on top of `s`, a segment
    balanced from depth `d` consumes exactly those frames -/
theorem run_of_balancedFrom (seg : List Act) :
    ∀ (d : Nat) (pre s : Stack), pre.length = d → balancedFrom d seg = true →
      run (pre ++ s) seg = some s := by
  induction seg with
  | nil =>
    intro d pre s hlen h
    have hd : d = 0 := by simpa [balancedFrom] using h
    subst hd
    have hp : pre = [] := List.eq_nil_of_length_eq_zero hlen
    subst hp
    simp [run]
  | cons a as ih =>
    intro d pre s hlen h
    cases a with
    | push f =>
      have h' : balancedFrom (d + 1) as = true := by simpa [balancedFrom] using h
      have := ih (d + 1) (f :: pre) s (by simp [hlen]) h'
      simpa [run] using this
    | pop =>
      cases d with
      | zero => simp [balancedFrom] at h
      | succ d =>
        cases pre with
        | nil => simp at hlen
        | cons x pre =>
          have h' : balancedFrom d as = true := by simpa [balancedFrom] using h
          have := ih d pre s (by simpa using hlen) h'
          simpa [run] using this
    | read =>
      have h' : balancedFrom d as = true := by simpa [balancedFrom] using h
      have := ih d pre s hlen h'
      simpa [run] using this

/-- generalisation of `c08_guarded_independent`: two stacks that agree on their top `d` entries give
    the same reads for a segment guarded from depth `d` -/
theorem reads_of_guardedFrom (seg : List Act) :
    ∀ (d : Nat) (pre s₁ s₂ : Stack), pre.length = d → guardedFrom d seg = true →
      reads (pre ++ s₁) seg = reads (pre ++ s₂) seg := by
  induction seg with
  | nil => intro d pre s₁ s₂ _ _; simp [reads]
  | cons a as ih =>
    intro d pre s₁ s₂ hlen h
    cases a with
    | push f =>
      have h' : guardedFrom (d + 1) as = true := by simpa [guardedFrom] using h
      have := ih (d + 1) (f :: pre) s₁ s₂ (by simp [hlen]) h'
      simpa [reads] using this
    | pop =>
      cases d with
      | zero => simp [guardedFrom] at h
      | succ d =>
        cases pre with
        | nil => simp at hlen
        | cons x pre =>
          have h' : guardedFrom d as = true := by simpa [guardedFrom] using h
          have := ih d pre s₁ s₂ (by simpa using hlen) h'
          simpa [reads] using this
    | read =>
      cases d with
      | zero => simp [guardedFrom] at h
      | succ d =>
        cases pre with
        | nil => simp at hlen
        | cons x pre =>
          have h' : guardedFrom (d + 1) as = true := by simpa [guardedFrom] using h
          have := ih (d + 1) (x :: pre) s₁ s₂ hlen h'
          simpa [reads] using this

end Delb.Filters

import DelbModel.Model.XPath.Create
import DelbModel.Model.Clone
import DelbModel.Lemmas.XPathEval
import DelbModel.Lemmas.Create.Defs
import DelbModel.Lemmas.Create.Eval
import DelbModel.Lemmas.Create.Tree
import DelbModel.Lemmas.Create.NewNode
import DelbModel.Lemmas.Create.Main
import DelbModel.Lemmas.Create.Untouched
import DelbModel.Lemmas.Create.Minimal
/-!
# C15 helper lemmas

* `Create/Defs.lean` — vocabulary of the extra hypotheses (`stepPrefixesBound`, `consistentStepIn`)
* `Create/Eval.lean` — closed forms: a locatable step with bound prefixes evaluates, without errors, to
  the children passing a node-local Boolean test (`evalStep_single`)
* `Create/Tree.lean` — `modifyAtP` changes nothing a locatable step can see except strictly below the
  address (`Below`)
* `Create/NewNode.lean` — the node built for a step passes the step's tests (`stepB_new`)
* `Create/Main.lean` — the loop invariant (`createSteps_selected`)
* `Create/Untouched.lean` — only nodes with fresh identities are added (`fetchOrCreate_untouched`)
* `Create/Minimal.lean` — what is added is one chain below the deepest match, one node per missing step
  (`createSteps_shape`, `fetchOrCreate_branch`)
* this file — the up-front prefix check makes `stepPrefixesBound` derivable (`stepPrefixesBound_of_checked`)
-/
namespace Delb.XPath
open Delb.Edit

theorem locatable_of_ok {root root' : PTree} {n n' : Nat} {envQ envC : NsEnv} {ctx : List Nat} {x : XExpr}
    {r : XNode} (h : fetchOrCreate root n envQ envC ctx x = .ok (root', r, n')) : locatable x = true := by
  cases hloc : locatable x with
  | true => rfl
  | false => simp [fetchOrCreate, hloc] at h

theorem consistentStep_of_in (env : NsEnv) (s : Step) (h : consistentStepIn env s) :
    ∀ a b, a ∈ stepAttrs s → b ∈ stepAttrs s → a.1 = b.1 → a.2.1 = b.2.1 → a.2.2 = b.2.2 :=
  fun a b ha hb h1 h2 => h a b ha hb (by rw [h1]) h2

/-! ## the prefixes `fetch_or_create_by_xpath` checks up front are the ones the query looks at -/

theorem exprPrefixesBound_of_checked (env : NsEnv) : ∀ (e : Expr), exprLocatable e = true →
    exprNoEmptyPrefix e = true →
    (∀ t ∈ derivedAttrs e, (!t.1.isEmpty && (Ser.dget env (showS t.1)).isNone) = false) →
    exprPrefixesBound env e = true
  | .binop op l r, hl, hne, ha => by
    simp only [exprNoEmptyPrefix, Bool.and_eq_true] at hne
    by_cases h1 : op = "and"
    · subst h1
      simp only [exprLocatable, beq_self_eq_true, if_true, Bool.and_eq_true] at hl
      simp only [derivedAttrs, beq_self_eq_true, if_true, List.mem_append] at ha
      simp only [exprPrefixesBound, Bool.and_eq_true]
      exact ⟨exprPrefixesBound_of_checked env l hl.1 hne.1 (fun t ht => ha t (.inl ht)),
        exprPrefixesBound_of_checked env r hl.2 hne.2 (fun t ht => ha t (.inr ht))⟩
    · by_cases h2 : op = "="
      · subst h2
        cases l <;> cases r <;> simp [exprLocatable] at hl
        · rename_i v pfx n
          cases pfx with
          | none => simp [exprPrefixesBound]
          | some q =>
            have hq := ha (q, n, v) (by simp [derivedAttrs])
            have hq' : q.isEmpty = false := by simpa [exprNoEmptyPrefix] using hne.2
            simp only [hq', Bool.not_false, Bool.true_and] at hq
            cases hd : Ser.dget env (showS q) <;> simp_all [exprPrefixesBound]
        · rename_i pfx n v
          cases pfx with
          | none => simp [exprPrefixesBound]
          | some q =>
            have hq := ha (q, n, v) (by simp [derivedAttrs])
            have hq' : q.isEmpty = false := by simpa [exprNoEmptyPrefix] using hne.1
            simp only [hq', Bool.not_false, Bool.true_and] at hq
            cases hd : Ser.dget env (showS q) <;> simp_all [exprPrefixesBound]
      · simp [exprLocatable, h1, h2] at hl
  | .num _, hl, _, _ => by simp [exprLocatable] at hl
  | .str _, hl, _, _ => by simp [exprLocatable] at hl
  | .hasAttr _ _, hl, _, _ => by simp [exprLocatable] at hl
  | .attrVal _ _, hl, _, _ => by simp [exprLocatable] at hl
  | .func _ _, hl, _, _ => by simp [exprLocatable] at hl

/-- for a locatable step without empty prefixes: when the up-front check finds nothing, every prefix the
    query looks at is bound -/
theorem stepPrefixesBound_of_checked (env : NsEnv) (s : Step) (hl : stepLocatable s = true)
    (hne : stepNoEmptyPrefix s = true) (hu : unboundPrefixes env s = []) : stepPrefixesBound env s = true := by
  simp only [unboundPrefixes, List.filter_eq_nil_iff, List.mem_append, List.mem_map, Bool.not_eq_true] at hu
  simp only [stepLocatable, Bool.and_eq_true, List.all_eq_true] at hl
  simp only [stepNoEmptyPrefix, Bool.and_eq_true, List.all_eq_true] at hne
  simp only [stepPrefixesBound, Bool.and_eq_true, List.all_eq_true]
  constructor
  · cases ht : s.test with
    | name pfx l =>
      cases pfx with
      | none => rfl
      | some q =>
        have hq := hu q (.inl (by simp [ht]))
        have hq' : q.isEmpty = false := by simpa [ht] using hne.1
        simp only [hq', Bool.not_false, Bool.true_and] at hq
        cases hd : Ser.dget env (showS q) <;> simp_all [testPrefixBound]
    | _ => simp [ht, isNameTest] at hl
  · intro e he
    apply exprPrefixesBound_of_checked env e (hl.2 e he) (hne.2 e he)
    intro t hte
    exact hu t.1 (.inr ⟨t, List.mem_flatMap.2 ⟨e, he, hte⟩, rfl⟩)

theorem flatMap_unboundPrefixes_nil {env : NsEnv} {steps : List Step}
    (h : steps.flatMap (unboundPrefixes env) = []) : ∀ s ∈ steps, unboundPrefixes env s = [] := by
  simpa [List.flatMap_eq_nil_iff] using h

/-- the common part: the prefixes need to be bound only when the call gets as far as creating -/
theorem fetchOrCreate_selected_of (root root' : PTree) (n n' : Nat) (env : NsEnv) (ctx : List Nat)
    (p : Path) (r : XNode)
    (hp : p.steps.flatMap (unboundPrefixes env) = [] → ∀ s ∈ p.steps, stepPrefixesBound env s = true)
    (hc : ∀ s ∈ p.steps, consistentStepIn env s)
    (h : fetchOrCreate root n env env ctx [p] = .ok (root', r, n')) :
    evaluate root' env ctx [p] = .ok [r] := by
  have hl := locatable_of_ok h
  simp only [fetchOrCreate, hl, Bool.not_true, Bool.false_eq_true, if_false] at h
  cases hE : evaluate root env ctx [p] with
  | error e => simp [hE] at h
  | ok l =>
    match l, hE with
    | [], hE =>
      simp only [hE] at h
      cases hU : p.steps.flatMap (unboundPrefixes env) with
      | cons q qs => simp [hU] at h
      | nil =>
        simp only [hU] at h
        have hall : ∀ s ∈ p.steps, StepOk env s ∧ consistentStepIn env s := by
          intro s hs
          simp only [locatable, List.all_eq_true] at hl
          exact ⟨⟨hl s hs, hp hU s hs⟩, hc s hs⟩
        obtain ⟨h1, _, h3⟩ := createSteps_selected env p.steps root n _ root' r n' hall h
        have hr : r ≠ .doc := by
          intro hr
          obtain ⟨e1, e2⟩ := h3 hr
          simp [evaluate, evalPaths, evalPath, e1, e2, evalSteps] at hE
        have hcont : ([r] : List XNode).contains .doc = false := by
          simpa using fun e => hr e.symm
        simp only [evaluate, evalPaths, evalPath, h1, hcont, Bool.false_eq_true, if_false, addNew,
          List.contains_nil, List.nil_append]
    | [r0], hE =>
      simp only [hE, Except.ok.injEq, Prod.mk.injEq] at h
      obtain ⟨rfl, rfl, rfl⟩ := h
      exact hE
    | _ :: _ :: _, hE => simp [hE] at h

theorem fetchOrCreate_selected (root root' : PTree) (n n' : Nat) (env : NsEnv) (ctx : List Nat)
    (p : Path) (r : XNode) (hp : ∀ s ∈ p.steps, stepPrefixesBound env s = true)
    (hc : ∀ s ∈ p.steps, consistentStepIn env s)
    (h : fetchOrCreate root n env env ctx [p] = .ok (root', r, n')) :
    evaluate root' env ctx [p] = .ok [r] :=
  fetchOrCreate_selected_of root root' n n' env ctx p r (fun _ => hp) hc h

/-- no hypothesis on the bindings: the up-front check supplies it -/
theorem fetchOrCreate_selected_checked (root root' : PTree) (n n' : Nat) (env : NsEnv) (ctx : List Nat)
    (p : Path) (r : XNode) (hne : ∀ s ∈ p.steps, stepNoEmptyPrefix s = true)
    (hc : ∀ s ∈ p.steps, consistentStepIn env s)
    (h : fetchOrCreate root n env env ctx [p] = .ok (root', r, n')) :
    evaluate root' env ctx [p] = .ok [r] := by
  have hl := locatable_of_ok h
  simp only [locatable, List.all_eq_true] at hl
  exact fetchOrCreate_selected_of root root' n n' env ctx p r
    (fun hU s hs => stepPrefixesBound_of_checked env s (hl s hs) (hne s hs)
      (flatMap_unboundPrefixes_nil hU s hs)) hc h

theorem fetchOrCreate_unbound (root : PTree) (n : Nat) (envQ envC : NsEnv) (ctx : List Nat) (p : Path)
    (hl : locatable [p] = true) (hq : evaluate root envQ ctx [p] = .ok [])
    (hu : p.steps.flatMap (unboundPrefixes envC) ≠ []) :
    ∃ q, fetchOrCreate root n envQ envC ctx [p] = .error (.eval (.unknownPrefix q)) := by
  cases hU : p.steps.flatMap (unboundPrefixes envC) with
  | nil => exact absurd hU hu
  | cons q qs => exact ⟨showS q, by simp [fetchOrCreate, hl, hq, hU]⟩

end Delb.XPath

import DelbModel.Model.XPath.Create
import DelbModel.Model.Clone
import DelbModel.Lemmas.XPathEval
import DelbModel.Lemmas.Create.Defs
import DelbModel.Lemmas.Create.Eval
import DelbModel.Lemmas.Create.Tree
import DelbModel.Lemmas.Create.NewNode
import DelbModel.Lemmas.Create.Main
import DelbModel.Lemmas.Create.Untouched
/-!
# C15 helper lemmas

* `Create/Defs.lean` — vocabulary of the extra hypotheses (`stepPrefixesBound`, `consistentStepIn`)
* `Create/Eval.lean` — closed forms: a locatable step with bound prefixes evaluates, without errors, to
  the children passing a node-local Boolean test (`evalStep_single`)
* `Create/Tree.lean` — `modifyAtP` changes nothing a locatable step can see except strictly below the
  address (`Below`)
* `Create/NewNode.lean` — the node built for a step passes the step's tests (`stepB_new`)
* `Create/Main.lean` — the loop invariant (`createSteps_selected`)
* `Create/Untouched.lean` — only nodes with fresh identities are added (`fetchOrCreate_untouched`)
-/
namespace Delb.XPath
open Delb.Edit

theorem locatable_of_ok {root root' : PTree} {n n' : Nat} {envQ envC : NsEnv} {ctx : List Nat} {x : XExpr}
    {r : XNode} (h : fetchOrCreate root n envQ envC ctx x = .ok (root', r, n')) : locatable x = true := by
  cases hloc : locatable x with
  | true => rfl
  | false => simp [fetchOrCreate, hloc] at h

theorem consistentStep_of_in (env : NsEnv) (s : Step) (h : consistentStepIn env s) :
    ∀ a b, a ∈ stepAttrs s → b ∈ stepAttrs s → a.1 = b.1 → a.2.1 = b.2.1 → a.2.2 = b.2.2 :=
  fun a b ha hb h1 h2 => h a b ha hb (by rw [h1]) h2

theorem fetchOrCreate_selected (root root' : PTree) (n n' : Nat) (env : NsEnv) (ctx : List Nat)
    (p : Path) (r : XNode) (hp : ∀ s ∈ p.steps, stepPrefixesBound env s = true)
    (hc : ∀ s ∈ p.steps, consistentStepIn env s)
    (h : fetchOrCreate root n env env ctx [p] = .ok (root', r, n')) :
    evaluate root' env ctx [p] = .ok [r] := by
  have hl := locatable_of_ok h
  simp only [fetchOrCreate, hl, Bool.not_true, Bool.false_eq_true, if_false] at h
  cases hE : evaluate root env ctx [p] with
  | error e => simp [hE] at h
  | ok l =>
    match l, hE with
    | [], hE =>
      simp only [hE] at h
      have hall : ∀ s ∈ p.steps, StepOk env s ∧ consistentStepIn env s := by
        intro s hs
        simp only [locatable, List.all_eq_true] at hl
        exact ⟨⟨hl s hs, hp s hs⟩, hc s hs⟩
      obtain ⟨h1, _, h3⟩ := createSteps_selected env p.steps root n _ root' r n' hall h
      have hr : r ≠ .doc := by
        intro hr
        obtain ⟨e1, e2⟩ := h3 hr
        simp [evaluate, evalPaths, evalPath, e1, e2, evalSteps] at hE
      have hcont : ([r] : List XNode).contains .doc = false := by
        simpa using fun e => hr e.symm
      simp only [evaluate, evalPaths, evalPath, h1, hcont, Bool.false_eq_true, if_false, addNew,
        List.contains_nil, List.nil_append]
    | [r0], hE =>
      simp only [hE, Except.ok.injEq, Prod.mk.injEq] at h
      obtain ⟨rfl, rfl, rfl⟩ := h
      exact hE
    | _ :: _ :: _, hE => simp [hE] at h

end Delb.XPath

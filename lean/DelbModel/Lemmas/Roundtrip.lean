import DelbModel.Model.Serialize
/-!
# Helper lemmas for C02 (serialize / re-read round trip)
-/
namespace Delb.Ser

/-! ## escaping -/

theorem amp_lit : "&amp;".toList = ['&','a','m','p',';'] := by decide
theorem lt_lit : "&lt;".toList = ['&','l','t',';'] := by decide
theorem gt_lit : "&gt;".toList = ['&','g','t',';'] := by decide
theorem quot_lit : "&quot;".toList = ['&','q','u','o','t',';'] := by decide
theorem apos_lit : "&apos;".toList = ['&','a','p','o','s',';'] := by decide

def textTable : List (Char × List Char) := [('&', "&amp;".toList), ('<', "&lt;".toList), ('>', "&gt;".toList)]
def attrTable : List (Char × List Char) :=
  [('"', "&quot;".toList), ('&', "&amp;".toList), ('<', "&lt;".toList), ('>', "&gt;".toList)]

theorem escapeChar_textTable (c : Char) :
    escapeChar textTable c =
      if c = '&' then ['&','a','m','p',';'] else if c = '<' then ['&','l','t',';']
      else if c = '>' then ['&','g','t',';'] else [c] := by
  simp only [escapeChar, textTable, List.find?, amp_lit, lt_lit, gt_lit]
  by_cases h1 : c = '&'
  · subst h1; simp
  by_cases h2 : c = '<'
  · subst h2; simp
  by_cases h3 : c = '>'
  · subst h3; simp
  have e1 : ('&' == c) = false := by simp [Ne.symm h1]
  have e2 : ('<' == c) = false := by simp [Ne.symm h2]
  have e3 : ('>' == c) = false := by simp [Ne.symm h3]
  simp [e1, e2, e3, h1, h2, h3]

theorem escapeChar_attrTable (c : Char) :
    escapeChar attrTable c =
      if c = '"' then ['&','q','u','o','t',';'] else
      if c = '&' then ['&','a','m','p',';'] else if c = '<' then ['&','l','t',';']
      else if c = '>' then ['&','g','t',';'] else [c] := by
  simp only [escapeChar, attrTable, List.find?, amp_lit, lt_lit, gt_lit, quot_lit]
  by_cases h0 : c = '"'
  · subst h0; simp
  by_cases h1 : c = '&'
  · subst h1; simp
  by_cases h2 : c = '<'
  · subst h2; simp
  by_cases h3 : c = '>'
  · subst h3; simp
  have e0 : ('"' == c) = false := by simp [Ne.symm h0]
  have e1 : ('&' == c) = false := by simp [Ne.symm h1]
  have e2 : ('<' == c) = false := by simp [Ne.symm h2]
  have e3 : ('>' == c) = false := by simp [Ne.symm h3]
  simp [e0, e1, e2, e3, h0, h1, h2, h3]

theorem escape_textTable_safe (s : Str) :
    '<' ∉ escape textTable s ∧ '>' ∉ escape textTable s := by
  simp only [escape, List.mem_flatMap, not_exists, not_and]
  constructor <;> intro c _ <;> rw [escapeChar_textTable] <;>
    by_cases h1 : c = '&' <;> by_cases h2 : c = '<' <;> by_cases h3 : c = '>' <;>
    simp [h1, h2, h3] <;> (first | exact Ne.symm h2 | exact Ne.symm h3)

theorem escape_attrTable_safe (s : Str) :
    '<' ∉ escape attrTable s ∧ '>' ∉ escape attrTable s ∧ '"' ∉ escape attrTable s := by
  simp only [escape, List.mem_flatMap, not_exists, not_and]
  refine ⟨?_, ?_, ?_⟩ <;> intro c _ <;> rw [escapeChar_attrTable] <;>
    by_cases h0 : c = '"' <;> by_cases h1 : c = '&' <;> by_cases h2 : c = '<' <;> by_cases h3 : c = '>' <;>
    simp [h0, h1, h2, h3] <;> (first | exact Ne.symm h2 | exact Ne.symm h3 | exact Ne.symm h0)

theorem unescapeAux_step_amp (fuel : Nat) (rest : Str) :
    unescapeAux (fuel+1) ('&'::'a'::'m'::'p'::';'::rest) = '&' :: unescapeAux fuel rest := by
  simp [unescapeAux, matchEntity, entities, amp_lit, List.isPrefixOf]
theorem unescapeAux_step_lt (fuel : Nat) (rest : Str) :
    unescapeAux (fuel+1) ('&'::'l'::'t'::';'::rest) = '<' :: unescapeAux fuel rest := by
  simp [unescapeAux, matchEntity, entities, amp_lit, lt_lit, List.isPrefixOf]
theorem unescapeAux_step_gt (fuel : Nat) (rest : Str) :
    unescapeAux (fuel+1) ('&'::'g'::'t'::';'::rest) = '>' :: unescapeAux fuel rest := by
  simp [unescapeAux, matchEntity, entities, amp_lit, lt_lit, gt_lit, List.isPrefixOf]
theorem unescapeAux_step_quot (fuel : Nat) (rest : Str) :
    unescapeAux (fuel+1) ('&'::'q'::'u'::'o'::'t'::';'::rest) = '"' :: unescapeAux fuel rest := by
  simp [unescapeAux, matchEntity, entities, amp_lit, lt_lit, gt_lit, quot_lit, List.isPrefixOf]
theorem unescapeAux_step_other (fuel : Nat) (c : Char) (rest : Str) (h : c ≠ '&') :
    unescapeAux (fuel+1) (c :: rest) = c :: unescapeAux fuel rest := by
  simp [unescapeAux, h]

theorem unescapeAux_escape_text (s : Str) : ∀ fuel, (escape textTable s).length < fuel →
    unescapeAux fuel (escape textTable s) = s := by
  induction s with
  | nil => intro fuel h; cases fuel <;> simp [escape, unescapeAux]
  | cons c s ih =>
    intro fuel h
    cases fuel with
    | zero => simp at h
    | succ fuel =>
      have hc : escape textTable (c :: s) = escapeChar textTable c ++ escape textTable s := by
        simp [escape]
      rw [hc, escapeChar_textTable] at h ⊢
      have hl : (escape textTable s).length < fuel := by
        simp only [List.length_append] at h
        have : 1 ≤ (if c = '&' then ['&','a','m','p',';'] else if c = '<' then ['&','l','t',';']
            else if c = '>' then ['&','g','t',';'] else [c]).length := by
          split <;> (try split) <;> (try split) <;> simp
        omega
      by_cases h1 : c = '&'
      · subst h1; simp only [if_true, List.cons_append, List.nil_append]
        rw [unescapeAux_step_amp, ih _ hl]
      by_cases h2 : c = '<'
      · subst h2; simp only [h1, if_true, if_false, List.cons_append, List.nil_append]
        rw [unescapeAux_step_lt, ih _ hl]
      by_cases h3 : c = '>'
      · subst h3; simp only [h1, h2, if_true, if_false, List.cons_append, List.nil_append]
        rw [unescapeAux_step_gt, ih _ hl]
      simp only [h1, h2, h3, if_false, List.cons_append, List.nil_append]
      rw [unescapeAux_step_other _ _ _ h1, ih _ hl]

theorem unescape_escape_text (s : Str) : unescape (escape textTable s) = s :=
  unescapeAux_escape_text s _ (Nat.lt_succ_self _)

theorem unescapeAux_escape_attr (s : Str) : ∀ fuel, (escape attrTable s).length < fuel →
    unescapeAux fuel (escape attrTable s) = s := by
  induction s with
  | nil => intro fuel h; cases fuel <;> simp [escape, unescapeAux]
  | cons c s ih =>
    intro fuel h
    cases fuel with
    | zero => simp at h
    | succ fuel =>
      have hc : escape attrTable (c :: s) = escapeChar attrTable c ++ escape attrTable s := by
        simp [escape]
      rw [hc, escapeChar_attrTable] at h ⊢
      have hl : (escape attrTable s).length < fuel := by
        simp only [List.length_append] at h
        have : 1 ≤ (if c = '"' then ['&','q','u','o','t',';'] else if c = '&' then ['&','a','m','p',';'] else if c = '<' then ['&','l','t',';']
            else if c = '>' then ['&','g','t',';'] else [c]).length := by
          split <;> (try split) <;> (try split) <;> (try split) <;> simp
        omega
      by_cases h0 : c = '"'
      · subst h0; simp only [if_true, List.cons_append, List.nil_append]
        rw [unescapeAux_step_quot, ih _ hl]
      by_cases h1 : c = '&'
      · subst h1; simp only [h0, if_true, if_false, List.cons_append, List.nil_append]
        rw [unescapeAux_step_amp, ih _ hl]
      by_cases h2 : c = '<'
      · subst h2; simp only [h0, h1, if_true, if_false, List.cons_append, List.nil_append]
        rw [unescapeAux_step_lt, ih _ hl]
      by_cases h3 : c = '>'
      · subst h3; simp only [h0, h1, h2, if_true, if_false, List.cons_append, List.nil_append]
        rw [unescapeAux_step_gt, ih _ hl]
      simp only [h0, h1, h2, h3, if_false, List.cons_append, List.nil_append]
      rw [unescapeAux_step_other _ _ _ h1, ih _ hl]

theorem unescape_escape_attr (s : Str) : unescape (escape attrTable s) = s :=
  unescapeAux_escape_attr s _ (Nat.lt_succ_self _)


/-! ## emitting never fails when every namespace has a prefix -/

theorem pfx_ok_iff {m : Dict} {ns p : String} : pfx m ns = .ok p ↔ dget m ns = some p := by
  unfold pfx; cases dget m ns <;> simp

theorem pfx_total {m : Dict} {ns : String} (h : (dget m ns).isSome) : ∃ p, pfx m ns = .ok p := by
  unfold pfx; cases hd : dget m ns with
  | none => simp [hd] at h
  | some p => exact ⟨p, rfl⟩

theorem mem_insertSorted {a b : Attr} : ∀ {l : List Attr}, a ∈ insertSorted b l ↔ a = b ∨ a ∈ l
  | [] => by simp [insertSorted]
  | c :: l => by
    simp only [insertSorted]
    split
    · simp
    · simp only [List.mem_cons, mem_insertSorted (l := l)]
      constructor <;> (intro h; rcases h with h | h | h <;> simp [h])

theorem mem_sortAttrs {a : Attr} : ∀ {l : List Attr}, a ∈ sortAttrs l ↔ a ∈ l
  | [] => by simp [sortAttrs]
  | b :: l => by
    have ih := mem_sortAttrs (a := a) (l := l)
    simp only [sortAttrs, List.foldr_cons] at ih ⊢
    rw [mem_insertSorted, ih]; simp

theorem attrsData_total {m : Dict} : ∀ (as : List Attr), (∀ a ∈ as, (dget m a.ns).isSome) →
    ∃ ad, attrsData m as = .ok ad
  | [], _ => ⟨[], rfl⟩
  | a :: as, h => by
    obtain ⟨p, hp⟩ := pfx_total (h a (by simp))
    obtain ⟨ad, had⟩ := attrsData_total as (fun b hb => h b (by simp [hb]))
    exact ⟨((p ++ a.name).toList, a.value) :: ad, by simp only [attrsData, hp, had]⟩

theorem emitNode_tag_inv {m : Dict} {ns name attrs kids toks}
    (h : emitNode m (.tag ns name attrs kids) = .ok toks) :
    ∃ p ad ks, pfx m ns = .ok p ∧ attrsData m (sortAttrs attrs) = .ok ad ∧ emitKids m kids = .ok ks ∧
      toks = if kids.isEmpty then [.stag (p ++ name).toList ad true]
             else .stag (p ++ name).toList ad false :: ks ++ [.etag (p ++ name).toList] := by
  rw [emitNode.eq_1] at h
  split at h
  · rename_i p ad ks hp had hks
    refine ⟨p, ad, ks, hp, had, hks, ?_⟩
    split at h <;> simp_all
  all_goals simp at h

mutual
theorem emitNode_total {m : Dict} : ∀ (t : Node), (∀ ns ∈ treeNamespaces t, (dget m ns).isSome) →
    ∃ toks, emitNode m t = .ok toks
  | .tag ns name attrs kids, h => by
    simp only [treeNamespaces, List.mem_cons, List.mem_append, List.mem_map] at h
    obtain ⟨p, hp⟩ := pfx_total (h ns (Or.inl (Or.inl rfl)))
    obtain ⟨ad, had⟩ := attrsData_total (m := m) (sortAttrs attrs)
      (fun a ha => h a.ns (Or.inl (Or.inr ⟨a, mem_sortAttrs.mp ha, rfl⟩)))
    obtain ⟨ks, hks⟩ := emitKids_total kids (fun x hx => h x (Or.inr hx))
    rw [emitNode.eq_1]
    simp only [hp, had, hks]
    split <;> exact ⟨_, rfl⟩
  | .text s, _ => by rw [emitNode.eq_2]; split <;> exact ⟨_, rfl⟩
  | .comment s, _ => ⟨_, rfl⟩
  | .pi t s, _ => ⟨_, rfl⟩
theorem emitKids_total {m : Dict} : ∀ (ks : List Node), (∀ ns ∈ kidsNamespaces ks, (dget m ns).isSome) →
    ∃ toks, emitKids m ks = .ok toks
  | [], _ => ⟨[], rfl⟩
  | k :: ks, h => by
    simp only [kidsNamespaces, List.mem_append] at h
    obtain ⟨a, ha⟩ := emitNode_total k (fun x hx => h x (Or.inl hx))
    obtain ⟨b, hb⟩ := emitKids_total ks (fun x hx => h x (Or.inr hx))
    exact ⟨a ++ b, by rw [emitKids.eq_2]; simp only [ha, hb]⟩
end

theorem emitRoot_total {m : Dict} (t : Node) (h : ∀ ns ∈ treeNamespaces t, (dget m ns).isSome) :
    ∃ toks, emitRoot m t = .ok toks := by
  obtain ⟨toks, ht⟩ := emitNode_total t h
  cases t with
  | tag ns name attrs kids =>
    simp only [emitRoot, ht]
    split
    · simp_all
    · exact ⟨_, rfl⟩
    · exact ⟨_, rfl⟩
  | text s => exact ⟨toks, ht⟩
  | comment s => exact ⟨toks, ht⟩
  | pi t s => exact ⟨toks, ht⟩

/-! ## written names -/

theorem span_loop_noStop {α} (p : α → Bool) : ∀ (l acc : List α), (∀ x ∈ l, p x = true) →
    List.span.loop p l acc = (acc.reverse ++ l, [])
  | [], acc, _ => by simp [List.span.loop]
  | a :: l, acc, h => by
    have ha : p a = true := h a (by simp)
    simp only [List.span.loop, ha]
    rw [span_loop_noStop p l (a :: acc) (fun x hx => h x (by simp [hx]))]
    simp

theorem span_loop_stop {α} (p : α → Bool) (b : α) (r : List α) (hb : p b = false) :
    ∀ (l acc : List α), (∀ x ∈ l, p x = true) →
    List.span.loop p (l ++ b :: r) acc = (acc.reverse ++ l, b :: r)
  | [], acc, _ => by simp [List.span.loop, hb]
  | a :: l, acc, h => by
    have ha : p a = true := h a (by simp)
    simp only [List.cons_append, List.span.loop, ha]
    rw [span_loop_stop p b r hb l (a :: acc) (fun x hx => h x (by simp [hx]))]
    simp

theorem splitQName_noColon (l : Str) (h : ':' ∉ l) : splitQName l = (none, l) := by
  unfold splitQName List.span
  rw [span_loop_noStop _ l [] (fun x hx => by
    simp only [bne_iff_ne, ne_eq]; intro e; subst e; exact h hx)]
  simp

theorem splitQName_colon (q l : Str) (h : ':' ∉ q) : splitQName (q ++ ':' :: l) = (some q, l) := by
  unfold splitQName List.span
  rw [span_loop_stop _ ':' l (by simp) q [] (fun x hx => by
    simp only [bne_iff_ne, ne_eq]; intro e; subst e; exact h hx)]
  simp

theorem chopColon_append (q : String) : chopColon (q ++ ":") = q := by
  unfold chopColon
  have : (q ++ ":").toList = q.toList ++ [':'] := by rw [String.toList_append]; rfl
  rw [this, List.dropLast_concat, String.ofList_toList]

theorem xmlns_lit : "xmlns".toList = ['x','m','l','n','s'] := by decide
theorem xmlnsc_lit : "xmlns:".toList = ['x','m','l','n','s',':'] := by decide
theorem colon_lit : ":".toList = [':'] := by decide

/-! ## dictionaries, scopes -/

theorem dget_mem : ∀ {m : Dict} {k v : String}, dget m k = some v → (k, v) ∈ m
  | [], _, _, h => by simp [dget] at h
  | (k', v') :: rest, k, v, h => by
    simp only [dget] at h
    split at h
    · rename_i hk
      have : k' = k := by simpa using hk
      simp_all
    · exact List.mem_cons_of_mem _ (dget_mem h)

theorem mem_dget : ∀ {m : Dict} {k v : String}, (dkeys m).Nodup → (k, v) ∈ m → dget m k = some v
  | [], _, _, _, h => by simp at h
  | (k', v') :: rest, k, v, hn, h => by
    simp only [dkeys, List.map_cons, List.nodup_cons, List.mem_map, not_exists, not_and] at hn
    simp only [dget]
    rcases List.mem_cons.mp h with h | h
    · cases h; simp
    · have hne : ¬ (k' = k) := fun e => hn.1 (k, v) h (by simp [e])
      simp only [beq_iff_eq, hne, if_false]
      exact mem_dget hn.2 h

/-- the declaration an attribute token makes, if any -/
def attrDeclOf (kv : Str × Str) : Option (String × String) :=
  if kv.1 == "xmlns".toList then some ("", String.ofList kv.2)
  else match splitQName kv.1 with
    | (some p, l) => if p == "xmlns".toList then some (String.ofList l, String.ofList kv.2) else none
    | _ => none

theorem scopeOf_step (sc : Scope) (kv : Str × Str) :
    (if kv.1 == "xmlns".toList then ("", String.ofList kv.2) :: sc
      else match splitQName kv.1 with
        | (some p, l) => if p == "xmlns".toList then (String.ofList l, String.ofList kv.2) :: sc else sc
        | _ => sc) = (match attrDeclOf kv with | some e => e :: sc | none => sc) := by
  unfold attrDeclOf
  rcases hs : splitQName kv.1 with ⟨a, l⟩
  generalize (kv.1 == "xmlns".toList) = b1
  cases b1
  · cases a with
    | none => rfl
    | some p =>
      show (if (p == "xmlns".toList) = true then _ else _) =
        (match (if (p == "xmlns".toList) = true then _ else _) with | some e => e :: sc | none => sc)
      generalize (p == "xmlns".toList) = b
      cases b <;> rfl
  · rfl

theorem scopeOf_eq : ∀ (attrs : List (Str × Str)) (outer : Scope),
    scopeOf attrs outer = (attrs.filterMap attrDeclOf).reverse ++ outer
  | [], outer => rfl
  | kv :: attrs, outer => by
    have hstep : scopeOf (kv :: attrs) outer =
        scopeOf attrs (match attrDeclOf kv with | some e => e :: outer | none => outer) := by
      rw [← scopeOf_step]; rfl
    rw [hstep, scopeOf_eq attrs, List.filterMap_cons]
    cases attrDeclOf kv <;> simp

theorem isDecl_false_declOf {k : Str} {v : Str} (h : isDecl k = false) : attrDeclOf (k, v) = none := by
  simp only [isDecl, Bool.or_eq_false_iff] at h
  obtain ⟨h1, h2⟩ := h
  unfold attrDeclOf
  simp only [h1, Bool.false_eq_true, if_false]
  rcases hs : splitQName k with ⟨a, l⟩
  rw [hs] at h2
  cases a with
  | none => rfl
  | some p =>
    have : (p == "xmlns".toList) = false := by
      cases hp : (p == "xmlns".toList) with
      | false => rfl
      | true =>
        have : p = "xmlns".toList := by simpa using hp
        subst this
        simp at h2
    simp only [this, Bool.false_eq_true, if_false]

theorem scopeOf_noDecl (attrs : List (Str × Str)) (outer : Scope)
    (h : ∀ kv ∈ attrs, isDecl kv.1 = false) : scopeOf attrs outer = outer := by
  rw [scopeOf_eq]
  have : attrs.filterMap attrDeclOf = [] := by
    rw [List.filterMap_eq_nil_iff]
    intro kv hkv; exact isDecl_false_declOf (h kv hkv)
  simp [this]

theorem scopeOf_append (a b : List (Str × Str)) (outer : Scope) :
    scopeOf (a ++ b) outer = scopeOf b (scopeOf a outer) := by
  unfold scopeOf; rw [List.foldl_append]

theorem readAttrs_decls (sc : Scope) : ∀ (a b : List (Str × Str)), (∀ kv ∈ a, isDecl kv.1 = true) →
    readAttrs sc (a ++ b) = readAttrs sc b
  | [], b, _ => rfl
  | (k, v) :: a, b, h => by
    have hk : isDecl k = true := h (k, v) (by simp)
    simp only [List.cons_append, readAttrs, hk, if_true]
    exact readAttrs_decls sc a b (fun kv hkv => h kv (by simp [hkv]))

/-! ## the declarations written on the root and the scope they give -/

/-- what the round trip needs of the prefix map -/
structure MapCtx (m : Dict) : Prop where
  injective : ∀ ns₁ ns₂ p, dget m ns₁ = some p → dget m ns₂ = some p → ns₁ = ns₂
  shape : ∀ ns p, dget m ns = some p → PrefixShape p
  keysNodup : (dkeys m).Nodup
  xml : ∀ ns, dget m ns = some "xml:" → ns = Gen.xmlNamespace
  xmlns : ∀ ns, dget m ns = some "xmlns:" → ns = Gen.xmlnsNamespace

/-- the scope every element of a serialized document is read in -/
def rootScope (m : Dict) : Scope := scopeOf (declarations m) []

def defaultDecl (m : Dict) : List (Str × Str) :=
  match m.find? (fun e => e.2 == "") with
  | some (ns, _) => if ns == "" then [] else [("xmlns".toList, ns.toList)]
  | none => []

def prefixedOf (m : Dict) : Dict :=
  m.filter (fun e => e.2 != "" && !Gen.globalPrefixes.contains (chopColon e.2))

def declFor (m : Dict) (p : String) : Option (Str × Str) :=
  match (prefixedOf m).find? (fun e => e.2 == p) with
  | some (ns, _) => some (("xmlns:" ++ chopColon p).toList, ns.toList)
  | none => none

theorem declarations_split (m : Dict) :
    declarations m = defaultDecl m ++ (((prefixedOf m).map (·.2)).foldr insertStr []).filterMap (declFor m) := rfl

theorem mem_insertStr_iff {a b : String} : ∀ {l : List String}, a ∈ insertStr b l ↔ a = b ∨ a ∈ l
  | [] => by simp [insertStr]
  | c :: l => by
    simp only [insertStr]
    split
    · simp
    · simp only [List.mem_cons, mem_insertStr_iff (l := l)]
      constructor <;> (intro h; rcases h with h | h | h <;> simp [h])

theorem mem_sortStr_iff {a : String} : ∀ {l : List String}, a ∈ l.foldr insertStr [] ↔ a ∈ l
  | [] => by simp
  | b :: l => by
    rw [List.foldr_cons, mem_insertStr_iff, mem_sortStr_iff (l := l)]; simp

theorem xmlnsq_toList (q : String) : ("xmlns:" ++ q).toList = "xmlns".toList ++ ':' :: q.toList := by
  rw [String.toList_append, xmlnsc_lit, xmlns_lit]; rfl

theorem colon_notin_xmlns : ':' ∉ "xmlns".toList := by rw [xmlns_lit]; decide

theorem declOf_eq_default (k v : Str) (h : k = "xmlns".toList) :
    attrDeclOf (k, v) = some ("", String.ofList v) := by
  have hb : (k == "xmlns".toList) = true := by rw [h]; exact beq_self_eq_true _
  unfold attrDeclOf
  simp only [hb, if_true]

theorem declOf_eq_prefixed (k v l : Str) (h : k = "xmlns".toList ++ ':' :: l) :
    attrDeclOf (k, v) = some (String.ofList l, String.ofList v) := by
  have h1 : (k == "xmlns".toList) = false := by
    rw [beq_eq_false_iff_ne, h]; intro h
    have := congrArg List.length h
    simp only [List.length_append, List.length_cons] at this
    omega
  have h2 : splitQName k = (some "xmlns".toList, l) := by
    rw [h]; exact splitQName_colon _ _ colon_notin_xmlns
  have h3 : ("xmlns".toList == "xmlns".toList) = true := beq_self_eq_true _
  unfold attrDeclOf
  simp only [h1, Bool.false_eq_true, if_false, h2, h3, if_true]

theorem declOf_default (ns : String) : attrDeclOf ("xmlns".toList, ns.toList) = some ("", ns) := by
  rw [declOf_eq_default _ _ rfl, String.ofList_toList]

theorem declOf_prefixed (q ns : String) :
    attrDeclOf (("xmlns:" ++ q).toList, ns.toList) = some (q, ns) := by
  rw [declOf_eq_prefixed _ _ _ (xmlnsq_toList q), String.ofList_toList, String.ofList_toList]

theorem isDecl_default : isDecl "xmlns".toList = true := by
  unfold isDecl; rw [beq_self_eq_true]; rfl

theorem isDecl_prefixed (q : String) : isDecl ("xmlns:" ++ q).toList = true := by
  unfold isDecl
  rw [xmlnsq_toList, splitQName_colon _ _ colon_notin_xmlns, beq_self_eq_true, Bool.or_true]

theorem mem_rootScope {m : Dict} {e : String × String} :
    e ∈ rootScope m ↔ ∃ kv ∈ declarations m, attrDeclOf kv = some e := by
  unfold rootScope
  rw [scopeOf_eq]
  simp only [List.append_nil, List.mem_reverse, List.mem_filterMap]

theorem append_colon_ne_empty (q : String) : q ++ ":" ≠ "" := by
  intro h
  have := congrArg String.toList h
  rw [String.toList_append, colon_lit] at this
  have := congrArg List.length this
  simp at this

theorem shape_nonempty {p : String} (h : PrefixShape p) (hp : p ≠ "") :
    ∃ q : String, p = q ++ ":" ∧ q ≠ "" ∧ ':' ∉ q.toList := by
  rcases h with h | h
  · exact absurd h hp
  · exact h

theorem mem_prefixedOf {m : Dict} {ns p : String} :
    (ns, p) ∈ prefixedOf m ↔ (ns, p) ∈ m ∧ p ≠ "" ∧ chopColon p ≠ "xml" ∧ chopColon p ≠ "xmlns" := by
  unfold prefixedOf
  simp only [List.mem_filter, Bool.and_eq_true, bne_iff_ne, ne_eq, Bool.not_eq_true', Gen.globalPrefixes,
    List.contains_cons, List.contains_nil, Bool.or_false, Bool.or_eq_false_iff, beq_eq_false_iff_ne]

theorem rootScope_sound {m : Dict} (hc : MapCtx m) {q ns : String} (h : (q, ns) ∈ rootScope m) :
    (q = "" ∧ ns ≠ "" ∧ dget m ns = some "") ∨ (q ≠ "" ∧ dget m ns = some (q ++ ":")) := by
  obtain ⟨kv, hkv, hd⟩ := mem_rootScope.mp h
  rw [declarations_split, List.mem_append] at hkv
  rcases hkv with hkv | hkv
  · unfold defaultDecl at hkv
    split at hkv
    · rename_i ns' x hf
      split at hkv
      · simp at hkv
      · rename_i hne
        rw [List.mem_singleton] at hkv
        subst hkv
        rw [declOf_default] at hd
        cases hd
        have hx : x = "" := by simpa using List.find?_some hf
        subst hx
        exact Or.inl ⟨rfl, by simpa using hne, mem_dget hc.keysNodup (List.mem_of_find?_eq_some hf)⟩
    · simp at hkv
  · rw [List.mem_filterMap] at hkv
    obtain ⟨p, _, hp⟩ := hkv
    unfold declFor at hp
    split at hp
    · rename_i ns' x hf
      have hx : x = p := by simpa using List.find?_some hf
      subst hx
      have hmem := mem_prefixedOf.mp (List.mem_of_find?_eq_some hf)
      have hdg := mem_dget hc.keysNodup hmem.1
      obtain ⟨q', hq', hq'ne, _⟩ := shape_nonempty (hc.shape _ _ hdg) hmem.2.1
      subst hq'
      rw [chopColon_append] at hp
      cases hp
      rw [declOf_prefixed] at hd
      cases hd
      exact Or.inr ⟨hq'ne, hdg⟩
    · simp at hp

theorem rootScope_complete_default {m : Dict} (hc : MapCtx m) {ns : String}
    (h : dget m ns = some "") (hne : ns ≠ "") : ("", ns) ∈ rootScope m := by
  refine mem_rootScope.mpr ⟨("xmlns".toList, ns.toList), ?_, declOf_default ns⟩
  rw [declarations_split, List.mem_append]
  left
  unfold defaultDecl
  cases hf : m.find? (fun e => e.2 == "") with
  | none =>
    rw [List.find?_eq_none] at hf
    exact absurd (hf _ (dget_mem h)) (by simp)
  | some e =>
    obtain ⟨ns', x⟩ := e
    have hx : x = "" := by simpa using List.find?_some hf
    subst hx
    have := hc.injective _ _ _ (mem_dget hc.keysNodup (List.mem_of_find?_eq_some hf)) h
    subst this
    have hb : (ns' == "") = false := by simpa using hne
    simp only [hb, Bool.false_eq_true, if_false, List.mem_singleton]

theorem rootScope_complete_prefixed {m : Dict} (hc : MapCtx m) {q ns : String}
    (h : dget m ns = some (q ++ ":")) (hx : q ≠ "xml") (hxs : q ≠ "xmlns") : (q, ns) ∈ rootScope m := by
  refine mem_rootScope.mpr ⟨(("xmlns:" ++ q).toList, ns.toList), ?_, declOf_prefixed q ns⟩
  rw [declarations_split, List.mem_append]
  right
  have hpm : (ns, q ++ ":") ∈ prefixedOf m :=
    mem_prefixedOf.mpr ⟨dget_mem h, append_colon_ne_empty q, by rw [chopColon_append]; exact hx,
      by rw [chopColon_append]; exact hxs⟩
  rw [List.mem_filterMap]
  refine ⟨q ++ ":", mem_sortStr_iff.mpr (List.mem_map.mpr ⟨_, hpm, rfl⟩), ?_⟩
  unfold declFor
  cases hf : (prefixedOf m).find? (fun e => e.2 == q ++ ":") with
  | none =>
    rw [List.find?_eq_none] at hf
    exact absurd (hf _ hpm) (by simp)
  | some e =>
    obtain ⟨ns', x⟩ := e
    have hx : x = q ++ ":" := by simpa using List.find?_some hf
    subst hx
    have hmem := mem_prefixedOf.mp (List.mem_of_find?_eq_some hf)
    have := hc.injective _ _ _ (mem_dget hc.keysNodup hmem.1) h
    subst this
    simp only [chopColon_append]

/-! ## resolving written names -/

theorem resolve_prefixed {m : Dict} (hc : MapCtx m) {q ns : String}
    (h : dget m ns = some (q ++ ":")) (hq : q ≠ "") (hns : ns ≠ Gen.xmlnsNamespace) :
    resolve (rootScope m) q = some ns := by
  unfold resolve
  by_cases hx : q = "xml"
  · subst hx
    rw [hc.xml ns h]; rfl
  · have hxs : q ≠ "xmlns" := by
      intro e; subst e; exact hns (hc.xmlns ns h)
    have hb : (q == "xml") = false := by simpa using hx
    simp only [hb, Bool.false_eq_true, if_false]
    have hmem := rootScope_complete_prefixed hc h hx hxs
    cases hf : (rootScope m).find? (fun e => e.1 == q) with
    | none =>
      rw [List.find?_eq_none] at hf
      exact absurd (hf _ hmem) (by simp)
    | some e =>
      obtain ⟨q', ns'⟩ := e
      have hq' : q' = q := by simpa using List.find?_some hf
      subst hq'
      rcases rootScope_sound hc (List.mem_of_find?_eq_some hf) with h' | h'
      · exact absurd h'.1 hq
      · rw [hc.injective _ _ _ h'.2 h]

theorem resolve_default {m : Dict} (hc : MapCtx m) {ns : String} (h : dget m ns = some "") :
    resolve (rootScope m) "" = some ns := by
  unfold resolve
  have hb : ("" == "xml") = false := by decide
  simp only [hb, Bool.false_eq_true, if_false]
  cases hf : (rootScope m).find? (fun e => e.1 == "") with
  | none =>
    by_cases hne : ns = ""
    · subst hne; rfl
    · rw [List.find?_eq_none] at hf
      exact absurd (hf _ (rootScope_complete_default hc h hne)) (by simp)
  | some e =>
    obtain ⟨q', ns'⟩ := e
    have hq' : q' = "" := by simpa using List.find?_some hf
    subst hq'
    rcases rootScope_sound hc (List.mem_of_find?_eq_some hf) with h' | h'
    · rw [hc.injective _ _ _ h'.2.2 h]
    · exact absurd rfl h'.1

theorem empty_toList : "".toList = [] := by decide
theorem ofList_nil : String.ofList [] = "" := by decide

theorem qname_resolve {m : Dict} (hc : MapCtx m) {ns p name : String}
    (h : dget m ns = some p) (hns : ns ≠ Gen.xmlnsNamespace) (hname : ':' ∉ name.toList) :
    ∃ pq, splitQName (p ++ name).toList = (pq, name.toList) ∧
      resolve (rootScope m) (String.ofList (pq.getD [])) = some ns ∧
      pq ≠ some "xmlns".toList ∧ (pq = none → p = "") := by
  rcases hc.shape _ _ h with hp | ⟨q, hp, hq, hqc⟩
  · subst hp
    refine ⟨none, ?_, ?_, by simp, fun _ => rfl⟩
    · rw [String.toList_append, empty_toList, List.nil_append]
      exact splitQName_noColon _ hname
    · show resolve (rootScope m) (String.ofList []) = some ns
      rw [ofList_nil]; exact resolve_default hc h
  · subst hp
    refine ⟨some q.toList, ?_, ?_, ?_, by simp⟩
    · rw [String.toList_append, String.toList_append, colon_lit, List.append_assoc]
      exact splitQName_colon _ _ hqc
    · show resolve (rootScope m) (String.ofList q.toList) = some ns
      rw [String.ofList_toList]; exact resolve_prefixed hc h hq hns
    · intro e
      have : q = "xmlns" := String.toList_inj.mp (Option.some.inj e)
      subst this
      exact hns (hc.xmlns ns h)

/-! ## attributes -/

theorem isDecl_written {m : Dict} (hc : MapCtx m) {ns p name : String}
    (h : dget m ns = some p) (hns : ns ≠ Gen.xmlnsNamespace) (hname : ':' ∉ name.toList)
    (hx : name ≠ "xmlns") : isDecl (p ++ name).toList = false := by
  obtain ⟨pq, hs, _, hpq, hnone⟩ := qname_resolve (name := name) hc h hns hname
  unfold isDecl
  rw [hs, Bool.or_eq_false_iff]
  constructor
  · rw [beq_eq_false_iff_ne]
    intro e
    rcases hc.shape _ _ h with hp | ⟨q, hp, _, _⟩
    · subst hp
      rw [String.toList_append, empty_toList, List.nil_append] at e
      exact hx (String.toList_inj.mp e)
    · subst hp
      have : ':' ∈ (q ++ ":" ++ name).toList := by
        rw [String.toList_append, String.toList_append, colon_lit]; simp
      rw [e] at this
      exact colon_notin_xmlns this
  · rw [beq_eq_false_iff_ne]; exact hpq

/-- conditions on an attribute under which it is written and read back unchanged -/
def AttrOk (a : Attr) : Prop :=
  ':' ∉ a.name.toList ∧ a.ns ≠ Gen.xmlnsNamespace ∧ a.name ≠ "xmlns"

theorem attrsData_cons_inv {m : Dict} {a : Attr} {as : List Attr} {ad : List (Str × Str)}
    (h : attrsData m (a :: as) = .ok ad) :
    ∃ p rest, pfx m a.ns = .ok p ∧ attrsData m as = .ok rest ∧
      ad = ((p ++ a.name).toList, a.value) :: rest := by
  rw [attrsData] at h
  split at h
  · rename_i p rest hp hrest
    exact ⟨p, rest, hp, hrest, by cases h; rfl⟩
  all_goals cases h

theorem readAttrs_attrsData {m : Dict} (hc : MapCtx m) : ∀ (as : List Attr) (ad : List (Str × Str)),
    attrsData m as = .ok ad → (∀ a ∈ as, AttrOk a) →
    readAttrs (rootScope m) ad = some as ∧ ∀ kv ∈ ad, isDecl kv.1 = false
  | [], ad, h, _ => by
    cases h; exact ⟨rfl, by simp⟩
  | a :: as, ad, h, hok => by
    obtain ⟨p, rest, hp, hrest, had⟩ := attrsData_cons_inv h
    subst had
    obtain ⟨ih1, ih2⟩ := readAttrs_attrsData hc as rest hrest (fun b hb => hok b (by simp [hb]))
    obtain ⟨hcol, hns, hx⟩ := hok a (by simp)
    have hd := pfx_ok_iff.mp hp
    have hdecl := isDecl_written hc hd hns hcol hx
    obtain ⟨pq, hs, hr, _, _⟩ := qname_resolve (name := a.name) hc hd hns hcol
    constructor
    · rw [readAttrs]
      simp only [hdecl, Bool.false_eq_true, if_false, hs, hr, ih1, String.ofList_toList]
    · intro kv hkv
      rcases List.mem_cons.mp hkv with e | e
      · subst e; exact hdecl
      · exact ih2 kv e

/-! ## text merging: the builder's left-to-right merge is `mergeKids` -/

/-- what the builder does with a finished child -/
def pushNode (n : Node) (acc : List Node) : List Node :=
  match n with
  | .text s => pushText s acc
  | n => n :: acc

def pushAll (acc : List Node) (ns : List Node) : List Node :=
  ns.foldl (fun acc n => pushNode n acc) acc

/-- glue the builder's (reversed) children so far to an already merged remainder -/
def attach : List Node → List Node → List Node
  | .text t :: r, .text s :: l => r.reverse ++ .text (t ++ s) :: l
  | acc, l => acc.reverse ++ l

theorem attach_nil_left (l : List Node) : attach [] l = l := by
  unfold attach; simp

theorem mergeKids_text_nil (ns : List Node) : mergeKids (.text [] :: ns) = mergeKids ns := by
  rw [mergeKids]
  split
  · rename_i t r h; rw [h]; rfl
  · simp

theorem pushText_nil (acc : List Node) : pushText [] acc = acc := by
  unfold pushText
  split
  · simp
  · simp

theorem mergeKids_text_cons (s : Str) (ns : List Node) :
    mergeKids (.text s :: ns) =
      match mergeKids ns with
      | .text t :: rest' => .text (s ++ t) :: rest'
      | rest' => if s = [] then rest' else .text s :: rest' := by
  rw [mergeKids]; rfl

theorem pushAll_reverse : ∀ (ns acc : List Node), (pushAll acc ns).reverse = attach acc (mergeKids ns)
  | [], acc => by
    simp only [pushAll, List.foldl_nil, mergeKids]
    unfold attach; split
    · rename_i h; cases h
    · simp
  | n :: ns, acc => by
    have ih := pushAll_reverse ns
    simp only [pushAll, List.foldl_cons] at ih ⊢
    rw [ih]
    cases n with
    | text s =>
      simp only [pushNode]
      by_cases hs : s = []
      · subst hs
        rw [pushText_nil, mergeKids_text_nil]
      · rw [mergeKids_text_cons]
        have hse : s.isEmpty = false := by cases s <;> simp_all
        rcases acc with _ | ⟨a, r⟩ <;> (try cases a) <;>
          (rcases hm : mergeKids ns with _ | ⟨x, xs⟩) <;> (try cases x) <;>
          simp [attach, pushText, hs, hse]
    | tag ns' name attrs kids =>
      simp only [pushNode, mergeKids]
      rcases acc with _ | ⟨a, r⟩ <;> (try cases a) <;> simp [attach]
    | comment c =>
      simp only [pushNode, mergeKids]
      rcases acc with _ | ⟨a, r⟩ <;> (try cases a) <;> simp [attach]
    | pi t c =>
      simp only [pushNode, mergeKids]
      rcases acc with _ | ⟨a, r⟩ <;> (try cases a) <;> simp [attach]

/-! ## single steps of the builder -/

theorem buildAux_stag_child {qn : Str} {attrs : List (Str × Str)} {sc : Bool} {ts : List Tok}
    {f : Frame} {fs : List Frame} {S : Scope} {pq : Option Str} {l : Str} {ns : String} {as : List Attr}
    (hscope : scopeOf attrs f.scope = S)
    (hs : splitQName qn = (pq, l)) (hr : resolve S (String.ofList (pq.getD [])) = some ns)
    (ha : readAttrs S attrs = some as) :
    buildAux (.stag qn attrs sc :: ts) (f :: fs) none =
      if sc then
        buildAux ts ({ f with kids := .tag ns (String.ofList l) as [] :: f.kids } :: fs) none
      else buildAux ts ({ qname := qn, ns := ns, name := String.ofList l, attrs := as, scope := S, kids := [] } :: f :: fs) none := by
  rw [buildAux.eq_3]
  simp only [Option.isSome_none, Bool.false_eq_true, if_false, hscope, hs, hr, ha]

theorem buildAux_stag_root {qn : Str} {attrs : List (Str × Str)} {sc : Bool} {ts : List Tok}
    {S : Scope} {pq : Option Str} {l : Str} {ns : String} {as : List Attr}
    (hscope : scopeOf attrs [] = S)
    (hs : splitQName qn = (pq, l)) (hr : resolve S (String.ofList (pq.getD [])) = some ns)
    (ha : readAttrs S attrs = some as) :
    buildAux (.stag qn attrs sc :: ts) [] none =
      if sc then buildAux ts [] (some (.tag ns (String.ofList l) as []))
      else buildAux ts [{ qname := qn, ns := ns, name := String.ofList l, attrs := as, scope := S, kids := [] }] none := by
  rw [buildAux.eq_4]
  simp only [Option.isSome_none, Bool.false_eq_true, if_false, hscope, hs, hr, ha]

theorem buildAux_etag_child (qn : Str) (ts : List Tok) (f g : Frame) (gs : List Frame) (done : Option Node)
    (h : f.qname = qn) :
    buildAux (.etag qn :: ts) (f :: g :: gs) done =
      buildAux ts ({ g with kids := .tag f.ns f.name f.attrs f.kids.reverse :: g.kids } :: gs) done := by
  rw [buildAux]
  simp only [h, bne_self_eq_false, Bool.false_eq_true, if_false]

theorem buildAux_etag_root (qn : Str) (ts : List Tok) (f : Frame) (done : Option Node)
    (h : f.qname = qn) :
    buildAux (.etag qn :: ts) [f] done =
      buildAux ts [] (some (.tag f.ns f.name f.attrs f.kids.reverse)) := by
  rw [buildAux]
  simp only [h, bne_self_eq_false, Bool.false_eq_true, if_false]

theorem buildAux_chars (s : Str) (ts : List Tok) (f : Frame) (fs : List Frame) (done : Option Node) :
    buildAux (.chars s :: ts) (f :: fs) done =
      buildAux ts ({ f with kids := pushText s f.kids } :: fs) done := by
  rw [buildAux]

theorem buildAux_comment (s : Str) (ts : List Tok) (f : Frame) (fs : List Frame) (done : Option Node) :
    buildAux (.comment s :: ts) (f :: fs) done =
      buildAux ts ({ f with kids := .comment s :: f.kids } :: fs) done := by
  rw [buildAux]

theorem buildAux_pi (t : String) (s : Str) (ts : List Tok) (f : Frame) (fs : List Frame) (done : Option Node) :
    buildAux (.pi t s :: ts) (f :: fs) done =
      buildAux ts ({ f with kids := .pi t s :: f.kids } :: fs) done := by
  rw [buildAux]

/-! ## the round trip -/

theorem emitKids_cons_inv {m : Dict} {k : Node} {ks : List Node} {toks : List Tok}
    (h : emitKids m (k :: ks) = .ok toks) :
    ∃ a b, emitNode m k = .ok a ∧ emitKids m ks = .ok b ∧ toks = a ++ b := by
  rw [emitKids.eq_2] at h
  split at h
  · rename_i a b ha hb
    exact ⟨a, b, ha, hb, by cases h; rfl⟩
  all_goals cases h

/-- what the start tag of a serializable element is read as, in the root scope -/
theorem stag_read {m : Dict} (hc : MapCtx m) {ns name p : String} {attrs : List Attr}
    {ad : List (Str × Str)} (hp : pfx m ns = .ok p) (had : attrsData m (sortAttrs attrs) = .ok ad)
    (hname : ':' ∉ name.toList) (hns : ns ≠ Gen.xmlnsNamespace) (hattrs : ∀ a ∈ attrs, AttrOk a) :
    ∃ pq, splitQName (p ++ name).toList = (pq, name.toList) ∧
      resolve (rootScope m) (String.ofList (pq.getD [])) = some ns ∧
      readAttrs (rootScope m) ad = some (sortAttrs attrs) ∧ ∀ kv ∈ ad, isDecl kv.1 = false := by
  obtain ⟨pq, hs, hr, _, _⟩ := qname_resolve (name := name) hc (pfx_ok_iff.mp hp) hns hname
  obtain ⟨ha, hnd⟩ := readAttrs_attrsData hc _ _ had (fun a h => hattrs a (mem_sortAttrs.mp h))
  exact ⟨pq, hs, hr, ha, hnd⟩

theorem buildAux_etag_child' (qn : Str) (ts : List Tok) (ns name : String) (attrs : List Attr)
    (scope : Scope) (kids : List Node) (g : Frame) (gs : List Frame) (done : Option Node) :
    buildAux (.etag qn :: ts)
      ({ qname := qn, ns := ns, name := name, attrs := attrs, scope := scope, kids := kids } :: g :: gs) done =
      buildAux ts ({ g with kids := .tag ns name attrs kids.reverse :: g.kids } :: gs) done :=
  buildAux_etag_child _ _ _ _ _ _ rfl

theorem buildAux_etag_root' (qn : Str) (ts : List Tok) (ns name : String) (attrs : List Attr)
    (scope : Scope) (kids : List Node) (done : Option Node) :
    buildAux (.etag qn :: ts)
      [{ qname := qn, ns := ns, name := name, attrs := attrs, scope := scope, kids := kids }] done =
      buildAux ts [] (some (.tag ns name attrs kids.reverse)) :=
  buildAux_etag_root _ _ _ _ rfl

mutual
theorem emitNode_build {m : Dict} (hc : MapCtx m) (P : Node → Prop) (PL : List Node → Prop)
    (hP : ∀ ns name attrs kids, P (.tag ns name attrs kids) →
      ':' ∉ name.toList ∧ ns ≠ Gen.xmlnsNamespace ∧ (∀ a ∈ attrs, AttrOk a) ∧ PL kids)
    (hPL : ∀ k ks, PL (k :: ks) → P k ∧ PL ks) : ∀ (k : Node) (toks : List Tok), emitNode m k = .ok toks → P k →
    ∀ (rest : List Tok) (f : Frame) (fs : List Frame), f.scope = rootScope m →
    buildAux (toks ++ rest) (f :: fs) none =
      buildAux rest ({ f with kids := pushNode (normalize k) f.kids } :: fs) none
  | .tag ns name attrs kids, toks, h, hk, rest, f, fs, hf => by
    obtain ⟨p, ad, ks, hp, had, hks, htoks⟩ := emitNode_tag_inv h
    obtain ⟨hname, hns, hattrs, hkids⟩ := hP _ _ _ _ hk
    obtain ⟨pq, hs, hr, ha, hnd⟩ := stag_read hc hp had hname hns hattrs
    have hscope : scopeOf ad f.scope = rootScope m := by rw [scopeOf_noDecl _ _ hnd, hf]
    subst htoks
    cases kids with
    | nil =>
      simp only [List.isEmpty_nil, if_true, List.cons_append, List.nil_append]
      rw [buildAux_stag_child hscope hs hr ha]
      simp only [if_true, String.ofList_toList, normalize, normalizeList, mergeKids, pushNode]
    | cons k0 ks0 =>
      simp only [List.isEmpty_cons, Bool.false_eq_true, if_false, List.cons_append, List.append_assoc,
        List.nil_append]
      rw [buildAux_stag_child hscope hs hr ha]
      simp only [Bool.false_eq_true, if_false]
      rw [emitKids_build hc P PL hP hPL (k0 :: ks0) ks hks hkids _ _ _ rfl]
      dsimp only
      rw [buildAux_etag_child']
      simp only [String.ofList_toList, normalize, pushNode, pushAll_reverse, attach_nil_left]
  | .text s, toks, h, _, rest, f, fs, _ => by
    rw [emitNode.eq_2] at h
    by_cases hs : s.isEmpty = true
    · simp only [hs, if_true] at h
      cases h
      have : s = [] := by simpa using hs
      subst this
      simp only [List.nil_append, normalize, pushNode, pushText_nil]
    · simp only [hs] at h
      cases h
      simp only [List.cons_append, List.nil_append, normalize, pushNode, buildAux_chars]
  | .comment s, toks, h, _, rest, f, fs, _ => by
    rw [emitNode.eq_3] at h
    cases h
    simp only [List.cons_append, List.nil_append, normalize, pushNode, buildAux_comment]
  | .pi t s, toks, h, _, rest, f, fs, _ => by
    rw [emitNode.eq_4] at h
    cases h
    simp only [List.cons_append, List.nil_append, normalize, pushNode, buildAux_pi]
theorem emitKids_build {m : Dict} (hc : MapCtx m) (P : Node → Prop) (PL : List Node → Prop)
    (hP : ∀ ns name attrs kids, P (.tag ns name attrs kids) →
      ':' ∉ name.toList ∧ ns ≠ Gen.xmlnsNamespace ∧ (∀ a ∈ attrs, AttrOk a) ∧ PL kids)
    (hPL : ∀ k ks, PL (k :: ks) → P k ∧ PL ks) : ∀ (ks : List Node) (toks : List Tok), emitKids m ks = .ok toks → PL ks →
    ∀ (rest : List Tok) (f : Frame) (fs : List Frame), f.scope = rootScope m →
    buildAux (toks ++ rest) (f :: fs) none =
      buildAux rest ({ f with kids := pushAll f.kids (normalizeList ks) } :: fs) none
  | [], toks, h, _, rest, f, fs, _ => by
    rw [emitKids.eq_1] at h
    cases h
    simp only [List.nil_append, normalizeList, pushAll, List.foldl_nil]
  | k :: ks, toks, h, hk, rest, f, fs, hf => by
    obtain ⟨a, b, ha, hb, htoks⟩ := emitKids_cons_inv h
    obtain ⟨hk1, hk2⟩ := hPL _ _ hk
    subst htoks
    rw [List.append_assoc, emitNode_build hc P PL hP hPL k a ha hk1 _ _ _ hf,
      emitKids_build hc P PL hP hPL ks b hb hk2 _ _ _ (by exact hf)]
    simp only [normalizeList, pushAll, List.foldl_cons]
end

theorem isDecl_declarations (m : Dict) : ∀ kv ∈ declarations m, isDecl kv.1 = true := by
  intro kv hkv
  rw [declarations_split, List.mem_append] at hkv
  rcases hkv with hkv | hkv
  · unfold defaultDecl at hkv
    split at hkv
    · split at hkv
      · simp at hkv
      · rw [List.mem_singleton] at hkv; subst hkv; exact isDecl_default
    · simp at hkv
  · rw [List.mem_filterMap] at hkv
    obtain ⟨p, _, hp⟩ := hkv
    unfold declFor at hp
    split at hp
    · cases hp; exact isDecl_prefixed _
    · simp at hp

theorem emitRoot_tag_inv {m : Dict} {ns name attrs kids toks}
    (h : emitRoot m (.tag ns name attrs kids) = .ok toks) :
    ∃ p ad ks, pfx m ns = .ok p ∧ attrsData m (sortAttrs attrs) = .ok ad ∧ emitKids m kids = .ok ks ∧
      toks = if kids.isEmpty then [.stag (p ++ name).toList (declarations m ++ ad) true]
             else .stag (p ++ name).toList (declarations m ++ ad) false :: ks ++ [.etag (p ++ name).toList] := by
  cases h0 : emitNode m (.tag ns name attrs kids) with
  | error e => simp only [emitRoot, h0] at h; cases h
  | ok toks0 =>
    obtain ⟨p, ad, ks, hp, had, hks, htoks⟩ := emitNode_tag_inv h0
    refine ⟨p, ad, ks, hp, had, hks, ?_⟩
    subst htoks
    simp only [emitRoot, h0] at h
    cases kids with
    | nil =>
      simp only [List.isEmpty_nil, if_true] at h ⊢
      cases h; rfl
    | cons k0 ks0 =>
      simp only [List.isEmpty_cons, Bool.false_eq_true, if_false] at h ⊢
      cases h; rfl

theorem build_emitRoot {m : Dict} (hc : MapCtx m) (P : Node → Prop) (PL : List Node → Prop)
    (hP : ∀ ns name attrs kids, P (.tag ns name attrs kids) →
      ':' ∉ name.toList ∧ ns ≠ Gen.xmlnsNamespace ∧ (∀ a ∈ attrs, AttrOk a) ∧ PL kids)
    (hPL : ∀ k ks, PL (k :: ks) → P k ∧ PL ks)
    (t : Node) (htag : t.isTag = true) (ht : P t) (toks : List Tok)
    (h : emitRoot m t = .ok toks) : build toks = some (normalize t) := by
  cases t with
  | text s => cases htag
  | comment s => cases htag
  | pi t s => cases htag
  | tag ns name attrs kids =>
    obtain ⟨p, ad, ks, hp, had, hks, htoks⟩ := emitRoot_tag_inv h
    obtain ⟨hname, hns, hattrs, hkids⟩ := hP _ _ _ _ ht
    obtain ⟨pq, hs, hr, ha, hnd⟩ := stag_read hc hp had hname hns hattrs
    have hscope : scopeOf (declarations m ++ ad) [] = rootScope m := by
      rw [scopeOf_append, scopeOf_noDecl _ _ hnd]; rfl
    have ha' : readAttrs (rootScope m) (declarations m ++ ad) = some (sortAttrs attrs) := by
      rw [readAttrs_decls _ _ _ (isDecl_declarations m), ha]
    subst htoks
    unfold build
    cases kids with
    | nil =>
      simp only [List.isEmpty_nil, if_true]
      rw [buildAux_stag_root hscope hs hr ha']
      simp only [if_true, String.ofList_toList, normalize, normalizeList, mergeKids, buildAux]
    | cons k0 ks0 =>
      simp only [List.isEmpty_cons, Bool.false_eq_true, if_false, List.cons_append]
      rw [buildAux_stag_root hscope hs hr ha']
      simp only [Bool.false_eq_true, if_false]
      rw [emitKids_build hc P PL hP hPL (k0 :: ks0) ks hks hkids _ _ _ rfl]
      dsimp only
      rw [buildAux_etag_root']
      simp only [String.ofList_toList, normalize, pushAll_reverse, attach_nil_left, buildAux]

end Delb.Ser

import DelbModel.Model.Codec
/-!
# Lemmas on the byte level (`Model/Codec.lean`)

One decoding step undoes one encoded character (UTF-8: the four length classes; UTF-16: a code unit or
a surrogate pair, in either byte order); the generic loop `decodeWith` lifts that to strings.  The
arithmetic is division and remainder by literals, which `omega` decides.
-/
namespace Delb.Codec

/-! ## characters and scalar values -/

theorem char_valid (c : Char) : c.toNat < 0xD800 ∨ (0xDFFF < c.toNat ∧ c.toNat < 0x110000) := c.valid

theorem scalar?_toNat (c : Char) : scalar? c.toNat = some c := by
  have h := char_valid c
  simp only [scalar?, if_pos h, Char.ofNat_toNat]

theorem ofNat_eq_of_toNat {n : Nat} {c : Char} (h : c.toNat = n) : Char.ofNat n = c := by
  subst h; exact Char.ofNat_toNat c

theorem scalar?_eq_of_toNat {n : Nat} {c : Char} (h : c.toNat = n) : scalar? n = some c := by
  subst h; exact scalar?_toNat c

theorem isCont_iff {b : Nat} : isCont b = true ↔ 0x80 ≤ b ∧ b < 0xC0 := by
  simp only [isCont, decide_eq_true_eq]

theorem isCont_low (m : Nat) : isCont (0x80 + m % 64) = true := by
  rw [isCont_iff]; omega

theorem utf8Step_one (b0 : Nat) (rest : List Nat) (h : b0 < 0x80) :
    utf8Step (b0 :: rest) = some (Char.ofNat b0, rest) := by
  simp only [utf8Step, if_pos h]

theorem utf8Step_two (b0 b1 : Nat) (rest : List Nat) (h0 : 0xC2 ≤ b0) (h0' : b0 < 0xE0)
    (h1 : isCont b1 = true) :
    utf8Step (b0 :: b1 :: rest) = some (Char.ofNat ((b0 - 0xC0) * 64 + (b1 - 0x80)), rest) := by
  simp only [utf8Step]
  rw [if_neg (show ¬ b0 < 0x80 by omega), if_neg (show ¬ b0 < 0xC2 by omega), if_pos h0', if_pos h1]

theorem utf8Step_three (b0 b1 b2 : Nat) (rest : List Nat) (h0 : 0xE0 ≤ b0) (h0' : b0 < 0xF0)
    (h1 : isCont b1 = true) (h2 : isCont b2 = true)
    (hn : 0x800 ≤ (b0 - 0xE0) * 4096 + (b1 - 0x80) * 64 + (b2 - 0x80)) :
    utf8Step (b0 :: b1 :: b2 :: rest)
      = (scalar? ((b0 - 0xE0) * 4096 + (b1 - 0x80) * 64 + (b2 - 0x80))).map (fun c => (c, rest)) := by
  simp only [utf8Step, h1, h2, Bool.and_self, if_true]
  rw [if_neg (show ¬ b0 < 0x80 by omega), if_neg (show ¬ b0 < 0xC2 by omega),
    if_neg (show ¬ b0 < 0xE0 by omega), if_pos h0', if_pos hn]

theorem utf8Step_four (b0 b1 b2 b3 : Nat) (rest : List Nat) (h0 : 0xF0 ≤ b0) (h0' : b0 < 0xF5)
    (h1 : isCont b1 = true) (h2 : isCont b2 = true) (h3 : isCont b3 = true)
    (hn : 0x10000 ≤ (b0 - 0xF0) * 262144 + (b1 - 0x80) * 4096 + (b2 - 0x80) * 64 + (b3 - 0x80)) :
    utf8Step (b0 :: b1 :: b2 :: b3 :: rest)
      = (scalar? ((b0 - 0xF0) * 262144 + (b1 - 0x80) * 4096 + (b2 - 0x80) * 64 + (b3 - 0x80))).map
          (fun c => (c, rest)) := by
  simp only [utf8Step, h1, h2, h3, Bool.and_self, if_true]
  rw [if_neg (show ¬ b0 < 0x80 by omega), if_neg (show ¬ b0 < 0xC2 by omega),
    if_neg (show ¬ b0 < 0xE0 by omega), if_neg (show ¬ b0 < 0xF0 by omega), if_pos h0', if_pos hn]

theorem utf8Step_encode (c : Char) (rest : List Nat) :
    utf8Step (utf8EncodeChar c ++ rest) = some (c, rest) := by
  have hv := char_valid c
  unfold utf8EncodeChar
  generalize hn : c.toNat = n at hv
  by_cases h1 : n < 0x80
  · simp only [h1, if_true, List.cons_append, List.nil_append]
    rw [utf8Step_one n rest h1, ofNat_eq_of_toNat hn]
  by_cases h2 : n < 0x800
  · simp only [h1, h2, if_false, if_true, List.cons_append, List.nil_append]
    rw [utf8Step_two (0xC0 + n / 64) (0x80 + n % 64) rest (by omega) (by omega) (isCont_low _),
      ofNat_eq_of_toNat (c := c) (by omega)]
  by_cases h3 : n < 0x10000
  · simp only [h1, h2, h3, if_false, if_true, List.cons_append, List.nil_append]
    rw [utf8Step_three (0xE0 + n / 4096) (0x80 + n / 64 % 64) (0x80 + n % 64) rest (by omega) (by omega)
      (isCont_low _) (isCont_low _) (by omega), scalar?_eq_of_toNat (c := c) (by omega)]
    rfl
  · simp only [h1, h2, h3, if_false, List.cons_append, List.nil_append]
    rw [utf8Step_four (0xF0 + n / 262144) (0x80 + n / 4096 % 64) (0x80 + n / 64 % 64) (0x80 + n % 64) rest
      (by omega) (by omega) (isCont_low _) (isCont_low _) (isCont_low _) (by omega),
      scalar?_eq_of_toNat (c := c) (by omega)]
    rfl

theorem utf8EncodeChar_ne_nil (c : Char) : utf8EncodeChar c ≠ [] := by
  unfold utf8EncodeChar
  dsimp only
  repeat' split
  all_goals exact List.cons_ne_nil _ _

theorem utf8EncodeChar_valid (c : Char) : ValidBytes (utf8EncodeChar c) := by
  have hv := char_valid c
  intro b hb
  unfold utf8EncodeChar at hb
  generalize c.toNat = n at hv hb
  by_cases h1 : n < 0x80
  · simp only [h1, if_true, List.mem_singleton] at hb; omega
  by_cases h2 : n < 0x800
  · simp only [h1, h2, if_false, if_true, List.mem_cons, List.not_mem_nil, or_false] at hb; omega
  by_cases h3 : n < 0x10000
  · simp only [h1, h2, h3, if_false, if_true, List.mem_cons, List.not_mem_nil, or_false] at hb; omega
  · simp only [h1, h2, h3, if_false, List.mem_cons, List.not_mem_nil, or_false] at hb; omega

/-! ## the generic loop -/

theorem decodeWith_flatMap (step : List Nat → Option (Char × List Nat)) (enc : Char → List Nat)
    (hstep : ∀ c rest, step (enc c ++ rest) = some (c, rest)) (hpos : ∀ c, enc c ≠ []) (s : Str) :
    ∀ fuel, (s.flatMap enc).length ≤ fuel → decodeWith step fuel (s.flatMap enc) = some s := by
  induction s with
  | nil => intro fuel _; cases fuel <;> rfl
  | cons c s ih =>
    intro fuel hf
    obtain ⟨b, bs, hb⟩ := List.exists_cons_of_ne_nil (hpos c)
    have hs := hstep c (s.flatMap enc)
    rw [List.flatMap_cons] at hf ⊢
    rw [hb, List.cons_append] at hs hf ⊢
    cases fuel with
    | zero => simp only [List.length_cons] at hf; omega
    | succ f =>
      have hlen : (s.flatMap enc).length ≤ f := by
        simp only [List.length_cons, List.length_append] at hf; omega
      simp only [decodeWith, hs, ih f hlen]

theorem validBytes_flatMap (enc : Char → List Nat) (h : ∀ c, ValidBytes (enc c)) (s : Str) :
    ValidBytes (s.flatMap enc) := by
  intro b hb
  obtain ⟨c, _, hc⟩ := List.mem_flatMap.mp hb
  exact h c b hc

theorem decodeUtf8_encodeUtf8 (s : Str) : decodeUtf8 (encodeUtf8 s) = some s :=
  decodeWith_flatMap utf8Step utf8EncodeChar utf8Step_encode utf8EncodeChar_ne_nil s _ (Nat.le_refl _)

/-! ## UTF-16 -/

theorem unitOf_be (u : Nat) (h : u < 0x10000) : unitOf true (u / 256) (u % 256) = some u := by
  simp only [unitOf, if_true]
  rw [if_pos (by omega)]
  congr 1; omega

theorem unitOf_le (u : Nat) (h : u < 0x10000) : unitOf false (u % 256) (u / 256) = some u := by
  simp only [unitOf, Bool.false_eq_true, if_false]
  rw [if_pos (by omega)]
  congr 1; omega

theorem utf16Step_unit (be : Bool) (b0 b1 u : Nat) (rest : List Nat) (hu : unitOf be b0 b1 = some u)
    (h : u < 0xD800 ∨ 0xDFFF < u) : utf16Step be (b0 :: b1 :: rest) = some (Char.ofNat u, rest) := by
  simp only [utf16Step, hu, if_pos h]

theorem utf16Step_pair (be : Bool) (b0 b1 b2 b3 u v : Nat) (rest : List Nat)
    (hu : unitOf be b0 b1 = some u) (hv : unitOf be b2 b3 = some v)
    (h1 : 0xD800 ≤ u ∧ u < 0xDC00) (h2 : 0xDC00 ≤ v ∧ v ≤ 0xDFFF) :
    utf16Step be (b0 :: b1 :: b2 :: b3 :: rest)
      = some (Char.ofNat (0x10000 + (u - 0xD800) * 1024 + (v - 0xDC00)), rest) := by
  simp only [utf16Step, hu, hv]
  rw [if_neg (show ¬ (u < 0xD800 ∨ 0xDFFF < u) by omega), if_pos h1.2, if_pos h2]

theorem utf16Step_encode (be : Bool) (c : Char) (rest : List Nat) :
    utf16Step be (utf16EncodeChar be c ++ rest) = some (c, rest) := by
  have hv := char_valid c
  unfold utf16EncodeChar utf16Units
  generalize hn : c.toNat = n at hv
  by_cases h1 : n < 0x10000
  · cases be
    · simp only [h1, if_true, List.flatMap_cons, List.flatMap_nil, unitBytes, Bool.false_eq_true, if_false,
        List.append_nil, List.cons_append, List.nil_append]
      rw [utf16Step_unit false _ _ n rest (unitOf_le n h1) (by omega), ofNat_eq_of_toNat hn]
    · simp only [h1, if_true, List.flatMap_cons, List.flatMap_nil, unitBytes,
        List.append_nil, List.cons_append, List.nil_append]
      rw [utf16Step_unit true _ _ n rest (unitOf_be n h1) (by omega), ofNat_eq_of_toNat hn]
  · cases be
    · simp only [h1, if_false, List.flatMap_cons, List.flatMap_nil, unitBytes, Bool.false_eq_true,
        List.append_nil, List.cons_append, List.nil_append]
      rw [utf16Step_pair false _ _ _ _ _ _ rest (unitOf_le (0xD800 + (n - 0x10000) / 1024) (by omega))
        (unitOf_le (0xDC00 + (n - 0x10000) % 1024) (by omega)) (by omega) (by omega),
        ofNat_eq_of_toNat (c := c) (by omega)]
    · simp only [h1, if_false, if_true, List.flatMap_cons, List.flatMap_nil, unitBytes,
        List.append_nil, List.cons_append, List.nil_append]
      rw [utf16Step_pair true _ _ _ _ _ _ rest (unitOf_be (0xD800 + (n - 0x10000) / 1024) (by omega))
        (unitOf_be (0xDC00 + (n - 0x10000) % 1024) (by omega)) (by omega) (by omega),
        ofNat_eq_of_toNat (c := c) (by omega)]

theorem utf16EncodeChar_ne_nil (be : Bool) (c : Char) : utf16EncodeChar be c ≠ [] := by
  unfold utf16EncodeChar utf16Units unitBytes
  dsimp only
  by_cases h : c.toNat < 0x10000 <;> cases be <;> simp [h]

theorem utf16EncodeChar_valid (be : Bool) (c : Char) : ValidBytes (utf16EncodeChar be c) := by
  have hv := char_valid c
  intro b hb
  unfold utf16EncodeChar utf16Units unitBytes at hb
  generalize c.toNat = n at hv hb
  by_cases h1 : n < 0x10000 <;> cases be <;>
    simp only [h1, if_true, if_false, Bool.false_eq_true, List.flatMap_cons, List.flatMap_nil,
      List.append_nil, List.cons_append, List.nil_append, List.mem_cons, List.not_mem_nil, or_false] at hb <;>
    omega

theorem decodeUtf16_encodeUtf16 (be : Bool) (s : Str) : decodeUtf16 be (encodeUtf16 be s) = some s :=
  decodeWith_flatMap (utf16Step be) (utf16EncodeChar be) (utf16Step_encode be) (utf16EncodeChar_ne_nil be)
    s _ (Nat.le_refl _)

theorem decodeUtf16Bom_encodeUtf16Bom (s : Str) : decodeUtf16Bom (encodeUtf16Bom s) = some s := by
  simp only [encodeUtf16Bom, decodeUtf16Bom, and_self, if_true]
  exact decodeUtf16_encodeUtf16 false s

/-! ## one byte codecs -/

theorem decodeNarrow_encodeNarrow (limit : Nat) (hl : limit ≤ 0x110000) :
    ∀ (s : Str) (b : List Nat), encodeNarrow limit s = some b → decodeNarrow limit b = some s
  | [], b, h => by
    simp only [encodeNarrow, Option.some.injEq] at h; subst h; rfl
  | c :: s, b, h => by
    simp only [encodeNarrow] at h
    split at h
    · rename_i hc
      split at h
      · exact absurd h (by simp)
      · rename_i bs hbs
        simp only [Option.some.injEq] at h; subst h
        simp only [decodeNarrow, if_pos hc, decodeNarrow_encodeNarrow limit hl s bs hbs, Char.ofNat_toNat]
    · exact absurd h (by simp)

theorem encodeNarrow_eq_none_iff (limit : Nat) :
    ∀ (s : Str), encodeNarrow limit s = none ↔ ∃ ch ∈ s, ¬ ch.toNat < limit
  | [] => by simp [encodeNarrow]
  | c :: s => by
    simp only [encodeNarrow, List.mem_cons, exists_eq_or_imp]
    by_cases hc : c.toNat < limit
    · simp only [hc, if_true, not_true_eq_false, false_or, ← encodeNarrow_eq_none_iff limit s]
      cases encodeNarrow limit s <;> simp
    · simp only [hc, if_false, not_false_eq_true, true_or]

theorem encodeNarrow_valid (limit : Nat) (hl : limit ≤ 256) :
    ∀ (s : Str) (b : List Nat), encodeNarrow limit s = some b → ValidBytes b
  | [], b, h => by
    simp only [encodeNarrow, Option.some.injEq] at h; subst h; intro x hx; cases hx
  | c :: s, b, h => by
    simp only [encodeNarrow] at h
    split at h
    · rename_i hc
      split at h
      · exact absurd h (by simp)
      · rename_i bs hbs
        simp only [Option.some.injEq] at h; subst h
        intro x hx
        rcases List.mem_cons.mp hx with rfl | hx
        · omega
        · exact encodeNarrow_valid limit hl s bs hbs x hx
    · exact absurd h (by simp)

/-! ## strictness: the decoders accept nothing but what the encoders write -/

theorem toNat_ofNat_valid (n : Nat) (h : n < 0xD800 ∨ (0xDFFF < n ∧ n < 0x110000)) : (Char.ofNat n).toNat = n := by
  have h' : n.isValidChar := h
  rw [Char.ofNat, dif_pos h']
  rfl

theorem scalar?_eq_some {n : Nat} {c : Char} (h : scalar? n = some c) : c.toNat = n := by
  unfold scalar? at h
  split at h
  · rename_i hv
    simp only [Option.some.injEq] at h
    rw [← h, toNat_ofNat_valid n hv]
  · exact absurd h (by simp)

/-- strictness: one step accepts nothing but the encoded form of the character it yields -/
theorem utf8Step_sound (bs : List Nat) (c : Char) (rest : List Nat) (h : utf8Step bs = some (c, rest)) :
    bs = utf8EncodeChar c ++ rest := by
  match bs with
  | [] => simp [utf8Step] at h
  | b0 :: r0 =>
    simp only [utf8Step] at h
    split at h
    · rename_i h0
      simp only [Option.some.injEq, Prod.mk.injEq] at h
      obtain ⟨hc, rfl⟩ := h
      have : c.toNat = b0 := by rw [← hc, toNat_ofNat_valid b0 (by omega)]
      simp only [utf8EncodeChar, this, if_pos h0, List.cons_append, List.nil_append]
    split at h
    · exact absurd h (by simp)
    split at h
    · rename_i h0 h1 h2
      split at h
      · rename_i b1 r
        split at h
        · rename_i hc1
          rw [isCont_iff] at hc1
          simp only [Option.some.injEq, Prod.mk.injEq] at h
          obtain ⟨hc, rfl⟩ := h
          have : c.toNat = (b0 - 0xC0) * 64 + (b1 - 0x80) := by rw [← hc, toNat_ofNat_valid _ (by omega)]
          simp only [utf8EncodeChar, this]
          rw [if_neg (by omega), if_pos (by omega)]
          simp only [List.cons_append, List.nil_append, List.cons.injEq, and_true]
          omega
        · exact absurd h (by simp)
      · exact absurd h (by simp)
    split at h
    · rename_i h0 h1 h2 h3
      split at h
      · rename_i b1 b2 r
        split at h
        · rename_i hc
          simp only [Bool.and_eq_true, isCont_iff] at hc
          split at h
          · rename_i hn
            cases hs : scalar? ((b0 - 0xE0) * 4096 + (b1 - 0x80) * 64 + (b2 - 0x80)) with
            | none => rw [hs] at h; exact absurd h (by simp)
            | some d =>
              rw [hs] at h
              simp only [Option.map_some, Option.some.injEq, Prod.mk.injEq] at h
              obtain ⟨rfl, rfl⟩ := h
              have := scalar?_eq_some hs
              simp only [utf8EncodeChar, this]
              rw [if_neg (by omega), if_neg (by omega), if_pos (by omega)]
              simp only [List.cons_append, List.nil_append, List.cons.injEq, and_true]
              omega
          · exact absurd h (by simp)
        · exact absurd h (by simp)
      · exact absurd h (by simp)
    split at h
    · rename_i h0 h1 h2 h3 h4
      split at h
      · rename_i b1 b2 b3 r
        split at h
        · rename_i hc
          simp only [Bool.and_eq_true, isCont_iff] at hc
          split at h
          · rename_i hn
            cases hs : scalar? ((b0 - 0xF0) * 262144 + (b1 - 0x80) * 4096 + (b2 - 0x80) * 64 + (b3 - 0x80)) with
            | none => rw [hs] at h; exact absurd h (by simp)
            | some d =>
              rw [hs] at h
              simp only [Option.map_some, Option.some.injEq, Prod.mk.injEq] at h
              obtain ⟨rfl, rfl⟩ := h
              have := scalar?_eq_some hs
              simp only [utf8EncodeChar, this]
              rw [if_neg (by omega), if_neg (by omega), if_neg (by omega)]
              simp only [List.cons_append, List.nil_append, List.cons.injEq, and_true]
              omega
          · exact absurd h (by simp)
        · exact absurd h (by simp)
      · exact absurd h (by simp)
    · exact absurd h (by simp)

theorem decodeWith_sound (step : List Nat → Option (Char × List Nat)) (enc : Char → List Nat)
    (hstep : ∀ bs c rest, step bs = some (c, rest) → bs = enc c ++ rest) :
    ∀ (fuel : Nat) (bs : List Nat) (s : Str), decodeWith step fuel bs = some s → bs = s.flatMap enc
  | _, [], s, h => by
    cases s with
    | nil => rfl
    | cons c s => 
      rename_i f
      cases f <;> simp [decodeWith] at h
  | 0, _ :: _, s, h => by simp [decodeWith] at h
  | fuel + 1, b :: bs, s, h => by
    simp only [decodeWith] at h
    split at h
    · exact absurd h (by simp)
    · rename_i c rest hs
      split at h
      · exact absurd h (by simp)
      · rename_i s' hd
        simp only [Option.some.injEq] at h
        subst h
        rw [hstep _ c rest hs, List.flatMap_cons, decodeWith_sound step enc hstep fuel rest s' hd]

theorem unitOf_eq_some {be : Bool} {b0 b1 u : Nat} (h : unitOf be b0 b1 = some u) :
    b0 < 256 ∧ b1 < 256 ∧ u = if be then b0 * 256 + b1 else b1 * 256 + b0 := by
  unfold unitOf at h
  split at h
  · rename_i hb
    simp only [Option.some.injEq] at h
    exact ⟨hb.1, hb.2, h.symm⟩
  · exact absurd h (by simp)

theorem utf16Step_sound (be : Bool) (bs : List Nat) (c : Char) (rest : List Nat)
    (h : utf16Step be bs = some (c, rest)) : bs = utf16EncodeChar be c ++ rest := by
  match bs with
  | [] => simp [utf16Step] at h
  | [_] => simp [utf16Step] at h
  | b0 :: b1 :: r0 =>
    simp only [utf16Step] at h
    split at h
    · exact absurd h (by simp)
    · rename_i u hu
      obtain ⟨hb0, hb1, hu⟩ := unitOf_eq_some hu
      split at h
      · rename_i hr
        simp only [Option.some.injEq, Prod.mk.injEq] at h
        obtain ⟨hc, rfl⟩ := h
        have hlt : u < 0x10000 := by cases be <;> simp at hu <;> omega
        have : c.toNat = u := by rw [← hc, toNat_ofNat_valid u (by omega)]
        simp only [utf16EncodeChar, utf16Units, this, if_pos hlt, List.flatMap_cons, List.flatMap_nil,
          List.append_nil, unitBytes]
        cases be
        · simp only [Bool.false_eq_true, if_false] at hu ⊢
          simp only [List.cons_append, List.nil_append, List.cons.injEq, and_true]
          omega
        · simp only [if_true] at hu ⊢
          simp only [List.cons_append, List.nil_append, List.cons.injEq, and_true]
          omega
      split at h
      · rename_i hr hhi
        split at h
        · rename_i b2 b3 r
          split at h
          · exact absurd h (by simp)
          · rename_i v hv
            obtain ⟨hb2, hb3, hv⟩ := unitOf_eq_some hv
            split at h
            · rename_i hlo
              simp only [Option.some.injEq, Prod.mk.injEq] at h
              obtain ⟨hc, rfl⟩ := h
              have : c.toNat = 0x10000 + (u - 0xD800) * 1024 + (v - 0xDC00) := by
                rw [← hc, toNat_ofNat_valid _ (by omega)]
              simp only [utf16EncodeChar, utf16Units, this]
              rw [if_neg (by omega)]
              simp only [List.flatMap_cons, List.flatMap_nil, List.append_nil, unitBytes]
              cases be
              · simp only [Bool.false_eq_true, if_false] at hu hv ⊢
                simp only [List.cons_append, List.nil_append, List.cons.injEq, and_true]
                omega
              · simp only [if_true] at hu hv ⊢
                simp only [List.cons_append, List.nil_append, List.cons.injEq, and_true]
                omega
            · exact absurd h (by simp)
        · exact absurd h (by simp)
      · exact absurd h (by simp)

theorem encodeNarrow_decodeNarrow (limit : Nat) (hl : limit ≤ 0xD800) :
    ∀ (b : List Nat) (s : Str), decodeNarrow limit b = some s → encodeNarrow limit s = some b
  | [], s, h => by
    simp only [decodeNarrow, Option.some.injEq] at h; subst h; rfl
  | x :: b, s, h => by
    simp only [decodeNarrow] at h
    split at h
    · rename_i hx
      split at h
      · exact absurd h (by simp)
      · rename_i s' hs
        simp only [Option.some.injEq] at h; subst h
        have : (Char.ofNat x).toNat = x := toNat_ofNat_valid x (by omega)
        simp only [encodeNarrow, this, if_pos hx, encodeNarrow_decodeNarrow limit hl b s' hs]
    · exact absurd h (by simp)

/-! ## the model's UTF-8 is Lean's own UTF-8 (`String.utf8EncodeChar`, `String.toUTF8`) -/

theorem utf8EncodeChar_eq_core (c : Char) :
    utf8EncodeChar c = (String.utf8EncodeChar c).map UInt8.toNat := by
  have hv := char_valid c
  unfold utf8EncodeChar String.utf8EncodeChar
  have : c.val.toNat = c.toNat := rfl
  simp only [this]
  generalize c.toNat = n at hv
  by_cases h1 : n < 0x80
  · have h1' : n ≤ 0x7f := by omega
    simp only [h1, h1', if_true, List.map_cons, List.map_nil, UInt8.toNat_ofNat']
    simp only [List.cons.injEq, and_true]
    omega
  by_cases h2 : n < 0x800
  · have h1' : ¬ n ≤ 0x7f := by omega
    have h2' : n ≤ 0x7ff := by omega
    simp only [h1, h1', h2, h2', if_true, if_false, List.map_cons, List.map_nil, UInt8.toNat_ofNat']
    simp only [List.cons.injEq, and_true]
    omega
  by_cases h3 : n < 0x10000
  · have h1' : ¬ n ≤ 0x7f := by omega
    have h2' : ¬ n ≤ 0x7ff := by omega
    have h3' : n ≤ 0xffff := by omega
    simp only [h1, h1', h2, h2', h3, h3', if_true, if_false, List.map_cons, List.map_nil, UInt8.toNat_ofNat']
    simp only [List.cons.injEq, and_true]
    omega
  · have h1' : ¬ n ≤ 0x7f := by omega
    have h2' : ¬ n ≤ 0x7ff := by omega
    have h3' : ¬ n ≤ 0xffff := by omega
    simp only [h1, h1', h2, h2', h3, h3', if_false, List.map_cons, List.map_nil, UInt8.toNat_ofNat']
    simp only [List.cons.injEq, and_true]
    omega

theorem encodeUtf8_eq_core (s : Str) :
    encodeUtf8 s = (s.flatMap String.utf8EncodeChar).map UInt8.toNat := by
  induction s with
  | nil => rfl
  | cons c s ih =>
    simp only [encodeUtf8, List.flatMap_cons, List.map_append] at ih ⊢
    rw [ih, utf8EncodeChar_eq_core]

/-! ## ASCII transparency -/

theorem flatMap_utf8EncodeChar_ascii : ∀ (p : Str), (∀ ch ∈ p, ch.toNat < 0x80) →
    p.flatMap utf8EncodeChar = p.map Char.toNat
  | [], _ => rfl
  | c :: p, h => by
    have hc : c.toNat < 0x80 := h c (List.mem_cons_self ..)
    rw [List.flatMap_cons, List.map_cons,
      flatMap_utf8EncodeChar_ascii p (fun ch hch => h ch (List.mem_cons_of_mem _ hch))]
    simp only [utf8EncodeChar, if_pos hc, List.cons_append, List.nil_append]

theorem encodeNarrow_ascii_append (limit : Nat) (hl : 0x80 ≤ limit) (s : Str) :
    ∀ (p : Str), (∀ ch ∈ p, ch.toNat < 0x80) →
      encodeNarrow limit (p ++ s) = (encodeNarrow limit s).map (p.map Char.toNat ++ ·)
  | [], _ => by rw [List.nil_append]; cases encodeNarrow limit s <;> rfl
  | c :: p, h => by
    have hc : c.toNat < limit := Nat.lt_of_lt_of_le (h c (List.mem_cons_self ..)) hl
    simp only [List.cons_append, encodeNarrow, if_pos hc,
      encodeNarrow_ascii_append limit hl s p (fun ch hch => h ch (List.mem_cons_of_mem _ hch))]
    cases encodeNarrow limit s <;> rfl

/-! ## newlines -/

theorem replaceLf_lf (s : Str) : replaceLf ['\n'] s = s := by
  induction s with
  | nil => rfl
  | cons c s ih =>
    simp only [replaceLf, List.flatMap_cons] at ih ⊢
    rw [ih]
    by_cases hc : c = '\n'
    · simp only [hc, if_true, List.cons_append, List.nil_append]
    · simp only [hc, if_false, List.cons_append, List.nil_append]

theorem replaceLf_cons (w : Str) (c : Char) (s : Str) :
    replaceLf w (c :: s) = (if c = '\n' then w else [c]) ++ replaceLf w s := by
  simp only [replaceLf, List.flatMap_cons]

theorem xmlEolAux_false_of_no_cr : ∀ (s : Str), '\r' ∉ s → xmlEolAux false s = s
  | [], _ => rfl
  | c :: s, h => by
    have hc : c ≠ '\r' := fun e => h (e ▸ List.mem_cons_self ..)
    have hs : '\r' ∉ s := fun e => h (List.mem_cons_of_mem _ e)
    simp only [xmlEolAux, if_neg hc, Bool.false_eq_true, and_false, if_false,
      xmlEolAux_false_of_no_cr s hs]

theorem xmlEolAux_replaceLf_cr : ∀ (s : Str) (b : Bool), '\r' ∉ s → xmlEolAux b (replaceLf ['\r'] s) = s
  | [], b, _ => by cases b <;> rfl
  | c :: s, b, h => by
    have hc : c ≠ '\r' := fun e => h (e ▸ List.mem_cons_self ..)
    have hs : '\r' ∉ s := fun e => h (List.mem_cons_of_mem _ e)
    rw [replaceLf_cons]
    by_cases hn : c = '\n'
    · subst hn
      simp only [if_true, List.cons_append, List.nil_append, xmlEolAux, xmlEolAux_replaceLf_cr s true hs]
    · simp only [List.cons_append, List.nil_append, xmlEolAux, if_neg hc, hn, false_and, if_false,
        xmlEolAux_replaceLf_cr s false hs]

theorem xmlEolAux_replaceLf_crlf : ∀ (s : Str), '\r' ∉ s → xmlEolAux false (replaceLf ['\r', '\n'] s) = s
  | [], _ => rfl
  | c :: s, h => by
    have hc : c ≠ '\r' := fun e => h (e ▸ List.mem_cons_self ..)
    have hs : '\r' ∉ s := fun e => h (List.mem_cons_of_mem _ e)
    rw [replaceLf_cons]
    by_cases hn : c = '\n'
    · subst hn
      simp only [if_true, List.cons_append, List.nil_append, xmlEolAux, xmlEolAux_replaceLf_crlf s hs]
      simp
    · simp only [List.cons_append, List.nil_append, xmlEolAux, if_neg hc, hn, false_and, if_false,
        xmlEolAux_replaceLf_crlf s hs]

end Delb.Codec

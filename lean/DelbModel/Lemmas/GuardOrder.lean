import DelbModel.Model.GuardOrder
namespace Delb.GuardOrder
open Delb.Gen

theorem shapeOk_rejected (allowed : List String) :
    ∀ (p : List GuardEv) (i : Nat) (g : String), shapeOk allowed p = true → p[i]? = some (.guard g) →
      changedBefore p i = []
  | [], i, g, _, hi => by simp at hi
  | e :: rest, 0, g, _, _ => by simp [changedBefore]
  | e :: rest, i + 1, g, h, hi => by
    simp only [List.getElem?_cons_succ] at hi
    simp only [shapeOk] at h
    by_cases hc : changes e = true
    · -- something changed at the head: no guard can follow
      simp only [hc, if_true, List.all_eq_true] at h
      have hmem : GuardEv.guard g ∈ rest := List.mem_of_getElem? hi
      have := h _ hmem
      simp [laterOk] at this
    · simp only [hc] at h
      have ih := shapeOk_rejected allowed rest i g (by simpa using h) hi
      simp only [changedBefore, List.take_succ_cons, List.filter_cons, hc] at ih ⊢
      simpa using ih

end Delb.GuardOrder

import DelbModel.Model.XPath.Eval
import DelbModel.Lemmas.XPathEval
/-!
# C14 helper lemmas: `location_path`

* list facts: the position of an element within a filtered list, strict monotonicity of the count
  of hits before a hit, un-parsing of `digits ++ sep :: rest`
* `tagPath` is closed under prefixes (only tag nodes have children)
* `tagIdxs`: the per-level tag indexes; both `locationPathAst` and `locationPath` are maps of it,
  and it is injective on tag addresses
* one indexed wildcard step from the node at `pre` selects exactly the child it was made for
-/
namespace Delb.XPath
open Delb.Edit Delb.Nav

/-! ## list facts -/

/-- the element at index `i` of `l`, if it passes `P`, sits in `l.filter P` at the index given by the
    number of hits before `i` -/
theorem filter_getElem?_count {α} (P : α → Bool) (l : List α) (i : Nat) (hi : i < l.length)
    (hP : P l[i] = true) :
    (l.filter P)[((l.take i).filter P).length]? = some l[i] := by
  have key : ∀ (a b : List α) (x : α), P x = true →
      ((a ++ x :: b).filter P)[(a.filter P).length]? = some x := by
    intro a b x hx
    rw [List.filter_append, List.filter_cons_of_pos hx, List.getElem?_append_right (Nat.le_refl _)]
    simp
  have := key (l.take i) (l.drop (i + 1)) l[i] hP
  rwa [List.getElem_cons_drop, List.take_append_drop] at this

theorem count_take_mono {α} (P : α → Bool) (l : List α) {i j : Nat} (h : i ≤ j) :
    ((l.take i).filter P).length ≤ ((l.take j).filter P).length :=
  ((List.take_sublist_take_left h).filter P).length_le

theorem count_take_succ {α} (P : α → Bool) (l : List α) (i : Nat) (hi : i < l.length) :
    ((l.take (i + 1)).filter P).length = ((l.take i).filter P).length + (if P l[i] then 1 else 0) := by
  rw [← List.take_append_getElem hi, List.filter_append, List.length_append]
  by_cases h : P l[i] = true <;> simp [h]

/-- the count of hits before a hit is strictly monotone -/
theorem count_take_lt {α} (P : α → Bool) (l : List α) {i j : Nat} (hij : i < j) (hi : i < l.length)
    (hP : P l[i] = true) :
    ((l.take i).filter P).length < ((l.take j).filter P).length := by
  have h1 := count_take_succ P l i hi
  have h2 := count_take_mono P l (i := i + 1) (j := j) hij
  simp only [hP, if_true] at h1
  omega

theorem count_take_inj {α} (P : α → Bool) (l : List α) {i j : Nat} (hi : i < l.length) (hj : j < l.length)
    (hPi : P l[i] = true) (hPj : P l[j] = true)
    (h : ((l.take i).filter P).length = ((l.take j).filter P).length) : i = j := by
  rcases Nat.lt_trichotomy i j with hlt | heq | hgt
  · have := count_take_lt P l hlt hi hPi; omega
  · exact heq
  · have := count_take_lt P l hgt hj hPj; omega

/-- counting through indexes is counting through the list -/
theorem count_range_eq {α} (P : α → Bool) (l : List α) (Q : Nat → Bool)
    (hQ : ∀ j (hj : j < l.length), Q j = P l[j]) (i : Nat) (hi : i ≤ l.length) :
    ((List.range i).filter Q).length = ((l.take i).filter P).length := by
  induction i with
  | zero => simp
  | succ i ih =>
    have hi' : i < l.length := by omega
    rw [List.range_succ, List.filter_append, List.length_append, ih (by omega), count_take_succ P l i hi',
      ← hQ i hi']
    by_cases h : Q i = true <;> simp [h]

/-- a separator that occurs in neither head splits uniquely -/
theorem append_sep_inj {α} (a : α) (l₁ l₂ r₁ r₂ : List α) (h₁ : a ∉ l₁) (h₂ : a ∉ l₂)
    (h : l₁ ++ a :: r₁ = l₂ ++ a :: r₂) : l₁ = l₂ ∧ r₁ = r₂ := by
  induction l₁ generalizing l₂ with
  | nil =>
    cases l₂ with
    | nil => simpa using h
    | cons y l₂ =>
      simp only [List.nil_append, List.cons_append, List.cons.injEq] at h
      exact absurd (by simp [h.1]) h₂
  | cons x l₁ ih =>
    cases l₂ with
    | nil =>
      simp only [List.nil_append, List.cons_append, List.cons.injEq] at h
      exact absurd (by simp [h.1]) h₁
    | cons y l₂ =>
      simp only [List.cons_append, List.cons.injEq] at h
      obtain ⟨rfl, h⟩ := h
      obtain ⟨e1, e2⟩ := ih l₂ (fun hm => h₁ (List.mem_cons_of_mem _ hm)) (fun hm => h₂ (List.mem_cons_of_mem _ hm)) h
      exact ⟨by rw [e1], e2⟩

/-! ## `toString : Nat → String` -/

theorem toDigits_ten_injective {a b : Nat} (h : Nat.toDigits 10 a = Nat.toDigits 10 b) : a = b := by
  have ha := Nat.ofDigitChars_ten_toDigits (n := a)
  have hb := Nat.ofDigitChars_ten_toDigits (n := b)
  rw [h] at ha
  omega

theorem toList_toString_nat (n : Nat) : (toString n).toList = Nat.toDigits 10 n := by
  rw [Nat.toString_eq_ofList_toDigits, String.toList_ofList]

theorem bracket_not_mem_toDigits (n : Nat) : ']' ∉ Nat.toDigits 10 n := by
  intro h
  have := Nat.isDigit_of_mem_toDigits (by decide) (by decide) h
  revert this
  decide

/-! ## `tagPath` -/

theorem getAtP_nontag_cons (t : PTree) (k : Nat) (p : List Nat) (h : t.isTag = false) : getAtP t (k :: p) = none := by
  cases t <;> simp [getAtP, PTree.isTag] at h ⊢

theorem tagPath_iff (root : PTree) (p : List Nat) :
    tagPath root p = true ↔ ∃ t, getAtP root p = some t ∧ t.isTag = true := by
  unfold tagPath
  cases h : getAtP root p with
  | none => simp
  | some t => cases t <;> simp [PTree.isTag]

/-- only tag nodes have children: every prefix of a tag address is a tag address -/
theorem tagPath_prefix (root : PTree) (p q : List Nat) (h : tagPath root (p ++ q) = true) : tagPath root p = true := by
  rw [tagPath_iff] at h ⊢
  obtain ⟨t, ht, htag⟩ := h
  rw [getAtP_append] at ht
  cases hp : getAtP root p with
  | none => simp [hp] at ht
  | some u =>
    simp only [hp, Option.bind_some] at ht
    refine ⟨u, rfl, ?_⟩
    cases q with
    | nil => simp only [getAtP, Option.some.injEq] at ht; rw [ht]; exact htag
    | cons k q =>
      cases hu : u.isTag with
      | true => rfl
      | false => rw [getAtP_nontag_cons u k q hu] at ht; cases ht

/-- a tag address one level down: the parent exists and the child is one of its kids, a tag -/
theorem tagPath_child (root : PTree) (pre : List Nat) (i : Nat) (h : tagPath root (pre ++ [i]) = true) :
    ∃ t, getAtP root pre = some t ∧ ∃ hi : i < t.kids.length, t.kids[i].isTag = true := by
  rw [tagPath_iff] at h
  obtain ⟨c, hc, hctag⟩ := h
  rw [getAtP_append] at hc
  cases hp : getAtP root pre with
  | none => simp [hp] at hc
  | some t =>
    simp only [hp, Option.bind_some, getAtP_single] at hc
    obtain ⟨hi, e⟩ := List.getElem?_eq_some_iff.1 hc
    exact ⟨t, rfl, hi, by rw [e]; exact hctag⟩

theorem tagPath_append_single (root : PTree) (pre : List Nat) (t : PTree) (ht : getAtP root pre = some t) (j : Nat)
    (hj : j < t.kids.length) : tagPath root (pre ++ [j]) = t.kids[j].isTag := by
  have e : getAtP root (pre ++ [j]) = some t.kids[j] := by
    rw [getAtP_append, ht, Option.bind_some, getAtP_single]
    exact List.getElem?_eq_getElem hj
  unfold tagPath
  rw [e]
  cases t.kids[j] <;> rfl

/-! ## the per-level indexes -/

/-- the tag indexes `location_path` prints, level by level -/
def tagIdxs (root : PTree) : List Nat → List Nat → List Nat
  | _, [] => []
  | pre, i :: rest => tagIndex root pre i :: tagIdxs root (pre ++ [i]) rest

theorem length_tagIdxs (root : PTree) (pre p : List Nat) : (tagIdxs root pre p).length = p.length := by
  induction p generalizing pre with
  | nil => rfl
  | cons i rest ih => simp [tagIdxs, ih]

/-- the step `*[position()=k+1]` -/
def idxStep (k : Nat) : Step :=
  { axis := "child", test := .anyName none,
    preds := [.binop "=" (.func "position".toList []) (.num (k + 1))] }

/-- the string `/*[k+1]` -/
def idxPiece (k : Nat) : Str := ("/*[" ++ toString (k + 1) ++ "]").toList

theorem locationPathAst_go_eq (root : PTree) (pre p : List Nat) :
    locationPathAst.go root pre p = (tagIdxs root pre p).map idxStep := by
  induction p generalizing pre with
  | nil => simp [locationPathAst.go, tagIdxs]
  | cons i rest ih => simp [locationPathAst.go, tagIdxs, ih, idxStep]

theorem locationPathAst_eq (root : PTree) (p : List Nat) :
    locationPathAst root p =
      [{ absolute := true,
         steps := { axis := "child", test := .anyName none, preds := [] } :: (tagIdxs root [] p).map idxStep }] := by
  simp [locationPathAst, locationPathAst_go_eq]

theorem locationPath_go_eq (root : PTree) (pre p : List Nat) :
    locationPath.go (tagIndex root) pre p = (tagIdxs root pre p).map idxPiece := by
  induction p generalizing pre with
  | nil => simp [locationPath.go, tagIdxs]
  | cons i rest ih =>
    simp only [locationPath.go, tagIdxs, ih, List.map_cons, idxPiece]

theorem locationPath_eq (root : PTree) (p : List Nat) :
    locationPath root p = "/*".toList ++ ((tagIdxs root [] p).map idxPiece).flatten := by
  rw [← locationPath_go_eq]
  rfl

theorem idxStep_injective {a b : Nat} (h : idxStep a = idxStep b) : a = b := by
  simp only [idxStep, Step.mk.injEq, List.cons.injEq, Expr.binop.injEq, Expr.num.injEq] at h
  omega

theorem idxPiece_eq (k : Nat) : idxPiece k = '/' :: '*' :: '[' :: (Nat.toDigits 10 (k + 1) ++ ']' :: []) := by
  simp only [idxPiece, String.toList_append, toList_toString_nat]
  rfl

/-- the printed pieces can be read back one by one -/
theorem idxPieces_flatten_injective (l₁ l₂ : List Nat)
    (h : (l₁.map idxPiece).flatten = (l₂.map idxPiece).flatten) : l₁ = l₂ := by
  induction l₁ generalizing l₂ with
  | nil =>
    cases l₂ with
    | nil => rfl
    | cons b l₂ => simp [idxPiece_eq] at h
  | cons a l₁ ih =>
    cases l₂ with
    | nil => simp [idxPiece_eq] at h
    | cons b l₂ =>
      simp only [List.map_cons, List.flatten_cons, idxPiece_eq, List.cons_append, List.cons.injEq, true_and,
        List.append_assoc, List.nil_append] at h
      obtain ⟨e1, e2⟩ := append_sep_inj ']' _ _ _ _ (bracket_not_mem_toDigits _) (bracket_not_mem_toDigits _) h
      have := toDigits_ten_injective e1
      rw [ih l₂ e2]
      congr 1
      omega

/-- different tag addresses below `pre` have different index lists -/
theorem tagIdxs_injective (root : PTree) (pre p q : List Nat) (hp : tagPath root (pre ++ p) = true)
    (hq : tagPath root (pre ++ q) = true) (h : tagIdxs root pre p = tagIdxs root pre q) : p = q := by
  induction p generalizing pre q with
  | nil =>
    cases q with
    | nil => rfl
    | cons j q => simp [tagIdxs] at h
  | cons i p ih =>
    cases q with
    | nil => simp [tagIdxs] at h
    | cons j q =>
      simp only [tagIdxs, List.cons.injEq] at h
      obtain ⟨hidx, hrest⟩ := h
      have hp' : tagPath root ((pre ++ [i]) ++ p) = true := by simpa using hp
      have hq' : tagPath root ((pre ++ [j]) ++ q) = true := by simpa using hq
      obtain ⟨t, ht, hi, hti⟩ := tagPath_child root pre i (tagPath_prefix root _ _ hp')
      obtain ⟨t', ht', hj, htj⟩ := tagPath_child root pre j (tagPath_prefix root _ _ hq')
      rw [ht] at ht'
      cases ht'
      simp only [tagIndex, ht] at hidx
      have hij : i = j := count_take_inj PTree.isTag t.kids hi hj hti htj hidx
      subst hij
      rw [ih (pre ++ [i]) q hp' hq' hrest]

/-! ## evaluation of one indexed wildcard step -/

theorem nodeTest_anyName_none (root : PTree) (env : NsEnv) (q : List Nat) :
    nodeTest root env (.anyName none) (.at q) = .ok (tagPath root q) := by
  simp only [nodeTest, checkPrefix, nodeOf, tagPath]
  cases getAtP root q with
  | none => rfl
  | some t => cases t <;> rfl

theorem filterTest_anyName_none {α} (root : PTree) (env : NsEnv) (f : α → List Nat) (l : List α) :
    filterTest root env (.anyName none) (l.map (fun j => XNode.at (f j))) =
      .ok ((l.filter (fun j => tagPath root (f j))).map (fun j => XNode.at (f j))) := by
  induction l with
  | nil => simp [filterTest]
  | cons a l ih =>
    simp only [List.map_cons, filterTest, nodeTest_anyName_none, ih, List.filter_cons]
    cases tagPath root (f a) <;> simp

theorem evalStep_single_lp (root : PTree) (env : NsEnv) (s : Step) (n m : XNode)
    (h : evalStepAt root env s n = .ok [m]) : evalStep root env s [] [n] = .ok [m] := by
  simp [evalStep, h, addNew]

/-- from the node at `pre`, the step made for child `i` selects child `i` and nothing else -/
theorem evalStepAt_idxStep (root : PTree) (env : NsEnv) (pre : List Nat) (i : Nat)
    (h : tagPath root (pre ++ [i]) = true) :
    evalStepAt root env (idxStep (tagIndex root pre i)) (.at pre) = .ok [.at (pre ++ [i])] := by
  obtain ⟨t, ht, hi, hti⟩ := tagPath_child root pre i h
  have hax : axisNodes root "child" (.at pre) =
      .ok ((List.range (kidsCount root pre)).map (fun j => XNode.at (pre ++ [j]))) := rfl
  have hk : kidsCount root pre = t.kids.length := by simp [kidsCount, ht]
  have hQ : ∀ j (hj : j < t.kids.length), tagPath root (pre ++ [j]) = PTree.isTag t.kids[j] :=
    fun j hj => tagPath_append_single root pre t ht j hj
  have hcount : ((List.range i).filter (fun j => tagPath root (pre ++ [j]))).length = tagIndex root pre i := by
    simp only [tagIndex, ht]
    exact count_range_eq PTree.isTag t.kids _ hQ i (by omega)
  have hget := filter_getElem?_count (fun j => tagPath root (pre ++ [j])) (List.range t.kids.length) i
    (by simpa using hi) (by simpa using h)
  rw [List.take_range, Nat.min_eq_left (by omega), hcount] at hget
  simp only [List.getElem_range] at hget
  simp only [evalStepAt, idxStep, hax, hk, filterTest_anyName_none, applyPreds, filterPred_poseq]
  simp [hget]

/-- walking the indexed steps made for `rest` from the node at `pre` arrives at `pre ++ rest` -/
theorem evalSteps_tagIdxs (root : PTree) (env : NsEnv) (pre rest : List Nat)
    (h : tagPath root (pre ++ rest) = true) :
    evalSteps root env ((tagIdxs root pre rest).map idxStep) [.at pre] = .ok [.at (pre ++ rest)] := by
  induction rest generalizing pre with
  | nil => simp [tagIdxs, evalSteps]
  | cons i rest ih =>
    have h' : tagPath root ((pre ++ [i]) ++ rest) = true := by simpa using h
    have hstep := evalStep_single_lp root env _ _ _
      (evalStepAt_idxStep root env pre i (tagPath_prefix root _ _ h'))
    simp only [tagIdxs, List.map_cons, evalSteps, hstep]
    rw [ih (pre ++ [i]) h']
    simp

/-- the leading `/*` from the document node selects the root element -/
theorem evalStep_root (root : PTree) (env : NsEnv) (h : tagPath root [] = true) :
    evalStep root env { axis := "child", test := .anyName none, preds := [] } [] [.doc] = .ok [.at []] := by
  apply evalStep_single_lp
  have hax : axisNodes root "child" .doc = .ok [.at []] := rfl
  simp [evalStepAt, hax, filterTest, nodeTest_anyName_none, h, applyPreds]

theorem evaluate_locationPathAst (root : PTree) (p : List Nat) (hp : tagPath root p = true)
    (env : NsEnv) (ctx : List Nat) :
    evaluate root env ctx (locationPathAst root p) = .ok [.at p] := by
  have h0 : tagPath root [] = true := tagPath_prefix root [] p (by simpa using hp)
  have h1 := evalSteps_tagIdxs root env [] p (by simpa using hp)
  rw [locationPathAst_eq]
  simp only [evaluate, evalPaths, evalPath, if_true, evalSteps, evalStep_root root env h0, h1]
  simp [addNew]

end Delb.XPath

import DelbModel.Model.Wrap
namespace Delb.Wrap

theorem rfindSp_spec : ∀ (t : List Char) (n i : Nat), rfindSp t n = some i →
    i < n ∧ i < t.length ∧ t[i]? = some ' ' := by
  intro t
  induction t with
  | nil => intro n i h; cases n <;> simp [rfindSp] at h
  | cons c cs ih =>
    intro n i h
    cases n with
    | zero => simp [rfindSp] at h
    | succ n =>
      simp only [rfindSp] at h
      split at h
      · rename_i j hj
        have := ih n j hj
        cases h
        simp; omega
      · split at h
        · cases h; subst_vars; simp
        · cases h

theorem take_sp_drop (t : List Char) (i : Nat) (h : t[i]? = some ' ') :
    t.take i ++ ' ' :: t.drop (i+1) = t := by
  induction t generalizing i with
  | nil => simp at h
  | cons c cs ih =>
    cases i with
    | zero => simp at h; simp [h]
    | succ i => simp at h; simp [ih i h]

theorem findSpFrom_spec : ∀ (t : List Char) (lo i : Nat), findSpFrom t lo = some i →
    lo ≤ i ∧ i < t.length ∧ t[i]? = some ' ' := by
  intro t
  induction t with
  | nil => intro lo i h; simp [findSpFrom] at h
  | cons c cs ih =>
    intro lo i h
    cases lo with
    | zero =>
      simp only [findSpFrom] at h
      split at h
      · cases h; subst_vars; simp
      · simp only [Option.map_eq_some_iff] at h
        obtain ⟨j, hj, rfl⟩ := h
        obtain ⟨h1, h2, h3⟩ := ih 0 j hj
        exact ⟨by omega, by simp; omega, by simpa using h3⟩
    | succ lo =>
      simp only [findSpFrom, Option.map_eq_some_iff] at h
      obtain ⟨j, hj, rfl⟩ := h
      obtain ⟨h1, h2, h3⟩ := ih lo j hj
      exact ⟨by omega, by simp; omega, by simpa using h3⟩

theorem wrap_ne_nil (w : Nat) : ∀ fuel (t : List Char), t ≠ [] → t.length < fuel → wrap w fuel t ≠ [] := by
  intro fuel t hne hf
  cases fuel with
  | zero => omega
  | succ fuel =>
    unfold wrap
    split
    · split
      · simp
      · split <;> simp
    · simp [hne]

theorem join_cons_ne (l : List Char) (ls : List (List Char)) (h : ls ≠ []) :
    join (l :: ls) = l ++ ' ' :: join ls := by
  cases ls with
  | nil => exact absurd rfl h
  | cons a as => rfl

theorem getLast?_drop (t : List Char) (k : Nat) (hk : k < t.length) :
    (t.drop k).getLast? = t.getLast? := by
  rw [List.getLast?_drop]; simp; omega

theorem join_wrap (w : Nat) : ∀ fuel (t : List Char), t.length < fuel →
    t.getLast? ≠ some ' ' → join (wrap w fuel t) = t := by
  intro fuel
  induction fuel with
  | zero => intro t h; omega
  | succ fuel ih =>
    intro t hf hl
    unfold wrap
    split
    · rename_i hlen
      split
      · rename_i i hi
        obtain ⟨_, hil, hsp⟩ := rfindSp_spec t (w+1) i hi
        have hlt : i + 1 < t.length := by
          rcases Nat.lt_or_ge (i+1) t.length with h | h
          · exact h
          · exfalso
            have : i = t.length - 1 := by omega
            apply hl
            rw [List.getLast?_eq_getElem?]; rw [← this]; exact hsp
        have hne : t.drop (i+1) ≠ [] := by
          intro h; have := congrArg List.length h; simp at this; omega
        have hlen' : (t.drop (i+1)).length < fuel := by simp; omega
        rw [join_cons_ne _ _ (wrap_ne_nil w fuel _ hne hlen')]
        rw [ih _ hlen' (by rw [getLast?_drop t (i+1) hlt]; exact hl)]
        exact take_sp_drop t i hsp
      · split
        · rename_i i hi
          obtain ⟨_, hil, hsp⟩ := findSpFrom_spec t w (i+1) hi
          have hlt : i + 2 < t.length := by
            rcases Nat.lt_or_ge (i+2) t.length with h | h
            · exact h
            · exfalso
              have : i + 1 = t.length - 1 := by omega
              apply hl
              rw [List.getLast?_eq_getElem?]; rw [← this]; exact hsp
          have hne : t.drop (i+2) ≠ [] := by
            intro h; have := congrArg List.length h; simp at this; omega
          have hlen' : (t.drop (i+2)).length < fuel := by simp; omega
          rw [join_cons_ne _ _ (wrap_ne_nil w fuel _ hne hlen')]
          rw [ih _ hlen' (by rw [getLast?_drop t (i+2) hlt]; exact hl)]
          exact take_sp_drop t (i+1) hsp
        · rfl
    · split
      · subst_vars; rfl
      · rfl

/-! ## Lemmas for C19: `wrap` agrees with the greedy fill -/

theorem join_append (cur rest : List (List Char)) (h1 : cur ≠ []) (h2 : rest ≠ []) :
    join (cur ++ rest) = join cur ++ ' ' :: join rest := by
  induction cur with
  | nil => exact absurd rfl h1
  | cons a cs ih =>
    cases cs with
    | nil => simp [join_cons_ne _ _ h2, join]
    | cons b cs =>
      have : (b :: cs) ++ rest ≠ [] := by simp
      rw [List.cons_append, join_cons_ne _ _ this, ih (by simp)]
      simp [join]

theorem join_append_singleton (cur : List (List Char)) (wd : List Char) (h1 : cur ≠ []) :
    join (cur ++ [wd]) = join cur ++ ' ' :: wd := by
  rw [join_append cur [wd] h1 (by simp)]; rfl

theorem join_cons_prefix (wd : List Char) (wds : List (List Char)) :
    ∃ c, join (wd :: wds) = wd ++ c := by
  cases wds with
  | nil => exact ⟨[], by simp [join]⟩
  | cons a as => exact ⟨' ' :: join (a :: as), rfl⟩

theorem join_ne_nil (cur : List (List Char)) (h1 : cur ≠ []) (h : ∀ wd ∈ cur, IsWord wd) :
    join cur ≠ [] := by
  cases cur with
  | nil => exact absurd rfl h1
  | cons a as =>
    obtain ⟨c, hc⟩ := join_cons_prefix a as
    have := (h a (by simp)).1
    rw [hc]; simp [this]

theorem rfindSp_none (wd c : List Char) (n : Nat) (h : ' ' ∉ wd) (hn : n ≤ wd.length) :
    rfindSp (wd ++ c) n = none := by
  induction wd generalizing n with
  | nil => simp at hn; subst hn; simp [rfindSp]
  | cons x xs ih =>
    simp at h
    cases n with
    | zero => simp [rfindSp]
    | succ n =>
      simp only [List.cons_append, rfindSp]
      rw [ih n h.2 (by simpa using hn)]
      simp [Ne.symm h.1]

theorem rfindSp_at (a wd c : List Char) (n : Nat) (h : ' ' ∉ wd) (h1 : a.length < n)
    (h2 : n ≤ a.length + 1 + wd.length) :
    rfindSp (a ++ ' ' :: (wd ++ c)) n = some a.length := by
  induction a generalizing n with
  | nil =>
    cases n with
    | zero => simp at h1
    | succ n =>
      simp only [List.nil_append, rfindSp]
      rw [rfindSp_none wd c n h (by simp at h2; omega)]
      simp
  | cons x xs ih =>
    cases n with
    | zero => simp at h1
    | succ n =>
      simp only [List.cons_append, rfindSp]
      rw [ih n (by simp at h1; omega) (by simp at h2; omega)]
      simp

theorem findSpFrom_at (c b : List Char) (lo : Nat) (h : ' ' ∉ c) (hlo : lo ≤ c.length) :
    findSpFrom (c ++ ' ' :: b) lo = some c.length := by
  induction c generalizing lo with
  | nil => simp at hlo; subst hlo; simp [findSpFrom]
  | cons x xs ih =>
    simp at h
    cases lo with
    | zero => simp [findSpFrom, Ne.symm h.1, ih 0 h.2 (by omega)]
    | succ lo => simp [findSpFrom, ih lo h.2 (by simpa using hlo)]

theorem findSpFrom_none (c : List Char) (lo : Nat) (h : ' ' ∉ c) :
    findSpFrom c lo = none := by
  induction c generalizing lo with
  | nil => simp [findSpFrom]
  | cons x xs ih =>
    simp at h
    cases lo with
    | zero => simp [findSpFrom, Ne.symm h.1, ih 0 h.2]
    | succ lo => simp [findSpFrom, ih lo h.2]

/-- a space at position ≤ w followed by a word that crosses the width: break there -/
theorem wrap_emit_r (w fuel : Nat) (a wd c : List Char) (h : ' ' ∉ wd) (h1 : a.length ≤ w)
    (h2 : w < a.length + 1 + wd.length) :
    wrap w (fuel+1) (a ++ ' ' :: (wd ++ c)) = a :: wrap w fuel (wd ++ c) := by
  rw [wrap]
  have hlen : (a ++ ' ' :: (wd ++ c)).length > w := by simp; omega
  rw [if_pos hlen, rfindSp_at a wd c (w+1) h (by omega) (by omega)]
  simp

/-- a first word longer than the width: break at the first space after it -/
theorem wrap_emit_f (w fuel : Nat) (c b : List Char) (h : ' ' ∉ c) (h1 : w < c.length) :
    wrap w (fuel+1) (c ++ ' ' :: b) = c :: wrap w fuel b := by
  rw [wrap]
  have hlen : (c ++ ' ' :: b).length > w := by simp; omega
  rw [if_pos hlen, rfindSp_none c (' ' :: b) (w+1) h (by omega),
    findSpFrom_at c b w h (by omega)]
  obtain ⟨k, hk⟩ : ∃ k, c.length = k + 1 := ⟨c.length - 1, by omega⟩
  have e1 : List.take (k + 1) (c ++ ' ' :: b) = c := by
    rw [← hk]; simp
  have e2 : List.drop (k + 2) (c ++ ' ' :: b) = b := by
    have : k + 2 = c.length + 1 := by omega
    rw [this, List.drop_append]; simp
  rw [hk]
  simp only [e1, e2]

theorem wrap_last_short (w fuel : Nat) (t : List Char) (h : t ≠ []) (h1 : t.length ≤ w) :
    wrap w (fuel+1) t = [t] := by
  rw [wrap]
  rw [if_neg (by omega), if_neg h]

theorem wrap_last_word (w fuel : Nat) (c : List Char) (hne : c ≠ []) (h : ' ' ∉ c) :
    wrap w (fuel+1) c = [c] := by
  rcases Nat.lt_or_ge w c.length with hl | hl
  · rw [wrap]
    have := rfindSp_none c [] (w+1) h (by omega)
    rw [List.append_nil] at this
    rw [if_pos hl, this, findSpFrom_none c w h]
  · exact wrap_last_short w fuel c hne hl

theorem wrap_groups (w : Nat) : ∀ (rest cur : List (List Char)) (fuel : Nat),
    cur ≠ [] → (∀ wd ∈ cur, IsWord wd) → (∀ wd ∈ rest, IsWord wd) →
    ((join cur).length ≤ w ∨ ∃ c, cur = [c]) →
    (join (cur ++ rest)).length < fuel →
    wrap w fuel (join (cur ++ rest)) = (groups w cur rest).map join := by
  intro rest
  induction rest with
  | nil =>
    intro cur fuel hne hcur _ hfit hfuel
    obtain ⟨fuel, rfl⟩ : ∃ k, fuel = k + 1 := ⟨fuel - 1, by omega⟩
    simp only [List.append_nil, groups, List.map_cons, List.map_nil]
    rcases Nat.lt_or_ge w (join cur).length with hl | hl
    · obtain ⟨c, rfl⟩ := hfit.resolve_left (by omega)
      have hc := hcur c (by simp)
      exact wrap_last_word w fuel c hc.1 hc.2
    · exact wrap_last_short w fuel _ (join_ne_nil cur hne hcur) hl
  | cons wd wds ih =>
    intro cur fuel hne hcur hrest hfit hfuel
    have hwd := hrest wd (by simp)
    have hwds : ∀ x ∈ wds, IsWord x := fun x hx => hrest x (by simp [hx])
    unfold groups
    split
    · rename_i hle
      have e : cur ++ wd :: wds = (cur ++ [wd]) ++ wds := by simp
      rw [e] at hfuel ⊢
      refine ih (cur ++ [wd]) fuel (by simp) ?_ hwds ?_ hfuel
      · intro x hx
        rcases List.mem_append.1 hx with h | h
        · exact hcur x h
        · simp at h; subst h; exact hwd
      · left; rw [join_append_singleton cur wd hne]; simp; omega
    · rename_i hnle
      obtain ⟨fuel, rfl⟩ : ∃ k, fuel = k + 1 := ⟨fuel - 1, by omega⟩
      have hj := join_append cur (wd :: wds) hne (by simp)
      obtain ⟨c, hc⟩ := join_cons_prefix wd wds
      have hfuel' : (join ([wd] ++ wds)).length < fuel := by
        rw [hj] at hfuel; simp at hfuel ⊢; omega
      have key := ih [wd] fuel (by simp) (by simpa using hwd) hwds (Or.inr ⟨wd, rfl⟩) hfuel'
      simp only [List.map_cons]
      rw [← key, hj]
      rcases Nat.lt_or_ge w (join cur).length with hl | hl
      · obtain ⟨x, rfl⟩ := hfit.resolve_left (by omega)
        have hx := hcur x (by simp)
        exact wrap_emit_f w fuel x _ hx.2 hl
      · simp only [List.singleton_append]
        rw [hc]
        exact wrap_emit_r w fuel (join cur) wd c hwd.2 hl (by omega)

/-! ### Structure of `groups` -/

theorem groups_flatten (w : Nat) : ∀ (rest cur : List (List Char)),
    (groups w cur rest).flatten = cur ++ rest := by
  intro rest
  induction rest with
  | nil => intro cur; simp [groups]
  | cons wd wds ih =>
    intro cur
    unfold groups
    split
    · rw [ih]; simp
    · simp [ih]

theorem groups_ne_nil (w : Nat) : ∀ (rest cur : List (List Char)), cur ≠ [] →
    ∀ g ∈ groups w cur rest, g ≠ [] := by
  intro rest
  induction rest with
  | nil => intro cur h g hg; simp [groups] at hg; subst hg; exact h
  | cons wd wds ih =>
    intro cur h g hg
    unfold groups at hg
    split at hg
    · exact ih _ (by simp) g hg
    · rcases List.mem_cons.1 hg with rfl | hg
      · exact h
      · exact ih _ (by simp) g hg

theorem groups_width (w : Nat) : ∀ (rest cur : List (List Char)), cur ≠ [] →
    ((join cur).length ≤ w ∨ cur.length = 1) →
    ∀ g ∈ groups w cur rest, (join g).length ≤ w ∨ g.length = 1 := by
  intro rest
  induction rest with
  | nil => intro cur _ h g hg; simp [groups] at hg; subst hg; exact h
  | cons wd wds ih =>
    intro cur hne h g hg
    unfold groups at hg
    split at hg
    · rename_i hle
      refine ih _ (by simp) ?_ g hg
      left; rw [join_append_singleton cur wd hne]; simp; omega
    · rcases List.mem_cons.1 hg with rfl | hg
      · exact h
      · exact ih _ (by simp) (Or.inr rfl) g hg

theorem groups_head (w : Nat) : ∀ (rest cur : List (List Char)),
    ∃ r tl, groups w cur rest = (cur ++ r) :: tl := by
  intro rest
  induction rest with
  | nil => intro cur; exact ⟨[], [], by simp [groups]⟩
  | cons wd wds ih =>
    intro cur
    unfold groups
    split
    · obtain ⟨r, tl, h⟩ := ih (cur ++ [wd])
      exact ⟨wd :: r, tl, by simp [h]⟩
    · exact ⟨[], groups w [wd] wds, by simp⟩

theorem groups_greedy (w : Nat) : ∀ (rest cur : List (List Char)) (i : Nat)
    (g₁ g₂ : List (List Char)),
    (groups w cur rest)[i]? = some g₁ → (groups w cur rest)[i+1]? = some g₂ →
    ∃ wd r, g₂ = wd :: r ∧ (join g₁).length + 1 + wd.length > w := by
  intro rest
  induction rest with
  | nil => intro cur i g₁ g₂ _ h₂; simp [groups] at h₂
  | cons wd wds ih =>
    intro cur i g₁ g₂ h₁ h₂
    unfold groups at h₁ h₂
    split at h₁
    · rename_i hle
      rw [if_pos hle] at h₂
      exact ih _ i g₁ g₂ h₁ h₂
    · rename_i hnle
      rw [if_neg hnle] at h₂
      cases i with
      | zero =>
        simp at h₁; subst h₁
        obtain ⟨r, tl, h⟩ := groups_head w wds [wd]
        rw [h] at h₂
        simp at h₂; subst h₂
        exact ⟨wd, r, rfl, by omega⟩
      | succ i =>
        simp only [List.getElem?_cons_succ] at h₁ h₂
        exact ih _ i g₁ g₂ h₁ h₂

end Delb.Wrap

import DelbModel.Model.Compare
import DelbModel.Props.C02
/-!
# Helper lemma for the C17 corollaries: trees the serializer can write have unique attribute keys
-/
namespace Delb.Compare
open Delb.Ser

mutual
  theorem wellFormed_of_serializable : (t : Node) → Serializable t → wellFormed t
    | .tag ns name attrs kids, h => by
      simp only [Serializable] at h
      simp only [wellFormed, uniqueKeys]
      exact ⟨h.2.2.2.1, wellFormedList_of_serializable kids h.2.2.2.2⟩
    | .text _, _ => by simp [wellFormed]
    | .comment _, _ => by simp [wellFormed]
    | .pi _ _, _ => by simp [wellFormed]
  theorem wellFormedList_of_serializable : (ks : List Node) → SerializableList ks → wellFormedList ks
    | [], _ => by simp [wellFormedList]
    | k :: ks, h => by
      simp only [SerializableList] at h
      simp only [wellFormedList]
      exact ⟨wellFormed_of_serializable k h.1, wellFormedList_of_serializable ks h.2⟩
end

end Delb.Compare

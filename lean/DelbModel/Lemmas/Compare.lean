import DelbModel.Model.Compare
/-!
# Helper lemmas for C17 (`compare_trees`)

* pigeonhole on duplicate-free key lists, `attrsEq_iff : attrsEq a b = true ↔ sameDict a b`
* `skipHidden`/`visibleList` bookkeeping
* `compare_none_iff`/`compareKids_none_iff`: the verdict "equal" characterised by `Eqv` of visible trees
* `compare_some`/`compareKids_some`: a reported difference addresses a really differing pair
-/
namespace Delb.Compare

theorem nodup_subset_length_le {α} [DecidableEq α] :
    ∀ (a b : List α), a.Nodup → a ⊆ b → a.length ≤ b.length
  | [], _, _, _ => by simp
  | x :: a', b, hn, hs => by
    have hx : x ∈ b := hs (List.mem_cons_self ..)
    have hn' := List.nodup_cons.mp hn
    have hs' : a' ⊆ b.erase x := by
      intro y hy
      have hne : y ≠ x := fun h => hn'.1 (h ▸ hy)
      exact (List.mem_erase_of_ne hne).mpr (hs (List.mem_cons_of_mem _ hy))
    have ih := nodup_subset_length_le a' (b.erase x) hn'.2 hs'
    have hl := List.length_erase_of_mem hx
    have : 0 < b.length := List.length_pos_of_mem hx
    simp only [List.length_cons]; omega

theorem nodup_subset_of_length_eq {α} [DecidableEq α] :
    ∀ (a b : List α), a.Nodup → a ⊆ b → a.length = b.length → b ⊆ a
  | [], b, _, _, hl => by
    have : b = [] := List.eq_nil_of_length_eq_zero (by simpa using hl.symm)
    simp [this]
  | x :: a', b, hn, hs, hl => by
    have hx : x ∈ b := hs (List.mem_cons_self ..)
    have hn' := List.nodup_cons.mp hn
    have hs' : a' ⊆ b.erase x := by
      intro y hy
      have hne : y ≠ x := fun h => hn'.1 (h ▸ hy)
      exact (List.mem_erase_of_ne hne).mpr (hs (List.mem_cons_of_mem _ hy))
    have hle := List.length_erase_of_mem hx
    have : 0 < b.length := List.length_pos_of_mem hx
    have ih := nodup_subset_of_length_eq a' (b.erase x) hn'.2 hs' (by simp only [List.length_cons] at hl; omega)
    intro z hz
    by_cases hzx : z = x
    · simp [hzx]
    · exact List.mem_cons_of_mem _ (ih ((List.mem_erase_of_ne hzx).mpr hz))

def akey (x : Attr) : String × String := (x.ns, x.name)

theorem lookupAttr_eq_none {ns name : String} : ∀ {l : List Attr},
    lookupAttr ns name l = none ↔ (ns, name) ∉ l.map akey
  | [] => by simp [lookupAttr]
  | x :: l => by
    simp only [lookupAttr, List.map_cons, List.mem_cons, akey]
    by_cases h : x.ns = ns ∧ x.name = name
    · simp [h.1, h.2]
    · have : (x.ns == ns && x.name == name) = false := by
        simpa using h
      rw [this]
      simp only [Bool.false_eq_true, if_false]
      rw [lookupAttr_eq_none (l := l)]
      have : ¬ (ns, name) = (x.ns, x.name) := by
        intro e; injection e with e1 e2; exact h ⟨e1.symm, e2.symm⟩
      simp [this, akey]

theorem lookupAttr_eq_some {ns name : String} {v : Str} : ∀ {l : List Attr},
    lookupAttr ns name l = some v → ∃ x ∈ l, x.ns = ns ∧ x.name = name ∧ x.value = v
  | [] => by simp [lookupAttr]
  | x :: l => by
    simp only [lookupAttr]
    split
    · rename_i h
      intro hv
      simp at h hv
      exact ⟨x, by simp, h.1, h.2, hv⟩
    · intro hv
      obtain ⟨y, hy, h⟩ := lookupAttr_eq_some (l := l) hv
      exact ⟨y, List.mem_cons_of_mem _ hy, h⟩

theorem lookupAttr_of_mem : ∀ {l : List Attr} {x : Attr}, uniqueKeys l → x ∈ l →
    lookupAttr x.ns x.name l = some x.value
  | [], _, _, h => by simp at h
  | y :: l, x, hu, hx => by
    have hu' : (y.ns, y.name) ∉ l.map (fun x => (x.ns, x.name)) ∧ (l.map (fun x => (x.ns, x.name))).Nodup :=
      List.nodup_cons.mp hu
    simp only [lookupAttr]
    rcases List.mem_cons.mp hx with rfl | hx
    · simp
    · have : ¬ (y.ns = x.ns ∧ y.name = x.name) := by
        intro ⟨h1, h2⟩
        apply hu'.1
        simp only [List.mem_map]
        exact ⟨x, hx, by simp [h1, h2]⟩
      have : (y.ns == x.ns && y.name == x.name) = false := by simpa using this
      rw [this]
      simp only [Bool.false_eq_true, if_false]
      exact lookupAttr_of_mem hu'.2 hx


theorem mem_keys_iff {ns name : String} {l : List Attr} :
    (ns, name) ∈ l.map akey ↔ lookupAttr ns name l ≠ none := by
  rw [Ne, lookupAttr_eq_none]; exact Classical.not_not.symm

theorem attrsEq_iff {a b : List Attr} (ha : uniqueKeys a) (hb : uniqueKeys b) :
    attrsEq a b = true ↔ sameDict a b := by
  have hna : (a.map akey).Nodup := ha
  have hnb : (b.map akey).Nodup := hb
  constructor
  · intro h
    simp only [attrsEq, Bool.and_eq_true, beq_iff_eq, List.all_eq_true] at h
    obtain ⟨hl, hall⟩ := h
    have hsub : a.map akey ⊆ b.map akey := by
      intro k hk
      obtain ⟨x, hx, rfl⟩ := List.mem_map.mp hk
      refine mem_keys_iff.mpr ?_
      rw [hall x hx]; simp
    have hsub' := nodup_subset_of_length_eq _ _ hna hsub (by simpa using hl)
    intro ns name
    cases h : lookupAttr ns name a with
    | none =>
      have := lookupAttr_eq_none.mp h
      exact (lookupAttr_eq_none.mpr (fun hm => this (hsub' hm))).symm
    | some v =>
      obtain ⟨x, hx, rfl, rfl, rfl⟩ := lookupAttr_eq_some h
      exact (hall x hx).symm
  · intro h
    have hsub : a.map akey ⊆ b.map akey := by
      intro k hk
      obtain ⟨x, hx, rfl⟩ := List.mem_map.mp hk
      refine mem_keys_iff.mpr ?_
      rw [← h]; exact mem_keys_iff.mp hk
    have hsub' : b.map akey ⊆ a.map akey := by
      intro k hk
      obtain ⟨x, hx, rfl⟩ := List.mem_map.mp hk
      refine mem_keys_iff.mpr ?_
      rw [h]; exact mem_keys_iff.mp hk
    have h1 := nodup_subset_length_le _ _ hna hsub
    have h2 := nodup_subset_length_le _ _ hnb hsub'
    simp only [List.length_map] at h1 h2
    simp only [attrsEq, Bool.and_eq_true, beq_iff_eq, List.all_eq_true]
    refine ⟨by omega, ?_⟩
    intro x hx
    rw [← h, lookupAttr_of_mem ha hx]

theorem sameDict_refl (a : List Attr) : sameDict a a := fun _ _ => rfl
theorem sameDict_symm {a b : List Attr} (h : sameDict a b) : sameDict b a :=
  fun ns name => (h ns name).symm


/-! ## trees -/


theorem visibleList_length (f : Node → Bool) : ∀ ks, (visibleList f ks).length = (ks.filter f).length
  | [] => by simp [visibleList]
  | k :: ks => by
    simp only [visibleList, List.filter_cons]
    split <;> simp [visibleList_length f ks]

theorem skipHidden_nil {f : Node → Bool} : ∀ {bs}, skipHidden f bs = [] → bs.filter f = []
  | [] => by simp
  | b :: bs => by
    simp only [skipHidden, List.filter_cons]
    split
    · simp
    · exact skipHidden_nil

theorem skipHidden_cons {f : Node → Bool} {b : Node} {bs' : List Node} : ∀ {bs}, skipHidden f bs = b :: bs' →
    f b = true ∧ bs.filter f = b :: bs'.filter f ∧
    visibleList f bs = visible f b :: visibleList f bs' ∧
    (wellFormedList bs → wellFormed b ∧ wellFormedList bs')
  | [] => by simp [skipHidden]
  | c :: bs => by
    simp only [skipHidden]
    split
    · rename_i hc
      intro h
      injection h with h1 h2
      subst h1 h2
      simp [hc, visibleList, wellFormedList]
    · rename_i hc
      intro h
      obtain ⟨h1, h2, h3, h4⟩ := skipHidden_cons h
      refine ⟨h1, ?_, ?_, ?_⟩
      · simp [hc, h2]
      · simp [visibleList, hc, h3]
      · intro hw; simp only [wellFormedList] at hw; exact h4 hw.2


theorem compare_leaf_iff (f : Node → Bool) (a b : Node)
    (h : ∀ ns name attrs kids ns' name' attrs' kids',
      a = Node.tag ns name attrs kids → b = Node.tag ns' name' attrs' kids' → False) :
    compare f a b = none ↔ Eqv (visible f a) (visible f b) := by
  rw [compare.eq_2 f a b h]
  cases a <;> cases b <;> simp [sameKind, leafEq, visible]
  all_goals first
    | exact (h _ _ _ _ _ _ _ _ rfl rfl).elim
    | (intro e; cases e)
    | (constructor
       · first | (rintro ⟨rfl, rfl⟩; constructor) | (rintro rfl; constructor)
       · intro e; cases e; simp)

theorem Eqv.refl' : ∀ a : Node, Eqv a a := by
  intro a
  refine Node.rec (motive_1 := fun a => Eqv a a) (motive_2 := fun l => EqvList l l)
    ?_ ?_ ?_ ?_ ?_ ?_ a
  · intro ns name attrs kids ih; exact Eqv.tag _ _ _ _ _ _ (sameDict_refl _) ih
  · exact Eqv.text
  · exact Eqv.comment
  · exact Eqv.pi
  · exact EqvList.nil
  · intro h t ih1 ih2; exact EqvList.cons _ _ _ _ ih1 ih2

theorem Eqv.symm' : ∀ {a b : Node}, Eqv a b → Eqv b a := by
  intro a b h
  refine Eqv.rec (motive_1 := fun a b _ => Eqv b a) (motive_2 := fun l l' _ => EqvList l' l)
    ?_ ?_ ?_ ?_ ?_ ?_ h
  · exact Eqv.text
  · exact Eqv.comment
  · exact Eqv.pi
  · intro ns name a b ks ks' hd _ ih; exact Eqv.tag _ _ _ _ _ _ (sameDict_symm hd) ih
  · exact EqvList.nil
  · intro a b as bs _ _ ih1 ih2; exact EqvList.cons _ _ _ _ ih1 ih2

theorem EqvList.length_eq : ∀ {l l' : List Node}, EqvList l l' → l.length = l'.length
  | [], _, h => by cases h; rfl
  | _ :: _, _, h => by
    cases h with
    | cons _ _ _ _ _ h2 => simp [EqvList.length_eq h2]

mutual
theorem compare_none_iff (f : Node → Bool) : ∀ (a b : Node), wellFormed a → wellFormed b →
    (compare f a b = none ↔ Eqv (visible f a) (visible f b))
  | .tag ns name attrs kids, b, ha, hb => by
    cases b with
    | tag ns' name' attrs' kids' =>
      simp only [wellFormed] at ha hb
      have hA := attrsEq_iff ha.1 hb.1
      have hK := fun h => compareKids_none_iff f kids kids' 0 ha.2 hb.2 h
      simp only [compare.eq_1, visible]
      by_cases h1 : ns = ns'
      case neg =>
        simp only [bne_iff_ne, ne_eq, h1, not_false_eq_true, if_true, reduceCtorEq, false_iff]
        intro e; cases e; exact h1 rfl
      subst h1
      by_cases h2 : name = name'
      case neg =>
        simp only [bne_iff_ne, ne_eq, h2, not_false_eq_true, if_true, not_true_eq_false, if_false,
          reduceCtorEq, false_iff]
        intro e; cases e; exact h2 rfl
      subst h2
      by_cases h3 : attrsEq attrs attrs' = true
      case neg =>
        simp only [bne_iff_ne, ne_eq, not_true_eq_false, if_false, h3, Bool.not_false,
          if_true, reduceCtorEq, false_iff]
        intro e; cases e with
        | tag _ _ _ _ _ _ hd _ => exact h3 (hA.mpr hd)
      by_cases h4 : (kids.filter f).length = (kids'.filter f).length
      case neg =>
        simp only [bne_iff_ne, ne_eq, not_true_eq_false, if_false, h3, Bool.not_true, Bool.false_eq_true,
          h4, not_false_eq_true, if_true, reduceCtorEq, false_iff]
        intro e; cases e with
        | tag _ _ _ _ _ _ _ hk =>
          apply h4
          rw [← visibleList_length, ← visibleList_length]
          exact hk.length_eq
      simp only [bne_iff_ne, ne_eq, not_true_eq_false, if_false, h3, Bool.not_true, Bool.false_eq_true,
          h4, hK h4]
      constructor
      · intro h; exact Eqv.tag _ _ _ _ _ _ (hA.mp h3) h
      · intro e; cases e; assumption
    | text s => exact compare_leaf_iff f _ _ (by intros; simp_all)
    | comment s => exact compare_leaf_iff f _ _ (by intros; simp_all)
    | pi t s => exact compare_leaf_iff f _ _ (by intros; simp_all)
  | .text s, b, _, _ => compare_leaf_iff f _ _ (by intros; simp_all)
  | .comment s, b, _, _ => compare_leaf_iff f _ _ (by intros; simp_all)
  | .pi t s, b, _, _ => compare_leaf_iff f _ _ (by intros; simp_all)
theorem compareKids_none_iff (f : Node → Bool) : ∀ (as bs : List Node) (i : Nat),
    wellFormedList as → wellFormedList bs → (as.filter f).length = (bs.filter f).length →
    (compareKids f i as bs = none ↔ EqvList (visibleList f as) (visibleList f bs))
  | [], bs, i, _, _, hl => by
    have : bs.filter f = [] := List.eq_nil_of_length_eq_zero (by simpa using hl.symm)
    have : visibleList f bs = [] := List.eq_nil_of_length_eq_zero (by rw [visibleList_length, this]; rfl)
    simp only [compareKids, visibleList, this, true_iff]
    exact EqvList.nil
  | a :: as, bs, i, ha, hb, hl => by
    simp only [wellFormedList] at ha
    rw [compareKids.eq_2]
    by_cases hfa : f a = true
    · simp only [hfa, if_true, visibleList, List.filter_cons] at hl ⊢
      cases hs : skipHidden f bs with
      | nil =>
        have := skipHidden_nil hs
        simp [this] at hl
      | cons b bs' =>
        obtain ⟨hfb, hflt, hvis, hwf⟩ := skipHidden_cons hs
        obtain ⟨hwb, hwbs'⟩ := hwf hb
        have ih1 := compare_none_iff f a b ha.1 hwb
        have ih2 := compareKids_none_iff f as bs' (i+1) ha.2 hwbs' (by simpa [hflt] using hl)
        simp only [hvis]
        cases hc : compare f a b with
        | none =>
          simp only [ih2]
          constructor
          · intro h; exact EqvList.cons _ _ _ _ (ih1.mp hc) h
          · intro h; cases h; assumption
        | some dp =>
          obtain ⟨d, p⟩ := dp
          simp only [reduceCtorEq, false_iff]
          intro h
          cases h with
          | cons _ _ _ _ h1 h2 => rw [ih1.mpr h1] at hc; cases hc
    · simp only [hfa, Bool.false_eq_true, if_false, visibleList, List.filter_cons] at hl ⊢
      exact compareKids_none_iff f as bs i ha.2 hb hl
end


theorem sameKind_visible (f : Node → Bool) (a b : Node) :
    sameKind (visible f a) (visible f b) = sameKind a b := by
  cases a <;> cases b <;> simp [visible, sameKind]

theorem leafEq_visible (f : Node → Bool) (a b : Node) :
    leafEq (visible f a) (visible f b) = leafEq a b := by
  cases a <;> cases b <;> simp [visible, leafEq]

theorem compare_leaf_some (f : Node → Bool) (a b : Node)
    (h : ∀ ns name attrs kids ns' name' attrs' kids',
      a = Node.tag ns name attrs kids → b = Node.tag ns' name' attrs' kids' → False)
    (d : Diff) (p : List Nat) (hc : compare f a b = some (d, p)) :
    ∃ x y, nodeAt (visible f a) p = some x ∧ nodeAt (visible f b) p = some y ∧ DiffersIn d x y := by
  rw [compare.eq_2 f a b h] at hc
  by_cases h1 : sameKind a b = true
  · by_cases h2 : leafEq a b = true
    · simp [h1, h2] at hc
    · simp [h1, h2] at hc
      obtain ⟨rfl, rfl⟩ := hc
      exact ⟨_, _, rfl, rfl, by simp [DiffersIn, sameKind_visible, leafEq_visible, h1, h2]⟩
  · simp [h1] at hc
    obtain ⟨rfl, rfl⟩ := hc
    exact ⟨_, _, rfl, rfl, by simp [DiffersIn, sameKind_visible, h1]⟩


mutual
theorem compare_some (f : Node → Bool) : ∀ (a b : Node), wellFormed a → wellFormed b →
    ∀ (d : Diff) (p : List Nat), compare f a b = some (d, p) →
    ∃ x y, nodeAt (visible f a) p = some x ∧ nodeAt (visible f b) p = some y ∧ DiffersIn d x y
  | .tag ns name attrs kids, b, ha, hb, d, p, hc => by
    cases b with
    | tag ns' name' attrs' kids' =>
      simp only [wellFormed] at ha hb
      have hA := attrsEq_iff ha.1 hb.1
      have hK := compareKids_some f kids kids' 0 ha.2 hb.2 d p
      simp only [compare.eq_1] at hc
      simp only [visible]
      by_cases h1 : ns = ns'
      case neg =>
        simp [h1] at hc
        obtain ⟨rfl, rfl⟩ := hc
        exact ⟨_, _, rfl, rfl, by simpa [DiffersIn] using h1⟩
      by_cases h2 : name = name'
      case neg =>
        simp [h1, h2] at hc
        obtain ⟨rfl, rfl⟩ := hc
        exact ⟨_, _, rfl, rfl, by simpa [DiffersIn] using ⟨h1, h2⟩⟩
      by_cases h3 : attrsEq attrs attrs' = true
      case neg =>
        simp [h1, h2, h3] at hc
        obtain ⟨rfl, rfl⟩ := hc
        exact ⟨_, _, rfl, rfl, by simpa [DiffersIn] using fun hd => h3 (hA.mpr hd)⟩
      by_cases h4 : (kids.filter f).length = (kids'.filter f).length
      case neg =>
        simp [h1, h2, h3, h4] at hc
        obtain ⟨rfl, rfl⟩ := hc
        exact ⟨_, _, rfl, rfl, by simpa [DiffersIn, kidsOf, visibleList_length] using h4⟩
      simp [h1, h2, h3, h4] at hc
      obtain ⟨j, p', rfl, x', y', hx', hy', x, y, hx, hy, hd⟩ := hK hc
      refine ⟨x, y, ?_, ?_, hd⟩
      · simp [nodeAt, hx', hx]
      · simp [nodeAt, hy', hy]
    | text s => exact compare_leaf_some f _ _ (by intros; simp_all) d p hc
    | comment s => exact compare_leaf_some f _ _ (by intros; simp_all) d p hc
    | pi t s => exact compare_leaf_some f _ _ (by intros; simp_all) d p hc
  | .text s, b, _, _, d, p, hc => compare_leaf_some f _ _ (by intros; simp_all) d p hc
  | .comment s, b, _, _, d, p, hc => compare_leaf_some f _ _ (by intros; simp_all) d p hc
  | .pi t s, b, _, _, d, p, hc => compare_leaf_some f _ _ (by intros; simp_all) d p hc
theorem compareKids_some (f : Node → Bool) : ∀ (as bs : List Node) (i : Nat),
    wellFormedList as → wellFormedList bs →
    ∀ (d : Diff) (p : List Nat), compareKids f i as bs = some (d, p) →
    ∃ j p', p = (i + j) :: p' ∧ ∃ x' y', (visibleList f as)[j]? = some x' ∧
      (visibleList f bs)[j]? = some y' ∧
      ∃ x y, nodeAt x' p' = some x ∧ nodeAt y' p' = some y ∧ DiffersIn d x y
  | [], bs, i, _, _, d, p, hc => by simp [compareKids] at hc
  | a :: as, bs, i, ha, hb, d, p, hc => by
    simp only [wellFormedList] at ha
    rw [compareKids.eq_2] at hc
    by_cases hfa : f a = true
    · simp only [hfa, if_true, visibleList] at hc ⊢
      cases hs : skipHidden f bs with
      | nil => simp [hs] at hc
      | cons b bs' =>
        obtain ⟨hfb, hflt, hvis, hwf⟩ := skipHidden_cons hs
        obtain ⟨hwb, hwbs'⟩ := hwf hb
        simp only [hs] at hc
        simp only [hvis]
        cases hcab : compare f a b with
        | none =>
          simp only [hcab] at hc
          obtain ⟨j, p', rfl, x', y', hx', hy', h⟩ :=
            compareKids_some f as bs' (i+1) ha.2 hwbs' d p hc
          exact ⟨j+1, p', by simp; omega, x', y', by simpa using hx', by simpa using hy', h⟩
        | some dp =>
          obtain ⟨d', q⟩ := dp
          simp only [hcab, Option.some.injEq, Prod.mk.injEq] at hc
          obtain ⟨rfl, rfl⟩ := hc
          have ih1 := compare_some f a b ha.1 hwb d' q hcab
          exact ⟨0, q, by simp, _, _, by simp, by simp, ih1⟩
    · simp only [hfa, Bool.false_eq_true, if_false, visibleList] at hc ⊢
      exact compareKids_some f as bs i ha.2 hb d p hc
end

end Delb.Compare

import DelbModel.Lemmas.WrapFuel.Basic
import DelbModel.Lemmas.WrapFuel.Required
import DelbModel.Lemmas.WrapFuel.Leaves
import DelbModel.Lemmas.WrapFuel.Machine
import DelbModel.Lemmas.WrapFuel.Valid
import DelbModel.Lemmas.WrapFuel.TotalLeaves
import DelbModel.Lemmas.WrapFuel.TotalText
import DelbModel.Lemmas.WrapFuel.Total
/-!
# Helper lemmas for the totality theorems of Props/C03Wrap.lean

The text-wrapping serializer (`Model/Wrapping.lean`) recurses on an explicit budget; these files show that the
budget `fuelFor root = 8 * size root + 32` is never exhausted and that nothing else goes wrong either.

* `Basic.lean`       — `Tot P x Q` (the run ends in a result with `Q` or in an error with `P`), `NoFuel`;
                       `outside root p` / `rest root p`: the nodes after / from `p` on in document order;
                       `_fetch_following` moves on by at least one node (`rest_following`)
* `Required.lean`    — `_required_space(node)` needs at most `3 * rest root p + 1 ≤ 3 * size root + 1`
                       (`requiredSpace_noFuel`): its recursion follows `_fetch_following` and the children
* `Leaves.lean`      — the non-recursive methods do not report an exhausted budget
* `Machine.lean`     — `serialize_node(node)` needs at most `6 * size node` (`machine_noFuel`): five calls per
                       level of nesting, one per preceding sibling, one for the second attempt after a line
                       break; `wrapRoot_noFuel`
* `Valid.lean`       — navigation yields existing nodes; namespaces of subtrees; normalized text is not empty;
                       `_wrap_text` yields a line (and a non-empty first line for a text without leading space)
* `TotalLeaves.lean` — `OF x Q` (nothing but the budget error), `Sure x Q`; `_required_space`,
                       `_serialize_appendable_node` and the line-fitting serializer under `EnvOk`
* `TotalText.lean`   — `_serialize_text`: no `IndexError`, no `StopIteration` (`serializeText_of`)
* `Total.lean`       — `machine_of`, `wrapRoot_total`, `serializeWrapped_noFuel`
-/

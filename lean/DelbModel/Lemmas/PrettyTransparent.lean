import DelbModel.Model.Pretty
import DelbModel.Lemmas.Roundtrip
import DelbModel.Lemmas.Whitespace
import DelbModel.Lemmas.Pretty
import DelbModel.Lemmas.PrettyTransparent.Lay
import DelbModel.Lemmas.PrettyTransparent.Strings
import DelbModel.Lemmas.PrettyTransparent.Reduce
/-!
# Helper lemmas for Props/C03.lean

* `PrettyTransparent/Lay.lean`     — reading the pretty printer's output back gives the laid-out tree
                                      (`prettyRoot_build`: `build (eraseAll ps) = normalize (layNode o 0 t)`)
* `PrettyTransparent/Strings.lean` — whitespace reduction of one written gap gives back its text
* `PrettyTransparent/Reduce.lean`  — whitespace reduction of the laid-out tree gives back the tree (`lay_reduce`)
* this file                        — totality, layout pieces are whitespace, text content of `normalize`
-/
set_option linter.unusedSimpArgs false
namespace Delb.Pretty
open Delb.Ser Delb.WS

/-! ## the pretty printer never fails when every namespace has a prefix -/

theorem pretty_total_all (o : Opts) (m : Dict) :
    (∀ t, (∀ ns ∈ treeNamespaces t, (dget m ns).isSome) → t.isTag = true →
        ∀ level ad, ∃ ps, prettyTag o m level ad t = .ok ps) ∧
    (∀ l, (∀ ns ∈ kidsNamespaces l, (dget m ns).isSome) →
        ∀ level prev run ras, ∃ ps, prettyKids o m level prev run ras l = .ok ps) := by
  apply Pretty.node_induct
  · intro ns name attrs kids ihk hm _ level ad
    by_cases hd : directive attrs .default = .preserve
    · obtain ⟨toks, he⟩ := emitNode_total (.tag ns name attrs kids) hm
      rw [prettyTag.eq_1, if_pos hd, he]
      split
      · exact ⟨_, rfl⟩
      · exact ⟨_, rfl⟩
      · rename_i heq; cases heq
    · obtain ⟨p, hp⟩ := Option.isSome_iff_exists.1 (hm ns (by simp [treeNamespaces]))
      have hpfx : pfx m ns = .ok p := by simp [pfx, hp]
      obtain ⟨ks, hks⟩ := ihk (fun ns' h' => hm ns' (by simp [treeNamespaces, h'])) (level + 1) none [] true
      rw [prettyTag.eq_1, if_neg hd, hpfx]
      simp only [hks]
      split <;> exact ⟨_, rfl⟩
  · intro s _ h; simp [Node.isTag] at h
  · intro s _ h; simp [Node.isTag] at h
  · intro t s _ h; simp [Node.isTag] at h
  · intro _ level prev run ras
    exact ⟨_, prettyKids_nil ..⟩
  · intro k rest ihk ihrest hm level prev run ras
    have hrest := ihrest (fun ns' h' => hm ns' (by simp [kidsNamespaces, h']))
    cases hk : k.isText with
    | true =>
      cases k with
      | text s =>
        rw [prettyKids_text]
        split <;> apply hrest
      | _ => simp [Node.isText] at hk
    | false =>
      rw [prettyKids_node _ _ _ _ _ _ _ _ hk]
      obtain ⟨r, hr⟩ := hrest level (some k) [] false
      have hb : ∃ b, nodeBody o m level k = .ok b := by
        cases k with
        | text s => simp [Node.isText] at hk
        | comment s => exact ⟨_, rfl⟩
        | pi t s => exact ⟨_, rfl⟩
        | tag ns name attrs kids =>
          have hm' : ∀ ns' ∈ treeNamespaces (.tag ns name attrs kids), (dget m ns').isSome :=
            fun ns' h' => hm ns' (by simp [kidsNamespaces, h'])
          obtain ⟨ad, had⟩ := Ser.attrsData_total (m := m) (sortAttrs attrs) (fun a ha =>
            hm' a.ns (by
              simp only [treeNamespaces]
              have := Ser.mem_sortAttrs.mp ha
              simp only [List.cons_append, List.mem_cons, List.mem_append, List.mem_map]
              exact Or.inr (Or.inl ⟨a, this, rfl⟩)))
          obtain ⟨b, hb⟩ := ihk hm' rfl level ad
          exact ⟨b, by simp [nodeBody, had, hb]⟩
      obtain ⟨b, hb⟩ := hb
      rw [hb, hr]
      exact ⟨_, rfl⟩

theorem prettyRoot_total (o : Opts) (m : Dict) (t : Node) (htag : t.isTag = true)
    (hm : ∀ ns ∈ treeNamespaces t, (dget m ns).isSome) : ∃ ps, prettyRoot o m t = .ok ps := by
  cases t with
  | tag ns name attrs kids =>
    obtain ⟨ad, had⟩ := Ser.attrsData_total (m := m) (sortAttrs attrs) (fun a ha =>
      hm a.ns (by
        simp only [treeNamespaces]
        have := Ser.mem_sortAttrs.mp ha
        simp only [List.cons_append, List.mem_cons, List.mem_append, List.mem_map]
        exact Or.inr (Or.inl ⟨a, this, rfl⟩)))
    simp only [prettyRoot, had]
    exact (pretty_total_all o m).1 _ hm rfl 0 _
  | _ => simp [Node.isTag] at htag

/-! ## inserted whitespace is whitespace -/

theorem mem_optLayout {c : Prop} [Decidable c] {s x : Str}
    (h : Piece.layout s ∈ (if c then [Piece.layout x] else [])) : s = x := by
  split at h <;> simp_all

theorem mem_optLayout' {c : Prop} [Decidable c] {s x : Str}
    (h : Piece.layout s ∈ (if c then [] else [Piece.layout x])) : s = x := by
  split at h <;> simp_all

theorem flushText_layout (o : Opts) (hind : AllWs o.indent) (level : Nat) (a b : Bool) (run : List Str) (s : Str)
    (h : Piece.layout s ∈ flushText o level a b run) : AllWs s := by
  unfold flushText at h
  cases run with
  | nil => simp at h
  | cons first rest =>
    simp only at h
    split at h
    · simp at h
    · rcases List.mem_append.1 h with h | h
      · rcases List.mem_append.1 h with h | h
        · rw [mem_optLayout h]; exact allWs_indentN o hind level
        · simp at h
      · rw [mem_optLayout h]; exact allWs_nl

theorem layout_allWs (o : Opts) (hind : AllWs o.indent) (m : Dict) :
    (∀ t, ∀ level ad ps, prettyTag o m level ad t = .ok ps → ∀ s, Piece.layout s ∈ ps → AllWs s) ∧
    (∀ l, ∀ level prev run ras ps, prettyKids o m level prev run ras l = .ok ps →
        ∀ s, Piece.layout s ∈ ps → AllWs s) := by
  apply Pretty.node_induct
  · intro ns name attrs kids ihk level ad ps h s hs
    by_cases hd : directive attrs .default = .preserve
    · rw [prettyTag.eq_1, if_pos hd] at h
      split at h
      · cases h; simp at hs
      · cases h; simp at hs
      · cases h
    · obtain ⟨p, _, hcase⟩ := prettyTag_ok (directive_cases attrs hd) h
      rcases hcase with ⟨_, rfl⟩ | ⟨_, ks, hks, rfl⟩
      · simp at hs
      · rcases List.mem_append.1 hs with hs | hs
        · rcases List.mem_append.1 hs with hs | hs
          · rcases List.mem_append.1 hs with hs | hs
            · simp only [List.mem_cons, reduceCtorEq, Piece.layout.injEq, List.not_mem_nil, or_false,
                false_or] at hs
              subst hs; exact allWs_nl
            · exact ihk _ _ _ _ _ hks s hs
          · rw [mem_optLayout' hs]; exact allWs_indentN o hind level
        · simp at hs
  · intro s level ad ps h; simp [prettyTag] at h
  · intro s level ad ps h; simp [prettyTag] at h
  · intro t s level ad ps h; simp [prettyTag] at h
  · intro level prev run ras ps h s hs
    rw [prettyKids_nil] at h
    cases h
    exact flushText_layout o hind _ _ _ _ s hs
  · intro k rest ihk ihrest level prev run ras ps h s hs
    cases hk : k.isText with
    | true =>
      cases k with
      | text t =>
        rw [prettyKids_text] at h
        split at h <;> exact ihrest _ _ _ _ _ h s hs
      | _ => simp [Node.isText] at hk
    | false =>
      rw [prettyKids_node _ _ _ _ _ _ _ _ hk] at h
      obtain ⟨body, r', hb, hr, rfl⟩ := combine_ok h
      simp only [List.mem_append] at hs
      rcases hs with (((hs | hs) | hs) | hs) | hs
      · exact flushText_layout o hind _ _ _ _ s hs
      · rw [mem_optLayout hs]; exact allWs_indentN o hind level
      · cases k with
        | text t => simp [Node.isText] at hk
        | comment c => simp only [nodeBody] at hb; cases hb; simp at hs
        | pi t c => simp only [nodeBody] at hb; cases hb; simp at hs
        | tag ns name attrs kids =>
          obtain ⟨ad, _, hb⟩ := nodeBody_tag_ok hb
          exact ihk _ _ _ hb s hs
      · rw [mem_optLayout hs]; exact allWs_nl
      · exact ihrest _ _ _ _ _ hr s hs

theorem prettyRoot_layout (o : Opts) (hind : AllWs o.indent) (m : Dict) (t : Node) (ps : List Piece)
    (h : prettyRoot o m t = .ok ps) : ∀ s, Piece.layout s ∈ ps → AllWs s := by
  cases t with
  | tag ns name attrs kids =>
    simp only [prettyRoot] at h
    split at h
    · cases h
    · exact (layout_allWs o hind m).1 _ _ _ _ h
  | _ => simp [prettyRoot] at h

/-! ## `normalize` keeps the text content -/

theorem fullTextList_mergeKids : ∀ l : List Node, fullTextList (Ser.mergeKids l) = fullTextList l := by
  intro l
  induction l with
  | nil => simp [Ser.mergeKids]
  | cons k rest ih =>
    cases hk : k.isText with
    | true =>
      cases k with
      | text s =>
        rw [mergeKids_text_cons]
        rcases hm : Ser.mergeKids rest with _ | ⟨x, xs⟩
        · rw [hm] at ih
          by_cases hs : s = [] <;> simp [hs, ← ih]
        · rw [hm] at ih
          cases x <;> by_cases hs : s = [] <;> simp [hs, ← ih]
      | _ => simp [Node.isText] at hk
    | false => rw [mk_node _ _ hk]; simp [ih]

theorem fullText_normalize :
    (∀ t, fullText (normalize t) = fullText t) ∧ (∀ l, fullTextList (normalizeList l) = fullTextList l) := by
  apply Pretty.node_induct
  · intro ns name attrs kids ih
    simp [normalize, fullTextList_mergeKids, ih]
  · intro s; simp [normalize]
  · intro s; simp [normalize]
  · intro t s; simp [normalize]
  · simp [normalizeList]
  · intro k ks ihk ihks; simp [normalizeList, ihk, ihks]

end Delb.Pretty

import DelbModel.Lemmas.Scan
import DelbModel.Lemmas.Prefixes
/-!
# The collected prefix map consists of writable names (`MapNamesOk`)

`_collect_prefixes` only ever stores namespaces of the tree as keys and, as values, the empty
prefix, `q:` for a prefix `q` of the caller's mapping, or a generated `ns{i}:`.
-/
namespace Delb.Ser

/-! ## the breadth-first traversal only meets nodes of the tree -/

theorem mem_kidsNamespaces_of {ns : String} {k : Node} : ∀ {kids : List Node}, k ∈ kids →
    ns ∈ treeNamespaces k → ns ∈ kidsNamespaces kids := by
  intro kids
  induction kids with
  | nil => intro h; cases h
  | cons k' ks ih =>
    intro h hns
    simp only [kidsNamespaces, List.mem_append]
    rcases List.mem_cons.mp h with h | h
    · subst h; exact Or.inl hns
    · exact Or.inr (ih h hns)

theorem tagKids_sub {t k : Node} (h : k ∈ tagKids t) : ∀ ns ∈ treeNamespaces k, ns ∈ treeNamespaces t := by
  intro ns hns
  cases t with
  | tag tns name attrs kids =>
    simp only [tagKids, List.mem_filter] at h
    simp only [treeNamespaces, List.mem_cons, List.mem_append]
    exact Or.inr (mem_kidsNamespaces_of h.1 hns)
  | _ => simp [tagKids] at h

theorem scan_bfsLevels_sound (S : List String) : ∀ (fuel : Nat) (level : List Node),
    (∀ t ∈ level, ∀ ns ∈ treeNamespaces t, ns ∈ S) →
    ∀ n ∈ bfsLevels fuel level, ∀ ns ∈ treeNamespaces n, ns ∈ S := by
  intro fuel
  induction fuel with
  | zero => intro level _ n hn; simp [bfsLevels] at hn
  | succ fuel ih =>
    intro level hl n hn
    cases level with
    | nil => simp [bfsLevels] at hn
    | cons l0 ls =>
      simp only [bfsLevels] at hn
      rcases List.mem_append.mp hn with h | h
      · exact hl n h
      · refine ih _ ?_ n h
        intro t ht
        obtain ⟨p, hp, hp'⟩ := List.mem_flatMap.mp ht
        exact fun ns hns => hl p hp ns (tagKids_sub hp' ns hns)

theorem scan_nodeNamespaces_sub (n : Node) : ∀ ns ∈ nodeNamespaces n, ns ∈ treeNamespaces n := by
  intro ns h
  cases n with
  | tag tns name attrs kids =>
    simp only [nodeNamespaces, mem_dedup, List.mem_cons] at h
    simp only [treeNamespaces, List.mem_cons, List.mem_append]
    rcases h with h | h
    · exact Or.inl (Or.inl h)
    · exact Or.inl (Or.inr h)
  | _ => simp [nodeNamespaces] at h

theorem scan_zip_cover_left {α β : Type} : ∀ (as : List α) (bs : List β), as.length = bs.length →
    ∀ a ∈ as, ∃ b, (a, b) ∈ List.zip as bs := by
  intro as
  induction as with
  | nil => intro bs _ a ha; cases ha
  | cons a' as ih =>
    intro bs h a ha
    cases bs with
    | nil => simp at h
    | cons b' bs =>
      simp only [List.length_cons, Nat.add_right_cancel_iff] at h
      rcases List.mem_cons.mp ha with ha | ha
      · subst ha; exact ⟨b', by simp⟩
      · obtain ⟨b, hb⟩ := ih bs h a ha
        exact ⟨b, by simp [hb]⟩

/-- valid orders mention namespaces of the tree only -/
theorem scan_orders_sound {root : Node} {orders : List (List String)}
    (ho : ordersValid root orders = true) :
    ∀ ns ∈ orders.flatten, ns ∈ treeNamespaces root := by
  intro ns hns
  obtain ⟨o, ho', hno⟩ := List.mem_flatten.mp hns
  simp only [ordersValid, Bool.and_eq_true, beq_iff_eq, List.all_eq_true] at ho
  obtain ⟨t, hz⟩ := scan_zip_cover_left orders (bfsTags root) ho.1 o ho'
  have hp := ho.2 (o, t) hz
  simp only [isPermOf, Bool.and_eq_true, List.all_eq_true] at hp
  have hnt : ns ∈ nodeNamespaces t := by simpa using hp.1.2 ns hno
  have ht : t ∈ bfsTags root := (List.of_mem_zip hz).2
  exact scan_bfsLevels_sound (treeNamespaces root) _ [root] (by simp) t ht ns (scan_nodeNamespaces_sub t ns hnt)

/-! ## namespaces of a `NamesOk` tree can be written -/

mutual
theorem namesOk_ns : ∀ (t : Node), NamesOk t → ∀ ns ∈ treeNamespaces t, valueOk ns.toList = true
  | .tag tns name attrs kids, h, ns, hns => by
    simp only [NamesOk] at h
    simp only [treeNamespaces, List.mem_cons, List.mem_append, List.mem_map] at hns
    rcases hns with (hns | ⟨a, ha, rfl⟩) | hns
    · rw [hns]; exact h.2.1
    · exact (h.2.2.1 a ha).2.1
    · exact namesOkList_ns kids h.2.2.2 ns hns
  | .text _, _, ns, hns => by simp [treeNamespaces] at hns
  | .comment _, _, ns, hns => by simp [treeNamespaces] at hns
  | .pi _ _, _, ns, hns => by simp [treeNamespaces] at hns
theorem namesOkList_ns : ∀ (ks : List Node), NamesOkList ks → ∀ ns ∈ kidsNamespaces ks,
    valueOk ns.toList = true
  | [], _, ns, hns => by simp [kidsNamespaces] at hns
  | k :: ks, h, ns, hns => by
    simp only [NamesOkList] at h
    simp only [kidsNamespaces, List.mem_append] at hns
    rcases hns with hns | hns
    · exact namesOk_ns k h.1 ns hns
    · exact namesOkList_ns ks h.2 ns hns
end

theorem rootNs_ok (root : Node) (h : NamesOk root) : valueOk (rootNs root).toList = true := by
  cases root with
  | tag ns name attrs kids => simp only [NamesOk] at h; exact h.2.1
  | _ => simp [rootNs, valueOk]

/-! ## generated prefixes -/

theorem digit_nameChar {c : Char} (h : c.isDigit = true) : nameChar c = true := by
  have hb : ∀ n < 58, 48 ≤ n → nameChar (Char.ofNat n) = true := by decide
  simp only [Char.isDigit, Bool.and_eq_true, decide_eq_true_eq] at h
  obtain ⟨h1, h2⟩ := h
  rw [ge_iff_le, UInt32.le_iff_toNat_le] at h1
  rw [UInt32.le_iff_toNat_le] at h2
  have e1 : '0'.val.toNat = 48 := rfl
  have e2 : '9'.val.toNat = 57 := rfl
  rw [e1] at h1
  rw [e2] at h2
  have := hb c.toNat (by show c.val.toNat < 58; omega) h1
  rwa [Char.ofNat_toNat] at this

theorem genPrefix_nameChars (j : Nat) : ∀ c ∈ ("ns" ++ natToStr j ++ ":").toList, nameChar c = true := by
  intro c hc
  rw [String.toList_append, String.toList_append] at hc
  rcases List.mem_append.mp hc with hc | hc
  · rcases List.mem_append.mp hc with hc | hc
    · have : ∀ y ∈ "ns".toList, nameChar y = true := by decide
      exact this c hc
    · have : (natToStr j).toList = Nat.toDigits 10 j := by
        show (Nat.repr j).toList = _
        simp [Nat.repr, String.toList_ofList]
      rw [this] at hc
      exact digit_nameChar (Nat.isDigit_of_mem_toDigits (by decide) (by decide) hc)
  · have : ∀ y ∈ ":".toList, nameChar y = true := by decide
    exact this c hc

/-! ## the invariant -/

/-- every entry has a writable namespace and a prefix of name characters -/
def EntriesOk (m : Dict) : Prop :=
  ∀ e ∈ m, valueOk e.1.toList = true ∧ ∀ c ∈ e.2.toList, nameChar c = true

theorem mem_dset {d : Dict} {k v : String} {e : String × String} (h : e ∈ dset d k v) :
    e ∈ d ∨ e = (k, v) := by
  induction d with
  | nil => simp only [dset, List.mem_singleton] at h; exact Or.inr h
  | cons x d ih =>
    obtain ⟨k', v'⟩ := x
    simp only [dset] at h
    split at h
    · rcases List.mem_cons.mp h with h | h
      · exact Or.inr h
      · exact Or.inl (List.mem_cons_of_mem _ h)
    · rcases List.mem_cons.mp h with h | h
      · exact Or.inl (by rw [h]; simp)
      · rcases ih h with h | h
        · exact Or.inl (List.mem_cons_of_mem _ h)
        · exact Or.inr h

theorem EntriesOk.dset {m : Dict} (h : EntriesOk m) {k v : String} (hk : valueOk k.toList = true)
    (hv : ∀ c ∈ v.toList, nameChar c = true) : EntriesOk (dset m k v) := by
  intro e he
  rcases mem_dset he with he | he
  · exact h e he
  · rw [he]; exact ⟨hk, hv⟩

theorem EntriesOk.newDecl {nsmap m m' : Dict} (h : EntriesOk m) {ns : String}
    (hk : valueOk ns.toList = true) (hd : newDecl nsmap m ns = .ok m') : EntriesOk m' := by
  simp only [Ser.newDecl] at hd
  split at hd
  · rename_i p hp
    cases hd
    obtain ⟨j, rfl, _, _⟩ := findFree_spec hp
    exact h.dset hk (genPrefix_nameChars j)
  · cases hd

theorem empty_nameChars : ∀ c ∈ "".toList, nameChar c = true := by decide

theorem collectOne_entriesOk {nsmap m m' : Dict} (hnn : NsMapNamesOk nsmap) (h : EntriesOk m)
    {ns : String} (hk : valueOk ns.toList = true) (hd : collectOne nsmap m ns = .ok m') :
    EntriesOk m' := by
  unfold collectOne at hd
  split at hd
  · cases hd; exact h
  split at hd
  · -- the empty namespace
    rename_i hns
    split at hd
    · rename_i other x hfind
      split at hd
      · cases hd
      · rename_i m1 hm1
        cases hd
        have hother : valueOk other.toList = true := (h _ (List.mem_of_find?_eq_some hfind)).1
        exact (h.newDecl hother hm1).dset (by decide) empty_nameChars
    · cases hd
      exact h.dset (by decide) empty_nameChars
  · split at hd
    · exact h.newDecl hk hd
    · rename_i p hl
      split at hd
      · exact h.newDecl hk hd
      · split at hd
        · split at hd
          · cases hd
          · cases hd
            refine h.dset hk ?_
            intro c hc
            rw [String.toList_append] at hc
            rcases List.mem_append.mp hc with hc | hc
            · exact hnn _ (lookupPrefix_mem hl) c hc
            · have : ∀ y ∈ ":".toList, nameChar y = true := by decide
              exact this c hc
        · split at hd
          · cases hd
          · cases hd
            exact h.dset hk empty_nameChars

theorem collectMany_entriesOk {nsmap : Dict} (hnn : NsMapNamesOk nsmap) : ∀ (nss : List String) (m m' : Dict),
    EntriesOk m → (∀ ns ∈ nss, valueOk ns.toList = true) → collectMany nsmap m nss = .ok m' →
    EntriesOk m'
  | [], m, m', h, _, hd => by
    simp only [collectMany] at hd; cases hd; exact h
  | ns :: rest, m, m', h, hk, hd => by
    simp only [collectMany] at hd
    split at hd
    · cases hd
    · rename_i m1 hm1
      exact collectMany_entriesOk hnn rest m1 m'
        (collectOne_entriesOk hnn h (hk ns (by simp)) hm1) (fun x hx => hk x (by simp [hx])) hd

theorem collectNodes_entriesOk {nsmap : Dict} (hnn : NsMapNamesOk nsmap) :
    ∀ (orders : List (List String)) (m m' : Dict),
    EntriesOk m → (∀ ns ∈ orders.flatten, valueOk ns.toList = true) →
    collectNodes nsmap m orders = .ok m' → EntriesOk m'
  | [], m, m', h, _, hd => by
    simp only [collectNodes] at hd; cases hd; exact h
  | nss :: rest, m, m', h, hk, hd => by
    simp only [collectNodes] at hd
    split at hd
    · cases hd
    · rename_i m1 hm1
      exact collectNodes_entriesOk hnn rest m1 m'
        (collectMany_entriesOk hnn nss m m1 h (fun x hx => hk x (by simp [hx])) hm1)
        (fun x hx => hk x (by
          rw [List.flatten_cons]; exact List.mem_append_right _ hx)) hd

theorem collect_mapNamesOk {nsmap : Dict} (hnn : NsMapNamesOk nsmap) (root : Node)
    (hroot : NamesOk root) (orders : List (List String)) (ho : ordersValid root orders = true)
    (m : Dict) (h : collect nsmap root orders = .ok m) : MapNamesOk m := by
  unfold collect at h
  refine collectNodes_entriesOk hnn orders _ m ?_ ?_ h
  · split
    · intro e he; cases he
    · intro e he
      rw [List.mem_singleton] at he
      rw [he]
      exact ⟨rootNs_ok root hroot, empty_nameChars⟩
  · intro ns hns
    exact namesOk_ns root hroot ns (scan_orders_sound ho ns hns)

end Delb.Ser

import DelbModel.Lemmas.Scan
/-!
# The tree builder and `mergeChars`

`build` does not see how character data is cut into `chars` tokens: whenever it accepts a token
list, it accepts the merged list with the same result (the converse fails only for an empty
`chars` token outside the root element, which `mergeChars` drops and `build` rejects).
-/
namespace Delb.Ser

/-- a token other than character data either makes the builder fail or moves it to a state that
    does not depend on the remaining tokens -/
theorem buildAux_step (t : Tok) (ht : isChars t = false) (st : List Frame) (d : Option Node) :
    (∀ ts, buildAux (t :: ts) st d = none) ∨
    ∃ st' d', ∀ ts, buildAux (t :: ts) st d = buildAux ts st' d' := by
  cases t with
  | chars s => simp [isChars] at ht
  | comment s =>
    cases st with
    | nil => left; intro ts; rw [buildAux]
    | cons f fs => right; exact ⟨_, _, fun ts => buildAux_comment s ts f fs d⟩
  | pi t s =>
    cases st with
    | nil => left; intro ts; rw [buildAux]
    | cons f fs => right; exact ⟨_, _, fun ts => buildAux_pi t s ts f fs d⟩
  | etag qn =>
    cases st with
    | nil => left; intro ts; rw [buildAux]
    | cons f fs =>
      by_cases hq : (f.qname != qn) = true
      · left; intro ts; rw [buildAux]; simp only [hq, if_true]
      · cases fs with
        | nil => right; exact ⟨_, _, fun ts => by rw [buildAux]; simp only [hq]; rfl⟩
        | cons g gs => right; exact ⟨_, _, fun ts => by rw [buildAux]; simp only [hq]; rfl⟩
  | stag qn attrs sc =>
    by_cases hd : d.isSome = true
    · left; intro ts; cases st <;> (rw [buildAux]; simp only [hd, if_true])
    · cases st with
      | nil =>
        rcases hsq : splitQName qn with ⟨pq, l⟩
        cases hr : resolve (scopeOf attrs []) (String.ofList (pq.getD [])) with
        | none => left; intro ts; rw [buildAux]; simp only [hd, hsq, hr]; rfl
        | some ns =>
          cases ha : readAttrs (scopeOf attrs []) attrs with
          | none => left; intro ts; rw [buildAux]; simp only [hd, hsq, hr, ha]; rfl
          | some as =>
            right
            cases sc
            · exact ⟨_, _, fun ts => by rw [buildAux]; simp only [hd, hsq, hr, ha]; rfl⟩
            · exact ⟨_, _, fun ts => by rw [buildAux]; simp only [hd, hsq, hr, ha]; rfl⟩
      | cons f fs =>
        rcases hsq : splitQName qn with ⟨pq, l⟩
        cases hr : resolve (scopeOf attrs f.scope) (String.ofList (pq.getD [])) with
        | none => left; intro ts; rw [buildAux]; simp only [hd, hsq, hr]; rfl
        | some ns =>
          cases ha : readAttrs (scopeOf attrs f.scope) attrs with
          | none => left; intro ts; rw [buildAux]; simp only [hd, hsq, hr, ha]; rfl
          | some as =>
            right
            cases sc
            · exact ⟨_, _, fun ts => by rw [buildAux]; simp only [hd, hsq, hr, ha]; rfl⟩
            · exact ⟨_, _, fun ts => by rw [buildAux]; simp only [hd, hsq, hr, ha]; rfl⟩

theorem pushText_pushText (a b : Str) (ks : List Node) :
    pushText b (pushText a ks) = pushText (a ++ b) ks := by
  by_cases ha : a = []
  · subst ha; rw [pushText_nil]; rfl
  · have hae : a.isEmpty = false := by cases a <;> simp_all
    have habe : (a ++ b).isEmpty = false := by cases a <;> simp_all
    rcases ks with _ | ⟨k, ks⟩
    · simp [pushText, hae, habe]
    · cases k <;> simp [pushText, hae, habe]

/-- the builder does not see how character data is cut into tokens -/
theorem buildAux_mergeChars : ∀ (ts : List Tok) (st : List Frame) (d : Option Node) (n : Node),
    buildAux ts st d = some n → buildAux (mergeChars ts) st d = some n := by
  intro ts
  induction ts with
  | nil => intro st d n h; exact h
  | cons t ts ih =>
    intro st d n h
    by_cases hc : isChars t = true
    · obtain ⟨s, rfl⟩ := isChars_true hc
      cases st with
      | nil => rw [buildAux] at h; cases h
      | cons f fs =>
        rw [buildAux_chars] at h
        have ih' := ih _ _ _ h
        rcases mergeChars_chars_cases s ts with ⟨t', rest', heq, hm⟩ | ⟨_, hm⟩
        · rw [hm, buildAux_chars]
          rw [heq, buildAux_chars] at ih'
          simp only [pushText_pushText] at ih'
          exact ih'
        · rw [hm]
          split
          · rename_i hs
            subst hs
            rw [pushText_nil] at ih'
            exact ih'
          · rw [buildAux_chars]; exact ih'
    · have hc' : isChars t = false := by simpa using hc
      rw [mergeChars_other t ts hc']
      rcases buildAux_step t hc' st d with hn | ⟨st', d', hs⟩
      · rw [hn] at h; cases h
      · rw [hs] at h ⊢
        exact ih _ _ _ h

theorem build_mergeChars (ts : List Tok) (n : Node) (h : build ts = some n) :
    build (mergeChars ts) = some n :=
  buildAux_mergeChars ts [] none n h

end Delb.Ser

import DelbModel.Lemmas.Scan
import DelbModel.Lemmas.Prefixes
/-!
# What the serializer emits is well-formed (`ToksOk`)

For a tree whose names, values and contents can be written (`NamesOk`), under a prefix map with the
C13 guarantees whose prefixes are made of name characters (`MapNamesOk`), every emitted token
satisfies `tokOk`; in particular no start tag carries the same attribute name twice.
-/
namespace Delb.Ser

/-! ## lists without repetition -/

theorem distinct_iff {l : List Str} : distinct l = true ↔ l.Nodup := by
  induction l with
  | nil => simp [distinct]
  | cons x xs ih =>
    simp only [distinct, Bool.and_eq_true, Bool.not_eq_true', List.nodup_cons, ih]
    constructor
    · intro ⟨h1, h2⟩
      refine ⟨fun hm => ?_, h2⟩
      have := List.contains_iff_mem.mpr hm
      rw [h1] at this; cases this
    · intro ⟨h1, h2⟩
      refine ⟨?_, h2⟩
      cases hc : xs.contains x with
      | false => rfl
      | true => exact absurd (List.contains_iff_mem.mp hc) h1

theorem nodup_of_map {α β : Type} (f : α → β) {l : List α} (h : (l.map f).Nodup) : l.Nodup := by
  unfold List.Nodup at h ⊢
  rw [List.pairwise_map] at h
  exact h.imp (fun hab e => hab (by rw [e]))

theorem nodup_map_on {α β : Type} (f : α → β) : ∀ {l : List α},
    (∀ x ∈ l, ∀ y ∈ l, f x = f y → x = y) → l.Nodup → (l.map f).Nodup
  | [], _, _ => by simp
  | a :: l, hinj, hn => by
    rw [List.nodup_cons] at hn
    rw [List.map_cons, List.nodup_cons]
    refine ⟨?_, nodup_map_on f (fun x hx y hy => hinj x (by simp [hx]) y (by simp [hy])) hn.2⟩
    intro hm
    obtain ⟨b, hb, e⟩ := List.mem_map.mp hm
    have := hinj b (by simp [hb]) a (by simp) e
    subst this
    exact hn.1 hb

theorem insertSorted_perm (a : Attr) : ∀ (l : List Attr), (insertSorted a l).Perm (a :: l)
  | [] => by simp [insertSorted]
  | b :: l => by
    rw [insertSorted]
    split
    · exact List.Perm.refl _
    · exact ((insertSorted_perm a l).cons b).trans (List.Perm.swap a b l)

theorem sortAttrs_perm : ∀ (l : List Attr), (sortAttrs l).Perm l
  | [] => by simp [sortAttrs]
  | a :: l => by
    have : sortAttrs (a :: l) = insertSorted a (sortAttrs l) := rfl
    rw [this]
    exact (insertSorted_perm a _).trans ((sortAttrs_perm l).cons a)

theorem insertStr_perm (a : String) : ∀ (l : List String), (insertStr a l).Perm (a :: l)
  | [] => by simp [insertStr]
  | b :: l => by
    rw [insertStr]
    split
    · exact List.Perm.refl _
    · exact ((insertStr_perm a l).cons b).trans (List.Perm.swap a b l)

theorem sortStr_perm : ∀ (l : List String), (l.foldr insertStr []).Perm l
  | [] => by simp
  | a :: l => by
    rw [List.foldr_cons]
    exact (insertStr_perm a _).trans ((sortStr_perm l).cons a)

/-! ## written names and values -/

theorem nameOk_written {m : Dict} (hm : MapNamesOk m) {ns p name : String} (h : dget m ns = some p)
    (hn : nameOk name.toList = true) : nameOk (p ++ name).toList = true := by
  obtain ⟨hne, hall⟩ := nameOk_iff.mp hn
  rw [nameOk_iff, String.toList_append]
  refine ⟨by simp [hne], ?_⟩
  intro x hx
  rcases List.mem_append.mp hx with h' | h'
  · exact (hm _ (mem_of_dget h)).2 x h'
  · exact hall x h'

theorem attrsData_ok {m : Dict} (hm : MapNamesOk m) : ∀ (as : List Attr) (ad : List (Str × Str)),
    attrsData m as = .ok ad → (∀ a ∈ as, nameOk a.name.toList = true ∧ valueOk a.value = true) →
    ∀ kv ∈ ad, nameOk kv.1 = true ∧ valueOk kv.2 = true
  | [], ad, h, _ => by cases h; simp
  | a :: as, ad, h, hok => by
    obtain ⟨p, rest, hp, hrest, had⟩ := attrsData_cons_inv h
    subst had
    intro kv hkv
    rcases List.mem_cons.mp hkv with e | e
    · subst e
      have := hok a (by simp)
      exact ⟨nameOk_written hm (pfx_ok_iff.mp hp) this.1, this.2⟩
    · exact attrsData_ok hm as rest hrest (fun b hb => hok b (by simp [hb])) kv e

theorem xmlns_nameOk : nameOk "xmlns".toList = true := by decide

theorem chopColon_toList (p : String) : (chopColon p).toList = p.toList.dropLast := by
  unfold chopColon; rw [String.toList_ofList]

theorem declarations_ok {m : Dict} (hm : MapNamesOk m) (hn : (dkeys m).Nodup) :
    ∀ kv ∈ declarations m, nameOk kv.1 = true ∧ valueOk kv.2 = true := by
  intro kv hkv
  rcases mem_declarations hkv with h | ⟨ns, p, hmem, _, _, _, rfl⟩
  · obtain ⟨ns, _, hd, rfl⟩ := mem_dfltDecl hn h
    exact ⟨xmlns_nameOk, (hm _ (mem_of_dget hd)).1⟩
  · refine ⟨?_, (hm _ hmem).1⟩
    rw [nameOk_iff, String.toList_append]
    refine ⟨by rw [xmlnsc_lit]; simp, ?_⟩
    intro x hx
    rcases List.mem_append.mp hx with h' | h'
    · have : ∀ y ∈ "xmlns:".toList, nameChar y = true := by decide
      exact this x h'
    · rw [chopColon_toList] at h'
      exact (hm _ hmem).2 x (List.dropLast_subset _ h')

/-! ## no attribute name is written twice -/

/-- the expanded name a written attribute name is read as -/
def keyOf (sc : Scope) (k : Str) : String × String :=
  ((resolve sc (String.ofList ((splitQName k).1.getD []))).getD "", String.ofList (splitQName k).2)

theorem readAttrs_keys (sc : Scope) : ∀ (ad : List (Str × Str)) (as : List Attr),
    readAttrs sc ad = some as → (∀ kv ∈ ad, isDecl kv.1 = false) →
    as.map (fun a => (a.ns, a.name)) = ad.map (fun kv => keyOf sc kv.1)
  | [], as, h, _ => by
    rw [readAttrs] at h; cases h; rfl
  | (k, v) :: rest, as, h, hnd => by
    have hd : isDecl k = false := hnd (k, v) (by simp)
    rw [readAttrs] at h
    simp only [hd, Bool.false_eq_true, if_false] at h
    rcases hs : splitQName k with ⟨p, l⟩
    rw [hs] at h
    cases hr : resolve sc (String.ofList (p.getD [])) with
    | none => simp [hr] at h
    | some ns =>
      cases hrest : readAttrs sc rest with
      | none => simp [hr, hrest] at h
      | some as' =>
        simp only [hr, hrest] at h
        cases h
        have ih := readAttrs_keys sc rest as' hrest (fun kv hkv => hnd kv (by simp [hkv]))
        simp only [List.map_cons, ih, keyOf, hs, hr, Option.getD_some]

theorem distinct_written {m : Dict} {attrs : List Attr} {ad : List (Str × Str)}
    (hr : readAttrs (rootScope m) ad = some (sortAttrs attrs)) (hnd : ∀ kv ∈ ad, isDecl kv.1 = false)
    (hk : (attrs.map (fun a => (a.ns, a.name))).Nodup) : (ad.map (·.1)).Nodup := by
  have h1 : ((sortAttrs attrs).map (fun a => (a.ns, a.name))).Nodup :=
    (((sortAttrs_perm attrs).map _).nodup_iff).mpr hk
  rw [readAttrs_keys _ _ _ hr hnd] at h1
  have : ad.map (fun kv => keyOf (rootScope m) kv.1) = (ad.map (·.1)).map (keyOf (rootScope m)) := by
    simp
  rw [this] at h1
  exact nodup_of_map _ h1

/-- distinct namespaces have distinct prefixes -/
theorem values_nodup {m : Dict} (hc : MapCtx m) : (m.map (·.2)).Nodup := by
  have hm : m.Nodup := nodup_of_map (fun e : String × String => e.1) (by have := hc.keysNodup; unfold dkeys at this; exact this)
  refine nodup_map_on _ ?_ hm
  intro x hx y hy e
  obtain ⟨k1, v1⟩ := x
  obtain ⟨k2, v2⟩ := y
  simp only at e
  subst e
  have := hc.injective k1 k2 v1 (dget_of_mem hc.keysNodup hx) (dget_of_mem hc.keysNodup hy)
  rw [this]

theorem filterMap_declFor_names (m : Dict) : ∀ (l : List String),
    (l.filterMap (declFor m)).map (·.1) =
      (l.filter (fun p => (declFor m p).isSome)).map (fun p => ("xmlns:" ++ chopColon p).toList)
  | [] => rfl
  | p :: l => by
    have ih := filterMap_declFor_names m l
    rw [List.filterMap_cons, List.filter_cons]
    cases hd : declFor m p with
    | none => simp only [Option.isSome_none, Bool.false_eq_true, if_false]; exact ih
    | some kv =>
      simp only [Option.isSome_some, if_true, List.map_cons, ih]
      congr 1
      unfold declFor at hd
      split at hd
      · cases hd; rfl
      · cases hd

theorem declarations_names_nodup {m : Dict} (hc : MapCtx m) : ((declarations m).map (·.1)).Nodup := by
  rw [declarations_split, List.map_append, List.nodup_append]
  refine ⟨?_, ?_, ?_⟩
  · unfold defaultDecl
    split
    · split <;> simp
    · simp
  · rw [filterMap_declFor_names]
    have hsorted : (((prefixedOf m).map (·.2)).foldr insertStr []).Nodup := by
      rw [(sortStr_perm _).nodup_iff]
      exact ((List.filter_sublist (l := m)).map (·.2)).nodup (values_nodup hc) |> fun h => by
        simpa [prefixedOf] using h
    refine nodup_map_on _ ?_ (List.filter_sublist.nodup hsorted)
    intro p hp p' hp' e
    have e' : chopColon p = chopColon p' := xmlns_prefix_inj e
    have shape : ∀ q, q ∈ List.filter (fun p => (declFor m p).isSome)
        (((prefixedOf m).map (·.2)).foldr insertStr []) → ∃ r : String, q = r ++ ":" := by
      intro q hq
      have hq' := mem_sortStr_iff.mp (List.mem_filter.mp hq).1
      obtain ⟨e, he, rfl⟩ := List.mem_map.mp hq'
      have hmem := List.mem_filter.mp he
      have hne : e.2 ≠ "" := by
        have := hmem.2
        simp only [Bool.and_eq_true, bne_iff_ne, ne_eq] at this
        exact this.1
      rcases hc.shape e.1 e.2 (dget_of_mem hc.keysNodup hmem.1) with h | ⟨r, h, _, _⟩
      · exact absurd h hne
      · exact ⟨r, h⟩
    obtain ⟨r, rfl⟩ := shape p hp
    obtain ⟨r', rfl⟩ := shape p' hp'
    rw [chopColon_append, chopColon_append] at e'
    rw [e']
  · intro a ha b hb
    rw [filterMap_declFor_names] at hb
    obtain ⟨p, _, rfl⟩ := List.mem_map.mp hb
    have : a = "xmlns".toList := by
      obtain ⟨kv, hkv, rfl⟩ := List.mem_map.mp ha
      unfold defaultDecl at hkv
      split at hkv
      · split at hkv
        · simp at hkv
        · rw [List.mem_singleton] at hkv; rw [hkv]
      · simp at hkv
    rw [this]
    exact (xmlns_prefix_ne _).symm

theorem root_names_nodup {m : Dict} (hc : MapCtx m) {ad : List (Str × Str)}
    (hnd : ∀ kv ∈ ad, isDecl kv.1 = false) (had : (ad.map (·.1)).Nodup) :
    ((declarations m ++ ad).map (·.1)).Nodup := by
  rw [List.map_append, List.nodup_append]
  refine ⟨declarations_names_nodup hc, had, ?_⟩
  intro a ha b hb e
  obtain ⟨kv, hkv, rfl⟩ := List.mem_map.mp ha
  obtain ⟨kv', hkv', rfl⟩ := List.mem_map.mp hb
  have h1 := isDecl_declarations m kv hkv
  have h2 := hnd kv' hkv'
  rw [e, h2] at h1
  cases h1

/-! ## every emitted token is well-formed -/

theorem all_append_tokOk {a b : List Tok} (ha : a.all tokOk = true) (hb : b.all tokOk = true) :
    (a ++ b).all tokOk = true := by
  rw [List.all_append, ha, hb]; rfl

theorem stag_tokOk {qn : Str} {ad : List (Str × Str)} (sc : Bool) (hq : nameOk qn = true)
    (ha : ∀ kv ∈ ad, nameOk kv.1 = true ∧ valueOk kv.2 = true) (hd : (ad.map (·.1)).Nodup) :
    tokOk (.stag qn ad sc) = true := by
  simp only [tokOk, Bool.and_eq_true, List.all_eq_true]
  exact ⟨⟨hq, ha⟩, distinct_iff.mpr hd⟩

mutual
theorem emitNode_tokOk {m : Dict} (hc : MapCtx m) (hm : MapNamesOk m)
    (P : Node → Prop) (PL : List Node → Prop)
    (hP : ∀ ns name attrs kids, P (.tag ns name attrs kids) →
      ':' ∉ name.toList ∧ ns ≠ Gen.xmlnsNamespace ∧ (∀ a ∈ attrs, AttrOk a) ∧
      (attrs.map (fun a => (a.ns, a.name))).Nodup ∧ PL kids)
    (hPL : ∀ k ks, PL (k :: ks) → P k ∧ PL ks) :
    ∀ (k : Node) (toks : List Tok), emitNode m k = .ok toks → P k → NamesOk k →
      toks.all tokOk = true
  | .tag ns name attrs kids, toks, h, hk, hn => by
    obtain ⟨p, ad, ks, hp, had, hks, htoks⟩ := emitNode_tag_inv h
    obtain ⟨hname, hns, hattrs, hnodup, hkids⟩ := hP _ _ _ _ hk
    simp only [NamesOk] at hn
    obtain ⟨hn1, _, hn3, hn4⟩ := hn
    obtain ⟨pq, _, _, hread, hnd⟩ := stag_read hc hp had hname hns hattrs
    have hq : nameOk (p ++ name).toList = true := nameOk_written hm (pfx_ok_iff.mp hp) hn1
    have hadok := attrsData_ok hm _ _ had
      (fun a ha => ⟨(hn3 a (mem_sortAttrs.mp ha)).1, (hn3 a (mem_sortAttrs.mp ha)).2.2⟩)
    have hdist := distinct_written hread hnd hnodup
    have hks' := emitKids_tokOk hc hm P PL hP hPL kids ks hks hkids hn4
    subst htoks
    split
    · simp only [List.all_cons, List.all_nil, Bool.and_true]
      exact stag_tokOk true hq hadok hdist
    · refine all_append_tokOk ?_ (by simp only [List.all_cons, List.all_nil, Bool.and_true, tokOk]; exact hq)
      rw [List.all_cons, stag_tokOk false hq hadok hdist, Bool.true_and]
      exact hks'
  | .text s, toks, h, _, hn => by
    rw [emitNode.eq_2] at h
    simp only [NamesOk] at hn
    split at h
    · cases h; rfl
    · cases h; simp only [List.all_cons, List.all_nil, Bool.and_true, tokOk]; exact hn
  | .comment s, toks, h, _, hn => by
    rw [emitNode.eq_3] at h
    simp only [NamesOk] at hn
    cases h; simp only [List.all_cons, List.all_nil, Bool.and_true]; exact hn
  | .pi t s, toks, h, _, hn => by
    rw [emitNode.eq_4] at h
    simp only [NamesOk] at hn
    cases h; simp only [List.all_cons, List.all_nil, Bool.and_true]; exact hn
theorem emitKids_tokOk {m : Dict} (hc : MapCtx m) (hm : MapNamesOk m)
    (P : Node → Prop) (PL : List Node → Prop)
    (hP : ∀ ns name attrs kids, P (.tag ns name attrs kids) →
      ':' ∉ name.toList ∧ ns ≠ Gen.xmlnsNamespace ∧ (∀ a ∈ attrs, AttrOk a) ∧
      (attrs.map (fun a => (a.ns, a.name))).Nodup ∧ PL kids)
    (hPL : ∀ k ks, PL (k :: ks) → P k ∧ PL ks) :
    ∀ (ks : List Node) (toks : List Tok), emitKids m ks = .ok toks → PL ks → NamesOkList ks →
      toks.all tokOk = true
  | [], toks, h, _, _ => by
    rw [emitKids.eq_1] at h; cases h; rfl
  | k :: ks, toks, h, hk, hn => by
    obtain ⟨a, b, ha, hb, htoks⟩ := emitKids_cons_inv h
    obtain ⟨hk1, hk2⟩ := hPL _ _ hk
    simp only [NamesOkList] at hn
    subst htoks
    exact all_append_tokOk (emitNode_tokOk hc hm P PL hP hPL k a ha hk1 hn.1)
      (emitKids_tokOk hc hm P PL hP hPL ks b hb hk2 hn.2)
end

theorem emitRoot_tokOk {m : Dict} (hc : MapCtx m) (hm : MapNamesOk m)
    (P : Node → Prop) (PL : List Node → Prop)
    (hP : ∀ ns name attrs kids, P (.tag ns name attrs kids) →
      ':' ∉ name.toList ∧ ns ≠ Gen.xmlnsNamespace ∧ (∀ a ∈ attrs, AttrOk a) ∧
      (attrs.map (fun a => (a.ns, a.name))).Nodup ∧ PL kids)
    (hPL : ∀ k ks, PL (k :: ks) → P k ∧ PL ks)
    (t : Node) (toks : List Tok) (h : emitRoot m t = .ok toks) (ht : P t) (hn : NamesOk t) :
    toks.all tokOk = true := by
  cases t with
  | text s => exact emitNode_tokOk hc hm P PL hP hPL _ toks h ht hn
  | comment s => exact emitNode_tokOk hc hm P PL hP hPL _ toks h ht hn
  | pi t s => exact emitNode_tokOk hc hm P PL hP hPL _ toks h ht hn
  | tag ns name attrs kids =>
    obtain ⟨p, ad, ks, hp, had, hks, htoks⟩ := emitRoot_tag_inv h
    obtain ⟨hname, hns, hattrs, hnodup, hkids⟩ := hP _ _ _ _ ht
    simp only [NamesOk] at hn
    obtain ⟨hn1, _, hn3, hn4⟩ := hn
    obtain ⟨pq, _, _, hread, hnd⟩ := stag_read hc hp had hname hns hattrs
    have hq : nameOk (p ++ name).toList = true := nameOk_written hm (pfx_ok_iff.mp hp) hn1
    have hadok := attrsData_ok hm _ _ had
      (fun a ha => ⟨(hn3 a (mem_sortAttrs.mp ha)).1, (hn3 a (mem_sortAttrs.mp ha)).2.2⟩)
    have hall : ∀ kv ∈ declarations m ++ ad, nameOk kv.1 = true ∧ valueOk kv.2 = true := by
      intro kv hkv
      rcases List.mem_append.mp hkv with h' | h'
      · exact declarations_ok hm hc.keysNodup kv h'
      · exact hadok kv h'
    have hdist := root_names_nodup hc hnd (distinct_written hread hnd hnodup)
    have hks' := emitKids_tokOk hc hm P PL hP hPL kids ks hks hkids hn4
    subst htoks
    split
    · simp only [List.all_cons, List.all_nil, Bool.and_true]
      exact stag_tokOk true hq hall hdist
    · refine all_append_tokOk ?_ (by simp only [List.all_cons, List.all_nil, Bool.and_true, tokOk]; exact hq)
      rw [List.all_cons, stag_tokOk false hq hall hdist, Bool.true_and]
      exact hks'

end Delb.Ser

import DelbModel.Model.NavFilter
import DelbModel.Lemmas.Nav
/-!
# C05 helper lemmas: the filtered iterators restrict the unfiltered sequences
-/
namespace Delb.Nav
open Delb.Edit

/-! ## guarded `yield` -/

theorem yieldIf_eq (p : PTree → Bool) (l : List PTree) : yieldIf p l = l.filter p := by
  induction l with
  | nil => simp [yieldIf]
  | cons c rest ih => by_cases h : p c <;> simp [yieldIf, h, ih]

theorem childrenLoopF_eq (p : PTree → Bool) (l : List PTree) : childrenLoopF p l = l.filter p := by
  induction l with
  | nil => simp [childrenLoopF]
  | cons c rest ih => by_cases h : p c <;> simp [childrenLoopF, h, ih]

theorem nextOf_eq (l : List PTree) : nextOf l = l.head? := by
  cases l <;> simp [nextOf]

/-! ## consumers of `iterate_children()` -/

theorem foldl_last (l : List PTree) (init : Option PTree) :
    l.foldl (fun _ c => some c) init = (match l.getLast? with | some x => some x | none => init) := by
  induction l generalizing init with
  | nil => simp
  | cons c rest ih =>
    rw [List.foldl_cons, ih]
    cases rest with
    | nil => simp
    | cons d rest' =>
      rw [List.getLast?_cons_cons]
      cases h : (d :: rest').getLast? with
      | none => simp at h
      | some x => rfl

theorem foldl_enum_len (l : List PTree) (k init : Nat) :
    (l.zipIdx k).foldl (fun _ x => x.2) init = if l = [] then init else k + l.length - 1 := by
  induction l generalizing k init with
  | nil => simp
  | cons c rest ih =>
    rw [List.zipIdx_cons, List.foldl_cons, ih]
    cases rest with
    | nil => simp
    | cons d rest' => simp; omega

theorem getLoop_eq (item : Int) (l : List PTree) (k : Nat) :
    getLoop item l k = if (k : Int) ≤ item then l[(item - k).toNat]? else none := by
  induction l generalizing k with
  | nil => simp [getLoop]
  | cons c rest ih =>
    rw [getLoop]
    by_cases h : (k : Int) = item
    · subst h; simp
    · rw [if_neg h, ih]
      by_cases h1 : (k : Int) ≤ item
      · have h2 : ((k + 1 : Nat) : Int) ≤ item := by omega
        rw [if_pos h1, if_pos h2]
        have h3 : (item - (k : Int)).toNat = (item - ((k + 1 : Nat) : Int)).toNat + 1 := by omega
        rw [h3, List.getElem?_cons_succ]
      · have h2 : ¬ ((k + 1 : Nat) : Int) ≤ item := by omega
        rw [if_neg h1, if_neg h2]

theorem indexLoop_eq (p : PTree → Bool) (self : Nat) (l : List PTree) (pos index : Nat) :
    indexLoop p self l pos index =
      if pos ≤ self then
        match l[self - pos]? with
        | some n => if p n then some (index + ((l.take (self - pos)).filter p).length) else none
        | none => none
      else none := by
  induction l generalizing pos index with
  | nil => simp [indexLoop]
  | cons c rest ih =>
    rw [indexLoop]
    by_cases hp : pos = self
    · subst hp
      by_cases hc : p c
      · simp [hc]
      · simp only [hc, Bool.false_eq_true, if_false]
        rw [ih]
        simp only [Nat.sub_self, List.getElem?_cons_zero, hc, Bool.false_eq_true, if_false]
        rw [if_neg (by omega)]
        simp
    · by_cases hle : pos ≤ self
      · have h1 : pos + 1 ≤ self := by omega
        have h2 : self - pos = (self - (pos + 1)) + 1 := by omega
        rw [if_pos hle, h2, List.getElem?_cons_succ, List.take_succ_cons]
        by_cases hc : p c
        · simp only [hc, if_true, if_neg hp]
          rw [ih, if_pos h1]
          cases hr : rest[self - (pos + 1)]? with
          | none => rfl
          | some n =>
            by_cases hn : p n
            · simp [hn, hc]; omega
            · simp [hn]
        · simp only [hc, Bool.false_eq_true, if_false]
          rw [ih, if_pos h1]
          cases hr : rest[self - (pos + 1)]? with
          | none => rfl
          | some n =>
            by_cases hn : p n
            · simp [hn, hc]
            · simp [hn]
      · have h1 : ¬ pos + 1 ≤ self := by omega
        rw [if_neg hle]
        by_cases hc : p c
        · simp only [hc, if_true, if_neg hp]
          rw [ih, if_neg h1]
        · simp only [hc, Bool.false_eq_true, if_false]
          rw [ih, if_neg h1]

/-! ## siblings -/

theorem fetchFollowingSiblingLoop_find (p : PTree → Bool) (l : List PTree) :
    (fetchFollowingSiblingLoop p l).map (·.1) = l.find? p := by
  induction l with
  | nil => simp [fetchFollowingSiblingLoop]
  | cons c rest ih => by_cases h : p c <;> simp [fetchFollowingSiblingLoop, h, ih]

/-- what the loop returns: the first passing node, the skipped ones do not pass, and the pointer
    that comes back is the suffix behind the node found -/
theorem fetchFollowingSiblingLoop_some (p : PTree → Bool) (l : List PTree) (n : PTree) (l' : List PTree)
    (h : fetchFollowingSiblingLoop p l = some (n, l')) :
    ∃ skipped, l = skipped ++ n :: l' ∧ (∀ x ∈ skipped, p x = false) ∧ p n = true := by
  induction l with
  | nil => simp [fetchFollowingSiblingLoop] at h
  | cons c rest ih =>
    by_cases hc : p c
    · simp [fetchFollowingSiblingLoop, hc] at h
      obtain ⟨rfl, rfl⟩ := h
      exact ⟨[], by simp, by simp, hc⟩
    · simp [fetchFollowingSiblingLoop, hc] at h
      obtain ⟨sk, h1, h2, h3⟩ := ih h
      refine ⟨c :: sk, by simp [h1], ?_, h3⟩
      intro x hx
      rcases List.mem_cons.mp hx with rfl | hx
      · simpa using hc
      · exact h2 x hx

theorem fetchFollowingSiblingLoop_none (p : PTree → Bool) (l : List PTree)
    (h : fetchFollowingSiblingLoop p l = none) : l.filter p = [] := by
  induction l with
  | nil => simp
  | cons c rest ih =>
    by_cases hc : p c
    · simp [fetchFollowingSiblingLoop, hc] at h
    · simp [fetchFollowingSiblingLoop, hc] at h
      simp [hc, ih h]

theorem filter_skip (p : PTree → Bool) (sk : List PTree) (n : PTree) (l' : List PTree)
    (h2 : ∀ x ∈ sk, p x = false) (h3 : p n = true) :
    (sk ++ n :: l').filter p = n :: l'.filter p := by
  rw [List.filter_append, List.filter_cons, if_pos h3]
  have : sk.filter p = [] := by
    rw [List.filter_eq_nil_iff]; intro x hx; simp [h2 x hx]
  simp [this]

theorem iterateFollowingSiblingsLoop_eq (p : PTree → Bool) (fuel : Nat) (l : List PTree)
    (hf : l.length < fuel) : iterateFollowingSiblingsLoop p fuel l = l.filter p := by
  induction fuel generalizing l with
  | zero => omega
  | succ fuel ih =>
    rw [iterateFollowingSiblingsLoop]
    cases h : fetchFollowingSiblingLoop p l with
    | none => simp [fetchFollowingSiblingLoop_none p l h]
    | some r =>
      obtain ⟨n, l'⟩ := r
      obtain ⟨sk, h1, h2, h3⟩ := fetchFollowingSiblingLoop_some p l n l' h
      subst h1
      simp only
      rw [ih l' (by simp at hf; omega), filter_skip p sk n l' h2 h3]

/-- the recursion of `fetch_preceding_sibling` computes what the loop of `fetch_following_sibling`
    computes, on the left siblings -/
theorem fetchPrecedingSiblingRec_eq (p : PTree → Bool) (l : List PTree) :
    fetchPrecedingSiblingRec p l = fetchFollowingSiblingLoop p l := by
  induction l with
  | nil => simp [fetchPrecedingSiblingRec, fetchFollowingSiblingLoop]
  | cons c rest ih => by_cases h : p c <;> simp [fetchPrecedingSiblingRec, fetchFollowingSiblingLoop, h, ih]

theorem iteratePrecedingSiblingsLoop_eq' (p : PTree → Bool) (fuel : Nat) (l : List PTree) :
    iteratePrecedingSiblingsLoop p fuel l = iterateFollowingSiblingsLoop p fuel l := by
  induction fuel generalizing l with
  | zero => simp [iteratePrecedingSiblingsLoop, iterateFollowingSiblingsLoop]
  | succ fuel ih =>
    rw [iteratePrecedingSiblingsLoop, iterateFollowingSiblingsLoop, fetchPrecedingSiblingRec_eq]
    cases fetchFollowingSiblingLoop p l with
    | none => rfl
    | some r => simp [ih]

theorem iteratePrecedingSiblingsLoop_eq (p : PTree → Bool) (fuel : Nat) (l : List PTree)
    (hf : l.length < fuel) : iteratePrecedingSiblingsLoop p fuel l = l.filter p := by
  rw [iteratePrecedingSiblingsLoop_eq', iterateFollowingSiblingsLoop_eq p fuel l hf]

/-! ## descendants -/

theorem descLoopF_eq (p : PTree → Bool) (fuel : Nat) (cand : List PTree) (stack : List (List PTree)) :
    descLoopF p fuel cand stack = (descLoop fuel cand stack).filter p := by
  induction fuel generalizing cand stack with
  | zero => simp [descLoopF, descLoop]
  | succ fuel ih =>
    cases cand with
    | nil =>
      cases stack with
      | nil => simp [descLoopF, descLoop]
      | cons s stack => simp only [descLoopF, descLoop]; exact ih s stack
    | cons n rest =>
      cases n with
      | tag i ns nm a ks =>
        simp only [descLoopF, descLoop, List.filter_cons]
        split <;> simp [ih]
      | text i s =>
        simp only [descLoopF, descLoop, List.filter_cons]
        split <;> simp [ih]
      | comment i s =>
        simp only [descLoopF, descLoop, List.filter_cons]
        split <;> simp [ih]
      | pi i t s =>
        simp only [descLoopF, descLoop, List.filter_cons]
        split <;> simp [ih]

/-! ## ancestors -/

theorem ancestorsRecF_eq (p : PTree → Bool) (root : PTree) (path : List Nat) (k : Nat) :
    ancestorsRecF p root path k =
      ((downFrom k).filterMap (fun j => getAtP root (path.take j))).filter p := by
  induction k with
  | zero => simp [ancestorsRecF, downFrom_zero]
  | succ k ih =>
    rw [ancestorsRecF, downFrom_succ, List.filterMap_cons]
    cases h : getAtP root (path.take k) with
    | none => simp [ih]
    | some parent => by_cases hp : p parent <;> simp [hp, ih]

/-! ## paths and sibling pointers -/

theorem splitLast_snoc (par : List Nat) (i : Nat) : splitLast (par ++ [i]) = some (par, i) := by
  induction par with
  | nil => simp [splitLast]
  | cons x xs ih =>
    cases hxs : xs ++ [i] with
    | nil => simp at hxs
    | cons y ys =>
      rw [List.cons_append, hxs, splitLast]
      · rw [← hxs, ih]
      · intro h; cases h

theorem getAtP_snoc (root : PTree) (par : List Nat) (k : Nat) (parent : PTree)
    (h : getAtP root par = some parent) : getAtP root (par ++ [k]) = parent.kids[k]? := by
  induction par generalizing root with
  | nil =>
    simp only [getAtP, Option.some.injEq] at h
    subst h
    cases root with
    | tag id ns nm a ks => simp only [List.nil_append, getAtP, PTree.kids]; cases ks[k]? <;> rfl
    | text id s => simp [getAtP, PTree.kids]
    | comment id s => simp [getAtP, PTree.kids]
    | pi id t s => simp [getAtP, PTree.kids]
  | cons x xs ih =>
    obtain ⟨i, ns, nm, a, ks, c, rfl, hc, hn⟩ := getAtP_cons_some h
    rw [List.cons_append, getAtP_cons_tag _ _ _ _ _ _ _ _ hc, ih c hn]

theorem followingSiblings_snoc (root : PTree) (par : List Nat) (i : Nat) (parent : PTree)
    (h : getAtP root par = some parent) :
    followingSiblings root (par ++ [i]) = parent.kids.drop (i + 1) := by
  simp [followingSiblings, splitLast_snoc, h]

theorem precedingSiblings_snoc (root : PTree) (par : List Nat) (i : Nat) (parent : PTree)
    (h : getAtP root par = some parent) :
    precedingSiblings root (par ++ [i]) = (parent.kids.take i).reverse := by
  simp [precedingSiblings, splitLast_snoc, h]

/-- the pointer that `fetch_following_sibling` hands back is the following-sibling pointer of the
    node it found: the next round of `iterate_following_siblings` starts from that node -/
theorem fetchFollowingSibling_pointer (p : PTree → Bool) (kids : List PTree) (i : Nat) (n : PTree)
    (l' : List PTree) (h : fetchFollowingSiblingLoop p (kids.drop (i + 1)) = some (n, l')) :
    ∃ k, i < k ∧ kids[k]? = some n ∧ l' = kids.drop (k + 1) := by
  obtain ⟨sk, h1, _, _⟩ := fetchFollowingSiblingLoop_some p _ n l' h
  refine ⟨i + 1 + sk.length, by omega, ?_, ?_⟩
  · have := congrArg (fun l => l[sk.length]?) h1
    simpa [List.getElem?_drop] using this
  · have := congrArg (fun l => l.drop (sk.length + 1)) h1
    simp only [List.drop_drop] at this
    rw [show i + 1 + sk.length + 1 = i + 1 + (sk.length + 1) by omega, this]
    simp

theorem fetchPrecedingSibling_pointer (p : PTree → Bool) (kids : List PTree) (i : Nat) (n : PTree)
    (l' : List PTree) (h : fetchPrecedingSiblingRec p (kids.take i).reverse = some (n, l')) :
    ∃ k, k < i ∧ kids[k]? = some n ∧ l' = (kids.take k).reverse := by
  rw [fetchPrecedingSiblingRec_eq] at h
  obtain ⟨sk, h1, _, _⟩ := fetchFollowingSiblingLoop_some p _ n l' h
  have h2 : kids.take i = l'.reverse ++ n :: sk.reverse := by
    have := congrArg List.reverse h1
    simpa using this
  have hlen : (kids.take i).length = l'.length + 1 + sk.length := by rw [h2]; simp; omega
  have hi : l'.length < i := by
    have : (kids.take i).length ≤ i := List.length_take_le _ _
    omega
  have h3 : kids = l'.reverse ++ n :: (sk.reverse ++ kids.drop i) := by
    conv => lhs; rw [← List.take_append_drop i kids, h2]
    simp
  refine ⟨l'.length, hi, ?_, ?_⟩
  · rw [h3, List.getElem?_append_right (by simp)]; simp
  · conv => rhs; rw [h3]
    rw [List.take_left' (by simp)]
    simp

theorem filter_getElem?_index (p : PTree → Bool) (l : List PTree) (i : Nat) (n : PTree)
    (h : l[i]? = some n) (hp : p n = true) :
    (l.filter p)[((l.take i).filter p).length]? = some n := by
  have hi : i < l.length := by
    rcases Nat.lt_or_ge i l.length with h' | h'
    · exact h'
    · rw [List.getElem?_eq_none h'] at h; cases h
  have hn : l[i] = n := by
    rw [List.getElem?_eq_getElem hi] at h; exact Option.some.inj h
  have : l = l.take i ++ n :: l.drop (i + 1) := by
    rw [← hn]; simp
  conv => lhs; arg 1; arg 2; rw [this]
  rw [List.filter_append, List.filter_cons, if_pos hp, List.getElem?_append_right (Nat.le_refl _)]
  simp

end Delb.Nav

import DelbModel.Lemmas.Edit.Basic
/-!
# C01 helper lemmas: moving nodes permutes the text nodes of the forest

Stated for any "collect" function `tx`/`txl` satisfying the defining equations of
`textsOf`/`textsOfList` (those are defined next to the property theorem).
-/
namespace Delb.Edit

theorem eraseIdx_mid' {α} (A : List α) (x : α) (B : List α) :
    (A ++ x :: B).eraseIdx A.length = A ++ B := by
  rw [List.eraseIdx_append_of_length_le (by omega)]
  simp

theorem perm_mid {α} {X Y extra : List α} (A B : List α) (h : X.Perm (Y ++ extra)) :
    (A ++ (X ++ B)).Perm (A ++ (Y ++ B) ++ extra) := by
  have h1 : (X ++ B).Perm ((Y ++ B) ++ extra) := by
    refine (h.append_right B).trans ?_
    rw [List.append_assoc, List.append_assoc]
    exact List.Perm.append_left Y List.perm_append_comm
  rw [List.append_assoc]
  exact List.Perm.append_left A h1

theorem flatMap_set_perm {α β} (f : α → List β) {l : List α} {g : Nat} {x y : α} {extra : List β}
    (hg : l[g]? = some x) (h : (f y).Perm (f x ++ extra)) :
    ((l.set g y).flatMap f).Perm (l.flatMap f ++ extra) := by
  obtain ⟨A, B, rfl, rfl⟩ := getElem?_split hg
  simp only [List.set_append_right _ _ (Nat.le_refl _), Nat.sub_self, List.set_cons_zero,
    List.flatMap_append, List.flatMap_cons]
  exact perm_mid _ _ h

theorem flatMap_set_perm' {α β} (f : α → List β) {l : List α} {g : Nat} {x y : α} {extra : List β}
    (hg : l[g]? = some x) (h : (f x).Perm (f y ++ extra)) :
    (l.flatMap f).Perm ((l.set g y).flatMap f ++ extra) := by
  obtain ⟨A, B, rfl, rfl⟩ := getElem?_split hg
  simp only [List.set_append_right _ _ (Nat.le_refl _), Nat.sub_self, List.set_cons_zero,
    List.flatMap_append, List.flatMap_cons]
  exact perm_mid _ _ h

section
variable {α : Type} (tx : PTree → List α) (txl : List PTree → List α)
  (h1 : ∀ i ns n a ks, tx (.tag i ns n a ks) = txl ks)
  (h2 : txl [] = [])
  (h3 : ∀ k ks, txl (k :: ks) = tx k ++ txl ks)

include h2 h3 in
theorem txl_eq_flatMap (ks : List PTree) : txl ks = ks.flatMap tx := by
  induction ks with
  | nil => simp [h2]
  | cons k ks ih => simp [h3, ih]

include h1 h2 h3 in
theorem insertKid_perm (n : Nat) (new x x' : PTree) (h : insertKid n new x = .ok x') :
    (tx x').Perm (tx x ++ tx new) := by
  cases x with
  | text i s => simp [insertKid] at h
  | comment i s => simp [insertKid] at h
  | pi i t s => simp [insertKid] at h
  | tag id ns nm a ks =>
    simp only [insertKid] at h
    split at h
    · simp only [Except.ok.injEq] at h
      subst h
      rw [h1, h1, txl_eq_flatMap tx txl h2 h3, txl_eq_flatMap tx txl h2 h3]
      conv => rhs; rw [← List.take_append_drop n ks]
      simp only [List.flatMap_append, List.flatMap_cons]
      have := perm_mid (X := tx new) (Y := []) (extra := tx new) (List.flatMap tx (List.take n ks))
        (List.flatMap tx (List.drop n ks)) (by simp)
      simpa using this
    · cases h

include h1 h2 h3 in
theorem modifyAtP_perm (f : PTree → Except EditErr PTree) (extra : List α)
    (hf : ∀ x x', f x = .ok x' → (tx x').Perm (tx x ++ extra)) :
    ∀ (p : List Nat) (t t' : PTree), modifyAtP f t p = .ok t' → (tx t').Perm (tx t ++ extra) := by
  intro p
  induction p with
  | nil => intro t t' h; exact hf t t' (by simpa [modifyAtP] using h)
  | cons k p ih =>
    intro t t' h
    cases t with
    | text i s => simp [modifyAtP] at h
    | comment i s => simp [modifyAtP] at h
    | pi i t s => simp [modifyAtP] at h
    | tag id ns nm a ks =>
      simp only [modifyAtP] at h
      split at h
      · cases h
      · rename_i c hc
        split at h
        · cases h
        · rename_i c' hc'
          simp only [Except.ok.injEq] at h
          subst h
          rw [h1, h1, txl_eq_flatMap tx txl h2 h3, txl_eq_flatMap tx txl h2 h3]
          exact flatMap_set_perm tx hc (ih c c' hc')

theorem splitLast_eq {path p : List Nat} {i : Nat} (h : splitLast path = some (p, i)) : path = p ++ [i] := by
  induction path generalizing p with
  | nil => simp [splitLast] at h
  | cons x q ih =>
    cases q with
    | nil =>
      simp only [splitLast, Option.some.injEq, Prod.mk.injEq] at h
      obtain ⟨rfl, rfl⟩ := h
      rfl
    | cons y q =>
      simp only [splitLast] at h
      split at h
      · rename_i p' l hq
        simp only [Option.some.injEq, Prod.mk.injEq] at h
        obtain ⟨rfl, rfl⟩ := h
        have := ih (p := p') (by simpa [splitLast] using hq)
        simp [this]
      · cases h

include h1 h2 h3 in
theorem detach_perm (i : Nat) (off : PTree) :
    ∀ (p : List Nat) (t t' : PTree), getAtP t (p ++ [i]) = some off →
      modifyAtP (fun parent => (removeKid i parent).map (·.1)) t p = .ok t' →
      (tx t).Perm (tx t' ++ tx off) := by
  intro p
  induction p with
  | nil =>
    intro t t' hget h
    cases t with
    | text i s => simp [getAtP] at hget
    | comment i s => simp [getAtP] at hget
    | pi i t s => simp [getAtP] at hget
    | tag id ns nm a ks =>
      simp only [List.nil_append, getAtP] at hget
      cases hk : ks[i]? with
      | none => simp [hk] at hget
      | some c =>
        simp only [hk, Option.some.injEq] at hget
        subst hget
        simp only [modifyAtP, removeKid, hk, Except.map, Except.ok.injEq] at h
        subst h
        obtain ⟨A, B, rfl, rfl⟩ := getElem?_split hk
        rw [h1, h1, txl_eq_flatMap tx txl h2 h3, txl_eq_flatMap tx txl h2 h3, eraseIdx_mid']
        simp only [List.flatMap_append, List.flatMap_cons]
        have := perm_mid (X := tx c) (Y := []) (extra := tx c) (List.flatMap tx A)
          (List.flatMap tx B) (by simp)
        simpa using this
  | cons k p ih =>
    intro t t' hget h
    cases t with
    | text i s => simp [getAtP] at hget
    | comment i s => simp [getAtP] at hget
    | pi i t s => simp [getAtP] at hget
    | tag id ns nm a ks =>
      simp only [List.cons_append, getAtP] at hget
      simp only [modifyAtP] at h
      cases hk : ks[k]? with
      | none => simp [hk] at hget
      | some c =>
        simp only [hk] at hget h
        split at h
        · cases h
        · rename_i c' hc'
          simp only [Except.ok.injEq] at h
          subst h
          rw [h1, h1, txl_eq_flatMap tx txl h2 h3, txl_eq_flatMap tx txl h2 h3]
          exact flatMap_set_perm' tx hk (ih c c' hget hc')

/-- the texts of one group -/
def groupTexts : Option PTree → List α
  | some t => tx t
  | none => []

/-- the texts of the forest -/
def forestTexts (s : StateA) : List α := s.groups.flatMap (groupTexts tx)

/-- taking the root of group `g` and putting it somewhere into group `tgt` -/
theorem move_perm (G : PTree → PTree → Except EditErr PTree)
    (hG : ∀ new t t', G new t = .ok t' → (tx t').Perm (tx t ++ tx new))
    (s s' : StateA) (tgt g : Nat)
    (h : (match takeSourceA s tgt (.group g) with
          | .error e => Except.error e
          | .ok (s1, new) => modifyGroupA s1 tgt (G new)) = Except.ok s') :
    (forestTexts tx s').Perm (forestTexts tx s) := by
  simp only [takeSourceA] at h
  split at h
  · cases h
  · rename_i s1 new hts
    split at hts
    · cases hts
    · split at hts
      · rename_i t hg
        simp only [Except.ok.injEq, Prod.mk.injEq] at hts
        obtain ⟨hs1, hnew⟩ := hts
        subst hs1 hnew
        simp only [modifyGroupA] at h
        split at h
        · rename_i id ns nm a ks hT
          split at h
          · rename_i T' hT'
            simp only [Except.ok.injEq] at h
            subst h
            have hp := hG _ _ _ hT'
            have e1 : (forestTexts tx s).Perm (forestTexts tx { s with groups := s.groups.set g none } ++ tx t) :=
              flatMap_set_perm' (groupTexts tx) (x := some t) (y := none) hg (by simp [groupTexts])
            have e2 := flatMap_set_perm (groupTexts tx) (x := some (PTree.tag id ns nm a ks)) (y := some T')
              (extra := tx t) hT (by simpa [groupTexts] using hp)
            exact e2.trans e1.symm
          · cases h
        · cases h
      · cases hts

include h1 h2 h3 in
theorem forest_no_text_lost (s s' : StateA) (p : Prim) (h : stepA s p = .ok s')
    (hp : (∃ a g, p = .addFollowing a (.group g)) ∨ (∃ a g, p = .addPreceding a (.group g)) ∨
          (∃ a g, p = .addFirst a (.group g)) ∨ (∃ a, p = .detach a)) :
    (forestTexts tx s').Perm (forestTexts tx s) := by
  rcases hp with ⟨a, g, rfl⟩ | ⟨a, g, rfl⟩ | ⟨a, g, rfl⟩ | ⟨a, rfl⟩
  · simp only [stepA] at h
    split at h
    · cases h
    · rename_i p i hsp
      refine move_perm tx (fun new t => modifyAtP
          (fun parent => if i < parent.kids.length then insertKid (i + 1) new parent else .error .badAddress) t p)
        ?_ s s' a.g g h
      intro new t t' ht
      refine modifyAtP_perm tx txl h1 h2 h3 _ (tx new) ?_ p t t' ht
      intro x x' hx
      split at hx
      · exact insertKid_perm tx txl h1 h2 h3 _ _ _ _ hx
      · cases hx
  · simp only [stepA] at h
    split at h
    · cases h
    · rename_i p i hsp
      refine move_perm tx (fun new t => modifyAtP
          (fun parent => if i < parent.kids.length then insertKid i new parent else .error .badAddress) t p)
        ?_ s s' a.g g h
      intro new t t' ht
      refine modifyAtP_perm tx txl h1 h2 h3 _ (tx new) ?_ p t t' ht
      intro x x' hx
      split at hx
      · exact insertKid_perm tx txl h1 h2 h3 _ _ _ _ hx
      · cases hx
  · simp only [stepA] at h
    refine move_perm tx (fun new t => modifyAtP
        (fun parent => if parent.isTag && parent.kids.isEmpty then insertKid 0 new parent else .error .badAddress)
        t a.path)
      ?_ s s' a.g g h
    intro new t t' ht
    refine modifyAtP_perm tx txl h1 h2 h3 _ (tx new) ?_ a.path t t' ht
    intro x x' hx
    split at hx
    · exact insertKid_perm tx txl h1 h2 h3 _ _ _ _ hx
    · cases hx
  · simp only [stepA] at h
    split at h
    · simp only [Except.ok.injEq] at h
      subst h
      exact List.Perm.refl _
    · rename_i p i hsp
      split at h
      · rename_i t hg
        split at h
        · cases h
        · rename_i off hoff
          split at h
          · cases h
          · rename_i t' ht'
            split at h
            · simp only [Except.ok.injEq] at h
              subst h
              rw [splitLast_eq hsp] at hoff
              have hp := detach_perm tx txl h1 h2 h3 i off p t t' hoff ht'
              have e1 := flatMap_set_perm' (groupTexts tx) (x := some t) (y := some t') (extra := tx off) hg
                (by simpa [groupTexts] using hp)
              simp only [forestTexts, List.flatMap_append, List.flatMap_cons, List.flatMap_nil, groupTexts,
                List.append_nil]
              exact e1.symm
            · cases h
      · cases h

end

end Delb.Edit

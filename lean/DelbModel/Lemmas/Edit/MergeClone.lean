import DelbModel.Lemmas.Edit.Basic
/-!
# C01 helper lemmas: `merge_text_nodes` and deep clones
-/
namespace Delb.Edit

/-! ## merge -/

def noTextHead : List PTree → Bool
  | [] => true
  | k :: _ => !k.isText

theorem mergeRunsP_cons_nontext (k : PTree) (hk : k.isText = false) (rest : List PTree) :
    mergeRunsP (k :: rest) = k :: mergeRunsP rest := by
  cases k <;> simp_all [mergeRunsP, PTree.isText]

theorem mergeRunsP_text_cons (i : Nat) (s : Str) (rest : List PTree) (h : noTextHead (mergeRunsP rest) = true) :
    mergeRunsP (.text i s :: rest) = .text i s :: mergeRunsP rest := by
  simp only [mergeRunsP]
  split
  · rename_i heq
    rw [heq] at h
    simp [noTextHead, PTree.isText] at h
  · rfl

theorem mergeRunsP_text_text (i : Nat) (s : Str) (rest : List PTree) (j : Nat) (t : Str) (rest' : List PTree)
    (h : mergeRunsP rest = .text j t :: rest') :
    mergeRunsP (.text i s :: rest) = .text i (s ++ t) :: rest' := by
  simp only [mergeRunsP, h]

theorem noTextHead_mergeRunsP (r : List PTree) (h : noTextHead r = true) : noTextHead (mergeRunsP r) = true := by
  cases r with
  | nil => simp [mergeRunsP, noTextHead]
  | cons k rest =>
    have hk : k.isText = false := by simpa [noTextHead] using h
    rw [mergeRunsP_cons_nontext k hk]
    simpa [noTextHead] using hk

theorem mergeRunsP_chain (c : Chain) (r : List PTree) (h : noTextHead r = true) :
    mergeRunsP (absChain c ++ r) = absChain (mergeChain c) ++ mergeRunsP r := by
  induction c with
  | nil => simp [mergeChain]
  | cons t c ih =>
    cases c with
    | nil =>
      simp only [absChain_cons, absChain_nil, List.cons_append, List.nil_append, mergeChain, List.map_nil,
        List.flatten_nil, List.append_nil]
      exact mergeRunsP_text_cons _ _ _ (noTextHead_mergeRunsP r h)
    | cons t2 c2 =>
      have ih' : mergeRunsP (absChain (t2 :: c2) ++ r) =
          .text t2.id (t2.s ++ ((c2.map (·.s)).flatten)) :: mergeRunsP r := by
        rw [ih]; simp [mergeChain]
      rw [absChain_cons, List.cons_append, mergeRunsP_text_text _ _ _ _ _ _ ih']
      simp [mergeChain]

theorem mergeListP_append (a b : List PTree) : mergeListP (a ++ b) = mergeListP a ++ mergeListP b := by
  induction a with
  | nil => simp [mergeListP]
  | cons x a ih => simp [mergeListP, ih]

theorem mergeListP_chain (c : Chain) : mergeListP (absChain c) = absChain c := by
  induction c with
  | nil => simp [mergeListP]
  | cons t c ih => simp [mergeListP, mergeP, ih]

theorem mergeP_isText (t : PTree) : (mergeP t).isText = t.isText := by
  cases t <;> simp [mergeP, PTree.isText]

theorem noTextHead_mergeListP_absKids (kids : List (El × Chain)) :
    noTextHead (mergeListP (absKids kids)) = true := by
  cases kids with
  | nil => simp [mergeListP, noTextHead]
  | cons x rest =>
    obtain ⟨e, tl⟩ := x
    simp [mergeListP, noTextHead, mergeP_isText, abs_not_text]

mutual
  theorem abs_mergeEl : (e : El) → abs (mergeEl e) = mergeP (abs e)
    | .tag i ns n a data kids => by
      simp only [mergeEl, abs_tag, mergeP, mergeListP_append, mergeListP_chain]
      rw [mergeRunsP_chain _ _ (noTextHead_mergeListP_absKids kids), abs_mergeElKids kids]
    | .comment i s => by simp [mergeEl, mergeP]
    | .pi i t s => by simp [mergeEl, mergeP]
  theorem abs_mergeElKids : (kids : List (El × Chain)) →
      absKids (mergeElKids kids) = mergeRunsP (mergeListP (absKids kids))
    | [] => by simp [mergeElKids, mergeListP, mergeRunsP]
    | (e, tl) :: rest => by
      simp only [mergeElKids, absKids_cons, mergeListP, mergeListP_append, mergeListP_chain]
      rw [mergeRunsP_cons_nontext _ (by rw [mergeP_isText]; exact abs_not_text e),
        mergeRunsP_chain _ _ (noTextHead_mergeListP_absKids rest), abs_mergeEl e, abs_mergeElKids rest]
end

/-! ## clone -/

theorem cloneListP_nil (n : Nat) : cloneListP n [] = ([], n) := by simp [cloneListP]

theorem cloneListP_cons (n : Nat) (k : PTree) (ks : List PTree) :
    cloneListP n (k :: ks) =
      ((cloneP n k).1 :: (cloneListP (cloneP n k).2 ks).1, (cloneListP (cloneP n k).2 ks).2) := by
  simp [cloneListP]

theorem cloneListP_append (n : Nat) (a b : List PTree) :
    cloneListP n (a ++ b) =
      ((cloneListP n a).1 ++ (cloneListP (cloneListP n a).2 b).1, (cloneListP (cloneListP n a).2 b).2) := by
  induction a generalizing n with
  | nil => simp [cloneListP_nil]
  | cons x a ih => simp [cloneListP_cons, ih]

theorem cloneChain_nil (n : Nat) : cloneChain n [] = ([], n) := by simp [cloneChain]

theorem cloneChain_cons (n : Nat) (t : TNode) (c : Chain) :
    cloneChain n (t :: c) = ({ id := n, s := t.s } :: (cloneChain (n + 1) c).1, (cloneChain (n + 1) c).2) := by
  simp [cloneChain]

theorem cloneChain_abs (n : Nat) (c : Chain) :
    cloneListP n (absChain c) = (absChain (cloneChain n c).1, (cloneChain n c).2) := by
  induction c generalizing n with
  | nil => simp [cloneListP_nil, cloneChain_nil]
  | cons t c ih => simp [cloneListP_cons, cloneChain_cons, cloneP, ih]

theorem cloneEl_tag (n i : Nat) (ns name : String) (a : List Attr) (data : Chain) (kids : List (El × Chain)) :
    cloneEl n (.tag i ns name a data kids) =
      (.tag n ns name a (cloneChain (n + 1) data).1 (cloneKids (cloneChain (n + 1) data).2 kids).1,
        (cloneKids (cloneChain (n + 1) data).2 kids).2) := by
  simp [cloneEl]

theorem cloneKids_cons (n : Nat) (e : El) (tl : Chain) (rest : List (El × Chain)) :
    cloneKids n ((e, tl) :: rest) =
      (((cloneEl n e).1, (cloneChain (cloneEl n e).2 tl).1) ::
          (cloneKids (cloneChain (cloneEl n e).2 tl).2 rest).1,
        (cloneKids (cloneChain (cloneEl n e).2 tl).2 rest).2) := by
  simp [cloneKids]

theorem cloneP_tag (n i : Nat) (ns name : String) (a : List Attr) (ks : List PTree) :
    cloneP n (.tag i ns name a ks) = (.tag n ns name a (cloneListP (n + 1) ks).1, (cloneListP (n + 1) ks).2) := by
  simp [cloneP]

mutual
  theorem cloneEl_abs : (e : El) → (n : Nat) → cloneP n (abs e) = (abs (cloneEl n e).1, (cloneEl n e).2)
    | .tag i ns name a data kids, n => by
      rw [abs_tag, cloneP_tag, cloneEl_tag, cloneListP_append, cloneChain_abs,
        cloneKids_abs kids]
      simp
    | .comment i s, n => by simp [cloneEl, cloneP]
    | .pi i t s, n => by simp [cloneEl, cloneP]
  theorem cloneKids_abs : (kids : List (El × Chain)) → (n : Nat) →
      cloneListP n (absKids kids) = (absKids (cloneKids n kids).1, (cloneKids n kids).2)
    | [], n => by simp [cloneKids, cloneListP_nil]
    | (e, tl) :: rest, n => by
      rw [absKids_cons, cloneListP_cons, cloneListP_append, cloneEl_abs e, cloneChain_abs,
        cloneKids_abs rest, cloneKids_cons]
      simp
end

end Delb.Edit

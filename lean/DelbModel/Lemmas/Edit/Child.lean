import DelbModel.Lemmas.Edit.Basic
/-!
# C01 helper lemmas: the child-level edits are list splices
-/
namespace Delb.Edit

theorem absChain_take_drop (n : Nat) (c : Chain) (X : List PTree) :
    absChain (c.take n) ++ (absChain (c.drop n) ++ X) = absChain c ++ X := by
  rw [← List.append_assoc, ← absChain_append, List.take_append_drop]

theorem absChain_take_drop' (n : Nat) (c : Chain) :
    absChain (c.take n) ++ absChain (c.drop n) = absChain c := by
  rw [← absChain_append, List.take_append_drop]

theorem addFollowing_abs (data : Chain) (kids : List (El × Chain)) (i : Nat) (loc : Loc) (new : Offered)
    (h : LocAt data kids i loc) :
    absChain (addFollowing data kids loc new).1 ++ absKids (addFollowing data kids loc new).2 =
      (absChain data ++ absKids kids).take (i + 1) ++
        absOffered new :: (absChain data ++ absKids kids).drop (i + 1) := by
  cases loc with
  | inData j =>
    obtain ⟨rfl, hj⟩ := h
    cases new with
    | text t =>
      simp only [addFollowing]
      exact eq_insert (A := absChain (data.take (i + 1))) (B := absChain (data.drop (i + 1)) ++ absKids kids)
        (by simp [absChain_take_drop]) (by simp [absOffered]) (by simp; omega)
    | el e =>
      simp only [addFollowing]
      exact eq_insert (A := absChain (data.take (i + 1))) (B := absChain (data.drop (i + 1)) ++ absKids kids)
        (by simp [absChain_take_drop]) (by simp [absOffered]) (by simp; omega)
  | elem k =>
    obtain ⟨pre, e, tl, post, rfl, rfl, rfl⟩ := h
    cases new with
    | text t =>
      simp only [addFollowing, setTail_mid, tailOf_mid]
      exact eq_insert (A := absChain data ++ absKids pre ++ [abs e]) (B := absChain tl ++ absKids post)
        (by simp) (by simp [absOffered]) (by simp; omega)
    | el e2 =>
      simp only [addFollowing, setTail_mid, tailOf_mid, insertElAfter_mid]
      exact eq_insert (A := absChain data ++ absKids pre ++ [abs e]) (B := absChain tl ++ absKids post)
        (by simp) (by simp [absOffered]) (by simp; omega)
  | inTail k j =>
    obtain ⟨pre, e, tl, post, rfl, rfl, hj, rfl⟩ := h
    cases new with
    | text t =>
      simp only [addFollowing, setTail_mid, tailOf_mid]
      exact eq_insert (A := absChain data ++ absKids pre ++ abs e :: absChain (tl.take (j + 1)))
        (B := absChain (tl.drop (j + 1)) ++ absKids post)
        (by simp [absChain_take_drop]) (by simp [absOffered]) (by simp; omega)
    | el e2 =>
      simp only [addFollowing, setTail_mid, tailOf_mid, insertElAfter_mid]
      exact eq_insert (A := absChain data ++ absKids pre ++ abs e :: absChain (tl.take (j + 1)))
        (B := absChain (tl.drop (j + 1)) ++ absKids post)
        (by simp [absChain_take_drop]) (by simp [absOffered]) (by simp; omega)


theorem length_succ_split {α} {l : List α} {k : Nat} (h : l.length = k + 1) :
    ∃ l' x, l = l' ++ [x] ∧ l'.length = k := by
  have hne : l ≠ [] := by intro h0; subst h0; simp at h
  refine ⟨l.dropLast, l.getLast hne, (List.dropLast_concat_getLast hne).symm, ?_⟩
  simp [h]

theorem addPreceding_abs (data : Chain) (kids : List (El × Chain)) (i : Nat) (loc : Loc) (new : Offered)
    (h : LocAt data kids i loc) :
    absChain (addPreceding data kids loc new).1 ++ absKids (addPreceding data kids loc new).2 =
      (absChain data ++ absKids kids).take i ++
        absOffered new :: (absChain data ++ absKids kids).drop i := by
  cases loc with
  | inData j =>
    obtain ⟨rfl, hj⟩ := h
    cases new with
    | text t =>
      simp only [addPreceding]
      exact eq_insert (A := absChain (data.take i)) (B := absChain (data.drop i) ++ absKids kids)
        (by simp [absChain_take_drop]) (by simp [absOffered]) (by simp; omega)
    | el e =>
      cases i with
      | zero =>
        simp only [addPreceding]
        simp [absOffered]
      | succ j =>
        simp only [addPreceding]
        exact addFollowing_abs data kids j (.inData j) (.el e) ⟨rfl, by omega⟩
  | inTail k j =>
    obtain ⟨pre, e, tl, post, rfl, rfl, hj, rfl⟩ := h
    cases new with
    | text t =>
      simp only [addPreceding, setTail_mid, tailOf_mid]
      exact eq_insert (A := absChain data ++ absKids pre ++ abs e :: absChain (tl.take j))
        (B := absChain (tl.drop j) ++ absKids post)
        (by simp [absChain_take_drop]) (by simp [absOffered]) (by simp; omega)
    | el e2 =>
      cases j with
      | zero =>
        simp only [addPreceding]
        exact addFollowing_abs data _ _ (.elem pre.length) (.el e2) ⟨pre, e, tl, post, rfl, rfl, rfl⟩
      | succ j =>
        simp only [addPreceding]
        exact addFollowing_abs data _ _ (.inTail pre.length j) (.el e2)
          ⟨pre, e, tl, post, rfl, rfl, by omega, rfl⟩
  | elem k =>
    obtain ⟨pre, e, tl, post, rfl, rfl, rfl⟩ := h
    cases pre with
    | nil =>
      cases data with
      | nil =>
        cases new with
        | text t => simp [addPreceding, absOffered]
        | el e2 => simp [addPreceding, absOffered]
      | cons d ds =>
        simp only [List.length_nil, addPreceding, List.length_cons]
        exact addFollowing_abs (d :: ds) _ ds.length (.inData ds.length) new ⟨rfl, by simp⟩
    | cons p0 ps =>
      obtain ⟨pre', x, hpre, hlen⟩ := length_succ_split (l := p0 :: ps) (k := ps.length) (by simp)
      obtain ⟨e0, tl0⟩ := x
      rw [hpre]
      have hk : (pre' ++ [(e0, tl0)]).length = pre'.length + 1 := by simp
      have hkids : pre' ++ [(e0, tl0)] ++ (e, tl) :: post = pre' ++ (e0, tl0) :: (e, tl) :: post := by simp
      rw [hk, hkids]
      simp only [addPreceding, tailOf_mid]
      cases tl0 with
      | nil =>
        simp only [List.length_nil]
        have := addFollowing_abs data (pre' ++ (e0, []) :: (e, tl) :: post)
          (data.length + (absKids pre').length) (.elem pre'.length) new ⟨pre', e0, [], _, rfl, rfl, rfl⟩
        have hi : data.length + (absKids (pre' ++ [(e0, [])])).length =
            data.length + (absKids pre').length + 1 := by
          simp only [absKids_append, absKids_cons, absKids_nil, List.length_append, List.length_cons,
            List.length_nil, absChain_nil, List.append_nil]; omega
        rw [hi]; exact this
      | cons t0 ts =>
        simp only [List.length_cons]
        have := addFollowing_abs data (pre' ++ (e0, t0 :: ts) :: (e, tl) :: post)
          (data.length + (absKids pre').length + 1 + ts.length) (.inTail pre'.length ts.length) new
          ⟨pre', e0, t0 :: ts, _, rfl, rfl, by simp, rfl⟩
        have hi : data.length + (absKids (pre' ++ [(e0, t0 :: ts)])).length =
            data.length + (absKids pre').length + 1 + ts.length + 1 := by
          simp only [absKids_append, absKids_cons, absKids_nil, List.length_append, List.length_cons,
            absChain_cons, absChain_length, List.append_nil]; omega
        rw [hi]; exact this

theorem eraseIdx_mid_succ {α} (A : List α) (x y : α) (B : List α) :
    (A ++ x :: y :: B).eraseIdx (A.length + 1) = A ++ x :: B := by
  rw [List.eraseIdx_append_of_length_le (by omega)]
  simp

theorem eraseIdx_mid {α} (A : List α) (x : α) (B : List α) :
    (A ++ x :: B).eraseIdx A.length = A ++ B := by
  rw [List.eraseIdx_append_of_length_le (by omega)]
  simp

theorem detachAt_abs (data : Chain) (kids : List (El × Chain)) (i : Nat) (loc : Loc)
    (h : LocAt data kids i loc) (d : Chain) (k : List (El × Chain)) (off : Offered)
    (hd : detachAt data kids loc = some (d, k, off)) :
    absChain d ++ absKids k = (absChain data ++ absKids kids).eraseIdx i ∧
      (absChain data ++ absKids kids)[i]? = some (absOffered off) := by
  cases loc with
  | inData j =>
    obtain ⟨rfl, hj⟩ := h
    simp only [detachAt] at hd
    split at hd
    · rename_i t ht
      obtain ⟨A, B, rfl, rfl⟩ := getElem?_split ht
      simp only [Option.some.injEq, Prod.mk.injEq] at hd
      obtain ⟨h1, h2, h3⟩ := hd
      simp only [← h1, ← h2, ← h3]
      exact eq_erase (A := absChain A) (B := absChain B ++ absKids kids)
        (by simp [absOffered]) (by simp [eraseIdx_mid]) (by simp)
    · cases hd
  | inTail k' j =>
    obtain ⟨pre, e, tl, post, rfl, rfl, hj, rfl⟩ := h
    simp only [detachAt, tailOf_mid, setTail_mid] at hd
    split at hd
    · rename_i t ht
      obtain ⟨A, B, rfl, rfl⟩ := getElem?_split ht
      simp only [Option.some.injEq, Prod.mk.injEq] at hd
      obtain ⟨h1, h2, h3⟩ := hd
      simp only [← h1, ← h2, ← h3]
      exact eq_erase (A := absChain data ++ absKids pre ++ abs e :: absChain A) (B := absChain B ++ absKids post)
        (by simp [absOffered]) (by simp [eraseIdx_mid]) (by simp; omega)
    · cases hd
  | elem k' =>
    obtain ⟨pre, e, tl, post, rfl, rfl, rfl⟩ := h
    simp only [detachAt, getElem?_mid] at hd
    cases pre with
    | nil =>
      simp only [List.length_nil, List.nil_append, List.eraseIdx_cons_zero, Option.some.injEq,
        Prod.mk.injEq] at hd
      obtain ⟨h1, h2, h3⟩ := hd
      simp only [← h1, ← h2, ← h3]
      exact eq_erase (A := absChain data) (B := absChain tl ++ absKids post)
        (by simp [absOffered]) (by simp) (by simp)
    | cons p0 ps =>
      obtain ⟨pre', x, hpre, hlen⟩ := length_succ_split (l := p0 :: ps) (k := ps.length) (by simp)
      obtain ⟨e0, tl0⟩ := x
      rw [hpre] at hd ⊢
      have hk : (pre' ++ [(e0, tl0)]).length = pre'.length + 1 := by simp
      have hkids : pre' ++ [(e0, tl0)] ++ (e, tl) :: post = pre' ++ (e0, tl0) :: (e, tl) :: post := by simp
      rw [hk, hkids] at hd
      simp only [tailOf_mid, setTail_mid, eraseIdx_mid_succ, Option.some.injEq, Prod.mk.injEq] at hd
      obtain ⟨h1, h2, h3⟩ := hd
      simp only [← h1, ← h2, ← h3]
      exact eq_erase (A := absChain data ++ absKids pre' ++ abs e0 :: absChain tl0) (B := absChain tl ++ absKids post)
        (by simp [absOffered]) (by simp) (by simp)

theorem detachAt_isSome (data : Chain) (kids : List (El × Chain)) (i : Nat) (loc : Loc)
    (h : LocAt data kids i loc) : detachAt data kids loc ≠ none := by
  cases loc with
  | inData j =>
    obtain ⟨rfl, hj⟩ := h
    simp [detachAt, List.getElem?_eq_getElem hj]
  | inTail k' j =>
    obtain ⟨pre, e, tl, post, rfl, rfl, hj, rfl⟩ := h
    simp [detachAt, tailOf_mid, List.getElem?_eq_getElem hj]
  | elem k' =>
    obtain ⟨pre, e, tl, post, rfl, rfl, rfl⟩ := h
    simp only [detachAt, getElem?_mid]
    cases pre <;> simp

theorem setContentAt_abs (data : Chain) (kids : List (El × Chain)) (i : Nat) (loc : Loc)
    (h : LocAt data kids i loc) (s : Str) (d : Chain) (k : List (El × Chain))
    (hd : setContentAt data kids loc s = some (d, k)) :
    ∃ id s0, (absChain data ++ absKids kids)[i]? = some (.text id s0) ∧
      absChain d ++ absKids k = (absChain data ++ absKids kids).set i (.text id s) := by
  cases loc with
  | inData j =>
    obtain ⟨rfl, hj⟩ := h
    simp only [setContentAt] at hd
    split at hd
    · rename_i t ht
      obtain ⟨A, B, rfl, rfl⟩ := getElem?_split ht
      simp only [Option.some.injEq, Prod.mk.injEq] at hd
      obtain ⟨h1, h2⟩ := hd
      simp only [← h1, ← h2]
      have := eq_set (A := absChain A) (B := absChain B ++ absKids kids) (x := PTree.text t.id t.s)
        (y := PTree.text t.id s) (L := absChain (A ++ t :: B) ++ absKids kids)
        (R := absChain ((A ++ t :: B).set A.length { t with s := s }) ++ absKids kids) (n := A.length)
        (by simp) (by simp) (by simp)
      exact ⟨t.id, t.s, this.2, this.1⟩
    · cases hd
  | inTail k' j =>
    obtain ⟨pre, e, tl, post, rfl, rfl, hj, rfl⟩ := h
    simp only [setContentAt, tailOf_mid, setTail_mid] at hd
    split at hd
    · rename_i t ht
      obtain ⟨A, B, rfl, rfl⟩ := getElem?_split ht
      simp only [Option.some.injEq, Prod.mk.injEq] at hd
      obtain ⟨h1, h2⟩ := hd
      simp only [← h1, ← h2]
      have := eq_set (A := absChain data ++ absKids pre ++ abs e :: absChain A) (B := absChain B ++ absKids post)
        (x := PTree.text t.id t.s) (y := PTree.text t.id s)
        (L := absChain data ++ absKids (pre ++ (e, A ++ t :: B) :: post))
        (R := absChain data ++ absKids (pre ++ (e, (A ++ t :: B).set A.length { t with s := s }) :: post))
        (n := data.length + (absKids pre).length + 1 + A.length)
        (by simp) (by simp) (by simp; omega)
      exact ⟨t.id, t.s, this.2, this.1⟩
    · cases hd
  | elem k' => simp [setContentAt] at hd

theorem setContentAt_none (data : Chain) (kids : List (El × Chain)) (i : Nat) (loc : Loc)
    (h : LocAt data kids i loc) (s : Str) (hd : setContentAt data kids loc s = none) :
    ∃ e, (absChain data ++ absKids kids)[i]? = some (abs e) := by
  cases loc with
  | inData j =>
    obtain ⟨rfl, hj⟩ := h
    simp [setContentAt, List.getElem?_eq_getElem hj] at hd
  | inTail k' j =>
    obtain ⟨pre, e, tl, post, rfl, rfl, hj, rfl⟩ := h
    simp [setContentAt, tailOf_mid, List.getElem?_eq_getElem hj] at hd
  | elem k' =>
    obtain ⟨e, tl, _, h2⟩ := h.elem_get
    exact ⟨e, h2⟩

/-! ## the child-level operations -/

theorem applyChildOp_abs (op : ChildOp) (e e' : El) (h : applyChildOp op e = .ok e') :
    applyChildOpP op (abs e) = .ok (abs e') := by
  cases e with
  | comment i s => simp [applyChildOp] at h
  | pi i t s => simp [applyChildOp] at h
  | tag id ns n a data kids =>
    cases op with
    | addFollowing i new =>
      simp only [applyChildOp] at h
      split at h
      · rename_i loc hloc
        have hl := locate_sound _ _ _ _ hloc
        have hlt := locate_lt _ _ _ _ hl
        have := addFollowing_abs data kids i loc new hl
        simp only [Except.ok.injEq] at h
        subst h
        simp only [applyChildOpP, abs_tag, PTree.kids, hlt, if_true, insertKid]
        rw [if_pos (by omega), this]
      · cases h
    | addPreceding i new =>
      simp only [applyChildOp] at h
      split at h
      · rename_i loc hloc
        have hl := locate_sound _ _ _ _ hloc
        have hlt := locate_lt _ _ _ _ hl
        have := addPreceding_abs data kids i loc new hl
        simp only [Except.ok.injEq] at h
        subst h
        simp only [applyChildOpP, abs_tag, PTree.kids, hlt, if_true, insertKid]
        rw [if_pos (by omega), this]
      · cases h
    | addFirst new =>
      simp only [applyChildOp] at h
      split at h
      · cases h
      · rename_i hv
        have hv' : visLen data kids = 0 := by omega
        rw [visLen_eq] at hv'
        have hnil : absChain data ++ absKids kids = [] := List.length_eq_zero_iff.mp hv'
        have hd : data = [] := by
          cases data with
          | nil => rfl
          | cons d ds => simp at hnil
        have hk : kids = [] := by
          cases kids with
          | nil => rfl
          | cons x xs => obtain ⟨x1, x2⟩ := x; simp at hnil
        subst hd hk
        cases new with
        | el e2 =>
          simp only [Except.ok.injEq] at h
          subst h
          simp [applyChildOpP, PTree.isTag, PTree.kids, insertKid, absOffered]
        | text t =>
          simp only [Except.ok.injEq] at h
          subst h
          simp [applyChildOpP, PTree.isTag, PTree.kids, insertKid, absOffered]
    | setContent i s =>
      simp only [applyChildOp] at h
      split at h
      · rename_i loc hloc
        have hl := locate_sound _ _ _ _ hloc
        split at h
        · rename_i d k hsc
          obtain ⟨id', s0, h1, h2⟩ := setContentAt_abs data kids i loc hl s d k hsc
          simp only [Except.ok.injEq] at h
          subst h
          simp only [applyChildOpP, abs_tag, PTree.kids, h1, h2]
        · cases h
      · cases h

theorem applyChildOp_error (op : ChildOp) (e : El) (err : EditErr) (h : applyChildOp op e = .error err) :
    ∃ err', applyChildOpP op (abs e) = .error err' := by
  cases e with
  | comment i s => cases op <;> simp [applyChildOpP, PTree.kids, PTree.isTag]
  | pi i t s => cases op <;> simp [applyChildOpP, PTree.kids, PTree.isTag]
  | tag id ns n a data kids =>
    cases op with
    | addFollowing i new =>
      simp only [applyChildOp] at h
      split at h
      · cases h
      · rename_i hloc
        have := locate_none _ _ _ hloc
        simp only [applyChildOpP, abs_tag, PTree.kids]
        rw [if_neg (by omega)]
        exact ⟨_, rfl⟩
    | addPreceding i new =>
      simp only [applyChildOp] at h
      split at h
      · cases h
      · rename_i hloc
        have := locate_none _ _ _ hloc
        simp only [applyChildOpP, abs_tag, PTree.kids]
        rw [if_neg (by omega)]
        exact ⟨_, rfl⟩
    | addFirst new =>
      simp only [applyChildOp] at h
      split at h
      · rename_i hv
        rw [visLen_eq] at hv
        have : (absChain data ++ absKids kids).isEmpty = false := by
          cases hl : absChain data ++ absKids kids with
          | nil => simp [hl] at hv
          | cons x xs => rfl
        simp only [applyChildOpP, abs_tag, PTree.kids, this, Bool.and_false]
        exact ⟨_, rfl⟩
      · cases new <;> cases h
    | setContent i s =>
      simp only [applyChildOp] at h
      split at h
      · rename_i loc hloc
        have hl := locate_sound _ _ _ _ hloc
        split at h
        · cases h
        · rename_i hsc
          obtain ⟨e2, he2⟩ := setContentAt_none data kids i loc hl s hsc
          simp only [applyChildOpP, abs_tag, PTree.kids, he2]
          cases e2 <;> exact ⟨_, rfl⟩
      · rename_i hloc
        have := locate_none _ _ _ hloc
        have hn : (absChain data ++ absKids kids)[i]? = none := List.getElem?_eq_none this
        simp only [applyChildOpP, abs_tag, PTree.kids, hn]
        exact ⟨_, rfl⟩

theorem detachChild_abs (i : Nat) (e e' : El) (off : Offered) (h : detachChild i e = .ok (e', off)) :
    detachChildP i (abs e) = .ok (abs e', absOffered off) := by
  cases e with
  | comment i s => simp [detachChild] at h
  | pi i t s => simp [detachChild] at h
  | tag id ns n a data kids =>
    simp only [detachChild] at h
    split at h
    · rename_i loc hloc
      have hl := locate_sound _ _ _ _ hloc
      split at h
      · rename_i d k off' hd
        obtain ⟨h1, h2⟩ := detachAt_abs data kids i loc hl d k off' hd
        simp only [Except.ok.injEq, Prod.mk.injEq] at h
        obtain ⟨h3, h4⟩ := h
        subst h3 h4
        simp only [detachChildP, removeKid, abs_tag, h2, h1]
      · cases h
    · cases h

theorem detachChild_error (i : Nat) (e : El) (err : EditErr) (h : detachChild i e = .error err) :
    ∃ err', detachChildP i (abs e) = .error err' := by
  cases e with
  | comment i s => exact ⟨_, rfl⟩
  | pi i t s => exact ⟨_, rfl⟩
  | tag id ns n a data kids =>
    simp only [detachChild] at h
    split at h
    · rename_i loc hloc
      have hl := locate_sound _ _ _ _ hloc
      split at h
      · cases h
      · rename_i hd
        exact absurd hd (detachAt_isSome data kids i loc hl)
    · rename_i hloc
      have := locate_none _ _ _ hloc
      have hn : (absChain data ++ absKids kids)[i]? = none := List.getElem?_eq_none this
      simp only [detachChildP, removeKid, abs_tag, hn]
      exact ⟨_, rfl⟩

end Delb.Edit

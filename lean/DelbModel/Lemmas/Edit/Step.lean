import DelbModel.Lemmas.Edit.Child
import DelbModel.Lemmas.Edit.MergeClone
import DelbModel.Lemmas.Edit.Path
/-!
# C01 helper lemmas: forest steps
-/
namespace Delb.Edit

theorem absState_get (s : StateC) (g : Nat) :
    (absState s).groups[g]? = (s.groups[g]?).map (Option.map absGroup) := by
  simp [absState]

theorem absState_set (s : StateC) (g : Nat) (x : Option GroupC) :
    absState { s with groups := s.groups.set g x } =
      { absState s with groups := (absState s).groups.set g (x.map absGroup) } := by
  simp [absState, List.map_set]

theorem absState_nextId (s : StateC) : (absState s).nextId = s.nextId := rfl

theorem absGroup_not_tag_of_text (t : TNode) : absGroup (.text t) = .text t.id t.s := rfl

/-! ## taking the source -/

theorem takeSource_abs (s s' : StateC) (tgt : Nat) (src : Source) (off : Offered)
    (h : takeSourceC s tgt src = .ok (s', off)) :
    takeSourceA (absState s) tgt src = .ok (absState s', absOffered off) := by
  cases src with
  | newText str =>
    simp only [takeSourceC, Except.ok.injEq, Prod.mk.injEq] at h
    obtain ⟨rfl, rfl⟩ := h
    simp [takeSourceA, absState, absOffered]
  | group g =>
    simp only [takeSourceC] at h
    split at h
    · cases h
    · rename_i hne
      split at h
      · rename_i e hg
        simp only [Except.ok.injEq, Prod.mk.injEq] at h
        obtain ⟨rfl, rfl⟩ := h
        simp only [takeSourceA, if_neg hne, absState_get, hg, Option.map_some, absGroup, absState_set,
          Option.map_none, absOffered]
      · rename_i t hg
        simp only [Except.ok.injEq, Prod.mk.injEq] at h
        obtain ⟨rfl, rfl⟩ := h
        simp only [takeSourceA, if_neg hne, absState_get, hg, Option.map_some, absGroup, absState_set,
          Option.map_none, absOffered]
      · cases h

theorem takeSource_error (s : StateC) (tgt : Nat) (src : Source) (err : EditErr)
    (h : takeSourceC s tgt src = .error err) :
    ∃ err', takeSourceA (absState s) tgt src = .error err' := by
  cases src with
  | newText str => simp [takeSourceC] at h
  | group g =>
    simp only [takeSourceC] at h
    split at h
    · rename_i heq
      simp only [takeSourceA, if_pos heq]
      exact ⟨_, rfl⟩
    · rename_i hne
      simp only [takeSourceA, if_neg hne, absState_get]
      cases hg : s.groups[g]? with
      | none => exact ⟨_, rfl⟩
      | some o =>
        cases o with
        | none => exact ⟨_, rfl⟩
        | some grp =>
          cases grp <;> simp [hg] at h

/-! ## modifying a group -/

theorem modifyGroup_abs (f : El → Except EditErr El) (fP : PTree → Except EditErr PTree)
    (hok : ∀ e e', f e = .ok e' → fP (abs e) = .ok (abs e') ∧ (abs e).isTag = true)
    (s s' : StateC) (g : Nat) (h : modifyGroupC s g f = .ok s') :
    modifyGroupA (absState s) g fP = .ok (absState s') := by
  simp only [modifyGroupC] at h
  split at h
  · rename_i e hg
    split at h
    · rename_i e' he
      simp only [Except.ok.injEq] at h
      subst h
      obtain ⟨h1, h2⟩ := hok e e' he
      cases e with
      | comment i s => simp [PTree.isTag] at h2
      | pi i t s => simp [PTree.isTag] at h2
      | tag id ns n a data kids =>
        simp only [abs_tag] at h1
        simp only [modifyGroupA, absState_get, hg, Option.map_some, absGroup, abs_tag, h1, absState_set]
    · cases h
  · cases h

theorem modifyGroup_error (f : El → Except EditErr El) (fP : PTree → Except EditErr PTree)
    (herr : ∀ e err, f e = .error err → ∃ err', fP (abs e) = .error err')
    (s : StateC) (g : Nat) (err : EditErr) (h : modifyGroupC s g f = .error err) :
    ∃ err', modifyGroupA (absState s) g fP = .error err' := by
  simp only [modifyGroupC] at h
  simp only [modifyGroupA, absState_get]
  cases hg : s.groups[g]? with
  | none => exact ⟨_, rfl⟩
  | some o =>
    cases o with
    | none => exact ⟨_, rfl⟩
    | some grp =>
      cases grp with
      | text t => exact ⟨_, rfl⟩
      | el e =>
        simp only [hg] at h
        split at h
        · cases h
        · rename_i err2 he
          obtain ⟨err', he'⟩ := herr e err2 he
          cases e with
          | comment i s => exact ⟨_, rfl⟩
          | pi i t s => exact ⟨_, rfl⟩
          | tag id ns n a data kids =>
            simp only [abs_tag] at he'
            simp only [Option.map_some, absGroup, abs_tag, he']
            exact ⟨_, rfl⟩

/-! ## child operations below a path -/

theorem applyChildOp_isTag (op : ChildOp) (e e' : El) (h : applyChildOp op e = .ok e') :
    (abs e).isTag = true := by
  cases e with
  | comment i s => simp [applyChildOp] at h
  | pi i t s => simp [applyChildOp] at h
  | tag id ns n a data kids => simp [PTree.isTag]

theorem applyChildOpP_text (op : ChildOp) (i : Nat) (s : Str) :
    ∃ err', applyChildOpP op (.text i s) = .error err' := by
  cases op <;> simp [applyChildOpP, PTree.kids, PTree.isTag]

theorem childop_path_ok (op : ChildOp) (p : List Nat) (e e' : El)
    (h : modifyAtE (applyChildOp op) e p = .ok e') :
    modifyAtP (applyChildOpP op) (abs e) p = .ok (abs e') ∧ (abs e).isTag = true :=
  ⟨modifyAt_abs _ _ (applyChildOp_abs op) p e e' h,
   modifyAt_isTag _ (applyChildOp_isTag op) p e e' h⟩

theorem childop_path_error (op : ChildOp) (p : List Nat) (e : El) (err : EditErr)
    (h : modifyAtE (applyChildOp op) e p = .error err) :
    ∃ err', modifyAtP (applyChildOpP op) (abs e) p = .error err' :=
  modifyAt_error _ _ (applyChildOp_error op) (applyChildOpP_text op) p e err h

/-! ## merge below a path -/

def mergeGuardE : El → Except EditErr El :=
  fun x => match x with | .tag .. => .ok (mergeEl x) | _ => .error .badAddress

def mergeGuardP : PTree → Except EditErr PTree :=
  fun x => if x.isTag then .ok (mergeP x) else .error .badAddress

theorem mergeGuard_ok (e e' : El) (h : mergeGuardE e = .ok e') :
    mergeGuardP (abs e) = .ok (abs e') ∧ (abs e).isTag = true := by
  cases e with
  | comment i s => simp [mergeGuardE] at h
  | pi i t s => simp [mergeGuardE] at h
  | tag id ns n a data kids =>
    simp only [mergeGuardE, Except.ok.injEq] at h
    subst h
    rw [abs_mergeEl]
    simp [mergeGuardP, PTree.isTag]

theorem mergeGuard_error (e : El) (err : EditErr) (h : mergeGuardE e = .error err) :
    ∃ err', mergeGuardP (abs e) = .error err' := by
  cases e with
  | comment i s => exact ⟨_, rfl⟩
  | pi i t s => exact ⟨_, rfl⟩
  | tag id ns n a data kids => simp [mergeGuardE] at h

theorem merge_path_ok (p : List Nat) (e e' : El) (h : modifyAtE mergeGuardE e p = .ok e') :
    modifyAtP mergeGuardP (abs e) p = .ok (abs e') ∧ (abs e).isTag = true :=
  ⟨modifyAt_abs _ _ (fun e e' h => (mergeGuard_ok e e' h).1) p e e' h,
   modifyAt_isTag _ (fun e e' h => (mergeGuard_ok e e' h).2) p e e' h⟩

theorem merge_path_error (p : List Nat) (e : El) (err : EditErr)
    (h : modifyAtE mergeGuardE e p = .error err) :
    ∃ err', modifyAtP mergeGuardP (abs e) p = .error err' :=
  modifyAt_error _ _ mergeGuard_error (fun _ _ => ⟨_, rfl⟩) p e err h

/-! ## detach below a path -/

def detachF (i : Nat) : El → Except EditErr El := fun parent => (detachChild i parent).map (·.1)
def removeF (i : Nat) : PTree → Except EditErr PTree := fun parent => (removeKid i parent).map (·.1)

theorem detachF_ok (i : Nat) (e e' : El) (h : detachF i e = .ok e') :
    removeF i (abs e) = .ok (abs e') ∧ (abs e).isTag = true := by
  simp only [detachF] at h
  cases hd : detachChild i e with
  | error err => simp [hd, Except.map] at h
  | ok r =>
    obtain ⟨e2, off⟩ := r
    simp only [hd, Except.map, Except.ok.injEq] at h
    subst h
    have := detachChild_abs i e e2 off hd
    simp only [detachChildP] at this
    refine ⟨by simp [removeF, this, Except.map], ?_⟩
    cases e with
    | comment i s => simp [detachChild] at hd
    | pi i t s => simp [detachChild] at hd
    | tag id ns n a data kids => simp [PTree.isTag]

theorem detachF_error (i : Nat) (e : El) (err : EditErr) (h : detachF i e = .error err) :
    ∃ err', removeF i (abs e) = .error err' := by
  simp only [detachF] at h
  cases hd : detachChild i e with
  | ok r => simp [hd, Except.map] at h
  | error err2 =>
    obtain ⟨err', he⟩ := detachChild_error i e err2 hd
    simp only [detachChildP] at he
    exact ⟨err', by simp [removeF, he, Except.map]⟩

theorem detach_path_ok (i : Nat) (p : List Nat) (e e' : El) (h : modifyAtE (detachF i) e p = .ok e') :
    modifyAtP (removeF i) (abs e) p = .ok (abs e') ∧ (abs e).isTag = true :=
  ⟨modifyAt_abs _ _ (fun e e' h => (detachF_ok i e e' h).1) p e e' h,
   modifyAt_isTag _ (fun e e' h => (detachF_ok i e e' h).2) p e e' h⟩

theorem detach_path_error (i : Nat) (p : List Nat) (e : El) (err : EditErr)
    (h : modifyAtE (detachF i) e p = .error err) :
    ∃ err', modifyAtP (removeF i) (abs e) p = .error err' :=
  modifyAt_error _ _ (detachF_error i) (fun _ _ => ⟨_, rfl⟩) p e err h

theorem splitLast_ne_nil {path p : List Nat} {i : Nat} (h : splitLast path = some (p, i)) :
    ∃ x q, path = x :: q := by
  cases path with
  | nil => simp [splitLast] at h
  | cons x q => exact ⟨x, q, rfl⟩

end Delb.Edit

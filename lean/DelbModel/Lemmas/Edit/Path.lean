import DelbModel.Lemmas.Edit.Basic
/-!
# C01 helper lemmas: edits below a path
-/
namespace Delb.Edit

theorem LocAt.elem_set {data : Chain} {kids : List (El × Chain)} {i k : Nat}
    (h : LocAt data kids i (.elem k)) {c : El} {tl : Chain} (hk : kids[k]? = some (c, tl)) :
    (absChain data ++ absKids kids)[i]? = some (abs c) ∧
      ∀ c', absChain data ++ absKids (setEl kids k c') = (absChain data ++ absKids kids).set i (abs c') := by
  obtain ⟨pre, e, tl0, post, rfl, rfl, rfl⟩ := h
  simp only [getElem?_mid, Option.some.injEq, Prod.mk.injEq] at hk
  obtain ⟨rfl, rfl⟩ := hk
  constructor
  · exact (eq_set (A := absChain data ++ absKids pre) (B := absChain tl0 ++ absKids post) (x := abs e)
      (y := abs e) (R := absChain data ++ absKids (pre ++ (e, tl0) :: post))
      (by simp) (by simp) (by simp)).2
  · intro c'
    rw [setEl_mid]
    exact (eq_set (A := absChain data ++ absKids pre) (B := absChain tl0 ++ absKids post) (x := abs e)
      (y := abs c') (by simp) (by simp) (by simp)).1

theorem LocAt.inData_get {data : Chain} {kids : List (El × Chain)} {i j : Nat}
    (h : LocAt data kids i (.inData j)) :
    ∃ t, data[j]? = some t ∧ (absChain data ++ absKids kids)[i]? = some (.text t.id t.s) := by
  obtain ⟨rfl, hj⟩ := h
  obtain ⟨A, t, B, rfl, rfl⟩ := lt_length_split hj
  refine ⟨t, by simp, ?_⟩
  exact (eq_set (A := absChain A) (B := absChain B ++ absKids kids) (x := PTree.text t.id t.s)
      (y := PTree.text t.id t.s) (R := absChain (A ++ t :: B) ++ absKids kids)
      (by simp) (by simp) (by simp)).2

theorem LocAt.inTail_get {data : Chain} {kids : List (El × Chain)} {i k j : Nat}
    (h : LocAt data kids i (.inTail k j)) :
    ∃ t, (tailOf kids k)[j]? = some t ∧ (absChain data ++ absKids kids)[i]? = some (.text t.id t.s) := by
  obtain ⟨pre, e, tl, post, rfl, rfl, hj, rfl⟩ := h
  obtain ⟨A, t, B, rfl, rfl⟩ := lt_length_split hj
  refine ⟨t, by simp [tailOf_mid], ?_⟩
  exact (eq_set (A := absChain data ++ absKids pre ++ abs e :: absChain A) (B := absChain B ++ absKids post)
      (x := PTree.text t.id t.s) (y := PTree.text t.id t.s)
      (R := absChain data ++ absKids (pre ++ (e, A ++ t :: B) :: post))
      (by simp) (by simp) (by simp; omega)).2

theorem modifyAtP_text_error (fP : PTree → Except EditErr PTree)
    (htext : ∀ i s, ∃ err', fP (.text i s) = .error err') (i : Nat) (s : Str) (p : List Nat) :
    ∃ err', modifyAtP fP (.text i s) p = .error err' := by
  cases p with
  | nil => simpa [modifyAtP] using htext i s
  | cons x p => exact ⟨_, rfl⟩

theorem modifyAt_abs (f : El → Except EditErr El) (fP : PTree → Except EditErr PTree)
    (hf : ∀ e e', f e = .ok e' → fP (abs e) = .ok (abs e')) :
    ∀ (p : List Nat) (e e' : El), modifyAtE f e p = .ok e' → modifyAtP fP (abs e) p = .ok (abs e') := by
  intro p
  induction p with
  | nil => intro e e' h; simpa [modifyAtE, modifyAtP] using hf e e' (by simpa [modifyAtE] using h)
  | cons x p ih =>
    intro e e' h
    cases e with
    | comment i s => simp [modifyAtE] at h
    | pi i t s => simp [modifyAtE] at h
    | tag id ns n a data kids =>
      simp only [modifyAtE] at h
      split at h
      · rename_i k hloc
        have hl := locate_sound _ _ _ _ hloc
        split at h
        · cases h
        · rename_i c tl hk
          obtain ⟨h1, h2⟩ := hl.elem_set hk
          split at h
          · cases h
          · rename_i c' hc
            simp only [Except.ok.injEq] at h
            subst h
            simp only [abs_tag, modifyAtP, h1, ih c c' hc, h2]
      · cases h

theorem modifyAt_error (f : El → Except EditErr El) (fP : PTree → Except EditErr PTree)
    (hf : ∀ e err, f e = .error err → ∃ err', fP (abs e) = .error err')
    (htext : ∀ i s, ∃ err', fP (.text i s) = .error err') :
    ∀ (p : List Nat) (e : El) (err : EditErr), modifyAtE f e p = .error err →
      ∃ err', modifyAtP fP (abs e) p = .error err' := by
  intro p
  induction p with
  | nil => intro e err h; simpa [modifyAtE, modifyAtP] using hf e err (by simpa [modifyAtE] using h)
  | cons x p ih =>
    intro e err h
    cases e with
    | comment i s => exact ⟨_, rfl⟩
    | pi i t s => exact ⟨_, rfl⟩
    | tag id ns n a data kids =>
      simp only [modifyAtE] at h
      cases hloc : locate data kids x with
      | none =>
        have := locate_none _ _ _ hloc
        have hn : (absChain data ++ absKids kids)[x]? = none := List.getElem?_eq_none this
        simp only [abs_tag, modifyAtP, hn]
        exact ⟨_, rfl⟩
      | some loc =>
        have hl := locate_sound _ _ _ _ hloc
        cases loc with
        | inData j =>
          obtain ⟨t, _, ht⟩ := hl.inData_get
          simp only [abs_tag, modifyAtP, ht]
          obtain ⟨err', he⟩ := modifyAtP_text_error fP htext t.id t.s p
          rw [he]; exact ⟨_, rfl⟩
        | inTail k j =>
          obtain ⟨t, _, ht⟩ := hl.inTail_get
          simp only [abs_tag, modifyAtP, ht]
          obtain ⟨err', he⟩ := modifyAtP_text_error fP htext t.id t.s p
          rw [he]; exact ⟨_, rfl⟩
        | elem k =>
          obtain ⟨c, tl, hk, _⟩ := hl.elem_get
          obtain ⟨h1, h2⟩ := hl.elem_set hk
          simp only [hloc, hk] at h
          split at h
          · rename_i err2 hc
            obtain ⟨err', he⟩ := ih c err2 hc
            simp only [abs_tag, modifyAtP, h1, he]
            exact ⟨_, rfl⟩
          · cases h

theorem modifyAt_isTag (f : El → Except EditErr El)
    (hf : ∀ e e', f e = .ok e' → (abs e).isTag = true) (p : List Nat) (e e' : El)
    (h : modifyAtE f e p = .ok e') : (abs e).isTag = true := by
  cases p with
  | nil => exact hf e e' (by simpa [modifyAtE] using h)
  | cons x p =>
    cases e with
    | comment i s => simp [modifyAtE] at h
    | pi i t s => simp [modifyAtE] at h
    | tag id ns n a data kids => simp [PTree.isTag]

theorem getAt_abs : ∀ (p : List Nat) (e : El) (off : Offered), getAtE e p = some off →
    getAtP (abs e) p = some (absOffered off) := by
  intro p
  induction p with
  | nil => intro e off h; simp only [getAtE, Option.some.injEq] at h; subst h; simp [getAtP, absOffered]
  | cons x p ih =>
    intro e off h
    cases e with
    | comment i s => simp [getAtE] at h
    | pi i t s => simp [getAtE] at h
    | tag id ns n a data kids =>
      simp only [getAtE] at h
      cases hloc : locate data kids x with
      | none => simp [hloc] at h
      | some loc =>
        have hl := locate_sound _ _ _ _ hloc
        cases loc with
        | inData j =>
          obtain ⟨t, ht1, ht⟩ := hl.inData_get
          simp only [hloc, ht1, Option.map_some] at h
          split at h
          · rename_i hp
            have : p = [] := by simpa using hp
            subst this
            simp only [Option.some.injEq] at h
            subst h
            simp [abs_tag, getAtP, ht, absOffered]
          · cases h
        | inTail k j =>
          obtain ⟨t, ht1, ht⟩ := hl.inTail_get
          simp only [hloc, ht1, Option.map_some] at h
          split at h
          · rename_i hp
            have : p = [] := by simpa using hp
            subst this
            simp only [Option.some.injEq] at h
            subst h
            simp [abs_tag, getAtP, ht, absOffered]
          · cases h
        | elem k =>
          obtain ⟨c, tl, hk, _⟩ := hl.elem_get
          obtain ⟨h1, h2⟩ := hl.elem_set hk
          simp only [hloc, hk] at h
          simp only [abs_tag, getAtP, h1]
          exact ih c off h

theorem getAtP_text (i : Nat) (s : Str) (x : Nat) (p : List Nat) : getAtP (.text i s) (x :: p) = none := rfl

theorem getAt_none : ∀ (p : List Nat) (e : El), getAtE e p = none → getAtP (abs e) p = none := by
  intro p
  induction p with
  | nil => intro e h; simp [getAtE] at h
  | cons x p ih =>
    intro e h
    cases e with
    | comment i s => rfl
    | pi i t s => rfl
    | tag id ns n a data kids =>
      simp only [getAtE] at h
      cases hloc : locate data kids x with
      | none =>
        have := locate_none _ _ _ hloc
        have hn : (absChain data ++ absKids kids)[x]? = none := List.getElem?_eq_none this
        simp only [abs_tag, getAtP, hn]
      | some loc =>
        have hl := locate_sound _ _ _ _ hloc
        cases loc with
        | inData j =>
          obtain ⟨t, ht1, ht⟩ := hl.inData_get
          simp only [hloc, ht1, Option.map_some] at h
          cases p with
          | nil => simp at h
          | cons y p => simp only [abs_tag, getAtP, ht]
        | inTail k j =>
          obtain ⟨t, ht1, ht⟩ := hl.inTail_get
          simp only [hloc, ht1, Option.map_some] at h
          cases p with
          | nil => simp at h
          | cons y p => simp only [abs_tag, getAtP, ht]
        | elem k =>
          obtain ⟨c, tl, hk, _⟩ := hl.elem_get
          obtain ⟨h1, h2⟩ := hl.elem_set hk
          simp only [hloc, hk] at h
          simp only [abs_tag, getAtP, h1]
          exact ih c h

end Delb.Edit

import DelbModel.Model.Edit
/-!
# C01 helper lemmas: the abstraction map and `locate`
-/
namespace Delb.Edit

/-! ## generic list facts -/

theorem take_append_drop_assoc {α} (n : Nat) (l X : List α) : l.take n ++ (l.drop n ++ X) = l ++ X := by
  rw [← List.append_assoc, List.take_append_drop]

/-- `R` is `L` with `x` inserted at position `n` -/
theorem eq_insert {α} {R L A B : List α} {x : α} {n : Nat}
    (hL : L = A ++ B) (hR : R = A ++ x :: B) (hn : A.length = n) :
    R = L.take n ++ x :: L.drop n := by
  subst hL hR hn
  rw [List.take_left' rfl, List.drop_left' rfl]

/-- `R` is `L` with position `n` erased -/
theorem eq_erase {α} {R L A B : List α} {x : α} {n : Nat}
    (hL : L = A ++ x :: B) (hR : R = A ++ B) (hn : A.length = n) :
    R = L.eraseIdx n ∧ L[n]? = some x := by
  subst hL hR hn
  constructor
  · rw [List.eraseIdx_append_of_length_le (Nat.le_refl _)]; simp
  · simp

/-- `R` is `L` with position `n` replaced -/
theorem eq_set {α} {R L A B : List α} {x y : α} {n : Nat}
    (hL : L = A ++ x :: B) (hR : R = A ++ y :: B) (hn : A.length = n) :
    R = L.set n y ∧ L[n]? = some x := by
  subst hL hR hn
  constructor
  · simp
  · simp

theorem getElem?_split {α} {l : List α} {n : Nat} {x : α} (h : l[n]? = some x) :
    ∃ A B, l = A ++ x :: B ∧ A.length = n := by
  induction l generalizing n with
  | nil => simp at h
  | cons a l ih =>
    cases n with
    | zero => simp at h; subst h; exact ⟨[], l, rfl, rfl⟩
    | succ n =>
      simp at h
      obtain ⟨A, B, hl, hn⟩ := ih h
      exact ⟨a :: A, B, by simp [hl], by simp [hn]⟩

theorem lt_length_split {α} {l : List α} {n : Nat} (h : n < l.length) :
    ∃ A x B, l = A ++ x :: B ∧ A.length = n := by
  have : l[n]? = some l[n] := by simp
  obtain ⟨A, B, h1, h2⟩ := getElem?_split this
  exact ⟨A, _, B, h1, h2⟩

/-! ## `absChain`, `absKids` -/

@[simp] theorem absChain_nil : absChain [] = [] := rfl
@[simp] theorem absChain_cons (t : TNode) (c : Chain) :
    absChain (t :: c) = PTree.text t.id t.s :: absChain c := rfl
@[simp] theorem absChain_append (a b : Chain) : absChain (a ++ b) = absChain a ++ absChain b := by
  simp [absChain]
@[simp] theorem absChain_length (c : Chain) : (absChain c).length = c.length := by simp [absChain]

@[simp] theorem absKids_nil : absKids [] = [] := by simp [absKids]
@[simp] theorem absKids_cons (e : El) (tl : Chain) (rest : List (El × Chain)) :
    absKids ((e, tl) :: rest) = abs e :: (absChain tl ++ absKids rest) := by simp [absKids]
@[simp] theorem absKids_append (a b : List (El × Chain)) : absKids (a ++ b) = absKids a ++ absKids b := by
  induction a with
  | nil => simp
  | cons x a ih => obtain ⟨e, tl⟩ := x; simp [ih]

@[simp] theorem abs_tag (i ns n a data kids) :
    abs (.tag i ns n a data kids) = .tag i ns n a (absChain data ++ absKids kids) := by simp [abs]
@[simp] theorem abs_comment (i s) : abs (.comment i s) = .comment i s := by simp [abs]
@[simp] theorem abs_pi (i t s) : abs (.pi i t s) = .pi i t s := by simp [abs]

theorem abs_not_text (e : El) : (abs e).isText = false := by
  cases e <;> simp [PTree.isText]

theorem abs_ne_text (e : El) (i : Nat) (s : Str) : abs e ≠ .text i s := by
  cases e <;> simp

theorem absKids_length (kids : List (El × Chain)) :
    (absKids kids).length = (kids.map (fun p => 1 + p.2.length)).sum := by
  induction kids with
  | nil => simp
  | cons x kids ih => obtain ⟨e, tl⟩ := x; simp [ih]; omega

theorem visLen_eq (data : Chain) (kids : List (El × Chain)) :
    visLen data kids = (absChain data ++ absKids kids).length := by
  simp [visLen, absKids_length]

/-! ## the child-list surgery helpers on a split list -/

theorem setTail_mid (pre : List (El × Chain)) (e : El) (tl : Chain) (post : List (El × Chain)) (tl' : Chain) :
    setTail (pre ++ (e, tl) :: post) pre.length tl' = pre ++ (e, tl') :: post := by
  simp [setTail]

theorem tailOf_mid (pre : List (El × Chain)) (e : El) (tl : Chain) (post : List (El × Chain)) :
    tailOf (pre ++ (e, tl) :: post) pre.length = tl := by
  simp [tailOf]

theorem setEl_mid (pre : List (El × Chain)) (e : El) (tl : Chain) (post : List (El × Chain)) (e' : El) :
    setEl (pre ++ (e, tl) :: post) pre.length e' = pre ++ (e', tl) :: post := by
  simp [setEl]

theorem insertElAfter_mid (pre : List (El × Chain)) (e : El) (tl : Chain) (post : List (El × Chain))
    (e2 : El) (tl2 : Chain) :
    insertElAfter (pre ++ (e, tl) :: post) pre.length e2 tl2 = pre ++ (e, tl) :: (e2, tl2) :: post := by
  have h1 : List.take (pre.length + 1) pre = pre := List.take_of_length_le (by omega)
  have h2 : List.drop (pre.length + 1) pre = [] := List.drop_of_length_le (by omega)
  simp [insertElAfter, List.take_append, List.drop_append, h1, h2]

theorem getElem?_mid (pre : List (El × Chain)) (x : El × Chain) (post : List (El × Chain)) :
    (pre ++ x :: post)[pre.length]? = some x := by simp

/-! ## `locate` -/

/-- what `locate` returning `loc` for index `i` means -/
def LocAt (data : Chain) (kids : List (El × Chain)) (i : Nat) : Loc → Prop
  | .inData j => i = j ∧ j < data.length
  | .elem k => ∃ pre e tl post, kids = pre ++ (e, tl) :: post ∧ pre.length = k ∧
      i = data.length + (absKids pre).length
  | .inTail k j => ∃ pre e tl post, kids = pre ++ (e, tl) :: post ∧ pre.length = k ∧ j < tl.length ∧
      i = data.length + (absKids pre).length + 1 + j

theorem locate_go_sound (k i : Nat) (kids : List (El × Chain)) (loc : Loc)
    (h : locate.go k i kids = some loc) :
    match loc with
    | .inData _ => False
    | .elem k' => ∃ pre e tl post, kids = pre ++ (e, tl) :: post ∧ k + pre.length = k' ∧
        i = (absKids pre).length
    | .inTail k' j => ∃ pre e tl post, kids = pre ++ (e, tl) :: post ∧ k + pre.length = k' ∧
        j < tl.length ∧ i = (absKids pre).length + 1 + j := by
  induction kids generalizing k i with
  | nil => simp [locate.go] at h
  | cons x rest ih =>
    obtain ⟨e, tl⟩ := x
    simp only [locate.go] at h
    split at h
    · cases h; exact ⟨[], e, tl, rest, rfl, by simp, by simp [*]⟩
    · split at h
      · cases h
        exact ⟨[], e, tl, rest, rfl, by simp, by assumption, by simp; omega⟩
      · have := ih _ _ h
        cases loc with
        | inData j => exact this
        | elem k' =>
          obtain ⟨pre, e', tl', post, h1, h2, h3⟩ := this
          exact ⟨(e, tl) :: pre, e', tl', post, by simp [h1], by simp; omega, by simp; omega⟩
        | inTail k' j =>
          obtain ⟨pre, e', tl', post, h1, h2, h3, h4⟩ := this
          exact ⟨(e, tl) :: pre, e', tl', post, by simp [h1], by simp; omega, h3, by simp; omega⟩

theorem locate_go_none (k i : Nat) (kids : List (El × Chain)) (h : locate.go k i kids = none) :
    (absKids kids).length ≤ i := by
  induction kids generalizing k i with
  | nil => simp
  | cons x rest ih =>
    obtain ⟨e, tl⟩ := x
    simp only [locate.go] at h
    split at h
    · cases h
    · split at h
      · cases h
      · have := ih _ _ h
        simp; omega

theorem locate_sound (data : Chain) (kids : List (El × Chain)) (i : Nat) (loc : Loc)
    (h : locate data kids i = some loc) : LocAt data kids i loc := by
  unfold locate at h
  split at h
  · cases h; exact ⟨rfl, by assumption⟩
  · have := locate_go_sound _ _ _ _ h
    cases loc with
    | inData j => exact this.elim
    | elem k' =>
      obtain ⟨pre, e', tl', post, h1, h2, h3⟩ := this
      exact ⟨pre, e', tl', post, h1, by omega, by omega⟩
    | inTail k' j =>
      obtain ⟨pre, e', tl', post, h1, h2, h3, h4⟩ := this
      exact ⟨pre, e', tl', post, h1, by omega, h3, by omega⟩

theorem locate_none (data : Chain) (kids : List (El × Chain)) (i : Nat)
    (h : locate data kids i = none) : (absChain data ++ absKids kids).length ≤ i := by
  unfold locate at h
  split at h
  · cases h
  · have := locate_go_none _ _ _ h
    simp only [List.length_append, absChain_length]; omega

theorem locate_lt (data : Chain) (kids : List (El × Chain)) (i : Nat) (loc : Loc)
    (h : LocAt data kids i loc) : i < (absChain data ++ absKids kids).length := by
  cases loc with
  | inData j => obtain ⟨rfl, h2⟩ := h; simp; omega
  | elem k =>
    obtain ⟨pre, e, tl, post, rfl, _, rfl⟩ := h
    simp only [List.length_append, absChain_length, absKids_append, absKids_cons, List.length_cons]; omega
  | inTail k j =>
    obtain ⟨pre, e, tl, post, rfl, _, _, rfl⟩ := h
    simp only [List.length_append, absChain_length, absKids_append, absKids_cons, List.length_cons]; omega

/-- the element found by `locate` is the visible child at that index -/
theorem LocAt.elem_get {data : Chain} {kids : List (El × Chain)} {i k : Nat}
    (h : LocAt data kids i (.elem k)) :
    ∃ e tl, kids[k]? = some (e, tl) ∧ (absChain data ++ absKids kids)[i]? = some (abs e) := by
  obtain ⟨pre, e, tl, post, rfl, rfl, rfl⟩ := h
  refine ⟨e, tl, by simp, ?_⟩
  have := (eq_erase (L := absChain data ++ absKids (pre ++ (e, tl) :: post))
    (A := absChain data ++ absKids pre) (B := absChain tl ++ absKids post) (x := abs e)
    (R := _) (n := data.length + (absKids pre).length) (by simp) rfl (by simp)).2
  exact this

end Delb.Edit

import DelbModel.Lemmas.Edit.Step
/-!
# C01 helper lemmas: `stepC` refines `stepA`
-/
namespace Delb.Edit

theorem absState_append (s : StateC) (g : GroupC) (n : Nat) :
    absState { groups := s.groups ++ [some g], nextId := n } =
      { groups := (absState s).groups ++ [some (absGroup g)], nextId := n } := by
  simp [absState]

theorem step_addFollowing (s s' : StateC) (a : Addr) (src : Source)
    (h : stepC s (.addFollowing a src) = .ok s') :
    stepA (absState s) (.addFollowing a src) = .ok (absState s') := by
  simp only [stepC] at h
  simp only [stepA]
  split at h
  · cases h
  · rename_i p i hsp
    split at h
    · cases h
    · rename_i s1 off hts
      rw [takeSource_abs _ _ _ _ _ hts]
      exact modifyGroup_abs _ (fun t => modifyAtP (applyChildOpP (.addFollowing i off)) t p)
        (fun e e' he => childop_path_ok _ p e e' he) s1 s' a.g h

theorem step_addPreceding (s s' : StateC) (a : Addr) (src : Source)
    (h : stepC s (.addPreceding a src) = .ok s') :
    stepA (absState s) (.addPreceding a src) = .ok (absState s') := by
  simp only [stepC] at h
  simp only [stepA]
  split at h
  · cases h
  · rename_i p i hsp
    split at h
    · cases h
    · rename_i s1 off hts
      rw [takeSource_abs _ _ _ _ _ hts]
      exact modifyGroup_abs _ (fun t => modifyAtP (applyChildOpP (.addPreceding i off)) t p)
        (fun e e' he => childop_path_ok _ p e e' he) s1 s' a.g h

theorem step_addFirst (s s' : StateC) (a : Addr) (src : Source)
    (h : stepC s (.addFirst a src) = .ok s') :
    stepA (absState s) (.addFirst a src) = .ok (absState s') := by
  simp only [stepC] at h
  simp only [stepA]
  split at h
  · cases h
  · rename_i s1 off hts
    rw [takeSource_abs _ _ _ _ _ hts]
    exact modifyGroup_abs _ (fun t => modifyAtP (applyChildOpP (.addFirst off)) t a.path)
      (fun e e' he => childop_path_ok _ a.path e e' he) s1 s' a.g h

theorem step_setContent (s s' : StateC) (a : Addr) (str : Str)
    (h : stepC s (.setContent a str) = .ok s') :
    stepA (absState s) (.setContent a str) = .ok (absState s') := by
  simp only [stepC] at h
  simp only [stepA]
  split at h
  · split at h
    · rename_i t hg
      simp only [Except.ok.injEq] at h
      subst h
      simp only [absState_get, hg, Option.map_some, absGroup, absState_set]
    · cases h
  · rename_i p i hsp
    exact modifyGroup_abs _ (fun t => modifyAtP (applyChildOpP (.setContent i str)) t p)
      (fun e e' he => childop_path_ok _ p e e' he) s s' a.g h

theorem step_merge (s s' : StateC) (a : Addr)
    (h : stepC s (.merge a) = .ok s') :
    stepA (absState s) (.merge a) = .ok (absState s') := by
  simp only [stepC] at h
  simp only [stepA]
  exact modifyGroup_abs (fun e => modifyAtE mergeGuardE e a.path) (fun t => modifyAtP mergeGuardP t a.path)
    (fun e e' he => merge_path_ok a.path e e' he) s s' a.g h

theorem step_new (s s' : StateC) (p : Prim)
    (hp : (∃ ns name attrs, p = .newTag ns name attrs) ∨ (∃ str, p = .newComment str) ∨
      (∃ t str, p = .newPI t str))
    (h : stepC s p = .ok s') : stepA (absState s) p = .ok (absState s') := by
  rcases hp with ⟨ns, name, attrs, rfl⟩ | ⟨str, rfl⟩ | ⟨t, str, rfl⟩
  all_goals
    simp only [stepC, Except.ok.injEq] at h
    subst h
    simp [stepA, absState, absGroup]

theorem step_detach (s s' : StateC) (a : Addr)
    (h : stepC s (.detach a) = .ok s') :
    stepA (absState s) (.detach a) = .ok (absState s') := by
  simp only [stepC] at h
  simp only [stepA]
  split at h
  · simp only [Except.ok.injEq] at h
    subst h
    rfl
  · rename_i p i hsp
    split at h
    · rename_i e hg
      split at h
      · cases h
      · rename_i off hoff
        split at h
        · cases h
        · rename_i e' he
          simp only [Except.ok.injEq] at h
          subst h
          obtain ⟨h1, h2⟩ := detach_path_ok i p e e' he
          simp only [absState_get, hg, Option.map_some, absGroup, getAt_abs _ _ _ hoff]
          have h1' : modifyAtP (fun parent => Except.map (fun x => x.fst) (removeKid i parent)) (abs e) p =
              .ok (abs e') := h1
          simp only [h1', h2, if_true]
          cases off <;> simp [absState, absGroup, absOffered, List.map_set]
    · cases h

theorem step_cloneDeep (s s' : StateC) (a : Addr)
    (h : stepC s (.cloneDeep a) = .ok s') :
    stepA (absState s) (.cloneDeep a) = .ok (absState s') := by
  simp only [stepC] at h
  simp only [stepA]
  split at h
  · rename_i e hg
    simp only [absState_get, hg, Option.map_some, absGroup]
    split at h
    · rename_i x hx
      simp only [Except.ok.injEq] at h
      subst h
      simp only [getAt_abs _ _ _ hx, absOffered, absState_nextId, cloneEl_abs, absState_append, absGroup]
    · rename_i t hx
      simp only [Except.ok.injEq] at h
      subst h
      simp only [getAt_abs _ _ _ hx, absOffered, absState_nextId, cloneP, absState_append, absGroup]
    · cases h
  · rename_i t hg
    split at h
    · rename_i hp
      have : a.path = [] := by simpa using hp
      simp only [Except.ok.injEq] at h
      subst h
      simp only [absState_get, hg, Option.map_some, absGroup, this, getAtP, absState_nextId, cloneP,
        absState_append]
    · cases h
  · cases h

theorem step_abs (s s' : StateC) (p : Prim) (h : stepC s p = .ok s') :
    stepA (absState s) p = .ok (absState s') := by
  cases p with
  | addFollowing a src => exact step_addFollowing s s' a src h
  | addPreceding a src => exact step_addPreceding s s' a src h
  | addFirst a src => exact step_addFirst s s' a src h
  | detach a => exact step_detach s s' a h
  | setContent a str => exact step_setContent s s' a str h
  | merge a => exact step_merge s s' a h
  | newTag ns name attrs => exact step_new s s' _ (Or.inl ⟨_, _, _, rfl⟩) h
  | newComment str => exact step_new s s' _ (Or.inr (Or.inl ⟨_, rfl⟩)) h
  | newPI t str => exact step_new s s' _ (Or.inr (Or.inr ⟨_, _, rfl⟩)) h
  | cloneDeep a => exact step_cloneDeep s s' a h

end Delb.Edit

import DelbModel.Lemmas.Edit.Step
/-!
# C01 helper lemmas: `stepC` fails only where `stepA` fails
-/
namespace Delb.Edit

theorem stepErr_addFollowing (s : StateC) (a : Addr) (src : Source) (err : EditErr)
    (h : stepC s (.addFollowing a src) = .error err) :
    ∃ err', stepA (absState s) (.addFollowing a src) = .error err' := by
  simp only [stepC] at h
  simp only [stepA]
  split at h
  · exact ⟨_, rfl⟩
  · rename_i p i hsp
    split at h
    · rename_i err2 hts
      obtain ⟨err', he⟩ := takeSource_error _ _ _ _ hts
      rw [he]; exact ⟨_, rfl⟩
    · rename_i s1 off hts
      rw [takeSource_abs _ _ _ _ _ hts]
      exact modifyGroup_error _ (fun t => modifyAtP (applyChildOpP (.addFollowing i off)) t p)
        (fun e err he => childop_path_error _ p e err he) s1 a.g err h

theorem stepErr_addPreceding (s : StateC) (a : Addr) (src : Source) (err : EditErr)
    (h : stepC s (.addPreceding a src) = .error err) :
    ∃ err', stepA (absState s) (.addPreceding a src) = .error err' := by
  simp only [stepC] at h
  simp only [stepA]
  split at h
  · exact ⟨_, rfl⟩
  · rename_i p i hsp
    split at h
    · rename_i err2 hts
      obtain ⟨err', he⟩ := takeSource_error _ _ _ _ hts
      rw [he]; exact ⟨_, rfl⟩
    · rename_i s1 off hts
      rw [takeSource_abs _ _ _ _ _ hts]
      exact modifyGroup_error _ (fun t => modifyAtP (applyChildOpP (.addPreceding i off)) t p)
        (fun e err he => childop_path_error _ p e err he) s1 a.g err h

theorem stepErr_addFirst (s : StateC) (a : Addr) (src : Source) (err : EditErr)
    (h : stepC s (.addFirst a src) = .error err) :
    ∃ err', stepA (absState s) (.addFirst a src) = .error err' := by
  simp only [stepC] at h
  simp only [stepA]
  split at h
  · rename_i err2 hts
    obtain ⟨err', he⟩ := takeSource_error _ _ _ _ hts
    rw [he]; exact ⟨_, rfl⟩
  · rename_i s1 off hts
    rw [takeSource_abs _ _ _ _ _ hts]
    exact modifyGroup_error _ (fun t => modifyAtP (applyChildOpP (.addFirst off)) t a.path)
      (fun e err he => childop_path_error _ a.path e err he) s1 a.g err h

theorem stepErr_setContent (s : StateC) (a : Addr) (str : Str) (err : EditErr)
    (h : stepC s (.setContent a str) = .error err) :
    ∃ err', stepA (absState s) (.setContent a str) = .error err' := by
  simp only [stepC] at h
  simp only [stepA]
  split at h
  · simp only [absState_get]
    cases hg : s.groups[a.g]? with
    | none => exact ⟨_, rfl⟩
    | some o =>
      cases o with
      | none => exact ⟨_, rfl⟩
      | some grp =>
        cases grp with
        | text t => simp [hg] at h
        | el e => cases e <;> exact ⟨_, rfl⟩
  · rename_i p i hsp
    exact modifyGroup_error _ (fun t => modifyAtP (applyChildOpP (.setContent i str)) t p)
      (fun e err he => childop_path_error _ p e err he) s a.g err h

theorem stepErr_merge (s : StateC) (a : Addr) (err : EditErr)
    (h : stepC s (.merge a) = .error err) :
    ∃ err', stepA (absState s) (.merge a) = .error err' := by
  simp only [stepC] at h
  simp only [stepA]
  exact modifyGroup_error (fun e => modifyAtE mergeGuardE e a.path) (fun t => modifyAtP mergeGuardP t a.path)
    (fun e err he => merge_path_error a.path e err he) s a.g err h

theorem stepErr_detach (s : StateC) (a : Addr) (err : EditErr)
    (h : stepC s (.detach a) = .error err) :
    ∃ err', stepA (absState s) (.detach a) = .error err' := by
  simp only [stepC] at h
  simp only [stepA]
  split at h
  · cases h
  · rename_i p i hsp
    obtain ⟨x, q, hpath⟩ := splitLast_ne_nil hsp
    simp only [absState_get]
    cases hg : s.groups[a.g]? with
    | none => exact ⟨_, rfl⟩
    | some o =>
      cases o with
      | none => exact ⟨_, rfl⟩
      | some grp =>
        cases grp with
        | text t =>
          simp only [Option.map_some, absGroup, hpath, getAtP]
          exact ⟨_, rfl⟩
        | el e =>
          simp only [hg] at h
          simp only [Option.map_some, absGroup]
          split at h
          · rename_i hoff
            rw [getAt_none _ _ hoff]
            exact ⟨_, rfl⟩
          · rename_i off hoff
            rw [getAt_abs _ _ _ hoff]
            split at h
            · rename_i err2 he
              obtain ⟨err', he'⟩ := detach_path_error i p e err2 he
              have h1' : modifyAtP (fun parent => Except.map (fun x => x.fst) (removeKid i parent)) (abs e) p =
                  .error err' := he'
              simp only [h1']
              exact ⟨_, rfl⟩
            · cases h

theorem stepErr_cloneDeep (s : StateC) (a : Addr) (err : EditErr)
    (h : stepC s (.cloneDeep a) = .error err) :
    ∃ err', stepA (absState s) (.cloneDeep a) = .error err' := by
  simp only [stepC] at h
  simp only [stepA, absState_get]
  cases hg : s.groups[a.g]? with
  | none => exact ⟨_, rfl⟩
  | some o =>
    cases o with
    | none => exact ⟨_, rfl⟩
    | some grp =>
      cases grp with
      | text t =>
        simp only [hg] at h
        split at h
        · cases h
        · rename_i hp
          cases hpath : a.path with
          | nil => simp [hpath] at hp
          | cons x q =>
            simp only [Option.map_some, absGroup, getAtP]
            exact ⟨_, rfl⟩
      | el e =>
        simp only [hg] at h
        simp only [Option.map_some, absGroup]
        split at h
        · cases h
        · cases h
        · rename_i hoff
          rw [getAt_none _ _ hoff]
          exact ⟨_, rfl⟩

theorem step_error (s : StateC) (p : Prim) (err : EditErr) (h : stepC s p = .error err) :
    ∃ err', stepA (absState s) p = .error err' := by
  cases p with
  | addFollowing a src => exact stepErr_addFollowing s a src err h
  | addPreceding a src => exact stepErr_addPreceding s a src err h
  | addFirst a src => exact stepErr_addFirst s a src err h
  | detach a => exact stepErr_detach s a err h
  | setContent a str => exact stepErr_setContent s a str err h
  | merge a => exact stepErr_merge s a err h
  | newTag ns name attrs => simp [stepC] at h
  | newComment str => simp [stepC] at h
  | newPI t str => simp [stepC] at h
  | cloneDeep a => exact stepErr_cloneDeep s a err h

end Delb.Edit

import DelbModel.Lemmas.Prefixes
import Std.Data.String.ToNat
/-!
# Lemmas for the totality of `_collect_prefixes` (C13)

The only error `collect` can end with besides an assertion (excluded by `collect_spec`) is
`Err.notImplemented`, raised by `newDecl` when `findFree` has tried its `65536` candidates
`ns0`, …, `ns65535` in vain.  A candidate `ns{j}` is rejected when `ns{j}:` is a value of the
prefix map collected so far or `ns{j}` is a key of the caller's mapping.  The candidates are
pairwise different (`Nat.repr` is injective), so by the pigeonhole principle fewer than
`65536` rejections leave a free candidate.

* `findFree_eq_none_iff`                — exactly when `findFree` gives up
* `findFree_isSome`                     — the pigeonhole argument
* `findFree_genMap`, `newDecl_exhausted` — the converse boundary, for a symbolic bound
* `collectOne_total` … `collect_total`  — the loops
* `orders_sound`                        — the breadth-first traversal only meets namespaces of the tree
-/
namespace Delb.Ser

/-! ## the generated candidates -/

/-- the `j`-th candidate of `_new_namespace_declaration` (without the colon) -/
def genPrefix (j : Nat) : String := "ns" ++ natToStr j

theorem natToStr_inj {a b : Nat} (h : natToStr a = natToStr b) : a = b :=
  Nat.repr_injective h

theorem genPrefix_inj {a b : Nat} (h : genPrefix a = genPrefix b) : a = b :=
  natToStr_inj ((String.append_right_inj "ns").mp h)

theorem genPrefix_ne_xml (j : Nat) : genPrefix j ≠ "xml" ∧ genPrefix j ≠ "xmlns" := by
  constructor <;>
  · intro h
    have := congrArg String.toList h
    simp [genPrefix, String.toList_append] at this

/-! ## `findFree` -/

/-- candidate `j` is rejected -/
def Taken (nsmap m : Dict) (j : Nat) : Prop :=
  (genPrefix j ++ ":") ∈ dvalues m ∨ genPrefix j ∈ dkeys nsmap

/-- `findFree` gives up exactly when every candidate of its range is rejected -/
theorem findFree_eq_none_iff {nsmap m : Dict} : ∀ {fuel i : Nat},
    findFree nsmap m i fuel = none ↔ ∀ j, i ≤ j → j < i + fuel → Taken nsmap m j := by
  intro fuel
  induction fuel with
  | zero =>
    intro i
    simp only [findFree, true_iff]
    intro j h1 h2
    omega
  | succ fuel ih =>
    intro i
    simp only [findFree]
    split
    · rename_i hc
      simp only [Bool.and_eq_true, Bool.not_eq_eq_eq_not, Bool.not_true, Option.isNone_iff_eq_none] at hc
      constructor
      · intro h; cases h
      · intro h
        exfalso
        rcases h i (Nat.le_refl _) (by omega) with ht | ht
        · have : (dvalues m).contains ("ns" ++ natToStr i ++ ":") = true := by
            simpa [genPrefix] using ht
          rw [this] at hc
          exact absurd hc.1 (by simp)
        · rw [← dget_isSome_iff] at ht
          simp only [genPrefix] at ht
          rw [hc.2] at ht
          cases ht
    · rename_i hc
      rw [ih]
      constructor
      · intro h j h1 h2
        by_cases hj : j = i
        · subst hj
          simp only [Bool.and_eq_true, Bool.not_eq_eq_eq_not, Bool.not_true, Option.isNone_iff_eq_none,
            not_and] at hc
          by_cases hv : (genPrefix j ++ ":") ∈ dvalues m
          · exact Or.inl hv
          · right
            have h1 : (dvalues m).contains ("ns" ++ natToStr j ++ ":") = false := by
              simpa [genPrefix] using hv
            have := hc h1
            rw [← dget_isSome_iff]
            simp only [genPrefix]
            cases hd : dget nsmap ("ns" ++ natToStr j) with
            | none => exact absurd hd this
            | some _ => rfl
        · exact h j (by omega) (by omega)
      · intro h j h1 h2
        exact h j (by omega) (by omega)

theorem length_filter_add {α : Type} (p : α → Bool) (l : List α) :
    (l.filter p).length + (l.filter (fun x => !p x)).length = l.length := by
  induction l with
  | nil => rfl
  | cons a l ih =>
    cases hp : p a <;> simp [hp] <;> omega

/-- **pigeonhole**: the candidates are pairwise different, a rejected one is a value of `m`
    (with its colon) or one of the keys `K` of the caller's mapping; more candidates than
    `|m| + |K|` cannot all be rejected -/
theorem findFree_isSome {nsmap m : Dict} (K : List String)
    (hK : ∀ j, genPrefix j ∈ dkeys nsmap → genPrefix j ∈ K)
    (i fuel : Nat) (h : m.length + K.length < fuel) : (findFree nsmap m i fuel).isSome := by
  cases hf : findFree nsmap m i fuel with
  | some p => rfl
  | none =>
    exfalso
    have htaken := findFree_eq_none_iff.mp hf
    let L : List String := (List.range' i fuel).map genPrefix
    have hLnd : L.Nodup :=
      List.Pairwise.map genPrefix (fun a b hab he => hab (genPrefix_inj he)) (List.nodup_range' (s := i) (n := fuel))
    have hLlen : L.length = fuel := by simp [L]
    have hLmem : ∀ p ∈ L, ∃ j, i ≤ j ∧ j < i + fuel ∧ p = genPrefix j := by
      intro p hp
      obtain ⟨j, hj, rfl⟩ := List.mem_map.mp hp
      rw [List.mem_range'_1] at hj
      exact ⟨j, hj.1, hj.2, rfl⟩
    let inK : String → Bool := fun p => decide (p ∈ K)
    have h1 : (L.filter inK).length ≤ K.length := by
      apply List.Nodup.length_le_of_subset (List.Nodup.sublist List.filter_sublist hLnd)
      intro p hp
      have := (List.mem_filter.mp hp).2
      simpa [inK] using this
    have h2 : (L.filter (fun p => !inK p)).length ≤ m.length := by
      have hnd : ((L.filter (fun p => !inK p)).map (· ++ ":")).Nodup :=
        List.Pairwise.map _ (fun a b hab he => hab (str_append_colon_inj he))
          (List.Nodup.sublist List.filter_sublist hLnd)
      have hsub : (L.filter (fun p => !inK p)).map (· ++ ":") ⊆ dvalues m := by
        intro v hv
        obtain ⟨p, hp, rfl⟩ := List.mem_map.mp hv
        obtain ⟨hpL, hpK⟩ := List.mem_filter.mp hp
        obtain ⟨j, hj1, hj2, rfl⟩ := hLmem p hpL
        rcases htaken j hj1 hj2 with ht | ht
        · exact ht
        · exfalso
          have := hK j ht
          simp [inK, this] at hpK
      have := List.Nodup.length_le_of_subset hnd hsub
      simpa [dvalues] using this
    have := length_filter_add inK L
    omega

/-- the keys of an accepted mapping other than the two global prefixes -/
def userKeys (nsmap : Dict) : List String := ((dkeys nsmap).erase "xml").erase "xmlns"

theorem length_userKeys {nsmap : Dict} (hn : NsMapOk nsmap) :
    (userKeys nsmap).length + 2 = nsmap.length := by
  have hxml : "xml" ∈ dkeys nsmap := dget_isSome_iff.mp (by rw [hn.xml]; rfl)
  have hxmlns : "xmlns" ∈ dkeys nsmap := dget_isSome_iff.mp (by rw [hn.xmlns]; rfl)
  have h2 : "xmlns" ∈ (dkeys nsmap).erase "xml" :=
    (List.Nodup.mem_erase_iff hn.keysNodup).mpr ⟨by decide, hxmlns⟩
  have hlen : (dkeys nsmap).length = nsmap.length := by simp [dkeys]
  have hpos : 0 < (dkeys nsmap).length := List.length_pos_of_mem hxml
  have hpos2 : 0 < ((dkeys nsmap).erase "xml").length := List.length_pos_of_mem h2
  simp only [userKeys]
  rw [List.length_erase_of_mem h2, List.length_erase_of_mem hxml] at *
  omega

theorem genPrefix_mem_userKeys {nsmap : Dict} (hn : NsMapOk nsmap) (j : Nat)
    (h : genPrefix j ∈ dkeys nsmap) : genPrefix j ∈ userKeys nsmap := by
  have h1 : genPrefix j ∈ (dkeys nsmap).erase "xml" :=
    (List.Nodup.mem_erase_iff hn.keysNodup).mpr ⟨(genPrefix_ne_xml j).1, h⟩
  exact (List.Nodup.mem_erase_iff (List.Nodup.erase _ hn.keysNodup)).mpr ⟨(genPrefix_ne_xml j).2, h1⟩

/-- `_new_namespace_declaration` finds a prefix as long as the collected prefixes and the
    caller's own (non-global) prefixes together are fewer than the `65536` candidates -/
theorem newDecl_total {nsmap m : Dict} (hn : NsMapOk nsmap) (ns : String)
    (h : m.length + nsmap.length < 65538) : ∃ p, newDecl nsmap m ns = .ok (dset m ns p) := by
  have hlen := length_userKeys hn
  have := findFree_isSome (nsmap := nsmap) (m := m) (userKeys nsmap) (genPrefix_mem_userKeys hn) 0 65536
    (by omega)
  simp only [newDecl]
  cases hf : findFree nsmap m 0 65536 with
  | none => rw [hf] at this; cases this
  | some p => exact ⟨p, rfl⟩

/-! ## the converse boundary -/

/-- a caller mapping that binds the first `n` generated-looking prefixes -/
def genMap (n : Nat) : Dict := (List.range n).map (fun j => (genPrefix j, "urn:x-" ++ natToStr j))

theorem length_genMap (n : Nat) : (genMap n).length = n := by simp [genMap]

theorem genPrefix_mem_genMap {n j : Nat} (h : j < n) : genPrefix j ∈ dkeys (genMap n) := by
  simp only [dkeys, genMap, List.map_map, List.mem_map, List.mem_range]
  exact ⟨j, h, rfl⟩

/-- when the caller's mapping binds all candidates `ns0` … `ns{bound-1}`, the search with that
    bound fails, whatever has been collected: the bound `|m| + |K| < fuel` of `findFree_isSome`
    cannot be relaxed (here `|m| = 0`, `|K| = fuel`) -/
theorem findFree_genMap (pre m : Dict) (bound : Nat) :
    findFree (pre ++ genMap bound) m 0 bound = none := by
  rw [findFree_eq_none_iff]
  intro j _ hj
  right
  have := genPrefix_mem_genMap (n := bound) (j := j) (by omega)
  simp only [dkeys, List.map_append, List.mem_append] at this ⊢
  exact Or.inr this

/-- … and `_new_namespace_declaration` raises `NotImplementedError` -/
theorem newDecl_exhausted (pre m : Dict) (ns : String) :
    newDecl (pre ++ genMap 65536) m ns = .error .notImplemented := by
  simp only [newDecl, findFree_genMap]

/-- the values of `genMap` all begin with `urn:x-` -/
theorem mem_dvalues_genMap {n : Nat} {v : String} (h : v ∈ dvalues (genMap n)) :
    ∃ j, v = "urn:x-" ++ natToStr j := by
  simp only [dvalues, genMap, List.map_map, List.mem_map, List.mem_range] at h
  obtain ⟨j, _, rfl⟩ := h
  exact ⟨j, rfl⟩

theorem lookupPrefix_eq_none {d : Dict} {ns : String} (h : ns ∉ dvalues d) :
    lookupPrefix d ns = none := by
  cases hl : lookupPrefix d ns with
  | none => rfl
  | some p => exact absurd (mem_dvalues_of_mem (lookupPrefix_mem hl)) h

/-- the two global bindings followed by `ns0` … `ns{n-1}`: accepted by `Namespaces` … -/
def boundMap (n : Nat) : Dict :=
  [("xml", Gen.xmlNamespace), ("xmlns", Gen.xmlnsNamespace)] ++ genMap n

theorem length_boundMap (n : Nat) : (boundMap n).length = n + 2 := by
  simp only [boundMap, List.length_append, length_genMap, List.length_cons, List.length_nil]
  omega

theorem dkeys_boundMap (n : Nat) :
    dkeys (boundMap n) = "xml" :: "xmlns" :: (List.range n).map genPrefix := by
  simp only [boundMap, dkeys, genMap, List.map_map, List.map_cons, List.cons_append, List.nil_append]
  rfl

theorem nsMapOk_boundMap (n : Nat) : NsMapOk (boundMap n) := by
  refine ⟨?_, ?_, ?_, ?_⟩
  · rw [dkeys_boundMap]
    refine List.nodup_cons.mpr ⟨?_, List.nodup_cons.mpr ⟨?_, ?_⟩⟩
    · intro h
      rcases List.mem_cons.mp h with h | h
      · exact absurd h (by decide)
      · obtain ⟨j, _, hj⟩ := List.mem_map.mp h
        exact (genPrefix_ne_xml j).1 hj
    · intro h
      obtain ⟨j, _, hj⟩ := List.mem_map.mp h
      exact (genPrefix_ne_xml j).2 hj
    · exact List.Pairwise.map genPrefix (fun a b hab he => hab (genPrefix_inj he)) List.nodup_range
  · intro p hp
    rw [dkeys_boundMap] at hp
    rcases List.mem_cons.mp hp with hp | hp
    · subst hp; exact literal_facts.1
    · rcases List.mem_cons.mp hp with hp | hp
      · subst hp; exact literal_facts.2.1
      · obtain ⟨j, _, rfl⟩ := List.mem_map.mp hp
        exact genPrefix_no_colon j
  · simp only [boundMap, List.cons_append, dget_cons, if_true]
  · have : ¬ "xml" = "xmlns" := by decide
    simp only [boundMap, List.cons_append, dget_cons, this, if_false, if_true]

theorem not_mem_dvalues_boundMap (n : Nat) (v : String) (hv : v = "urn:r" ∨ v = "urn:a") :
    v ∉ dvalues (boundMap n) := by
  have hglob : Gen.xmlNamespace ≠ "urn:r" ∧ Gen.xmlnsNamespace ≠ "urn:r" ∧
      Gen.xmlNamespace ≠ "urn:a" ∧ Gen.xmlnsNamespace ≠ "urn:a" := by decide
  intro hm
  simp only [boundMap, dvalues, List.map_append, List.map_cons, List.map_nil, List.mem_append,
    List.mem_cons, List.not_mem_nil, or_false] at hm
  rcases hm with hm | hm
  · rcases hv with rfl | rfl <;> rcases hm with hm | hm
    · exact hglob.1 hm.symm
    · exact hglob.2.1 hm.symm
    · exact hglob.2.2.1 hm.symm
    · exact hglob.2.2.2 hm.symm
  · obtain ⟨j, hj⟩ := mem_dvalues_genMap hm
    have := congrArg String.toList hj
    rcases hv with rfl | rfl <;> simp [String.toList_append] at this

/-- a caller mapping that blocks every candidate makes `collect` fail at the first namespace that
    needs a generated prefix (the root's namespace does not: it becomes the default namespace) -/
theorem collect_notImplemented_of {nsmap : Dict} {r a : String}
    (hr : r ∉ dvalues nsmap) (ha : a ∉ dvalues nsmap) (ha0 : a ≠ "") (har : r ≠ a)
    (hnew : ∀ m x, newDecl nsmap m x = .error .notImplemented) :
    collect nsmap (.tag r "r" [⟨a, "k", []⟩] []) [[a, r]] = .error .notImplemented := by
  have hr' : (dvalues nsmap).contains r = false := by simpa using hr
  have hl : lookupPrefix nsmap a = none := lookupPrefix_eq_none ha
  have hd : dget [(r, "")] a = none := by simp [har, dget]
  have he : (a == "") = false := by simpa using ha0
  simp only [collect, rootNs, hr', collectNodes, collectMany, collectOne, hd, he, hl, hnew,
    Option.isSome_none, Bool.false_eq_true, if_false]

/-- … so with `boundMap 65536` (accepted: `nsMapOk_boundMap`) a tree with two namespaces fails -/
theorem collect_exhausted :
    collect (boundMap 65536) (.tag "urn:r" "r" [⟨"urn:a", "k", []⟩] []) [["urn:a", "urn:r"]]
      = .error .notImplemented :=
  collect_notImplemented_of (not_mem_dvalues_boundMap 65536 "urn:r" (Or.inl rfl))
    (not_mem_dvalues_boundMap 65536 "urn:a" (Or.inr rfl)) (by decide) (by decide)
    (fun m x => newDecl_exhausted _ m x)

/-! ## one namespace -/

/-- the only ways `collectOne` can fail -/
theorem collectOne_error {nsmap m : Dict} {ns : String} {e : Err}
    (h : collectOne nsmap m ns = .error e) :
    ns ∉ dkeys m ∧ ((∃ s, e = .assertion s) ∨ ∃ x, newDecl nsmap m x = .error e) := by
  unfold collectOne at h
  split at h
  · cases h
  rename_i hnone
  refine ⟨fun hk => hnone (dget_isSome_iff.mpr hk), ?_⟩
  split at h
  · split at h
    · split at h
      · rename_i e' he
        cases h
        exact Or.inr ⟨_, he⟩
      · cases h
    · cases h
  · split at h
    · exact Or.inr ⟨_, h⟩
    · split at h
      · exact Or.inr ⟨_, h⟩
      · split at h
        · split at h
          · cases h; exact Or.inl ⟨_, rfl⟩
          · cases h
        · split at h
          · cases h; exact Or.inl ⟨_, rfl⟩
          · cases h

theorem newDecl_ok {nsmap m m' : Dict} {ns : String} (h : newDecl nsmap m ns = .ok m') :
    ∃ p, m' = dset m ns p := by
  simp only [newDecl] at h
  split at h
  · cases h; exact ⟨_, rfl⟩
  · cases h

/-- `collectOne` binds at most the namespace it is called for -/
theorem collectOne_keys {nsmap m m' : Dict} {ns : String}
    (h : collectOne nsmap m ns = .ok m') : ∀ k ∈ dkeys m', k = ns ∨ k ∈ dkeys m := by
  unfold collectOne at h
  split at h
  · cases h; exact fun k hk => Or.inr hk
  have hset : ∀ v, ∀ k ∈ dkeys (dset m ns v), k = ns ∨ k ∈ dkeys m :=
    fun v k hk => (mem_dkeys_dset _ _ _ _).mp hk
  have hnew : ∀ m', newDecl nsmap m ns = .ok m' → ∀ k ∈ dkeys m', k = ns ∨ k ∈ dkeys m := by
    intro m' hm'
    obtain ⟨p, rfl⟩ := newDecl_ok hm'
    exact hset p
  split at h
  · rename_i hempty
    have hempty' : ns = "" := by simpa using hempty
    subst hempty'
    split at h
    · rename_i other x hfind
      have hother : other ∈ dkeys m := mem_dkeys_of_mem (List.mem_of_find?_eq_some hfind)
      split at h
      · cases h
      · rename_i m1 hm1
        cases h
        obtain ⟨p, rfl⟩ := newDecl_ok hm1
        intro k hk
        rcases (mem_dkeys_dset _ _ _ _).mp hk with hk | hk
        · exact Or.inl hk
        · rcases (mem_dkeys_dset _ _ _ _).mp hk with hk | hk
          · subst hk; exact Or.inr hother
          · exact Or.inr hk
    · cases h; exact hset _
  · split at h
    · exact hnew _ h
    · split at h
      · exact hnew _ h
      · split at h
        · split at h
          · cases h
          · cases h; exact hset _
        · split at h
          · cases h
          · cases h; exact hset _

/-- one step of the inner loop succeeds when — in case the namespace is new — there is room for
    one more generated prefix -/
theorem collectOne_total {nsmap m : Dict} (hn : NsMapOk nsmap) (h : Inv nsmap m) (ns : String)
    (hb : ns ∉ dkeys m → m.length + nsmap.length < 65538) :
    ∃ m', collectOne nsmap m ns = .ok m' := by
  cases hc : collectOne nsmap m ns with
  | ok m' => exact ⟨m', rfl⟩
  | error e =>
    exfalso
    obtain ⟨hnew, he⟩ := collectOne_error hc
    rcases he with ⟨s, rfl⟩ | ⟨x, hx⟩
    · exact (collectOne_spec hn h ns).1 s hc
    · obtain ⟨p, hp⟩ := newDecl_total hn (m := m) x (hb hnew)
      rw [hp] at hx
      cases hx

/-! ## the loops -/

theorem length_lt_of_missing {m : Dict} {U : List String} (hm : (dkeys m).Nodup)
    (hsub : ∀ k ∈ dkeys m, k ∈ U) {ns : String} (hU : ns ∈ U) (hns : ns ∉ dkeys m) :
    m.length < U.length := by
  have hnd : (ns :: dkeys m).Nodup := List.nodup_cons.mpr ⟨hns, hm⟩
  have hs : (ns :: dkeys m) ⊆ U := by
    intro k hk
    rcases List.mem_cons.mp hk with hk | hk
    · subst hk; exact hU
    · exact hsub k hk
  have := List.Nodup.length_le_of_subset hnd hs
  simp [dkeys] at this
  omega

/-- the inner loop: `U` is any set of namespaces that contains what has been bound and what is
    to be bound -/
theorem collectMany_total {nsmap : Dict} (hn : NsMapOk nsmap) (U : List String)
    (hU : U.length + nsmap.length ≤ 65538) :
    ∀ (nss : List String) {m : Dict}, Inv nsmap m → (∀ k ∈ dkeys m, k ∈ U) → (∀ ns ∈ nss, ns ∈ U) →
    ∃ m', collectMany nsmap m nss = .ok m' ∧ Inv nsmap m' ∧ ∀ k ∈ dkeys m', k ∈ U := by
  intro nss
  induction nss with
  | nil =>
    intro m h hsub _
    exact ⟨m, rfl, h, hsub⟩
  | cons ns rest ih =>
    intro m h hsub hnss
    have hnsU : ns ∈ U := hnss ns (by simp)
    obtain ⟨m1, hm1⟩ := collectOne_total hn h ns (by
      intro hnew
      have := length_lt_of_missing h.keysNodup hsub hnsU hnew
      omega)
    have hinv1 := ((collectOne_spec hn h ns).2 m1 hm1).1
    have hsub1 : ∀ k ∈ dkeys m1, k ∈ U := by
      intro k hk
      rcases collectOne_keys hm1 k hk with hk | hk
      · subst hk; exact hnsU
      · exact hsub k hk
    obtain ⟨m', hm', hinv', hsub'⟩ := ih hinv1 hsub1 (fun x hx => hnss x (List.mem_cons_of_mem _ hx))
    refine ⟨m', ?_, hinv', hsub'⟩
    simp only [collectMany, hm1, hm']

theorem collectNodes_total {nsmap : Dict} (hn : NsMapOk nsmap) (U : List String)
    (hU : U.length + nsmap.length ≤ 65538) :
    ∀ (orders : List (List String)) {m : Dict}, Inv nsmap m → (∀ k ∈ dkeys m, k ∈ U) →
    (∀ ns ∈ orders.flatten, ns ∈ U) →
    ∃ m', collectNodes nsmap m orders = .ok m' := by
  intro orders
  induction orders with
  | nil =>
    intro m _ _ _
    exact ⟨m, rfl⟩
  | cons nss rest ih =>
    intro m h hsub hall
    obtain ⟨m1, hm1, hinv1, hsub1⟩ := collectMany_total hn U hU nss h hsub
      (fun x hx => hall x (by rw [List.flatten_cons]; exact List.mem_append_left _ hx))
    obtain ⟨m', hm'⟩ := ih hinv1 hsub1
      (fun x hx => hall x (by rw [List.flatten_cons]; exact List.mem_append_right _ hx))
    refine ⟨m', ?_⟩
    simp only [collectNodes, hm1, hm']

/-- nothing to collect -/
theorem collectNodes_of_flatten_nil {nsmap : Dict} : ∀ (orders : List (List String)) (m : Dict),
    orders.flatten = [] → collectNodes nsmap m orders = .ok m := by
  intro orders
  induction orders with
  | nil => intro m _; rfl
  | cons nss rest ih =>
    intro m h
    rw [List.flatten_cons, List.append_eq_nil_iff] at h
    obtain ⟨h1, h2⟩ := h
    subst h1
    simp only [collectNodes, collectMany, ih m h2]

/-! ## the breadth-first traversal only meets namespaces of the tree -/

theorem nodup_dedup : ∀ (l : List String), (dedup l).Nodup := by
  intro l
  induction l with
  | nil => simp [dedup]
  | cons x xs ih =>
    simp only [dedup]
    split
    · exact ih
    · rename_i hc
      refine List.nodup_cons.mpr ⟨?_, ih⟩
      rw [mem_dedup]
      simpa using hc

theorem nodeNamespaces_sub (n : Node) : ∀ ns ∈ nodeNamespaces n, ns ∈ treeNamespaces n := by
  intro ns h
  cases n with
  | tag tns name attrs kids =>
    simp only [nodeNamespaces, mem_dedup, List.mem_cons] at h
    simp only [treeNamespaces, List.mem_cons, List.mem_append]
    rcases h with h | h
    · exact Or.inl (Or.inl h)
    · exact Or.inl (Or.inr h)
  | _ => simp [nodeNamespaces] at h

theorem kidsNamespaces_of_mem {k : Node} {ns : String} : ∀ {kids : List Node}, k ∈ kids →
    ns ∈ treeNamespaces k → ns ∈ kidsNamespaces kids := by
  intro kids
  induction kids with
  | nil => intro h; cases h
  | cons k' ks ih =>
    intro h hns
    simp only [kidsNamespaces, List.mem_append]
    rcases List.mem_cons.mp h with h | h
    · subst h; exact Or.inl hns
    · exact Or.inr (ih h hns)

theorem treeNamespaces_tagKids {t k : Node} (h : k ∈ tagKids t) :
    ∀ ns ∈ treeNamespaces k, ns ∈ treeNamespaces t := by
  intro ns hns
  cases t with
  | tag tns name attrs kids =>
    simp only [tagKids, List.mem_filter] at h
    simp only [treeNamespaces, List.mem_cons, List.mem_append]
    exact Or.inr (kidsNamespaces_of_mem h.1 hns)
  | _ => simp [tagKids] at h

theorem bfsLevels_sound (S : List String) : ∀ (fuel : Nat) (level : List Node),
    (∀ t ∈ level, ∀ ns ∈ treeNamespaces t, ns ∈ S) →
    ∀ n ∈ bfsLevels fuel level, ∀ ns ∈ nodeNamespaces n, ns ∈ S := by
  intro fuel
  induction fuel with
  | zero => intro level _ n hn; simp [bfsLevels] at hn
  | succ fuel ih =>
    intro level hl n hn ns hns
    cases level with
    | nil => simp [bfsLevels] at hn
    | cons l0 ls =>
      simp only [bfsLevels, List.mem_append] at hn
      rcases hn with hn | hn
      · exact hl n hn ns (nodeNamespaces_sub n ns hns)
      · refine ih _ ?_ n hn ns hns
        intro t ht x hx
        obtain ⟨p, hp, hp'⟩ := List.mem_flatMap.mp ht
        exact hl p hp x (treeNamespaces_tagKids hp' x hx)

theorem zip_cover_left {α β : Type} : ∀ (as : List α) (bs : List β), as.length = bs.length →
    ∀ a ∈ as, ∃ b, (a, b) ∈ List.zip as bs := by
  intro as
  induction as with
  | nil => intro bs _ a ha; cases ha
  | cons a' as ih =>
    intro bs h a ha
    cases bs with
    | nil => simp at h
    | cons b' bs =>
      simp only [List.length_cons, Nat.add_right_cancel_iff] at h
      rcases List.mem_cons.mp ha with ha | ha
      · subst ha; exact ⟨b', by simp⟩
      · obtain ⟨b, hb⟩ := ih bs h a ha
        exact ⟨b, by simp [hb]⟩

theorem orders_sound {root : Node} {orders : List (List String)}
    (ho : ordersValid root orders = true) :
    ∀ ns ∈ orders.flatten, ns ∈ treeNamespaces root := by
  intro ns hns
  obtain ⟨o, ho', hno⟩ := List.mem_flatten.mp hns
  simp only [ordersValid, Bool.and_eq_true, beq_iff_eq, List.all_eq_true] at ho
  obtain ⟨t, hz⟩ := zip_cover_left orders (bfsTags root) ho.1 o ho'
  have hp := ho.2 (o, t) hz
  simp only [isPermOf, Bool.and_eq_true, List.all_eq_true] at hp
  have hmem : ns ∈ nodeNamespaces t := by simpa using hp.1.2 ns hno
  exact bfsLevels_sound (treeNamespaces root) _ [root] (by simp) t (List.of_mem_zip hz).2 ns hmem

/-! ## `collect` -/

theorem mem_treeNamespaces_rootNs {root : Node} (h : root.isTag = true) :
    rootNs root ∈ treeNamespaces root := by
  cases root <;> simp [Node.isTag] at h
  simp [rootNs, treeNamespaces]

theorem treeNamespaces_of_not_tag {root : Node} (h : ¬ root.isTag = true) :
    treeNamespaces root = [] := by
  cases root <;> simp [Node.isTag] at h <;> simp [treeNamespaces]

/-- **totality of `_collect_prefixes`** -/
theorem collect_total {nsmap : Dict} (hn : NsMapOk nsmap) (root : Node)
    (orders : List (List String)) (ho : ordersValid root orders = true)
    (hsmall : (dedup (treeNamespaces root)).length + nsmap.length ≤ 65538) :
    ∃ m, collect nsmap root orders = .ok m := by
  have hsound := orders_sound ho
  by_cases htag : root.isTag = true
  · simp only [collect]
    apply collectNodes_total hn (dedup (treeNamespaces root)) hsmall orders (Inv.m0 nsmap (rootNs root))
    · intro k hk
      rw [mem_dedup]
      split at hk
      · simp [dkeys] at hk
      · simp only [dkeys, List.map_cons, List.map_nil, List.mem_cons, List.not_mem_nil, or_false] at hk
        subst hk
        exact mem_treeNamespaces_rootNs htag
    · intro ns hns
      rw [mem_dedup]
      exact hsound ns hns
  · have hnil : orders.flatten = [] := by
      rw [treeNamespaces_of_not_tag htag] at hsound
      cases hf : orders.flatten with
      | nil => rfl
      | cons a l => exact absurd (hsound a (by rw [hf]; simp)) (by simp)
    exact ⟨_, collectNodes_of_flatten_nil orders _ hnil⟩

end Delb.Ser

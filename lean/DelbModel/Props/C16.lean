import DelbModel.Model.XPath.Parser
import DelbModel.Lemmas.XPath
import DelbModel.Model.Cache
import DelbModel.Lemmas.Cache
import DelbModel.Generated.CacheSkeleton
/-!
# C16 — Any string is either a parsed XPath expression or an XPathParsingError

Property theorems only; helper lemmas are in `DelbModel/Lemmas/XPath.lean`.
`parse : Str → Except Err XExpr` is the line-by-line model of `tokenize`,
`group_enclosed_expressions`, `parse_location_path/step`, `parse_evaluation_expression`
and `parse`; `Err.pyError` marks every place where Python would raise something that
is not an `XPathParsingError`, `Err.outOfFuel` marks non-termination of a loop.
-/
namespace Delb.XPath

/-- generated-table obligations the theorems rely on (re-checked against /repo each run) -/
theorem c16_tables :
    Gen.tokGroups.getLast? = some "ERROR" ∧
    (∀ l ∈ Gen.tokLiterals, l.1 ≠ [] ∧ (TokType.ofName l.2).isSome) ∧
    lookupFunction "position" Gen.xpathFunctions = some (1, false) ∧
    (∀ a ∈ ["ancestor", "ancestor_or_self", "child", "descendant", "descendant_or_self",
            "following", "following_sibling", "parent", "preceding", "preceding_sibling", "self"],
        a ∈ Gen.axisAttrNames) := by
  decide

/-- the tokenizer terminates and fails only with "Unrecognized token." at an index inside
    the string -/
theorem c16_tokenize_total (s : Str) (e : Err) (h : tokenize s = .error e) :
    ∃ p, e = .parsing (some p) "Unrecognized token." ∧ p < s.length :=
  (tokenize_spec s).1 e h

/-- every token is a non-empty slice of the input at its recorded position -/
theorem c16_token_positions (s : Str) (ts : List Token) (h : tokenize s = .ok ts) :
    ∀ t ∈ ts, t.str ≠ [] ∧ (s.drop t.pos).take t.str.length = t.str ∧
      t.pos + t.str.length ≤ s.length :=
  (tokenize_spec s).2 ts h

/-- no exception type other than XPathParsingError can escape: none of the modelled
    IndexError / KeyError / AssertionError / NotImplementedError sites is reachable -/
theorem c16_no_python_error (s : Str) (kind site : String) :
    parse s ≠ .error (.pyError kind site) :=
  fun h => (parse_spec s _ h).1

/-- parsing terminates (the fuel `parse` hands to the recursive-descent parts suffices) -/
theorem c16_terminates (s : Str) : parse s ≠ .error .outOfFuel :=
  fun h => (parse_spec s _ h).1

/-- an error always carries a position (the `except` clause of `parse` fills in 0) -/
theorem c16_position_set (s : Str) (msg : String) : parse s ≠ .error (.parsing none msg) :=
  fun h => (parse_spec s _ h).2 msg rfl

/-- … and that position lies inside the expression -/
theorem c16_position_inside (s : Str) (p : Nat) (msg : String) :
    (parse s = .error (.parsing (some p) msg) ∨ parse s = .error (.unsupported p msg)) →
    p ≤ s.length := by
  rintro (h | h) <;> exact (parse_spec s _ h).1

/-- summary: every string is either an expression or a parsing error with a position inside it -/
theorem c16_total (s : Str) :
    (∃ x, parse s = .ok x) ∨
    (∃ p msg, p ≤ s.length ∧
      (parse s = .error (.parsing (some p) msg) ∨ parse s = .error (.unsupported p msg))) := by
  cases h : parse s with
  | ok x => exact Or.inl ⟨x, rfl⟩
  | error e =>
    obtain ⟨h1, h2⟩ := parse_spec s e h
    cases e with
    | parsing pos msg =>
      cases pos with
      | none => exact absurd rfl (h2 msg)
      | some p => exact Or.inr ⟨p, msg, h1, Or.inl rfl⟩
    | unsupported p msg => exact Or.inr ⟨p, msg, h1, Or.inr rfl⟩
    | pyError kind site => exact h1.elim
    | outOfFuel => exact h1.elim

/-! ## "cached and freshly parsed expressions are equal and evaluate identically"

`tokenize`, `parse` and `_css_to_xpath` sit behind `functools.lru_cache`.  Two things make that
unobservable: the cache only ever hands out what the function returns for that key (theorems over
`Model/Cache.lean`, for every history of calls and `cache_clear()`s, every `maxsize`, starting from
the empty cache), and the shared objects it hands out are never changed after construction
(translator obligations over `Generated/CacheSkeleton.lean`, re-derived from /repo on every run). -/

/-- translator obligation: every memoised function of the XPath package changes nothing it
    receives or sees (it is a function of its key) -/
theorem c16_cache_sites :
    Gen.cachedFunctions ≠ [] ∧ ∀ c ∈ Gen.cachedFunctions, c.objectsMutated = 0 := by
  decide

/-- translator obligation: outside the constructors no function of `_delb/xpath/ast.py` - memoised
    properties included - stores into an expression object (or into anything else it did not create
    itself), and constructors store into `self` only.  (Names are not fixed: renaming a method or a
    property does not touch this obligation; the table must not be empty.) -/
theorem c16_ast_immutable :
    (∀ m ∈ Gen.astMethods, m.isConstructor = false → m.selfMutations = 0 ∧ m.foreignMutations = 0) ∧
    (∀ m ∈ Gen.astMethods, m.isConstructor = true → m.foreignMutations = 0) ∧
    20 ≤ Gen.astMethods.length ∧ (∃ m ∈ Gen.astMethods, m.isConstructor = true) := by
  decide

/-- translator obligation: no function of the tokenizer and the parser stores into anything it did
    not create itself (outside constructors) - the token lists and expressions that the caches hand
    out are not altered by a later parse that receives them -/
theorem c16_pipeline_pure :
    Gen.pipelineFunctions ≠ [] ∧
    ∀ m ∈ Gen.pipelineFunctions, m.foreignMutations = 0 ∧ (m.isConstructor = false → m.selfMutations = 0) := by
  decide

open Delb.Cache in
/-- an lru cache in front of a function is unobservable: whatever was called or cleared before,
    with any `maxsize`, every call answers what the function itself answers (results *and*
    errors; errors are never stored) -/
theorem c16_cache_transparent {K V E : Type} [DecidableEq K] (f : K → Except E V) (maxsize : Nat)
    (ops : List (Op K)) : (run f maxsize [] ops).1 = runUncached f ops :=
  (run_answers f maxsize ops [] (fun _ _ h => by cases h)).1

open Delb.Cache in
/-- the invariant behind it, for every reachable cache: each stored pair is a value of the function -/
theorem c16_cache_sound {K V E : Type} [DecidableEq K] (f : K → Except E V) (maxsize : Nat)
    (ops : List (Op K)) : Sound f (run f maxsize [] ops).2 :=
  (run_answers f maxsize ops [] (fun _ _ h => by cases h)).2

open Delb.Cache in
/-- … and it never holds more than `maxsize` entries -/
theorem c16_cache_bounded {K V E : Type} [DecidableEq K] (f : K → Except E V) (maxsize : Nat)
    (hm : 0 < maxsize) (ops : List (Op K)) : (run f maxsize [] ops).2.length ≤ maxsize :=
  run_bounded f maxsize hm ops [] (Nat.zero_le _)

open Delb.Cache in
/-- instance for the parser: after any history of parses and cache clears, parsing a string gives
    what a fresh parse of that string gives -/
theorem c16_cached_parse_is_fresh (maxsize : Nat) (before : List (Op Str)) (s : Str) :
    ((run parse maxsize [] (before ++ [.call s])).1).getLast? = some (parse s) := by
  rw [c16_cache_transparent]
  induction before with
  | nil => rfl
  | cons op rest ih =>
    cases op with
    | call k =>
      simp only [List.cons_append, runUncached]
      cases hr : runUncached parse (rest ++ [Op.call s]) with
      | nil => rw [hr] at ih; cases ih
      | cons a as => rw [hr] at ih; simpa [List.getLast?_cons_cons] using ih
    | clear => simpa only [List.cons_append, runUncached] using ih

/-- non-vacuity: a cache of size 1, a hit, an eviction and an error that is not stored -/
example :
    Delb.Cache.run (fun n : Nat => if n = 3 then (Except.error "three" : Except String Nat) else .ok (n * 2)) 1 []
        [.call 1, .call 1, .call 3, .call 2, .call 1, .clear, .call 2] =
      ([.ok 2, .ok 2, .error "three", .ok 4, .ok 2, .ok 4], [(2, 4)]) := by rfl

end Delb.XPath

import DelbModel.Model.XPath.Parser
import DelbModel.Lemmas.XPath
/-!
# C16 — Any string is either a parsed XPath expression or an XPathParsingError

Property theorems only; helper lemmas are in `DelbModel/Lemmas/XPath.lean`.
`parse : Str → Except Err XExpr` is the line-by-line model of `tokenize`,
`group_enclosed_expressions`, `parse_location_path/step`, `parse_evaluation_expression`
and `parse`; `Err.pyError` marks every place where Python would raise something that
is not an `XPathParsingError`, `Err.outOfFuel` marks non-termination of a loop.
-/
namespace Delb.XPath

/-- generated-table obligations the theorems rely on (re-checked against /repo each run) -/
theorem c16_tables :
    Gen.tokGroups.getLast? = some "ERROR" ∧
    (∀ l ∈ Gen.tokLiterals, l.1 ≠ [] ∧ (TokType.ofName l.2).isSome) ∧
    lookupFunction "position" Gen.xpathFunctions = some (1, false) ∧
    (∀ a ∈ ["ancestor", "ancestor_or_self", "child", "descendant", "descendant_or_self",
            "following", "following_sibling", "parent", "preceding", "preceding_sibling", "self"],
        a ∈ Gen.axisAttrNames) := by
  decide

/-- the tokenizer terminates and fails only with "Unrecognized token." at an index inside
    the string -/
theorem c16_tokenize_total (s : Str) (e : Err) (h : tokenize s = .error e) :
    ∃ p, e = .parsing (some p) "Unrecognized token." ∧ p < s.length :=
  (tokenize_spec s).1 e h

/-- every token is a non-empty slice of the input at its recorded position -/
theorem c16_token_positions (s : Str) (ts : List Token) (h : tokenize s = .ok ts) :
    ∀ t ∈ ts, t.str ≠ [] ∧ (s.drop t.pos).take t.str.length = t.str ∧
      t.pos + t.str.length ≤ s.length :=
  (tokenize_spec s).2 ts h

/-- no exception type other than XPathParsingError can escape: none of the modelled
    IndexError / KeyError / AssertionError / NotImplementedError sites is reachable -/
theorem c16_no_python_error (s : Str) (kind site : String) :
    parse s ≠ .error (.pyError kind site) :=
  fun h => (parse_spec s _ h).1

/-- parsing terminates (the fuel `parse` hands to the recursive-descent parts suffices) -/
theorem c16_terminates (s : Str) : parse s ≠ .error .outOfFuel :=
  fun h => (parse_spec s _ h).1

/-- an error always carries a position (the `except` clause of `parse` fills in 0) -/
theorem c16_position_set (s : Str) (msg : String) : parse s ≠ .error (.parsing none msg) :=
  fun h => (parse_spec s _ h).2 msg rfl

/-- … and that position lies inside the expression -/
theorem c16_position_inside (s : Str) (p : Nat) (msg : String) :
    (parse s = .error (.parsing (some p) msg) ∨ parse s = .error (.unsupported p msg)) →
    p ≤ s.length := by
  rintro (h | h) <;> exact (parse_spec s _ h).1

/-- summary: every string is either an expression or a parsing error with a position inside it -/
theorem c16_total (s : Str) :
    (∃ x, parse s = .ok x) ∨
    (∃ p msg, p ≤ s.length ∧
      (parse s = .error (.parsing (some p) msg) ∨ parse s = .error (.unsupported p msg))) := by
  cases h : parse s with
  | ok x => exact Or.inl ⟨x, rfl⟩
  | error e =>
    obtain ⟨h1, h2⟩ := parse_spec s e h
    cases e with
    | parsing pos msg =>
      cases pos with
      | none => exact absurd rfl (h2 msg)
      | some p => exact Or.inr ⟨p, msg, h1, Or.inl rfl⟩
    | unsupported p msg => exact Or.inr ⟨p, msg, h1, Or.inr rfl⟩
    | pyError kind site => exact h1.elim
    | outOfFuel => exact h1.elim

end Delb.XPath

import DelbModel.Model.XPath.Create
import DelbModel.Model.Clone
import DelbModel.Lemmas.XPathEval
import DelbModel.Lemmas.Create
/-!
# C15 — fetch_or_create_by_xpath finds or adds, and nothing else

Property theorems only; helper lemmas are in `DelbModel/Lemmas/Create.lean`.
-/
namespace Delb.XPath
open Delb.Edit

/-- expressions that do not determine a single branch are rejected, the tree stays as it is
    (a rejection returns no tree at all) -/
theorem c15_rejected (root : PTree) (n : Nat) (envQ envC : NsEnv) (ctx : List Nat) (x : XExpr)
    (h : locatable x = false) : fetchOrCreate root n envQ envC ctx x = .error .valueError := by
  simp [fetchOrCreate, h]

/-- a single existing match is returned and nothing changes -/
theorem c15_found (root : PTree) (n : Nat) (envQ envC : NsEnv) (ctx : List Nat) (x : XExpr) (r : XNode)
    (hl : locatable x = true) (hq : evaluate root envQ ctx x = .ok [r]) :
    fetchOrCreate root n envQ envC ctx x = .ok (root, r, n) := by
  simp [fetchOrCreate, hl, hq]

/-- several matches: AmbiguousTreeError, nothing changes -/
theorem c15_ambiguous (root : PTree) (n : Nat) (envQ envC : NsEnv) (ctx : List Nat) (x : XExpr)
    (a b : XNode) (rest : List XNode) (hl : locatable x = true) (hq : evaluate root envQ ctx x = .ok (a :: b :: rest)) :
    fetchOrCreate root n envQ envC ctx x = .error .ambiguous := by
  simp [fetchOrCreate, hl, hq]

mutual
  /-- the tree without the nodes whose identity is `≥ n` (i.e. without what a call added) -/
  def removeNew (n : Nat) : PTree → PTree
    | .tag i ns name a ks => .tag i ns name a (removeNewList n ks)
    | t => t
  def removeNewList (n : Nat) : List PTree → List PTree
    | [] => []
    | k :: ks => if k.id ≥ n then removeNewList n ks else removeNew n k :: removeNewList n ks
end

/-- whatever the call adds, every node that existed before keeps its parent, relative position,
    content and attributes: deleting the new nodes gives the old tree back -/
theorem c15_old_nodes_untouched (root root' : PTree) (n n' : Nat) (envQ envC : NsEnv) (ctx : List Nat)
    (x : XExpr) (r : XNode) (hids : ∀ i ∈ Clone.idsOf root, i < n)
    (h : fetchOrCreate root n envQ envC ctx x = .ok (root', r, n')) :
    removeNew n root' = root ∧ n ≤ n' :=
  fetchOrCreate_untouched (f := removeNew n) (g := removeNewList n)
    ⟨fun _ _ _ _ _ => by simp [removeNew], fun _ _ => by simp [removeNew], fun _ _ => by simp [removeNew],
     fun _ _ _ => by simp [removeNew], by simp [removeNewList], fun _ _ => by simp [removeNewList]⟩
    root root' n' envQ envC ctx x r hids h

/-- the attribute equalities of each step do not contradict each other -/
def consistentStep (s : Step) : Prop :=
  ∀ a b, a ∈ stepAttrs s → b ∈ stepAttrs s → a.1 = b.1 → a.2.1 = b.2.1 → a.2.2 = b.2.2

/- FALSE as stated (`c15_created_is_selected`, and with it `c15_idempotent`); the original statements:

theorem c15_created_is_selected (root root' : PTree) (n n' : Nat) (env : NsEnv) (ctx : List Nat)
    (p : Path) (r : XNode) (hc : ∀ s ∈ p.steps, consistentStep s)
    (hctx : tagPath root ctx = true) (hids : ∀ i ∈ Clone.idsOf root, i < n)
    (h : fetchOrCreate root n env env ctx [p] = .ok (root', r, n')) :
    evaluate root' env ctx [p] = .ok [r]

theorem c15_idempotent (root root' : PTree) (n n' : Nat) (env : NsEnv) (ctx : List Nat)
    (p : Path) (r : XNode) (hc : ∀ s ∈ p.steps, consistentStep s)
    (hctx : tagPath root ctx = true) (hids : ∀ i ∈ Clone.idsOf root, i < n)
    (h : fetchOrCreate root n env env ctx [p] = .ok (root', r, n')) :
    fetchOrCreate root' n' env env ctx [p] = .ok (root', r, n')

-- FALSE: root = <r/> (`.tag 0 "" "r" [] []`), n = 1, ctx = [], and
--  (1) env = [], p = `x:a` (`.name (some "x") "a"`, no predicates): a step without candidates never looks
--      at its prefix, the call creates `<a/>` (no namespace) and returns `.at [0]`; the re-query now has a
--      candidate and raises `unknownPrefix "x"`.  Same for `a[@x:k="v"]`: the attribute `k` is created
--      without namespace, the re-query raises.
--  (2) env = [("x","u"), ("y","u")], p = `a[@x:k="1" and @y:k="2"]`: `consistentStep` holds (the
--      prefixes differ), both equalities set the attribute `{u}k`, the later one wins, the re-query
--      yields `[]`, and a second call appends a second `<a/>` (returns `.at [1]`).
-- What is missing are hypotheses of the statement (the algorithm is as the library's): every prefix in
-- the path is bound in `env` (`stepPrefixesBound`), and the attribute equalities are consistent after
-- prefix resolution (`consistentStepIn`, which implies `consistentStep`: `consistentStep_of_in`).
-- `hctx` and `hids` are not needed.
-/

/-- `consistentStepIn` (attribute names compared after prefix resolution) is the stronger notion -/
theorem c15_consistentStepIn_consistentStep (env : NsEnv) (s : Step) (h : consistentStepIn env s) :
    consistentStep s := consistentStep_of_in env s h

/-- after a successful call the same expression selects exactly the returned node, provided the
    prefixes of the path are bound and the attribute equalities are consistent as expanded names -/
theorem c15_created_is_selected_partial (root root' : PTree) (n n' : Nat) (env : NsEnv) (ctx : List Nat)
    (p : Path) (r : XNode) (hp : ∀ s ∈ p.steps, stepPrefixesBound env s = true)
    (hc : ∀ s ∈ p.steps, consistentStepIn env s)
    (h : fetchOrCreate root n env env ctx [p] = .ok (root', r, n')) :
    evaluate root' env ctx [p] = .ok [r] :=
  fetchOrCreate_selected root root' n n' env ctx p r hp hc h

/-- hence a second call returns the same node and changes nothing -/
theorem c15_idempotent_partial (root root' : PTree) (n n' : Nat) (env : NsEnv) (ctx : List Nat)
    (p : Path) (r : XNode) (hp : ∀ s ∈ p.steps, stepPrefixesBound env s = true)
    (hc : ∀ s ∈ p.steps, consistentStepIn env s)
    (h : fetchOrCreate root n env env ctx [p] = .ok (root', r, n')) :
    fetchOrCreate root' n' env env ctx [p] = .ok (root', r, n') :=
  c15_found root' n' env env ctx [p] r (locatable_of_ok h)
    (fetchOrCreate_selected root root' n n' env ctx p r hp hc h)

/-- non-vacuity: `a/b[@k="v"]` below `<r><a/></r>` creates `<b k="v"/>` under the existing `a` -/
example : (fetchOrCreate (.tag 0 "" "r" [] [.tag 1 "" "a" [] []]) 2 [("", "")] [("", "")] []
    [{ absolute := false, steps := [
        { axis := "child", test := .name none "a".toList, preds := [] },
        { axis := "child", test := .name none "b".toList,
          preds := [.binop "=" (.attrVal none "k".toList) (.str "v".toList)] }] }]).toOption.map (·.2.1)
    = some (.at [0, 0]) := by rfl

end Delb.XPath

import DelbModel.Model.XPath.Create
import DelbModel.Model.Clone
import DelbModel.Lemmas.XPathEval
import DelbModel.Lemmas.Create
/-!
# C15 — fetch_or_create_by_xpath finds or adds, and nothing else

Property theorems only; helper lemmas are in `DelbModel/Lemmas/Create.lean`.
-/
namespace Delb.XPath
open Delb.Edit

/-- expressions that do not determine a single branch are rejected, the tree stays as it is
    (a rejection returns no tree at all) -/
theorem c15_rejected (root : PTree) (n : Nat) (envQ envC : NsEnv) (ctx : List Nat) (x : XExpr)
    (h : locatable x = false) : fetchOrCreate root n envQ envC ctx x = .error .valueError := by
  simp [fetchOrCreate, h]

/-- a single existing match is returned and nothing changes -/
theorem c15_found (root : PTree) (n : Nat) (envQ envC : NsEnv) (ctx : List Nat) (x : XExpr) (r : XNode)
    (hl : locatable x = true) (hq : evaluate root envQ ctx x = .ok [r]) :
    fetchOrCreate root n envQ envC ctx x = .ok (root, r, n) := by
  simp [fetchOrCreate, hl, hq]

/-- several matches: AmbiguousTreeError, nothing changes -/
theorem c15_ambiguous (root : PTree) (n : Nat) (envQ envC : NsEnv) (ctx : List Nat) (x : XExpr)
    (a b : XNode) (rest : List XNode) (hl : locatable x = true) (hq : evaluate root envQ ctx x = .ok (a :: b :: rest)) :
    fetchOrCreate root n envQ envC ctx x = .error .ambiguous := by
  simp [fetchOrCreate, hl, hq]

mutual
  /-- the tree without the nodes whose identity is `≥ n` (i.e. without what a call added) -/
  def removeNew (n : Nat) : PTree → PTree
    | .tag i ns name a ks => .tag i ns name a (removeNewList n ks)
    | t => t
  def removeNewList (n : Nat) : List PTree → List PTree
    | [] => []
    | k :: ks => if k.id ≥ n then removeNewList n ks else removeNew n k :: removeNewList n ks
end

/-- whatever the call adds, every node that existed before keeps its parent, relative position,
    content and attributes: deleting the new nodes gives the old tree back -/
theorem c15_old_nodes_untouched (root root' : PTree) (n n' : Nat) (envQ envC : NsEnv) (ctx : List Nat)
    (x : XExpr) (r : XNode) (hids : ∀ i ∈ Clone.idsOf root, i < n)
    (h : fetchOrCreate root n envQ envC ctx x = .ok (root', r, n')) :
    removeNew n root' = root ∧ n ≤ n' :=
  fetchOrCreate_untouched (f := removeNew n) (g := removeNewList n)
    ⟨fun _ _ _ _ _ => by simp [removeNew], fun _ _ => by simp [removeNew], fun _ _ => by simp [removeNew],
     fun _ _ _ => by simp [removeNew], by simp [removeNewList], fun _ _ => by simp [removeNewList]⟩
    root root' n' envQ envC ctx x r hids h

/-- the attribute equalities of each step do not contradict each other -/
def consistentStep (s : Step) : Prop :=
  ∀ a b, a ∈ stepAttrs s → b ∈ stepAttrs s → a.1 = b.1 → a.2.1 = b.2.1 → a.2.2 = b.2.2

/- History of `c15_created_is_selected` / `c15_idempotent`, with root = <r/> (`.tag 0 "" "r" [] []`), n = 1,
   ctx = []:
--  (1) before the library checked prefixes up front, env = [], p = `x:a` (`.name (some "x") "a"`, no
--      predicates) was a counterexample to both: a step without candidates never looks at its prefix, the
--      call created `<a/>` (no namespace) and returned `.at [0]`; the re-query then had a candidate and
--      raised `unknownPrefix "x"`.  Same for `a[@x:k="v"]`: the attribute `k` was created without
--      namespace, the re-query raised.  That made the hypothesis `stepPrefixesBound` (every prefix of the
--      path is bound in `env`) necessary; the `_partial` theorems below still carry it.  Now such a call is
--      rejected before anything is created (`c15_unbound_prefix_rejected`), and the hypothesis is derived
--      from the success of the call (`stepPrefixesBound_of_checked`).
--  (2) env = [("x","u"), ("y","u")], p = `a[@x:k="1" and @y:k="2"]` is still a counterexample when the
--      attribute equalities are only required to be consistent per (prefix, local name)
--      (`consistentStep`, which holds here: the prefixes differ): both equalities set the attribute `{u}k`,
--      the later one wins, the re-query yields `[]`, and a second call appends a second `<a/>` (returns
--      `.at [1]`).  Hence the hypothesis `consistentStepIn`: the attribute equalities are consistent after
--      prefix resolution (it implies `consistentStep`: `consistentStep_of_in`).
-/

/-- `consistentStepIn` (attribute names compared after prefix resolution) is the stronger notion -/
theorem c15_consistentStepIn_consistentStep (env : NsEnv) (s : Step) (h : consistentStepIn env s) :
    consistentStep s := consistentStep_of_in env s h

/-- after a successful call the same expression selects exactly the returned node, provided the
    prefixes of the path are bound and the attribute equalities are consistent as expanded names -/
theorem c15_created_is_selected_partial (root root' : PTree) (n n' : Nat) (env : NsEnv) (ctx : List Nat)
    (p : Path) (r : XNode) (hp : ∀ s ∈ p.steps, stepPrefixesBound env s = true)
    (hc : ∀ s ∈ p.steps, consistentStepIn env s)
    (h : fetchOrCreate root n env env ctx [p] = .ok (root', r, n')) :
    evaluate root' env ctx [p] = .ok [r] :=
  fetchOrCreate_selected root root' n n' env ctx p r hp hc h

/-- hence a second call returns the same node and changes nothing -/
theorem c15_idempotent_partial (root root' : PTree) (n n' : Nat) (env : NsEnv) (ctx : List Nat)
    (p : Path) (r : XNode) (hp : ∀ s ∈ p.steps, stepPrefixesBound env s = true)
    (hc : ∀ s ∈ p.steps, consistentStepIn env s)
    (h : fetchOrCreate root n env env ctx [p] = .ok (root', r, n')) :
    fetchOrCreate root' n' env env ctx [p] = .ok (root', r, n') :=
  c15_found root' n' env env ctx [p] r (locatable_of_ok h)
    (fetchOrCreate_selected root root' n n' env ctx p r hp hc h)

/-- a prefix that the mapping does not bind is reported before anything is created: when the query finds
    nothing and some step names an unbound prefix (name test or derived attribute), the call ends with an
    evaluation error - and an error returns no tree, the tree stays as it is -/
theorem c15_unbound_prefix_rejected (root : PTree) (n : Nat) (envQ envC : NsEnv) (ctx : List Nat) (p : Path)
    (hl : locatable [p] = true) (hq : evaluate root envQ ctx [p] = .ok [])
    (hu : p.steps.flatMap (unboundPrefixes envC) ≠ []) :
    ∃ q, fetchOrCreate root n envQ envC ctx [p] = .error (.eval (.unknownPrefix q)) :=
  fetchOrCreate_unbound root n envQ envC ctx p hl hq hu

/- FALSE as stated (`c15_created_is_selected`, and with it `c15_idempotent`), but only for syntax trees the
   parser never produces; the statements:

theorem c15_created_is_selected (root root' : PTree) (n n' : Nat) (env : NsEnv) (ctx : List Nat)
    (p : Path) (r : XNode) (hc : ∀ s ∈ p.steps, consistentStepIn env s)
    (h : fetchOrCreate root n env env ctx [p] = .ok (root', r, n')) :
    evaluate root' env ctx [p] = .ok [r]

theorem c15_idempotent (root root' : PTree) (n n' : Nat) (env : NsEnv) (ctx : List Nat)
    (p : Path) (r : XNode) (hc : ∀ s ∈ p.steps, consistentStepIn env s)
    (h : fetchOrCreate root n env env ctx [p] = .ok (root', r, n')) :
    fetchOrCreate root' n' env env ctx [p] = .ok (root', r, n')

-- FALSE: a prefix that is present but empty (`some []`) passes the up-front check, which skips empty
-- prefixes (`if prefix and prefix not in namespaces`), while the query looks the empty prefix up
-- (`ensure_prefix`, `namespaces.get(prefix)`).  With root = <r/> (`.tag 0 "" "r" [] []`), n = 1, ctx = []:
--  (a) env = [], p = `.name (some []) "a"` without predicates: the call creates `<a/>` and returns `.at [0]`,
--      the re-query raises `unknownPrefix ""`;
--  (b) env = [("", "u")], p = `a[@k="v"]` with the attribute test `.attrVal (some []) "k"`: the call creates
--      `<{u}a k="v"/>` (the attribute in no namespace), the re-query looks for `{u}k`, finds nothing, and
--      a second call appends a second element (returns `.at [1]`).
-- Both are checked below (`example`s).  The parser takes every prefix from a NAME token, which is never
-- empty, so no parsed expression contains `some []`; the `_noempty_partial` theorems assume exactly that
-- (`stepNoEmptyPrefix`, decidable and independent of the mapping).
-/

/-- counterexample (a) -/
example :
    let p : Path := { absolute := false, steps := [{ axis := "child", test := .name (some []) "a".toList, preds := [] }] }
    let t' : PTree := .tag 0 "" "r" [] [.tag 1 "" "a" [] []]
    fetchOrCreate (.tag 0 "" "r" [] []) 1 [] [] [] [p] = .ok (t', .at [0], 2) ∧
      evaluate t' [] [] [p] = .error (.unknownPrefix "") := by
  exact ⟨rfl, rfl⟩

/-- counterexample (b) -/
example :
    let e : Expr := .binop "=" (.attrVal (some []) "k".toList) (.str "v".toList)
    let p : Path := { absolute := false, steps := [{ axis := "child", test := .name none "a".toList, preds := [e] }] }
    let a (i : Nat) : PTree := .tag i "u" "a" [{ ns := "", name := "k", value := "v".toList }] []
    let env : NsEnv := [("", "u")]
    (∀ s ∈ p.steps, consistentStepIn env s) ∧
    fetchOrCreate (.tag 0 "" "r" [] []) 1 env env [] [p] = .ok (.tag 0 "" "r" [] [a 1], .at [0], 2) ∧
      evaluate (.tag 0 "" "r" [] [a 1]) env [] [p] = .ok [] ∧
      fetchOrCreate (.tag 0 "" "r" [] [a 1]) 2 env env [] [p] = .ok (.tag 0 "" "r" [] [a 1, a 2], .at [1], 3) := by
  refine ⟨?_, rfl, rfl, rfl⟩
  intro s hs a b ha hb _ _
  simp only [List.mem_singleton] at hs
  subst hs
  simp [stepAttrs, derivedAttrs] at ha hb
  rw [ha, hb]

/-- with that check in place, a successful call needs no hypothesis on the bindings any more: after it the
    same expression selects exactly the returned node, provided the attribute equalities are consistent as
    expanded names (the property's "non-contradictory attribute-equality predicates") and no prefix is
    present but empty (true of every parsed expression) -/
theorem c15_created_is_selected_noempty_partial (root root' : PTree) (n n' : Nat) (env : NsEnv)
    (ctx : List Nat) (p : Path) (r : XNode) (hne : ∀ s ∈ p.steps, stepNoEmptyPrefix s = true)
    (hc : ∀ s ∈ p.steps, consistentStepIn env s)
    (h : fetchOrCreate root n env env ctx [p] = .ok (root', r, n')) :
    evaluate root' env ctx [p] = .ok [r] :=
  fetchOrCreate_selected_checked root root' n n' env ctx p r hne hc h

/-- hence a second call returns the same node and changes nothing -/
theorem c15_idempotent_noempty_partial (root root' : PTree) (n n' : Nat) (env : NsEnv) (ctx : List Nat)
    (p : Path) (r : XNode) (hne : ∀ s ∈ p.steps, stepNoEmptyPrefix s = true)
    (hc : ∀ s ∈ p.steps, consistentStepIn env s)
    (h : fetchOrCreate root n env env ctx [p] = .ok (root', r, n')) :
    fetchOrCreate root' n' env env ctx [p] = .ok (root', r, n') :=
  c15_found root' n' env env ctx [p] r (locatable_of_ok h)
    (fetchOrCreate_selected_checked root root' n n' env ctx p r hne hc h)

/-- non-vacuity: `a/b[@k="v"]` below `<r><a/></r>` creates `<b k="v"/>` under the existing `a` -/
example : (fetchOrCreate (.tag 0 "" "r" [] [.tag 1 "" "a" [] []]) 2 [("", "")] [("", "")] []
    [{ absolute := false, steps := [
        { axis := "child", test := .name none "a".toList, preds := [] },
        { axis := "child", test := .name none "b".toList,
          preds := [.binop "=" (.attrVal none "k".toList) (.str "v".toList)] }] }]).toOption.map (·.2.1)
    = some (.at [0, 0]) := by rfl

end Delb.XPath

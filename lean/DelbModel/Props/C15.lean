import DelbModel.Model.XPath.Create
import DelbModel.Model.Clone
import DelbModel.Lemmas.XPathEval
import DelbModel.Lemmas.Create
/-!
# C15 — fetch_or_create_by_xpath finds or adds, and nothing else

Property theorems only; helper lemmas are in `DelbModel/Lemmas/Create.lean`.
-/
namespace Delb.XPath
open Delb.Edit

/-- expressions that do not determine a single branch are rejected, the tree stays as it is
    (a rejection returns no tree at all) -/
theorem c15_rejected (root : PTree) (n : Nat) (envQ envC : NsEnv) (ctx : List Nat) (x : XExpr)
    (h : locatable x = false) : fetchOrCreate root n envQ envC ctx x = .error .valueError := by
  simp [fetchOrCreate, h]

/-- a single existing match is returned and nothing changes -/
theorem c15_found (root : PTree) (n : Nat) (envQ envC : NsEnv) (ctx : List Nat) (x : XExpr) (r : XNode)
    (hl : locatable x = true) (hq : evaluate root envQ ctx x = .ok [r]) :
    fetchOrCreate root n envQ envC ctx x = .ok (root, r, n) := by
  simp [fetchOrCreate, hl, hq]

/-- several matches: AmbiguousTreeError, nothing changes -/
theorem c15_ambiguous (root : PTree) (n : Nat) (envQ envC : NsEnv) (ctx : List Nat) (x : XExpr)
    (a b : XNode) (rest : List XNode) (hl : locatable x = true) (hq : evaluate root envQ ctx x = .ok (a :: b :: rest)) :
    fetchOrCreate root n envQ envC ctx x = .error .ambiguous := by
  simp [fetchOrCreate, hl, hq]

mutual
  /-- the tree without the nodes whose identity is `≥ n` (i.e. without what a call added) -/
  def removeNew (n : Nat) : PTree → PTree
    | .tag i ns name a ks => .tag i ns name a (removeNewList n ks)
    | t => t
  def removeNewList (n : Nat) : List PTree → List PTree
    | [] => []
    | k :: ks => if k.id ≥ n then removeNewList n ks else removeNew n k :: removeNewList n ks
end

/-- whatever the call adds, every node that existed before keeps its parent, relative position,
    content and attributes: deleting the new nodes gives the old tree back -/
theorem c15_old_nodes_untouched (root root' : PTree) (n n' : Nat) (envQ envC : NsEnv) (ctx : List Nat)
    (x : XExpr) (r : XNode) (hids : ∀ i ∈ Clone.idsOf root, i < n)
    (h : fetchOrCreate root n envQ envC ctx x = .ok (root', r, n')) :
    removeNew n root' = root ∧ n ≤ n' :=
  fetchOrCreate_untouched (f := removeNew n) (g := removeNewList n)
    ⟨fun _ _ _ _ _ => by simp [removeNew], fun _ _ => by simp [removeNew], fun _ _ => by simp [removeNew],
     fun _ _ _ => by simp [removeNew], by simp [removeNewList], fun _ _ => by simp [removeNewList]⟩
    root root' n' envQ envC ctx x r hids h

/-- the attribute equalities of each step do not contradict each other -/
def consistentStep (s : Step) : Prop :=
  ∀ a b, a ∈ stepAttrs s → b ∈ stepAttrs s → a.1 = b.1 → a.2.1 = b.2.1 → a.2.2 = b.2.2

/- History of `c15_created_is_selected` / `c15_idempotent`, with root = <r/> (`.tag 0 "" "r" [] []`), n = 1,
   ctx = []:
--  (1) before the library checked prefixes up front, env = [], p = `x:a` (`.name (some "x") "a"`, no
--      predicates) was a counterexample to both: a step without candidates never looks at its prefix, the
--      call created `<a/>` (no namespace) and returned `.at [0]`; the re-query then had a candidate and
--      raised `unknownPrefix "x"`.  Same for `a[@x:k="v"]`: the attribute `k` was created without
--      namespace, the re-query raised.  That made the hypothesis `stepPrefixesBound` (every prefix of the
--      path is bound in `env`) necessary; the `_partial` theorems below still carry it.  Now such a call is
--      rejected before anything is created (`c15_unbound_prefix_rejected`), and the hypothesis is derived
--      from the success of the call (`stepPrefixesBound_of_checked`).
--  (2) env = [("x","u"), ("y","u")], p = `a[@x:k="1" and @y:k="2"]` is still a counterexample when the
--      attribute equalities are only required to be consistent per (prefix, local name)
--      (`consistentStep`, which holds here: the prefixes differ): both equalities set the attribute `{u}k`,
--      the later one wins, the re-query yields `[]`, and a second call appends a second `<a/>` (returns
--      `.at [1]`).  Hence the hypothesis `consistentStepIn`: the attribute equalities are consistent after
--      prefix resolution (it implies `consistentStep`: `consistentStep_of_in`).
-/

/-- `consistentStepIn` (attribute names compared after prefix resolution) is the stronger notion -/
theorem c15_consistentStepIn_consistentStep (env : NsEnv) (s : Step) (h : consistentStepIn env s) :
    consistentStep s := consistentStep_of_in env s h

/-- after a successful call the same expression selects exactly the returned node, provided the
    prefixes of the path are bound and the attribute equalities are consistent as expanded names -/
theorem c15_created_is_selected_partial (root root' : PTree) (n n' : Nat) (env : NsEnv) (ctx : List Nat)
    (p : Path) (r : XNode) (hp : ∀ s ∈ p.steps, stepPrefixesBound env s = true)
    (hc : ∀ s ∈ p.steps, consistentStepIn env s)
    (h : fetchOrCreate root n env env ctx [p] = .ok (root', r, n')) :
    evaluate root' env ctx [p] = .ok [r] :=
  fetchOrCreate_selected root root' n n' env ctx p r hp hc h

/-- hence a second call returns the same node and changes nothing -/
theorem c15_idempotent_partial (root root' : PTree) (n n' : Nat) (env : NsEnv) (ctx : List Nat)
    (p : Path) (r : XNode) (hp : ∀ s ∈ p.steps, stepPrefixesBound env s = true)
    (hc : ∀ s ∈ p.steps, consistentStepIn env s)
    (h : fetchOrCreate root n env env ctx [p] = .ok (root', r, n')) :
    fetchOrCreate root' n' env env ctx [p] = .ok (root', r, n') :=
  c15_found root' n' env env ctx [p] r (locatable_of_ok h)
    (fetchOrCreate_selected root root' n n' env ctx p r hp hc h)

/-- a prefix that the mapping does not bind is reported before anything is created: when the query finds
    nothing and some step names an unbound prefix (name test or derived attribute), the call ends with an
    evaluation error - and an error returns no tree, the tree stays as it is -/
theorem c15_unbound_prefix_rejected (root : PTree) (n : Nat) (envQ envC : NsEnv) (ctx : List Nat) (p : Path)
    (hl : locatable [p] = true) (hq : evaluate root envQ ctx [p] = .ok [])
    (hu : p.steps.flatMap (unboundPrefixes envC) ≠ []) :
    ∃ q, fetchOrCreate root n envQ envC ctx [p] = .error (.eval (.unknownPrefix q)) :=
  fetchOrCreate_unbound root n envQ envC ctx p hl hq hu

/- FALSE as stated (`c15_created_is_selected`, and with it `c15_idempotent`), but only for syntax trees the
   parser never produces; the statements:

theorem c15_created_is_selected (root root' : PTree) (n n' : Nat) (env : NsEnv) (ctx : List Nat)
    (p : Path) (r : XNode) (hc : ∀ s ∈ p.steps, consistentStepIn env s)
    (h : fetchOrCreate root n env env ctx [p] = .ok (root', r, n')) :
    evaluate root' env ctx [p] = .ok [r]

theorem c15_idempotent (root root' : PTree) (n n' : Nat) (env : NsEnv) (ctx : List Nat)
    (p : Path) (r : XNode) (hc : ∀ s ∈ p.steps, consistentStepIn env s)
    (h : fetchOrCreate root n env env ctx [p] = .ok (root', r, n')) :
    fetchOrCreate root' n' env env ctx [p] = .ok (root', r, n')

-- FALSE: a prefix that is present but empty (`some []`) passes the up-front check, which skips empty
-- prefixes (`if prefix and prefix not in namespaces`), while the query looks the empty prefix up
-- (`ensure_prefix`, `namespaces.get(prefix)`).  With root = <r/> (`.tag 0 "" "r" [] []`), n = 1, ctx = []:
--  (a) env = [], p = `.name (some []) "a"` without predicates: the call creates `<a/>` and returns `.at [0]`,
--      the re-query raises `unknownPrefix ""`;
--  (b) env = [("", "u")], p = `a[@k="v"]` with the attribute test `.attrVal (some []) "k"`: the call creates
--      `<{u}a k="v"/>` (the attribute in no namespace), the re-query looks for `{u}k`, finds nothing, and
--      a second call appends a second element (returns `.at [1]`).
-- Both are checked below (`example`s).  The parser takes every prefix from a NAME token, which is never
-- empty, so no parsed expression contains `some []`; the `_noempty_partial` theorems assume exactly that
-- (`stepNoEmptyPrefix`, decidable and independent of the mapping).
-/

/-- counterexample (a) -/
example :
    let p : Path := { absolute := false, steps := [{ axis := "child", test := .name (some []) "a".toList, preds := [] }] }
    let t' : PTree := .tag 0 "" "r" [] [.tag 1 "" "a" [] []]
    fetchOrCreate (.tag 0 "" "r" [] []) 1 [] [] [] [p] = .ok (t', .at [0], 2) ∧
      evaluate t' [] [] [p] = .error (.unknownPrefix "") := by
  exact ⟨rfl, rfl⟩

/-- counterexample (b) -/
example :
    let e : Expr := .binop "=" (.attrVal (some []) "k".toList) (.str "v".toList)
    let p : Path := { absolute := false, steps := [{ axis := "child", test := .name none "a".toList, preds := [e] }] }
    let a (i : Nat) : PTree := .tag i "u" "a" [{ ns := "", name := "k", value := "v".toList }] []
    let env : NsEnv := [("", "u")]
    (∀ s ∈ p.steps, consistentStepIn env s) ∧
    fetchOrCreate (.tag 0 "" "r" [] []) 1 env env [] [p] = .ok (.tag 0 "" "r" [] [a 1], .at [0], 2) ∧
      evaluate (.tag 0 "" "r" [] [a 1]) env [] [p] = .ok [] ∧
      fetchOrCreate (.tag 0 "" "r" [] [a 1]) 2 env env [] [p] = .ok (.tag 0 "" "r" [] [a 1, a 2], .at [1], 3) := by
  refine ⟨?_, rfl, rfl, rfl⟩
  intro s hs a b ha hb _ _
  simp only [List.mem_singleton] at hs
  subst hs
  simp [stepAttrs, derivedAttrs] at ha hb
  rw [ha, hb]

/-- with that check in place, a successful call needs no hypothesis on the bindings any more: after it the
    same expression selects exactly the returned node, provided the attribute equalities are consistent as
    expanded names (the property's "non-contradictory attribute-equality predicates") and no prefix is
    present but empty (true of every parsed expression) -/
theorem c15_created_is_selected_noempty_partial (root root' : PTree) (n n' : Nat) (env : NsEnv)
    (ctx : List Nat) (p : Path) (r : XNode) (hne : ∀ s ∈ p.steps, stepNoEmptyPrefix s = true)
    (hc : ∀ s ∈ p.steps, consistentStepIn env s)
    (h : fetchOrCreate root n env env ctx [p] = .ok (root', r, n')) :
    evaluate root' env ctx [p] = .ok [r] :=
  fetchOrCreate_selected_checked root root' n n' env ctx p r hne hc h

/-- hence a second call returns the same node and changes nothing -/
theorem c15_idempotent_noempty_partial (root root' : PTree) (n n' : Nat) (env : NsEnv) (ctx : List Nat)
    (p : Path) (r : XNode) (hne : ∀ s ∈ p.steps, stepNoEmptyPrefix s = true)
    (hc : ∀ s ∈ p.steps, consistentStepIn env s)
    (h : fetchOrCreate root n env env ctx [p] = .ok (root', r, n')) :
    fetchOrCreate root' n' env env ctx [p] = .ok (root', r, n') :=
  c15_found root' n' env env ctx [p] r (locatable_of_ok h)
    (fetchOrCreate_selected_checked root root' n n' env ctx p r hne hc h)

/-- non-vacuity: `a/b[@k="v"]` below `<r><a/></r>` creates `<b k="v"/>` under the existing `a` -/
example : (fetchOrCreate (.tag 0 "" "r" [] [.tag 1 "" "a" [] []]) 2 [("", "")] [("", "")] []
    [{ absolute := false, steps := [
        { axis := "child", test := .name none "a".toList, preds := [] },
        { axis := "child", test := .name none "b".toList,
          preds := [.binop "=" (.attrVal none "k".toList) (.str "v".toList)] }] }]).toOption.map (·.2.1)
    = some (.at [0, 0]) := by rfl

/-! ## what is added: the minimal missing branch below the deepest existing match

Vocabulary (`DelbModel/Lemmas/Create/Minimal.lean`): `AddedBelow root root' d i B` - `root'` is `root` with the
one subtree `B` put among the children of the tag node at `d`, at the index `i` where `append_children`
puts a node; `IsChainKids n k ks` - the child list `ks` is a branch without ramification of `k` tag nodes
with the identities `n`, `n+1`, …; `ChainFits envC ss ks` - that branch has one node per step of `ss`,
each with the name, namespace and attributes the step asks for (`StepNode`); `startOf ctx p` - the node
the path is evaluated from.  "The call created something" is `n' ≠ n`: identities were used up (with one
mapping for query and creation that is the case whenever the query found nothing,
`c15_not_found_creates`).  The loop evaluates with the mapping `envC`, so the matches are stated for it. -/

/-- when query and creation use the same mapping, a successful call that found nothing created something -/
theorem c15_not_found_creates (root root' : PTree) (n n' : Nat) (env : NsEnv) (ctx : List Nat) (p : Path)
    (r : XNode) (hq : evaluate root env ctx [p] = .ok [])
    (h : fetchOrCreate root n env env ctx [p] = .ok (root', r, n')) : n' ≠ n :=
  fetchOrCreate_not_found_creates root root' n n' env ctx p r hq h

/-- all of it under one existential, so that the three statements below speak of the same place `d`,
    index `i`, subtree `B` and number `m` of leading steps that had a match -/
theorem c15_added_branch (root root' : PTree) (n n' : Nat) (envQ envC : NsEnv) (ctx : List Nat) (p : Path)
    (r : XNode) (h : fetchOrCreate root n envQ envC ctx [p] = .ok (root', r, n')) (hcr : n' ≠ n) :
    ∃ d i B m, AddedBelow root root' d i B ∧ m < p.steps.length ∧ n' = n + (p.steps.length - m) ∧
      IsChainKids n (p.steps.length - m) [B] ∧ ChainFits envC (p.steps.drop m) [B] ∧
      r = .at (d ++ i :: List.replicate (p.steps.length - m - 1) 0) ∧
      (∀ x, x ∈ Clone.idsOf root' ↔ x ∈ Clone.idsOf root ∨ (n ≤ x ∧ x < n')) ∧
      (∀ j, j ≤ m → ∃ c, evalSteps root envC (p.steps.take j) [startOf ctx p] = .ok [c]) ∧
      evalSteps root envC (p.steps.take m) [startOf ctx p] = .ok [.at d] ∧
      (∀ s, p.steps[m]? = some s → evalStep root envC s [] [.at d] = .ok []) ∧
      (∀ j, m < j → evalSteps root envC (p.steps.take j) [startOf ctx p] = .ok []) :=
  fetchOrCreate_branch root root' n n' envQ envC ctx p r h hcr

/-- what a creating call adds is a single chain: the new tree is the old one with one subtree `B` put
    among the children of an existing tag node `d`; `B` is a branch without ramification of `n' - n` tag
    nodes with the identities `n`, …, `n' - 1` (the first is the new child of `d`, every further one the
    only child of the previous one, the last has no children - so no text, comment or processing
    instruction node is added); the returned node is the last node of the chain; and the identities of the
    new tree are the old ones and `n`, …, `n' - 1`, nothing else -/
theorem c15_added_is_one_chain (root root' : PTree) (n n' : Nat) (envQ envC : NsEnv) (ctx : List Nat) (p : Path)
    (r : XNode) (h : fetchOrCreate root n envQ envC ctx [p] = .ok (root', r, n')) (hcr : n' ≠ n) :
    ∃ d i B, AddedBelow root root' d i B ∧ n < n' ∧ IsChainKids n (n' - n) [B] ∧
      r = .at (d ++ i :: List.replicate (n' - n - 1) 0) ∧
      (∀ x, x ∈ Clone.idsOf root' ↔ x ∈ Clone.idsOf root ∨ (n ≤ x ∧ x < n')) := by
  obtain ⟨d, i, B, m, h1, h2, h3, h4, _, h6, h7, _⟩ := fetchOrCreate_branch root root' n n' envQ envC ctx p r h hcr
  have e : n' - n = p.steps.length - m := by omega
  exact ⟨d, i, B, h1, by omega, by rw [e]; exact h4, by rw [e]; exact h6, h7⟩

/-- where below `d` the chain is put: at the index `append_children` inserts at, i.e. directly behind the
    last tag or text child of `d` - everything behind it is a comment or a processing instruction - and at
    the very end when `d` has no tag or text child.  In particular it is the last child whenever the last
    child of `d` is a tag or text node (or `d` has no children).  It is NOT always the last child: see the
    example below. -/
theorem c15_added_position (root root' : PTree) (d : List Nat) (i : Nat) (B : PTree)
    (h : AddedBelow root root' d i B) :
    ∃ t, getAtP root d = some t ∧ i ≤ t.kids.length ∧
      (∀ y ∈ t.kids.drop i, y.isTag = false ∧ y.isText = false) ∧
      (i = t.kids.length ∨ ∃ x, 0 < i ∧ t.kids[i - 1]? = some x ∧ (x.isTag || x.isText) = true) ∧
      ((∀ x, t.kids.getLast? = some x → (x.isTag || x.isText) = true) → i = t.kids.length) := by
  obtain ⟨id, ns, nm, a, ks, hg, rfl, _, _⟩ := h
  obtain ⟨h1, h2, h3⟩ := appendIndex_spec ks
  refine ⟨_, hg, h1, h2, h3, fun hlast => ?_⟩
  simp only [PTree.kids] at *
  rcases Nat.lt_or_ge (appendIndex ks) ks.length with hlt | hge
  · exfalso
    have hne : ks.drop (appendIndex ks) ≠ [] := by
      intro e
      have := congrArg List.length e
      simp at this
      omega
    have hmem := List.getLast_mem hne
    have hl : ks.getLast? = some ((ks.drop (appendIndex ks)).getLast hne) := by
      rw [← List.getLast?_eq_some_getLast hne, List.getLast?_drop, if_neg (by omega)]
    have := hlast _ hl
    have := h2 _ hmem
    simp_all
  · omega

/-- the chain is as short as it can be: `m` leading steps had a match - each prefix of at most `m` steps
    selects exactly one node of the old tree, the one of length `m` selects `d` - the next step selects
    nothing below `d`, no longer prefix selects anything, and the chain put below `d` has one node per
    remaining step: `n' - n = #steps - m` nodes -/
theorem c15_added_count_minimal (root root' : PTree) (n n' : Nat) (envQ envC : NsEnv) (ctx : List Nat) (p : Path)
    (r : XNode) (h : fetchOrCreate root n envQ envC ctx [p] = .ok (root', r, n')) (hcr : n' ≠ n) :
    ∃ d i B m, AddedBelow root root' d i B ∧ m < p.steps.length ∧ n' - n = p.steps.length - m ∧
      IsChainKids n (p.steps.length - m) [B] ∧
      (∀ j, j ≤ m → ∃ c, evalSteps root envC (p.steps.take j) [startOf ctx p] = .ok [c]) ∧
      evalSteps root envC (p.steps.take m) [startOf ctx p] = .ok [.at d] ∧
      (∀ s, p.steps[m]? = some s → evalStep root envC s [] [.at d] = .ok []) ∧
      (∀ j, m < j → evalSteps root envC (p.steps.take j) [startOf ctx p] = .ok []) := by
  obtain ⟨d, i, B, m, h1, h2, h3, h4, _, _, _, h8, h9, h10, h11⟩ :=
    fetchOrCreate_branch root root' n n' envQ envC ctx p r h hcr
  exact ⟨d, i, B, m, h1, h2, by omega, h4, h8, h9, h10, h11⟩

/-- the nodes of the chain, top-down, belong to the steps that had no match, in order: the `k`-th has the
    local name of the `k`-th missing step, the namespace its prefix stands for in `envC` (no prefix: the
    default namespace of `envC`; none declared: no namespace), and as attributes exactly those derived from
    the step's predicates with their prefixes resolved in `envC` (`StepNode`: none besides them, no
    expanded name twice, each derived expanded name present, with the derived value when the step's
    equalities are consistent); and it has no child besides the next node of the chain -/
theorem c15_added_names_and_attributes (root root' : PTree) (n n' : Nat) (envQ envC : NsEnv) (ctx : List Nat)
    (p : Path) (r : XNode) (h : fetchOrCreate root n envQ envC ctx [p] = .ok (root', r, n')) (hcr : n' ≠ n) :
    ∃ d i B m, AddedBelow root root' d i B ∧ m < p.steps.length ∧ n' - n = p.steps.length - m ∧
      ChainFits envC (p.steps.drop m) [B] := by
  obtain ⟨d, i, B, m, h1, h2, h3, _, h5, _⟩ := fetchOrCreate_branch root root' n n' envQ envC ctx p r h hcr
  exact ⟨d, i, B, m, h1, h2, by omega, h5⟩

/-- non-vacuity, two nodes below an existing match: `a/b[@k="v"]/c` at `<r><a><x/></a><!--c--></r>` (identities
    0-3, next one 4).  `a` exists, so `m = 1`, `d = [0]`; the chain `<b k="v"><c/></b>` (identities 4, 5) is
    put behind `<x/>`; the last node of the chain is returned; the hypotheses of the theorems above hold by
    `rfl` / `decide`. -/
example :
    let root : PTree := .tag 0 "" "r" [] [.tag 1 "" "a" [] [.tag 2 "" "x" [] []], .comment 3 "c".toList]
    let p : Path := { absolute := false, steps := [
        { axis := "child", test := .name none "a".toList, preds := [] },
        { axis := "child", test := .name none "b".toList,
          preds := [.binop "=" (.attrVal none "k".toList) (.str "v".toList)] },
        { axis := "child", test := .name none "c".toList, preds := [] }] }
    let env : NsEnv := [("", "")]
    let B : PTree := .tag 4 "" "b" [{ ns := "", name := "k", value := "v".toList }] [.tag 5 "" "c" [] []]
    let root' : PTree := .tag 0 "" "r" [] [.tag 1 "" "a" [] [.tag 2 "" "x" [] [], B], .comment 3 "c".toList]
    fetchOrCreate root 4 env env [] [p] = .ok (root', .at [0, 1, 0], 6) ∧ (6 ≠ 4) ∧
      -- `c15_added_is_one_chain`
      AddedBelow root root' [0] 1 B ∧ IsChainKids 4 (6 - 4) [B] ∧
      XNode.at [0, 1, 0] = .at ([0] ++ 1 :: List.replicate (6 - 4 - 1) 0) ∧
      -- `c15_added_count_minimal` with `m = 1`
      6 - 4 = p.steps.length - 1 ∧
      evalSteps root env (p.steps.take 0) [startOf [] p] = .ok [.at []] ∧
      evalSteps root env (p.steps.take 1) [startOf [] p] = .ok [.at [0]] ∧
      evalSteps root env (p.steps.take 2) [startOf [] p] = .ok [] ∧
      evalSteps root env (p.steps.take 3) [startOf [] p] = .ok [] ∧
      -- `c15_added_names_and_attributes`
      ChainFits env (p.steps.drop 1) [B] := by
  intro root p env B root'
  refine ⟨rfl, by decide, ⟨1, "", "a", [], [.tag 2 "" "x" [] []], rfl, rfl, rfl, rfl⟩,
    ⟨_, _, _, _, rfl, _, _, _, _, rfl, rfl⟩, rfl, rfl, rfl, rfl, rfl, rfl, ?_⟩
  have hb : stepAttrs ⟨"child", .name none "b".toList, [.binop "=" (.attrVal none "k".toList) (.str "v".toList)]⟩ =
      [([], "k".toList, "v".toList)] := rfl
  have hc : stepAttrs ⟨"child", .name none "c".toList, []⟩ = [] := rfl
  refine ⟨4, "", "b", _, _, rfl, ⟨⟨none, _, rfl, by decide, rfl⟩, ?_, by decide, ?_, ?_⟩,
    5, "", "c", [], [], rfl, ⟨⟨none, _, rfl, by decide, rfl⟩, ?_, by decide, ?_, ?_⟩, rfl⟩
  · intro a ha
    rw [List.mem_singleton] at ha
    exact ⟨([], "k".toList, "v".toList), by rw [hb]; exact List.mem_singleton.2 rfl, ha⟩
  · intro t ht
    rw [hb, List.mem_singleton] at ht
    subst ht
    exact ⟨_, List.mem_singleton.2 rfl, rfl, rfl⟩
  · intro _ t ht
    rw [hb, List.mem_singleton] at ht
    subst ht
    exact List.mem_singleton.2 rfl
  · intro a ha; cases ha
  · intro t ht; rw [hc] at ht; cases ht
  · intro _ t ht; rw [hc] at ht; cases ht

/-- the same call fed to the three theorems: their hypotheses are met by `rfl` and `decide` -/
example :
    let root : PTree := .tag 0 "" "r" [] [.tag 1 "" "a" [] [.tag 2 "" "x" [] []], .comment 3 "c".toList]
    let p : Path := { absolute := false, steps := [
        { axis := "child", test := .name none "a".toList, preds := [] },
        { axis := "child", test := .name none "b".toList,
          preds := [.binop "=" (.attrVal none "k".toList) (.str "v".toList)] },
        { axis := "child", test := .name none "c".toList, preds := [] }] }
    let env : NsEnv := [("", "")]
    let B : PTree := .tag 4 "" "b" [{ ns := "", name := "k", value := "v".toList }] [.tag 5 "" "c" [] []]
    let root' : PTree := .tag 0 "" "r" [] [.tag 1 "" "a" [] [.tag 2 "" "x" [] [], B], .comment 3 "c".toList]
    (∃ d i B, AddedBelow root root' d i B ∧ 4 < 6 ∧ IsChainKids 4 (6 - 4) [B] ∧
      XNode.at [0, 1, 0] = .at (d ++ i :: List.replicate (6 - 4 - 1) 0) ∧
      (∀ x, x ∈ Clone.idsOf root' ↔ x ∈ Clone.idsOf root ∨ (4 ≤ x ∧ x < 6))) ∧
    (∃ d i B m, AddedBelow root root' d i B ∧ m < p.steps.length ∧ 6 - 4 = p.steps.length - m ∧
      ChainFits env (p.steps.drop m) [B]) := by
  intro root p env B root'
  exact ⟨c15_added_is_one_chain root root' 4 6 env env [] p (.at [0, 1, 0]) rfl (by decide),
    c15_added_names_and_attributes root root' 4 6 env env [] p (.at [0, 1, 0]) rfl (by decide)⟩

/-- "appended as the last child" is FALSE in general: `append_children` goes by the last child the default
    filter shows (`last_child`: tag and text nodes) and adds the node directly behind it.  `b/c` at
    `<r><a/><!--c--></r>` gives `<r><a/><b><c/></b><!--c--></r>`: the chain sits at index 1 of 3, in front
    of the comment.  (Behind every tag and text child, as `c15_added_position` says.) -/
example :
    let root : PTree := .tag 0 "" "r" [] [.tag 1 "" "a" [] [], .comment 2 "c".toList]
    let p : Path := { absolute := false, steps := [
        { axis := "child", test := .name none "b".toList, preds := [] },
        { axis := "child", test := .name none "c".toList, preds := [] }] }
    let B : PTree := .tag 3 "" "b" [] [.tag 4 "" "c" [] []]
    let root' : PTree := .tag 0 "" "r" [] [.tag 1 "" "a" [] [], B, .comment 2 "c".toList]
    fetchOrCreate root 3 [("", "")] [("", "")] [] [p] = .ok (root', .at [1, 0], 5) ∧
      AddedBelow root root' [] 1 B ∧ root'.kids.length = 3 := by
  exact ⟨rfl, ⟨0, "", "r", [], _, rfl, rfl, rfl, rfl⟩, rfl⟩

/-- namespaces: with `{"": "d", "x": "u"}`, `x:a[@x:k="v"]/b` at `<r/>` makes `<{u}a {u}k="v"><{d}b/></{u}a>` - the
    prefixed names in the namespace of the prefix, the unprefixed one in the default namespace of the
    mapping -/
example :
    let p : Path := { absolute := false, steps := [
        { axis := "child", test := .name (some "x".toList) "a".toList,
          preds := [.binop "=" (.attrVal (some "x".toList) "k".toList) (.str "v".toList)] },
        { axis := "child", test := .name none "b".toList, preds := [] }] }
    let env : NsEnv := [("", "d"), ("x", "u")]
    fetchOrCreate (.tag 0 "" "r" [] []) 1 env env [] [p] =
      .ok (.tag 0 "" "r" [] [.tag 1 "u" "a" [{ ns := "u", name := "k", value := "v".toList }] [.tag 2 "d" "b" [] []]],
        .at [0, 0], 3) := by
  rfl

end Delb.XPath

import DelbModel.Props.C01
import DelbModel.Model.EditApi
import DelbModel.Lemmas.EditApi
/-!
# C01, public API — the composite editing calls behave like list splices on a plain ordered tree

`DelbModel/Model/EditApi.lean` writes the public calls (`add_following_siblings`, `add_preceding_siblings`,
`append_children`, `insert_children`, `prepend_children`, `detach(retain_child_nodes=True)`, `replace_with`,
`__delitem__`) down once, as total functions over a machine; `apiC` runs them on the slot/chain mechanism
(`stepC`), `apiA` on plain trees (`stepA`).  The JSON driver runs the same definitions.

* `c01_api_refines`, `c01_api_history`: what the mechanism does in a composite call is a history of
  primitive steps, and abstracts to what the same call does to plain trees (corollaries of `c01_step`,
  `c01_step_error`, `c01_history`);
* `c01_api_append` … `c01_api_delitem`: on plain trees each call *is* the splice one expects, for every
  tree and every number of offered nodes.

Legality hypotheses are Boolean (`tagAt`, `childAt`, `legalSources`, `isEmpty`): the target is a tag node /
has a child `k`; the offered groups exist, are not the target's own tree (so the target is not inside an
offered tree) and are pairwise distinct.  Nothing is asked of text payloads: `stepA` does not look at them
(the empty-string confusion of the library is a recorded finding about the mechanism model, not about
splices).  Helper lemmas: `DelbModel/Lemmas/EditApi.lean`.
-/
namespace Delb.Edit

/-! ## the mechanism refines the plain-tree calls -/

/-- `c01_step` and `c01_step_error`, packaged for the composites -/
theorem c01_api_sim : Sim machC machA (fun c a => a = absState c) where
  view := by intro s₁ s₂ h; subst h; rfl
  step := by
    intro s₁ s₂ p h
    subst h
    show ExRel _ (stepC s₁ p) (stepA (absState s₁) p)
    cases hc : stepC s₁ p with
    | ok s' => rw [c01_step s₁ s' p hc]; rfl
    | error e =>
      obtain ⟨e', he'⟩ := c01_step_error s₁ p e hc
      rw [he']; trivial

/-- whenever a composite API call runs to `.ok` on the mechanism, the same call on the abstracted state
    runs to `.ok` of the abstraction of the result; and a call the mechanism rejects is rejected on plain
    trees too -/
theorem c01_api_refines (s : StateC) (c : ApiCall Source) :
    (∀ s', apiC s c = .ok s' → apiA (absState s) c = .ok (absState s')) ∧
    (∀ e, apiC s c = .error e → ∃ e', apiA (absState s) c = .error e') := by
  have h := sim_runApi c01_api_sim (offerSource_sim _) s (absState s) c rfl
  simp only [apiC, apiA]
  constructor
  · intro s' hs'
    rw [hs'] at h
    cases ha : runApi machA offerSource (absState s) c with
    | ok a => rw [ha] at h; exact congrArg Except.ok h
    | error e => rw [ha] at h; exact h.elim
  · intro e he
    rw [he] at h
    cases ha : runApi machA offerSource (absState s) c with
    | ok a => rw [ha] at h; exact h.elim
    | error e' => exact ⟨e', rfl⟩

/-- what the mechanism runs in a composite call is a history of primitive steps, so `c01_history`
    applies to it -/
theorem c01_api_history (s s' : StateC) (c : ApiCall Source) (h : apiC s c = .ok s') :
    ∃ ops, runC s ops = .ok s' ∧ runA (absState s) ops = .ok (absState s') := by
  obtain ⟨ops, hops⟩ := runApi_machC_history s s' c h
  exact ⟨ops, hops, c01_history s s' ops hops⟩

/-! ## the calls on plain trees

The running example: group 0 is `<r>a<b>in<!--cm--></b>t1</r>`, group 1 a parentless `<g>gg</g>`, group 2 a
detached text node, group 3 an empty slot. -/

def exState : StateA :=
  { groups := [some (.tag 0 "" "r" [] [.text 1 "a".toList, .tag 2 "" "b" [] [.text 5 "in".toList, .comment 6 "cm".toList],
                                       .text 3 "t1".toList]),
               some (.tag 10 "" "g" [] [.text 11 "gg".toList]),
               some (.text 12 "lone".toList),
               none],
    nextId := 20 }

/-- the same forest in the slot/chain encoding -/
def exStateC : StateC :=
  { groups := [some (.el (.tag 0 "" "r" [] [⟨1, "a".toList⟩]
                 [(.tag 2 "" "b" [] [⟨5, "in".toList⟩] [(.comment 6 "cm".toList, [])], [⟨3, "t1".toList⟩])])),
               some (.el (.tag 10 "" "g" [] [⟨11, "gg".toList⟩] [])),
               some (.text ⟨12, "lone".toList⟩),
               none],
    nextId := 20 }

example : absState exStateC = exState := by rfl

/-- non-vacuity of `c01_api_refines`: the mechanism performs an `insert_children(1, "q", <g>, "lone")` -/
example : (apiC exStateC (.insert ⟨0, []⟩ 1 [.newText "q".toList, .group 1, .group 2])).toOption.map absState =
    some { groups := [some (.tag 0 "" "r" [] [.text 1 "a".toList, .text 20 "q".toList,
                                .tag 10 "" "g" [] [.text 11 "gg".toList], .text 12 "lone".toList,
                                .tag 2 "" "b" [] [.text 5 "in".toList, .comment 6 "cm".toList], .text 3 "t1".toList]),
                      none, none, none],
           nextId := 21 } := by rfl

/-- `append_children(*srcs)`: the child list becomes `kids ++ offered`; the offered groups leave the
    forest; nothing else changes -/
theorem c01_api_append (s : StateA) (a : Addr) (srcs : List Source)
    (ht : tagAt s a = true) (hl : legalSources s a.g srcs = true) :
    apiA s (.append a srcs) = .ok (appendSpec s a srcs) := by
  obtain ⟨t, x, hg, hx, hxt⟩ := (tagAt_iff s a).1 ht
  exact appendChildren_spec s a.g a.path srcs t x hg hx hxt hl

example : tagAt exState ⟨0, [1]⟩ = true ∧
    legalSources exState 0 [.newText "q".toList, .group 1, .newText "z".toList, .group 2] = true := by decide

example : apiA exState (.append ⟨0, [1]⟩ [.newText "q".toList, .group 1, .newText "z".toList, .group 2]) =
    .ok { groups := [some (.tag 0 "" "r" [] [.text 1 "a".toList,
                        .tag 2 "" "b" [] [.text 5 "in".toList, .comment 6 "cm".toList, .text 20 "q".toList,
                                          .tag 10 "" "g" [] [.text 11 "gg".toList], .text 21 "z".toList,
                                          .text 12 "lone".toList],
                        .text 3 "t1".toList]), none, none, none],
          nextId := 22 } := by rfl

/-- `insert_children(i, *srcs)` with `i ≤ len(kids)` and at least one node: the child list becomes
    `kids[:i] ++ offered ++ kids[i:]` -/
theorem c01_api_insert (s : StateA) (a : Addr) (i : Nat) (srcs : List Source)
    (ht : tagAt s a = true) (hi : i ≤ kidsCountA s a) (hne : srcs.isEmpty = false)
    (hl : legalSources s a.g srcs = true) :
    apiA s (.insert a i srcs) = .ok (insertSpec s a i srcs) := by
  obtain ⟨t, x, hg, hx, hxt⟩ := (tagAt_iff s a).1 ht
  have hcount : kidsCountA s a = x.kids.length := kidsCountA_eq (p := a.path) hg hx
  exact insertChildren_spec' s a.g a.path i srcs t x hg hx hxt (by omega)
    (by cases srcs <;> simp_all) hl

/-- … and it is an `IndexError` exactly when the index is beyond the child list -/
theorem c01_api_insert_index_error (s : StateA) (a : Addr) (i : Nat) (srcs : List Source)
    (ht : tagAt s a = true) (hne : srcs.isEmpty = false) (hl : legalSources s a.g srcs = true) :
    apiA s (.insert a i srcs) = .error .indexError ↔ kidsCountA s a < i := by
  constructor
  · intro h
    rcases Nat.lt_or_ge (kidsCountA s a) i with hlt | hge
    · exact hlt
    · rw [c01_api_insert s a i srcs ht hge hne hl] at h; cases h
  · intro hlt
    simp only [apiA, runApi, insertChildren, machA_view, gt_iff_lt, if_pos hlt]; rfl

/-- `prepend_children(*srcs)` is `insert_children(0, *srcs)` -/
theorem c01_api_prepend (s : StateA) (a : Addr) (srcs : List Source) :
    apiA s (.prepend a srcs) = apiA s (.insert a 0 srcs) := rfl

example : apiA exState (.insert ⟨0, []⟩ 1 [.group 2, .newText "q".toList, .group 1]) =
    .ok { groups := [some (.tag 0 "" "r" [] [.text 1 "a".toList, .text 12 "lone".toList, .text 20 "q".toList,
                        .tag 10 "" "g" [] [.text 11 "gg".toList],
                        .tag 2 "" "b" [] [.text 5 "in".toList, .comment 6 "cm".toList], .text 3 "t1".toList]),
                     none, none, none],
          nextId := 21 } := by rfl

example : tagAt exState ⟨0, []⟩ = true ∧ 1 ≤ kidsCountA exState ⟨0, []⟩ ∧
    legalSources exState 0 [.group 2, .newText "q".toList, .group 1] = true := by decide

/-- an empty target takes its first child through `__add_first_child` -/
example : apiA exState (.insert ⟨1, [0]⟩ 0 [.newText "q".toList]) = .error .badAddress ∧
    apiA exState (.prepend ⟨1, []⟩ [.newText "q".toList, .group 2]) =
      .ok { groups := [exState.groups[0]!, some (.tag 10 "" "g" [] [.text 20 "q".toList, .text 12 "lone".toList,
                                                                     .text 11 "gg".toList]), none, none],
            nextId := 21 } := by constructor <;> rfl

/-- `add_following_siblings(*srcs)` on child `k` of `parent`: the offered nodes are spliced in after it, in
    the order given -/
theorem c01_api_add_following (s : StateA) (parent : Addr) (k : Nat) (srcs : List Source)
    (hc : childAt s parent k = true) (hl : legalSources s parent.g srcs = true) :
    apiA s (.addFollowing (childAddr parent k) srcs) = .ok (addFollowingSpec s parent k srcs) := by
  obtain ⟨t, x, hg, hx, hxt, hk⟩ := (childAt_iff s parent k).1 hc
  exact addFollowingAll_spec parent.g parent.path srcs s k t x hg hx hxt hk hl

example : childAt exState ⟨0, [1]⟩ 0 = true ∧
    legalSources exState 0 [.newText "q".toList, .group 1, .newText "z".toList] = true := by decide

example : apiA exState (.addFollowing (childAddr ⟨0, [1]⟩ 0) [.newText "q".toList, .group 1, .newText "z".toList]) =
    .ok { groups := [some (.tag 0 "" "r" [] [.text 1 "a".toList,
                        .tag 2 "" "b" [] [.text 5 "in".toList, .text 20 "q".toList,
                                          .tag 10 "" "g" [] [.text 11 "gg".toList], .text 21 "z".toList,
                                          .comment 6 "cm".toList],
                        .text 3 "t1".toList]), none, some (.text 12 "lone".toList), none],
          nextId := 22 } := by rfl

/-- `add_preceding_siblings(*srcs)` on child `k` of `parent`: each further node is handed to the node just
    added (`this.add_preceding_siblings(*queue)`), so the offered nodes are spliced in before child `k` in
    *reverse* order (identities of new text nodes are still given out in the order offered) -/
theorem c01_api_add_preceding (s : StateA) (parent : Addr) (k : Nat) (srcs : List Source)
    (hc : childAt s parent k = true) (hl : legalSources s parent.g srcs = true) :
    apiA s (.addPreceding (childAddr parent k) srcs) = .ok (addPrecedingSpec s parent k srcs) := by
  obtain ⟨t, x, hg, hx, hxt, hk⟩ := (childAt_iff s parent k).1 hc
  exact addPrecedingAll_spec parent.g parent.path k srcs s t x hg hx hxt hk hl

example : apiA exState (.addPreceding (childAddr ⟨0, [1]⟩ 1) [.newText "q".toList, .group 1, .newText "z".toList]) =
    .ok { groups := [some (.tag 0 "" "r" [] [.text 1 "a".toList,
                        .tag 2 "" "b" [] [.text 5 "in".toList, .text 21 "z".toList,
                                          .tag 10 "" "g" [] [.text 11 "gg".toList], .text 20 "q".toList,
                                          .comment 6 "cm".toList],
                        .text 3 "t1".toList]), none, some (.text 12 "lone".toList), none],
          nextId := 22 } := by rfl

example : childAt exState ⟨0, [1]⟩ 1 = true := by decide

/-- `detach(retain_child_nodes=True)` of child `k` of `parent` (any node type; a childless node is simply
    detached): its children take its place, in order; the node becomes a parentless group without
    children -/
theorem c01_api_detach_retain (s : StateA) (parent : Addr) (k : Nat) (hc : childAt s parent k = true) :
    apiA s (.detachRetain (childAddr parent k)) = .ok (detachRetainSpec s parent k) := by
  obtain ⟨t, x, hg, hx, hxt, hk⟩ := (childAt_iff s parent k).1 hc
  have hN : x.kids[k]? = some x.kids[k] := List.getElem?_eq_getElem hk
  have hnode := nodeAtA_child s parent k t x _ hg hx hxt hN
  simp only [detachRetainSpec, hnode]
  exact detachRetain_spec s parent.g parent.path k t x _ hg hx hxt hN

example : childAt exState ⟨0, []⟩ 1 = true := by decide

example : apiA exState (.detachRetain (childAddr ⟨0, []⟩ 1)) =
    .ok { groups := [some (.tag 0 "" "r" [] [.text 1 "a".toList, .text 5 "in".toList, .comment 6 "cm".toList,
                                             .text 3 "t1".toList]),
                     some (.tag 10 "" "g" [] [.text 11 "gg".toList]), some (.text 12 "lone".toList), none,
                     none, none, some (.tag 2 "" "b" [] [])],
          nextId := 20 } := by rfl

/-- `replace_with` on child `k` of `parent` (the library call offers exactly one node; any number is
    covered): the offered nodes take the node's place, the node becomes a parentless group -/
theorem c01_api_replace (s : StateA) (parent : Addr) (k : Nat) (srcs : List Source)
    (hc : childAt s parent k = true) (hl : legalSources s parent.g srcs = true) :
    apiA s (.replace (childAddr parent k) srcs) = .ok (replaceSpec s parent k srcs) := by
  obtain ⟨t, x, hg, hx, hxt, hk⟩ := (childAt_iff s parent k).1 hc
  have hN : x.kids[k]? = some x.kids[k] := List.getElem?_eq_getElem hk
  have hnode := nodeAtA_child s parent k t x _ hg hx hxt hN
  simp only [replaceSpec, hnode]
  exact replaceWith_spec s parent.g parent.path k srcs t x _ hg hx hxt hN hl

example : childAt exState ⟨0, []⟩ 1 = true ∧ legalSources exState 0 [.group 1] = true := by decide

example : apiA exState (.replace (childAddr ⟨0, []⟩ 1) [.group 1]) =
    .ok { groups := [some (.tag 0 "" "r" [] [.text 1 "a".toList, .tag 10 "" "g" [] [.text 11 "gg".toList],
                                             .text 3 "t1".toList]),
                     none, some (.text 12 "lone".toList), none,
                     some (.tag 2 "" "b" [] [.text 5 "in".toList, .comment 6 "cm".toList])],
          nextId := 20 } := by rfl

/-- `del parent[k]`: child `k` becomes a parentless group, the other children keep their order -/
theorem c01_api_delitem (s : StateA) (parent : Addr) (k : Nat) (hc : childAt s parent k = true) :
    apiA s (.delItem parent k) = .ok (delItemSpec s parent k) := by
  obtain ⟨t, x, hg, hx, hxt, hk⟩ := (childAt_iff s parent k).1 hc
  have hN : x.kids[k]? = some x.kids[k] := List.getElem?_eq_getElem hk
  have hnode := nodeAtA_child s parent k t x _ hg hx hxt hN
  simp only [delItemSpec, hnode]
  exact delItem_spec s parent.g parent.path k t x _ hg hx hxt hN

/-- … and an `IndexError` when there is no child `k` -/
theorem c01_api_delitem_index_error (s : StateA) (parent : Addr) (k : Nat) (h : kidsCountA s parent ≤ k) :
    apiA s (.delItem parent k) = .error .indexError := by
  simp only [apiA, runApi, delItem, machA_view, ge_iff_le, if_pos h]; rfl

example : childAt exState ⟨0, [1]⟩ 0 = true := by decide

example : apiA exState (.delItem ⟨0, [1]⟩ 0) =
    .ok { groups := [some (.tag 0 "" "r" [] [.text 1 "a".toList, .tag 2 "" "b" [] [.comment 6 "cm".toList],
                                             .text 3 "t1".toList]),
                     some (.tag 10 "" "g" [] [.text 11 "gg".toList]), some (.text 12 "lone".toList), none,
                     some (.text 5 "in".toList)],
          nextId := 20 } := by rfl

end Delb.Edit

import DelbModel.Model.Wrap
import DelbModel.Lemmas.Wrap
/-!
# C19 — Wrapped text fills lines greedily up to the requested width

Property theorems only (helper lemmas live in `DelbModel/Lemmas/Wrap.lean`).
-/
namespace Delb.Wrap

/-- words are neither split, joined nor reordered: the lines are the joins of a
    partition of the word list into non-empty consecutive groups -/
theorem c19_groups_partition (w : Nat) (ws : List (List Char)) :
    (greedyGroups w ws).flatten = ws ∧ ∀ g ∈ greedyGroups w ws, g ≠ [] := by
  cases ws with
  | nil => simp [greedyGroups]
  | cons wd wds =>
    exact ⟨by simpa [greedyGroups] using groups_flatten w wds [wd], groups_ne_nil w wds [wd] (by simp)⟩

/-- no line is longer than the width unless it is a single (unbreakable) word -/
theorem c19_width (w : Nat) (ws : List (List Char)) :
    ∀ g ∈ greedyGroups w ws, (join g).length ≤ w ∨ g.length = 1 := by
  cases ws with
  | nil => simp [greedyGroups]
  | cons wd wds => exact groups_width w wds [wd] (by simp) (Or.inr rfl)

/-- no line is shorter than necessary: the first word of each following line would
    not have fitted on the line before -/
theorem c19_greedy (w : Nat) (ws : List (List Char)) (i : Nat) (g₁ g₂ : List (List Char))
    (h₁ : (greedyGroups w ws)[i]? = some g₁) (h₂ : (greedyGroups w ws)[i+1]? = some g₂) :
    ∃ wd rest, g₂ = wd :: rest ∧ (join g₁).length + 1 + wd.length > w := by
  cases ws with
  | nil => simp [greedyGroups] at h₁
  | cons wd wds => exact groups_greedy w wds [wd] i g₁ g₂ h₁ h₂

/-- the code's `_wrap_text` computes exactly the greedy fill, for every width ≥ 1 and
    every sequence of words joined by single spaces -/
theorem c19_wrap_eq_greedy (w : Nat) (hw : 1 ≤ w) (ws : List (List Char))
    (hws : ∀ wd ∈ ws, IsWord wd) :
    wrapText w (join ws) = greedyFill w ws := by
  cases ws with
  | nil => simp [wrapText, greedyFill, greedyGroups, join, wrap]
  | cons wd wds =>
    have hwd : ∀ x ∈ [wd], IsWord x := by
      intro x hx; simp at hx; subst hx; exact hws _ (by simp)
    exact wrap_groups w wds [wd] _ (by simp) hwd
      (fun x hx => hws x (by simp [hx])) (Or.inr ⟨wd, rfl⟩) (Nat.lt_succ_self _)

/-- breaking happens at spaces only and nothing is lost: re-joining gives the text back -/
theorem c19_join (w : Nat) (t : List Char) (h : t.getLast? ≠ some ' ') :
    join (wrapText w t) = t :=
  join_wrap w (t.length + 1) t (Nat.lt_succ_self _) h

/-- every text line carries the indentation of its nesting depth -/
theorem c19_indent (w : Nat) (indent : List Char) (depth : Nat) (t : List Char) :
    textLines w indent depth t =
      (wrapText w t).map (fun l => (List.replicate (depth + 1) indent).flatten ++ l) := rfl

/-- non-vacuity: a concrete instance with a word longer than the width -/
example : wrapText 5 "ab cd efghijk l".toList = ["ab cd".toList, "efghijk".toList, "l".toList] := by
  decide
example : greedyFill 5 ["ab".toList, "cd".toList, "efghijk".toList, "l".toList]
    = ["ab cd".toList, "efghijk".toList, "l".toList] := by decide


end Delb.Wrap

import DelbModel.Model.Clone
import DelbModel.Lemmas.Clone
/-!
# C10 — Clones are equal to, and independent of, their originals

Property theorems only; helper lemmas are in `DelbModel/Lemmas/Clone.lean`.
The mechanism-level clone (`cloneEl`) refines `cloneP` by `c01_clone`; a clone is a group of its
own (a parentless element, which in the encoding carries no tail slot).
-/
namespace Delb.Clone
open Delb.Edit

/-- a deep clone is the same tree: names, namespaces, attributes, all child nodes including
    comments and processing instructions, text content — only the identities differ -/
theorem c10_clone_equal (n : Nat) (t : PTree) : strip (cloneP n t).1 = strip t := by
  exact strip_cloneP t n

/-- … and all of them are fresh: the clone's nodes are numbered `n, n+1, …` in document order -/
theorem c10_clone_fresh (n : Nat) (t : PTree) :
    idsOf (cloneP n t).1 = List.range' n (idsOf t).length ∧ (cloneP n t).2 = n + (idsOf t).length := by
  exact ids_cloneP t n

/-- a shallow clone of a tag node has the same name and attributes and no children -/
theorem c10_shallow (n i : Nat) (ns name : String) (a : List Attr) (ks : List PTree) :
    strip (shallowP n (.tag i ns name a ks)) = .tag ns name a [] := by
  simp [shallowP]

/-- cloning adds one new parentless group and changes nothing else -/
theorem c10_clone_step (s s' : StateA) (a : Addr) (h : stepA s (.cloneDeep a) = .ok s') :
    ∃ t x c, s.groups[a.g]? = some (some t) ∧ getAtP t a.path = some x ∧
      s'.groups = s.groups ++ [some c] ∧ strip c = strip x ∧ ∀ i ∈ idsOf c, s.nextId ≤ i := by
  exact cloneDeep_step s s' a h

/-- frame: an edit leaves every group it does not touch exactly as it was -/
theorem c10_frame (s s' : StateA) (p : Prim) (h : stepA s p = .ok s') (g : Nat)
    (hg : g ∉ touched p) (hlt : g < s.groups.length) : s'.groups[g]? = s.groups[g]? := by
  exact (stepA_frame s s' p h).2 g hg hlt

/-- hence no later edit of other trees is ever visible in a clone (or in the original, when the
    clone is edited): any history that does not touch group `g` leaves it unchanged -/
theorem c10_independent (s s' : StateA) (ops : List Prim) (h : runA s ops = .ok s') (g : Nat)
    (hg : ∀ p ∈ ops, g ∉ touched p) (hlt : g < s.groups.length) : s'.groups[g]? = s.groups[g]? := by
  exact runA_frame ops s s' h g hg hlt

/-- cloning a document reproduces the comments and processing instructions before and after its
    root, in order (`_copy_root_siblings` with its two stacks) -/
theorem c10_copy_root_siblings (prologue epilogue : List PTree) :
    copyRootSiblings prologue epilogue = (prologue, epilogue) := by
  simp [copyRootSiblings, pushAll_eq, popAddPrevious_eq, popAddNext_eq]

/-- non-vacuity -/
example : (cloneP 10 (.tag 0 "" "r" [] [.text 1 "a".toList, .comment 2 [], .tag 3 "" "e" [] [.pi 4 "t" []]])).1
    = .tag 10 "" "r" [] [.text 11 "a".toList, .comment 12 [], .tag 13 "" "e" [] [.pi 14 "t" []]] := by rfl

end Delb.Clone

import DelbModel.Model.Clone
import DelbModel.Lemmas.Clone
/-!
# C10 — Clones are equal to, and independent of, their originals

Property theorems only; helper lemmas are in `DelbModel/Lemmas/Clone.lean`.
The mechanism-level clone (`cloneEl`) refines `cloneP` by `c01_clone`; a clone is a group of its
own (a parentless element, which in the encoding carries no tail slot).
-/
namespace Delb.Clone
open Delb.Edit

/-- a deep clone is the same tree: names, namespaces, attributes, all child nodes including
    comments and processing instructions, text content — only the identities differ -/
theorem c10_clone_equal (n : Nat) (t : PTree) : strip (cloneP n t).1 = strip t := by
  exact strip_cloneP t n

/-- … and all of them are fresh: the clone's nodes are numbered `n, n+1, …` in document order -/
theorem c10_clone_fresh (n : Nat) (t : PTree) :
    idsOf (cloneP n t).1 = List.range' n (idsOf t).length ∧ (cloneP n t).2 = n + (idsOf t).length := by
  exact ids_cloneP t n

/-- a shallow clone of a tag node has the same name and attributes and no children -/
theorem c10_shallow (n i : Nat) (ns name : String) (a : List Attr) (ks : List PTree) :
    strip (shallowP n (.tag i ns name a ks)) = .tag ns name a [] := by
  simp [shallowP]

/-- cloning adds one new parentless group and changes nothing else -/
theorem c10_clone_step (s s' : StateA) (a : Addr) (h : stepA s (.cloneDeep a) = .ok s') :
    ∃ t x c, s.groups[a.g]? = some (some t) ∧ getAtP t a.path = some x ∧
      s'.groups = s.groups ++ [some c] ∧ strip c = strip x ∧ ∀ i ∈ idsOf c, s.nextId ≤ i := by
  exact cloneDeep_step s s' a h

/-- frame: an edit leaves every group it does not touch exactly as it was -/
theorem c10_frame (s s' : StateA) (p : Prim) (h : stepA s p = .ok s') (g : Nat)
    (hg : g ∉ touched p) (hlt : g < s.groups.length) : s'.groups[g]? = s.groups[g]? := by
  exact (stepA_frame s s' p h).2 g hg hlt

/-- hence no later edit of other trees is ever visible in a clone (or in the original, when the
    clone is edited): any history that does not touch group `g` leaves it unchanged -/
theorem c10_independent (s s' : StateA) (ops : List Prim) (h : runA s ops = .ok s') (g : Nat)
    (hg : ∀ p ∈ ops, g ∉ touched p) (hlt : g < s.groups.length) : s'.groups[g]? = s.groups[g]? := by
  exact runA_frame ops s s' h g hg hlt

/-- cloning a document reproduces the comments and processing instructions before and after its
    root, in order (`_copy_root_siblings` with its two stacks) -/
theorem c10_copy_root_siblings (prologue epilogue : List PTree) :
    copyRootSiblings prologue epilogue = (prologue, epilogue) := by
  simp [copyRootSiblings, pushAll_eq, popAddPrevious_eq, popAddNext_eq]

/-- non-vacuity -/
example : (cloneP 10 (.tag 0 "" "r" [] [.text 1 "a".toList, .comment 2 [], .tag 3 "" "e" [] [.pi 4 "t" []]])).1
    = .tag 10 "" "r" [] [.text 11 "a".toList, .comment 12 [], .tag 13 "" "e" [] [.pi 14 "t" []]] := by rfl

/-- `Document.clone` (deep clone of the root + `_copy_root_siblings` with a `copy` of every
    sibling): the clone has the same prologue, the same root and the same epilogue, in order —
    only the identities differ —, its identities are exactly the `(idsOfDoc d).length` fresh ones
    from `n` on, each used once, and hence it shares no identity with the original (whose
    identities are below the counter `n`) -/
theorem c10_document_clone (n : Nat) (d : PDoc) :
    stripList (cloneDocument n d).1.prologue = stripList d.prologue ∧
    strip (cloneDocument n d).1.root = strip d.root ∧
    stripList (cloneDocument n d).1.epilogue = stripList d.epilogue ∧
    (idsOfDoc (cloneDocument n d).1).Perm (List.range' n (idsOfDoc d).length) ∧
    (cloneDocument n d).2 = n + (idsOfDoc d).length ∧
    (idsOfDoc (cloneDocument n d).1).Nodup ∧
    ((∀ i ∈ idsOfDoc d, i < n) → ∀ i ∈ idsOfDoc (cloneDocument n d).1, i ∉ idsOfDoc d) := by
  have hr := ids_cloneP d.root n
  have hp := ids_cloneListP d.prologue (cloneP n d.root).2
  have he := ids_cloneListP d.epilogue.reverse (cloneListP (cloneP n d.root).2 d.prologue).2
  have hlen : (idsOfList d.epilogue.reverse).length = (idsOfList d.epilogue).length :=
    (idsOfList_reverse_perm d.epilogue).length_eq
  have hperm : (idsOfDoc (cloneDocument n d).1).Perm (List.range' n (idsOfDoc d).length) := by
    rw [cloneDocument_eq]
    simp only [idsOfDoc]
    refine (((List.perm_append_comm).append (idsOfList_reverse_perm _))).trans ?_
    rw [hr.1, hp.1, he.1, hp.2, hr.2, hlen, List.range'_append_1, Nat.add_assoc n, List.range'_append_1]
    simp only [List.length_append]
    rw [Nat.add_comm (idsOfList d.prologue).length]
  have hcount : (cloneDocument n d).2 = n + (idsOfDoc d).length := by
    rw [cloneDocument_eq]
    show (cloneListP (cloneListP (cloneP n d.root).2 d.prologue).2 d.epilogue.reverse).2 = _
    rw [he.2, hp.2, hr.2, hlen]
    simp only [idsOfDoc, List.length_append]
    omega
  refine ⟨?_, ?_, ?_, hperm, hcount, hperm.nodup_iff.2 (List.nodup_range' 1), ?_⟩
  · rw [cloneDocument_eq]; exact stripList_cloneListP _ _
  · rw [cloneDocument_eq]; exact strip_cloneP _ _
  · rw [cloneDocument_eq]
    simp only [stripList_reverse, stripList_cloneListP, List.reverse_reverse]
  · intro hold i hi hi'
    have := List.mem_range'_1.1 (hperm.mem_iff.1 hi)
    have := hold i hi'
    omega

/-- non-vacuity: a comment and a PI before, two comments after the root -/
example :
    cloneDocument 10 { prologue := [.comment 1 "a".toList, .pi 2 "t" []],
                       root := .tag 0 "" "r" [] [.text 3 "x".toList],
                       epilogue := [.comment 4 "y".toList, .comment 5 "z".toList] }
    = ({ prologue := [.comment 12 "a".toList, .pi 13 "t" []],
         root := .tag 10 "" "r" [] [.text 11 "x".toList],
         epilogue := [.comment 15 "y".toList, .comment 14 "z".toList] }, 16) := by rfl

end Delb.Clone

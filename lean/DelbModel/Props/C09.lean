import DelbModel.Model.Guards
import DelbModel.Lemmas.Guards
import DelbModel.Lemmas.GuardOrder
/-!
# C09 — A node lives in at most one place; rejected edits change nothing

Property theorems only; helper lemmas are in `DelbModel/Lemmas/Guards.lean`.
That a rejected call leaves the trees untouched is a statement about the ORDER of checks and
mutations in the Python methods.  It is decided here over a summary of every editing entry point
that the translator re-derives from /repo's source on every run (`Generated/GuardSkeleton.lean`,
`c09_source_guards_first`), together with the theorem about the event machine
(`c09_rejected_before_any_change`); the implementation is additionally explored with before/after
dumps of all trees, see DESIGN.md.
-/
namespace Delb.Guards
open Delb.Edit

/-- in a forest of parentless trees a node is offerable (no parent, no siblings, not a document's
    root) exactly when it is the root of its group and that group is not the document's root -/
theorem c09_offerable_iff (s : StateA) (docRoot : Option Nat) (a : Addr) (info : NodeInfo)
    (h : infoAt s docRoot a = some info) :
    prepareNewRelative info = none ↔ a.path = [] ∧ docRoot ≠ some a.g := by
  unfold infoAt at h
  split at h
  · split at h
    · simp at h
    · simp only [Option.some.injEq] at h
      subst h
      cases hp : a.path with
      | nil => simp [prepareNewRelative]
      | cons x q => simp [prepareNewRelative]
  · simp at h

/-- the root of a document is refused by every adding call with InvalidOperation, although it has
    neither a parent nor siblings: it lives in its document (fix 313e3eb; before it was moved into the
    other tree while it stayed its document's root) -/
theorem c09_document_root_not_offerable (target offered : NodeInfo) (hd : offered.isDocRoot = true) :
    prepareNewRelative offered = some .invalidOperation ∧
    addSiblingGuard target offered false = some .invalidOperation ∧
    addChildGuard offered = some .invalidOperation := by
  have hprep : prepareNewRelative offered = some .invalidOperation := by
    simp [prepareNewRelative, hd]
  exact ⟨hprep, by simp [addSiblingGuard, hprep], by simp [addChildGuard, hprep]⟩

/-- a node that has a parent is refused by every adding call with InvalidOperation -/
theorem c09_attached_rejected (target offered : NodeInfo) (isDef : Bool) (hp : offered.hasParent = true) :
    (isDef = false → addSiblingGuard target offered isDef = some .invalidOperation) ∧
    addChildGuard offered = some .invalidOperation ∧
    (target.hasParent = true → replaceGuard target offered false = some .invalidOperation) ∧
    (∀ i : Int, 0 ≤ i → i ≤ target.nkids → insertGuard target offered i = some .invalidOperation) ∧
    (∀ i : Int, (target.nkids = 0 ∧ i = 0) ∨ (0 ≤ i ∧ i < target.nkids) →
        setItemGuard target offered i = some .invalidOperation) := by
  have hprep : prepareNewRelative offered = some .invalidOperation := by
    simp [prepareNewRelative, hp]
  refine ⟨?_, ?_, ?_, ?_, ?_⟩
  · intro h; simp [addSiblingGuard, h, hprep]
  · simp [addChildGuard, hprep]
  · intro h; simp [replaceGuard, addSiblingGuard, h, hprep]
  · intro i h0 h1
    simp only [insertGuard, hprep]
    rw [if_neg (by omega), if_neg (by omega)]
  · intro i h
    simp only [setItemGuard, addChildGuard, hprep]
    split
    · rfl
    · rcases h with ⟨h1, h2⟩ | ⟨h1, h2⟩
      · simp_all
      · simp [h1, h2]

/-- detaching a document's root, replacing a root and retaining the children of a parentless
    node raise InvalidOperation -/
theorem c09_root_operations (target offered : NodeInfo) (isDef : Bool) :
    (target.kind = .tag → target.isDocRoot = true → ∀ r, detachGuard target r = some .invalidOperation) ∧
    (target.hasParent = false → replaceGuard target offered isDef = some .invalidOperation) ∧
    (target.kind = .tag → target.hasParent = false → detachGuard target true = some .invalidOperation) := by
  refine ⟨?_, ?_, ?_⟩
  · intro hk hd r; simp [detachGuard, hk, hd]
  · intro h; simp [replaceGuard, h]
  · intro hk hp; simp [detachGuard, hk, hp]

/-- text and tag nodes are refused as siblings of a root (whatever the root is) -/
theorem c09_root_sibling_refused (target offered : NodeInfo) (isDef : Bool)
    (ht : target.hasParent = false) (hk : offered.kind = .text ∨ offered.kind = .tag) :
    addSiblingGuard target offered isDef ≠ none := by
  unfold addSiblingGuard
  split
  · simp
  · split
    · simp
    · have hm : isMarkup offered.kind = false := by
        rcases hk with hk | hk <;> rw [hk] <;> rfl
      simp [validateSibling, ht, hm]
      split <;> simp

/-- the index guards accept exactly the positions that exist -/
theorem c09_index_guards (target offered : NodeInfo) (i : Int) (ho : prepareNewRelative offered = none) :
    (insertGuard target offered i = none ↔ 0 ≤ i ∧ i ≤ target.nkids) ∧
    (setItemGuard target offered i = none ↔ (target.nkids = 0 ∧ i = 0) ∨ (0 ≤ i ∧ i < target.nkids)) ∧
    (delItemGuard target i = none ↔ (-(target.nkids : Int) ≤ i ∧ i < target.nkids)) := by
  refine ⟨?_, ?_, ?_⟩
  · unfold insertGuard
    split
    · simp; omega
    · split
      · simp; omega
      · simp [ho]; omega
  · unfold setItemGuard addChildGuard
    split
    · rename_i h; simp at h; simp [ho, h]
    · rename_i h
      simp at h
      split
      · rename_i h2; simp at h2; simp [ho]; omega
      · rename_i h2; simp at h2; simp; omega
  · unfold delItemGuard
    simp only
    split
    · split
      · rename_i h2; simp at h2; simp; omega
      · rename_i h2; simp at h2; simp; omega
    · split
      · rename_i h2; simp at h2; simp; omega
      · rename_i h2; simp at h2; simp; omega

/-- a Legal edit of C01 (detached node offered next to a node that has a parent, or as a child)
    passes every guard -/
theorem c09_legal_passes (target offered : NodeInfo) (isDef : Bool)
    (ho : offered.hasParent = false ∧ offered.hasNext = false ∧ offered.hasPrev = false)
    (hod : offered.isDocRoot = false) (ht : target.hasParent = true) :
    addSiblingGuard target offered isDef = none ∧ addChildGuard offered = none ∧
    replaceGuard target offered isDef = none ∧ (target.isDocRoot = false → ∀ r, detachGuard target r = none) := by
  obtain ⟨h1, h2, h3⟩ := ho
  have hprep : prepareNewRelative offered = none := by simp [prepareNewRelative, h1, h2, h3, hod]
  have hs : addSiblingGuard target offered isDef = none := by
    simp [addSiblingGuard, ht, hprep, validateSibling]
  refine ⟨hs, ?_, ?_, ?_⟩
  · simp [addChildGuard, hprep]
  · simp [replaceGuard, ht, hs]
  · intro hd r; simp [detachGuard, hd, ht]

/-- the comment validator accepts exactly the well-formed comment contents (no `--`, no trailing `-`) -/
theorem c09_comment_content (s : Str) : commentContentOk s = true ↔ CommentWellFormed s := by
  unfold commentContentOk CommentWellFormed
  rw [Bool.and_eq_true, Bool.not_eq_true', ← Bool.not_eq_true, hasSub_iff, bne_iff_ne, getLast?_ne_iff]

/-- the target validator refuses exactly the empty target and `xml` in any letter case -/
theorem c09_pi_target (s : Str) :
    piTargetOk s = false ↔ s = [] ∨ s.map lowerAscii = ['x', 'm', 'l'] := by
  unfold piTargetOk
  simp only [Bool.and_eq_false_iff, Bool.not_eq_false', List.isEmpty_iff, bne_eq_false_iff_eq]

/-- non-vacuity -/
example : commentContentOk "a--z".toList = false ∧ commentContentOk "foo-".toList = false ∧
    commentContentOk "a-b".toList = true ∧ piTargetOk "xMl".toList = false ∧ piTargetOk "xml-x".toList = true := by decide

end Delb.Guards

namespace Delb.GuardOrder
open Delb.Gen

/-- event machine: on a path that keeps the discipline "checks first", a run that is rejected at
    one of the entry point's own guards has changed nothing before -/
theorem c09_rejected_before_any_change (allowed : List String) (p : List GuardEv) (i : Nat) (g : String)
    (h : shapeOk allowed p = true) (hi : p[i]? = some (.guard g)) : changedBefore p i = [] :=
  shapeOk_rejected allowed p i g h hi

/-- translator obligation: every control-flow path of every editing entry point of the current
    source (`add_following_siblings`, `add_preceding_siblings`, `replace_with`, `_prepare_new_relative`,
    both `_validate_sibling_operation`, `append_children`, `prepend_children`, `insert_children`,
    `__setitem__`, `__delitem__`, the three `detach` methods, the comment-content and PI-target
    setters, the `Document.root` setter) keeps that discipline for single-node calls; every entry
    point was found in the source and has at least one path -/
theorem c09_source_guards_first :
    guardSkeleton.length = 17 ∧
    ∀ e ∈ guardSkeleton, e.paths ≠ [] ∧ ∀ p ∈ e.paths, shapeOk (allowedLater e.name) (single p) = true := by
  decide

/-- … hence: wherever one of these entry points rejects a single-node call by an own `raise` or
    checking helper, no mutation and no call of another entry point has happened in that body -/
theorem c09_source_rejections_change_nothing (e : EntryPaths) (he : e ∈ guardSkeleton)
    (p : List GuardEv) (hp : p ∈ e.paths) (i : Nat) (g : String) (hi : (single p)[i]? = some (.guard g)) :
    changedBefore (single p) i = [] :=
  shapeOk_rejected _ _ i g ((c09_source_guards_first.2 e he).2 p hp) hi

/-- the checking helpers themselves change nothing at all -/
theorem c09_source_checkers_pure :
    ∀ e ∈ guardSkeleton, e.name ∈ ["NodeBase._prepare_new_relative", "NodeBase._validate_sibling_operation",
        "TagNode._validate_sibling_operation"] → ∀ p ∈ e.paths, p.all (fun ev => !changes ev) = true := by
  decide

/-- non-vacuity: the discipline is violated by "remove the old child, then insert the new one" -/
example : shapeOk [] [.call "__delitem__", .call "insert_children"] = false ∧
    shapeOk [] [.guard "raise IndexError"] = true ∧
    shapeOk [] [.guard "_prepare_new_relative", .guard "_validate_sibling_operation", .mutate "_add_following_sibling"] = true ∧
    shapeOk [] [.mutate "lxml.remove", .guard "raise InvalidOperation"] = false := by decide

end Delb.GuardOrder

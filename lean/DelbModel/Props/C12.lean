import DelbModel.Model.Document
import DelbModel.Lemmas.Document
import DelbModel.Lemmas.Clone
import DelbModel.Props.C02
/-!
# C12 — a saved document is a complete, decodable copy of the document

Model: `Model/Document.lean` (`docPieces` = what `Document.__serialize` writes, `readDoc` = the reading
side, `dropKinds` = the parser options, `setRoot` / `Clone.copyRootSiblings` = the root setter).
The byte level (codecs, newline translation by `io.TextIOWrapper`) is modelled in `Model/Codec.lean`
and proved in `Props/C12Codec.lean`; the correspondence check compares that model with Python.
-/
namespace Delb.Doc
open Delb.Ser

def isNewline : DPiece → Bool
  | .newline => true
  | _ => false

def lowerAscii (c : Char) : Char := if 'A' ≤ c ∧ c ≤ 'Z' then Char.ofNat (c.toNat + 32) else c

/-- every prologue / epilogue member is a comment or a processing instruction -/
def WellFormed (d : Document) : Prop := ∀ n ∈ d.prologue ++ d.epilogue, isMisc n = true

/-- the output starts with the XML declaration, and the declaration names the requested encoding
    (in upper case: the same label for codecs and XML, both being case-insensitive) -/
theorem c12_declaration_first (f : Bool) (enc : String) (d : Document) (rs : Str) :
    (docPieces f enc d rs).head? = some (.decl (upper enc)) ∧
    ∃ rest, renderDoc (docPieces f enc d rs)
      = ("<?xml version=\"1.0\" encoding=\"" ++ upper enc ++ "\"?>").toList ++ rest := by
  rw [docPieces_eq]
  exact ⟨rfl, _, by simp only [renderDoc, List.append_assoc, List.singleton_append]; rfl⟩

theorem c12_label_same_up_to_case (enc : String) :
    (upper enc).toList.map lowerAscii = enc.toList.map lowerAscii := by
  simp only [upper, String.toList_ofList, List.map_map]
  exact List.map_congr_left (fun c _ => lower_upper c)

/-- complete and in order: apart from separators the pieces are exactly declaration, prologue, root,
    epilogue -/
theorem c12_complete_in_order (f : Bool) (enc : String) (d : Document) (rs : Str) :
    (docPieces f enc d rs).filter (fun p => !isNewline p)
      = [.decl (upper enc)] ++ d.prologue.map .misc ++ [.root rs] ++ d.epilogue.map .misc := by
  obtain ⟨_, _, _, h⟩ := docPieces_filter (fun p => !isNewline p) (fun _ => rfl) rfl (fun _ => rfl)
    (fun _ => rfl) f enc d rs
  simpa using h

/-- separators: none without formatting -/
theorem c12_no_newline_unformatted (enc : String) (d : Document) (rs : Str) :
    ∀ p ∈ docPieces false enc d rs, isNewline p = false := by
  rw [docPieces_false]
  intro p hp
  simp only [List.mem_cons, List.mem_append, List.mem_map] at hp
  rcases hp with rfl | ⟨_, _, rfl⟩ | rfl | ⟨_, _, rfl⟩ <;> rfl

/-- separators with formatting: exactly one newline between two neighbouring constructs, none at the
    end: the pieces are the constructs interspersed with newlines -/
theorem c12_newlines_formatted (enc : String) (d : Document) (rs : Str) :
    docPieces true enc d rs
      = ([DPiece.decl (upper enc)] ++ d.prologue.map DPiece.misc ++ [DPiece.root rs] ++ d.epilogue.map DPiece.misc).intersperse DPiece.newline := by
  rw [docPieces_true]
  cases hp : d.prologue with
  | nil => simpa using (intersperse_map_append .newline (.root rs) [] d.epilogue).symm
  | cons x xs => simpa using (intersperse_map_append .newline (.root rs) (x :: xs) d.epilogue).symm

set_option linter.unusedVariables false in
/-- reading back gives the same label, prologue, root string and epilogue, for any number of
    comments / PIs and both separator modes -/
theorem c12_read_back (f : Bool) (enc : String) (d : Document) (rs : Str) (hw : WellFormed d) :
    readDoc (docPieces f enc d rs) = some (upper enc, d.prologue, rs, d.epilogue) := by
  obtain ⟨rest, h, hf, _⟩ := docPieces_filter (fun p => match p with | .newline => false | _ => true)
    (fun _ => rfl) rfl (fun _ => rfl) (fun _ => rfl) f enc d rs
  rw [h]; exact readDoc_of_filter _ _ _ _ _ hf

/-- … and with the plain serializer the root string is the rendering of tokens that rebuild the
    original root (C02), so the whole document is recovered -/
theorem c12_document_roundtrip (nsmap : Dict) (hn : NsMapOk nsmap) (enc : String) (d : Document)
    (hw : WellFormed d) (htag : d.root.isTag = true) (hs : Serializable d.root)
    (orders : List (List String)) (ho : ordersValid d.root orders = true) (m : Dict)
    (h : collect nsmap d.root orders = .ok m) :
    ∃ toks, emitRoot m d.root = .ok toks ∧
      readDoc (docPieces false enc d (render toks)) = some (upper enc, d.prologue, render toks, d.epilogue) ∧
      build toks = some (normalize d.root) := by
  obtain ⟨toks, ht, hb⟩ := c02_serialize_roundtrip nsmap hn d.root htag hs orders ho m h
  exact ⟨toks, ht, c12_read_back false enc d (render toks) hw, hb⟩

/-- replacing the root keeps prologue and epilogue (the spec) … -/
theorem c12_set_root_keeps (d : Document) (new : Node) :
    (setRoot d new).prologue = d.prologue ∧ (setRoot d new).epilogue = d.epilogue ∧ (setRoot d new).root = new := by
  exact ⟨rfl, rfl, rfl⟩

/-- … and the mechanism `_copy_root_siblings` (two stacks, nearest sibling first) delivers it -/
theorem c12_copy_root_siblings (prologue epilogue : List Edit.PTree) :
    Clone.copyRootSiblings prologue epilogue = (prologue, epilogue) := by
  simp [Clone.copyRootSiblings, Clone.pushAll_eq, Clone.popAddPrevious_eq, Clone.popAddNext_eq]

/-! ## parser options remove exactly the comments / processing instructions -/

/-- what a node is, without its children -/
inductive Label
  | tag (ns name : String) (attrs : List Attr)
  | text (s : Str)
  | comment (s : Str)
  | pi (target : String) (s : Str)
deriving Repr

mutual
  /-- all nodes of a tree in document order -/
  def labels : Node → List Label
    | .tag ns name a ks => .tag ns name a :: labelsList ks
    | .text s => [.text s]
    | .comment s => [.comment s]
    | .pi t s => [.pi t s]
  def labelsList : List Node → List Label
    | [] => []
    | k :: ks => labels k ++ labelsList ks
end

def keepLabel (comments pis : Bool) : Label → Bool
  | .comment _ => !comments
  | .pi .. => !pis
  | _ => true

/- helper (here rather than in `Lemmas/Document.lean` because `labels` is defined in this file):
   the two statements below by mutual structural recursion -/
mutual
  private theorem labels_dropKinds (comments pis : Bool) : ∀ (t : Node), t.isTag = true →
      labels (dropKinds comments pis t) = (labels t).filter (keepLabel comments pis)
    | .tag _ _ _ ks, _ => by
      simp [dropKinds, labels, List.filter_cons, keepLabel, labelsList_dropKindsList comments pis ks]
  private theorem labelsList_dropKindsList (comments pis : Bool) : ∀ (ks : List Node),
      labelsList (dropKindsList comments pis ks) = (labelsList ks).filter (keepLabel comments pis)
    | [] => by simp [dropKindsList, labelsList]
    | .tag ns name a ks' :: ks => by
      simp only [dropKindsList, labelsList, List.filter_append,
        labels_dropKinds comments pis (.tag ns name a ks') rfl, labelsList_dropKindsList comments pis ks]
    | .text _ :: ks => by
      simp [dropKindsList, dropKinds, labelsList, labels, List.filter_cons, keepLabel,
        labelsList_dropKindsList comments pis ks]
    | .comment _ :: ks => by
      cases comments <;>
        simp [dropKindsList, labelsList, labels, keepLabel, labelsList_dropKindsList _ pis ks]
    | .pi _ _ :: ks => by
      cases pis <;>
        simp [dropKindsList, labelsList, labels, keepLabel, labelsList_dropKindsList comments _ ks]
end

/-- exactly the comments (resp. PIs) go, everything else stays, in order, at every depth
    (`ht` is needed: a bare comment / PI is not removed by `dropKinds` itself, only as a child) -/
theorem c12_drop_exact (comments pis : Bool) (t : Node) (ht : t.isTag = true) :
    labels (dropKinds comments pis t) = (labels t).filter (keepLabel comments pis) := by
  exact labels_dropKinds comments pis t ht

theorem c12_drop_exact_siblings (comments pis : Bool) (ks : List Node) :
    labelsList (dropKindsList comments pis ks) = (labelsList ks).filter (keepLabel comments pis) := by
  exact labelsList_dropKindsList comments pis ks

/-- nesting is untouched: with nothing to drop the tree is unchanged -/
theorem c12_drop_nothing (t : Node) : dropKinds false false t = t := by
  exact dropKinds_nothing t

/-- the depth of every remaining node is unchanged: dropping commutes with taking the children of a tag -/
theorem c12_drop_children (comments pis : Bool) (ns name : String) (a : List Attr) (ks : List Node) :
    dropKinds comments pis (.tag ns name a ks) = .tag ns name a (dropKindsList comments pis ks) := by
  simp [dropKinds]

/-! non-vacuity -/
example : WellFormed { prologue := [.comment ['a'], .pi "t" []], root := .tag "" "r" [] [], epilogue := [.comment []] } := by
  intro n hn
  simp at hn
  rcases hn with h | h | h <;> subst h <;> rfl

end Delb.Doc

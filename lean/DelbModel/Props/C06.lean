import DelbModel.Model.XPath.Eval
import DelbModel.Lemmas.XPathEval
/-!
# C06 — XPath queries select what XPath 1.0 says they select

Property theorems only; helper lemmas are in `DelbModel/Lemmas/XPathEval.lean`.
Addresses (`List Nat`) name nodes; `p <+: q` (prefix) is the ancestor-or-self relation, the
order of `docOrder root` is document order.  The three established deviations are part of the
statements: an unprefixed name means the declared default namespace (`nodeTest`), `following` /
`preceding` include descendants / ancestors, `node()` selects tag nodes (and the document node).
-/
namespace Delb.XPath
open Delb.Edit

/-- `docOrder` lists exactly the addresses that exist, each once -/
theorem c06_docorder (root : PTree) :
    (docOrder root).Nodup ∧ ∀ p, p ∈ docOrder root ↔ (getAtP root p).isSome := by
  exact ⟨docOrder_nodup root, mem_docOrder root⟩

/-- document order extends the ancestor relation: a node comes before its descendants -/
theorem c06_docorder_prefix (root : PTree) (p q : List Nat) (hq : q ∈ docOrder root) (hpq : p <+: q) (hne : p ≠ q) :
    ∃ l₁ l₂ l₃, docOrder root = l₁ ++ p :: l₂ ++ q :: l₃ := by
  exact before_of_pairwise (docOrder_sorted root) (mem_docOrder_of_prefix hq hpq) hq (pathLt_of_prefix hpq hne)

/-- child axis: the children, in document order -/
theorem c06_axis_child (root : PTree) (p : List Nat) :
    axisNodes root "child" (.at p) = .ok ((List.range (kidsCount root p)).map (fun i => XNode.at (p ++ [i]))) ∧
    ∀ i, i < kidsCount root p ↔ (getAtP root (p ++ [i])).isSome := by
  exact ⟨rfl, lt_kidsCount_iff root p⟩

/-- descendant axis: exactly the proper descendants, in document order -/
theorem c06_axis_descendant (root : PTree) (p : List Nat) (l : List XNode)
    (h : axisNodes root "descendant" (.at p) = .ok l) :
    l = (descendantPaths root p).map XNode.at ∧
    (∀ q, q ∈ descendantPaths root p ↔ (p <+: q ∧ q ≠ p ∧ (getAtP root q).isSome)) ∧
    (descendantPaths root p).Sublist (docOrder root) := by
  have h' : axisNodes root "descendant" (.at p) = .ok ((descendantPaths root p).map XNode.at) := rfl
  rw [h'] at h
  cases h
  exact ⟨rfl, mem_descendantPaths root p, descendantPaths_sublist root p⟩

/-- ancestor axis: the proper prefixes, nearest first, then the document node -/
theorem c06_axis_ancestor (root : PTree) (p : List Nat) (l : List XNode)
    (h : axisNodes root "ancestor" (.at p) = .ok l) :
    l = (ancestorPaths p).map XNode.at ++ [.doc] ∧
    (∀ q, q ∈ ancestorPaths p ↔ (q <+: p ∧ q ≠ p)) ∧
    (ancestorPaths p).map List.length = (List.range p.length).reverse := by
  have h' : axisNodes root "ancestor" (.at p) = .ok ((ancestorPaths p).map XNode.at ++ [.doc]) := rfl
  rw [h'] at h
  cases h
  exact ⟨rfl, fun q => mem_ancestorPaths p q, ancestorPaths_lengths p⟩

/-- following / preceding (delb's reading): everything after / before the node in document order,
    nearest first; together with the node they partition the document -/
theorem c06_axis_following_preceding (root : PTree) (p : List Nat) (hp : p ∈ docOrder root) :
    axisNodes root "following" (.at p) = .ok ((followingPaths root p).map XNode.at) ∧
    axisNodes root "preceding" (.at p) = .ok ((precedingPaths root p).map XNode.at) ∧
    (precedingPaths root p).reverse ++ p :: followingPaths root p = docOrder root := by
  exact ⟨rfl, rfl, preceding_following_partition root p hp⟩

/-- sibling axes: the later / earlier children of the parent, nearest first -/
theorem c06_axis_siblings (root : PTree) (par : List Nat) (i : Nat) :
    siblingsAfter root (par ++ [i]) = ((List.range (kidsCount root par)).filter (· > i)).map (fun j => par ++ [j]) ∧
    siblingsBefore root (par ++ [i]) = ((List.range i).reverse).map (fun j => par ++ [j]) := by
  exact ⟨siblingsAfter_eq root par i, siblingsBefore_eq root par i⟩

/-- every axis yields each node at most once -/
theorem c06_axis_nodup (root : PTree) (axis : String) (n : XNode) (l : List XNode)
    (hn : ∀ p, n = .at p → p ∈ docOrder root) (h : axisNodes root axis n = .ok l) : l.Nodup := by
  have _ := hn  -- not needed: the axes are duplicate-free for any address
  exact axis_nodup root axis n l h

/-- a location step selects a sub-sequence of its axis (axis order kept), and only nodes that pass
    the node test -/
theorem c06_step_selects (root : PTree) (env : NsEnv) (s : Step) (n : XNode) (axis r : List XNode)
    (ha : axisNodes root s.axis n = .ok axis) (h : evalStepAt root env s n = .ok r) :
    r.Sublist axis ∧ ∀ m ∈ r, nodeTest root env s.test m = .ok true := by
  obtain ⟨cands, hc, hp⟩ := evalStepAt_spec root env s n axis r ha h
  obtain ⟨hs, hm⟩ := filterTest_spec root env s.test axis cands hc
  have hr := applyPreds_sublist root env s.preds cands r hp
  exact ⟨hr.trans hs, fun m hmr => ((hm m).1 (hr.subset hmr)).2⟩

/-- without predicates it selects exactly the axis nodes passing the test -/
theorem c06_step_no_predicates (root : PTree) (env : NsEnv) (ax : String) (t : NodeTest) (n : XNode)
    (axis r : List XNode) (ha : axisNodes root ax n = .ok axis)
    (h : evalStepAt root env { axis := ax, test := t, preds := [] } n = .ok r) :
    ∀ m, m ∈ r ↔ (m ∈ axis ∧ nodeTest root env t m = .ok true) := by
  obtain ⟨cands, hc, hp⟩ := evalStepAt_spec root env _ n axis r ha h
  simp only [applyPreds, Except.ok.injEq] at hp
  subst hp
  exact (filterTest_spec root env t axis cands hc).2

/-- a positional predicate `[k]` selects the k-th node of the candidates in axis order
    (proximity position, also on reverse axes since those list nearest first) -/
theorem c06_step_position (root : PTree) (env : NsEnv) (ax : String) (t : NodeTest) (n : XNode) (k : Nat)
    (cands r : List XNode)
    (hc : evalStepAt root env { axis := ax, test := t, preds := [] } n = .ok cands)
    (h : evalStepAt root env { axis := ax, test := t, preds := [Expr.binop "=" (Expr.func "position".toList []) (Expr.num k)] } n = .ok r) :
    r = (match k with | 0 => [] | k' + 1 => (cands[k']?).toList) := by
  cases ha : axisNodes root ax n with
  | error e => simp [evalStepAt, ha] at hc
  | ok axis =>
    obtain ⟨c1, hc1, hp1⟩ := evalStepAt_spec root env _ n axis cands ha hc
    obtain ⟨c2, hc2, hp2⟩ := evalStepAt_spec root env _ n axis r ha h
    simp only [applyPreds, Except.ok.injEq] at hp1
    subst hp1
    simp only at hc1 hc2
    rw [hc1] at hc2
    cases hc2
    simp only [filterPred_poseq, applyPreds, Except.ok.injEq] at hp2
    subst hp2
    cases k with
    | zero => simp
    | succ k' => simp

/-- stacked predicates renumber: the second predicate sees positions within the survivors of the first -/
theorem c06_preds_compose (root : PTree) (env : NsEnv) (p : Expr) (ps : List Expr) (cands : List XNode) :
    applyPreds root env (p :: ps) cands =
      (match filterPred root env p cands.length 1 cands with
       | .error e => .error e
       | .ok next => applyPreds root env ps next) := by
  exact applyPreds_cons root env p ps cands

/-- a step over a node set is the union of the per-node results … -/
theorem c06_step_union (root : PTree) (env : NsEnv) (s : Step) (ns r : List XNode)
    (h : evalStep root env s [] ns = .ok r) :
    ∀ m, m ∈ r ↔ ∃ n ∈ ns, ∃ l, evalStepAt root env s n = .ok l ∧ m ∈ l := by
  intro m
  rw [(evalStep_spec root env s [] ns r h).2 m]
  simp

/-- … in which every node occurs once -/
theorem c06_step_nodup (root : PTree) (env : NsEnv) (s : Step) (ns r : List XNode)
    (h : evalStep root env s [] ns = .ok r) : r.Nodup := by
  exact (evalStep_spec root env s [] ns r h).1 List.nodup_nil

/-- the result of a whole expression is duplicate-free and is the union of its paths' results -/
theorem c06_result (root : PTree) (env : NsEnv) (ctx : List Nat) (x : XExpr) (r : List XNode)
    (h : evaluate root env ctx x = .ok r) :
    r.Nodup ∧ (.doc ∉ r) ∧
    ∀ m, m ∈ r ↔ ∃ p ∈ x, ∃ l, evalPath root env ctx p = .ok l ∧ m ∈ l := by
  obtain ⟨hn, hd, hm⟩ := evalPaths_spec root env ctx [] x r h
  refine ⟨hn List.nodup_nil, hd (by simp), fun m => ?_⟩
  rw [hm m]
  simp

/-- `in_document_order()`: the same addresses, sorted by document order, each once -/
theorem c06_sorted (ps : List (List Nat)) :
    (∀ p, p ∈ Nav.sortPaths ps ↔ p ∈ ps) ∧ (Nav.sortPaths ps).Pairwise (fun (a b : List Nat) => Nav.pathLt a b = true) := by
  exact sortPaths_spec ps

/-- lexicographic path order is document order -/
theorem c06_pathlt_docorder (root : PTree) (p q : List Nat) (hp : p ∈ docOrder root) (hq : q ∈ docOrder root) :
    Nav.pathLt p q = true ↔ ∃ l₁ l₂ l₃, docOrder root = l₁ ++ p :: l₂ ++ q :: l₃ := by
  constructor
  · intro h
    exact before_of_pairwise (docOrder_sorted root) hp hq h
  · rintro ⟨l₁, l₂, l₃, h⟩
    exact pathLt_of_before (docOrder_sorted root) h

/-- non-vacuity: `//a[@k="1"]/text() | a[2]` from the root (AST written out) -/
example : evaluate (.tag 0 "" "r" [] [.tag 1 "" "a" [⟨"", "k", "1".toList⟩] [.text 2 "t".toList], .comment 3 [],
                    .tag 4 "" "a" [] []]) [("", "")] []
    [{ absolute := true, steps := [
        { axis := "descendant_or_self", test := .type "TagNode", preds := [] },
        { axis := "child", test := .name none "a".toList,
          preds := [.binop "=" (.attrVal none "k".toList) (.str "1".toList)] },
        { axis := "child", test := .type "TextNode", preds := [] }] },
     { absolute := false, steps := [
        { axis := "child", test := .name none "a".toList,
          preds := [.binop "=" (.func "position".toList []) (.num 2)] }] }]
    = .ok [.at [0, 0], .at [2]] := by rfl

end Delb.XPath

import DelbModel.Model.XPath.Eval
import DelbModel.Model.XPath.Spec
import DelbModel.Model.XPath.PredSpec
import DelbModel.Lemmas.XPathEval
/-!
# C06 — XPath queries select what XPath 1.0 says they select

Property theorems only; helper lemmas are in `DelbModel/Lemmas/XPathEval.lean`.
Addresses (`List Nat`) name nodes; `p <+: q` (prefix) is the ancestor-or-self relation, the
order of `docOrder root` is document order.  The three established deviations are part of the
statements: an unprefixed name means the declared default namespace (`nodeTest`), `following` /
`preceding` include descendants / ancestors, `node()` selects tag nodes (and the document node).
-/
namespace Delb.XPath
open Delb.Edit

/-- `docOrder` lists exactly the addresses that exist, each once -/
theorem c06_docorder (root : PTree) :
    (docOrder root).Nodup ∧ ∀ p, p ∈ docOrder root ↔ (getAtP root p).isSome := by
  exact ⟨docOrder_nodup root, mem_docOrder root⟩

/-- document order extends the ancestor relation: a node comes before its descendants -/
theorem c06_docorder_prefix (root : PTree) (p q : List Nat) (hq : q ∈ docOrder root) (hpq : p <+: q) (hne : p ≠ q) :
    ∃ l₁ l₂ l₃, docOrder root = l₁ ++ p :: l₂ ++ q :: l₃ := by
  exact before_of_pairwise (docOrder_sorted root) (mem_docOrder_of_prefix hq hpq) hq (pathLt_of_prefix hpq hne)

/-- child axis: the children, in document order -/
theorem c06_axis_child (root : PTree) (p : List Nat) :
    axisNodes root "child" (.at p) = .ok ((List.range (kidsCount root p)).map (fun i => XNode.at (p ++ [i]))) ∧
    ∀ i, i < kidsCount root p ↔ (getAtP root (p ++ [i])).isSome := by
  exact ⟨rfl, lt_kidsCount_iff root p⟩

/-- descendant axis: exactly the proper descendants, in document order -/
theorem c06_axis_descendant (root : PTree) (p : List Nat) (l : List XNode)
    (h : axisNodes root "descendant" (.at p) = .ok l) :
    l = (descendantPaths root p).map XNode.at ∧
    (∀ q, q ∈ descendantPaths root p ↔ (p <+: q ∧ q ≠ p ∧ (getAtP root q).isSome)) ∧
    (descendantPaths root p).Sublist (docOrder root) := by
  have h' : axisNodes root "descendant" (.at p) = .ok ((descendantPaths root p).map XNode.at) := rfl
  rw [h'] at h
  cases h
  exact ⟨rfl, mem_descendantPaths root p, descendantPaths_sublist root p⟩

/-- ancestor axis: the proper prefixes, nearest first, then the document node -/
theorem c06_axis_ancestor (root : PTree) (p : List Nat) (l : List XNode)
    (h : axisNodes root "ancestor" (.at p) = .ok l) :
    l = (ancestorPaths p).map XNode.at ++ [.doc] ∧
    (∀ q, q ∈ ancestorPaths p ↔ (q <+: p ∧ q ≠ p)) ∧
    (ancestorPaths p).map List.length = (List.range p.length).reverse := by
  have h' : axisNodes root "ancestor" (.at p) = .ok ((ancestorPaths p).map XNode.at ++ [.doc]) := rfl
  rw [h'] at h
  cases h
  exact ⟨rfl, fun q => mem_ancestorPaths p q, ancestorPaths_lengths p⟩

/-- following / preceding (delb's reading): everything after / before the node in document order,
    nearest first; together with the node they partition the document -/
theorem c06_axis_following_preceding (root : PTree) (p : List Nat) (hp : p ∈ docOrder root) :
    axisNodes root "following" (.at p) = .ok ((followingPaths root p).map XNode.at) ∧
    axisNodes root "preceding" (.at p) = .ok ((precedingPaths root p).map XNode.at) ∧
    (precedingPaths root p).reverse ++ p :: followingPaths root p = docOrder root := by
  exact ⟨rfl, rfl, preceding_following_partition root p hp⟩

/-- sibling axes: the later / earlier children of the parent, nearest first -/
theorem c06_axis_siblings (root : PTree) (par : List Nat) (i : Nat) :
    siblingsAfter root (par ++ [i]) = ((List.range (kidsCount root par)).filter (· > i)).map (fun j => par ++ [j]) ∧
    siblingsBefore root (par ++ [i]) = ((List.range i).reverse).map (fun j => par ++ [j]) := by
  exact ⟨siblingsAfter_eq root par i, siblingsBefore_eq root par i⟩

/-- every axis yields each node at most once -/
theorem c06_axis_nodup (root : PTree) (axis : String) (n : XNode) (l : List XNode)
    (hn : ∀ p, n = .at p → p ∈ docOrder root) (h : axisNodes root axis n = .ok l) : l.Nodup := by
  have _ := hn  -- not needed: the axes are duplicate-free for any address
  exact axis_nodup root axis n l h

/-- a location step selects a sub-sequence of its axis (axis order kept), and only nodes that pass
    the node test -/
theorem c06_step_selects (root : PTree) (env : NsEnv) (s : Step) (n : XNode) (axis r : List XNode)
    (ha : axisNodes root s.axis n = .ok axis) (h : evalStepAt root env s n = .ok r) :
    r.Sublist axis ∧ ∀ m ∈ r, nodeTest root env s.test m = .ok true := by
  obtain ⟨cands, hc, hp⟩ := evalStepAt_spec root env s n axis r ha h
  obtain ⟨hs, hm⟩ := filterTest_spec root env s.test axis cands hc
  have hr := applyPreds_sublist root env s.preds cands r hp
  exact ⟨hr.trans hs, fun m hmr => ((hm m).1 (hr.subset hmr)).2⟩

/-- without predicates it selects exactly the axis nodes passing the test -/
theorem c06_step_no_predicates (root : PTree) (env : NsEnv) (ax : String) (t : NodeTest) (n : XNode)
    (axis r : List XNode) (ha : axisNodes root ax n = .ok axis)
    (h : evalStepAt root env { axis := ax, test := t, preds := [] } n = .ok r) :
    ∀ m, m ∈ r ↔ (m ∈ axis ∧ nodeTest root env t m = .ok true) := by
  obtain ⟨cands, hc, hp⟩ := evalStepAt_spec root env _ n axis r ha h
  simp only [applyPreds, Except.ok.injEq] at hp
  subst hp
  exact (filterTest_spec root env t axis cands hc).2

/-- a positional predicate `[k]` selects the k-th node of the candidates in axis order
    (proximity position, also on reverse axes since those list nearest first) -/
theorem c06_step_position (root : PTree) (env : NsEnv) (ax : String) (t : NodeTest) (n : XNode) (k : Nat)
    (cands r : List XNode)
    (hc : evalStepAt root env { axis := ax, test := t, preds := [] } n = .ok cands)
    (h : evalStepAt root env { axis := ax, test := t, preds := [Expr.binop "=" (Expr.func "position".toList []) (Expr.num k)] } n = .ok r) :
    r = (match k with | 0 => [] | k' + 1 => (cands[k']?).toList) := by
  cases ha : axisNodes root ax n with
  | error e => simp [evalStepAt, ha] at hc
  | ok axis =>
    obtain ⟨c1, hc1, hp1⟩ := evalStepAt_spec root env _ n axis cands ha hc
    obtain ⟨c2, hc2, hp2⟩ := evalStepAt_spec root env _ n axis r ha h
    simp only [applyPreds, Except.ok.injEq] at hp1
    subst hp1
    simp only at hc1 hc2
    rw [hc1] at hc2
    cases hc2
    simp only [filterPred_poseq, applyPreds, Except.ok.injEq] at hp2
    subst hp2
    cases k with
    | zero => simp
    | succ k' => simp

/-- stacked predicates renumber: the second predicate sees positions within the survivors of the first -/
theorem c06_preds_compose (root : PTree) (env : NsEnv) (p : Expr) (ps : List Expr) (cands : List XNode) :
    applyPreds root env (p :: ps) cands =
      (match filterPred root env p cands.length 1 cands with
       | .error e => .error e
       | .ok next => applyPreds root env ps next) := by
  exact applyPreds_cons root env p ps cands

/-- a step over a node set is the union of the per-node results … -/
theorem c06_step_union (root : PTree) (env : NsEnv) (s : Step) (ns r : List XNode)
    (h : evalStep root env s [] ns = .ok r) :
    ∀ m, m ∈ r ↔ ∃ n ∈ ns, ∃ l, evalStepAt root env s n = .ok l ∧ m ∈ l := by
  intro m
  rw [(evalStep_spec root env s [] ns r h).2 m]
  simp

/-- … in which every node occurs once -/
theorem c06_step_nodup (root : PTree) (env : NsEnv) (s : Step) (ns r : List XNode)
    (h : evalStep root env s [] ns = .ok r) : r.Nodup := by
  exact (evalStep_spec root env s [] ns r h).1 List.nodup_nil

/-- the result of a whole expression is duplicate-free and is the union of its paths' results -/
theorem c06_result (root : PTree) (env : NsEnv) (ctx : List Nat) (x : XExpr) (r : List XNode)
    (h : evaluate root env ctx x = .ok r) :
    r.Nodup ∧ (.doc ∉ r) ∧
    ∀ m, m ∈ r ↔ ∃ p ∈ x, ∃ l, evalPath root env ctx p = .ok l ∧ m ∈ l := by
  obtain ⟨hn, hd, hm⟩ := evalPaths_spec root env ctx [] x r h
  refine ⟨hn List.nodup_nil, hd (by simp), fun m => ?_⟩
  rw [hm m]
  simp

/-- `in_document_order()`: the same addresses, sorted by document order, each once -/
theorem c06_sorted (ps : List (List Nat)) :
    (∀ p, p ∈ Nav.sortPaths ps ↔ p ∈ ps) ∧ (Nav.sortPaths ps).Pairwise (fun (a b : List Nat) => Nav.pathLt a b = true) := by
  exact sortPaths_spec ps

/-- lexicographic path order is document order -/
theorem c06_pathlt_docorder (root : PTree) (p q : List Nat) (hp : p ∈ docOrder root) (hq : q ∈ docOrder root) :
    Nav.pathLt p q = true ↔ ∃ l₁ l₂ l₃, docOrder root = l₁ ++ p :: l₂ ++ q :: l₃ := by
  constructor
  · intro h
    exact before_of_pairwise (docOrder_sorted root) hp hq h
  · rintro ⟨l₁, l₂, l₃, h⟩
    exact pathLt_of_before (docOrder_sorted root) h

/-- non-vacuity: `//a[@k="1"]/text() | a[2]` from the root (AST written out) -/
example : evaluate (.tag 0 "" "r" [] [.tag 1 "" "a" [⟨"", "k", "1".toList⟩] [.text 2 "t".toList], .comment 3 [],
                    .tag 4 "" "a" [] []]) [("", "")] []
    [{ absolute := true, steps := [
        { axis := "descendant_or_self", test := .type "TagNode", preds := [] },
        { axis := "child", test := .name none "a".toList,
          preds := [.binop "=" (.attrVal none "k".toList) (.str "1".toList)] },
        { axis := "child", test := .type "TextNode", preds := [] }] },
     { absolute := false, steps := [
        { axis := "child", test := .name none "a".toList,
          preds := [.binop "=" (.func "position".toList []) (.num 2)] }] }]
    = .ok [.at [0, 0], .at [2]] := by rfl

/-! ## the mechanism computes the XPath 1.0 denotation

`Model/XPath/Spec.lean` states what a location path means in the words of the recommendation (axes as
relations, proximity order, predicates numbered within the current node list, composition, union), with
the three established deviations built in.  The theorems below say that the mechanism model, whenever
it returns, returns exactly that.

Hypotheses that recur:
* the context node is a node of the tree (`ctx ∈ docNodes root`, for paths `ctx ∈ docOrder root`);
* `DocTypeOk s c`: step `s` does not test the root node with `text()` / `comment()` /
  `processing-instruction()` — recorded finding `document-node-type-tests` (the `_DocumentNode` passes
  every node type test); where it shows, mechanism and specification differ (counterexample below).
  `stepDocTypeFree` is a check on the steps alone that implies it. -/

/-- every axis generator yields the nodes related to the context node by the axis relation, in proximity
    order (document order for forward axes, reverse document order for reverse axes) -/
theorem c06_axis_eq_denotation (root : PTree) (axis : String) (ctx : XNode) (l : List XNode)
    (hctx : ctx ∈ docNodes root) (h : axisNodes root axis ctx = .ok l) :
    l = axisDenote root axis ctx ∧
    (∀ n, n ∈ l ↔ (n ∈ docNodes root ∧ axisRel axis ctx n = true)) := by
  have e := axisNodes_eq_denote root axis ctx l hctx h
  subst e
  exact ⟨rfl, mem_axisDenote root axis ctx⟩

/-- a location step at one context node: the returned LIST is the denotation — the same nodes in the
    same (proximity) order, each once -/
theorem c06_step_eq_denotation (root : PTree) (env : NsEnv) (s : Step) (ctx : XNode) (r : List XNode)
    (hctx : ctx ∈ docNodes root) (hd : DocTypeOk s ctx)
    (h : evalStepAt root env s ctx = .ok r) :
    r = stepDenote root env s ctx ∧ r.Nodup := by
  have e := evalStepAt_eq_denote root env s ctx r hctx hd h
  subst e
  exact ⟨rfl, stepDenote_nodup root env s ctx⟩

/-- a location step over a node set: as a SET the union of the denotations over its members, each node
    once (the order is that of first occurrence and is not part of the denotation) -/
theorem c06_step_set_eq_denotation (root : PTree) (env : NsEnv) (s : Step) (ns r : List XNode)
    (hv : ∀ c ∈ ns, c ∈ docNodes root) (hd : ∀ c ∈ ns, DocTypeOk s c)
    (h : evalStep root env s [] ns = .ok r) :
    (∀ m, m ∈ r ↔ ∃ c ∈ ns, m ∈ stepDenote root env s c) ∧ r.Nodup := by
  exact evalStep_eq_denote root env s ns r hv hd h

/-- a location path: the result is, as a set, the denotation, and names every node once -/
theorem c06_path_eq_denotation (root : PTree) (env : NsEnv) (ctx : List Nat) (p : Path) (r : List XNode)
    (hctx : ctx ∈ docOrder root)
    (hd : ∀ s c, Visits root env p.steps (pathStart ctx p) s c → DocTypeOk s c)
    (h : evalPath root env ctx p = .ok r) :
    (∀ n, n ∈ r ↔ n ∈ pathDenote root env ctx p) ∧ r.Nodup := by
  exact evalPath_eq_denote root env ctx p r hctx hd h

/-- membership in the denotation of a path is the existence of a chain of context nodes (§2.1) -/
theorem c06_path_denotation_chain (root : PTree) (env : NsEnv) (ctx : List Nat) (p : Path) (n : XNode) :
    n ∈ pathDenote root env ctx p ↔ Selects root env p.steps (pathStart ctx p) n := by
  exact mem_pathDenote root env ctx p n

/-- a whole expression: the result is, as a set, the union of the paths' denotations, names every node
    once, does not contain the root node, and `in_document_order()` of it is the denotation's tree
    nodes listed in document order -/
theorem c06_expr_eq_denotation (root : PTree) (env : NsEnv) (ctx : List Nat) (x : XExpr) (r : List XNode)
    (hctx : ctx ∈ docOrder root)
    (hd : ∀ p ∈ x, ∀ s c, Visits root env p.steps (pathStart ctx p) s c → DocTypeOk s c)
    (h : evaluate root env ctx x = .ok r) :
    (∀ n, n ∈ r ↔ n ∈ exprDenote root env ctx x) ∧ r.Nodup ∧ XNode.doc ∉ r ∧
    Nav.sortPaths (addrsOf r) = exprDenoteSorted root env ctx x := by
  obtain ⟨hm, hn, hdoc⟩ := evaluate_eq_denote root env ctx x r hctx hd h
  exact ⟨hm, hn, hdoc, sortPaths_eq_denoteSorted root env ctx x r hctx hm⟩

/-- the same with a condition on the steps alone: no step combines `text()` / `comment()` /
    `processing-instruction()` with an axis that can contain the root node -/
theorem c06_expr_eq_denotation_of_free (root : PTree) (env : NsEnv) (ctx : List Nat) (x : XExpr) (r : List XNode)
    (hctx : ctx ∈ docOrder root)
    (hfree : ∀ p ∈ x, ∀ s ∈ p.steps, stepDocTypeFree s = true)
    (h : evaluate root env ctx x = .ok r) :
    (∀ n, n ∈ r ↔ n ∈ exprDenote root env ctx x) ∧ r.Nodup ∧ XNode.doc ∉ r ∧
    Nav.sortPaths (addrsOf r) = exprDenoteSorted root env ctx x := by
  refine c06_expr_eq_denotation root env ctx x r hctx (fun p hp s c hv => ?_) h
  exact docTypeOk_of_free s c (hfree p hp s (visits_mem root env _ _ s c hv))

/-- the denotation itself is well-formed: a step selects nodes of the document, each once, as a
    sub-sequence of the axis; everything a path selects is a node of the document -/
theorem c06_denotation_wf (root : PTree) (env : NsEnv) (s : Step) (c : XNode) :
    (stepDenote root env s c).Sublist (axisDenote root s.axis c) ∧ (stepDenote root env s c).Nodup ∧
    (∀ n ∈ stepDenote root env s c, n ∈ docNodes root) ∧
    (∀ ss m, c ∈ docNodes root → Selects root env ss c m → m ∈ docNodes root) := by
  exact ⟨stepDenote_sublist root env s c, stepDenote_nodup root env s c,
    fun n hn => stepDenote_subset_docNodes root env s c n hn,
    fun ss m hc hs => selects_subset_docNodes root env ss c m hc hs⟩

/-- the auxiliary relations of the specification are what their names say: `docNodes` lists the root
    node and the existing addresses, `docBefore` is the order of that listing, the ancestors are the
    parent and the parent's ancestors -/
theorem c06_spec_relations (root : PTree) :
    (∀ p, XNode.at p ∈ docNodes root ↔ (getAtP root p).isSome) ∧ XNode.doc ∈ docNodes root ∧
    (docNodes root).Nodup ∧
    (∀ a b, a ∈ docNodes root → b ∈ docNodes root →
      (docBefore a b = true ↔ ∃ l₁ l₂ l₃, docNodes root = l₁ ++ a :: l₂ ++ b :: l₃)) ∧
    (∀ a n, isAncestorOf a n = true ↔
      (parentOf n = some a ∨ ∃ m, parentOf n = some m ∧ isAncestorOf a m = true)) := by
  refine ⟨fun p => ?_, doc_mem_docNodes root, docNodes_nodup root,
    fun a b ha hb => docBefore_iff root a b ha hb, isAncestorOf_unfold⟩
  rw [at_mem_docNodes, mem_docOrder]

/-! ### when the mechanism raises

`StepSafe root env s c` (Spec.lean) lists the marked situations: an axis the `_DocumentNode` does not
offer (recorded finding `document-node-axes`), an unbound prefix in the name test
(`XPathEvaluationError`), `processing-instruction('t')` applied to the root node, a predicate whose
evaluation raises (recorded findings on predicate values).  Outside them nothing raises, except for the
final assertion that the root node is not in the result (recorded finding `parent-of-root`). -/

/-- a step at one context node returns outside the marked situations -/
theorem c06_step_total (root : PTree) (env : NsEnv) (s : Step) (c : XNode) (hc : c ∈ docNodes root)
    (hs : StepSafe root env s c) (hd : DocTypeOk s c) :
    ∃ r, evalStepAt root env s c = .ok r := by
  exact evalStepAt_ok root env s c hc hs hd

/-- a path returns if none of the (step, context node) pairs it visits is a marked situation -/
theorem c06_path_total (root : PTree) (env : NsEnv) (ctx : List Nat) (p : Path) (hctx : ctx ∈ docOrder root)
    (hs : ∀ s c, Visits root env p.steps (pathStart ctx p) s c → (StepSafe root env s c ∧ DocTypeOk s c)) :
    ∃ r, evalPath root env ctx p = .ok r := by
  exact evalSteps_ok root env p.steps [pathStart ctx p]
    (fun c hc => by rw [List.mem_singleton] at hc; subst hc; exact pathStart_mem_docNodes root ctx p hctx)
    (fun c hc => by rw [List.mem_singleton] at hc; subst hc; exact hs)

/-- an expression whose paths visit no marked situation returns if and only if its denotation does not
    contain the root node -/
theorem c06_expr_total (root : PTree) (env : NsEnv) (ctx : List Nat) (x : XExpr) (hctx : ctx ∈ docOrder root)
    (hs : ∀ p ∈ x, ∀ s c, Visits root env p.steps (pathStart ctx p) s c → (StepSafe root env s c ∧ DocTypeOk s c)) :
    (∃ r, evaluate root env ctx x = .ok r) ↔ XNode.doc ∉ exprDenote root env ctx x := by
  have hpath : ∀ p ∈ x, ∃ l, evalPath root env ctx p = .ok l ∧ ∀ n, n ∈ l ↔ n ∈ pathDenote root env ctx p := by
    intro p hp
    obtain ⟨l, hl⟩ := c06_path_total root env ctx p hctx (hs p hp)
    exact ⟨l, hl, (evalPath_eq_denote root env ctx p l hctx (fun s c hv => (hs p hp s c hv).2) hl).1⟩
  constructor
  · rintro ⟨r, hr⟩ hdoc
    obtain ⟨hm, _, hnd⟩ := evaluate_eq_denote root env ctx x r hctx (fun p hp s c hv => (hs p hp s c hv).2) hr
    exact hnd ((hm _).2 hdoc)
  · intro hdoc
    refine evalPaths_ok root env ctx [] x (fun p hp => ?_)
    obtain ⟨l, hl, hm⟩ := hpath p hp
    refine ⟨l, hl, fun hd => hdoc ?_⟩
    unfold exprDenote
    rw [List.mem_flatMap]
    exact ⟨p, hp, (hm _).1 hd⟩

/-- a check on the expression alone: relative paths from a tree node whose steps cannot reach the root
    node (`stepAvoidsDoc`: a name test, or an axis other than ancestor / ancestor-or-self / parent), with
    existing axes, bound prefixes and predicates that have values, always return — and then
    `c06_expr_eq_denotation` applies (its hypothesis holds as well) -/
theorem c06_expr_total_tree_paths (root : PTree) (env : NsEnv) (ctx : List Nat) (x : XExpr)
    (hctx : ctx ∈ docOrder root)
    (hrel : ∀ p ∈ x, p.absolute = false)
    (hsteps : ∀ p ∈ x, ∀ s ∈ p.steps, s.axis ∈ realAxes ∧ stepAvoidsDoc s = true ∧
      checkPrefix env (testPrefix s.test) = .ok () ∧
      ∀ pred ∈ s.preds, ∀ cx, ∃ v, evalExpr root env cx pred = .ok v) :
    (∃ r, evaluate root env ctx x = .ok r) ∧
    (∀ p ∈ x, ∀ s c, Visits root env p.steps (pathStart ctx p) s c → DocTypeOk s c) := by
  have hstart : ∀ p ∈ x, pathStart ctx p ≠ XNode.doc := by
    intro p hp
    simp [pathStart, hrel p hp]
  have hsafe : ∀ p ∈ x, ∀ s c, Visits root env p.steps (pathStart ctx p) s c →
      (StepSafe root env s c ∧ DocTypeOk s c) := by
    intro p hp s c hv
    have hs := hsteps p hp s (visits_mem root env _ _ s c hv)
    exact stepSafe_of_avoidsDoc root env s c
      (visits_ne_doc root env p.steps _ s c (hstart p hp) (fun s' hs' => (hsteps p hp s' hs').2.1) hv)
      hs.1 hs.2.1 hs.2.2.1 hs.2.2.2
  refine ⟨(c06_expr_total root env ctx x hctx hsafe).2 (fun hdoc => ?_), fun p hp s c hv => (hsafe p hp s c hv).2⟩
  obtain ⟨p, hp, hsel⟩ := (mem_exprDenote root env ctx x _).1 hdoc
  exact selects_ne_doc root env p.steps _ _ (hstart p hp) (fun s' hs' => (hsteps p hp s' hs').2.1) hsel rfl

/-! ### the denotation and the mechanism on a concrete tree

`<r><a k="1"/><!----><a/><b/><a k="2">t</a></r>`, no namespaces -/

private def exTree : PTree :=
  .tag 0 "" "r" [] [.tag 1 "" "a" [⟨"", "k", "1".toList⟩] [], .comment 2 [], .tag 3 "" "a" [] [],
                    .tag 4 "" "b" [] [], .tag 5 "" "a" [⟨"", "k", "2".toList⟩] [.text 6 "t".toList]]
private def exEnv : NsEnv := [("", "")]
private def posEq (k : Nat) : Expr := .binop "=" (.func "position".toList []) (.num k)

/-- `preceding-sibling::*[1]` from `<b/>`: a reverse axis numbers from the context node backwards -/
private def exRev : Path :=
  { absolute := false, steps := [{ axis := "preceding_sibling", test := .anyName none, preds := [posEq 1] }] }
example : axisDenote exTree "preceding_sibling" (.at [3]) = [.at [2], .at [1], .at [0]] := by rfl
example : pathDenote exTree exEnv [3] exRev = [.at [2]] := by rfl
example : evalPath exTree exEnv [3] exRev = .ok [.at [2]] := by rfl

/-- `a[@k][2]` from the root: the second predicate counts among the survivors of the first -/
private def exStack : Path :=
  { absolute := false, steps := [{ axis := "child", test := .name none "a".toList,
                                   preds := [.hasAttr none "k".toList, posEq 2] }] }
example : pathDenote exTree exEnv [] exStack = [.at [4]] := by rfl
example : evalPath exTree exEnv [] exStack = .ok [.at [4]] := by rfl

/-- `a | //*[@k]` from the root: a union with overlap — the denotation names `a[1]`, `a[3]` twice (it is
    read as a set), the mechanism once -/
private def exUnion : XExpr :=
  [{ absolute := false, steps := [{ axis := "child", test := .name none "a".toList, preds := [] }] },
   { absolute := true, steps := [{ axis := "descendant_or_self", test := .type "TagNode", preds := [] },
                                 { axis := "child", test := .anyName none, preds := [.hasAttr none "k".toList] }] }]
example : exprDenote exTree exEnv [] exUnion = [.at [0], .at [2], .at [4], .at [0], .at [4]] := by rfl
example : evaluate exTree exEnv [] exUnion = .ok [.at [0], .at [2], .at [4]] := by rfl
example : ∀ n ∈ docNodes exTree, (n ∈ [XNode.at [0], .at [2], .at [4]] ↔ n ∈ exprDenote exTree exEnv [] exUnion) := by
  decide
example : exprDenoteSorted exTree exEnv [] exUnion = [[0], [2], [4]] := by rfl
/-- the hypotheses of `c06_expr_eq_denotation_of_free` are met here -/
example : (∀ n, n ∈ [XNode.at [0], .at [2], .at [4]] ↔ n ∈ exprDenote exTree exEnv [] exUnion) ∧
    Nav.sortPaths (addrsOf [XNode.at [0], .at [2], .at [4]]) = exprDenoteSorted exTree exEnv [] exUnion :=
  have h := c06_expr_eq_denotation_of_free exTree exEnv [] exUnion _ (by decide) (by decide) rfl
  ⟨h.1, h.2.2.2⟩

/-- where `DocTypeOk` fails (recorded finding `document-node-type-tests`): `parent::comment()/*` from the
    root element.  XPath 1.0: the parent of the root element is the root node, which is not a comment —
    nothing is selected; the mechanism lets the `_DocumentNode` pass and selects the root element. -/
private def exDocType : Path :=
  { absolute := false, steps := [{ axis := "parent", test := .type "CommentNode", preds := [] },
                                 { axis := "child", test := .anyName none, preds := [] }] }
example : pathDenote exTree exEnv [] exDocType = [] := by rfl
example : evalPath exTree exEnv [] exDocType = .ok [.at []] := by rfl
example : ¬ DocTypeOk { axis := "parent", test := .type "CommentNode", preds := [] } (.at []) := by
  intro h
  exact absurd (h "CommentNode" rfl (by decide)) (by decide)

/-! ## the VALUE of a predicate against XPath 1.0

The theorems above take the value of a predicate expression from the mechanism (`predHolds`).
`Model/XPath/PredSpec.lean` states what XPath 1.0 (§2.4, §3.4, §4) says that value is (`predSpec`), and
`PredSafe` marks the situations in which the mechanism is known to differ, one condition per deviation:

* `attrCompare` — recorded finding `attribute-compare-absent`;
* `attrBoolean` — recorded finding `not-boolean-empty-attribute`;
* `numberPred` — recorded finding `number-predicate-not-position`;
* `attrFunction` — recorded finding `attribute-function-on-non-tag`;
* `andOr`, `boolCompare` — two further deviations the proof ran into (`[1 and 2]`, `[not(@a) = 2]`);
* `shapeTop`, `shape` — no deviation: the form in which the parser renders `@name` (`attrToValue`).

The unrestricted statement is false (`c06_pred_deviation_*` below), hence `_partial`. -/

/-- outside the marked situations, wherever XPath 1.0 gives the predicate a value the mechanism returns
    without raising, and the truthiness of what it returns is that value -/
theorem c06_pred_xpath1_value_partial (root : PTree) (env : NsEnv) (ctx : Ctx) (e : Expr) (b : Bool)
    (hs : PredSafe root env ctx e) (h : predSpec root env ctx e = some b) :
    ∃ v, evalExpr root env ctx e = .ok v ∧ truthy v = b := by
  exact evalExpr_truthy_of_predSafe root env ctx e b hs h

/-- … so for predicates of the supported language (`predSpec` has a value) mechanism and XPath 1.0 agree
    exactly -/
theorem c06_pred_eq_xpath1_partial (root : PTree) (env : NsEnv) (ctx : Ctx) (e : Expr) (b : Bool)
    (hs : PredSafe root env ctx e) (hd : (predSpec root env ctx e).isSome = true) :
    (evalExpr root env ctx e).map truthy = .ok b ↔ predSpec root env ctx e = some b := by
  obtain ⟨b', hb'⟩ := Option.isSome_iff_exists.1 hd
  obtain ⟨v, hv, ht⟩ := evalExpr_truthy_of_predSafe root env ctx e b' hs hb'
  rw [hv, hb']
  subst ht
  constructor
  · intro h
    cases h
    rfl
  · intro h
    cases h
    rfl

/-- as a statement about `predHolds` (Spec.lean), the value the step denotation uses -/
theorem c06_predHolds_eq_xpath1_partial (root : PTree) (env : NsEnv) (pred : Expr) (n : XNode) (pos size : Nat)
    (hs : PredSafe root env { node := n, position := pos, size := size } pred)
    (hd : (predSpec root env { node := n, position := pos, size := size } pred).isSome = true) :
    predHolds root env pred n pos size = predHoldsXPath1 root env pred n pos size := by
  obtain ⟨b, hb⟩ := Option.isSome_iff_exists.1 hd
  obtain ⟨v, hv, ht⟩ := evalExpr_truthy_of_predSafe root env _ pred b hs hb
  simp [predHolds, predHoldsXPath1, hv, hb, ht]

/-- `contains` in the specification is "occurs as a contiguous block" -/
theorem c06_spec_contains (sub s : Str) : isInfix sub s = true ↔ ∃ pre post, s = pre ++ sub ++ post := by
  exact isInfix_iff sub s

/-! ### where `PredSafe` fails: mechanism ≠ XPath 1.0

`<r k="va" e="">t</r>`, context node the root element (position 1 of 2), resp. its text child -/

private def pvTree : PTree := .tag 0 "" "r" [⟨"", "k", "va".toList⟩, ⟨"", "e", []⟩] [.text 1 "t".toList]
private def pvEnv : NsEnv := [("", "")]
private def pvCtx : Ctx := { node := .at [], position := 1, size := 2 }
private def pvText : Ctx := { node := .at [0], position := 1, size := 2 }
private def att (n : String) : Expr := .attrVal none n.toList
private def lit (s : String) : Expr := .str s.toList
private def call (f : String) (args : List Expr) : Expr := .func f.toList args

/-- `attribute-compare-absent`: `[@x != '1']` on an element without `x` — XPath 1.0 false, mechanism true -/
theorem c06_pred_deviation_attr_ne_absent :
    predSpec pvTree pvEnv pvCtx (.binop "!=" (att "x") (lit "1")) = some false ∧
    (evalExpr pvTree pvEnv pvCtx (.binop "!=" (att "x") (lit "1"))).map truthy = .ok true ∧
    ¬ PredSafe pvTree pvEnv pvCtx (.binop "!=" (att "x") (lit "1")) := by
  refine ⟨rfl, rfl, fun h => ?_⟩
  exact absurd h.attrCompare (by decide)

/-- `attribute-compare-absent`: `[@x = '']` on an element without `x` — XPath 1.0 false, mechanism true -/
theorem c06_pred_deviation_attr_eq_empty_absent :
    predSpec pvTree pvEnv pvCtx (.binop "=" (att "x") (lit "")) = some false ∧
    (evalExpr pvTree pvEnv pvCtx (.binop "=" (att "x") (lit ""))).map truthy = .ok true ∧
    ¬ PredSafe pvTree pvEnv pvCtx (.binop "=" (att "x") (lit "")) := by
  refine ⟨rfl, rfl, fun h => ?_⟩
  exact absurd h.attrCompare (by decide)

/-- `not-boolean-empty-attribute`: `[not(@e)]` with `e=""` — XPath 1.0 false (the attribute is there),
    mechanism true -/
theorem c06_pred_deviation_not_empty_attr :
    predSpec pvTree pvEnv pvCtx (call "not" [att "e"]) = some false ∧
    (evalExpr pvTree pvEnv pvCtx (call "not" [att "e"])).map truthy = .ok true ∧
    ¬ PredSafe pvTree pvEnv pvCtx (call "not" [att "e"]) := by
  refine ⟨rfl, rfl, fun h => ?_⟩
  exact absurd h.attrBoolean (by decide)

/-- `number-predicate-not-position`: `[last()]` at position 1 of 2 — XPath 1.0 false, mechanism true -/
theorem c06_pred_deviation_last :
    predSpec pvTree pvEnv pvCtx (call "last" []) = some false ∧
    (evalExpr pvTree pvEnv pvCtx (call "last" [])).map truthy = .ok true ∧
    ¬ PredSafe pvTree pvEnv pvCtx (call "last" []) := by
  refine ⟨rfl, rfl, fun h => ?_⟩
  exact absurd h.numberPred (by decide)

/-- `attribute-function-on-non-tag`: `[contains(@k, 'a')]` on a text node — XPath 1.0 false (the attribute
    axis of a text node is empty, `contains('', 'a')`), the mechanism raises -/
theorem c06_pred_deviation_contains_on_text :
    predSpec pvTree pvEnv pvText (call "contains" [att "k", lit "a"]) = some false ∧
    evalExpr pvTree pvEnv pvText (call "contains" [att "k", lit "a"]) = .error (.py "TypeError" "function contains") ∧
    ¬ PredSafe pvTree pvEnv pvText (call "contains" [att "k", lit "a"]) := by
  refine ⟨rfl, rfl, fun h => ?_⟩
  exact absurd h.attrFunction (by decide)

/-- further deviation (`and-or-non-boolean-operand`): `[1 and 2]` — XPath 1.0 true, mechanism false
    (bitwise `1 & 2 = 0`) -/
theorem c06_pred_deviation_and_numbers :
    predSpec pvTree pvEnv pvCtx (.binop "and" (.num 1) (.num 2)) = some true ∧
    (evalExpr pvTree pvEnv pvCtx (.binop "and" (.num 1) (.num 2))).map truthy = .ok false ∧
    ¬ PredSafe pvTree pvEnv pvCtx (.binop "and" (.num 1) (.num 2)) := by
  refine ⟨rfl, rfl, fun h => ?_⟩
  exact absurd h.andOr (by decide)

/-- further deviation (`boolean-compared-with-non-boolean`): `[not(@x) = 2]` on an element without `x` —
    XPath 1.0 true (`boolean(2)` is true), mechanism false (`True == 2`) -/
theorem c06_pred_deviation_boolean_eq_number :
    predSpec pvTree pvEnv pvCtx (.binop "=" (call "not" [att "x"]) (.num 2)) = some true ∧
    (evalExpr pvTree pvEnv pvCtx (.binop "=" (call "not" [att "x"]) (.num 2))).map truthy = .ok false ∧
    ¬ PredSafe pvTree pvEnv pvCtx (.binop "=" (call "not" [att "x"]) (.num 2)) := by
  refine ⟨rfl, rfl, fun h => ?_⟩
  exact absurd h.boolCompare (by decide)

/-! ### non-vacuity: `PredSafe` holds and both sides have the same value -/

/-- `[@k="va" and position()<3]` -/
example : PredSafe pvTree pvEnv pvCtx
      (.binop "and" (.binop "=" (att "k") (lit "va")) (.binop "<" (call "position" []) (.num 3))) ∧
    predSpec pvTree pvEnv pvCtx
      (.binop "and" (.binop "=" (att "k") (lit "va")) (.binop "<" (call "position" []) (.num 3))) = some true ∧
    (evalExpr pvTree pvEnv pvCtx
      (.binop "and" (.binop "=" (att "k") (lit "va")) (.binop "<" (call "position" []) (.num 3)))).map truthy
      = .ok true := ⟨by decide, rfl, rfl⟩

/-- `[not(@k="v")]` -/
example : PredSafe pvTree pvEnv pvCtx (call "not" [.binop "=" (att "k") (lit "v")]) ∧
    predSpec pvTree pvEnv pvCtx (call "not" [.binop "=" (att "k") (lit "v")]) = some true ∧
    (evalExpr pvTree pvEnv pvCtx (call "not" [.binop "=" (att "k") (lit "v")])).map truthy = .ok true :=
  ⟨by decide, rfl, rfl⟩

/-- `[contains(@k,"a") or starts-with(@k,"b")]` -/
example : PredSafe pvTree pvEnv pvCtx
      (.binop "or" (call "contains" [att "k", lit "a"]) (call "starts-with" [att "k", lit "b"])) ∧
    predSpec pvTree pvEnv pvCtx
      (.binop "or" (call "contains" [att "k", lit "a"]) (call "starts-with" [att "k", lit "b"])) = some true ∧
    (evalExpr pvTree pvEnv pvCtx
      (.binop "or" (call "contains" [att "k", lit "a"]) (call "starts-with" [att "k", lit "b"]))).map truthy
      = .ok true := ⟨by decide, rfl, rfl⟩

/-- `[2]`, which the parser renders as `[position() = 2]`: false at position 1 -/
example : PredSafe pvTree pvEnv pvCtx (.binop "=" (call "position" []) (.num 2)) ∧
    predSpec pvTree pvEnv pvCtx (.binop "=" (call "position" []) (.num 2)) = some false ∧
    (evalExpr pvTree pvEnv pvCtx (.binop "=" (call "position" []) (.num 2))).map truthy = .ok false :=
  ⟨by decide, rfl, rfl⟩

/-- `[@k]` (a whole predicate `@name` is `hasAttr`) and the same on the text child -/
example : PredSafe pvTree pvEnv pvCtx (.hasAttr none "k".toList) ∧
    predSpec pvTree pvEnv pvCtx (.hasAttr none "k".toList) = some true ∧
    (evalExpr pvTree pvEnv pvCtx (.hasAttr none "k".toList)).map truthy = .ok true ∧
    PredSafe pvTree pvEnv pvText (.hasAttr none "k".toList) ∧
    predSpec pvTree pvEnv pvText (.hasAttr none "k".toList) = some false :=
  ⟨by decide, rfl, rfl, by decide, rfl⟩

/-- the theorem applied: the hypotheses of `c06_pred_eq_xpath1_partial` are met -/
example : (evalExpr pvTree pvEnv pvCtx (call "not" [.binop "=" (att "k") (lit "v")])).map truthy = .ok true :=
  (c06_pred_eq_xpath1_partial pvTree pvEnv pvCtx _ true (by decide) rfl).2 rfl

/-! ### lifted to location steps

`stepDenoteXPath1` (PredSpec.lean) is `stepDenote` with the predicate values of XPath 1.0 in place of the
mechanism's.  If every predicate of the step, on every candidate (node on the axis passing the node test),
is outside the marked situations and has an XPath 1.0 value, the mechanism's result is that denotation:
mechanism = `Spec.lean` denotation = XPath 1.0 including predicate values (with the three established
deviations of `Spec.lean`). -/

theorem c06_step_eq_xpath1_partial (root : PTree) (env : NsEnv) (s : Step) (ctx : XNode) (r : List XNode)
    (hctx : ctx ∈ docNodes root) (hd : DocTypeOk s ctx)
    (hp : ∀ pred ∈ s.preds, ∀ n ∈ (axisDenote root s.axis ctx).filter (testDenote root env s.test), ∀ pos size,
      PredSafe root env { node := n, position := pos, size := size } pred ∧
      (predSpec root env { node := n, position := pos, size := size } pred).isSome = true)
    (h : evalStepAt root env s ctx = .ok r) :
    r = stepDenoteXPath1 root env s ctx ∧ r.Nodup := by
  obtain ⟨e, hn⟩ := c06_step_eq_denotation root env s ctx r hctx hd h
  exact ⟨e.trans (stepDenote_eq_xpath1 root env s ctx hp), hn⟩

/-- non-vacuity: `child::a[@k="2"]` from the root of `exTree` (candidates: three `a`, one without `k`) -/
private def exStepK2 : Step :=
  { axis := "child", test := .name none "a".toList, preds := [.binop "=" (att "k") (lit "2")] }
example : evalStepAt exTree exEnv exStepK2 (.at []) = .ok [.at [4]] ∧
    stepDenoteXPath1 exTree exEnv exStepK2 (.at []) = [.at [4]] := ⟨rfl, rfl⟩
example : ∀ pred ∈ exStepK2.preds,
    ∀ n ∈ (axisDenote exTree exStepK2.axis (.at [])).filter (testDenote exTree exEnv exStepK2.test), ∀ pos size,
      PredSafe exTree exEnv { node := n, position := pos, size := size } pred ∧
      (predSpec exTree exEnv { node := n, position := pos, size := size } pred).isSome = true := by
  intro pred hpred n hn pos size
  have hn' : n ∈ [XNode.at [0], .at [2], .at [4]] := hn
  have hpred' : pred ∈ [Expr.binop "=" (att "k") (lit "2")] := hpred
  simp only [List.mem_singleton] at hpred'
  subst hpred'
  simp only [List.mem_cons, List.not_mem_nil, or_false] at hn'
  rcases hn' with rfl | rfl | rfl <;> exact ⟨⟨rfl, rfl, rfl, rfl, rfl, rfl, rfl, rfl⟩, rfl⟩

end Delb.XPath

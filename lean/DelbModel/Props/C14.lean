import DelbModel.Model.XPath.Eval
import DelbModel.Lemmas.XPathEval
import DelbModel.Lemmas.LocationPath
import DelbModel.Lemmas.LocationPathParse
/-!
# C14 — location_path is a unique address of a tag node

Property theorems only; helper lemmas are in `DelbModel/Lemmas/LocationPath.lean`.
`locationPathAst root p` is the expression the string `location_path` denotes (`/*` followed by one
`*[position()=k]` step per level, k counted among tag siblings); that `parse` turns the string into
this expression is `c14_parse_location_path_partial` (for indexes of at most `Gen.intMaxStrDigits` digits; beyond that
the parser refuses the number, see the comment there).
-/
namespace Delb.XPath
open Delb.Edit

/-- evaluated from any context node, with any prefix map, the path selects exactly its node -/
theorem c14_selects_self (root : PTree) (p : List Nat) (hp : tagPath root p = true)
    (env : NsEnv) (ctx : List Nat) :
    evaluate root env ctx (locationPathAst root p) = .ok [.at p] := by
  exact evaluate_locationPathAst root p hp env ctx

/-- two different tag nodes of one tree never have the same path -/
theorem c14_injective (root : PTree) (p q : List Nat) (hp : tagPath root p = true) (hq : tagPath root q = true)
    (h : locationPathAst root p = locationPathAst root q) : p = q := by
  rw [locationPathAst_eq, locationPathAst_eq] at h
  simp only [List.cons.injEq, Path.mk.injEq, true_and, and_true] at h
  have h' : tagIdxs root [] p = tagIdxs root [] q :=
    (List.map_inj_right (fun _ _ e => idxStep_injective e)).1 h
  exact tagIdxs_injective root [] p q (by simpa using hp) (by simpa using hq) h'

/-- the same for the strings -/
theorem c14_string_injective (root : PTree) (p q : List Nat) (hp : tagPath root p = true)
    (hq : tagPath root q = true) (h : locationPath root p = locationPath root q) : p = q := by
  rw [locationPath_eq, locationPath_eq] at h
  have h' := idxPieces_flatten_injective _ _ (List.append_cancel_left h)
  exact tagIdxs_injective root [] p q (by simpa using hp) (by simpa using hq) h'

/-- the path consists only of indexed wildcard steps on the child axis: it mentions no name, no
    namespace and no node other than tag nodes -/
theorem c14_shape (root : PTree) (p : List Nat) :
    ∃ steps, locationPathAst root p = [{ absolute := true, steps := steps }] ∧ steps.length = p.length + 1 ∧
      ∀ s ∈ steps, s.axis = "child" ∧ s.test = .anyName none ∧
        (s.preds = [] ∨ ∃ k, s.preds = [Expr.binop "=" (Expr.func "position".toList []) (Expr.num k)]) := by
  refine ⟨_, locationPathAst_eq root p, ?_, ?_⟩
  · simp [length_tagIdxs]
  · intro s hs
    rcases List.mem_cons.1 hs with rfl | hs
    · exact ⟨rfl, rfl, .inl rfl⟩
    · obtain ⟨k, _, rfl⟩ := List.mem_map.1 hs
      exact ⟨rfl, rfl, .inr ⟨k + 1, rfl⟩⟩

/-
The unconditional statements

  theorem c14_parse_location_path (root : PTree) (p : List Nat) :
      parse (locationPath root p) = .ok (locationPathAst root p)

  theorem c14_string_selects_self (root : PTree) (p : List Nat) (hp : tagPath root p = true)
      (env : NsEnv) (ctx : List Nat) :
      ∃ e, parse (locationPath root p) = .ok e ∧ evaluate root env ctx e = .ok [.at p]

are FALSE in the model: `parseExpr` refuses a number literal whose digit string is longer than
`Gen.intMaxStrDigits` (= `sys.get_int_max_str_digits()` = 4300; `int()` raises ValueError beyond that), and
`PTree` has trees of any width.  Counterexample (`c14_parse_location_path_counterexample` below, proved):

  root = .tag 0 "" "r" [] (List.replicate (10 ^ 4300) (.tag 1 "" "a" [] []))      p = [10 ^ 4300 - 1]
  tagPath root p = true
  locationPath root p          = "/*/*[1000…0]"                (1 followed by 4300 zeros: 4301 digits)
  parse (locationPath root p)  = .error (.parsing (some 5) "Number literal is too long.")
  .ok (locationPathAst root p) = .ok [{ absolute := true, steps := [ *, *[position() = 10 ^ 4300] ] }]

(the same with shorter numbers, evaluated: `parse "/*/*[" ++ 4300 × '1' ++ "]"` is `.ok …`,
`parse "/*/*[" ++ 4301 × '1' ++ "]"` is `.error (.parsing (some 5) "Number literal is too long.")`).
What holds is the statement for every path whose printed indexes have at most `Gen.intMaxStrDigits` digits -
and only for those (`c14_parse_location_path_iff`).
-/

/-- the string that `location_path` returns is parsed (tokenizer + parser model of C16) into exactly the
    expression the theorems above are about, provided every printed index `k + 1` is below
    `10 ^ Gen.intMaxStrDigits` (or there is no limit): `parse(location_path)` does not fail and yields
    `locationPathAst` -/
theorem c14_parse_location_path_partial (root : PTree) (p : List Nat)
    (h : ∀ k ∈ tagIdxs root [] p, Gen.intMaxStrDigits = 0 ∨ k + 1 < 10 ^ Gen.intMaxStrDigits) :
    parse (locationPath root p) = .ok (locationPathAst root p) :=
  lpp_parse_locationPath_ok root p (fun k hk => (lpp_fits_iff k).2 (h k hk))

/-- otherwise the parser refuses the string, with this error -/
theorem c14_parse_location_path_too_long (root : PTree) (p : List Nat)
    (h : ¬ ∀ k ∈ tagIdxs root [] p, Gen.intMaxStrDigits = 0 ∨ k + 1 < 10 ^ Gen.intMaxStrDigits) :
    ∃ pos, parse (locationPath root p) = .error (.parsing (some pos) "Number literal is too long.") :=
  lpp_parse_locationPath_error root p (fun h' => h (fun k hk => (lpp_fits_iff k).1 (h' k hk)))

/-- the condition is exact -/
theorem c14_parse_location_path_iff (root : PTree) (p : List Nat) :
    parse (locationPath root p) = .ok (locationPathAst root p) ↔
      ∀ k ∈ tagIdxs root [] p, Gen.intMaxStrDigits = 0 ∨ k + 1 < 10 ^ Gen.intMaxStrDigits := by
  refine ⟨fun hok => ?_, c14_parse_location_path_partial root p⟩
  apply Classical.byContradiction
  intro h
  obtain ⟨pos, hpos⟩ := c14_parse_location_path_too_long root p h
  rw [hpos] at hok
  cases hok

/-- in particular: every address whose child indexes are below `10 ^ Gen.intMaxStrDigits - 1` (the printed
    index never exceeds the child index + 1) -/
theorem c14_parse_location_path_of_small (root : PTree) (p : List Nat)
    (h : ∀ i ∈ p, i + 1 < 10 ^ Gen.intMaxStrDigits) :
    parse (locationPath root p) = .ok (locationPathAst root p) := by
  apply c14_parse_location_path_partial
  intro k hk
  obtain ⟨i, hi, hki⟩ := lpp_tagIdxs_le root p [] k hk
  exact .inr (Nat.lt_of_le_of_lt (Nat.succ_le_succ hki) (h i hi))

/-- the unconditional statement fails (whenever there is a limit): the last of `10 ^ Gen.intMaxStrDigits` tag
    children of the root is a tag node whose path string the parser refuses -/
theorem c14_parse_location_path_counterexample (h : Gen.intMaxStrDigits ≠ 0) :
    ∃ (root : PTree) (p : List Nat), tagPath root p = true ∧
      ∃ pos, parse (locationPath root p) = .error (.parsing (some pos) "Number literal is too long.") :=
  ⟨_, _, lpp_wide_error h⟩

/-- consequently (same proviso): parsing the path string and evaluating it from any context selects exactly
    the node -/
theorem c14_string_selects_self_partial (root : PTree) (p : List Nat) (hp : tagPath root p = true)
    (h : ∀ k ∈ tagIdxs root [] p, Gen.intMaxStrDigits = 0 ∨ k + 1 < 10 ^ Gen.intMaxStrDigits)
    (env : NsEnv) (ctx : List Nat) :
    ∃ e, parse (locationPath root p) = .ok e ∧ evaluate root env ctx e = .ok [.at p] :=
  ⟨_, c14_parse_location_path_partial root p h, c14_selects_self root p hp env ctx⟩

/-- non-vacuity -/
example : locationPath (.tag 0 "" "r" [] [.text 5 "q".toList, .tag 1 "" "a" [] [.tag 2 "" "b" [] []], .comment 3 [],
                        .tag 4 "" "a" [] []]) [3] = "/*/*[2]".toList := by rfl

end Delb.XPath

import DelbModel.Model.XPath.Eval
import DelbModel.Lemmas.XPathEval
import DelbModel.Lemmas.LocationPath
/-!
# C14 — location_path is a unique address of a tag node

Property theorems only; helper lemmas are in `DelbModel/Lemmas/LocationPath.lean`.
`locationPathAst root p` is the expression the string `location_path` denotes (`/*` followed by one
`*[position()=k]` step per level, k counted among tag siblings); that `parse` turns the string into
this expression is checked per explored case through the parser model (driver), see DESIGN.md.
-/
namespace Delb.XPath
open Delb.Edit

/-- evaluated from any context node, with any prefix map, the path selects exactly its node -/
theorem c14_selects_self (root : PTree) (p : List Nat) (hp : tagPath root p = true)
    (env : NsEnv) (ctx : List Nat) :
    evaluate root env ctx (locationPathAst root p) = .ok [.at p] := by
  exact evaluate_locationPathAst root p hp env ctx

/-- two different tag nodes of one tree never have the same path -/
theorem c14_injective (root : PTree) (p q : List Nat) (hp : tagPath root p = true) (hq : tagPath root q = true)
    (h : locationPathAst root p = locationPathAst root q) : p = q := by
  rw [locationPathAst_eq, locationPathAst_eq] at h
  simp only [List.cons.injEq, Path.mk.injEq, true_and, and_true] at h
  have h' : tagIdxs root [] p = tagIdxs root [] q :=
    (List.map_inj_right (fun _ _ e => idxStep_injective e)).1 h
  exact tagIdxs_injective root [] p q (by simpa using hp) (by simpa using hq) h'

/-- the same for the strings -/
theorem c14_string_injective (root : PTree) (p q : List Nat) (hp : tagPath root p = true)
    (hq : tagPath root q = true) (h : locationPath root p = locationPath root q) : p = q := by
  rw [locationPath_eq, locationPath_eq] at h
  have h' := idxPieces_flatten_injective _ _ (List.append_cancel_left h)
  exact tagIdxs_injective root [] p q (by simpa using hp) (by simpa using hq) h'

/-- the path consists only of indexed wildcard steps on the child axis: it mentions no name, no
    namespace and no node other than tag nodes -/
theorem c14_shape (root : PTree) (p : List Nat) :
    ∃ steps, locationPathAst root p = [{ absolute := true, steps := steps }] ∧ steps.length = p.length + 1 ∧
      ∀ s ∈ steps, s.axis = "child" ∧ s.test = .anyName none ∧
        (s.preds = [] ∨ ∃ k, s.preds = [Expr.binop "=" (Expr.func "position".toList []) (Expr.num k)]) := by
  refine ⟨_, locationPathAst_eq root p, ?_, ?_⟩
  · simp [length_tagIdxs]
  · intro s hs
    rcases List.mem_cons.1 hs with rfl | hs
    · exact ⟨rfl, rfl, .inl rfl⟩
    · obtain ⟨k, _, rfl⟩ := List.mem_map.1 hs
      exact ⟨rfl, rfl, .inr ⟨k + 1, rfl⟩⟩

/-- non-vacuity -/
example : locationPath (.tag 0 "" "r" [] [.text 5 "q".toList, .tag 1 "" "a" [] [.tag 2 "" "b" [] []], .comment 3 [],
                        .tag 4 "" "a" [] []]) [3] = "/*/*[2]".toList := by rfl

end Delb.XPath

import DelbModel.Model.Scan
import DelbModel.Lemmas.Scan
import DelbModel.Lemmas.Scan.Build
import DelbModel.Lemmas.Scan.Emit
import DelbModel.Lemmas.Scan.Collect
import DelbModel.Props.C02
/-!
# C02, the string level — what the serializer writes is well-formed and scans back

`Props/C02.lean` proves the round trip on markup *tokens* (`build ∘ emitRoot`).  Here the step from
the output *string* back to tokens is closed with the scanner of `Model/Scan.lean`:

* `c02_scan_render` — for every token list with well-formed names and contents (`ToksOk`),
  `scan (render ts) = some (mergeChars ts)`: the string is accepted and gives the tokens back,
  adjacent character data merged and empty character data dropped;
* `c02_scan_build_merge` — the tree builder does not see that merge;
* `c02_scan_emitted` — the tokens the serializer emits satisfy `ToksOk` (in particular no start tag
  has the same attribute name twice) for trees satisfying `Serializable` and `NamesOk`;
* `c02_scan_collect_names` — `_collect_prefixes` produces prefixes made of name characters;
* `c02_scan_serialize_roundtrip` — `serialize … = .ok s → (scan s).bind build = some (normalize root)`.

Helper lemmas: `Lemmas/Scan.lean`, `Lemmas/Scan/{Build,Emit,Collect}.lean`.

`NamesOk` states, besides what lxml / delb check when nodes are made, three things XML does not
preserve and the serializer does not escape — each with a counterexample below
(`c02_scan_cr_lost`, `c02_scan_attr_ws_lost`, `c02_scan_pi_ws_lost`): a carriage return anywhere, a
tab or line feed in an attribute value, white space at the start of a PI's content.
-/
namespace Delb.Ser

/-- the string → tokens step: what `render` writes for well-formed tokens is accepted by the
    scanner and gives the tokens back (adjacent character data is one run of character data in
    the string, empty character data is nothing) -/
theorem c02_scan_render (ts : List Tok) (h : ToksOk ts) : scan (render ts) = some (mergeChars ts) :=
  scan_render ts h

/-- `mergeChars` changes neither the rendered string nor well-formedness -/
theorem c02_scan_merge_render (ts : List Tok) : render (mergeChars ts) = render ts :=
  render_mergeChars ts

theorem c02_scan_merge_ok (ts : List Tok) (h : ToksOk ts) : ToksOk (mergeChars ts) :=
  tokOk_mergeChars ts h

/-- the builder is insensitive to how character data is cut into tokens -/
theorem c02_scan_build_merge (ts : List Tok) (n : Node) (h : build ts = some n) :
    build (mergeChars ts) = some n :=
  build_mergeChars ts n h

/-- the comment grammar `((Char - '-') | ('-' (Char - '-')))*` in other words: no `--` inside and
    no `-` at the end (what delb's `CommentNode` checks) -/
theorem c02_scan_comment_grammar (s : Str) :
    commentBody s = true ↔ (∀ a b, s ≠ a ++ '-' :: '-' :: b) ∧ (∀ a, s ≠ a ++ ['-']) :=
  commentBody_iff s

/-- `hasPIEnd` is the occurrence of `?>` -/
theorem c02_scan_pi_end (s : Str) : hasPIEnd s = false ↔ ∀ a b, s ≠ a ++ '?' :: '>' :: b :=
  hasPIEnd_false_iff s

/-- what the serializer emits is well-formed: for every tree it can write (`Serializable`) whose
    names, values and contents can be written (`NamesOk`), under a prefix map with the C13
    guarantees whose namespaces and prefixes can be written (`MapNamesOk`) -/
theorem c02_scan_emitted (nsmap m : Dict) (t : Node) (hs : Serializable t) (hm : PMapOk nsmap m t)
    (hnames : NamesOk t) (hmn : MapNamesOk m) (toks : List Tok) (h : emitRoot m t = .ok toks) :
    ToksOk toks :=
  emitRoot_tokOk ⟨hm.injective, hm.shape, hm.keysNodup, hm.xmlPrefix, hm.xmlnsPrefix⟩ hmn
    Serializable SerializableList
    (fun _ _ _ _ h => by
      simp only [Serializable] at h
      exact ⟨h.1, h.2.1, h.2.2.1, h.2.2.2.1, h.2.2.2.2⟩)
    (fun _ _ h => by simpa only [SerializableList] using h) t toks h hs hnames

/-- `_collect_prefixes` only stores namespaces of the tree and prefixes that are empty, taken from
    the caller's mapping, or generated as `ns{i}` -/
theorem c02_scan_collect_names (nsmap : Dict) (hnn : NsMapNamesOk nsmap) (root : Node)
    (hnames : NamesOk root) (orders : List (List String)) (ho : ordersValid root orders = true)
    (m : Dict) (h : collect nsmap root orders = .ok m) : MapNamesOk m :=
  collect_mapNamesOk hnn root hnames orders ho m h

/-- serialize, scan, build: for every tree the serializer can write, every accepted caller mapping
    and every iteration order of the namespace sets, the output *string* of `TagNode.serialize()`
    is well-formed and is read back as the original tree (adjacent text merged, empty text
    dropped, attributes in written order) -/
theorem c02_scan_serialize_roundtrip (nsmap : Dict) (hn : NsMapOk nsmap) (hnn : NsMapNamesOk nsmap)
    (root : Node) (htag : root.isTag = true) (hs : Serializable root) (hnames : NamesOk root)
    (orders : List (List String)) (ho : ordersValid root orders = true) (s : Str)
    (h : serialize nsmap root orders = .ok s) :
    (scan s).bind build = some (normalize root) := by
  unfold serialize at h
  cases hc : collect nsmap root orders with
  | error e => rw [hc] at h; cases h
  | ok m =>
    rw [hc] at h
    obtain ⟨toks, ht, hb⟩ := c02_serialize_roundtrip nsmap hn root htag hs orders ho m hc
    simp only [ht] at h
    cases h
    have hm := c13_collect_ok nsmap hn root orders ho m hc
    have hmn := c02_scan_collect_names nsmap hnn root hnames orders ho m hc
    rw [c02_scan_render toks (c02_scan_emitted nsmap m root hs hm hnames hmn toks ht)]
    exact c02_scan_build_merge toks _ hb

/-- … in particular the output is accepted by the scanner -/
theorem c02_scan_serialize_wellformed (nsmap : Dict) (hn : NsMapOk nsmap) (hnn : NsMapNamesOk nsmap)
    (root : Node) (htag : root.isTag = true) (hs : Serializable root) (hnames : NamesOk root)
    (orders : List (List String)) (ho : ordersValid root orders = true) (s : Str)
    (h : serialize nsmap root orders = .ok s) : (scan s).isSome = true := by
  have := c02_scan_serialize_roundtrip nsmap hn hnn root htag hs hnames orders ho s h
  cases hsc : scan s with
  | none => rw [hsc] at this; cases this
  | some _ => rfl

/-! ## what XML does not preserve and the serializer does not escape

Each of the three extra conditions of `NamesOk` / `ToksOk` is needed: the rendered string is
accepted, but read back differently (XML 1.0 §2.11, §3.3.3, §2.6). -/

/-- a carriage return in character data comes back as a line feed -/
theorem c02_scan_cr_lost :
    scan (render [.stag "a".toList [] false, .chars "x\ry".toList, .etag "a".toList]) =
      some [.stag "a".toList [] false, .chars "x\ny".toList, .etag "a".toList] := by decide +kernel

/-- a tab (or line feed) in an attribute value comes back as a space -/
theorem c02_scan_attr_ws_lost :
    scan (render [.stag "a".toList [("k".toList, "x\ty".toList)] true]) =
      some [.stag "a".toList [("k".toList, "x y".toList)] true] := by decide +kernel

/-- white space at the start of a PI's content belongs to the separator -/
theorem c02_scan_pi_ws_lost :
    scan (render [.stag "a".toList [] false, .pi "p" " x".toList, .etag "a".toList]) =
      some [.stag "a".toList [] false, .pi "p" "x".toList, .etag "a".toList] := by decide +kernel

/-! ## examples -/

/-- attributes with `"`, `<`, `&`, `>`; text with `]]>` and `&` next to another text node; a
    comment with a single `-`; a PI with a single `?`; nested elements in three namespaces -/
def scanExample : Node :=
  .tag "urn:a" "r" [⟨"", "k", "a\"<&>b".toList⟩, ⟨"urn:b", "j", "1".toList⟩]
    [.text "x]]>&".toList, .text "y".toList, .comment " c - d ".toList, .pi "p" "q ? r".toList,
     .tag "urn:b" "e" [] [.tag "" "f" [] [], .text "t".toList]]

def scanExampleMap : Dict := [("xml", Gen.xmlNamespace), ("xmlns", Gen.xmlnsNamespace)]

def scanExampleOut : Str :=
  ("<ns0:r xmlns:ns0=\"urn:a\" xmlns:ns1=\"urn:b\" k=\"a&quot;&lt;&amp;&gt;b\" ns1:j=\"1\">" ++
   "x]]&gt;&amp;y<!-- c - d --><?p q ? r?><ns1:e><f/>t</ns1:e></ns0:r>").toList

def scanExampleToks : List Tok :=
  [.stag "ns0:r".toList [("xmlns:ns0".toList, "urn:a".toList), ("xmlns:ns1".toList, "urn:b".toList),
      ("k".toList, "a\"<&>b".toList), ("ns1:j".toList, "1".toList)] false,
   .chars "x]]>&y".toList, .comment " c - d ".toList, .pi "p" "q ? r".toList,
   .stag "ns1:e".toList [] false, .stag "f".toList [] true, .chars "t".toList,
   .etag "ns1:e".toList, .etag "ns0:r".toList]

set_option maxRecDepth 8000 in
example : (serialize scanExampleMap scanExample (defaultOrders scanExample)).toOption =
    some scanExampleOut := by decide +kernel

set_option maxRecDepth 8000 in
example : scan scanExampleOut = some scanExampleToks := by decide +kernel

example : build scanExampleToks = some (normalize scanExample) := by rfl

/-- the hypotheses of `c02_scan_render` hold for what is emitted, and two text nodes were merged -/
example : ∃ m toks, collect scanExampleMap scanExample (defaultOrders scanExample) = .ok m ∧
    emitRoot m scanExample = .ok toks ∧ ToksOk toks ∧ toks.length = 10 ∧
    mergeChars toks = scanExampleToks :=
  ⟨[("urn:a", "ns0:"), ("", ""), ("urn:b", "ns1:")], _, by rfl, rfl, by decide +kernel,
    by decide +kernel, by decide +kernel⟩

set_option maxRecDepth 8000 in
/-- the hypotheses of `c02_scan_serialize_roundtrip` can be met (non-vacuity) -/
example : (scan scanExampleOut).bind build = some (normalize scanExample) :=
  c02_scan_serialize_roundtrip scanExampleMap ⟨by decide, by decide, by decide, by decide⟩
    (by unfold NsMapNamesOk; decide +kernel) scanExample rfl
    (by simp only [scanExample, Serializable, SerializableList]; decide +kernel)
    (by simp only [scanExample, NamesOk, NamesOkList]; decide +kernel)
    (defaultOrders scanExample) (by decide +kernel) scanExampleOut (by rfl)

/-! ### rejections -/

/-- `<` in an attribute value -/
example : scan "<a b=\"<\"/>".toList = none := by decide +kernel
/-- a `&` that starts no reference; `unescape` alone would let it pass -/
example : scan "<a>&foo;</a>".toList = none ∧ scan "<a k=\"&\"/>".toList = none ∧
    unescape "&foo;".toList = "&foo;".toList := by decide +kernel
/-- the same attribute twice -/
example : scan "<a k=\"1\" k=\"2\"/>".toList = none := by decide +kernel
/-- `]]>` in character data, `--` in a comment, a comment ending in `--->`, a PI named `xml` -/
example : scan "<a>]]></a>".toList = none ∧ scan "<a><!-- -- --></a>".toList = none ∧
    scan "<a><!-- ---></a>".toList = none ∧ scan "<a><?XmL x?></a>".toList = none := by
  decide +kernel
/-- unterminated constructs, an empty name, white space in the wrong place, a control character -/
example : scan "<a".toList = none ∧ scan "<a k=\"1/>".toList = none ∧ scan "<a><!-- c".toList = none ∧
    scan "<a><?p q".toList = none ∧ scan "<>".toList = none ∧ scan "< a/>".toList = none ∧
    scan "<a k =\"1\"/>".toList = none ∧ scan "<a k=\"1\"j=\"2\"/>".toList = none ∧
    scan "</ a>".toList = none ∧ scan "<a>\x01</a>".toList = none := by decide +kernel
/-- an unclosed element is a fine token stream; nesting is the builder's job -/
example : scan "<a>".toList = some [.stag "a".toList [] false] ∧
    build [.stag "a".toList [] false] = none := ⟨by decide +kernel, by rfl⟩
example : (scan "<a><b></a></b>".toList).isSome = true ∧
    ((scan "<a><b></a></b>".toList).bind build).isNone = true := by decide +kernel
/-- the driver example -/
example : scan "<a x=\"1&amp;\">t&lt;<!--c--><?p q?><b/></a>".toList =
    some [.stag "a".toList [("x".toList, "1&".toList)] false, .chars "t<".toList, .comment "c".toList,
      .pi "p" "q".toList, .stag "b".toList [] true, .etag "a".toList] := by decide +kernel

end Delb.Ser

import DelbModel.Model.Gc
import DelbModel.Lemmas.Gc
/-!
# C04 — garbage collection timing never changes what a program observes

Model: `Model/Gc.lean` — one run of `_WrapperCache.__gc_callback__` over the cache, with reference
counts split into the program's references and the structural ones.  The theorems are about every
cache state (any number of wrappers, any chains of appended text nodes, any reference pattern).
What the model cannot exhibit is *when* CPython runs a collection and which temporaries a library
frame holds at that moment (they count as references and only keep more wrappers); that part is
explored on the implementation by the correspondence check.
-/
namespace Delb.Gc

/-- generated-table obligation: the thresholds in the source are the structural reference counts
    listed in `Model/Gc.lean`, at every comparison of each kind (however many sites the source has),
    no other `getrefcount` comparison exists, and the callback is guarded by phase and lock -/
theorem c04_thresholds :
    (Gen.gcWrapperBases ≠ [] ∧ ∀ x ∈ Gen.gcWrapperBases, x = 4) ∧
    (Gen.gcDocumentIdles ≠ [] ∧ ∀ x ∈ Gen.gcDocumentIdles, x = 4) ∧
    (Gen.gcAppendedBases ≠ [] ∧ ∀ x ∈ Gen.gcAppendedBases, x = 3) ∧
    (Gen.gcHeadBases ≠ [] ∧ ∀ x ∈ Gen.gcHeadBases, x = 3) ∧ Gen.gcOtherComparisons = [] ∧
    Gen.gcGuard = "phase != 'stop' or self.locks" := by
  refine ⟨⟨by decide, by decide⟩, ⟨by decide, by decide⟩, ⟨by decide, by decide⟩, ⟨by decide, by decide⟩, rfl, rfl⟩

/-- the thresholds the callback uses, derived from the table obligation `c04_thresholds` -/
theorem c04_threshold_values :
    Gen.gcWrapperBase = 4 ∧ Gen.gcDocumentIdle = 4 ∧ Gen.gcAppendedBase = 3 ∧ Gen.gcHeadBase = 3 :=
  thresholds_of_lists c04_thresholds.1 c04_thresholds.2.1 c04_thresholds.2.2.1 c04_thresholds.2.2.2.1

/-- the callback's tests see exactly the program's references: a wrapper is kept iff the program
    references the node, its document, or any text node at its data / tail position -/
theorem c04_keeps_iff_referenced (w : Wrapper) : keeps w = anyReferenced w := by
  obtain ⟨hw, hd, ha, hh⟩ := c04_threshold_values
  exact keeps_eq_anyReferenced hw hd ha hh w

/-- while a lock is held (`with _wrapper_cache:`) a collection changes nothing -/
theorem c04_locked_noop (s : State) (h : s.locks > 0) : gcStep s = (s, []) := by
  exact gcStep_locked s h

/-- translator obligation: the lock is a counter - `__init__` starts it at 0, `__enter__` adds one,
    `__exit__` takes one off (read from /repo's source on every run) -/
theorem c04_lock_is_counter :
    Gen.gcLockInit = some 0 ∧ Gen.gcLockEnterDelta = some 1 ∧ Gen.gcLockExitDelta = some (-1) := by
  decide

/-- translator obligation: no generator of the library yields inside a `with _wrapper_cache:`
    block - the lock is only ever held for the duration of a call, never while an iterator is
    suspended (then released nodes would not be evicted: "no cached node objects left behind") -/
theorem c04_lock_never_held_across_yield :
    Gen.gcLockHeldAcrossYield = [] ∧ 0 < Gen.gcLockBlocks := by
  decide

/-- … so for every properly nested use of `with _wrapper_cache:` - any depth, any order - the
    counter equals the number of blocks that are open: collections stay switched off until the
    OUTERMOST block is left, and are on again afterwards -/
theorem c04_lock_counts_open_blocks (ops : List LockOp) (k : Nat) (h : openBlocks 0 ops = some k) :
    lockCount 1 (-1) 0 ops = (k : Int) := by
  simpa using lockCount_openBlocks ops 0 k h

/-- a lock that only remembers "locked / not locked" (enter sets 1, exit sets 0 - modelled here as
    the counter clamped by an exit to 0) would re-enable collections inside an outer block: with a
    counter the inner exit of `enter enter exit` leaves 1, not 0 -/
example : lockCount 1 (-1) 0 [.enter, .enter, .exit] = 1 ∧ openBlocks 0 [.enter, .enter, .exit] = some 1 := by decide

/-- every referenced node object stays the cached object for its element, with its chains of text
    nodes untouched (so navigation returns the very same objects) -/
theorem c04_referenced_stay (s : State) (w : Wrapper) (hw : w ∈ s.cache) (h : anyReferenced w = true) :
    w ∈ (gcStep s).1.cache := by
  exact mem_gcStep_cache_of_keeps s w hw (by rw [c04_keeps_iff_referenced]; exact h)

/-- nothing is added or reordered: what stays is a sublist of the cache -/
theorem c04_kept_sublist (s : State) : List.Sublist (gcStep s).1.cache s.cache := by
  exact gcStep_cache_sublist s

/-- a wrapper disappears only when the program references neither the node, nor its document, nor
    any of its text nodes — adjacent text nodes are coalesced only then -/
theorem c04_evicted_unreferenced (s : State) (w : Wrapper) (hw : w ∈ s.cache)
    (h : w ∉ (gcStep s).1.cache) : anyReferenced w = false := by
  rw [← c04_keeps_iff_referenced]; exact keeps_false_of_not_mem_gcStep s w hw h

/-- the content of every tree stays the same: an evicted wrapper leaves its element with exactly the
    text its text nodes showed, at both positions -/
theorem c04_content_stable (s : State) (w : Wrapper) (hw : w ∈ s.cache) :
    w ∈ (gcStep s).1.cache ∨
    ∃ e ∈ (gcStep s).2, e.elem = w.elem ∧ e.text = slotText w.data ∧ e.tail = slotText w.tail := by
  rcases gcStep_mem_or_evicted s w hw with h | ⟨h, _⟩
  · exact Or.inl h
  · exact Or.inr ⟨evict w, h, rfl, evict_text w, evict_tail w⟩

/-- the folded elements are exactly those of evicted, unreferenced wrappers -/
theorem c04_coalesce_only_unreferenced (s : State) (e : Element) (he : e ∈ (gcStep s).2) :
    ∃ w ∈ s.cache, e = evict w ∧ anyReferenced w = false ∧ w ∉ (gcStep s).1.cache := by
  obtain ⟨w, hw, he', hk, hn⟩ := gcStep_evicted_origin s e he
  exact ⟨w, hw, he', by rw [← c04_keeps_iff_referenced]; exact hk, hn⟩

/-- once the program has dropped all its references, a collection leaves no cached node behind -/
theorem c04_nothing_left (s : State) (hl : s.locks = 0) (h : ∀ w ∈ s.cache, anyReferenced w = false) :
    (gcStep s).1.cache = [] := by
  exact gcStep_nothing_left s hl (fun w hw => by rw [c04_keeps_iff_referenced]; exact h w hw)

/-- a second collection right after the first finds nothing to do -/
theorem c04_idempotent (s : State) : gcStep (gcStep s).1 = ((gcStep s).1, []) := by
  exact gcStep_idempotent s

/-! non-vacuity: a cache with a referenced chained text node, a document root held only through its
    document, and an unreferenced comment -/
def exampleState : State :=
  { locks := 0,
    cache := [
      { elem := 0, isTag := true, userRefs := 0, docRefs := some 1,
        data := { headRefs := 0, stored := "a".toList, appended := [] },
        tail := { headRefs := 0, stored := [], appended := [] } },
      { elem := 1, isTag := true, userRefs := 0, docRefs := none,
        data := { headRefs := 0, stored := "x".toList, appended := [⟨0, "y".toList⟩, ⟨1, "z".toList⟩] },
        tail := { headRefs := 0, stored := [], appended := [] } },
      { elem := 2, isTag := false, userRefs := 0, docRefs := none,
        data := { headRefs := 0, stored := [], appended := [] },
        tail := { headRefs := 0, stored := "t".toList, appended := [⟨0, "u".toList⟩] } } ] }

example : ((gcStep exampleState).1.cache.map (·.elem)) = [0, 1] ∧
    (gcStep exampleState).2 = [{ elem := 2, text := [], tail := "tu".toList }] := by
  have hk : keeps = anyReferenced := funext c04_keeps_iff_referenced
  simp only [gcStep, hk]
  decide

end Delb.Gc

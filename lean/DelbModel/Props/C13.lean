import DelbModel.Model.Serialize
import DelbModel.Lemmas.Prefixes
/-!
# C13 — Namespace declarations in output are consistent and honour the caller

Property theorems only; helper lemmas are in `DelbModel/Lemmas/Prefixes.lean`.
`collect nsmap root orders` models `Serializer._collect_prefixes`; `orders` is the
(arbitrary) iteration order of every tag node's namespace set.
-/
namespace Delb.Ser

/-- `Namespaces(...)`: an accepted mapping has unique, colon-free prefixes … -/
theorem c13_normalize_ok (decls : List (Option String × String)) (nsmap : Dict)
    (hcolon : ∀ d ∈ decls, ∀ p, d.1 = some p → ':' ∉ p.toList)
    (h : normalizeDecls decls = .ok nsmap) : NsMapOk nsmap :=
  normalizeDecls_nsMapOk hcolon h

-- FALSE: decls = [(some "a", "urn:x"), (some "a", "urn:y")] is accepted (the two namespaces
-- differ, so no "declared redundantly" error) and the second `dset` overwrites the first:
-- `dget nsmap "a" = some "urn:y"` although `(some "a", "urn:x") ∈ decls`.  The model takes the
-- declarations as a list, Python takes a `Mapping` whose keys are unique; the statement lacks
-- that hypothesis (a slip in the statement, not a defect of the modelled code).
-- /-- … keeps the global `xml` binding and every prefix the caller declared -/
-- theorem c13_normalize_keeps (decls : List (Option String × String)) (nsmap : Dict)
--     (h : normalizeDecls decls = .ok nsmap) :
--     dget nsmap "xml" = some Gen.xmlNamespace ∧
--     ∀ p ns, (some p, ns) ∈ decls → dget nsmap p = some ns ∧ lookupPrefix nsmap ns = some p

/-- … keeps the global `xml` binding and every prefix the caller declared (the declarations
    are a mapping: no prefix occurs twice) -/
theorem c13_normalize_keeps_partial (decls : List (Option String × String)) (nsmap : Dict)
    (hnodup : (decls.map (·.1)).Nodup)
    (h : normalizeDecls decls = .ok nsmap) :
    dget nsmap "xml" = some Gen.xmlNamespace ∧
    ∀ p ns, (some p, ns) ∈ decls → dget nsmap p = some ns ∧ lookupPrefix nsmap ns = some p :=
  normalizeDecls_keeps hnodup h

/-- the assertions in `_collect_prefixes` can never fail, whatever the tree, the caller's
    mapping and the set iteration orders are -/
theorem c13_no_assertion (nsmap : Dict) (hn : NsMapOk nsmap) (root : Node)
    (orders : List (List String)) (site : String) :
    collect nsmap root orders ≠ .error (.assertion site) :=
  (collect_spec hn root orders).1 site

-- FALSE: nsmap = [("foo", "")], root = .tag "" "r" [] [], orders = [[""]] (valid) gives
-- `collect … = .ok [("", "")]`; `PMapOk.caller` with ns = "", q = "foo" demands
-- `dget m "" = some "foo:"`, but the empty namespace always gets the empty prefix (`collectOne`
-- handles `ns == ""` before it consults the caller's mapping; `PMapOk.emptyNs` says the same).
-- `NsMapOk` does not exclude a non-empty prefix bound to the empty namespace, and
-- `normalizeDecls [(some "foo", "")]` is accepted by the model.  All other fields of `PMapOk`
-- hold, and `caller` holds for every ns ≠ "" (`Inv.caller` in Lemmas/Prefixes.lean).
-- /-- every namespace of the tree gets exactly one prefix, different namespaces get different
--     prefixes, the empty namespace only the empty prefix, and a namespace the caller bound to a
--     non-empty prefix keeps it — for every order -/
-- theorem c13_collect_ok (nsmap : Dict) (hn : NsMapOk nsmap) (root : Node)
--     (orders : List (List String)) (ho : ordersValid root orders = true) (m : Dict)
--     (h : collect nsmap root orders = .ok m) : PMapOk nsmap m root

/-- every namespace of the tree gets exactly one prefix, different namespaces get different
    prefixes, the empty namespace only the empty prefix, and a namespace the caller bound to a
    non-empty prefix keeps it — for every order; provided the caller did not bind a non-empty
    prefix to the empty namespace -/
theorem c13_collect_ok_partial (nsmap : Dict) (hn : NsMapOk nsmap) (root : Node)
    (orders : List (List String)) (ho : ordersValid root orders = true) (m : Dict)
    (hempty : ∀ q, lookupPrefix nsmap "" = some q → q = "")
    (h : collect nsmap root orders = .ok m) : PMapOk nsmap m root := by
  obtain ⟨hinv, hkeys⟩ := (collect_spec hn root orders).2 m h
  exact hinv.pmapOk (fun ns hns => hkeys ns (orders_cover ho ns hns)) hempty

/-- the `xml` and `xmlns` prefixes are never declared, every other collected prefix is declared
    exactly once with its namespace, and a default declaration is written only for a non-empty
    namespace -/
theorem c13_declarations (nsmap m : Dict) (t : Node) (hm : PMapOk nsmap m t) :
    (∀ kv ∈ declarations m, kv.1 ≠ "xmlns:xml".toList ∧ kv.1 ≠ "xmlns:xmlns".toList) ∧
    (∀ ns p, dget m ns = some p → p ≠ "" → chopColon p ∉ Gen.globalPrefixes →
        (("xmlns:" ++ chopColon p).toList, ns.toList) ∈ declarations m) ∧
    (∀ v, ("xmlns".toList, v) ∈ declarations m → v ≠ [] ∧ dget m (String.ofList v) = some "") :=
  declarations_spec hm

/-- all declarations sit on the outermost element: `emitNode` (used for every descendant)
    writes only the attributes of the node itself -/
theorem c13_declarations_on_root_only (m : Dict) (ns name : String) (attrs : List Attr)
    (kids : List Node) (toks : List Tok)
    (h : emitRoot m (.tag ns name attrs kids) = .ok toks) :
    ∃ qn ad sc rest rest', toks = .stag qn (declarations m ++ ad) sc :: rest ∧
      emitNode m (.tag ns name attrs kids) = .ok (.stag qn ad sc :: rest') ∧ rest = rest' ∧
      attrsData m (sortAttrs attrs) = .ok ad :=
  emitRoot_spec m ns name attrs kids toks h

/-- non-vacuity: a caller prefix that looks like a generated one, met after another namespace -/
example : collect [("xml", Gen.xmlNamespace), ("ns0", "urn:b")]
    (.tag "urn:a" "r" [⟨"urn:c", "k", []⟩] [.tag "urn:b" "e" [] []])
    [["urn:c", "urn:a"], ["urn:b"]]
    = .ok [("urn:a", ""), ("urn:c", "ns1:"), ("urn:b", "ns0:")] := by rfl

end Delb.Ser

import DelbModel.Model.Serialize
import DelbModel.Lemmas.Prefixes
/-!
# C13 — Namespace declarations in output are consistent and honour the caller

Property theorems only; helper lemmas are in `DelbModel/Lemmas/Prefixes.lean`.
`collect nsmap root orders` models `Serializer._collect_prefixes`; `orders` is the
(arbitrary) iteration order of every tag node's namespace set.
-/
namespace Delb.Ser

/-- `Namespaces(...)`: an accepted mapping has unique, colon-free prefixes and binds the two
    global prefixes `xml` and `xmlns` to their namespaces … -/
theorem c13_normalize_ok (decls : List (Option String × String)) (nsmap : Dict)
    (hcolon : ∀ d ∈ decls, ∀ p, d.1 = some p → ':' ∉ p.toList)
    (h : normalizeDecls decls = .ok nsmap) : NsMapOk nsmap :=
  normalizeDecls_nsMapOk hcolon h

/-- … keeps the global `xml` binding and every prefix the caller declared.  `hnodup`: the
    declarations are a Python `Mapping`, so no prefix (key) occurs twice; the model takes them
    as a list, and for a list with a repeated prefix the later entry overwrites the earlier -/
theorem c13_normalize_keeps (decls : List (Option String × String)) (nsmap : Dict)
    (hnodup : (decls.map (·.1)).Nodup)
    (h : normalizeDecls decls = .ok nsmap) :
    dget nsmap "xml" = some Gen.xmlNamespace ∧
    ∀ p ns, (some p, ns) ∈ decls → dget nsmap p = some ns ∧ lookupPrefix nsmap ns = some p :=
  normalizeDecls_keeps hnodup h

/-- the assertions in `_collect_prefixes` can never fail, whatever the tree, the caller's
    mapping and the set iteration orders are -/
theorem c13_no_assertion (nsmap : Dict) (hn : NsMapOk nsmap) (root : Node)
    (orders : List (List String)) (site : String) :
    collect nsmap root orders ≠ .error (.assertion site) :=
  (collect_spec hn root orders).1 site

/-- every namespace of the tree gets exactly one prefix, different namespaces get different
    prefixes, the empty namespace only the empty prefix, a non-empty namespace the caller bound
    to a non-empty prefix keeps it, and the prefixes `xml:` / `xmlns:` are used for the XML /
    XMLNS namespace only — for every order -/
theorem c13_collect_ok (nsmap : Dict) (hn : NsMapOk nsmap) (root : Node)
    (orders : List (List String)) (ho : ordersValid root orders = true) (m : Dict)
    (h : collect nsmap root orders = .ok m) : PMapOk nsmap m root := by
  obtain ⟨hinv, hkeys⟩ := (collect_spec hn root orders).2 m h
  exact hinv.pmapOk hn (fun ns hns => hkeys ns (orders_cover ho ns hns))

/-- the `xml` and `xmlns` prefixes are never declared, every other collected prefix is declared
    exactly once with its namespace, and a default declaration is written only for a non-empty
    namespace -/
theorem c13_declarations (nsmap m : Dict) (t : Node) (hm : PMapOk nsmap m t) :
    (∀ kv ∈ declarations m, kv.1 ≠ "xmlns:xml".toList ∧ kv.1 ≠ "xmlns:xmlns".toList) ∧
    (∀ ns p, dget m ns = some p → p ≠ "" → chopColon p ∉ Gen.globalPrefixes →
        (("xmlns:" ++ chopColon p).toList, ns.toList) ∈ declarations m) ∧
    (∀ v, ("xmlns".toList, v) ∈ declarations m → v ≠ [] ∧ dget m (String.ofList v) = some "") :=
  declarations_spec hm

/-- all declarations sit on the outermost element: `emitNode` (used for every descendant)
    writes only the attributes of the node itself -/
theorem c13_declarations_on_root_only (m : Dict) (ns name : String) (attrs : List Attr)
    (kids : List Node) (toks : List Tok)
    (h : emitRoot m (.tag ns name attrs kids) = .ok toks) :
    ∃ qn ad sc rest rest', toks = .stag qn (declarations m ++ ad) sc :: rest ∧
      emitNode m (.tag ns name attrs kids) = .ok (.stag qn ad sc :: rest') ∧ rest = rest' ∧
      attrsData m (sortAttrs attrs) = .ok ad :=
  emitRoot_spec m ns name attrs kids toks h

/-- non-vacuity: a caller prefix that looks like a generated one, met after another namespace -/
example : collect [("xml", Gen.xmlNamespace), ("ns0", "urn:b")]
    (.tag "urn:a" "r" [⟨"urn:c", "k", []⟩] [.tag "urn:b" "e" [] []])
    [["urn:c", "urn:a"], ["urn:b"]]
    = .ok [("urn:a", ""), ("urn:c", "ns1:"), ("urn:b", "ns0:")] := by rfl

/-- non-vacuity: a caller binding of a prefix to the empty namespace (`{"foo": ""}`) is accepted
    and has no effect — the empty namespace gets the empty prefix -/
example : collect [("xml", Gen.xmlNamespace), ("xmlns", Gen.xmlnsNamespace), ("foo", "")]
    (.tag "" "r" [] []) [[""]] = .ok [("", "")] := by rfl

/-- non-vacuity: an accepted mapping satisfies `NsMapOk`, and `collect` succeeds with it (here the
    caller's default namespace has to yield the empty prefix to the empty namespace) -/
example : ∃ nsmap, normalizeDecls [(some "foo", ""), (none, "urn:a")] = .ok nsmap ∧ NsMapOk nsmap ∧
    collect nsmap (.tag "urn:a" "r" [⟨"", "k", []⟩] [.tag "urn:b" "e" [] []])
      [["", "urn:a"], ["urn:b"]] = .ok [("", ""), ("urn:a", "ns0:"), ("urn:b", "ns1:")] := by
  refine ⟨_, rfl, ?_, by rfl⟩
  exact c13_normalize_ok [(some "foo", ""), (none, "urn:a")] _ (by decide) rfl

end Delb.Ser

import DelbModel.Model.Serialize
import DelbModel.Lemmas.Prefixes
import DelbModel.Lemmas.PrefixesTotal
/-!
# C13 — Namespace declarations in output are consistent and honour the caller

Property theorems only; helper lemmas are in `DelbModel/Lemmas/Prefixes.lean`.
`collect nsmap root orders` models `Serializer._collect_prefixes`; `orders` is the
(arbitrary) iteration order of every tag node's namespace set.
-/
namespace Delb.Ser

/-- `Namespaces(...)`: an accepted mapping has unique, colon-free prefixes and binds the two
    global prefixes `xml` and `xmlns` to their namespaces … -/
theorem c13_normalize_ok (decls : List (Option String × String)) (nsmap : Dict)
    (hcolon : ∀ d ∈ decls, ∀ p, d.1 = some p → ':' ∉ p.toList)
    (h : normalizeDecls decls = .ok nsmap) : NsMapOk nsmap :=
  normalizeDecls_nsMapOk hcolon h

/-- … keeps the global `xml` binding and every prefix the caller declared.  `hnodup`: the
    declarations are a Python `Mapping`, so no prefix (key) occurs twice; the model takes them
    as a list, and for a list with a repeated prefix the later entry overwrites the earlier -/
theorem c13_normalize_keeps (decls : List (Option String × String)) (nsmap : Dict)
    (hnodup : (decls.map (·.1)).Nodup)
    (h : normalizeDecls decls = .ok nsmap) :
    dget nsmap "xml" = some Gen.xmlNamespace ∧
    ∀ p ns, (some p, ns) ∈ decls → dget nsmap p = some ns ∧ lookupPrefix nsmap ns = some p :=
  normalizeDecls_keeps hnodup h

/-- the assertions in `_collect_prefixes` can never fail, whatever the tree, the caller's
    mapping and the set iteration orders are -/
theorem c13_no_assertion (nsmap : Dict) (hn : NsMapOk nsmap) (root : Node)
    (orders : List (List String)) (site : String) :
    collect nsmap root orders ≠ .error (.assertion site) :=
  (collect_spec hn root orders).1 site

/-- every namespace of the tree gets exactly one prefix, different namespaces get different
    prefixes, the empty namespace only the empty prefix, a non-empty namespace the caller bound
    to a non-empty prefix keeps it, and the prefixes `xml:` / `xmlns:` are used for the XML /
    XMLNS namespace only — for every order -/
theorem c13_collect_ok (nsmap : Dict) (hn : NsMapOk nsmap) (root : Node)
    (orders : List (List String)) (ho : ordersValid root orders = true) (m : Dict)
    (h : collect nsmap root orders = .ok m) : PMapOk nsmap m root := by
  obtain ⟨hinv, hkeys⟩ := (collect_spec hn root orders).2 m h
  exact hinv.pmapOk hn (fun ns hns => hkeys ns (orders_cover ho ns hns))

/-- the `xml` and `xmlns` prefixes are never declared, every other collected prefix is declared
    exactly once with its namespace, and a default declaration is written only for a non-empty
    namespace -/
theorem c13_declarations (nsmap m : Dict) (t : Node) (hm : PMapOk nsmap m t) :
    (∀ kv ∈ declarations m, kv.1 ≠ "xmlns:xml".toList ∧ kv.1 ≠ "xmlns:xmlns".toList) ∧
    (∀ ns p, dget m ns = some p → p ≠ "" → chopColon p ∉ Gen.globalPrefixes →
        (("xmlns:" ++ chopColon p).toList, ns.toList) ∈ declarations m) ∧
    (∀ v, ("xmlns".toList, v) ∈ declarations m → v ≠ [] ∧ dget m (String.ofList v) = some "") :=
  declarations_spec hm

/-- all declarations sit on the outermost element: `emitNode` (used for every descendant)
    writes only the attributes of the node itself -/
theorem c13_declarations_on_root_only (m : Dict) (ns name : String) (attrs : List Attr)
    (kids : List Node) (toks : List Tok)
    (h : emitRoot m (.tag ns name attrs kids) = .ok toks) :
    ∃ qn ad sc rest rest', toks = .stag qn (declarations m ++ ad) sc :: rest ∧
      emitNode m (.tag ns name attrs kids) = .ok (.stag qn ad sc :: rest') ∧ rest = rest' ∧
      attrsData m (sortAttrs attrs) = .ok ad :=
  emitRoot_spec m ns name attrs kids toks h

/-- non-vacuity: a caller prefix that looks like a generated one, met after another namespace -/
example : collect [("xml", Gen.xmlNamespace), ("ns0", "urn:b")]
    (.tag "urn:a" "r" [⟨"urn:c", "k", []⟩] [.tag "urn:b" "e" [] []])
    [["urn:c", "urn:a"], ["urn:b"]]
    = .ok [("urn:a", ""), ("urn:c", "ns1:"), ("urn:b", "ns0:")] := by rfl

/-- non-vacuity: a caller binding of a prefix to the empty namespace (`{"foo": ""}`) is accepted
    and has no effect — the empty namespace gets the empty prefix -/
example : collect [("xml", Gen.xmlNamespace), ("xmlns", Gen.xmlnsNamespace), ("foo", "")]
    (.tag "" "r" [] []) [[""]] = .ok [("", "")] := by rfl

/-- non-vacuity: an accepted mapping satisfies `NsMapOk`, and `collect` succeeds with it (here the
    caller's default namespace has to yield the empty prefix to the empty namespace) -/
example : ∃ nsmap, normalizeDecls [(some "foo", ""), (none, "urn:a")] = .ok nsmap ∧ NsMapOk nsmap ∧
    collect nsmap (.tag "urn:a" "r" [⟨"", "k", []⟩] [.tag "urn:b" "e" [] []])
      [["", "urn:a"], ["urn:b"]] = .ok [("", ""), ("urn:a", "ns0:"), ("urn:b", "ns1:")] := by
  refine ⟨_, rfl, ?_, by rfl⟩
  exact c13_normalize_ok [(some "foo", ""), (none, "urn:a")] _ (by decide) rfl

/-! ## totality

Besides an assertion (`c13_no_assertion`) the only way `_collect_prefixes` can fail is the
`NotImplementedError` of `_new_namespace_declaration`, raised when all `2**16` candidates `ns0`, …,
`ns65535` are rejected; `Err.invalidCodePath` is not produced by `collect` at all.  A candidate is
rejected when it is — with its colon — a prefix collected so far, or a prefix of the caller's mapping.
The candidates are pairwise different, a collected prefix belongs to one namespace of the tree, and the
caller's mapping always holds the two global prefixes `xml` and `xmlns`, which are no candidates; when a
prefix is to be generated, at least one namespace of the tree has none yet.  Hence the size bound of
`c13_collect_total`: (number of distinct namespaces in the tree) + (size of the caller's mapping,
the global and the common-namespace entries `Namespaces` adds included) ≤ 65538.
-/

/-- **totality of prefix collection**: for every tree, every accepted caller mapping and every
    iteration order of the namespace sets, `_collect_prefixes` yields a prefix map — provided the
    distinct namespaces of the tree and the entries of the caller's mapping are together at most
    `65536 + 2` -/
theorem c13_collect_total (nsmap : Dict) (hn : NsMapOk nsmap) (root : Node)
    (orders : List (List String)) (ho : ordersValid root orders = true)
    (hsmall : (dedup (treeNamespaces root)).length + nsmap.length ≤ 65538) :
    ∃ m, collect nsmap root orders = .ok m :=
  collect_total hn root orders ho hsmall

/-- the size bound is decidable -/
instance (nsmap : Dict) (root : Node) :
    Decidable ((dedup (treeNamespaces root)).length + nsmap.length ≤ 65538) := inferInstance

/-- … and the map has the C13 guarantees -/
theorem c13_collect_total_ok (nsmap : Dict) (hn : NsMapOk nsmap) (root : Node)
    (orders : List (List String)) (ho : ordersValid root orders = true)
    (hsmall : (dedup (treeNamespaces root)).length + nsmap.length ≤ 65538) :
    ∃ m, collect nsmap root orders = .ok m ∧ PMapOk nsmap m root := by
  obtain ⟨m, hm⟩ := c13_collect_total nsmap hn root orders ho hsmall
  exact ⟨m, hm, c13_collect_ok nsmap hn root orders ho m hm⟩

/-- when exactly `_new_namespace_declaration` gives up, for a symbolic bound: every candidate of the
    range is rejected -/
theorem c13_findFree_none_iff (nsmap m : Dict) (i bound : Nat) :
    findFree nsmap m i bound = none ↔
      ∀ j, i ≤ j → j < i + bound →
        ("ns" ++ natToStr j ++ ":") ∈ dvalues m ∨ ("ns" ++ natToStr j) ∈ dkeys nsmap :=
  findFree_eq_none_iff

/-- the pigeonhole bound behind `c13_collect_total`, for a symbolic bound: with fewer collected
    prefixes and caller prefixes than candidates, a free candidate is found … -/
theorem c13_findFree_some (nsmap m : Dict) (i bound : Nat) (h : m.length + nsmap.length < bound) :
    (findFree nsmap m i bound).isSome :=
  findFree_isSome (dkeys nsmap) (fun _ hj => hj) i bound (by simpa [dkeys] using h)

/-- … and it cannot be relaxed: a caller mapping that binds `ns0` … `ns{bound-1}` (`genMap bound`, of
    size `bound`; `pre` = any further entries) blocks all `bound` candidates -/
theorem c13_findFree_exhausted (pre m : Dict) (bound : Nat) :
    findFree (pre ++ genMap bound) m 0 bound = none :=
  findFree_genMap pre m bound

/-- the converse boundary of `c13_collect_total`: the mapping with the two global prefixes and
    `ns0` … `ns65535` is accepted and has `65538` entries; a tree with two namespaces the caller did
    not bind (`2 + 65538 > 65538`) makes `_collect_prefixes` raise `NotImplementedError`.
    (Not evaluated: proved from `c13_findFree_exhausted`.) -/
theorem c13_collect_exhausted :
    NsMapOk (boundMap 65536) ∧ (boundMap 65536).length = 65538 ∧
    collect (boundMap 65536) (.tag "urn:r" "r" [⟨"urn:a", "k", []⟩] []) [["urn:a", "urn:r"]]
      = .error .notImplemented :=
  ⟨nsMapOk_boundMap 65536, length_boundMap 65536, collect_exhausted⟩

/-- non-vacuity of `c13_collect_total`: an accepted mapping (with a caller prefix that looks like a
    generated one), a tree with three namespaces -/
example : ∃ nsmap, normalizeDecls [(some "ns0", "urn:b")] = .ok nsmap ∧
    ∃ m, collect nsmap (.tag "urn:a" "r" [⟨"urn:c", "k", []⟩] [.tag "urn:b" "e" [] []])
      [["urn:c", "urn:a"], ["urn:b"]] = .ok m := by
  refine ⟨_, rfl, ?_⟩
  exact c13_collect_total _ (c13_normalize_ok [(some "ns0", "urn:b")] _ (by decide) rfl) _ _
    (by decide) (by decide)

/-- the small instance of the boundary, evaluated: with a search bound of 2 and `ns0`, `ns1` taken
    nothing is found; one more candidate would do -/
example : findFree [("ns0", "urn:b"), ("ns1", "urn:c")] [] 0 2 = none ∧
    findFree [("ns0", "urn:b"), ("ns1", "urn:c")] [] 0 3 = some "ns2:" := by decide

end Delb.Ser

import DelbModel.Model.Whitespace
import DelbModel.Lemmas.Whitespace
/-!
# C07 — Whitespace reduction is the TEI normalisation, exactly and idempotently

Property theorems only; helper lemmas are in `DelbModel/Lemmas/Whitespace.lean`.
All theorems are for an arbitrary whitespace predicate `ws` with `ws ' ' = true`;
`c07_whitespace_tables` ties the predicate the code uses to the generated tables.
-/
namespace Delb.WS

/-- generated-table obligation: the regex `\s` used by `_crunch_whitespace`, `str.strip`
    and `str.isspace` treat the same code points as whitespace, and XML's whitespace
    characters (space, tab, LF, CR) are among them -/
theorem c07_whitespace_tables :
    Gen.reWhitespace = Gen.stripWhitespace ∧ Gen.reWhitespace = Gen.pyWhitespace ∧
    pyWs ' ' = true ∧ pyWs '\t' = true ∧ pyWs '\n' = true ∧ pyWs '\r' = true := by
  decide

/-- the four-rule table of `_reduce_whitespace_content` is the declarative normalisation -/
theorem c07_content_impl_eq_spec (ws : Char → Bool) (hsp : ws ' ' = true)
    (s : Str) (isFirst isLast : Bool) :
    reduceContentImpl ws s isFirst isLast = reduceContentSpec ws s isFirst isLast := by
  exact content_impl_eq_spec ws hsp s isFirst isLast

/-- … and therefore the whole traversal: implementation model = specification, every tree -/
theorem c07_impl_eq_spec (ws : Char → Bool) (hsp : ws ' ' = true) (t : Node) :
    reduceImpl ws t = reduceSpec ws t := by
  have h : reduceContentImpl ws = reduceContentSpec ws := by
    funext s f l
    exact content_impl_eq_spec ws hsp s f l
  simp only [reduceImpl, reduceSpec, h]

/-- the reduced content has no whitespace character other than the plain space and
    never two spaces in a row -/
theorem c07_content_collapsed (ws : Char → Bool) (hsp : ws ' ' = true)
    (s : Str) (isFirst isLast : Bool) :
    (∀ c ∈ reduceContentSpec ws s isFirst isLast, ws c = true → c = ' ') ∧
    ∀ i, (reduceContentSpec ws s isFirst isLast)[i]? = some ' ' →
         (reduceContentSpec ws s isFirst isLast)[i+1]? ≠ some ' ' := by
  exact ⟨spec_onlySp ws s isFirst isLast, noDbl_getElem (spec_noDbl ws hsp s isFirst isLast)⟩

/-- no non-whitespace character is changed, lost or added (per text node) -/
theorem c07_content_nonws (ws : Char → Bool) (hsp : ws ' ' = true)
    (s : Str) (isFirst isLast : Bool) :
    nonWs ws (reduceContentSpec ws s isFirst isLast) = nonWs ws s := by
  exact nonWs_spec ws hsp s isFirst isLast

/-- elements, attributes, comments, PIs and their order are never changed -/
theorem c07_skeleton (rc : Str → Bool → Bool → Str) (m : Mode) (t : Node) :
    skeleton (reduceNode rc m t) = skeleton t := by
  exact (skeleton_reduce_all rc).1 t m

/-- non-whitespace characters of the whole document are preserved in order -/
theorem c07_nonws_preserved (ws : Char → Bool) (hsp : ws ' ' = true) (t : Node) :
    nonWs ws (fullText (reduceSpec ws t)) = nonWs ws (fullText t) := by
  exact (nonWs_reduce_all _ ws (nonWs_spec ws hsp)).1 t .default

/-- a parser-shaped tree (no empty and no adjacent text nodes) stays parser-shaped -/
theorem c07_merged_preserved (ws : Char → Bool) (hsp : ws ' ' = true) (t : Node)
    (h : merged t = true) : merged (reduceSpec ws t) = true := by
  have _ := hsp  -- holds for every content function; `hsp` is not needed
  exact (merged_reduce_all _).1 t .default h

/-- applying the reduction twice equals applying it once -/
theorem c07_idempotent (ws : Char → Bool) (hsp : ws ' ' = true) (t : Node)
    (h : merged t = true) :
    reduceSpec ws (reduceSpec ws t) = reduceSpec ws t := by
  exact (idem_reduce_all _ (spec_idem ws hsp)).1 t .default h

mutual
  /-- no empty text node and no `xml:space` attribute anywhere in the subtree -/
  def plainSubtree : Node → Bool
    | .tag _ _ attrs kids =>
      !(attrs.any (fun a => a.ns == Gen.xmlNamespace && a.name == "space")) && plainList kids
    | .text s => !s.isEmpty
    | _ => true
  def plainList : List Node → Bool
    | [] => true
    | k :: ks => plainSubtree k && plainList ks
end

/-- content under `xml:space="preserve"` (until overridden) is left untouched -/
theorem c07_preserve_untouched (rc : Str → Bool → Bool → Str) (t : Node)
    (h : plainSubtree t = true) : reduceNode rc .preserve t = t := by
  have key : (∀ t, plainSubtree t = true → reduceNode rc .preserve t = t) ∧
      (∀ l, plainList l = true → reduceList rc .preserve l = l) := by
    apply node_induct
    · intro ns name attrs kids ih h
      simp only [plainSubtree, Bool.and_eq_true, Bool.not_eq_true', List.any_eq_false] at h
      have hd : directive attrs .preserve = .preserve := by
        have : attrs.find? (fun a => a.ns == Gen.xmlNamespace && a.name == "space") = none := by
          rw [List.find?_eq_none]
          intro x hx
          simpa using h.1 x hx
        simp [directive, this]
      rw [reduceNode_tag, hd, finishKids_preserve, ih h.2]
    · intros; simp
    · intros; simp
    · intros; simp
    · intros; simp
    · intro k ks ihk ihks h
      simp only [plainList, Bool.and_eq_true] at h
      cases k with
      | text s =>
        have hs : s ≠ [] := by
          have := h.1
          simp [plainSubtree] at this
          exact this
        rw [reduceList_text, if_neg hs, ihks h.2]
      | tag ns name attrs kids =>
        rw [reduceList_nontext _ _ _ _ (by simp), ihk h.1, ihks h.2]
      | comment s => rw [reduceList_nontext _ _ _ _ (by simp), ihks h.2]; simp
      | pi tg s => rw [reduceList_nontext _ _ _ _ (by simp), ihks h.2]; simp
  exact key.1 t h

/-- `merge_text_nodes` produces a parser-shaped tree -/
theorem c07_merge_merged (t : Node) : merged (mergeNode t) = true := by
  exact merged_merge_all.1 t

/-- non-vacuity / regression examples -/
example : reduceSpec pyWs (.tag "" "e" [] [.text "  a \n b ".toList, .tag "" "x" [] [.text " ".toList],
            .text " ".toList, .comment "c".toList, .text " ".toList])
    = .tag "" "e" [] [.text "a b ".toList, .tag "" "x" [] [.text " ".toList],
            .text " ".toList, .comment "c".toList] := by rfl

end Delb.WS

import DelbModel.Model.Codec
import DelbModel.Lemmas.Codec
import DelbModel.Props.C12
/-!
# C12, byte level — the bytes `Document.write` produces decode to the text that was serialized

Model: `Model/Codec.lean`.  `Document.write(buffer, encoding=…, newline=…)` sends the character stream
of `Props/C12.lean` through `io.TextIOWrapper`, i.e. through `translateNewlines newline` and then
`encode codec`; a reader decodes with the codec the declaration names and normalises ends of lines
(XML 1.0 §2.11).  The theorems say that this gives back the character stream — for every one of the
newline options, for every codec and for every text the codec can represent — and that nothing else
can be encoded (`c12_codec_encodable_iff`: Python raises `UnicodeEncodeError` exactly then).

The one hypothesis is that the character stream holds no carriage return: a literal U+000D does not
survive any XML round trip (`c12_cr_not_preserved`), which is why serializers write it as `&#13;`.
-/
namespace Delb.Codec

/-! ## codecs -/

theorem c12_utf8_roundtrip (s : Str) : decodeUtf8 (encodeUtf8 s) = some s :=
  decodeUtf8_encodeUtf8 s

theorem c12_utf16le_roundtrip (s : Str) : decodeUtf16 false (encodeUtf16 false s) = some s :=
  decodeUtf16_encodeUtf16 false s

theorem c12_utf16be_roundtrip (s : Str) : decodeUtf16 true (encodeUtf16 true s) = some s :=
  decodeUtf16_encodeUtf16 true s

theorem c12_utf16_roundtrip (bigEndian : Bool) (s : Str) :
    decodeUtf16 bigEndian (encodeUtf16 bigEndian s) = some s :=
  decodeUtf16_encodeUtf16 bigEndian s

/-- Python's `utf-16`: byte order mark `FF FE`, little endian; the reader drops the mark -/
theorem c12_utf16_bom_roundtrip (s : Str) : decodeUtf16Bom (encodeUtf16Bom s) = some s :=
  decodeUtf16Bom_encodeUtf16Bom s

/-- the reader of `utf-16` follows the mark: big endian input with `FE FF` is read as well -/
theorem c12_utf16_bom_big_endian (s : Str) :
    decodeUtf16Bom (0xFE :: 0xFF :: encodeUtf16 true s) = some s := by
  simp only [decodeUtf16Bom, and_self, if_true]
  rw [if_neg (by decide)]
  exact decodeUtf16_encodeUtf16 true s

theorem c12_utf16_bom_starts_with_mark (s : Str) :
    ∃ rest, encodeUtf16Bom s = 0xFF :: 0xFE :: rest ∧ rest = encodeUtf16 false s := ⟨_, rfl, rfl⟩

theorem c12_latin1_roundtrip (s : Str) (b : List Nat) (h : encodeLatin1 s = some b) :
    decodeLatin1 b = some s :=
  decodeNarrow_encodeNarrow 0x100 (by decide) s b h

theorem c12_ascii_roundtrip (s : Str) (b : List Nat) (h : encodeAscii s = some b) :
    decodeAscii b = some s :=
  decodeNarrow_encodeNarrow 0x80 (by decide) s b h

theorem c12_codec_roundtrip (c : Codec) (s : Str) (b : List Nat) (h : encode c s = some b) :
    decode c b = some s := by
  cases c <;> simp only [encode, Option.some.injEq] at h <;> (try subst h) <;> simp only [decode]
  · exact c12_utf8_roundtrip s
  · exact c12_utf16_bom_roundtrip s
  · exact c12_utf16le_roundtrip s
  · exact c12_utf16be_roundtrip s
  · exact c12_latin1_roundtrip s b h
  · exact c12_ascii_roundtrip s b h

/-- what is written consists of octets -/
theorem c12_codec_bytes_valid (c : Codec) (s : Str) (b : List Nat) (h : encode c s = some b) :
    ValidBytes b := by
  cases c <;> simp only [encode, Option.some.injEq] at h <;> (try subst h)
  · exact validBytes_flatMap _ utf8EncodeChar_valid s
  · intro x hx
    simp only [encodeUtf16Bom, List.mem_cons] at hx
    rcases hx with rfl | rfl | hx
    · decide
    · decide
    · exact validBytes_flatMap _ (utf16EncodeChar_valid false) s x hx
  · exact validBytes_flatMap _ (utf16EncodeChar_valid false) s
  · exact validBytes_flatMap _ (utf16EncodeChar_valid true) s
  · exact encodeNarrow_valid 0x100 (by decide) s b h
  · exact encodeNarrow_valid 0x80 (by decide) s b h

/-- "every encoding able to represent the content": encoding fails (Python: `UnicodeEncodeError`
    under `errors='strict'`) exactly when some character has no byte form in the codec; the UTF
    codecs represent everything -/
theorem c12_codec_encodable_iff (c : Codec) (s : Str) :
    encode c s = none ↔ ∃ ch ∈ s, ¬ representable c ch := by
  cases c <;> simp only [encode, representable, not_true_eq_false, and_false, exists_false, reduceCtorEq]
  · simp only [encodeLatin1, encodeNarrow_eq_none_iff]
    constructor <;> (rintro ⟨ch, hm, hc⟩; exact ⟨ch, hm, by omega⟩)
  · simp only [encodeAscii, encodeNarrow_eq_none_iff]
    constructor <;> (rintro ⟨ch, hm, hc⟩; exact ⟨ch, hm, by omega⟩)

theorem c12_codec_encodable (c : Codec) (s : Str) (h : ∀ ch ∈ s, representable c ch) :
    ∃ b, encode c s = some b := by
  cases he : encode c s with
  | some b => exact ⟨b, rfl⟩
  | none =>
    obtain ⟨ch, hm, hc⟩ := (c12_codec_encodable_iff c s).mp he
    exact absurd (h ch hm) hc

theorem c12_utf_codecs_total (c : Codec) (hc : c ≠ .latin1 ∧ c ≠ .ascii) (s : Str) :
    ∃ b, encode c s = some b := by
  apply c12_codec_encodable
  intro ch _
  cases c <;> simp only [representable]
  · exact absurd rfl hc.1
  · exact absurd rfl hc.2

/-! ## strictness of the readers -/

/-- the UTF-8 reader accepts nothing but what the writer produces: no overlong forms, no surrogates,
    nothing above U+10FFFF, nothing truncated (each of these would be a second byte form of a text
    or a byte form of no text) -/
theorem c12_utf8_decode_strict (b : List Nat) (s : Str) (h : decodeUtf8 b = some s) : encodeUtf8 s = b :=
  (decodeWith_sound utf8Step utf8EncodeChar utf8Step_sound _ b s h).symm

theorem c12_utf16_decode_strict (bigEndian : Bool) (b : List Nat) (s : Str)
    (h : decodeUtf16 bigEndian b = some s) : encodeUtf16 bigEndian s = b :=
  (decodeWith_sound (utf16Step bigEndian) (utf16EncodeChar bigEndian) (utf16Step_sound bigEndian) _ b s h).symm

/-- for every codec without a byte order mark decoding is the exact inverse of encoding -/
theorem c12_codec_decode_strict (c : Codec) (hc : c ≠ .utf16) (b : List Nat) (s : Str)
    (h : decode c b = some s) : encode c s = some b := by
  cases c <;> simp only [decode] at h <;> simp only [encode]
  · rw [c12_utf8_decode_strict b s h]
  · exact absurd rfl hc
  · rw [c12_utf16_decode_strict false b s h]
  · rw [c12_utf16_decode_strict true b s h]
  · exact encodeNarrow_decodeNarrow 0x100 (by decide) b s h
  · exact encodeNarrow_decodeNarrow 0x80 (by decide) b s h

theorem c12_codec_decode_iff (c : Codec) (hc : c ≠ .utf16) (b : List Nat) (s : Str) :
    decode c b = some s ↔ encode c s = some b :=
  ⟨c12_codec_decode_strict c hc b s, c12_codec_roundtrip c s b⟩

/-- `utf-16` reads three byte forms of a text: with either mark, or little endian without one -/
theorem c12_utf16_bom_decode_forms (b : List Nat) (s : Str) (h : decodeUtf16Bom b = some s) :
    b = 0xFF :: 0xFE :: encodeUtf16 false s ∨ b = 0xFE :: 0xFF :: encodeUtf16 true s
      ∨ b = encodeUtf16 false s := by
  unfold decodeUtf16Bom at h
  split at h
  · rename_i b0 b1 rest
    split at h
    · rename_i hb
      rw [hb.1, hb.2, c12_utf16_decode_strict false rest s h]; exact Or.inl rfl
    · split at h
      · rename_i hb
        rw [hb.1, hb.2, c12_utf16_decode_strict true rest s h]; exact Or.inr (Or.inl rfl)
      · exact Or.inr (Or.inr (c12_utf16_decode_strict false _ s h).symm)
  · exact Or.inr (Or.inr (c12_utf16_decode_strict false _ s h).symm)

/-- the model's UTF-8 writer is the UTF-8 of Lean's own `String` (which the driver's JSON input and
    output go through): an independent definition, same bytes -/
theorem c12_utf8_is_lean_utf8 (s : String) :
    encodeUtf8 s.toList = s.toUTF8.data.toList.map UInt8.toNat := by
  rw [String.toUTF8_eq_toByteArray, ← String.utf8Encode_toList, List.utf8Encode, List.toList_data_toByteArray]
  exact encodeUtf8_eq_core _

/-! ## newlines -/

/-- the five values `io.TextIOWrapper` accepts for `newline` -/
def newlineOptions : List (Option Str) := [none, some [], some ['\n'], some ['\r'], some ['\r', '\n']]

/-- the three values of `os.linesep` -/
def lineseps : List Str := [['\n'], ['\r', '\n'], ['\r']]

theorem c12_newline_roundtrip_with (linesep : Str) (hl : linesep ∈ lineseps) (nl : Option Str) (s : Str)
    (h : '\r' ∉ s) (hnl : nl ∈ newlineOptions) :
    xmlEol (translateNewlinesWith linesep nl s) = s := by
  have key : ∀ w, w ∈ lineseps → xmlEol (replaceLf w s) = s := by
    intro w hw
    simp only [lineseps, List.mem_cons, List.not_mem_nil, or_false] at hw
    rcases hw with rfl | rfl | rfl
    · rw [replaceLf_lf]; exact xmlEolAux_false_of_no_cr s h
    · exact xmlEolAux_replaceLf_crlf s h
    · exact xmlEolAux_replaceLf_cr s false h
  simp only [newlineOptions, List.mem_cons, List.not_mem_nil, or_false] at hnl
  rcases hnl with rfl | rfl | rfl | rfl | rfl
  · exact key linesep hl
  · exact xmlEolAux_false_of_no_cr s h
  · exact key _ (by decide)
  · exact key _ (by decide)
  · exact key _ (by decide)

/-- on Linux -/
theorem c12_newline_roundtrip (nl : Option Str) (s : Str) (h : '\r' ∉ s)
    (hnl : nl ∈ [none, some [], some ['\n'], some ['\r'], some ['\r', '\n']]) :
    xmlEol (translateNewlines nl s) = s :=
  c12_newline_roundtrip_with ['\n'] (by decide) nl s h hnl

/-- without the hypothesis: a carriage return in the character stream comes back as a line feed,
    under every newline option — the reason why a serializer must write U+000D in content as a
    character reference -/
theorem c12_cr_not_preserved (nl : Option Str) (hnl : nl ∈ newlineOptions) :
    xmlEol (translateNewlines nl ['a', '\r', 'b']) = ['a', '\n', 'b'] := by
  simp only [newlineOptions, List.mem_cons, List.not_mem_nil, or_false] at hnl
  rcases hnl with rfl | rfl | rfl | rfl | rfl <;> decide

-- a CR LF pair in the character stream comes back as one line feed when line feeds are not
-- translated, and as two when they are translated to "\r" or "\r\n"
example : xmlEol (translateNewlines none ['a', '\r', '\n', 'b']) = ['a', '\n', 'b'] := by decide
example : xmlEol (translateNewlines (some ['\r']) ['a', '\r', '\n', 'b']) = ['a', '\n', '\n', 'b'] := by decide
example : xmlEol (translateNewlines (some ['\r', '\n']) ['a', '\r', '\n', 'b']) = ['a', '\n', '\n', 'b'] := by
  decide
example : xmlEol (translateNewlines none ['a', '\r', 'b']) ≠ ['a', '\r', 'b'] := by decide
example : xmlEol (translateNewlines (some ['\r', '\n']) "x\ny\n".toList) = "x\ny\n".toList := by decide
example : translateNewlines (some ['\r', '\n']) "x\ny\n".toList = "x\r\ny\r\n".toList := by decide
example : translateNewlines (some ['\r']) "x\ny\n".toList = "x\ry\r".toList := by decide
example : translateNewlines none "x\ny\n".toList = "x\ny\n".toList := by decide
example : translateNewlinesWith "\r\n".toList none "x\ny\n".toList = "x\r\ny\r\n".toList := by decide
example : translateNewlines (some []) "x\ny\n".toList = "x\ny\n".toList := by decide

/-! ## both together -/

/-- the bytes written for the text `s` read back as `s`: for every codec that can represent the
    translated text and every newline option -/
theorem c12_bytes_roundtrip (c : Codec) (nl : Option Str) (s : Str) (b : List Nat)
    (hnl : nl ∈ [none, some [], some ['\n'], some ['\r'], some ['\r', '\n']])
    (h : '\r' ∉ s) (hb : encode c (translateNewlines nl s) = some b) :
    (decode c b).map xmlEol = some s := by
  rw [c12_codec_roundtrip c _ b hb, Option.map_some, c12_newline_roundtrip nl s h hnl]

theorem c12_bytes_roundtrip_with (linesep : Str) (hl : linesep ∈ lineseps) (c : Codec) (nl : Option Str)
    (s : Str) (b : List Nat) (hnl : nl ∈ newlineOptions) (h : '\r' ∉ s)
    (hb : encode c (translateNewlinesWith linesep nl s) = some b) :
    (decode c b).map xmlEol = some s := by
  rw [c12_codec_roundtrip c _ b hb, Option.map_some, c12_newline_roundtrip_with linesep hl nl s h hnl]

/-- in the vocabulary of the model: `readBytes` undoes `writeBytes` -/
theorem c12_write_read (c : Codec) (nl : Option Str) (s : Str) (b : List Nat)
    (hnl : nl ∈ newlineOptions) (h : '\r' ∉ s) (hb : writeBytes c nl s = some b) :
    readBytes c b = some s :=
  c12_bytes_roundtrip c nl s b hnl h hb

/-- the newline translation never makes a text unencodable: the characters it adds are ASCII -/
theorem c12_translation_keeps_encodable (c : Codec) (nl : Option Str) (s : Str)
    (hnl : nl ∈ newlineOptions) (h : ∀ ch ∈ s, representable c ch) :
    ∃ b, writeBytes c nl s = some b := by
  apply c12_codec_encodable
  have hrep : ∀ w : Str, (∀ ch ∈ w, ch = '\r' ∨ ch = '\n') → ∀ ch ∈ replaceLf w s, representable c ch := by
    intro w hw ch hch
    obtain ⟨d, hd, hch⟩ := List.mem_flatMap.mp hch
    split at hch
    · rcases hw ch hch with rfl | rfl <;> cases c <;> simp only [representable] <;> decide
    · rw [List.mem_singleton.mp hch]; exact h d hd
  simp only [newlineOptions, List.mem_cons, List.not_mem_nil, or_false] at hnl
  rcases hnl with rfl | rfl | rfl | rfl | rfl
  · exact hrep _ (by simp)
  · exact h
  · exact hrep _ (by simp)
  · exact hrep _ (by simp)
  · exact hrep _ (by simp)

/-! ## the declaration can be read before the encoding is known -/

/-- for the ASCII compatible codecs an ASCII-only prefix (the XML declaration is one) is written as
    its code points, byte for byte, whatever follows -/
theorem c12_ascii_prefix_transparent (c : Codec) (hc : c = .utf8 ∨ c = .latin1 ∨ c = .ascii)
    (p s : Str) (hp : ∀ ch ∈ p, ch.toNat < 0x80) (b : List Nat) (h : encode c (p ++ s) = some b) :
    ∃ b', encode c s = some b' ∧ b = p.map Char.toNat ++ b' := by
  rcases hc with rfl | rfl | rfl
  · simp only [encode, Option.some.injEq] at h ⊢
    exact ⟨_, rfl, by rw [← h, encodeUtf8, List.flatMap_append, flatMap_utf8EncodeChar_ascii p hp]; rfl⟩
  · simp only [encode, encodeLatin1] at h ⊢
    rw [encodeNarrow_ascii_append 0x100 (by decide) s p hp] at h
    cases he : encodeNarrow 0x100 s with
    | none => rw [he] at h; exact absurd h (by simp)
    | some b' => rw [he] at h; exact ⟨b', rfl, by simpa using h.symm⟩
  · simp only [encode, encodeAscii] at h ⊢
    rw [encodeNarrow_ascii_append 0x80 (by decide) s p hp] at h
    cases he : encodeNarrow 0x80 s with
    | none => rw [he] at h; exact absurd h (by simp)
    | some b' => rw [he] at h; exact ⟨b', rfl, by simpa using h.symm⟩

/-- … and not for UTF-16, where a reader needs the byte order mark (or the `<\0` pattern) first -/
example : encode .utf16le "<?".toList = some [0x3C, 0, 0x3F, 0] := by decide
example : encode .utf16 "<?".toList = some [0xFF, 0xFE, 0x3C, 0, 0x3F, 0] := by decide

/-! ## concrete strings: 1, 2, 3 and 4 byte forms, a surrogate pair -/

-- "aé€😀" = U+0061 U+00E9 U+20AC U+1F600
example : encodeUtf8 "aé€😀".toList
    = [0x61, 0xC3, 0xA9, 0xE2, 0x82, 0xAC, 0xF0, 0x9F, 0x98, 0x80] := by decide
example : decodeUtf8 [0x61, 0xC3, 0xA9, 0xE2, 0x82, 0xAC, 0xF0, 0x9F, 0x98, 0x80]
    = some "aé€😀".toList := by decide
example : encodeUtf16 false "aé€😀".toList
    = [0x61, 0, 0xE9, 0, 0xAC, 0x20, 0x3D, 0xD8, 0x00, 0xDE] := by decide
example : encodeUtf16 true "aé€😀".toList
    = [0, 0x61, 0, 0xE9, 0x20, 0xAC, 0xD8, 0x3D, 0xDE, 0x00] := by decide
example : encodeUtf16Bom "a😀".toList = [0xFF, 0xFE, 0x61, 0, 0x3D, 0xD8, 0x00, 0xDE] := by decide
example : decodeUtf16Bom [0xFF, 0xFE, 0x61, 0, 0x3D, 0xD8, 0x00, 0xDE] = some "a😀".toList := by decide
example : decodeUtf16Bom [0xFE, 0xFF, 0, 0x61, 0xD8, 0x3D, 0xDE, 0x00] = some "a😀".toList := by decide
example : decodeUtf16 false [0x61, 0, 0x3D, 0xD8, 0x00, 0xDE] = some "a😀".toList := by decide
example : encodeLatin1 "aé".toList = some [0x61, 0xE9] := by decide
example : encodeLatin1 "aé€".toList = none := by decide
example : encodeAscii "aé".toList = none := by decide
example : decodeAscii [0x61, 0xE9] = none := by decide
example : decodeLatin1 [0x61, 0xE9] = some "aé".toList := by decide
-- the highest and lowest members of each UTF-8 length class, and the neighbours of the surrogates
example : decodeUtf8 (encodeUtf8 [Char.ofNat 0, Char.ofNat 0x7F, Char.ofNat 0x80, Char.ofNat 0x7FF,
    Char.ofNat 0x800, Char.ofNat 0xD7FF, Char.ofNat 0xE000, Char.ofNat 0xFFFF, Char.ofNat 0x10000,
    Char.ofNat 0x10FFFF]) = some [Char.ofNat 0, Char.ofNat 0x7F, Char.ofNat 0x80, Char.ofNat 0x7FF,
    Char.ofNat 0x800, Char.ofNat 0xD7FF, Char.ofNat 0xE000, Char.ofNat 0xFFFF, Char.ofNat 0x10000,
    Char.ofNat 0x10FFFF] := by decide
-- strictness: overlong forms, surrogates, values above U+10FFFF, truncated and stray bytes
example : decodeUtf8 [0xC0, 0x80] = none := by decide            -- overlong U+0000
example : decodeUtf8 [0xC1, 0xBF] = none := by decide            -- overlong U+007F
example : decodeUtf8 [0xE0, 0x9F, 0xBF] = none := by decide      -- overlong U+07FF
example : decodeUtf8 [0xF0, 0x8F, 0xBF, 0xBF] = none := by decide -- overlong U+FFFF
example : decodeUtf8 [0xED, 0xA0, 0x80] = none := by decide      -- U+D800
example : decodeUtf8 [0xED, 0xBF, 0xBF] = none := by decide      -- U+DFFF
example : decodeUtf8 [0xF4, 0x90, 0x80, 0x80] = none := by decide -- U+110000
example : decodeUtf8 [0xF5, 0x80, 0x80, 0x80] = none := by decide
example : decodeUtf8 [0xE2, 0x82] = none := by decide            -- truncated
example : decodeUtf8 [0x80] = none := by decide                  -- stray continuation byte
example : decodeUtf8 [0xC3, 0x41] = none := by decide            -- lead byte without continuation
example : decodeUtf8 [0x61, 256] = none := by decide             -- not an octet
example : decodeUtf16 false [0x00, 0xDC, 0x61, 0x00] = none := by decide -- lone low surrogate
example : decodeUtf16 false [0x3D, 0xD8, 0x61, 0x00] = none := by decide -- high surrogate, no low
example : decodeUtf16 false [0x3D, 0xD8] = none := by decide     -- truncated pair
example : decodeUtf16 false [0x61] = none := by decide           -- odd length
-- the whole way, as `Document.write(buffer, encoding="utf-16", newline="\r\n")` goes
example : writeBytes .utf16 (some ['\r', '\n']) "é\n".toList = some [0xFF, 0xFE, 0xE9, 0, 0x0D, 0, 0x0A, 0] := by
  decide
example : readBytes .utf16 [0xFF, 0xFE, 0xE9, 0, 0x0D, 0, 0x0A, 0] = some "é\n".toList := by decide

/-! ## the character level (`Props/C12.lean`) and the byte level together -/

section Document
open Delb.Doc

/-- the bytes `Document.write` produces for a whole document decode to the serialized text, and that
    text reads back as the same label, prologue, root string and epilogue -/
theorem c12_document_bytes_roundtrip (formatted : Bool) (encoding : String) (d : Document) (rootStr : Str)
    (hw : WellFormed d) (c : Codec) (nl : Option Str) (hnl : nl ∈ newlineOptions) (b : List Nat)
    (hcr : '\r' ∉ renderDoc (docPieces formatted encoding d rootStr))
    (hb : writeBytes c nl (renderDoc (docPieces formatted encoding d rootStr)) = some b) :
    readBytes c b = some (renderDoc (docPieces formatted encoding d rootStr)) ∧
    readDoc (docPieces formatted encoding d rootStr)
      = some (upper encoding, d.prologue, rootStr, d.epilogue) :=
  ⟨c12_write_read c nl _ b hnl hcr hb, c12_read_back formatted encoding d rootStr hw⟩

theorem replaceLf_of_no_lf (w : Str) : ∀ (p : Str), '\n' ∉ p → replaceLf w p = p
  | [], _ => rfl
  | ch :: p, h => by
    have hc : ch ≠ '\n' := fun e => h (e ▸ List.mem_cons_self ..)
    rw [replaceLf_cons, if_neg hc, replaceLf_of_no_lf w p (fun hm => h (List.mem_cons_of_mem _ hm))]
    rfl

/-- the newline translation leaves a prefix without line feed alone -/
theorem translateNewlines_prefix (nl : Option Str) (p s : Str) (hp : '\n' ∉ p) :
    translateNewlines nl (p ++ s) = p ++ translateNewlines nl s := by
  have key : ∀ w : Str, replaceLf w (p ++ s) = p ++ replaceLf w s := by
    intro w
    have := replaceLf_of_no_lf w p hp
    simp only [replaceLf, List.flatMap_append] at this ⊢
    rw [this]
  rcases nl with _ | _ | ⟨x, w⟩
  · exact key _
  · rfl
  · exact key _

theorem upperAscii_ascii (ch : Char) (h : ch.toNat < 0x80) : (upperAscii ch).toNat < 0x80 := by
  unfold upperAscii
  split
  · rw [toNat_ofNat_valid _ (by omega)]; omega
  · exact h

theorem upperAscii_ne_lf (ch : Char) (h : ch ≠ '\n') : upperAscii ch ≠ '\n' := by
  unfold upperAscii
  split
  · rename_i hr
    have h1 : 'a'.toNat ≤ ch.toNat := hr.1
    have h2 : ch.toNat ≤ 'z'.toNat := hr.2
    have ha : 'a'.toNat = 97 := rfl
    have hz : 'z'.toNat = 122 := rfl
    intro e
    have := congrArg Char.toNat e
    rw [toNat_ofNat_valid _ (by omega)] at this
    have hn : '\n'.toNat = 10 := rfl
    omega
  · exact h

/-- the declaration as `__serialize` writes it for the label `encoding` -/
def declaration (encoding : String) : Str :=
  ("<?xml version=\"1.0\" encoding=\"" ++ upper encoding ++ "\"?>").toList

/-- for the ASCII compatible codecs and an ASCII label the file starts with the code points of the
    XML declaration, byte for byte, under every newline option: a reader can find the label before
    it knows the encoding -/
theorem c12_document_bytes_start_with_declaration (formatted : Bool) (encoding : String) (d : Document)
    (rootStr : Str) (c : Codec) (hc : c = .utf8 ∨ c = .latin1 ∨ c = .ascii) (nl : Option Str)
    (hascii : ∀ ch ∈ encoding.toList, ch.toNat < 0x80) (hlf : '\n' ∉ encoding.toList) (b : List Nat)
    (hb : writeBytes c nl (renderDoc (docPieces formatted encoding d rootStr)) = some b) :
    ∃ rest, b = (declaration encoding).map Char.toNat ++ rest := by
  obtain ⟨_, rest, hr⟩ := c12_declaration_first formatted encoding d rootStr
  have hdecl : declaration encoding
      = "<?xml version=\"1.0\" encoding=\"".toList ++ (encoding.toList.map upperAscii ++ "\"?>".toList) := by
    simp only [declaration, upper, String.toList_append, String.toList_ofList, List.append_assoc]
  have hp : ∀ ch ∈ declaration encoding, ch.toNat < 0x80 := by
    intro ch hch
    rw [hdecl] at hch
    simp only [List.mem_append, List.mem_map] at hch
    rcases hch with h | ⟨x, hx, rfl⟩ | h
    · revert ch; decide
    · exact upperAscii_ascii x (hascii x hx)
    · revert ch; decide
  have hn : '\n' ∉ declaration encoding := by
    intro hch
    rw [hdecl] at hch
    simp only [List.mem_append, List.mem_map] at hch
    rcases hch with h | ⟨x, hx, hxe⟩ | h
    · revert h; decide
    · exact upperAscii_ne_lf x (fun e => hlf (e ▸ hx)) hxe
    · revert h; decide
  rw [hr] at hb
  change writeBytes c nl (declaration encoding ++ rest) = some b at hb
  rw [writeBytes, translateNewlines_prefix nl _ _ hn] at hb
  obtain ⟨b', _, hb'⟩ := c12_ascii_prefix_transparent c hc _ _ hp b hb
  exact ⟨b', hb'⟩

/-- a small document: one comment in the prologue, root `<r/>` -/
def exampleDoc : Document := { prologue := [.comment ['c']], root := .tag "" "r" [] [], epilogue := [] }

def exampleText : Str := renderDoc (docPieces true "utf-8" exampleDoc "<r/>".toList)

-- written with the formatting serializer as utf-8 with `newline="\r\n"`: the separators arrive as
-- CR LF and are read back as line feeds; the pieces read back as the document
example : exampleText = "<?xml version=\"1.0\" encoding=\"UTF-8\"?>\n<!--c-->\n<r/>".toList := by decide
example : writeBytes .utf8 (some ['\r', '\n']) exampleText
    = some ("<?xml version=\"1.0\" encoding=\"UTF-8\"?>\r\n<!--c-->\r\n<r/>".toList.map Char.toNat) := by
  decide
example : (writeBytes .utf8 (some ['\r', '\n']) exampleText).bind (readBytes .utf8) = some exampleText := by
  decide
example : readDoc (docPieces true "utf-8" exampleDoc "<r/>".toList)
    = some ("UTF-8", exampleDoc.prologue, "<r/>".toList, exampleDoc.epilogue) := by
  rfl

end Document

end Delb.Codec

import DelbModel.Model.Wrapping
import DelbModel.Lemmas.WrapTransparent
import DelbModel.Lemmas.WrapFuel
import DelbModel.Props.C03
/-!
# C03, line widths ≥ 1 — the text-wrapping serializer is whitespace-transparent

Model: `Model/Wrapping.lean` (`TextWrappingSerializer`, byte-identical to the implementation on every
explored case).  Same statement as `c03_pretty_transparent` for `wrapRoot`.

## Findings

1. (repaired in the implementation and in the model) `_serialize_text`, `_serialize_text_over_lines` and
   `_consolidate_text_lines` tested `self._line_offset == 0` for "at the beginning of a line"; but
   `writer.offset == level * len(indentation)` also happens in the middle of a line after markup that
   contains a newline.  Counterexample (before the repair): tree `<r><!--a\n-->foo</r>`, indentation `"   "`
   (3 spaces), width 80: output `<r>\n   <!--a\n-->   foo\n</r>`, read back and reduced: text `" foo"` ≠ `"foo"`.
   Likewise `<r><x xml:space="preserve">abc\n</x>foo</r>` with indentation of 4 spaces.  The four tests now
   read `self.writer.offset == 0`.

2. (OPEN in the implementation) The statement is FALSE for indentation strings that contain a newline.
   Counterexample on the repaired model: tree `<r>abcde fghij <b/></r>` (text `"abcde fghij "`, then the empty
   element `b`), indentation `"   \n"` (3 spaces and a newline), width 5, attribute alignment off:
   output `<r>\n   \nabcde\n   \nfghij<b/>\n</r>`; read back and reduced the text is `"abcde fghij"`: its trailing
   space is lost.  `_wrap_text` swallows the trailing space of a text whose last line is full and relies on
   `_available_space == 0` to force a line break before the next node; with a newline inside the indentation
   `writer.offset` (characters since the last newline) minus `level * len(indentation)` under-counts the line.
   Hence the hypothesis `'\n' ∉ o.indent` of `c03_wrapped_transparent_partial`.

```
-- FALSE as stated (finding 2):
theorem c03_wrapped_transparent (o : Opts) (ho : IndentOk o) (width : Nat) (hw : 1 ≤ width)
    (nsmap m : Dict) (hn : NsMapOk nsmap) (t : Node)
    (htag : t.isTag = true) (hs : Serializable t) (hm : PMapOk nsmap m t) (hr : Reduced t)
    (ps : List Piece) (h : wrapRoot o width m t = .ok ps) :
    ∃ u, build (eraseAll ps) = some u ∧ reduceSpec pyWs u = normalize t
```
-/
namespace Delb.Wrapping
open Delb.Ser Delb.WS Delb.Pretty

set_option linter.unusedVariables false in
/-- **whitespace transparency, width ≥ 1**, for every indentation string without a newline: for every reduced
    tree, every such whitespace indentation, every width ≥ 1, attribute alignment on or off, and every prefix
    map with the C13 guarantees, reading the wrapped output back and reducing its whitespace gives the
    original tree.  (No assumption on the content of comments, processing instructions, attribute values or
    preserved text.) -/
theorem c03_wrapped_transparent_partial (o : Opts) (ho : IndentOk o) (hnl : '\n' ∉ o.indent)
    (width : Nat) (hw : 1 ≤ width)
    (nsmap m : Dict) (hn : NsMapOk nsmap) (t : Node)
    (htag : t.isTag = true) (hs : Serializable t) (hm : PMapOk nsmap m t) (hr : Reduced t)
    (ps : List Piece) (h : wrapRoot o width m t = .ok ps) :
    ∃ u, build (eraseAll ps) = some u ∧ reduceSpec pyWs u = normalize t :=
  wrapped_transparent o ho hnl width hw nsmap m t htag hs hm hr ps h

/-- the hypothesis of `c03_wrapped_transparent_partial` is decidable -/
instance (o : Opts) : Decidable ('\n' ∉ o.indent) := inferInstance

/-- indentation and line breaks consist of whitespace only -/
theorem c03_wrapped_layout_is_whitespace (o : Opts) (ho : IndentOk o) (width : Nat) (m : Dict) (t : Node)
    (ps : List Piece) (h : wrapRoot o width m t = .ok ps) :
    ∀ s, Piece.layout s ∈ ps → ∀ c ∈ s, pyWs c = true :=
  wrapRoot_layout o ho width m t ps h

/-- no non-whitespace character is altered (as for width 0) -/
theorem c03_wrapped_nonws_unaltered (o : Opts) (ho : IndentOk o) (hnl : '\n' ∉ o.indent)
    (width : Nat) (hw : 1 ≤ width)
    (nsmap m : Dict) (hn : NsMapOk nsmap) (t : Node)
    (htag : t.isTag = true) (hs : Serializable t) (hm : PMapOk nsmap m t) (hr : Reduced t)
    (ps : List Piece) (h : wrapRoot o width m t = .ok ps) :
    ∃ u, build (eraseAll ps) = some u ∧ nonWs pyWs (fullText u) = nonWs pyWs (fullText t) := by
  obtain ⟨u, hu, hred⟩ := c03_wrapped_transparent_partial o ho hnl width hw nsmap m hn t htag hs hm hr ps h
  refine ⟨u, hu, ?_⟩
  rw [← c07_nonws_preserved pyWs pyWs_space u, hred, fullText_normalize.1]

/-! non-vacuity: the serializer succeeds on a reduced mixed-content tree, with wrapping -/
example : ∃ ps, wrapRoot ⟨"  ".toList, false⟩ 12 [("", "")]
    (.tag "" "p" [] [.text "Hold ".toList, .tag "" "hi" [] [.text "the".toList], .text " thieves, now!".toList]) = .ok ps :=
  ⟨_, rfl⟩

/-! ## totality

The model recurses on an explicit budget (`fuelFor root = 8 * size root + 32`, also used for every
`_required_space` look-ahead) and reports `Err.invalidCodePath "fuel"` when it is exhausted; the theorems
above assume a run that ended in `.ok`.  The following theorems say that such a run always exists.
-/

/-- **the recursion budget suffices**: for every tree, all format options, every width and every prefix map
    the run of the text-wrapping serializer does not end with an exhausted budget. -/
theorem c03_wrapped_fuel_suffices (o : Opts) (width : Nat) (m : Dict) (root : Node) :
    wrapRoot o width m root ≠ .error (.invalidCodePath "fuel") :=
  wrapRoot_noFuel o width m root

/-- which budgets suffice: `_required_space` needs `3 * size root + 1` (it walks along `_fetch_following`, at
    most once over every node that follows in document order, with up to three nested calls per node), the
    serializer proper `6 * size root - 2` (five nested calls per level, one per preceding sibling, one for the
    second attempt after a line break) — both below `fuelFor root`. -/
theorem c03_wrapped_budget (e : Env) (hreq : 3 * size e.root + 1 ≤ e.fuel) (fuel : Nat)
    (hfuel : 6 * size e.root ≤ fuel + 2) (ad : List (Str × Str)) (st : St) :
    serializeTag e fuel [] ad st ≠ .error (.invalidCodePath "fuel") :=
  (noFuel_iff _).1 ((machine_noFuel e (reqOk_of_le e hreq) fuel).2.2.1 [] e.root ad st rfl hfuel)

/-- `_required_space` alone, for any node and any limit -/
theorem c03_wrapped_required_space_budget (e : Env) (fuel : Nat) (hfuel : 3 * size e.root + 1 ≤ fuel)
    (p : Path) (upTo : Int) : requiredSpace e fuel p upTo ≠ .error (.invalidCodePath "fuel") :=
  (noFuel_iff _).1 ((requiredSpace_noFuel e fuel).1 p upTo (by have := rest_le e.root p; omega))

/-- **totality**: for every tag node, all format options, every width and every prefix map that has a prefix
    for each namespace of the tree, the text-wrapping serializer yields an output (no assertion fails, no
    `IndexError`, `StopIteration` or `KeyError` is raised, the budget is not exhausted).  No assumption on
    the content of the tree: it need not be whitespace-reduced, text nodes may be empty or adjacent. -/
theorem c03_wrapped_total_of_prefixes (o : Opts) (width : Nat) (m : Dict) (t : Node) (htag : t.isTag = true)
    (hm : ∀ ns ∈ treeNamespaces t, (dget m ns).isSome) : ∃ out, wrapRoot o width m t = .ok out :=
  wrapRoot_total o width m t htag hm

set_option linter.unusedVariables false in
/-- totality under the hypotheses of `c03_wrapped_transparent_partial` (of `PMapOk` only `total` is used) -/
theorem c03_wrapped_total (o : Opts) (width : Nat) (nsmap m : Dict) (t : Node) (htag : t.isTag = true)
    (hm : PMapOk nsmap m t) : ∃ out, wrapRoot o width m t = .ok out :=
  wrapRoot_total o width m t htag hm.total

/-- the whole call `serialize(format_options=FormatOptions(width ≥ 1, …))`, collecting the prefixes included,
    does not exhaust the budget … -/
theorem c03_serialize_wrapped_fuel_suffices (o : Opts) (width : Nat) (hw : 1 ≤ width) (nsmap : Dict)
    (root : Node) (orders : List (List String)) :
    serializeWrapped o width nsmap root orders ≠ .error (.invalidCodePath "fuel") :=
  serializeWrapped_noFuel o width hw nsmap root orders

/-- … and yields an output once the prefixes are collected (C13: that map covers the tree) -/
theorem c03_serialize_wrapped_total (o : Opts) (width : Nat) (hw : 1 ≤ width) (nsmap : Dict)
    (hn : NsMapOk nsmap) (root : Node) (htag : root.isTag = true)
    (orders : List (List String)) (ho : ordersValid root orders = true) (m : Dict)
    (h : collect nsmap root orders = .ok m) :
    ∃ out, serializeWrapped o width nsmap root orders = .ok out := by
  have hm := c13_collect_ok nsmap hn root orders ho m h
  obtain ⟨out, hout⟩ := c03_wrapped_total o width nsmap m root htag hm
  refine ⟨out, ?_⟩
  have h0 : (width == 0) = false := by simp; omega
  simp [serializeWrapped, h, h0, hout]

/-- transparency without the assumption of a successful run -/
theorem c03_wrapped_transparent_total (o : Opts) (ho : IndentOk o) (hnl : '\n' ∉ o.indent)
    (width : Nat) (hw : 1 ≤ width)
    (nsmap m : Dict) (hn : NsMapOk nsmap) (t : Node)
    (htag : t.isTag = true) (hs : Serializable t) (hm : PMapOk nsmap m t) (hr : Reduced t) :
    ∃ ps u, wrapRoot o width m t = .ok ps ∧ build (eraseAll ps) = some u ∧ reduceSpec pyWs u = normalize t := by
  obtain ⟨ps, hps⟩ := c03_wrapped_total o width nsmap m t htag hm
  obtain ⟨u, hu⟩ := c03_wrapped_transparent_partial o ho hnl width hw nsmap m hn t htag hs hm hr ps hps
  exact ⟨ps, u, hps, hu⟩

/-! non-vacuity: the model evaluated on a small tree yields an output, the text wrapped over two lines (`<p>\n ab\n cd\n</p>`),
    and the hypothesis of the totality theorem holds for the tree of the example above -/
example : wrapRoot ⟨" ".toList, false⟩ 3 [("", "")] (.tag "" "p" [] [.text "ab cd".toList]) =
    .ok [.stag "p".toList [] [] false, nl, .layout " ".toList, .text "ab".toList, nl,
         .layout " ".toList, .text "cd".toList, nl, .etag "p".toList] := by rfl

example : ∃ ps, wrapRoot ⟨"  ".toList, false⟩ 12 [("", "")]
    (.tag "" "p" [] [.text "Hold ".toList, .tag "" "hi" [] [.text "the".toList], .text " thieves, now!".toList]) = .ok ps :=
  c03_wrapped_total_of_prefixes _ _ _ _ rfl (by decide)

/-! ## totality of the whole call

`c03_serialize_wrapped_total` assumes that prefix collection returned a map; under the size bound of
`c13_collect_total` (distinct namespaces of the tree plus entries of the caller's mapping at most
`65536 + 2`) it always does. -/

/-- **`serialize(format_options=…)` yields an output**, for every width (`0`: the pretty serializer),
    every tag node, all format options, every accepted caller mapping and every iteration order of the
    namespace sets -/
theorem c03_serialize_wrapped_total' (o : Opts) (width : Nat) (nsmap : Dict)
    (hn : NsMapOk nsmap) (root : Node) (htag : root.isTag = true)
    (orders : List (List String)) (ho : ordersValid root orders = true)
    (hsmall : (Ser.dedup (treeNamespaces root)).length + nsmap.length ≤ 65538) :
    ∃ out, serializeWrapped o width nsmap root orders = .ok out := by
  obtain ⟨m, hm, hok⟩ := c13_collect_total_ok nsmap hn root orders ho hsmall
  by_cases h0 : width = 0
  · subst h0
    obtain ⟨out, hout⟩ := prettyRoot_total o m root htag hok.total
    exact ⟨out, by simp [serializeWrapped, hm, hout]⟩
  · exact c03_serialize_wrapped_total o width (by omega) nsmap hn root htag orders ho m hm

/-! non-vacuity: two namespaces, the text wrapped -/
example : ∃ out, serializeWrapped ⟨"  ".toList, false⟩ 12
    [("xml", Gen.xmlNamespace), ("xmlns", Gen.xmlnsNamespace)]
    (.tag "urn:a" "p" [] [.text "Hold ".toList, .tag "urn:b" "hi" [] [.text "the".toList], .text " thieves, now!".toList])
    [["urn:a"], ["urn:b"]] = .ok out :=
  c03_serialize_wrapped_total' _ _ _ ⟨by decide, by decide, by decide, by decide⟩ _ rfl _ (by decide) (by decide)

end Delb.Wrapping

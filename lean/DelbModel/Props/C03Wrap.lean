import DelbModel.Model.Wrapping
import DelbModel.Lemmas.WrapTransparent
import DelbModel.Props.C03
/-!
# C03, line widths ≥ 1 — the text-wrapping serializer is whitespace-transparent

Model: `Model/Wrapping.lean` (`TextWrappingSerializer`, byte-identical to the implementation on every
explored case).  Same statement as `c03_pretty_transparent` for `wrapRoot`.

## Findings

1. (repaired in the implementation and in the model) `_serialize_text`, `_serialize_text_over_lines` and
   `_consolidate_text_lines` tested `self._line_offset == 0` for "at the beginning of a line"; but
   `writer.offset == level * len(indentation)` also happens in the middle of a line after markup that
   contains a newline.  Counterexample (before the repair): tree `<r><!--a\n-->foo</r>`, indentation `"   "`
   (3 spaces), width 80: output `<r>\n   <!--a\n-->   foo\n</r>`, read back and reduced: text `" foo"` ≠ `"foo"`.
   Likewise `<r><x xml:space="preserve">abc\n</x>foo</r>` with indentation of 4 spaces.  The four tests now
   read `self.writer.offset == 0`.

2. (OPEN in the implementation) The statement is FALSE for indentation strings that contain a newline.
   Counterexample on the repaired model: tree `<r>abcde fghij <b/></r>` (text `"abcde fghij "`, then the empty
   element `b`), indentation `"   \n"` (3 spaces and a newline), width 5, attribute alignment off:
   output `<r>\n   \nabcde\n   \nfghij<b/>\n</r>`; read back and reduced the text is `"abcde fghij"`: its trailing
   space is lost.  `_wrap_text` swallows the trailing space of a text whose last line is full and relies on
   `_available_space == 0` to force a line break before the next node; with a newline inside the indentation
   `writer.offset` (characters since the last newline) minus `level * len(indentation)` under-counts the line.
   Hence the hypothesis `'\n' ∉ o.indent` of `c03_wrapped_transparent_partial`.

```
-- FALSE as stated (finding 2):
theorem c03_wrapped_transparent (o : Opts) (ho : IndentOk o) (width : Nat) (hw : 1 ≤ width)
    (nsmap m : Dict) (hn : NsMapOk nsmap) (t : Node)
    (htag : t.isTag = true) (hs : Serializable t) (hm : PMapOk nsmap m t) (hr : Reduced t)
    (ps : List Piece) (h : wrapRoot o width m t = .ok ps) :
    ∃ u, build (eraseAll ps) = some u ∧ reduceSpec pyWs u = normalize t
```
-/
namespace Delb.Wrapping
open Delb.Ser Delb.WS Delb.Pretty

set_option linter.unusedVariables false in
/-- **whitespace transparency, width ≥ 1**, for every indentation string without a newline: for every reduced
    tree, every such whitespace indentation, every width ≥ 1, attribute alignment on or off, and every prefix
    map with the C13 guarantees, reading the wrapped output back and reducing its whitespace gives the
    original tree.  (No assumption on the content of comments, processing instructions, attribute values or
    preserved text.) -/
theorem c03_wrapped_transparent_partial (o : Opts) (ho : IndentOk o) (hnl : '\n' ∉ o.indent)
    (width : Nat) (hw : 1 ≤ width)
    (nsmap m : Dict) (hn : NsMapOk nsmap) (t : Node)
    (htag : t.isTag = true) (hs : Serializable t) (hm : PMapOk nsmap m t) (hr : Reduced t)
    (ps : List Piece) (h : wrapRoot o width m t = .ok ps) :
    ∃ u, build (eraseAll ps) = some u ∧ reduceSpec pyWs u = normalize t :=
  wrapped_transparent o ho hnl width hw nsmap m t htag hs hm hr ps h

/-- the hypothesis of `c03_wrapped_transparent_partial` is decidable -/
instance (o : Opts) : Decidable ('\n' ∉ o.indent) := inferInstance

/-- indentation and line breaks consist of whitespace only -/
theorem c03_wrapped_layout_is_whitespace (o : Opts) (ho : IndentOk o) (width : Nat) (m : Dict) (t : Node)
    (ps : List Piece) (h : wrapRoot o width m t = .ok ps) :
    ∀ s, Piece.layout s ∈ ps → ∀ c ∈ s, pyWs c = true :=
  wrapRoot_layout o ho width m t ps h

/-- no non-whitespace character is altered (as for width 0) -/
theorem c03_wrapped_nonws_unaltered (o : Opts) (ho : IndentOk o) (hnl : '\n' ∉ o.indent)
    (width : Nat) (hw : 1 ≤ width)
    (nsmap m : Dict) (hn : NsMapOk nsmap) (t : Node)
    (htag : t.isTag = true) (hs : Serializable t) (hm : PMapOk nsmap m t) (hr : Reduced t)
    (ps : List Piece) (h : wrapRoot o width m t = .ok ps) :
    ∃ u, build (eraseAll ps) = some u ∧ nonWs pyWs (fullText u) = nonWs pyWs (fullText t) := by
  obtain ⟨u, hu, hred⟩ := c03_wrapped_transparent_partial o ho hnl width hw nsmap m hn t htag hs hm hr ps h
  refine ⟨u, hu, ?_⟩
  rw [← c07_nonws_preserved pyWs pyWs_space u, hred, fullText_normalize.1]

/-! non-vacuity: the serializer succeeds on a reduced mixed-content tree, with wrapping -/
example : ∃ ps, wrapRoot ⟨"  ".toList, false⟩ 12 [("", "")]
    (.tag "" "p" [] [.text "Hold ".toList, .tag "" "hi" [] [.text "the".toList], .text " thieves, now!".toList]) = .ok ps :=
  ⟨_, rfl⟩

end Delb.Wrapping

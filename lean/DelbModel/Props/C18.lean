import DelbModel.Model.Pretty
import DelbModel.Lemmas.Pretty
/-!
# C18 — Indented output puts each structural child on its own line at its depth

Property theorems only; helper lemmas are in `DelbModel/Lemmas/Pretty.lean`.
-/
namespace Delb.Pretty
open Delb.Ser

/-- for every data-style tree, every non-empty indentation string and both alignment settings
    the PrettySerializer writes exactly what the straightforward recursive pretty printer writes:
    start tag, each child, end tag on separate lines, every line prefixed by the indentation
    repeated once per nesting depth, empty elements self-closed, aligned attributes one per line -/
theorem c18_pretty_eq_reference (o : Opts) (m : Dict) (t : Node) (hi : o.indent ≠ [])
    (hd : dataStyle t = true) (ht : t.isTag = true)
    (hm : ∀ ns ∈ treeNamespaces t, (dget m ns).isSome)
    (ps : List Piece) (h : prettyRoot o m t = .ok ps) :
    renderP ps = ppRefRoot o m t := by
  cases t with
  | tag ns name attrs kids =>
    simp only [prettyRoot] at h
    split at h
    · cases h
    · rename_i ad had
      have := (pretty_eq_ref o hi m).1 _ hd 0 _ ps h
      simp only [ppRefRoot, had, Except.toOption, Option.getD_some]
      rw [← this, indentN_zero, List.nil_append]
  | _ => simp [Node.isTag] at ht

/-- with a total prefix map the serializer does produce output for a data-style tree -/
theorem c18_pretty_total (o : Opts) (m : Dict) (t : Node) (hd : dataStyle t = true) (ht : t.isTag = true)
    (hm : ∀ ns ∈ treeNamespaces t, (dget m ns).isSome) :
    ∃ ps, prettyRoot o m t = .ok ps := by
  cases t with
  | tag ns name attrs kids =>
    obtain ⟨ad, had⟩ := attrsData_total (m := m) (l := sortAttrs attrs) (fun a ha =>
      hm a.ns (by
        simp only [treeNamespaces, List.cons_append, List.mem_cons, List.mem_append, List.mem_map]
        exact Or.inr (Or.inl ⟨a, mem_sortAttrs ha, rfl⟩)))
    simp only [prettyRoot, had]
    exact (pretty_total o m).1 _ hd hm ht 0 _
  | _ => simp [Node.isTag] at ht

/-- every line of the reference output of a child at nesting depth `level` starts with the
    indentation string repeated `level` times -/
theorem c18_lines_indented (o : Opts) (m : Dict) (level : Nat) (ad : List (Str × Str)) (t : Node)
    (hd : dataStyle t = true) :
    ∀ l ∈ ppRef o m level ad t, ∃ rest, l = indentN o level ++ rest :=
  -- (holds for every tree; the data-style hypothesis is not needed)
  have _ := hd
  (ref_lines_indented o m).1 t level ad

/-- non-vacuity: the example from the test-suite -/
example :
    (match prettyRoot { indent := "  ".toList, align := false } [("", "")]
        (.tag "" "root" [] [.tag "" "a" [] [.text "hi".toList], .text " ".toList,
                            .tag "" "b" [⟨"", "x", "foo".toList⟩] [.tag "" "c" [] []]]) with
      | .ok ps => String.ofList (renderP ps)
      | .error _ => "")
    = "<root>\n  <a>\n    hi\n  </a>\n  <b x=\"foo\">\n    <c/>\n  </b>\n</root>" := by rfl

end Delb.Pretty

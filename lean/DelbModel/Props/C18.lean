import DelbModel.Model.Pretty
import DelbModel.Lemmas.Pretty
import DelbModel.Lemmas.PrettyLayout
/-!
# C18 — Indented output puts each structural child on its own line at its depth

Property theorems only; helper lemmas are in `DelbModel/Lemmas/Pretty.lean`.
-/
namespace Delb.Pretty
open Delb.Ser

/-- for every data-style tree, every non-empty indentation string and both alignment settings
    the PrettySerializer writes exactly what the straightforward recursive pretty printer writes:
    start tag, each child, end tag on separate lines, every line prefixed by the indentation
    repeated once per nesting depth, empty elements self-closed, aligned attributes one per line -/
theorem c18_pretty_eq_reference (o : Opts) (m : Dict) (t : Node) (hi : o.indent ≠ [])
    (hd : dataStyle t = true) (ht : t.isTag = true)
    (hm : ∀ ns ∈ treeNamespaces t, (dget m ns).isSome)
    (ps : List Piece) (h : prettyRoot o m t = .ok ps) :
    renderP ps = ppRefRoot o m t := by
  cases t with
  | tag ns name attrs kids =>
    simp only [prettyRoot] at h
    split at h
    · cases h
    · rename_i ad had
      have := (pretty_eq_ref o hi m).1 _ hd 0 _ ps h
      simp only [ppRefRoot, had, Except.toOption, Option.getD_some]
      rw [← this, indentN_zero, List.nil_append]
  | _ => simp [Node.isTag] at ht

/-- with a total prefix map the serializer does produce output for a data-style tree -/
theorem c18_pretty_total (o : Opts) (m : Dict) (t : Node) (hd : dataStyle t = true) (ht : t.isTag = true)
    (hm : ∀ ns ∈ treeNamespaces t, (dget m ns).isSome) :
    ∃ ps, prettyRoot o m t = .ok ps := by
  cases t with
  | tag ns name attrs kids =>
    obtain ⟨ad, had⟩ := attrsData_total (m := m) (l := sortAttrs attrs) (fun a ha =>
      hm a.ns (by
        simp only [treeNamespaces, List.cons_append, List.mem_cons, List.mem_append, List.mem_map]
        exact Or.inr (Or.inl ⟨a, mem_sortAttrs ha, rfl⟩)))
    simp only [prettyRoot, had]
    exact (pretty_total o m).1 _ hd hm ht 0 _
  | _ => simp [Node.isTag] at ht

/-- every line of the reference output of a child at nesting depth `level` starts with the
    indentation string repeated `level` times -/
theorem c18_lines_indented (o : Opts) (m : Dict) (level : Nat) (ad : List (Str × Str)) (t : Node)
    (hd : dataStyle t = true) :
    ∀ l ∈ ppRef o m level ad t, ∃ rest, l = indentN o level ++ rest :=
  -- (holds for every tree; the data-style hypothesis is not needed)
  have _ := hd
  (ref_lines_indented o m).1 t level ad

/-- non-vacuity: the example from the test-suite -/
example :
    (match prettyRoot { indent := "  ".toList, align := false } [("", "")]
        (.tag "" "root" [] [.tag "" "a" [] [.text "hi".toList], .text " ".toList,
                            .tag "" "b" [⟨"", "x", "foo".toList⟩] [.tag "" "c" [] []]]) with
      | .ok ps => String.ofList (renderP ps)
      | .error _ => "")
    = "<root>\n  <a>\n    hi\n  </a>\n  <b x=\"foo\">\n    <c/>\n  </b>\n</root>" := by rfl

/-! ## declarative layout facts

The statements below are about the reference output (`refStartTag` = the lines of a start tag,
`ppRef` = the lines of a node); by `c18_pretty_eq_reference` (whole tree) and
`c18_serializer_start_tag` (a single start tag piece) they are facts about what the
PrettySerializer writes.  Helper lemmas are in `DelbModel/Lemmas/PrettyLayout.lean`. -/

open Delb.WS

/-- aligned attributes: with `align_attributes` and more than one attribute (the condition of
    `PrettySerializer._serialize_attributes`) the start tag at nesting depth `level` is the line
    `<name`, then one line per attribute — indentation of the tag, one space, one more indentation
    string, padding, `name="value"` — then the closing bracket on its own line.  The padding
    consists of spaces and padding plus name is equally long (`W`, the length of the longest name)
    for all attributes of the tag, so their equal signs sit in one column. -/
theorem c18_aligned_equal_signs (o : Opts) (hi : o.indent ≠ []) (level : Nat) (qn : Str)
    (ad : List (Str × Str)) (close : Str) (hal : o.align = true) (hn : ad.length > 1) :
    ∃ (W : Nat) (pad : Str × Str → Str),
      (∀ kv ∈ ad, kv.1.length ≤ W) ∧ (∃ kv ∈ ad, kv.1.length = W) ∧
      (∀ kv ∈ ad, (∀ c ∈ pad kv, c = ' ') ∧ (pad kv ++ kv.1).length = W) ∧
      refStartTag o level qn ad close
        = [indentN o level ++ ['<'] ++ qn]
          ++ ad.map (fun kv => indentN o level ++ [' '] ++ o.indent ++ pad kv ++ kv.1
                ++ ['=', '"'] ++ escapeAttr kv.2 ++ ['"'])
          ++ [indentN o level ++ close] :=
  ⟨nameWidth ad, namePad ad, fun _ h => nameWidth_le h,
    nameWidth_attained (by intro h0; simp [h0] at hn),
    fun kv h => ⟨namePad_spaces ad kv, namePad_length h⟩,
    refStartTag_aligned' o hi level qn ad close hal hn⟩

/-- the same fact read off the lines: there is one column `col` such that the `i`-th attribute line
    (line `i + 1` of the start tag) has its equal sign at position `col`, and everything before it
    is the indentation, spaces and the attribute's name -/
theorem c18_equal_sign_column (o : Opts) (hi : o.indent ≠ []) (level : Nat) (qn : Str)
    (ad : List (Str × Str)) (close : Str) (hal : o.align = true) (hn : ad.length > 1) :
    ∃ col : Nat, ∀ (i : Nat) (h : i < ad.length),
      ∃ (l pad : Str), (refStartTag o level qn ad close)[i + 1]? = some l ∧ (∀ c ∈ pad, c = ' ') ∧
        l.take col = indentN o level ++ [' '] ++ o.indent ++ pad ++ ad[i].1 ∧
        l[col]? = some '=' := by
  refine ⟨(indentN o level ++ [' '] ++ o.indent).length + nameWidth ad, fun i h => ?_⟩
  have hlen : (indentN o level ++ [' '] ++ o.indent ++ namePad ad ad[i] ++ ad[i].1).length
      = (indentN o level ++ [' '] ++ o.indent).length + nameWidth ad := by
    have := namePad_length (ad := ad) (kv := ad[i]) (List.getElem_mem h)
    simp only [List.length_append] at this ⊢
    omega
  refine ⟨(indentN o level ++ [' '] ++ o.indent ++ namePad ad ad[i] ++ ad[i].1)
            ++ '=' :: '"' :: (escapeAttr ad[i].2 ++ ['"']), namePad ad ad[i], ?_, namePad_spaces ad _, ?_, ?_⟩
  · rw [refStartTag_aligned' o hi level qn ad close hal hn]
    simp [List.getElem?_append_left, h]
  · exact (take_getElem_prefix _ ('"' :: (escapeAttr ad[i].2 ++ ['"'])) '=' _ hlen).1
  · exact (take_getElem_prefix _ ('"' :: (escapeAttr ad[i].2 ++ ['"'])) '=' _ hlen).2

/-- one attribute per line: an aligned start tag has exactly one line per attribute between the
    `<name` line and the closing bracket line; without alignment (or with at most one attribute)
    the start tag is a single line that holds all attributes, each preceded by a single space -/
theorem c18_attribute_lines_count (o : Opts) (hi : o.indent ≠ []) (level : Nat) (qn : Str)
    (ad : List (Str × Str)) (close : Str) :
    (o.align = true → ad.length > 1 →
      (refStartTag o level qn ad close).length = 1 + ad.length + 1 ∧
      (refStartTag o level qn ad close).head? = some (indentN o level ++ ['<'] ++ qn) ∧
      (refStartTag o level qn ad close).getLast? = some (indentN o level ++ close)) ∧
    (o.align = false ∨ ad.length ≤ 1 →
      refStartTag o level qn ad close
        = [indentN o level ++ ['<'] ++ qn
            ++ (ad.map (fun kv => [' '] ++ kv.1 ++ ['=', '"'] ++ escapeAttr kv.2 ++ ['"'])).flatten
            ++ close]) := by
  refine ⟨fun hal hn => ?_, fun h => refStartTag_plain o level qn ad close (unaligned_cond h)⟩
  rw [refStartTag_aligned' o hi level qn ad close hal hn]
  refine ⟨?_, by simp, List.getLast?_concat⟩
  simp only [List.length_append, List.length_map, List.length_cons, List.length_nil] <;> omega

/-- the start tag piece the serializer emits (`prettyTag` puts `layoutAttrs o level ad` into its
    `stag` piece), written after the indentation of its level, is exactly the reference start-tag
    lines joined by newlines — so the three theorems above describe the serializer's own output -/
theorem c18_serializer_start_tag (o : Opts) (hi : o.indent ≠ []) (level : Nat) (qn : Str)
    (ad : List (Str × Str)) (sc : Bool) :
    indentN o level ++ renderPiece (.stag qn (layoutAttrs o level ad).1 (layoutAttrs o level ad).2 sc)
      = joinLines (refStartTag o level qn ad (if sc then ['/', '>'] else ['>'])) :=
  render_stag_piece o hi level qn ad sc

/-! ## layout of a tag and its children -/

/-- a data-style tag at nesting depth `level` is written as
    * childless: the start tag closed with `/>` (self-closed);
    * one text: the start tag line(s), the stripped text on its own line at depth `level + 1`
      (no line if nothing but whitespace is left), the end tag line;
    * otherwise (the first child is no text node, the text nodes are the single spaces between
      the children): the start tag line(s), then the lines of every non-text child at depth
      `level + 1` in document order, then the end tag line `</name>` at depth `level` -/
theorem c18_children_on_own_lines (o : Opts) (m : Dict) (level : Nat) (ad : List (Str × Str))
    (ns name : String) (attrs : List Attr) (kids : List Node)
    (hd : dataStyle (.tag ns name attrs kids) = true) :
    (kids = [] ∧
      ppRef o m level ad (.tag ns name attrs kids)
        = refStartTag o level ((dget m ns).getD "" ++ name).toList ad ['/', '>']) ∨
    (∃ s, kids = [.text s] ∧ s ≠ [] ∧
      ppRef o m level ad (.tag ns name attrs kids)
        = refStartTag o level ((dget m ns).getD "" ++ name).toList ad ['>']
          ++ (if (strip pyWs (normText s)).isEmpty then []
              else [indentN o (level + 1) ++ escapeText (strip pyWs (normText s))])
          ++ [indentN o level ++ ['<', '/'] ++ ((dget m ns).getD "" ++ name).toList ++ ['>']]) ∨
    (∃ k rest, kids = k :: rest ∧ k.isText = false ∧
      (∀ c ∈ kids, c.isText = true → c = .text [' ']) ∧
      (∀ c ∈ kids, c.isText = false → dataStyle c = true) ∧
      ppRef o m level ad (.tag ns name attrs kids)
        = refStartTag o level ((dget m ns).getD "" ++ name).toList ad ['>']
          ++ (kids.filter (fun c => !c.isText)).flatMap
                (fun c => ppRef o m (level + 1) (childAttrs m c) c)
          ++ [indentN o level ++ ['<', '/'] ++ ((dget m ns).getD "" ++ name).toList ++ ['>']]) := by
  rcases (dataStyle_tag hd).2 with h | ⟨s, h, hs⟩ | ⟨hk, hne, _⟩
  · subst h; exact Or.inl ⟨rfl, ppRef_no_kids ..⟩
  · subst h; exact Or.inr (Or.inl ⟨s, rfl, hs, ppRef_one_text ..⟩)
  · obtain ⟨k, rest, rfl, hkt⟩ := dataKids_true_head hk hne
    exact Or.inr (Or.inr ⟨k, rest, rfl, hkt, dataKids_texts _ _ hk, dataKids_all _ _ hk,
      ppRef_node_kids o m level ad ns name attrs k rest hkt⟩)

/-- a leaf with one text that is not only whitespace, its start tag on one line: exactly three
    lines — start tag, text at depth `level + 1`, end tag -/
theorem c18_leaf_text_lines (o : Opts) (m : Dict) (level : Nat) (ad : List (Str × Str))
    (ns name : String) (attrs : List Attr) (s : Str)
    (hs : strip pyWs (normText s) ≠ []) (hal : o.align = false ∨ ad.length ≤ 1) :
    ppRef o m level ad (.tag ns name attrs [.text s])
      = [indentN o level ++ ['<'] ++ ((dget m ns).getD "" ++ name).toList
            ++ (ad.map (fun kv => [' '] ++ kv.1 ++ ['=', '"'] ++ escapeAttr kv.2 ++ ['"'])).flatten ++ ['>'],
         indentN o (level + 1) ++ escapeText (strip pyWs (normText s)),
         indentN o level ++ ['<', '/'] ++ ((dget m ns).getD "" ++ name).toList ++ ['>']] := by
  rw [ppRef_one_text, refStartTag_plain o level _ ad _ (unaligned_cond hal)]
  simp [List.isEmpty_iff, hs]

/-- the lines of the children of one tag: every line of the block between start and end tag
    starts with the indentation string repeated `level + 1` times -/
theorem c18_child_lines_indented (o : Opts) (m : Dict) (level : Nat) (kids : List Node) :
    ∀ l ∈ (kids.filter (fun c => !c.isText)).flatMap (fun c => ppRef o m (level + 1) (childAttrs m c) c),
      ∃ rest, l = indentN o (level + 1) ++ rest := by
  intro l hl
  obtain ⟨c, _, hc⟩ := List.mem_flatMap.1 hl
  exact (ref_lines_indented o m).1 c (level + 1) _ l hc

/-! ## non-vacuity: three attributes of different name lengths at depth 1, tab indentation -/

/-- the serializer's output -/
example :
    (match prettyRoot { indent := "\t".toList, align := true } [("", "")]
        (.tag "" "root" [] [.tag "" "item" [⟨"", "a", "1".toList⟩, ⟨"", "bcd", "2".toList⟩, ⟨"", "ef", "3".toList⟩] []]) with
      | .ok ps => String.ofList (renderP ps)
      | .error _ => "")
    = "<root>\n\t<item\n\t \t  a=\"1\"\n\t \tbcd=\"2\"\n\t \t ef=\"3\"\n\t/>\n</root>" := by rfl

/-- the reference output, line by line -/
example :
    (ppRef { indent := "\t".toList, align := true } [("", "")] 0 []
        (.tag "" "root" [] [.tag "" "item" [⟨"", "a", "1".toList⟩, ⟨"", "bcd", "2".toList⟩, ⟨"", "ef", "3".toList⟩] []])).map
      String.ofList
    = ["<root>", "\t<item", "\t \t  a=\"1\"", "\t \tbcd=\"2\"", "\t \t ef=\"3\"", "\t/>", "</root>"] := by rfl

/-- the start tag alone; the equal signs are at column 6 of each attribute line -/
example :
    (refStartTag { indent := "\t".toList, align := true } 1 "item".toList
        [("a".toList, "1".toList), ("bcd".toList, "2".toList), ("ef".toList, "3".toList)] ['/', '>']).map String.ofList
    = ["\t<item", "\t \t  a=\"1\"", "\t \tbcd=\"2\"", "\t \t ef=\"3\"", "\t/>"] := by rfl

example :
    (((refStartTag { indent := "\t".toList, align := true } 1 "item".toList
        [("a".toList, "1".toList), ("bcd".toList, "2".toList), ("ef".toList, "3".toList)] ['/', '>']).drop 1).take 3).map
      (fun l => l[6]?)
    = [some '=', some '=', some '='] := by decide

/-- without alignment: one line -/
example :
    (refStartTag { indent := "\t".toList, align := false } 1 "item".toList
        [("a".toList, "1".toList), ("bcd".toList, "2".toList), ("ef".toList, "3".toList)] ['/', '>']).map String.ofList
    = ["\t<item a=\"1\" bcd=\"2\" ef=\"3\"/>"] := by rfl

end Delb.Pretty

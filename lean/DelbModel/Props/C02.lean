import DelbModel.Model.Serialize
import DelbModel.Lemmas.Roundtrip
import DelbModel.Props.C13
/-!
# C02 — Serialize then parse gives back the same document model

Property theorems only; helper lemmas are in `DelbModel/Lemmas/Roundtrip.lean`.
`c02_roundtrip` assumes a prefix map with the `PMapOk` guarantees; that `_collect_prefixes`
always produces such a map is C13 (`c13_collect_ok`), and `c02_serialize_roundtrip` composes the
two.
-/
namespace Delb.Ser

/-- generated-table obligation: `&`, `<`, `>` are escaped in text, additionally `"` in
    attribute values, each by its predefined entity -/
theorem c02_tables :
    Gen.textEscapes = [('&', "&amp;".toList), ('<', "&lt;".toList), ('>', "&gt;".toList)] ∧
    Gen.attrEscapes = [('"', "&quot;".toList), ('&', "&amp;".toList), ('<', "&lt;".toList), ('>', "&gt;".toList)] := by
  decide

/-- escaped text contains no markup-significant character other than the `&` of an entity … -/
theorem c02_escape_text_safe (s : Str) : '<' ∉ escapeText s ∧ '>' ∉ escapeText s := by
  unfold escapeText; rw [c02_tables.1]; exact escape_textTable_safe s

theorem c02_escape_attr_safe (s : Str) :
    '<' ∉ escapeAttr s ∧ '>' ∉ escapeAttr s ∧ '"' ∉ escapeAttr s := by
  unfold escapeAttr; rw [c02_tables.2]; exact escape_attrTable_safe s

/-- … and survives: resolving the entities gives the original characters back -/
theorem c02_unescape_text (s : Str) : unescape (escapeText s) = s := by
  unfold escapeText; rw [c02_tables.1]; exact unescape_escape_text s

theorem c02_unescape_attr (s : Str) : unescape (escapeAttr s) = s := by
  unfold escapeAttr; rw [c02_tables.2]; exact unescape_escape_attr s

mutual
  /-- names the serializer can write: local names and attribute names are colon-free and
      no node or attribute lives in the `xmlns` namespace; no attribute has the local name
      `xmlns` (strengthened from "no attribute `xmlns` in the empty namespace": an attribute
      whose namespace is the document's default namespace is written without a prefix too, so
      `⟨"urn:a", "xmlns", v⟩` under the map `[("urn:a", "")]` is written as `xmlns="v"` and read
      back as a namespace declaration); attribute keys are unique -/
  def Serializable : Node → Prop
    | .tag ns name attrs kids =>
      ':' ∉ name.toList ∧ ns ≠ Gen.xmlnsNamespace ∧
      (∀ a ∈ attrs, ':' ∉ a.name.toList ∧ a.ns ≠ Gen.xmlnsNamespace ∧ a.name ≠ "xmlns") ∧
      (attrs.map (fun a => (a.ns, a.name))).Nodup ∧ SerializableList kids
    | _ => True
  def SerializableList : List Node → Prop
    | [] => True
    | k :: ks => Serializable k ∧ SerializableList ks
end

set_option linter.unusedVariables false in
/-- the round trip on the level of markup tokens: for every tree and every prefix map with the
    C13 guarantees, the emitted tokens are rebuilt — resolving every written name against the
    written declarations — into the original tree (adjacent text merged, empty text dropped,
    attributes in written order).

    Of `PMapOk` this uses `injective`, `shape`, `keysNodup` and `xmlPrefix` / `xmlnsPrefix`: the
    two reserved prefixes are never declared, so a foreign namespace written as `<xml:r/>` would
    be read back in the XML namespace and `<xmlns:r/>` could not be resolved at all. -/
theorem c02_roundtrip (nsmap m : Dict) (hn : NsMapOk nsmap) (t : Node)
    (htag : t.isTag = true) (hs : Serializable t) (hm : PMapOk nsmap m t)
    (toks : List Tok)
    (h : emitRoot m t = .ok toks) : build toks = some (normalize t) :=
  build_emitRoot ⟨hm.injective, hm.shape, hm.keysNodup, hm.xmlPrefix, hm.xmlnsPrefix⟩
    Serializable SerializableList
    (fun _ _ _ _ h => by
      simp only [Serializable] at h
      exact ⟨h.1, h.2.1, h.2.2.1, h.2.2.2.2⟩)
    (fun _ _ h => by simpa only [SerializableList] using h) t htag hs toks h

/-- with such a map emitting never fails -/
theorem c02_emit_total (nsmap m : Dict) (t : Node) (hm : PMapOk nsmap m t) :
    ∃ toks, emitRoot m t = .ok toks :=
  emitRoot_total t hm.total

/-- serialize, then read back: for every tree the serializer can write, every accepted caller
    mapping and every iteration order of the namespace sets, what `TagNode.serialize()` emits is
    rebuilt into the original tree (adjacent text merged, empty text dropped) -/
theorem c02_serialize_roundtrip (nsmap : Dict) (hn : NsMapOk nsmap) (root : Node)
    (htag : root.isTag = true) (hs : Serializable root)
    (orders : List (List String)) (ho : ordersValid root orders = true) (m : Dict)
    (h : collect nsmap root orders = .ok m) :
    ∃ toks, emitRoot m root = .ok toks ∧ build toks = some (normalize root) := by
  have hm := c13_collect_ok nsmap hn root orders ho m h
  obtain ⟨toks, ht⟩ := c02_emit_total nsmap m root hm
  exact ⟨toks, ht, c02_roundtrip nsmap m hn root htag hs hm toks ht⟩

/-- non-vacuity -/
example : build [.stag "r".toList [("xmlns".toList, "urn:a".toList), ("xmlns:ns0".toList, "urn:b".toList),
                   ("k".toList, "1".toList), ("ns0:j".toList, "2".toList)] false,
                 .chars "a".toList, .chars "b".toList, .stag "ns0:e".toList [] true, .etag "r".toList]
    = some (.tag "urn:a" "r" [⟨"urn:a", "k", "1".toList⟩, ⟨"urn:b", "j", "2".toList⟩]
              [.text "ab".toList, .tag "urn:b" "e" [] []]) := by rfl

/-! ## totality

`c02_serialize_roundtrip` assumes that prefix collection returned a map.  With the size bound of
`c13_collect_total` (distinct namespaces of the tree plus entries of the caller's mapping at most
`65536 + 2`) it always does, and so the whole `serialize` call succeeds. -/

/-- **`TagNode.serialize()` yields an output**: for every tree, every accepted caller mapping, every
    iteration order of the namespace sets, under the size bound of `c13_collect_total`.  (Needs neither
    `Serializable` nor a tag node as root: the serializer also writes what cannot be read back.) -/
theorem c02_serialize_total (nsmap : Dict) (hn : NsMapOk nsmap) (root : Node)
    (orders : List (List String)) (ho : ordersValid root orders = true)
    (hsmall : (dedup (treeNamespaces root)).length + nsmap.length ≤ 65538) :
    ∃ s, serialize nsmap root orders = .ok s := by
  obtain ⟨m, hm, hok⟩ := c13_collect_total_ok nsmap hn root orders ho hsmall
  obtain ⟨toks, ht⟩ := c02_emit_total nsmap m root hok
  exact ⟨render toks, by simp only [serialize, hm, ht]⟩

/-- **serialize, then read back — without assuming a successful run**: for every tree the serializer
    can write, every accepted caller mapping and every iteration order of the namespace sets (size
    bound as above), `serialize` returns the rendering of tokens that are rebuilt into the original
    tree (adjacent text merged, empty text dropped) -/
theorem c02_serialize_roundtrip_total (nsmap : Dict) (hn : NsMapOk nsmap) (root : Node)
    (htag : root.isTag = true) (hs : Serializable root)
    (orders : List (List String)) (ho : ordersValid root orders = true)
    (hsmall : (dedup (treeNamespaces root)).length + nsmap.length ≤ 65538) :
    ∃ toks, serialize nsmap root orders = .ok (render toks) ∧ build toks = some (normalize root) := by
  obtain ⟨m, hm⟩ := c13_collect_total nsmap hn root orders ho hsmall
  obtain ⟨toks, ht, hb⟩ := c02_serialize_roundtrip nsmap hn root htag hs orders ho m hm
  exact ⟨toks, by simp only [serialize, hm, ht], hb⟩

/-- non-vacuity: the hypotheses hold for a tree with three namespaces and a caller mapping … -/
example : ∃ toks, serialize [("xml", Gen.xmlNamespace), ("xmlns", Gen.xmlnsNamespace), ("b", "urn:b")]
      (.tag "urn:a" "r" [⟨"urn:c", "k", "1".toList⟩] [.text "x".toList, .tag "urn:b" "e" [] []])
      [["urn:c", "urn:a"], ["urn:b"]] = .ok (render toks) ∧
    build toks = some (normalize
      (.tag "urn:a" "r" [⟨"urn:c", "k", "1".toList⟩] [.text "x".toList, .tag "urn:b" "e" [] []])) :=
  c02_serialize_roundtrip_total _
    ⟨by decide, by decide, by decide, by decide⟩ _ rfl
    (by simp [Serializable, SerializableList]; decide) _ (by decide) (by decide)

/-- … and this is what comes out -/
example : serialize [("xml", Gen.xmlNamespace), ("xmlns", Gen.xmlnsNamespace), ("b", "urn:b")]
      (.tag "urn:a" "r" [⟨"urn:c", "k", "1".toList⟩] [.text "x".toList, .tag "urn:b" "e" [] []])
      [["urn:c", "urn:a"], ["urn:b"]]
    = .ok "<r xmlns=\"urn:a\" xmlns:b=\"urn:b\" xmlns:ns0=\"urn:c\" ns0:k=\"1\">x<b:e/></r>".toList := by
  rfl

end Delb.Ser

import DelbModel.Model.Pretty
import DelbModel.Lemmas.PrettyTransparent
import DelbModel.Props.C02
import DelbModel.Props.C07
/-!
# C03 — formatted output is whitespace-transparent for normalised documents

Model: `Model/Pretty.lean` (`PrettySerializer`, i.e. `FormatOptions(width = 0)`), read back with
`Ser.build` (C02) and reduced with `WS.reduceSpec` (C07, proven equal to the code's reduction).
-/
namespace Delb.Pretty
open Delb.Ser Delb.WS

/-- a whitespace-reduced document as a parser delivers it: reduction leaves it unchanged, no
    adjacent or empty text nodes -/
def Reduced (t : Node) : Prop := reduceSpec pyWs t = t ∧ merged t = true

/-- `_get_serializer` rejects indentation strings that are not whitespace -/
def IndentOk (o : Opts) : Prop := ∀ c ∈ o.indent, pyWs c = true

set_option linter.unusedVariables false in
/-- **whitespace transparency, width 0**: for every reduced tree, every whitespace indentation,
    attribute alignment on or off, and every prefix map with the C13 guarantees, reading the
    pretty-printed output back and reducing its whitespace gives the original tree -/
theorem c03_pretty_transparent (o : Opts) (ho : IndentOk o) (nsmap m : Dict) (hn : NsMapOk nsmap) (t : Node)
    (htag : t.isTag = true) (hs : Serializable t) (hm : PMapOk nsmap m t) (hr : Reduced t)
    (ps : List Piece) (h : prettyRoot o m t = .ok ps) :
    ∃ u, build (eraseAll ps) = some u ∧ reduceSpec pyWs u = normalize t := by
  -- step 1: what is read back is the tree with the layout whitespace added as text (`layNode`)
  have hbuild := prettyRoot_build ⟨hm.injective, hm.shape, hm.keysNodup, hm.xmlPrefix, hm.xmlnsPrefix⟩
    Serializable SerializableList
    (fun _ _ _ _ h => by simp only [Serializable] at h; exact ⟨h.1, h.2.1, h.2.2.1, h.2.2.2.2⟩)
    (fun _ _ h => by simpa only [SerializableList] using h) o t htag hs ps h
  -- step 2: reducing the whitespace of that tree gives the original one
  have hreduce := (lay_reduce Serializable SerializableList
    (fun _ _ _ _ h => by simp only [Serializable] at h; exact ⟨h.2.2.2.1, h.2.2.2.2⟩)
    (fun _ _ h => by simpa only [SerializableList] using h) o ho).1 t hs hr.2 hr.1 0
  exact ⟨_, hbuild, hreduce⟩

/-- … composed with prefix collection (C13): the whole `serialize(format_options=…)` call -/
theorem c03_serialize_pretty_transparent (o : Opts) (ho : IndentOk o) (nsmap : Dict) (hn : NsMapOk nsmap)
    (root : Node) (htag : root.isTag = true) (hs : Serializable root) (hr : Reduced root)
    (orders : List (List String)) (hord : ordersValid root orders = true) (m : Dict)
    (h : collect nsmap root orders = .ok m) :
    ∃ ps u, prettyRoot o m root = .ok ps ∧ build (eraseAll ps) = some u ∧ reduceSpec pyWs u = normalize root := by
  have hm := c13_collect_ok nsmap hn root orders hord m h
  obtain ⟨ps, hps⟩ := prettyRoot_total o m root htag hm.total
  obtain ⟨u, hu, hred⟩ := c03_pretty_transparent o ho nsmap m hn root htag hs hm hr ps hps
  exact ⟨ps, u, hps, hu, hred⟩

/-- indentation and line breaks consist of whitespace only -/
theorem c03_layout_is_whitespace (o : Opts) (ho : IndentOk o) (m : Dict) (t : Node) (ps : List Piece)
    (h : prettyRoot o m t = .ok ps) :
    ∀ s, Piece.layout s ∈ ps → ∀ c ∈ s, pyWs c = true :=
  prettyRoot_layout o ho m t ps h

/-- no non-whitespace character is altered: the non-whitespace characters of the text read back
    are those of the original, in order -/
theorem c03_nonws_unaltered (o : Opts) (ho : IndentOk o) (nsmap m : Dict) (hn : NsMapOk nsmap) (t : Node)
    (htag : t.isTag = true) (hs : Serializable t) (hm : PMapOk nsmap m t) (hr : Reduced t)
    (ps : List Piece) (h : prettyRoot o m t = .ok ps) :
    ∃ u, build (eraseAll ps) = some u ∧ nonWs pyWs (fullText u) = nonWs pyWs (fullText t) := by
  obtain ⟨u, hu, hred⟩ := c03_pretty_transparent o ho nsmap m hn t htag hs hm hr ps h
  refine ⟨u, hu, ?_⟩
  rw [← c07_nonws_preserved pyWs pyWs_space u, hred, fullText_normalize.1]

/-- content under `xml:space="preserve"` is emitted verbatim: such a subtree is written by the plain
    serializer (whose output C02 shows to be read back unchanged) with no layout piece at all -/
theorem c03_preserve_verbatim (o : Opts) (m : Dict) (level : Nat) (ad : List (Str × Str))
    (ns name : String) (attrs : List Attr) (kids : List Node)
    (hp : directive attrs .default = .preserve) (ps : List Piece)
    (h : prettyTag o m level ad (.tag ns name attrs kids) = .ok ps) :
    ∃ ts, ps = [.verbatim ts] ∧
      ∃ qn a0 sc rest, emitNode m (.tag ns name attrs kids) = .ok (.stag qn a0 sc :: rest) ∧ ts = .stag qn ad sc :: rest := by
  rw [prettyTag.eq_1, if_pos hp] at h
  cases he : emitNode m (.tag ns name attrs kids) with
  | error e => rw [he] at h; cases h
  | ok ts =>
    obtain ⟨p, ad0, ks, _, _, _, hts⟩ := emitNode_tag_inv he
    rw [he] at h
    cases kids with
    | nil =>
      simp only [List.isEmpty_nil, if_true] at hts
      subst hts
      cases h
      exact ⟨_, rfl, _, _, _, _, rfl, rfl⟩
    | cons k0 ks0 =>
      simp only [List.isEmpty_cons, Bool.false_eq_true, if_false] at hts
      subst hts
      cases h
      exact ⟨_, rfl, _, _, _, _, rfl, rfl⟩

/-! non-vacuity: a reduced mixed-content tree -/
example : Reduced (.tag "" "p" [] [.text "Hold ".toList, .tag "" "hi" [] [.text "the".toList], .text " thieves!".toList]) := by
  constructor <;> rfl

/-! ## totality (width 0)

The pretty serializer recurses structurally (no budget); with a prefix for every namespace of the tree
it yields an output (`prettyRoot_total`), and prefix collection succeeds under the size bound of
`c13_collect_total`. -/

/-- **`serialize(format_options=FormatOptions(width=0, …))` yields an output** -/
theorem c03_serialize_pretty_total (o : Opts) (nsmap : Dict) (hn : NsMapOk nsmap)
    (root : Node) (htag : root.isTag = true)
    (orders : List (List String)) (hord : ordersValid root orders = true)
    (hsmall : (Ser.dedup (treeNamespaces root)).length + nsmap.length ≤ 65538) :
    ∃ s, serializePretty o nsmap root orders = .ok s := by
  obtain ⟨m, hm, hok⟩ := c13_collect_total_ok nsmap hn root orders hord hsmall
  obtain ⟨ps, hps⟩ := prettyRoot_total o m root htag hok.total
  exact ⟨renderP ps, by simp only [serializePretty, hm, hps]⟩

/-- whitespace transparency of the whole call, without assuming a successful run -/
theorem c03_serialize_pretty_transparent_total (o : Opts) (ho : IndentOk o) (nsmap : Dict)
    (hn : NsMapOk nsmap) (root : Node) (htag : root.isTag = true) (hs : Serializable root)
    (hr : Reduced root) (orders : List (List String)) (hord : ordersValid root orders = true)
    (hsmall : (Ser.dedup (treeNamespaces root)).length + nsmap.length ≤ 65538) :
    ∃ ps u, serializePretty o nsmap root orders = .ok (renderP ps) ∧
      build (eraseAll ps) = some u ∧ reduceSpec pyWs u = normalize root := by
  obtain ⟨m, hm⟩ := c13_collect_total nsmap hn root orders hord hsmall
  obtain ⟨ps, u, hps, hu, hred⟩ :=
    c03_serialize_pretty_transparent o ho nsmap hn root htag hs hr orders hord m hm
  exact ⟨ps, u, by simp only [serializePretty, hm, hps], hu, hred⟩

/-! non-vacuity: a reduced mixed-content tree with two namespaces -/
example : ∃ s, serializePretty ⟨"  ".toList, false⟩
    [("xml", Gen.xmlNamespace), ("xmlns", Gen.xmlnsNamespace)]
    (.tag "urn:a" "p" [] [.text "Hold ".toList, .tag "urn:b" "hi" [] [.text "the".toList], .text " thieves!".toList])
    [["urn:a"], ["urn:b"]] = .ok s :=
  c03_serialize_pretty_total _ _ ⟨by decide, by decide, by decide, by decide⟩ _ rfl _ (by decide) (by decide)

end Delb.Pretty

import DelbModel.Model.Filters
import DelbModel.Lemmas.Filters
/-!
# C08 — Observing a tree has no side effects, and default filters stay the caller's

Property theorems only; helper lemmas are in `DelbModel/Lemmas/Filters.lean`.
The premises about the library's functions are decided for the summaries that
`harness/gen_skeleton.py` regenerates from /repo's source on every run.
That observing calls leave tree content and node identities alone is, for a functional model,
true by construction; it is established on the implementation by the exploration (see DESIGN.md).
-/
namespace Delb.Filters

/-- instance for the current source: no function holds an own `altered_default_filters` frame across
    a `yield` -/
theorem c08_source_no_yield_in_frame : noYieldInOwnFrame Gen.filterSkeleton = true := by
  decide +kernel

/-- instance for the current source: the functions whose results must be filter independent do not
    test tag nodes for truthiness (`len` under the ambient filters) outside an own frame -/
theorem c08_source_listed_guarded : listedAreGuarded Gen.filterSkeleton = true := by
  decide +kernel

/-- a balanced segment (a library call, or a generator resumption that holds no own frame when it
    yields) leaves the stack exactly as it found it, whatever the stack is -/
theorem c08_balanced_restores (s : Stack) (seg : List Act) (h : Balanced seg) : run s seg = some s := by
  simpa using run_of_balancedFrom seg 0 [] s rfl h

/-- no leak: under every interleaving of library calls and generator resumptions with the client's
    own blocks — iterators suspended, abandoned or closed at any point — the client's view of the
    default filters is what the client itself established -/
theorem c08_callers_view (s : Stack) (sched : List Step) (h : allLibBalanced sched) :
    runSchedule s sched = clientOnly s sched := by
  induction sched generalizing s with
  | nil => rfl
  | cons st rest ih =>
    cases st with
    | lib seg =>
      have hb : Balanced seg := h.1
      simp only [runSchedule, clientOnly, c08_balanced_restores s seg hb]
      exact ih s h.2
    | clientPush f =>
      simp only [runSchedule, clientOnly]
      exact ih (f :: s) h
    | clientPop =>
      cases s with
      | nil => rfl
      | cons x s =>
        simp only [runSchedule, clientOnly]
        exact ih s h

/-- a segment that does hold a frame across a yield is visible to the caller (why the premise matters) -/
theorem c08_unbalanced_leaks : ∃ s seg, ¬ Balanced seg ∧ run s seg ≠ some s := by
  refine ⟨[], [.push 0], ?_, ?_⟩
  · simp [Balanced, balancedFrom]
  · simp [run]

/-- independence: when every ambient read of a call lies inside an own frame, what it reads (hence
    what it computes) is the same for every ambient stack -/
theorem c08_guarded_independent (s₁ s₂ : Stack) (seg : List Act) (h : Guarded seg) :
    reads s₁ seg = reads s₂ seg := by
  simpa using reads_of_guardedFrom seg 0 [] s₁ s₂ rfl h

/-- non-vacuity: the shape of `serialize` (decorated: push, reads, pop) is balanced and guarded -/
example : Balanced [.push 0, .read, .push 1, .read, .pop, .read, .pop] ∧
    Guarded [.push 0, .read, .push 1, .read, .pop, .read, .pop] := by constructor <;> rfl

end Delb.Filters

import DelbModel.Model.Attrs
import DelbModel.Lemmas.Attrs
/-!
# C11 — Attributes behave as a mapping keyed by namespace and local name

Property theorems only; helper lemmas are in `DelbModel/Lemmas/Attrs.lean`.
The mapping part (set / delete / lookup / membership / iteration / length, through any accessor form)
is a full refinement of a dictionary keyed by canonical names.  The view part is partial: the
unchanged code keeps only the *cached* view of a qualified name informed (`c11_stale_view_exists`
exhibits the recorded finding), so the live-view theorems speak about cached views.
-/
namespace Delb.Attrs

/-- the store key of a qualified name depends only on its canonical form: the three accessor forms
    of one attribute — and `("", n)` / `(D, n)` — reach the same entry -/
theorem c11_same_entry (c : Ctx) (q₁ q₂ : QName) (h : canon c q₁ = canon c q₂) :
    etreeKey c q₁ = etreeKey c q₂ := by
  rw [etreeKey_eq, etreeKey_eq, h]

/-- … and different attributes reach different entries -/
theorem c11_distinct_entries (c : Ctx) (q₁ q₂ : QName) (h : etreeKey c q₁ = etreeKey c q₂) :
    canon c q₁ = canon c q₂ := by
  rw [← unkey_etreeKey, ← unkey_etreeKey, h]

/-- lookup and membership are dictionary lookup -/
theorem c11_lookup (c : Ctx) (s : State) (a : Accessor) (hok : storeOk c s.store) :
    getValue c s a = dictGet (absStore s.store) (canon c (resolve c a)) ∧
    contains c s a = (dictGet (absStore s.store) (canon c (resolve c a))).isSome := by
  have h := sget_eq s.store (etreeKey c (resolve c a)) (storeOk_fst_ne hok) (etreeKey_fst_ne _ _)
  rw [unkey_etreeKey] at h
  exact ⟨h, congrArg Option.isSome h⟩

/-- assignment is dictionary assignment (an existing entry keeps its position) -/
theorem c11_set (c : Ctx) (s : State) (a : Accessor) (v : Str) (hok : storeOk c s.store) :
    absStore (setItem c s a v).store = dictSet (absStore s.store) (canon c (resolve c a)) v ∧
    storeOk c (setItem c s a v).store := by
  refine ⟨?_, storeOk_sset hok _ _⟩
  have h := sset_eq s.store (etreeKey c (resolve c a)) v (storeOk_fst_ne hok) (etreeKey_fst_ne _ _)
  rw [unkey_etreeKey] at h
  exact h

/-- deletion is dictionary deletion; it raises KeyError exactly for a missing entry -/
theorem c11_del (c : Ctx) (s : State) (a : Accessor) (hok : storeOk c s.store) :
    ((delItem c s a).2 = .keyError ↔ dictGet (absStore s.store) (canon c (resolve c a)) = none) ∧
    ((delItem c s a).2 ≠ .keyError →
        absStore (delItem c s a).1.store = dictDel (absStore s.store) (canon c (resolve c a)) ∧
        storeOk c (delItem c s a).1.store) := by
  have hl := (c11_lookup c s a hok).2
  rw [delItem_snd]
  by_cases hc : contains c s a = true
  · rw [if_pos hc]
    rw [hc] at hl
    refine ⟨⟨fun h => (by cases h), fun h => (by rw [h] at hl; cases hl)⟩, fun _ => ?_⟩
    rw [delItem_store hc]
    refine ⟨?_, storeOk_sdel hok _⟩
    have h := sdel_eq s.store (etreeKey c (resolve c a)) (storeOk_fst_ne hok) (etreeKey_fst_ne _ _)
    rw [unkey_etreeKey] at h
    exact h
  · rw [if_neg hc]
    have hc' : contains c s a = false := by simpa using hc
    rw [hc'] at hl
    refine ⟨⟨fun _ => ?_, fun _ => rfl⟩, fun h => absurd rfl h⟩
    cases hd : dictGet (absStore s.store) (canon c (resolve c a)) with
    | none => rfl
    | some x => rw [hd] at hl; cases hl

/-- iteration and length are those of the dictionary (each attribute once, in store order) -/
theorem c11_iter_len (c : Ctx) (s : State) (hok : storeOk c s.store) :
    (iter c s).map (canon c) = (absStore s.store).map (·.1) ∧ len s = (absStore s.store).length ∧
    ((iter c s).map (canon c)).Nodup := by
  have h1 : (iter c s).map (canon c) = (absStore s.store).map (·.1) := by
    rw [absStore_keys]
    unfold iter
    rw [List.map_map, List.map_map]
    apply List.map_congr_left
    intro e he
    obtain ⟨⟨o, n⟩, v⟩ := e
    cases o with
    | none => simp [canon, unkey]
    | some ns =>
      have hne : ns ≠ c.defaultNs := (hok.1 _ he ns rfl).2
      simp [canon, unkey, hne]
  refine ⟨h1, ?_, ?_⟩
  · simp [len, absStore]
  · rw [h1, absStore_keys]
    refine nodup_map_unkey ?_ hok.2
    intro k hk
    obtain ⟨e, he, rfl⟩ := List.mem_map.1 hk
    exact storeOk_fst_ne hok e he

-- FALSE: nothing in the hypotheses relates the cache of an arbitrary `State` to its views.
--   c := ⟨"", ""⟩,  s := { store := [((none, "a"), ['x'])], cache := [(("", "a"), 7)], views := [], nextView := 0 }
--   `getItem c s (.local_ "a") = (s, .view 7)` (the cached id is returned), but there is no view 7:
--   `viewValue c s 7 = .keyError`.  `storeOk` and `hfresh` hold.  The slip is in the statement (a state
--   invariant is missing), not in the model: every state reachable from an empty cache satisfies it.
-- theorem c11_view_live (c : Ctx) (s : State) (a : Accessor) (hok : storeOk c s.store) (s' : State) (vid : Nat)
--     (h : getItem c s a = (s', .view vid)) (hfresh : ∀ v ∈ s.views, v.id < s.nextView) :
--     (∃ x, viewValue c s' vid = .value x ∧ dictGet (absStore s'.store) (canon c (resolve c a)) = some x) ∧
--     s'.store = s.store ∧
--     ∀ y, absStore (viewSetValue c s' vid y).store = dictSet (absStore s'.store) (canon c (resolve c a)) y

/-- a view obtained from the mapping shows the dictionary value, and writing through it writes
    the dictionary — provided that an id cached under this qualified name is the id of an attached view
    of this qualified name (`hcache`; true of every state reachable from an empty cache) -/
theorem c11_view_live_partial (c : Ctx) (s : State) (a : Accessor) (hok : storeOk c s.store) (s' : State)
    (vid : Nat) (h : getItem c s a = (s', .view vid)) (hfresh : ∀ v ∈ s.views, v.id < s.nextView)
    (hcache : ∀ id, cacheGet s.cache (resolve c a) = some id →
      ∃ v, getView s id = some v ∧ v.attached = true ∧ v.qname = resolve c a) :
    (∃ x, viewValue c s' vid = .value x ∧ dictGet (absStore s'.store) (canon c (resolve c a)) = some x) ∧
    s'.store = s.store ∧
    ∀ y, absStore (viewSetValue c s' vid y).store = dictSet (absStore s'.store) (canon c (resolve c a)) y := by
  obtain ⟨hst, hc, _, v, hv, hatt, hq⟩ := getItem_post h hfresh hcache
  have hok' : storeOk c s'.store := by rw [hst]; exact hok
  refine ⟨?_, hst, ?_⟩
  · have hl := (c11_lookup c s' a hok').1
    unfold contains at hc
    unfold getValue at hl
    cases hx : sget s'.store (etreeKey c (resolve c a)) with
    | none => rw [hx] at hc; cases hc
    | some x =>
      refine ⟨x, ?_, by rw [← hl, hx]⟩
      unfold viewValue
      rw [hv]
      simp only [hatt, if_true, hq, hx]
  · intro y
    unfold viewSetValue
    rw [hv]
    simp only [hatt, if_true, hq]
    have h := sset_eq s'.store (etreeKey c (resolve c a)) y (storeOk_fst_ne hok') (etreeKey_fst_ne _ _)
    rw [unkey_etreeKey] at h
    exact h

-- FALSE: as above, the cached id may belong to a view of a *different* qualified name (or a detached one).
--   c := ⟨"", ""⟩,  s := { store := [((none, "a"), ['x']), ((none, "b"), ['y'])], cache := [(("", "a"), 0)],
--                          views := [{ id := 0, attached := true, qname := ("", "b"), detachedValue := none }],
--                          nextView := 1 }
--   `getItem c s (.local_ "a") = (s, .view 0)`, `viewValue c s 0 = .value ['y']`, but
--   `viewValue c (delItem c s (.local_ "a")).1 0 = .value ['x']`.  `storeOk`, `hfresh`, `hids` hold.
--   Statement slip (missing state invariant), not a model slip.
-- theorem c11_view_keeps_value (c : Ctx) (s : State) (a : Accessor) (hok : storeOk c s.store) (s₁ : State)
--     (vid : Nat) (x : Str) (h : getItem c s a = (s₁, .view vid)) (hv : viewValue c s₁ vid = .value x)
--     (hfresh : ∀ v ∈ s.views, v.id < s.nextView) (hids : (s.views.map (·.id)).Nodup) :
--     viewValue c (delItem c s₁ a).1 vid = .value x

/-- an attribute object keeps its last value once removed — when it is removed through the
    qualified name it is cached under; needs the same cache invariant `hcache` as `c11_view_live_partial`
    (`storeOk` and uniqueness of view ids turn out not to be needed) -/
theorem c11_view_keeps_value_partial (c : Ctx) (s : State) (a : Accessor) (s₁ : State)
    (vid : Nat) (x : Str) (h : getItem c s a = (s₁, .view vid)) (hv : viewValue c s₁ vid = .value x)
    (hfresh : ∀ v ∈ s.views, v.id < s.nextView)
    (hcache : ∀ id, cacheGet s.cache (resolve c a) = some id →
      ∃ v, getView s id = some v ∧ v.attached = true ∧ v.qname = resolve c a) :
    viewValue c (delItem c s₁ a).1 vid = .value x := by
  obtain ⟨_, hc, hg, v, hgv, hatt, hq⟩ := getItem_post h hfresh hcache
  have hx : sget s₁.store (etreeKey c (resolve c a)) = some x := by
    unfold viewValue at hv
    rw [hgv] at hv
    simp only [hatt, if_true, hq] at hv
    cases hx : sget s₁.store (etreeKey c (resolve c a)) with
    | none => rw [hx] at hv; cases hv
    | some y => rw [hx] at hv; cases hv; rfl
  rw [delItem_cached hc hg hgv, hx]
  have hid : v.id = vid := getView_id hgv
  have hgv' : getView (putView s₁ { v with attached := false, detachedValue := some x }) vid =
      some { v with attached := false, detachedValue := some x } := by
    rw [getView_putView, hgv]
    simp
  unfold viewValue
  show (match getView (putView s₁ { v with attached := false, detachedValue := some x }) vid with
    | Option.none => Res.keyError
    | some v => _) = _
  rw [hgv']
  rfl

/-- the recorded finding: an earlier view that is no longer the cached one is not told about the
    removal (`A['a']`, `A['a'] = 'x'`, `del A['a']`, then `.value` raises KeyError) -/
theorem c11_stale_view_exists :
    ∃ (c : Ctx) (s₀ : State) (vid : Nat),
      let s₁ := (getItem c s₀ (.local_ "a")).1
      let s₂ := setItem c s₁ (.local_ "a") "x".toList
      let s₃ := (delItem c s₂ (.local_ "a")).1
      (getItem c s₀ (.local_ "a")).2 = .view vid ∧ viewValue c s₃ vid = .keyError := by
  refine ⟨⟨"", ""⟩, ⟨[((none, "a"), [])], [], [], 0⟩, 0, ?_⟩
  decide

/-- non-vacuity: on a default-namespace element the local name, the Clark name and both pairs agree -/
example : let c : Ctx := { nodeNs := "urn:u", defaultNs := "urn:u" }
    etreeKey c (resolve c (.local_ "a")) = (none, "a") ∧ etreeKey c (resolve c (.clark "urn:u" "a")) = (none, "a") ∧
    etreeKey c (resolve c (.pair "" "a")) = (none, "a") ∧ etreeKey c (resolve c (.pair "urn:q" "a")) = (some "urn:q", "a") := by
  decide

end Delb.Attrs

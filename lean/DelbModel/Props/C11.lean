import DelbModel.Model.Attrs
import DelbModel.Lemmas.Attrs
import DelbModel.Generated.Tables
/-!
# C11 — Attributes behave as a mapping keyed by namespace and local name

Property theorems only; helper lemmas are in `DelbModel/Lemmas/Attrs.lean`.

* The mapping part (set / delete / update / lookup / membership / iteration / length, through any accessor form)
  is a refinement of a dictionary keyed by canonical names.
* The view part holds for every state that satisfies the invariant `Inv` (`storeOk` and `ViewsOk`: the cached
  view of a store key is an attached view of that key, every attached view is the cached view of its key,
  cached keys are stored, ids are unique, detached views have a value).  `Inv` holds initially and is
  preserved by every operation (`c11_inv_initial`, `c11_inv_preserved`), hence in every reachable state
  (`c11_reachable_inv`).
* Equality of two collections is equality (same entries) of the dictionaries of reported names.

All of it is under `storeOk` (no key of the wrapped mapping carries the in-scope default namespace in Clark form),
which every operation preserves.  A parsed element can violate it from the start (`<e xmlns="urn:u" xmlns:p="urn:u"
p:a="1"/>`); there the implementation — and the model, which agrees with it — breaks the property: recorded finding
`prefixed-attribute-in-default-namespace`.
-/
namespace Delb.Attrs

/-! ## the mapping -/

/-- the store key of a qualified name depends only on its canonical form: the three accessor forms
    of one attribute — and `("", n)` / `(D, n)` — reach the same entry -/
theorem c11_same_entry (c : Ctx) (q₁ q₂ : QName) (h : canon c q₁ = canon c q₂) :
    etreeKey c q₁ = etreeKey c q₂ := by
  rw [etreeKey_eq, etreeKey_eq, h]

/-- … and different attributes reach different entries -/
theorem c11_distinct_entries (c : Ctx) (q₁ q₂ : QName) (h : etreeKey c q₁ = etreeKey c q₂) :
    canon c q₁ = canon c q₂ := by
  rw [← unkey_etreeKey, ← unkey_etreeKey, h]

/-- lookup and membership are dictionary lookup -/
theorem c11_lookup (c : Ctx) (s : State) (a : Accessor) (hok : storeOk c s.store) :
    getValue c s a = dictGet (absStore s.store) (canon c (resolve c a)) ∧
    contains c s a = (dictGet (absStore s.store) (canon c (resolve c a))).isSome := by
  have h := sget_etreeKey hok (resolve c a)
  exact ⟨h, congrArg Option.isSome h⟩

/-- assignment is dictionary assignment (an existing entry keeps its position) -/
theorem c11_set (c : Ctx) (s : State) (a : Accessor) (v : Str) (hok : storeOk c s.store) :
    absStore (setItem c s a v).store = dictSet (absStore s.store) (canon c (resolve c a)) v ∧
    storeOk c (setItem c s a v).store := by
  refine ⟨?_, storeOk_setItem hok a v⟩
  rw [setItem_store]
  have h := sset_eq s.store (etreeKey c (resolve c a)) v (storeOk_fst_ne hok) (etreeKey_fst_ne _ _)
  rw [unkey_etreeKey] at h
  exact h

/-- `update` is a sequence of dictionary assignments -/
theorem c11_update (c : Ctx) (items : List (Accessor × Str)) (s : State) (hok : storeOk c s.store) :
    absStore (update c s items).store =
      items.foldl (fun d e => dictSet d (canon c (resolve c e.1)) e.2) (absStore s.store) ∧
    storeOk c (update c s items).store := by
  induction items generalizing s with
  | nil => exact ⟨rfl, hok⟩
  | cons e rest ih =>
    obtain ⟨h1, h2⟩ := c11_set c s e.1 e.2 hok
    have := ih (setItem c s e.1 e.2) h2
    simp only [update, List.foldl_cons] at this ⊢
    rw [h1] at this
    exact this

/-- deletion is dictionary deletion; it raises KeyError exactly for a missing entry -/
theorem c11_del (c : Ctx) (s : State) (a : Accessor) (hinv : Inv c s) :
    ((delItem c s a).2 = .keyError ↔ dictGet (absStore s.store) (canon c (resolve c a)) = none) ∧
    ((delItem c s a).2 ≠ .keyError →
        absStore (delItem c s a).1.store = dictDel (absStore s.store) (canon c (resolve c a)) ∧
        storeOk c (delItem c s a).1.store) := by
  have hok := hinv.1
  have hl := (c11_lookup c s a hok).2
  cases hc : contains c s a with
  | false =>
    rw [hc] at hl
    rw [delItem_keyError hc]
    refine ⟨⟨fun _ => ?_, fun _ => rfl⟩, fun h => absurd rfl h⟩
    cases hd : dictGet (absStore s.store) (canon c (resolve c a)) with
    | none => rfl
    | some x => rw [hd] at hl; cases hl
  | true =>
    rw [hc] at hl
    obtain ⟨s₁, vid, v, x, _, _, _, _, _, _, _, _, _, _, _, _, hd⟩ := delItem_spec hinv.2 hc
    rw [hd]
    refine ⟨⟨fun h => (by cases h), fun h => (by rw [h] at hl; cases hl)⟩, fun _ => ?_⟩
    refine ⟨?_, storeOk_sdel hok _⟩
    have h := sdel_eq s.store (etreeKey c (resolve c a)) (storeOk_fst_ne hok) (etreeKey_fst_ne _ _)
    rw [unkey_etreeKey] at h
    exact h

/-- iteration and length are those of the dictionary (each attribute once, in store order) -/
theorem c11_iter_len (c : Ctx) (s : State) (hok : storeOk c s.store) :
    (iter c s).map (canon c) = (absStore s.store).map (·.1) ∧ len s = (absStore s.store).length ∧
    ((iter c s).map (canon c)).Nodup := by
  have h1 : (iter c s).map (canon c) = (absStore s.store).map (·.1) := by
    rw [absStore_keys]
    unfold iter
    rw [List.map_map, List.map_map]
    apply List.map_congr_left
    intro e he
    obtain ⟨⟨o, n⟩, v⟩ := e
    cases o with
    | none => simp [canon, unkey, iterName]
    | some ns =>
      have hne : ns ≠ c.defaultNs := (hok.1 _ he ns rfl).2
      simp [canon, unkey, iterName, hne]
  refine ⟨h1, ?_, ?_⟩
  · simp [len, absStore]
  · rw [h1, absStore_keys]
    refine nodup_map_unkey ?_ hok.2
    intro k hk
    obtain ⟨e, he, rfl⟩ := List.mem_map.1 hk
    exact storeOk_fst_ne hok e he

/-! ## the invariant of reachable states -/

/-- a freshly wrapped element (no attribute objects yet) satisfies the invariant -/
theorem c11_inv_initial (c : Ctx) (st : Store) (n : Nat) (hok : storeOk c st) : Inv c ⟨st, [], [], n⟩ :=
  ⟨hok, viewsOk_empty c st n⟩

/-- every operation preserves the invariant -/
theorem c11_inv_preserved (c : Ctx) (s : State) (hinv : Inv c s) :
    (∀ a, Inv c (getItem c s a).1) ∧ (∀ a x, Inv c (setItem c s a x)) ∧ (∀ a, Inv c (delItem c s a).1) ∧
    (∀ vid x, Inv c (viewSetValue c s vid x)) ∧ (∀ vid nq, Inv c (renameView c s vid nq).1) ∧
    (∀ items, Inv c (update c s items)) ∧ (∀ a, Inv c (pop c s a).1) :=
  ⟨hinv.getItem, hinv.setItem, hinv.delItem, hinv.viewSetValue, hinv.renameView, fun items => hinv.update items,
   hinv.pop⟩

/-- … so it holds in every state a client can reach -/
theorem c11_reachable_inv (c : Ctx) (s : State) (h : Reachable c s) : Inv c s := by
  induction h with
  | init st n hok => exact c11_inv_initial c st n hok
  | getItem a _ ih => exact ih.getItem a
  | setItem a x _ ih => exact ih.setItem a x
  | delItem a _ ih => exact ih.delItem a
  | viewSetValue vid x _ ih => exact ih.viewSetValue vid x
  | renameView vid nq _ ih => exact ih.renameView vid nq

/-- the attribute object a lookup returns is attached, denotes the looked-up attribute and is *the* object of
    that attribute: every spelling of the name gives the same object; the store is untouched -/
theorem c11_get_view (c : Ctx) (s : State) (a : Accessor) (hinv : Inv c s) (hc : contains c s a = true) :
    ∃ s' vid v, getItem c s a = (s', .view vid) ∧ s'.store = s.store ∧
      getView s' vid = some v ∧ v.attached = true ∧ canon c v.qname = canon c (resolve c a) ∧
      ∀ a', canon c (resolve c a') = canon c (resolve c a) → getItem c s' a' = (s', .view vid) := by
  obtain ⟨s', vid, v, hgi, _, hst, hg, hv, ha, hk, _⟩ := getItem_spec hinv.2 hc
  refine ⟨s', vid, v, hgi, hst, hv, ha, c11_distinct_entries c _ _ hk, ?_⟩
  intro a' ha'
  have hk' := c11_same_entry c _ _ ha'
  refine getItem_hit ?_ (by rw [hk']; exact hg)
  unfold contains at hc ⊢
  rw [hk', hst]; exact hc

/-! ## attribute objects are live views -/

/-- (a) an attached attribute object shows the dictionary value of its name; a removed one shows the value it
    kept — reading the value never fails -/
theorem c11_view_value (c : Ctx) (s : State) (vid : Nat) (v : View) (hinv : Inv c s)
    (hv : getView s vid = some v) :
    (v.attached = true → ∃ x, viewValue c s vid = .value x ∧
        dictGet (absStore s.store) (canon c v.qname) = some x) ∧
    (v.attached = false → ∃ x, viewValue c s vid = .value x ∧ v.detachedValue = some x) := by
  constructor
  · intro ha
    obtain ⟨x, hx, hval⟩ := hinv.2.viewValue hv ha
    exact ⟨x, hval, by rw [← sget_etreeKey hinv.1, hx]⟩
  · intro ha
    have := hinv.2.detached vid v hv ha
    cases hd : v.detachedValue with
    | none => rw [hd] at this; cases this
    | some x => exact ⟨x, viewValue_detached hv ha hd, rfl⟩

/-- (b) writing through an attached attribute object changes exactly the dictionary entry of its name, the
    object shows the new value and no attribute object changes -/
theorem c11_view_set (c : Ctx) (s : State) (vid : Nat) (v : View) (y : Str) (hinv : Inv c s)
    (hv : getView s vid = some v) (ha : v.attached = true) :
    absStore (viewSetValue c s vid y).store = dictSet (absStore s.store) (canon c v.qname) y ∧
    viewValue c (viewSetValue c s vid y) vid = .value y ∧
    (∀ id, getView (viewSetValue c s vid y) id = getView s id) := by
  rw [viewSetValue_attached y hv ha]
  refine ⟨?_, ?_, fun _ => rfl⟩
  · have h := sset_eq s.store (etreeKey c v.qname) y (storeOk_fst_ne hinv.1) (etreeKey_fst_ne _ _)
    rw [unkey_etreeKey] at h
    exact h
  · exact viewValue_attached (s := { s with store := sset s.store (etreeKey c v.qname) y }) hv ha
      (sget_sset_self _ _ _)

/-- writing through a removed attribute object changes only what that object shows -/
theorem c11_view_set_removed (c : Ctx) (s : State) (vid : Nat) (v : View) (y : Str)
    (hv : getView s vid = some v) (ha : v.attached = false) :
    (viewSetValue c s vid y).store = s.store ∧ viewValue c (viewSetValue c s vid y) vid = .value y := by
  rw [viewSetValue_detached y hv ha]
  refine ⟨rfl, ?_⟩
  have hvid : v.id = vid := getView_id hv
  subst hvid
  exact viewValue_detached (getView_putView_self s { v with detachedValue := some y } hv) ha rfl

/-- (c) after a removal through ANY accessor that denotes the attribute, the attribute object of that attribute
    is detached and keeps the value it showed before; every other attribute object shows what it showed and
    stays as attached as it was -/
theorem c11_del_detaches (c : Ctx) (s : State) (a : Accessor) (vid : Nat) (v : View) (x : Str) (hinv : Inv c s)
    (hv : getView s vid = some v) (ha : v.attached = true) (hx : viewValue c s vid = .value x)
    (hsame : canon c v.qname = canon c (resolve c a)) :
    (delItem c s a).2 = .unit ∧
    (∃ v', getView (delItem c s a).1 vid = some v' ∧ v'.attached = false) ∧
    viewValue c (delItem c s a).1 vid = .value x ∧
    (∀ wid w, getView s wid = some w → wid ≠ vid →
      viewValue c (delItem c s a).1 wid = viewValue c s wid ∧
      ∃ w', getView (delItem c s a).1 wid = some w' ∧ w'.attached = w.attached) := by
  have hk : etreeKey c v.qname = etreeKey c (resolve c a) := c11_same_entry c _ _ hsame
  have hg : cacheGet s.cache (etreeKey c (resolve c a)) = some vid := by
    rw [← hk]; exact hinv.2.attached vid v hv ha
  have hc : contains c s a = true := hinv.2.stored _ _ hg
  rw [delItem_eq hc hg hv hx]
  have hvid : v.id = vid := getView_id hv
  subst hvid
  have hself : getView (putView s { v with attached := false, detachedValue := some x }) v.id =
      some { v with attached := false, detachedValue := some x } := getView_putView_self s _ hv
  refine ⟨rfl, ⟨_, hself, rfl⟩, viewValue_detached hself rfl rfl, ?_⟩
  intro wid w hw hne
  have hw' : getView (putView s { v with attached := false, detachedValue := some x }) wid = some w := by
    rw [getView_putView_ne s { v with attached := false, detachedValue := some x } hne]; exact hw
  refine ⟨?_, w, hw', rfl⟩
  cases hwa : w.attached with
  | false =>
    simp only [viewValue, getView] at hw' ⊢
    simp only [getView] at hw
    rw [hw', hw]
    simp only [hwa]
    rfl
  | true =>
    have hne_key : etreeKey c w.qname ≠ etreeKey c (resolve c a) := by
      intro e
      have := hinv.2.attached wid w hw hwa
      rw [e, hg] at this
      cases this
      exact hne rfl
    simp only [viewValue, getView] at hw' ⊢
    simp only [getView] at hw
    rw [hw', hw]
    simp only [hwa, if_true]
    rw [sget_sdel, if_neg hne_key]

/-- (d) assigning to an existing attribute — through any accessor that denotes it — keeps its attribute object:
    the object stays attached, shows the assigned value, and a lookup afterwards returns this object -/
theorem c11_set_keeps_view (c : Ctx) (s : State) (a a' : Accessor) (vid : Nat) (v : View) (y : Str) (hinv : Inv c s)
    (hv : getView s vid = some v) (ha : v.attached = true)
    (hsame : canon c (resolve c a) = canon c v.qname) (hsame' : canon c (resolve c a') = canon c v.qname) :
    getView (setItem c s a y) vid = some v ∧ viewValue c (setItem c s a y) vid = .value y ∧
    getItem c (setItem c s a y) a' = (setItem c s a y, .view vid) := by
  have hk : etreeKey c (resolve c a) = etreeKey c v.qname := c11_same_entry c _ _ hsame
  have hk' : etreeKey c (resolve c a') = etreeKey c v.qname := c11_same_entry c _ _ hsame'
  have hg : cacheGet s.cache (etreeKey c (resolve c a)) = some vid := by
    rw [hk]; exact hinv.2.attached vid v hv ha
  rw [setItem_hit y hg]
  refine ⟨hv, ?_, ?_⟩
  · exact viewValue_attached (s := { s with store := sset s.store (etreeKey c (resolve c a)) y }) hv ha
      (by rw [hk]; exact sget_sset_self _ _ _)
  · refine getItem_hit ?_ (by rw [hk', ← hk]; exact hg)
    show (sget (sset s.store (etreeKey c (resolve c a)) y) (etreeKey c (resolve c a'))).isSome = true
    rw [hk', ← hk, sget_sset_self]; rfl

/-- (e) renaming through an attached attribute object moves the dictionary entry (the old canonical name is
    deleted, the new one gets the value; another spelling of the same name changes nothing); the object stays
    attached, carries the new name and shows the value -/
theorem c11_rename (c : Ctx) (s : State) (vid : Nat) (v : View) (nq : QName) (x : Str) (hinv : Inv c s)
    (hv : getView s vid = some v) (ha : v.attached = true) (hx : viewValue c s vid = .value x) :
    (renameView c s vid nq).2 = .unit ∧
    absStore (renameView c s vid nq).1.store =
      (if canon c nq = canon c v.qname then absStore s.store
       else dictSet (dictDel (absStore s.store) (canon c v.qname)) (canon c nq) x) ∧
    (∃ v', getView (renameView c s vid nq).1 vid = some v' ∧ v'.attached = true ∧
      canon c v'.qname = canon c nq) ∧
    viewValue c (renameView c s vid nq).1 vid = .value x := by
  by_cases hk : etreeKey c nq = etreeKey c v.qname
  · have hcan : canon c nq = canon c v.qname := c11_distinct_entries c _ _ hk
    rw [renameView_alias hv ha hk, if_pos hcan]
    exact ⟨rfl, rfl, ⟨v, hv, ha, hcan.symm⟩, hx⟩
  · have hcan : ¬ canon c nq = canon c v.qname := fun e => hk (c11_same_entry c _ _ e)
    obtain ⟨s', x', hr, hx', hst, _, hgv, _⟩ := renameView_spec hinv.2 hv ha hk
    have hxx : x' = x := by
      rw [viewValue_attached hv ha hx'] at hx
      cases hx; rfl
    subst hxx
    rw [hr, if_neg hcan]
    have hself : getView s' vid = some { v with qname := nq, detachedValue := some x' } := by
      rw [hgv vid, if_pos rfl]
    refine ⟨rfl, ?_, ⟨_, hself, ha, rfl⟩, ?_⟩
    · show absStore s'.store = _
      rw [hst]
      have hok1 := storeOk_sset hinv.1 nq x'
      have h1 := sdel_eq (sset s.store (etreeKey c nq) x') (etreeKey c v.qname) (storeOk_fst_ne hok1)
        (etreeKey_fst_ne _ _)
      have h2 := sset_eq s.store (etreeKey c nq) x' (storeOk_fst_ne hinv.1) (etreeKey_fst_ne _ _)
      rw [unkey_etreeKey] at h1 h2
      rw [h1, h2]
      exact dictDel_dictSet_comm _ _ hcan
    · refine viewValue_attached hself ha ?_
      show sget s'.store (etreeKey c nq) = some x'
      rw [hst, sget_sdel, if_neg hk, sget_sset_self]

/-- a rename supersedes an attribute that has the new name: its attribute object is detached and keeps the value
    it showed; all other attribute objects show what they showed and stay as attached as they were -/
theorem c11_rename_others (c : Ctx) (s : State) (vid : Nat) (v : View) (nq : QName) (hinv : Inv c s)
    (hv : getView s vid = some v) (ha : v.attached = true) (wid : Nat) (w : View) (hw : getView s wid = some w)
    (hne : wid ≠ vid) :
    viewValue c (renameView c s vid nq).1 wid = viewValue c s wid ∧
    ∃ w', getView (renameView c s vid nq).1 wid = some w' ∧
      w'.attached = (w.attached && !(canon c w.qname == canon c nq && canon c nq != canon c v.qname)) := by
  by_cases hk : etreeKey c nq = etreeKey c v.qname
  · have hcan : canon c nq = canon c v.qname := c11_distinct_entries c _ _ hk
    rw [renameView_alias hv ha hk]
    exact ⟨rfl, w, hw, by simp [hcan]⟩
  · have hcan : ¬ canon c nq = canon c v.qname := fun e => hk (c11_same_entry c _ _ e)
    obtain ⟨s', x, hr, hx, hst, _, hgv, _⟩ := renameView_spec hinv.2 hv ha hk
    rw [hr]
    show viewValue c s' wid = _ ∧ ∃ w', getView s' wid = some w' ∧ _
    have hcv := hinv.2.attached vid v hv ha
    have hgw := hgv wid
    rw [if_neg hne] at hgw
    cases hwa : w.attached with
    | false =>
      -- a removed object: it is not the cached object of any key
      have hsame : getView s' wid = some w := by
        rw [hgw]
        cases hg : cacheGet s.cache (etreeKey c nq) with
        | none => exact hw
        | some rid =>
          have hrw : wid ≠ rid := by
            intro e
            obtain ⟨r, hr', hra, _⟩ := hinv.2.cached _ _ hg
            rw [← e, hw] at hr'
            cases hr'
            rw [hwa] at hra; cases hra
          simp only [hrw, if_false]; exact hw
      refine ⟨?_, w, hsame, by simp [hwa]⟩
      simp only [viewValue, hsame, hw, hwa]
      rfl
    | true =>
      have hcw := hinv.2.attached wid w hw hwa
      have hkw_old : etreeKey c w.qname ≠ etreeKey c v.qname := by
        intro e
        rw [e, hcv] at hcw
        cases hcw
        exact hne rfl
      obtain ⟨y, hy, hvaly⟩ := hinv.2.viewValue hw hwa
      by_cases hkw : etreeKey c w.qname = etreeKey c nq
      · -- the superseded attribute
        have hg : cacheGet s.cache (etreeKey c nq) = some wid := by rw [← hkw]; exact hcw
        have hcanw : canon c w.qname = canon c nq := c11_distinct_entries c _ _ hkw
        rw [hg] at hgw
        simp only [if_true, hw, Option.map_some] at hgw
        rw [← hkw, hy] at hgw
        refine ⟨?_, _, hgw, by simp [hcanw, hcan]⟩
        rw [hvaly]
        exact viewValue_detached hgw rfl rfl
      · have hcanw : ¬ canon c w.qname = canon c nq := fun e => hkw (c11_same_entry c _ _ e)
        have hsame : getView s' wid = some w := by
          rw [hgw]
          cases hg : cacheGet s.cache (etreeKey c nq) with
          | none => exact hw
          | some rid =>
            have hrw : wid ≠ rid := by
              intro e
              obtain ⟨r, hr', _, hrk⟩ := hinv.2.cached _ _ hg
              rw [← e, hw] at hr'
              cases hr'
              exact hkw hrk
            simp only [hrw, if_false]; exact hw
        refine ⟨?_, w, hsame, by simp [hwa, hcanw]⟩
        rw [hvaly]
        refine viewValue_attached hsame hwa ?_
        rw [hst, sget_sdel, if_neg hkw_old, sget_sset_ne _ _ hkw]
        exact hy

/-! ## equality -/

/-- equality of two attribute collections (elements with possibly different namespaces in scope) is equality of
    their dictionaries of reported names: the same (name, value) entries -/
theorem c11_eq_collections_iff (c₁ c₂ : Ctx) (s₁ s₂ : State) (h₁ : storeOk c₁ s₁.store) (h₂ : storeOk c₂ s₂.store) :
    eqCollections c₁ s₁ c₂ s₂ = true ↔ dictEquiv (reportedDict c₁ s₁.store) (reportedDict c₂ s₂.store) := by
  have hlen₁ : len s₁ = ((reportedDict c₁ s₁.store).map (·.1)).length := by simp [len, reportedDict]
  have hlen₂ : len s₂ = ((reportedDict c₂ s₂.store).map (·.1)).length := by simp [len, reportedDict]
  have hn₁ := reportedDict_keys_nodup h₁
  have hn₂ := reportedDict_keys_nodup h₂
  -- the loop of `__eq__` says: every entry of the first dictionary is an entry of the second
  have hall : ((iter c₁ s₁).all (fun key =>
      (iter c₂ s₂).contains key &&
      sameValue (getValue c₁ s₁ (.pair key.1 key.2)) (getValue c₂ s₂ (.pair key.1 key.2)))) = true ↔
      ∀ e, e ∈ reportedDict c₁ s₁.store → e ∈ reportedDict c₂ s₂.store := by
    rw [List.all_eq_true]
    constructor
    · intro h e he
      obtain ⟨q, v⟩ := e
      obtain ⟨hq, hv⟩ := (mem_reportedDict_iff h₁ q v).1 he
      have := h q (by rw [iter_eq]; exact hq)
      simp only [Bool.and_eq_true, List.contains_iff_mem, getValue, resolve] at this
      obtain ⟨hq₂, hm⟩ := this
      rw [hv] at hm
      refine (mem_reportedDict_iff h₂ q v).2 ⟨by rw [← iter_eq]; exact hq₂, ?_⟩
      cases hv₂ : sget s₂.store (etreeKey c₂ (q.1, q.2)) with
      | none => rw [hv₂] at hm; simp [sameValue] at hm
      | some y =>
        rw [hv₂] at hm
        simp only [sameValue, beq_iff_eq] at hm
        rw [hm]
    · intro h q hq
      rw [iter_eq] at hq
      obtain ⟨⟨q', v⟩, he, rfl⟩ := List.mem_map.1 hq
      obtain ⟨_, hv⟩ := (mem_reportedDict_iff h₁ q' v).1 he
      obtain ⟨hq₂, hv₂⟩ := (mem_reportedDict_iff h₂ q' v).1 (h _ he)
      simp only [Bool.and_eq_true, List.contains_iff_mem, getValue, resolve]
      refine ⟨by rw [iter_eq]; exact hq₂, ?_⟩
      show sameValue (sget s₁.store (etreeKey c₁ q')) (sget s₂.store (etreeKey c₂ q')) = true
      rw [hv, hv₂]
      simp [sameValue]
  unfold eqCollections
  rw [Bool.and_eq_true, hall, beq_iff_eq]
  constructor
  · rintro ⟨hlen, hsub⟩ e
    refine ⟨hsub e, fun he => ?_⟩
    obtain ⟨q, v⟩ := e
    -- pigeonhole on the names
    have hkeys : (reportedDict c₁ s₁.store).map (·.1) ⊆ (reportedDict c₂ s₂.store).map (·.1) := by
      intro k hk
      obtain ⟨e', he', rfl⟩ := List.mem_map.1 hk
      exact List.mem_map.2 ⟨e', hsub e' he', rfl⟩
    have hback := subset_of_nodup_of_length_le hn₁ hkeys (by rw [← hlen₁, ← hlen₂, hlen]; exact Nat.le_refl _)
    have hq₁ := hback (List.mem_map.2 ⟨(q, v), he, rfl⟩)
    obtain ⟨⟨q', v'⟩, he', rfl⟩ := List.mem_map.1 hq₁
    have h2' := (mem_reportedDict_iff h₂ q' v').1 (hsub _ he')
    have h2 := (mem_reportedDict_iff h₂ q' v).1 he
    rw [h2.2] at h2'
    cases h2'.2
    exact he'
  · intro h
    refine ⟨?_, fun e => (h e).1⟩
    have hk₁ : (reportedDict c₁ s₁.store).map (·.1) ⊆ (reportedDict c₂ s₂.store).map (·.1) := by
      intro k hk
      obtain ⟨e', he', rfl⟩ := List.mem_map.1 hk
      exact List.mem_map.2 ⟨e', (h e').1 he', rfl⟩
    have hk₂ : (reportedDict c₂ s₂.store).map (·.1) ⊆ (reportedDict c₁ s₁.store).map (·.1) := by
      intro k hk
      obtain ⟨e', he', rfl⟩ := List.mem_map.1 hk
      exact List.mem_map.2 ⟨e', (h e').2 he', rfl⟩
    rw [hlen₁, hlen₂]
    exact Nat.le_antisymm (List.Nodup.length_le_of_subset hn₁ hk₁) (List.Nodup.length_le_of_subset hn₂ hk₂)

/-- comparison with a plain mapping: same length, and every key of the mapping — whatever accessor form it has —
    is an attribute of the dictionary with that value -/
theorem c11_eq_mapping_iff (c : Ctx) (s : State) (other : List (Accessor × Str)) (hok : storeOk c s.store) :
    eqMapping c s other = true ↔
      (absStore s.store).length = other.length ∧
      ∀ e ∈ other, dictGet (absStore s.store) (canon c (resolve c e.1)) = some e.2 := by
  unfold eqMapping
  rw [Bool.and_eq_true, beq_iff_eq, List.all_eq_true, (c11_iter_len c s hok).2.1]
  refine and_congr Iff.rfl (forall_congr' fun e => forall_congr' fun _ => ?_)
  obtain ⟨hl, hcn⟩ := c11_lookup c s e.1 hok
  rw [Bool.and_eq_true, hl, hcn, beq_iff_eq]
  constructor
  · exact fun h => h.2
  · intro h; rw [h]; exact ⟨rfl, rfl⟩

/-- … hence, when the keys of the mapping denote pairwise different attributes, `==` is equality of the
    dictionaries: the canonical dictionary has exactly the entries of the mapping -/
theorem c11_eq_mapping_dict (c : Ctx) (s : State) (other : List (Accessor × Str)) (hok : storeOk c s.store)
    (hdistinct : (other.map (fun e => canon c (resolve c e.1))).Nodup) :
    eqMapping c s other = true ↔
      dictEquiv (absStore s.store) (other.map (fun e => (canon c (resolve c e.1), e.2))) := by
  have hkn : ((absStore s.store).map (·.1)).Nodup := by
    rw [← (c11_iter_len c s hok).1]; exact (c11_iter_len c s hok).2.2
  -- lookup in the canonical dictionary is membership
  have hget : ∀ q v, dictGet (absStore s.store) q = some v ↔ (q, v) ∈ absStore s.store := by
    intro q v
    generalize absStore s.store = d at hkn
    induction d with
    | nil => simp [dictGet]
    | cons e rest ih =>
      obtain ⟨q', v'⟩ := e
      simp only [List.map_cons, List.nodup_cons] at hkn
      by_cases hq : q' = q
      · subst hq
        have : ∀ w, (q', w) ∉ rest := fun w hw => hkn.1 (List.mem_map.2 ⟨(q', w), hw, rfl⟩)
        simp [dictGet, this]
        exact eq_comm
      · simp [dictGet, hq, ih hkn.2]
        intro h; exact absurd h.symm hq
  have hmapkeys : (other.map (fun e => (canon c (resolve c e.1), e.2))).map (·.1) =
      other.map (fun e => canon c (resolve c e.1)) := by
    rw [List.map_map]; rfl
  rw [c11_eq_mapping_iff c s other hok]
  constructor
  · rintro ⟨hlen, hall⟩ e
    obtain ⟨q, v⟩ := e
    constructor
    · intro he
      -- pigeonhole: the names of the mapping are all names of the dictionary
      have hsub : other.map (fun e => canon c (resolve c e.1)) ⊆ (absStore s.store).map (·.1) := by
        intro k hk
        obtain ⟨e', he', rfl⟩ := List.mem_map.1 hk
        exact List.mem_map.2 ⟨_, (hget _ _).1 (hall e' he'), rfl⟩
      have hback := subset_of_nodup_of_length_le hdistinct hsub (by simp [hlen])
      obtain ⟨e', he', hq⟩ := List.mem_map.1 (hback (List.mem_map.2 ⟨(q, v), he, rfl⟩))
      have := (hget _ _).1 (hall e' he')
      rw [hq] at this
      have hv : e'.2 = v := by
        have h1 := (hget _ _).2 this
        have h2 := (hget _ _).2 he
        rw [h1] at h2; cases h2; rfl
      exact List.mem_map.2 ⟨e', he', by rw [hq, hv]⟩
    · intro he
      obtain ⟨e', he', heq⟩ := List.mem_map.1 he
      cases heq
      exact (hget _ _).1 (hall e' he')
  · intro h
    refine ⟨?_, fun e he => (hget _ _).2 ((h _).2 (List.mem_map.2 ⟨e, he, rfl⟩))⟩
    have hk₁ : (absStore s.store).map (·.1) ⊆ other.map (fun e => canon c (resolve c e.1)) := by
      intro k hk
      obtain ⟨e', he', rfl⟩ := List.mem_map.1 hk
      rw [← hmapkeys]
      exact List.mem_map.2 ⟨e', (h e').1 he', rfl⟩
    have hk₂ : other.map (fun e => canon c (resolve c e.1)) ⊆ (absStore s.store).map (·.1) := by
      intro k hk
      obtain ⟨e', he', rfl⟩ := List.mem_map.1 hk
      exact List.mem_map.2 ⟨_, (h _).2 (List.mem_map.2 ⟨e', he', rfl⟩), rfl⟩
    have := Nat.le_antisymm (List.Nodup.length_le_of_subset hkn hk₁) (List.Nodup.length_le_of_subset hdistinct hk₂)
    simpa using this

/-! ## non-vacuity: the hypotheses of the theorems above are satisfiable

An element `<e xmlns="urn:u" xmlns:q="urn:q" a="1" q:b="2"/>`: the default namespace is the element's
(`exCtx`, `exStore`, `exInit`; `exHeld`: after `A["a"]` and `A["{urn:q}b"]`; `exRemoved`: after `del A[("", "a")]`;
defined with `exStore_ok` and `ex_reachable` at the end of `Lemmas/Attrs.lean`). -/

/-- `storeOk` (hypothesis of c11_lookup, c11_set, c11_update, c11_iter_len, c11_eq_mapping_iff) and reachable
    states, hence `Inv` (hypothesis of c11_del, c11_get_view and of the view theorems) -/
example : storeOk exCtx exStore ∧ Reachable exCtx exInit ∧ Reachable exCtx exHeld ∧ Reachable exCtx exRemoved :=
  ⟨exStore_ok, ex_reachable⟩


/-- the three accessor forms and both pairs reach one entry (c11_same_entry), another namespace another one -/
example : etreeKey exCtx (resolve exCtx (.local_ "a")) = (none, "a") ∧
    etreeKey exCtx (resolve exCtx (.clark "urn:u" "a")) = (none, "a") ∧
    etreeKey exCtx (resolve exCtx (.pair "" "a")) = (none, "a") ∧
    etreeKey exCtx (resolve exCtx (.pair "urn:q" "a")) = (some "urn:q", "a") ∧
    canon exCtx (resolve exCtx (.local_ "a")) = canon exCtx (resolve exCtx (.pair "" "a")) := by
  decide

/-- an attached attribute object whose name has another spelling, with its value (hypotheses of c11_view_value,
    c11_view_set, c11_del_detaches with the alias `("", "a")`, c11_set_keeps_view, c11_rename), a second
    attached object (c11_rename_others), a name to rename to that supersedes it -/
example : Inv exCtx exHeld ∧ contains exCtx exHeld (.pair "" "a") = true ∧
    getView exHeld 0 = some ⟨0, true, ("urn:u", "a"), none⟩ ∧ viewValue exCtx exHeld 0 = .value ['1'] ∧
    canon exCtx ("urn:u", "a") = canon exCtx (resolve exCtx (.pair "" "a")) ∧
    getView exHeld 1 = some ⟨1, true, ("urn:q", "b"), none⟩ ∧ (1 : Nat) ≠ 0 ∧
    canon exCtx ("urn:q", "b") ≠ canon exCtx ("urn:u", "a") :=
  ⟨c11_reachable_inv _ _ ex_reachable.2.1, by decide, rfl, by decide, by decide, rfl, by decide, by decide⟩

/-- what the theorems say there: the removal through the other spelling detaches object 0 with its value, and
    renaming object 0 to `{urn:q}b` supersedes object 1, which keeps its value -/
example : viewValue exCtx exRemoved 0 = .value ['1'] ∧ (delItem exCtx exHeld (.pair "" "a")).2 = .unit ∧
    absStore exRemoved.store = [(("urn:q", "b"), ['2'])] ∧
    (renameView exCtx exHeld 0 ("urn:q", "b")).2 = .unit ∧
    absStore (renameView exCtx exHeld 0 ("urn:q", "b")).1.store = [(("urn:q", "b"), ['1'])] ∧
    viewValue exCtx (renameView exCtx exHeld 0 ("urn:q", "b")).1 0 = .value ['1'] ∧
    viewValue exCtx (renameView exCtx exHeld 0 ("urn:q", "b")).1 1 = .value ['2'] ∧
    (getItem exCtx (renameView exCtx exHeld 0 ("urn:q", "b")).1 (.clark "urn:q" "b")).2 = .view 0 := by
  decide

/-- a removed attribute object (hypotheses of c11_view_set_removed and of the second part of c11_view_value) -/
example : Inv exCtx exRemoved ∧ getView exRemoved 0 = some ⟨0, false, ("urn:u", "a"), some ['1']⟩ :=
  ⟨c11_reachable_inv _ _ ex_reachable.2.2, rfl⟩

/-- two elements with different namespaces in scope whose collections are equal (c11_eq_collections_iff): an
    attribute `{urn:u}a` of an element without default namespace, and `a` under the default namespace `urn:u`;
    and two that differ although their canonical dictionaries are the same list -/
example : storeOk ⟨"", ""⟩ [((some "urn:u", "a"), ['1'])] ∧ storeOk exCtx [((none, "a"), ['1'])] ∧
    eqCollections ⟨"", ""⟩ ⟨[((some "urn:u", "a"), ['1'])], [], [], 0⟩ exCtx ⟨[((none, "a"), ['1'])], [], [], 0⟩ = true ∧
    eqCollections ⟨"", ""⟩ ⟨[((none, "a"), ['1'])], [], [], 0⟩ exCtx ⟨[((none, "a"), ['1'])], [], [], 0⟩ = false := by
  refine ⟨⟨?_, by decide⟩, ⟨?_, by decide⟩, by decide, by decide⟩
  · intro e he ns hns
    simp only [List.mem_cons, List.not_mem_nil, or_false] at he
    subst he
    cases hns
    exact ⟨by decide, by decide⟩
  · intro e he ns hns
    simp only [List.mem_cons, List.not_mem_nil, or_false] at he
    subst he
    cases hns

/-- the name an attribute object reports is the name the iteration over the collection reports for the store key
    the object stands for - whatever spelling it was fetched or renamed with (so an object that is dropped and
    fetched again, e.g. after its node's wrapper was collected, reports the same name) -/
theorem c11_view_name_is_iterated_name (c : Ctx) (s : State) (vid : Nat) (v : View)
    (hv : getView s vid = some v) :
    viewName c s vid = some (iterName c (etreeKey c v.qname)) := by
  unfold viewName
  rw [hv]
  simp only [Option.map_some, Option.some.injEq, reportedName, etreeKey, iterName]
  by_cases h1 : v.qname.1 = ""
  · simp [h1]
  · by_cases h2 : c.defaultNs = v.qname.1
    · simp [h1, h2]
    · simp [h1, h2]

/-- two spellings of one name give one reported name -/
theorem c11_view_name_spelling (c : Ctx) (q₁ q₂ : QName) (h : etreeKey c q₁ = etreeKey c q₂) :
    reportedName c q₁ = reportedName c q₂ := by
  have e : ∀ q, reportedName c q = iterName c (etreeKey c q) := by
    intro q
    simp only [reportedName, etreeKey, iterName]
    by_cases h1 : q.1 = ""
    · simp [h1]
    · by_cases h2 : c.defaultNs = q.1
      · simp [h1, h2]
      · simp [h1, h2]
  rw [e q₁, e q₂, h]

/-- a plain mapping whose keys denote different attributes (hypothesis of c11_eq_mapping_dict) that compares equal,
    in three accessor forms -/
example : ([(Accessor.pair "" "a", ['1']), (Accessor.clark "urn:q" "b", ['2'])].map
      (fun e => canon exCtx (resolve exCtx e.1))).Nodup ∧
    eqMapping exCtx exInit [(.pair "" "a", ['1']), (.clark "urn:q" "b", ['2'])] = true ∧
    eqMapping exCtx exInit [(.local_ "a", ['1']), (.pair "urn:q" "b", ['2'])] = true ∧
    eqMapping exCtx exInit [(.local_ "a", ['1']), (.pair "urn:q" "b", ['3'])] = false := by
  decide

/-! ## names given as strings: Clark notation

"a local name, a Clark-notation name and a (namespace, name) pair that denote the same attribute
always reach the same entry" starts with reading the string.  `deconstructClark` models
`deconstruct_clark_notation`; the translator probes the real function on a table of names on every
run (`Gen.clarkProbes`). -/

/-- translator obligation: on the probed names (plain, Clark, empty namespace `{}a`, several braces,
    a brace in the middle, unbalanced - where Python raises) the model is the function of /repo -/
theorem c11_clark_probes :
    Gen.clarkProbes.length ≥ 10 ∧
    ∀ p ∈ Gen.clarkProbes, deconstructClark p.1 = (if p.2.2 = "<raises>" then none else some p.2) := by
  decide

/-- `"{ns}name"` reads as the pair `(ns, name)` - for every namespace (the empty one included) and every
    local name; a namespace cannot contain a closing brace in this notation -/
theorem c11_clark_notation (ns l : String) (h : '}' ∉ ns.toList) :
    accessorOfString ("{" ++ ns ++ "}" ++ l) = some (.clark ns l) := by
  simp [accessorOfString, deconstructClark_clark ns l h]

/-- … and a string that does not start with a brace is a local name -/
theorem c11_plain_name (n : String) (h : n.toList.head? ≠ some '{') :
    accessorOfString n = some (.local_ n) := by
  simp [accessorOfString, deconstructClark_plain n h]

/-- hence the Clark string and the pair reach the same entry on every element - in particular
    `"{}name"` is the attribute `("", name)`, not `name` in the element's namespace (seeded C11-9) -/
theorem c11_clark_string_same_entry (c : Ctx) (ns l : String) (h : '}' ∉ ns.toList) :
    (accessorOfString ("{" ++ ns ++ "}" ++ l)).map (resolve c) = some (resolve c (.pair ns l)) := by
  rw [c11_clark_notation ns l h]
  rfl

example : accessorOfString "{}a" = some (.clark "" "a") ∧ accessorOfString "a" = some (.local_ "a") ∧
    accessorOfString "{u" = none := by decide

end Delb.Attrs

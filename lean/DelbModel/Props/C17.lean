import DelbModel.Model.Compare
import DelbModel.Lemmas.Compare
import DelbModel.Lemmas.Clone
import DelbModel.Lemmas.CompareRoundtrip
/-!
# C17 — compare_trees reports equal exactly when two trees are equal

Property theorems only; helper lemmas are in `DelbModel/Lemmas/Compare.lean`.
`f` is the predicate the active default filters amount to; `wellFormed` says attribute
names are unique per tag node (they are keys of a mapping).
-/
namespace Delb.Compare

/-- a true result exactly when the trees visible under the filters are equal in node kinds,
    names, namespaces, attributes (as dictionaries), content and order -/
theorem c17_equal_iff (f : Node → Bool) (a b : Node) (ha : wellFormed a) (hb : wellFormed b) :
    compare f a b = none ↔ Eqv (visible f a) (visible f b) := by
  exact compare_none_iff f a b ha hb

/-- the verdict does not depend on argument order -/
theorem c17_symmetric (f : Node → Bool) (a b : Node) (ha : wellFormed a) (hb : wellFormed b) :
    (compare f a b).isNone = (compare f b a).isNone := by
  have h1 := compare_none_iff f a b ha hb
  have h2 := compare_none_iff f b a hb ha
  have h : compare f a b = none ↔ compare f b a = none :=
    h1.trans (Iff.trans ⟨Eqv.symm', Eqv.symm'⟩ h2.symm)
  rw [Bool.eq_iff_iff]
  simpa [Option.isNone_iff_eq_none] using h

/-- a tree equals itself (in particular an exact copy) -/
theorem c17_reflexive (f : Node → Bool) (a : Node) (ha : wellFormed a) : compare f a a = none := by
  exact (compare_none_iff f a a ha ha).mpr (Eqv.refl' _)

/-- a false result names a pair of nodes at the same address of the two visible trees that
    really differs in the reported aspect -/
theorem c17_reported_pair_differs (f : Node → Bool) (a b : Node) (ha : wellFormed a) (hb : wellFormed b)
    (d : Diff) (p : List Nat) (h : compare f a b = some (d, p)) :
    ∃ x y, nodeAt (visible f a) p = some x ∧ nodeAt (visible f b) p = some y ∧ DiffersIn d x y := by
  exact compare_some f a b ha hb d p h

/-- non-vacuity: a changed attribute value deep in the tree is found, a hidden comment is not -/
example : compare (fun n => match n with | .comment _ => false | _ => true)
    (.tag "" "r" [] [.comment "x".toList, .tag "" "a" [⟨"", "k", "1".toList⟩] []])
    (.tag "" "r" [] [.tag "" "a" [⟨"", "k", "2".toList⟩] [], .comment "y".toList])
    = some (.tagAttributes, [0]) := by rfl

/-! ## in particular: a tree and its clone, a tree and its re-parsed serialization

`compare` works on trees without node identities (`Node`); a tree with identities (`PTree`, the
representation of the editing and cloning models) is compared through `Clone.strip`, which
forgets the identities. -/

/-- a tree and its deep clone (fresh identities from `n` on, `Edit.cloneP`) compare equal under
    every filter -/
theorem c17_clone_equal (f : Node → Bool) (n : Nat) (t : Edit.PTree)
    (ht : wellFormed (Clone.strip t)) :
    compare f (Clone.strip t) (Clone.strip (Edit.cloneP n t).1) = none := by
  rw [Clone.strip_cloneP]
  exact c17_reflexive f _ ht

/-- the same for the clone the mechanism-level model makes on the text-node encoding (`Edit.cloneEl`) -/
theorem c17_clone_equal_encoding (f : Node → Bool) (n : Nat) (e : Edit.El)
    (ht : wellFormed (Clone.strip (Edit.abs e))) :
    compare f (Clone.strip (Edit.abs e)) (Clone.strip (Edit.abs (Edit.cloneEl n e).1)) = none := by
  have h := Edit.cloneEl_abs e n
  have h1 : Edit.abs (Edit.cloneEl n e).1 = (Edit.cloneP n (Edit.abs e)).1 := by rw [h]
  rw [h1]
  exact c17_clone_equal f n (Edit.abs e) ht

/-- a tree the serializer can write, in which adjacent text nodes are merged, no text node is empty
    and attributes are in written order (`normalize t = t`), compares equal under every filter with
    what is read back from its serialization (token level, `c02_roundtrip`) -/
theorem c17_reparsed_equal (f : Node → Bool) (nsmap m : Ser.Dict) (hn : Ser.NsMapOk nsmap) (t : Node)
    (htag : t.isTag = true) (hs : Ser.Serializable t) (hm : Ser.PMapOk nsmap m t)
    (hnorm : Ser.normalize t = t) (toks : List Ser.Tok) (h : Ser.emitRoot m t = .ok toks) :
    ∃ t', Ser.build toks = some t' ∧ compare f t t' = none := by
  refine ⟨t, ?_, c17_reflexive f t (wellFormed_of_serializable t hs)⟩
  rw [Ser.c02_roundtrip nsmap m hn t htag hs hm toks h, hnorm]

/-- … and with the prefix map `_collect_prefixes` computes, for every accepted caller mapping and
    every iteration order of the namespace sets (`c02_serialize_roundtrip`) -/
theorem c17_reserialized_equal (f : Node → Bool) (nsmap : Ser.Dict) (hn : Ser.NsMapOk nsmap) (root : Node)
    (htag : root.isTag = true) (hs : Ser.Serializable root) (hnorm : Ser.normalize root = root)
    (orders : List (List String)) (ho : Ser.ordersValid root orders = true) (m : Ser.Dict)
    (h : Ser.collect nsmap root orders = .ok m) :
    ∃ toks t', Ser.emitRoot m root = .ok toks ∧ Ser.build toks = some t' ∧ compare f root t' = none := by
  obtain ⟨toks, ht, hb⟩ := Ser.c02_serialize_roundtrip nsmap hn root htag hs orders ho m h
  exact ⟨toks, root, ht, by rw [hb, hnorm], c17_reflexive f root (wellFormed_of_serializable root hs)⟩

/-- without `normalize t = t` the re-read tree is `normalize t`, and the verdict is "equal" exactly
    when the visible parts of `t` and `normalize t` are (e.g. split text nodes make it "different") -/
theorem c17_reparsed_verdict (f : Node → Bool) (nsmap m : Ser.Dict) (hn : Ser.NsMapOk nsmap) (t : Node)
    (htag : t.isTag = true) (hs : Ser.Serializable t) (hm : Ser.PMapOk nsmap m t)
    (hw : wellFormed (Ser.normalize t)) (toks : List Ser.Tok) (h : Ser.emitRoot m t = .ok toks) :
    ∃ t', Ser.build toks = some t' ∧
      (compare f t t' = none ↔ Eqv (visible f t) (visible f (Ser.normalize t))) := by
  exact ⟨Ser.normalize t, Ser.c02_roundtrip nsmap m hn t htag hs hm toks h,
    c17_equal_iff f t _ (wellFormed_of_serializable t hs) hw⟩

/-- non-vacuity: a clone with fresh identities compares equal; split text does not survive re-reading -/
example : compare (fun _ => true)
    (Clone.strip (.tag 0 "" "r" [⟨"", "k", "1".toList⟩] [.text 1 "a".toList, .comment 2 []]))
    (Clone.strip (Edit.cloneP 10 (.tag 0 "" "r" [⟨"", "k", "1".toList⟩] [.text 1 "a".toList, .comment 2 []])).1)
    = none := by rfl
example : compare (fun _ => true) (.tag "" "r" [] [.text "a".toList, .text "b".toList])
    (Ser.normalize (.tag "" "r" [] [.text "a".toList, .text "b".toList])) = some (.tagChildrenSize, []) := by rfl

end Delb.Compare

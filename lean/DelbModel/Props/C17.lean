import DelbModel.Model.Compare
import DelbModel.Lemmas.Compare
/-!
# C17 — compare_trees reports equal exactly when two trees are equal

Property theorems only; helper lemmas are in `DelbModel/Lemmas/Compare.lean`.
`f` is the predicate the active default filters amount to; `wellFormed` says attribute
names are unique per tag node (they are keys of a mapping).
-/
namespace Delb.Compare

/-- a true result exactly when the trees visible under the filters are equal in node kinds,
    names, namespaces, attributes (as dictionaries), content and order -/
theorem c17_equal_iff (f : Node → Bool) (a b : Node) (ha : wellFormed a) (hb : wellFormed b) :
    compare f a b = none ↔ Eqv (visible f a) (visible f b) := by
  exact compare_none_iff f a b ha hb

/-- the verdict does not depend on argument order -/
theorem c17_symmetric (f : Node → Bool) (a b : Node) (ha : wellFormed a) (hb : wellFormed b) :
    (compare f a b).isNone = (compare f b a).isNone := by
  have h1 := compare_none_iff f a b ha hb
  have h2 := compare_none_iff f b a hb ha
  have h : compare f a b = none ↔ compare f b a = none :=
    h1.trans (Iff.trans ⟨Eqv.symm', Eqv.symm'⟩ h2.symm)
  rw [Bool.eq_iff_iff]
  simpa [Option.isNone_iff_eq_none] using h

/-- a tree equals itself (in particular an exact copy) -/
theorem c17_reflexive (f : Node → Bool) (a : Node) (ha : wellFormed a) : compare f a a = none := by
  exact (compare_none_iff f a a ha ha).mpr (Eqv.refl' _)

/-- a false result names a pair of nodes at the same address of the two visible trees that
    really differs in the reported aspect -/
theorem c17_reported_pair_differs (f : Node → Bool) (a b : Node) (ha : wellFormed a) (hb : wellFormed b)
    (d : Diff) (p : List Nat) (h : compare f a b = some (d, p)) :
    ∃ x y, nodeAt (visible f a) p = some x ∧ nodeAt (visible f b) p = some y ∧ DiffersIn d x y := by
  exact compare_some f a b ha hb d p h

/-- non-vacuity: a changed attribute value deep in the tree is found, a hidden comment is not -/
example : compare (fun n => match n with | .comment _ => false | _ => true)
    (.tag "" "r" [] [.comment "x".toList, .tag "" "a" [⟨"", "k", "1".toList⟩] []])
    (.tag "" "r" [] [.tag "" "a" [⟨"", "k", "2".toList⟩] [], .comment "y".toList])
    = some (.tagAttributes, [0]) := by rfl

end Delb.Compare

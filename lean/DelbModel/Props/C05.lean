import DelbModel.Model.Nav
import DelbModel.Lemmas.Nav
import DelbModel.Model.NavFilter
import DelbModel.Lemmas.NavFilter
/-!
# C05 — All navigation relations describe one and the same ordered tree

Property theorems only; helper lemmas are in `DelbModel/Lemmas/Nav.lean`.
-/
namespace Delb.Nav
open Delb.Edit

/-- `iterate_children` as the code walks the encoding (start node, then `_fetch_following_sibling`
    through DATA / TAIL / APPENDED text nodes and element wrappers) yields exactly the visible child
    list, each child once, in order — hence `len`, indexed access, `index`, first and last child agree -/
theorem c05_children_walk (i : Nat) (ns n : String) (a : List Attr) (data : Chain) (kids : List (El × Chain)) :
    (childLocs data kids).filterMap (locNode data kids) = (abs (.tag i ns n a data kids)).kids ∧
    (childLocs data kids).map (locIndex data kids) = List.range (visLen data kids) := by
  simpa [PTree.kids] using children_walk data kids

/-- the child reached at index `i` of the visible list is the one `locate` resolves -/
theorem c05_locate_index (data : Chain) (kids : List (El × Chain)) (i : Nat) (l : Loc)
    (h : locate data kids i = some l) : locIndex data kids l = i ∧ locValid data kids l = true := by
  exact locate_index data kids i l h

/-- following sibling moves one index to the right and ends exactly at the last child -/
theorem c05_next_index (data : Chain) (kids : List (El × Chain)) (l : Loc) (hv : locValid data kids l = true) :
    (∀ l', nextLoc data kids l = some l' →
        locIndex data kids l' = locIndex data kids l + 1 ∧ locValid data kids l' = true) ∧
    (nextLoc data kids l = none ↔ locIndex data kids l + 1 = visLen data kids) := by
  exact next_index data kids l hv

/-- preceding sibling moves one index to the left and ends exactly at the first child -/
theorem c05_prev_index (data : Chain) (kids : List (El × Chain)) (l : Loc) (hv : locValid data kids l = true) :
    (∀ l', prevLoc data kids l = some l' →
        locIndex data kids l' + 1 = locIndex data kids l ∧ locValid data kids l' = true) ∧
    (prevLoc data kids l = none ↔ locIndex data kids l = 0) := by
  exact prev_index data kids l hv

/-- following and preceding sibling are inverse to each other -/
theorem c05_next_prev_inverse (data : Chain) (kids : List (El × Chain)) (l l' : Loc)
    (hv : locValid data kids l = true) (hv' : locValid data kids l' = true) :
    nextLoc data kids l = some l' ↔ prevLoc data kids l' = some l := by
  exact next_prev_inverse data kids l l' hv hv'

/-- the explicit-stack loop of `iterate_descendants` yields the depth-first pre-order of the
    children relation -/
theorem c05_descendants_preorder (t : PTree) : descendants t = preorderList t.kids := by
  exact descendants_eq t

/-- ancestors are the parent chain and depth is its length -/
theorem c05_ancestors_depth (root : PTree) (path : List Nat) (n : PTree) (h : getAtP root path = some n) :
    depth root path = path.length ∧
    ∀ k, k < path.length → (ancestors root path)[path.length - 1 - k]? = getAtP root (path.take k) := by
  exact ancestors_depth root path n h

/-- for every node: the nodes before it (reverse of `iterate_preceding`), the node itself and the
    nodes after it (`iterate_following`) are the document order of the whole tree -/
theorem c05_partition (root : PTree) (path : List Nat) (n : PTree) (h : getAtP root path = some n) :
    (preceding root path).reverse ++ n :: following root path = preorder root := by
  exact partition root path n h

/-- `last_descendant` is the last node of the subtree in document order -/
theorem c05_last_descendant (t : PTree) :
    lastDescendant (size t + 1) t = (preorderList t.kids).getLast? := by
  exact lastDescendant_spec _ t (Nat.le_succ _)

/-- `full_text` is the concatenation of the descendant text in document order -/
theorem c05_full_text (t : PTree) : fullText t = (preorder t).flatMap textContent := by
  exact fullText_eq t

/-- the traversers enumerate the same node set: depth-first top-down is the document order, the
    other two are rearrangements of it -/
theorem c05_traversers (t : PTree) :
    traverseDF t = preorder t ∧ (traverseBF t).Perm (preorder t) ∧ (postorder t).Perm (preorder t) := by
  refine ⟨?_, traverseBF_perm t, postorder_perm t⟩
  rw [traverseDF, descendants_eq, preorder_eq]

/-- non-vacuity -/
example : childLocs [⟨1, "a".toList⟩, ⟨2, "b".toList⟩] [(.comment 3 [], [⟨4, "c".toList⟩]), (.pi 5 "t" [], [])]
    = [.inData 0, .inData 1, .elem 0, .inTail 0 0, .elem 1] := by rfl

/-! ## filters: an iterator with filters yields the unfiltered sequence restricted to matching nodes

`p` is the conjunction of all filters an iterator consults (see `Model/NavFilter.lean` for which
ones each method consults); helper lemmas are in `DelbModel/Lemmas/NavFilter.lean`. -/

/-- `iterate_children(*filter)` yields the matching children in order; `first_child`, `last_child`,
    `len`, indexed access (from the front and, with a negative index, from the back; `none` is the
    `IndexError`) and `index` are head, last, length, element and position of that restricted list.
    A node that does not pass has no index (the loop of `NodeBase.index` runs into `InvalidCodePath`);
    the index of a node that passes is the number of passing siblings before it, and indexed access
    with it gives the node back. -/
theorem c05_filtered_children (p : PTree → Bool) (t : PTree) :
    childrenF p t = t.kids.filter p ∧
    firstChildF p t = (t.kids.filter p).head? ∧
    lastChildF p t = (t.kids.filter p).getLast? ∧
    lenF p t = (t.kids.filter p).length ∧
    (∀ i : Nat, getItemF p t (i : Int) = (t.kids.filter p)[i]?) ∧
    (∀ k : Nat, getItemF p t (-((k + 1 : Nat) : Int)) =
        if k < (t.kids.filter p).length then (t.kids.filter p)[(t.kids.filter p).length - 1 - k]? else none) ∧
    (∀ (i : Nat) (n : PTree), t.kids[i]? = some n →
        indexInF p t i = (if p n then some ((t.kids.take i).filter p).length else none) ∧
        (p n = true → getItemF p t (((t.kids.take i).filter p).length : Nat) = some n)) := by
  have hc : childrenF p t = t.kids.filter p := childrenLoopF_eq p t.kids
  have hlen : lenF p t = (t.kids.filter p).length := by
    unfold lenF; rw [hc, foldl_enum_len]
    cases t.kids.filter p <;> simp
  have hget : ∀ i : Nat, getItemF p t (i : Int) = (t.kids.filter p)[i]? := by
    intro i
    unfold getItemF
    rw [hc, if_neg (by omega), getLoop_eq]
    simp
  refine ⟨hc, ?_, ?_, hlen, hget, ?_, ?_⟩
  · unfold firstChildF; rw [hc]; cases t.kids.filter p <;> rfl
  · unfold lastChildF; rw [hc, foldl_last]; cases (t.kids.filter p).getLast? <;> rfl
  · intro k
    unfold getItemF
    rw [hc, hlen, if_pos (by omega), getLoop_eq]
    by_cases hk : k < (t.kids.filter p).length
    · rw [if_pos hk, if_pos (by omega)]
      congr 1; omega
    · rw [if_neg hk, if_neg (by omega)]
  · intro i n hn
    refine ⟨?_, ?_⟩
    · unfold indexInF
      rw [indexLoop_eq]
      simp [hn]
    · intro hp
      rw [hget]
      exact filter_getElem?_index p t.kids i n hn hp

/-- `index` of the node at a path: the number of its passing preceding siblings -/
theorem c05_filtered_index (p : PTree → Bool) (root : PTree) (par : List Nat) (i : Nat) (parent n : PTree)
    (hpar : getAtP root par = some parent) (hn : parent.kids[i]? = some n) :
    indexF p root (par ++ [i]) =
      if p n then some ((precedingSiblings root (par ++ [i])).filter p).length else none := by
  have h := ((c05_filtered_children p parent).2.2.2.2.2.2 i n hn).1
  rw [precedingSiblings_snoc root par i parent hpar]
  simp only [indexF, splitLast_snoc, hpar, h, List.filter_reverse, List.length_reverse]

/-- `iterate_following_siblings(*filter)` yields the matching following siblings;
    `fetch_following_sibling(*filter)` is the first of them -/
theorem c05_filtered_following_siblings (p : PTree → Bool) (root : PTree) (path : List Nat) :
    followingSiblingsF p root path = (followingSiblings root path).filter p ∧
    fetchFollowingSiblingF p root path = ((followingSiblings root path).filter p).head? ∧
    fetchFollowingSiblingF p root path = (followingSiblings root path).find? p := by
  refine ⟨iterateFollowingSiblingsLoop_eq p _ _ (Nat.lt_succ_self _), ?_, ?_⟩
  · rw [List.head?_filter]; exact fetchFollowingSiblingLoop_find p _
  · exact fetchFollowingSiblingLoop_find p _

/-- `iterate_preceding_siblings(*filter)` yields the matching preceding siblings (nearest first);
    the recursive `fetch_preceding_sibling(*filter)` is the first of them -/
theorem c05_filtered_preceding_siblings (p : PTree → Bool) (root : PTree) (path : List Nat) :
    precedingSiblingsF p root path = (precedingSiblings root path).filter p ∧
    fetchPrecedingSiblingF p root path = ((precedingSiblings root path).filter p).head? ∧
    fetchPrecedingSiblingF p root path = (precedingSiblings root path).find? p := by
  have h : fetchPrecedingSiblingF p root path = (precedingSiblings root path).find? p := by
    unfold fetchPrecedingSiblingF
    rw [fetchPrecedingSiblingRec_eq]; exact fetchFollowingSiblingLoop_find p _
  refine ⟨iteratePrecedingSiblingsLoop_eq p _ _ (Nat.lt_succ_self _), ?_, h⟩
  rw [List.head?_filter]; exact h

/-- the sibling pointers the loops pass on are the right ones: what `fetch_following_sibling` /
    `fetch_preceding_sibling` return for the child at index `i` is a sibling at a larger / smaller
    index `k`, together with the following / preceding siblings of *that* node, from which the next
    round of `iterate_*_siblings` continues -/
theorem c05_filtered_sibling_pointer (p : PTree → Bool) (root : PTree) (par : List Nat) (i : Nat)
    (parent n : PTree) (l' : List PTree) (hpar : getAtP root par = some parent) :
    (fetchFollowingSiblingLoop p (followingSiblings root (par ++ [i])) = some (n, l') →
      ∃ k, i < k ∧ getAtP root (par ++ [k]) = some n ∧ l' = followingSiblings root (par ++ [k])) ∧
    (fetchPrecedingSiblingRec p (precedingSiblings root (par ++ [i])) = some (n, l') →
      ∃ k, k < i ∧ getAtP root (par ++ [k]) = some n ∧ l' = precedingSiblings root (par ++ [k])) := by
  have hget : ∀ k, parent.kids[k]? = some n → getAtP root (par ++ [k]) = some n := by
    intro k hk
    rw [getAtP_snoc root par k parent hpar, hk]
  constructor
  · intro h
    rw [followingSiblings_snoc root par i parent hpar] at h
    obtain ⟨k, hk, hkn, hl⟩ := fetchFollowingSibling_pointer p parent.kids i n l' h
    exact ⟨k, hk, hget k hkn, by rw [followingSiblings_snoc root par k parent hpar]; exact hl⟩
  · intro h
    rw [precedingSiblings_snoc root par i parent hpar] at h
    obtain ⟨k, hk, hkn, hl⟩ := fetchPrecedingSibling_pointer p parent.kids i n l' h
    exact ⟨k, hk, hget k hkn, by rw [precedingSiblings_snoc root par k parent hpar]; exact hl⟩

/-- `iterate_descendants(*filter)` yields the matching descendants in document order; the subtree
    of a tag node that does not pass is searched all the same -/
theorem c05_filtered_descendants (p : PTree → Bool) (t : PTree) :
    descendantsF p t = (descendants t).filter p ∧
    descendantsF p t = (preorderList t.kids).filter p := by
  have h : descendantsF p t = (descendants t).filter p := descLoopF_eq p _ _ _
  exact ⟨h, by rw [h, descendants_eq]⟩

/-- `iterate_ancestors(*filter)` yields the ancestors that match the given filters, bottom to top
    (the default filters are not consulted by this method) -/
theorem c05_filtered_ancestors (p : PTree → Bool) (root : PTree) (path : List Nat) :
    ancestorsF p root path = (ancestors root path).filter p := by
  exact ancestorsRecF_eq p root path path.length

/-- `iterate_following(*filter)` yields the matching nodes of the following axis in document order;
    `fetch_following(*filter)` is the first of them -/
theorem c05_filtered_following (p : PTree → Bool) (root : PTree) (path : List Nat) :
    followingF p root path = (following root path).filter p ∧
    fetchFollowingF p root path = (following root path).find? p := by
  have h : followingF p root path = (following root path).filter p := yieldIf_eq p _
  exact ⟨h, by rw [fetchFollowingF, nextOf_eq, h, List.head?_filter]⟩

/-- `iterate_preceding(*filter)` yields the matching nodes of the preceding axis in reverse document
    order; `fetch_preceding(*filter)` is the first of them -/
theorem c05_filtered_preceding (p : PTree → Bool) (root : PTree) (path : List Nat) :
    precedingF p root path = (preceding root path).filter p ∧
    fetchPrecedingF p root path = (preceding root path).find? p := by
  have h : precedingF p root path = (preceding root path).filter p := yieldIf_eq p _
  exact ⟨h, by rw [fetchPrecedingF, nextOf_eq, h, List.head?_filter]⟩

/-- with filters, the nodes before a node, the node and the nodes after it are the matching part of
    the document order (for a node that passes itself) -/
theorem c05_filtered_partition (p : PTree → Bool) (root : PTree) (path : List Nat) (n : PTree)
    (h : getAtP root path = some n) (hp : p n = true) :
    (precedingF p root path).reverse ++ n :: followingF p root path = (preorder root).filter p := by
  rw [(c05_filtered_preceding p root path).1, (c05_filtered_following p root path).1,
    ← c05_partition root path n h]
  simp [List.filter_append, List.filter_reverse, hp]

section Examples

/-- `<r><a>1<!--c--></a>2<b><c>3</c></b><?t?></r>` -/
private def exTree : PTree :=
  .tag 0 "" "r" [] [
    .tag 1 "" "a" [] [.text 2 "1".toList, .comment 3 "c".toList],
    .text 4 "2".toList,
    .tag 5 "" "b" [] [.tag 6 "" "c" [] [.text 7 "3".toList]],
    .pi 8 "t" []]

/-- `is_text_node`: hides every tag node, also those with text below them -/
private def isTextP : PTree → Bool
  | .text .. => true
  | _ => false

/-- the default filters of delb: no comments, no processing instructions -/
private def noCommentPI : PTree → Bool
  | .comment .. => false
  | .pi .. => false
  | _ => true

/-- hidden tag nodes are descended into: the text nodes below `a`, `b` and `c` are found -/
example : (descendantsF isTextP exTree).map PTree.id = [2, 4, 7] := by rfl
example : (descendantsF noCommentPI exTree).map PTree.id = [1, 2, 4, 5, 6, 7] := by rfl
example : (childrenF isTextP exTree).map PTree.id = [4] := by rfl
example : (firstChildF isTextP exTree).map PTree.id = some 4 ∧ lenF isTextP exTree = 1 := by
  constructor <;> rfl
example : (getItemF noCommentPI exTree (-1)).map PTree.id = some 5 ∧
    (getItemF noCommentPI exTree 3).map PTree.id = none := by constructor <;> rfl
/-- the index of `b` counts the passing siblings only; the hidden PI has no index -/
example : indexF PTree.isTag exTree [2] = some 1 ∧ indexF noCommentPI exTree [3] = none := by
  constructor <;> rfl
example : (followingSiblingsF PTree.isTag exTree [0]).map PTree.id = [5] ∧
    (fetchPrecedingSiblingF PTree.isTag exTree [3]).map PTree.id = some 5 ∧
    (precedingSiblingsF isTextP exTree [3]).map PTree.id = [4] := by
  refine ⟨?_, ?_, ?_⟩ <;> rfl
/-- following / preceding of the text `2`: the text below the hidden `b` and `c` is reached -/
example : (followingF isTextP exTree [1]).map PTree.id = [7] ∧
    (precedingF isTextP exTree [1]).map PTree.id = [2] ∧
    (ancestorsF (fun t => t.id != 5) exTree [2, 0, 0]).map PTree.id = [6, 0] := by
  refine ⟨?_, ?_, ?_⟩ <;> rfl
/-- `last_descendant` does not restrict the unfiltered answer: under `is_text_node` it stops at the
    text `2` because it never enters the hidden `b`, while the last matching descendant is `3` -/
example : (lastDescendantF isTextP 10 exTree).map PTree.id = some 4 ∧
    ((descendantsF isTextP exTree).getLast?).map PTree.id = some 7 := by
  constructor <;> rfl

end Examples

end Delb.Nav

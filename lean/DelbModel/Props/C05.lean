import DelbModel.Model.Nav
import DelbModel.Lemmas.Nav
/-!
# C05 — All navigation relations describe one and the same ordered tree

Property theorems only; helper lemmas are in `DelbModel/Lemmas/Nav.lean`.
-/
namespace Delb.Nav
open Delb.Edit

/-- `iterate_children` as the code walks the encoding (start node, then `_fetch_following_sibling`
    through DATA / TAIL / APPENDED text nodes and element wrappers) yields exactly the visible child
    list, each child once, in order — hence `len`, indexed access, `index`, first and last child agree -/
theorem c05_children_walk (i : Nat) (ns n : String) (a : List Attr) (data : Chain) (kids : List (El × Chain)) :
    (childLocs data kids).filterMap (locNode data kids) = (abs (.tag i ns n a data kids)).kids ∧
    (childLocs data kids).map (locIndex data kids) = List.range (visLen data kids) := by
  simpa [PTree.kids] using children_walk data kids

/-- the child reached at index `i` of the visible list is the one `locate` resolves -/
theorem c05_locate_index (data : Chain) (kids : List (El × Chain)) (i : Nat) (l : Loc)
    (h : locate data kids i = some l) : locIndex data kids l = i ∧ locValid data kids l = true := by
  exact locate_index data kids i l h

/-- following sibling moves one index to the right and ends exactly at the last child -/
theorem c05_next_index (data : Chain) (kids : List (El × Chain)) (l : Loc) (hv : locValid data kids l = true) :
    (∀ l', nextLoc data kids l = some l' →
        locIndex data kids l' = locIndex data kids l + 1 ∧ locValid data kids l' = true) ∧
    (nextLoc data kids l = none ↔ locIndex data kids l + 1 = visLen data kids) := by
  exact next_index data kids l hv

/-- preceding sibling moves one index to the left and ends exactly at the first child -/
theorem c05_prev_index (data : Chain) (kids : List (El × Chain)) (l : Loc) (hv : locValid data kids l = true) :
    (∀ l', prevLoc data kids l = some l' →
        locIndex data kids l' + 1 = locIndex data kids l ∧ locValid data kids l' = true) ∧
    (prevLoc data kids l = none ↔ locIndex data kids l = 0) := by
  exact prev_index data kids l hv

/-- following and preceding sibling are inverse to each other -/
theorem c05_next_prev_inverse (data : Chain) (kids : List (El × Chain)) (l l' : Loc)
    (hv : locValid data kids l = true) (hv' : locValid data kids l' = true) :
    nextLoc data kids l = some l' ↔ prevLoc data kids l' = some l := by
  exact next_prev_inverse data kids l l' hv hv'

/-- the explicit-stack loop of `iterate_descendants` yields the depth-first pre-order of the
    children relation -/
theorem c05_descendants_preorder (t : PTree) : descendants t = preorderList t.kids := by
  exact descendants_eq t

/-- ancestors are the parent chain and depth is its length -/
theorem c05_ancestors_depth (root : PTree) (path : List Nat) (n : PTree) (h : getAtP root path = some n) :
    depth root path = path.length ∧
    ∀ k, k < path.length → (ancestors root path)[path.length - 1 - k]? = getAtP root (path.take k) := by
  exact ancestors_depth root path n h

/-- for every node: the nodes before it (reverse of `iterate_preceding`), the node itself and the
    nodes after it (`iterate_following`) are the document order of the whole tree -/
theorem c05_partition (root : PTree) (path : List Nat) (n : PTree) (h : getAtP root path = some n) :
    (preceding root path).reverse ++ n :: following root path = preorder root := by
  exact partition root path n h

/-- `last_descendant` is the last node of the subtree in document order -/
theorem c05_last_descendant (t : PTree) :
    lastDescendant (size t + 1) t = (preorderList t.kids).getLast? := by
  exact lastDescendant_spec _ t (Nat.le_succ _)

/-- `full_text` is the concatenation of the descendant text in document order -/
theorem c05_full_text (t : PTree) : fullText t = (preorder t).flatMap textContent := by
  exact fullText_eq t

/-- the traversers enumerate the same node set: depth-first top-down is the document order, the
    other two are rearrangements of it -/
theorem c05_traversers (t : PTree) :
    traverseDF t = preorder t ∧ (traverseBF t).Perm (preorder t) ∧ (postorder t).Perm (preorder t) := by
  refine ⟨?_, traverseBF_perm t, postorder_perm t⟩
  rw [traverseDF, descendants_eq, preorder_eq]

/-- non-vacuity -/
example : childLocs [⟨1, "a".toList⟩, ⟨2, "b".toList⟩] [(.comment 3 [], [⟨4, "c".toList⟩]), (.pi 5 "t" [], [])]
    = [.inData 0, .inData 1, .elem 0, .inTail 0 0, .elem 1] := by rfl

end Delb.Nav

import DelbModel.Model.Edit
import DelbModel.Lemmas.Edit
/-!
# C01 — Tree edits behave like edits on a plain ordered tree

Property theorems only; helper lemmas are in `DelbModel/Lemmas/Edit.lean`.
Mechanism = the slot/chain encoding (`El`, `stepC`); specification = plain ordered trees with
node identities (`PTree`, `stepA`); `abs` / `absState` is the abstraction map.
-/
namespace Delb.Edit

/-- every single-node edit on the child list of a tag — `_add_following_sibling`,
    `_add_preceding_sibling` (every DATA / TAIL / APPENDED case, element or text offered),
    `__add_first_child`, content assignment — is the corresponding list splice -/
theorem c01_child_op (op : ChildOp) (e e' : El) (h : applyChildOp op e = .ok e') :
    applyChildOpP op (abs e) = .ok (abs e') := by
  exact applyChildOp_abs op e e' h

/-- … and it is rejected by the mechanism exactly when the splice is undefined -/
theorem c01_child_op_error (op : ChildOp) (e : El) (err : EditErr) (h : applyChildOp op e = .error err) :
    ∃ err', applyChildOpP op (abs e) = .error err' := by
  exact applyChildOp_error op e err h

/-- `detach()`: the node comes off with its own subtree and without the text that followed it;
    all other children keep their order -/
theorem c01_detach_child (i : Nat) (e e' : El) (off : Offered) (h : detachChild i e = .ok (e', off)) :
    detachChildP i (abs e) = .ok (abs e', absOffered off) := by
  exact detachChild_abs i e e' off h

/-- `merge_text_nodes` concatenates every run of adjacent text nodes into its first node -/
theorem c01_merge (e : El) : abs (mergeEl e) = mergeP (abs e) := by
  exact abs_mergeEl e

/-- a deep clone is the same tree with fresh identities -/
theorem c01_clone (n : Nat) (e : El) :
    abs (cloneEl n e).1 = (cloneP n (abs e)).1 ∧ (cloneEl n e).2 = (cloneP n (abs e)).2 := by
  rw [cloneEl_abs e n]; exact ⟨rfl, rfl⟩

/-- refinement: every mechanism step is the specification step on the abstracted state -/
theorem c01_step (s s' : StateC) (p : Prim) (h : stepC s p = .ok s') :
    stepA (absState s) p = .ok (absState s') := by
  exact step_abs s s' p h

theorem c01_step_error (s : StateC) (p : Prim) (err : EditErr) (h : stepC s p = .error err) :
    ∃ err', stepA (absState s) p = .error err' := by
  exact step_error s p err h

/-- … hence after any history of edits the real encoding still abstracts to what the same
    history does to a plain ordered tree (no bound on length, depth or chain lengths) -/
theorem c01_history (s s' : StateC) (ops : List Prim) (h : runC s ops = .ok s') :
    runA (absState s) ops = .ok (absState s') := by
  induction ops generalizing s with
  | nil =>
    simp only [runC, Except.ok.injEq] at h
    subst h
    rfl
  | cons p ps ih =>
    simp only [runC] at h
    split at h
    · rename_i s1 hs1
      simp only [runA, c01_step s s1 p hs1]
      exact ih s1 h
    · cases h

mutual
  /-- all text nodes (identity and content) of a tree, in document order -/
  def textsOf : PTree → List (Nat × Str)
    | .tag _ _ _ _ ks => textsOfList ks
    | .text i s => [(i, s)]
    | _ => []
  def textsOfList : List PTree → List (Nat × Str)
    | [] => []
    | k :: ks => textsOf k ++ textsOfList ks
end

def allTexts (s : StateA) : List (Nat × Str) :=
  s.groups.flatMap (fun g => match g with | some t => textsOf t | none => [])

/-- moving nodes around loses, duplicates and alters no text: sibling insertion of an existing
    group, first-child insertion of an existing group and detaching only permute the text nodes
    of the forest -/
theorem c01_no_text_lost (s s' : StateA) (p : Prim) (h : stepA s p = .ok s')
    (hp : (∃ a g, p = .addFollowing a (.group g)) ∨ (∃ a g, p = .addPreceding a (.group g)) ∨
          (∃ a g, p = .addFirst a (.group g)) ∨ (∃ a, p = .detach a)) :
    (allTexts s').Perm (allTexts s) := by
  exact forest_no_text_lost textsOf textsOfList (fun _ _ _ _ _ => by rw [textsOf]) (by rw [textsOfList])
    (fun _ _ => by rw [textsOfList]) s s' p h hp

/-- non-vacuity: a three-node chain on a tail slot, an element inserted after its middle node -/
example :
    (applyChildOp (.addFollowing 2 (.el (.tag 9 "" "e" [] [] [])))
      (.tag 0 "" "r" [] [] [(.tag 1 "" "a" [] [] [], [⟨2, "t".toList⟩, ⟨3, "u".toList⟩, ⟨4, "v".toList⟩])])).toOption.map abs
    = some (.tag 0 "" "r" [] [.tag 1 "" "a" [] [], .text 2 "t".toList, .text 3 "u".toList,
                              .tag 9 "" "e" [] [], .text 4 "v".toList]) := by rfl

end Delb.Edit

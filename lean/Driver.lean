import DelbDriver.Util
import DelbDriver.Wrap
import DelbDriver.Whitespace
import DelbDriver.XPath
import DelbDriver.Compare
import DelbDriver.Serialize
import DelbDriver.Pretty
import DelbDriver.Edit
import DelbDriver.Nav
import DelbDriver.Guards
import DelbDriver.Clone
import DelbDriver.XPathEval
import DelbDriver.Attrs
import DelbDriver.Document
import DelbDriver.Gc
import DelbDriver.Wrapping
import DelbDriver.Codec
import DelbDriver.Scan
open Lean DelbDriver

def dispatch (j : Json) : Except String Json := do
  let cmd ← str j "cmd"
  match cmd with
  | "wrap" => handleWrap j
  | "reduce" => handleReduce j
  | "parse" => handleParse j
  | "compare" => handleCompare j
  | "serialize" => handleSerialize j
  | "pretty" => handlePretty j
  | "edits" => handleEdits j
  | "nav" => handleNav j
  | "nav_filtered" => handleNavFiltered j
  | "guard" => handleGuard j
  | "clone" => handleClone j
  | "xpath" => handleXPath j
  | "locpath" => handleLocPath j
  | "foc" => handleFoc j
  | "attrs" => handleAttrs j
  | "doc" => handleDoc j
  | "gc" => handleGc j
  | "wrapser" => handleWrapser j
  | "dropkinds" => handleDropKinds j
  | "tokenize" => handleTokenize j
  | "reduce_content" => handleReduceContent j
  | "encode" => handleEncode j
  | "decode" => handleDecode j
  | "scan" => handleScan j
  | _ => throw s!"unknown cmd {cmd}"

partial def loop (h : IO.FS.Stream) (out : IO.FS.Stream) : IO Unit := do
  let line ← h.getLine
  if line.isEmpty then return ()
  let res := match Json.parse line with
    | .error e => Json.mkObj [("driver_error", Json.str e)]
    | .ok j => match dispatch j with
      | .ok r => r
      | .error e => Json.mkObj [("driver_error", Json.str e)]
  out.putStrLn res.compress
  loop h out

def main : IO Unit := do
  loop (← IO.getStdin) (← IO.getStdout)

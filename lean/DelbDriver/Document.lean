import DelbDriver.Tree
import DelbModel.Model.Document
open Lean Delb Delb.Doc

namespace DelbDriver

/-- {"cmd":"doc","formatted":b,"encoding":s,"prologue":[node],"epilogue":[node],"root":s}
    → the text `Document.__serialize` writes, and what the reading side recovers from the pieces -/
def handleDoc (j : Json) : Except String Json := do
  let formatted ← bool j "formatted"
  let enc ← str j "encoding"
  let pro ← (← arr j "prologue").toList.mapM nodeOfJson
  let epi ← (← arr j "epilogue").toList.mapM nodeOfJson
  let rootStr ← chars j "root"
  let d : Document := { prologue := pro, root := .text [], epilogue := epi }
  let ps := docPieces formatted enc d rootStr
  let back := match readDoc ps with
    | none => Json.null
    | some (e, p, r, q) => Json.mkObj [("encoding", Json.str e), ("prologue", Json.arr (p.map nodeToJson).toArray),
        ("root", jstr r), ("epilogue", Json.arr (q.map nodeToJson).toArray)]
  return Json.mkObj [("text", jstr (renderDoc ps)), ("read", back)]

/-- {"cmd":"dropkinds","comments":b,"pis":b,"tree":node,"prologue":[…],"epilogue":[…]} -/
def handleDropKinds (j : Json) : Except String Json := do
  let c ← bool j "comments"
  let p ← bool j "pis"
  let t ← node j "tree"
  let pro ← (← arr j "prologue").toList.mapM nodeOfJson
  let epi ← (← arr j "epilogue").toList.mapM nodeOfJson
  return Json.mkObj [("tree", nodeToJson (dropKinds c p t)),
    ("prologue", Json.arr ((dropKindsList c p pro).map nodeToJson).toArray),
    ("epilogue", Json.arr ((dropKindsList c p epi).map nodeToJson).toArray)]

end DelbDriver

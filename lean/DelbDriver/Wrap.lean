import DelbDriver.Util
import DelbModel.Model.Wrap
open Lean DelbDriver Delb.Wrap

namespace DelbDriver

/-- split at single spaces (the harness only sends words joined by single spaces) -/
def splitWords (t : List Char) : List (List Char) :=
  let rec go (cur : List Char) : List Char → List (List Char)
    | [] => [cur.reverse]
    | c :: cs => if c = ' ' then cur.reverse :: go [] cs else go (c :: cur) cs
  if t = [] then [] else go [] t

def handleWrap (j : Json) : Except String Json := do
  let w ← nat j "w"
  let t ← chars j "text"
  let indent ← chars j "indent"
  let depth ← nat j "depth"
  return Json.mkObj [
    ("lines", jstrs (textLines w indent depth t)),
    ("wrap", jstrs (wrapText w t)),
    ("greedy", jstrs (greedyFill w (splitWords t)))]

end DelbDriver

import DelbDriver.Edit
import DelbModel.Model.Guards
open Lean Delb Delb.Edit Delb.Guards

namespace DelbDriver

def rejName : Option Rejection → Json
  | none => Json.null
  | some .invalidOperation => "InvalidOperation"
  | some .typeError => "TypeError"
  | some .indexError => "IndexError"
  | some .valueError => "ValueError"
  | some .attributeError => "AttributeError"

def freshInfo (k : Kind) : NodeInfo :=
  { kind := k, hasParent := false, hasNext := false, hasPrev := false, isDocRoot := false, nkids := 0 }

/-- {"cmd":"guard","groups":[ptree…],"doc_root":id|null,"call":{…}} -/
def handleGuard (j : Json) : Except String Json := do
  let groups ← (← arr j "groups").toList.mapM ptreeOfJson
  let s : StateA := { groups := groups.map some, nextId := 0 }
  let docRootId := (j.getObjVal? "doc_root").toOption.bind (·.getNat?.toOption)
  let docRoot := docRootId.bind (fun i => (findId s i).map (·.g))
  let c ← j.getObjVal? "call"
  let op ← str c "op"
  if op == "comment_content" then return Json.mkObj [("reject", if commentContentOk (← chars c "s") then Json.null else "ValueError")]
  if op == "pi_target" then return Json.mkObj [("reject", if piTargetOk (← chars c "s") then Json.null else "ValueError")]
  let some ta := findId s (← nat c "target") | throw "unknown target"
  let some target := infoAt s docRoot ta | throw "no info"
  let offered : Except String NodeInfo :=
    match c.getObjVal? "offered" with
    | .ok (.str "text") => pure (freshInfo .text)
    | .ok (.str "tag") => pure (freshInfo .tag)
    | .ok v => do
      let id ← v.getNat?
      let some a := findId s id | throw "unknown offered"
      let some i := infoAt s docRoot a | throw "no info"
      pure i
    | .error e => throw e
  let idx : Except String Int := do (← c.getObjVal? "index").getInt?
  let r ← match op with
    | "add_following" | "add_preceding" => do
      let isDef := match c.getObjVal? "offered" with | .ok (.str "tag") => true | _ => false
      pure (addSiblingGuard target (← offered) isDef)
    | "append" => do pure (addChildGuard (← offered))
    | "insert" => do pure (insertGuard target (← offered) (← idx))
    | "detach" => pure (detachGuard target ((bool c "retain").toOption.getD false))
    | "replace" => do pure (replaceGuard target (← offered))
    | "setitem" => do pure (setItemGuard target (← offered) (← idx))
    | "delitem" => do pure (delItemGuard target (← idx))
    | o => throw s!"unknown guard op {o}"
  return Json.mkObj [("reject", rejName r)]

end DelbDriver

import DelbDriver.Util
import DelbModel.Model.XPath.Parser
open Lean Delb Delb.XPath

namespace DelbDriver

def realAxes : List String :=
  ["ancestor", "ancestor_or_self", "child", "descendant", "descendant_or_self", "following",
   "following_sibling", "parent", "preceding", "preceding_sibling", "self"]

def jopt : Option Str → Json
  | none => Json.null
  | some s => jstr s

partial def exprToJson : Expr → Json
  | .num n => Json.arr #[Json.str "num", jnat n]
  | .str s => Json.arr #[Json.str "str", jstr s]
  | .hasAttr p n => Json.arr #[Json.str "has", jopt p, jstr n]
  | .attrVal p n => Json.arr #[Json.str "val", jopt p, jstr n]
  | .func n args => Json.arr #[Json.str "func", jstr n, Json.arr (args.map exprToJson).toArray]
  | .binop op l r => Json.arr #[Json.str "op", Json.str op, exprToJson l, exprToJson r]

def testToJson : NodeTest → Json
  | .anyName p => Json.arr #[Json.str "any", jopt p]
  | .name p l => Json.arr #[Json.str "name", jopt p, jstr l]
  | .type t => Json.arr #[Json.str "type", Json.str t]
  | .pi t => Json.arr #[Json.str "pi", jstr t]

def stepToJson (s : Step) : Json :=
  Json.mkObj [("axis", Json.str (if realAxes.contains s.axis then s.axis else "weird")),
              ("test", testToJson s.test), ("preds", Json.arr (s.preds.map exprToJson).toArray)]

def pathToJson (p : Path) : Json :=
  Json.mkObj [("abs", Json.bool p.absolute), ("steps", Json.arr (p.steps.map stepToJson).toArray)]

def errToJson (expr : Str) : Err → Json
  | .parsing (some p) msg => Json.mkObj [("err", "parsing"), ("pos", jnat p), ("msg", Json.str msg),
                                          ("rendered", Json.str (renderError expr p msg))]
  | .parsing none msg => Json.mkObj [("err", "parsing"), ("pos", Json.null), ("msg", Json.str msg)]
  | .unsupported p msg => Json.mkObj [("err", "unsupported"), ("pos", jnat p), ("msg", Json.str msg)]
  | .pyError k site => Json.mkObj [("err", "py"), ("kind", Json.str k), ("site", Json.str site)]
  | .outOfFuel => Json.mkObj [("err", "fuel")]

def handleParse (j : Json) : Except String Json := do
  let s ← chars j "s"
  match parse s with
  | .ok paths => return Json.mkObj [("ok", Json.arr (paths.map pathToJson).toArray)]
  | .error e => return errToJson s e

def handleTokenize (j : Json) : Except String Json := do
  let s ← chars j "s"
  match tokenize s with
  | .ok ts => return Json.mkObj [("ok", Json.arr (ts.map fun t =>
      Json.arr #[jnat t.pos, jstr t.str, Json.str t.type.name]).toArray)]
  | .error e => return errToJson s e

end DelbDriver

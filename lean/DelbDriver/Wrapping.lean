import DelbDriver.Serialize
import DelbModel.Model.Wrapping
open Lean Delb Delb.Ser Delb.Pretty Delb.Wrapping

namespace DelbDriver

/-- {"cmd":"wrapser","tree":…,"decls":…,"orders":…,"indent":"  ","align":false,"width":20} -/
def handleWrapser (j : Json) : Except String Json := do
  let t ← node j "tree"
  let decls ← declsOfJson (← j.getObjVal? "decls")
  let o : Opts := { indent := ← chars j "indent", align := ← bool j "align" }
  let width ← nat j "width"
  match normalizeDecls decls with
  | .error e => return Json.mkObj [("nsmap_err", Json.str e)]
  | .ok nsmap =>
    let orders ← match j.getObjVal? "orders" with
      | .ok .null => pure (defaultOrders t)
      | .ok o => ordersOfJson o
      | .error _ => pure (defaultOrders t)
    if !ordersValid t orders then
      return Json.mkObj [("driver_error", Json.str "orders are not permutations of the nodes' namespace sets")]
    match serializeWrapped o width nsmap t orders with
    | .error e => return Json.mkObj [("result", serErrToJson e)]
    | .ok ps =>
      let built := match build (eraseAll ps) with
        | some n => nodeToJson n
        | none => Json.null
      let reduced := match build (eraseAll ps) with
        | some n => nodeToJson (WS.reduceSpec pyWs n)
        | none => Json.null
      return Json.mkObj [("result", Json.mkObj [("out", jstr (renderP ps))]),
        ("built", built), ("rereduced", reduced),
        ("reduced_input", nodeToJson (WS.reduceSpec pyWs (normalize t)))]

end DelbDriver

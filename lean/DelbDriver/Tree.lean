import DelbDriver.Util
import DelbModel.Model.Tree
open Lean Delb

namespace DelbDriver

/-- JSON encoding of plain trees:
    `["t", ns, name, [[ns, name, value], …], [kids…]]`, `["x", s]`, `["c", s]`, `["p", target, s]` -/
partial def nodeOfJson (j : Json) : Except String Node := do
  let a ← j.getArr?
  let tag ← (a[0]?.getD Json.null).getStr?
  let s (i : Nat) : Except String String := (a[i]?.getD Json.null).getStr?
  match tag with
  | "x" => return .text (← s 1).toList
  | "c" => return .comment (← s 1).toList
  | "p" => return .pi (← s 1) (← s 2).toList
  | "t" =>
    let attrs ← (← (a[3]?.getD Json.null).getArr?).toList.mapM fun aj => do
      let aa ← aj.getArr?
      let g (i : Nat) : Except String String := (aa[i]?.getD Json.null).getStr?
      return ({ ns := ← g 0, name := ← g 1, value := (← g 2).toList } : Attr)
    let kids ← (← (a[4]?.getD Json.null).getArr?).toList.mapM nodeOfJson
    return .tag (← s 1) (← s 2) attrs kids
  | t => throw s!"bad node tag {t}"

partial def nodeToJson : Node → Json
  | .text s => Json.arr #[Json.str "x", jstr s]
  | .comment s => Json.arr #[Json.str "c", jstr s]
  | .pi t s => Json.arr #[Json.str "p", Json.str t, jstr s]
  | .tag ns name attrs kids =>
    Json.arr #[Json.str "t", Json.str ns, Json.str name,
      Json.arr (attrs.map fun a => Json.arr #[Json.str a.ns, Json.str a.name, jstr a.value]).toArray,
      Json.arr (kids.map nodeToJson).toArray]

def node (j : Json) (k : String) : Except String Node := do
  nodeOfJson (← j.getObjVal? k)

end DelbDriver

import DelbDriver.Tree
import DelbModel.Model.Edit
import DelbModel.Model.EditApi
open Lean Delb Delb.Edit

namespace DelbDriver

/-! id-labelled plain trees: `["t", id, ns, name, attrs, kids]`, `["x", id, s]`, `["c", id, s]`, `["p", id, target, s]` -/

partial def ptreeOfJson (j : Json) : Except String PTree := do
  let a ← j.getArr?
  let tag ← (a[0]?.getD Json.null).getStr?
  let id ← (a[1]?.getD Json.null).getNat?
  let s (i : Nat) : Except String String := (a[i]?.getD Json.null).getStr?
  match tag with
  | "x" => return .text id (← s 2).toList
  | "c" => return .comment id (← s 2).toList
  | "p" => return .pi id (← s 2) (← s 3).toList
  | "t" =>
    let attrs ← (← (a[4]?.getD Json.null).getArr?).toList.mapM fun aj => do
      let aa ← aj.getArr?
      let g (i : Nat) : Except String String := (aa[i]?.getD Json.null).getStr?
      return ({ ns := ← g 0, name := ← g 1, value := (← g 2).toList } : Attr)
    let kids ← (← (a[5]?.getD Json.null).getArr?).toList.mapM ptreeOfJson
    return .tag id (← s 2) (← s 3) attrs kids
  | t => throw s!"bad ptree tag {t}"

partial def ptreeToJson : PTree → Json
  | .text i s => Json.arr #[Json.str "x", jnat i, jstr s]
  | .comment i s => Json.arr #[Json.str "c", jnat i, jstr s]
  | .pi i t s => Json.arr #[Json.str "p", jnat i, Json.str t, jstr s]
  | .tag i ns name attrs kids =>
    Json.arr #[Json.str "t", jnat i, Json.str ns, Json.str name,
      Json.arr (attrs.map fun a => Json.arr #[Json.str a.ns, Json.str a.name, jstr a.value]).toArray,
      Json.arr (kids.map ptreeToJson).toArray]

/-- the (unique) encoding of a plain tree: text runs become the chains of the slots they sit in -/
partial def concretize : PTree → Option El
  | .comment i s => some (.comment i s)
  | .pi i t s => some (.pi i t s)
  | .text .. => none
  | .tag i ns n a ks =>
    let texts (l : List PTree) : Chain × List PTree :=
      let run := l.takeWhile PTree.isText
      (run.filterMap (fun t => match t with | .text i s => some ⟨i, s⟩ | _ => none), l.drop run.length)
    let (data, rest) := texts ks
    let rec go (l : List PTree) : Option (List (El × Chain)) :=
      match l with
      | [] => some []
      | k :: l' =>
        match concretize k with
        | none => none
        | some e =>
          let (tl, rest') := texts l'
          match go rest' with
          | some r => some ((e, tl) :: r)
          | none => none
    match go rest with
    | some kids => some (.tag i ns n a data kids)
    | none => none

partial def findInP (id : Nat) : PTree → Option (List Nat)
  | t => if t.id == id then some [] else
    let rec go (i : Nat) : List PTree → Option (List Nat)
      | [] => none
      | k :: ks => match findInP id k with
        | some p => some (i :: p)
        | none => go (i + 1) ks
    go 0 t.kids

def findId (s : StateA) (id : Nat) : Option Addr :=
  let rec go (g : Nat) : List (Option PTree) → Option Addr
    | [] => none
    | none :: rest => go (g + 1) rest
    | some t :: rest => match findInP id t with
      | some p => some { g := g, path := p }
      | none => go (g + 1) rest
  go 0 s.groups

/-- both sides in lock step -/
structure Both where
  c : StateC
  a : StateA

def Both.step (b : Both) (p : Prim) : Except String Both :=
  match stepC b.c p, stepA b.a p with
  | .ok c, .ok a => .ok { c := c, a := a }
  | .error e, .error e' => .error s!"{repr e}|{repr e'}"
  | .error e, .ok _ => .error s!"MODEL-SPLIT mechanism:{repr e} spec:ok"
  | .ok _, .error e => .error s!"MODEL-SPLIT mechanism:ok spec:{repr e}"

def Both.run (b : Both) : List Prim → Except String Both
  | [] => .ok b
  | p :: ps => match b.step p with
    | .ok b' => b'.run ps
    | .error e => .error e

/-- an item offered to an API call -/
inductive Item
  | str (s : Str)
  | node (id : Nat) (clone : Bool)
  | tagDef (name : String) (attrs : List Attr) (children : List Item)

partial def itemOfJson (j : Json) : Except String Item := do
  if let .ok s := j.getObjVal? "str" then return .str (← s.getStr?).toList
  if let .ok n := j.getObjVal? "node" then
    let c := (j.getObjVal? "clone").toOption.bind (·.getBool?.toOption) |>.getD false
    return .node (← n.getNat?) c
  let d ← j.getObjVal? "def"
  let a ← d.getArr?
  let name ← (a[0]?.getD Json.null).getStr?
  let attrs ← (← (a[1]?.getD Json.null).getArr?).toList.mapM fun aj => do
    let aa ← aj.getArr?
    let g (i : Nat) : Except String String := (aa[i]?.getD Json.null).getStr?
    return ({ ns := ← g 0, name := ← g 1, value := (← g 2).toList } : Attr)
  let kids ← (← (a[2]?.getD Json.null).getArr?).toList.mapM itemOfJson
  return .tagDef name attrs kids

def nsOf : PTree → String
  | .tag _ ns _ _ _ => ns
  | _ => ""

/-- `_prepare_new_relative`: turn an item into an offered parentless group; `ctxNs` is the namespace a
    tag definition inherits.  Returns the new state and the group index of the offered node. -/
partial def materialize (b : Both) (ctxNs : String) : Item → Except String (Both × Source)
  | .str s => .ok (b, .newText s)
  | .node id clone => do
    match findId b.a id with
    | none => .error "unknown node id"
    | some a =>
      if clone then
        let b' ← b.step (.cloneDeep a)
        .ok (b', .group (b'.a.groups.length - 1))
      else if a.path.isEmpty then .ok (b, .group a.g)
      else .error "InvalidOperation"   -- the node has a parent
  | .tagDef name attrs children => do
    let b1 ← b.step (.newTag ctxNs name attrs)
    let g := b1.a.groups.length - 1
    -- result.append_children(*children)
    let rec addAll (b : Both) (i : Nat) : List Item → Except String Both
      | [] => .ok b
      | it :: rest => do
        let (b', src) ← materialize b ctxNs it
        let b'' ← if i == 0 then b'.step (.addFirst { g := g, path := [] } src)
                  else b'.step (.addFollowing { g := g, path := [i - 1] } src)
        addAll b'' (i + 1) rest
    let b2 ← addAll b1 0 children
    .ok (b2, .group g)

/-- `_new_tag_node_from_definition`: a tag node is its own context, other nodes use their parent -/
def parentNs (b : Both) (a : Addr) : String :=
  match nodeAtA b.a a with
  | some (.tag _ ns _ _ _) => ns
  | _ =>
    match nodeAtA b.a { a with path := a.path.dropLast } with
    | some t => nsOf t
    | none => ""

/-- the lock-step pair as a machine for the composites of `DelbModel/Model/EditApi.lean`; the strings are
    the error texts of the protocol -/
def machBoth : Machine Both String :=
  { step := Both.step
    view := fun b => b.a
    fail := fun
      | .rootSibling => "InvalidOperation:root-sibling"
      | .indexError => "IndexError"
      | .unpack => "ValueError:unpack"
      | .retainWithoutParent => "InvalidOperation:retain-without-parent"
      | .replaceRoot => "InvalidOperation:replace-root" }

/-- `_prepare_new_relative` with the namespace context of the node the method is called on -/
def offerItem : Offer Both String Item := fun b ctx it => materialize b (parentNs b ctx) it

def applyOp (b : Both) (j : Json) : Except String Both := do
  let op ← str j "op"
  let target ← nat j "target"
  let some a := findId b.a target | throw "unknown target id"
  let items : Except String (List Item) := do
    (← arr j "items").toList.mapM itemOfJson
  -- every composite is the total definition of `DelbModel/Model/EditApi.lean`, run on the lock-step pair
  match op with
  | "add_following" => addFollowingAll machBoth offerItem (← items) b a
  | "add_preceding" => addPrecedingAll machBoth offerItem (← items) b a
  | "append" => appendChildren machBoth offerItem (← items) b a
  | "insert" =>
    let idx ← nat j "index"
    -- the index is checked before the items are looked at
    if idx > kidsCountA b.a a then throw "IndexError"
    insertChildren machBoth offerItem idx (← items) b a
  | "detach" =>
    let retain := (bool j "retain").toOption.getD false
    if !retain then b.step (.detach a)
    else detachRetain machBoth b a
  | "replace" => do
    if a.path.isEmpty then throw "InvalidOperation:replace-root"
    replaceWith machBoth offerItem (← items) b a
  | "delitem" => do
    let idx ← nat j "index"
    delItem machBoth idx b a
  | "set_content" => b.step (.setContent a (← chars j "s"))
  | "merge" => b.step (.merge a)
  | "new_tag" => throw "use create"
  | o => throw s!"unknown op {o}"

def dumpGroups (gs : List (Option PTree)) : Json :=
  Json.arr (gs.filterMap (fun g => g.map ptreeToJson)).toArray

/-- {"cmd":"edits","init":[ptree…],"next":n,"ops":[…]} → per op the dump of all groups (mechanism
    and spec side) or the error the op ends with (state unchanged) -/
def handleEdits (j : Json) : Except String Json := do
  let init ← (← arr j "init").toList.mapM ptreeOfJson
  let next ← nat j "next"
  let groupsC ← init.mapM fun t => match t with
    | .text i s => pure (some (GroupC.text ⟨i, s⟩))
    | t => match concretize t with
      | some e => pure (some (GroupC.el e))
      | none => throw "cannot concretize initial tree"
  let mut b : Both := { c := { groups := groupsC, nextId := next }, a := { groups := init.map some, nextId := next } }
  let mut out : Array Json := #[]
  for opj in (← arr j "ops") do
    let created := (opj.getObjVal? "create").toOption
    match created with
    | some cj =>
      -- {"create": item}: `new_tag_node` / `new_comment_node` / `new_processing_instruction_node` / TextNode
      let kind ← str cj "kind"
      let r : Except String Both := match kind with
        | "tag" => do b.step (.newTag (← str cj "ns") (← str cj "name") [])
        | "comment" => do b.step (.newComment (← chars cj "s"))
        | "pi" => do b.step (.newPI (← str cj "target") (← chars cj "s"))
        | k => throw s!"unknown create kind {k}"
      match r with
      | .ok b' => b := b'; out := out.push (Json.mkObj [("c", dumpGroups (absState b.c).groups), ("a", dumpGroups b.a.groups)])
      | .error e => out := out.push (Json.mkObj [("error", Json.str e)])
    | none =>
      match applyOp b opj with
      | .ok b' => b := b'; out := out.push (Json.mkObj [("c", dumpGroups (absState b.c).groups), ("a", dumpGroups b.a.groups)])
      | .error e => out := out.push (Json.mkObj [("error", Json.str e)])
  return Json.mkObj [("states", Json.arr out)]

end DelbDriver

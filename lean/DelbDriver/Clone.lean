import DelbDriver.Edit
import DelbModel.Model.Clone
open Lean Delb Delb.Edit Delb.Clone

namespace DelbDriver

/-- {"cmd":"clone","tree":ptree}: deep clone through the mechanism model, numbered from 1000000 -/
def handleClone (j : Json) : Except String Json := do
  let t ← ptreeOfJson (← j.getObjVal? "tree")
  let n := 1000000
  let c : PTree := match t with
    | .text _ s => .text n s
    | t => match concretize t with
      | some e => abs (cloneEl n e).1
      | none => t
  let spec := (cloneP n t).1
  let fresh := idsOf c == List.range' n (idsOf t).length
  return Json.mkObj [("clone", ptreeToJson c), ("spec", ptreeToJson spec), ("fresh_ok", Json.bool fresh)]

end DelbDriver

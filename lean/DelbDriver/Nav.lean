import DelbDriver.Edit
import DelbModel.Model.Nav
import DelbModel.Model.NavFilter
open Lean Delb Delb.Edit Delb.Nav

namespace DelbDriver

def elId : El → Nat
  | .tag i .. => i | .comment i _ => i | .pi i .. => i

def locId (data : Chain) (kids : List (El × Chain)) : Loc → Option Nat
  | .inData j => (data[j]?).map (·.id)
  | .elem k => (kids[k]?).map (fun p => elId p.1)
  | .inTail k j => ((tailOf kids k)[j]?).map (·.id)

def ids (l : List PTree) : Json := Json.arr (l.map (fun t => jnat t.id)).toArray
def optId : Option Nat → Json
  | some i => jnat i
  | none => Json.null

/-- sibling relations of every child of `e`, computed by walking the encoding -/
def siblingRows (e : El) : List (Nat × Json) :=
  match e with
  | .tag _ _ _ _ data kids =>
    let locs := childLocs data kids
    locs.filterMap fun l =>
      match locId data kids l with
      | none => none
      | some i => some (i, Json.mkObj [
          ("next", optId ((nextLoc data kids l).bind (locId data kids))),
          ("prev", optId ((prevLoc data kids l).bind (locId data kids))),
          ("index", jnat (locIndex data kids l))])
  | _ => []

partial def allEls : El → List El
  | e@(.tag _ _ _ _ _ kids) => e :: kids.flatMap (fun p => allEls p.1)
  | e => [e]

partial def allPaths : PTree → List (List Nat × PTree)
  | t => ([], t) :: (t.kids.zipIdx.flatMap fun (k, i) => (allPaths k).map fun (p, n) => (i :: p, n))

/-- {"cmd":"nav","tree":ptree} -/
def handleNav (j : Json) : Except String Json := do
  let root ← ptreeOfJson (← j.getObjVal? "tree")
  let some e := concretize root | throw "cannot concretize"
  let sib := (allEls e).flatMap siblingRows
  let childIds : List (Nat × Json) := (allEls e).filterMap fun x => match x with
    | .tag i _ _ _ data kids =>
      some (i, Json.arr ((childLocs data kids).filterMap (locId data kids) |>.map jnat).toArray)
    | _ => none
  let rows := (allPaths root).map fun (p, n) =>
    Json.mkObj [
      ("id", jnat n.id),
      ("path", Json.arr (p.map jnat).toArray),
      ("children", (childIds.find? (·.1 == n.id)).map (·.2) |>.getD (Json.arr #[])),
      ("sib", (sib.find? (·.1 == n.id)).map (·.2) |>.getD Json.null),
      ("ancestors", ids (ancestors root p)),
      ("depth", jnat (depth root p)),
      ("descendants", ids (descendants n)),
      ("following", ids (following root p)),
      ("preceding", ids (preceding root p)),
      ("last_descendant", optId ((lastDescendant (Nav.size n + 1) n).map (·.id))),
      ("full_text", jstr (fullText n)),
      ("bf", ids (traverseBF n)), ("df", ids (traverseDF n)), ("post", ids (postorder n))]
  return Json.mkObj [("nodes", Json.arr rows.toArray), ("preorder", ids (preorder root))]

/-- the predicate "the node's kind is one of the listed ones" (`is_tag_node`, `is_text_node`,
    `is_comment_node`, `is_processing_instruction_node` combined with `any_of`) -/
def kindPred (kinds : List String) : PTree → Bool
  | .tag .. => kinds.contains "tag"
  | .text .. => kinds.contains "text"
  | .comment .. => kinds.contains "comment"
  | .pi .. => kinds.contains "pi"

/-- {"cmd":"nav_filtered","tree":ptree,"kinds":["tag","text","comment","pi"]}: for every node (by path)
    what the filtered iterators of `Model/NavFilter.lean` yield when the filters in effect pass exactly
    the listed node kinds.  "ancestors" applies the predicate as the *given* filter (the method ignores
    the default filters); "index" is null for a root and for a node that does not pass
    (`InvalidCodePath` in the code); "item_last" is `node[-1]`. -/
def handleNavFiltered (j : Json) : Except String Json := do
  let root ← ptreeOfJson (← j.getObjVal? "tree")
  let kinds ← (← arr j "kinds").toList.mapM (·.getStr?)
  let p := kindPred kinds
  let optNode (o : Option PTree) : Json := optId (o.map (·.id))
  let rows := (allPaths root).map fun (path, n) =>
    Json.mkObj [
      ("id", jnat n.id),
      ("path", Json.arr (path.map jnat).toArray),
      ("passes", Json.bool (p n)),
      ("children", ids (childrenF p n)),
      ("first_child", optNode (firstChildF p n)),
      ("last_child", optNode (lastChildF p n)),
      ("len", jnat (lenF p n)),
      ("items", Json.arr ((List.range (lenF p n + 1)).map fun (i : Nat) => optNode (getItemF p n (Int.ofNat i))).toArray),
      ("item_last", optNode (getItemF p n (-1))),
      ("index", optId (indexF p root path)),
      ("following_siblings", ids (followingSiblingsF p root path)),
      ("following_sibling", optNode (fetchFollowingSiblingF p root path)),
      ("preceding_siblings", ids (precedingSiblingsF p root path)),
      ("preceding_sibling", optNode (fetchPrecedingSiblingF p root path)),
      ("descendants", ids (descendantsF p n)),
      ("ancestors", ids (ancestorsF p root path)),
      ("following", ids (followingF p root path)),
      ("preceding", ids (precedingF p root path)),
      ("last_descendant", optNode (lastDescendantF p (Nav.size n + 1) n))]
  return Json.mkObj [("nodes", Json.arr rows.toArray)]

end DelbDriver

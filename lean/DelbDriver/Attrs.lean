import DelbDriver.Util
import DelbModel.Model.Attrs
open Lean Delb Delb.Attrs

namespace DelbDriver

def accOfJson (j : Json) : Except String Accessor := do
  let a ← j.getArr?
  let s (i : Nat) : Except String String := (a[i]?.getD Json.null).getStr?
  match ← s 0 with
  | "local" => return .local_ (← s 1)
  | "clark" => return .clark (← s 1) (← s 2)
  | "pair" => return .pair (← s 1) (← s 2)
  | k => throw s!"bad accessor {k}"

def resToJson : Res → Json
  | .unit => Json.str "ok"
  | .bool b => Json.bool b
  | .nat n => jnat n
  | .value v => Json.mkObj [("value", jstr v)]
  | .view id => Json.mkObj [("view", jnat id)]
  | .names l => Json.arr (l.map fun q => Json.arr #[Json.str q.1, Json.str q.2]).toArray
  | .keyError => Json.str "KeyError"
  | .none => Json.null

/-- `Attribute._set_new_key(namespace, name)` -/
def renameView (c : Ctx) (s : State) (vid : Nat) (nq : QName) : State × Res :=
  match getView s vid with
  | none => (s, .keyError)
  | some v =>
    if v.qname == nq then (s, .unit)
    else
      match viewValue c s vid with
      | .value x =>
        let s1 := setItem c s (.pair nq.1 nq.2) x
        let s2 := match getView s1 vid with
          | some v1 => putView s1 { v1 with qname := nq }
          | none => s1
        let (s3, r) := delItem c s2 (.pair v.qname.1 v.qname.2)
        match r with
        | .keyError => (s3, .keyError)
        | _ =>
          -- `self._attributes = attributes`
          let s4 := match getView s3 vid with
            | some v3 => putView s3 { v3 with attached := true }
            | none => s3
          (s4, .unit)
      | _ => (s, .keyError)

/-- {"cmd":"attrs","node_ns":…,"default_ns":…,"init":[[ns|null,name,value],…],"ops":[…]} -/
def handleAttrs (j : Json) : Except String Json := do
  let c : Ctx := { nodeNs := ← str j "node_ns", defaultNs := ← str j "default_ns" }
  let init ← (← arr j "init").toList.mapM fun e => do
    let a ← e.getArr?
    let ns := match a[0]?.getD Json.null with | .str s => some s | _ => none
    let n ← (a[1]?.getD Json.null).getStr?
    let v ← (a[2]?.getD Json.null).getStr?
    pure (((ns, n) : Key), v.toList)
  let mut s : State := { store := init, cache := [], views := [], nextView := 0 }
  let mut out : Array Json := #[]
  -- the client numbers Attribute objects in the order it first got hold of them
  let mut handles : Array Nat := #[]
  for opj in (← arr j "ops") do
    let op ← str opj "op"
    let acc : Except String Accessor := do accOfJson (← opj.getObjVal? "acc")
    match op with
    | "set" => s := setItem c s (← acc) (← chars opj "value"); out := out.push (Json.str "ok")
    | "del" => let (s', r) := delItem c s (← acc); s := s'; out := out.push (resToJson r)
    | "get" =>
      let (s', r) := getItem c s (← acc)
      s := s'
      match r with
      | .view vid =>
        if !handles.contains vid then handles := handles.push vid
        out := out.push (resToJson (.view ((handles.toList.idxOf vid))))
      | r => out := out.push (resToJson r)
    | "pop" =>
      let (s1, r) := getItem c s (← acc)
      match r with
      | .view vid =>
        let (s2, _) := delItem c s1 (← acc)
        s := s2
        if !handles.contains vid then handles := handles.push vid
        out := out.push (resToJson (.view (handles.toList.idxOf vid)))
      | r => s := s1; out := out.push (resToJson r)
    | "contains" => out := out.push (Json.bool (contains c s (← acc)))
    | "getvalue" => out := out.push (match getValue c s (← acc) with | some v => Json.mkObj [("value", jstr v)] | none => Json.null)
    | "iter" => out := out.push (resToJson (.names (iter c s)))
    | "len" => out := out.push (jnat (len s))
    | "view_value" => out := out.push (resToJson (viewValue c s (handles[(← nat opj "view")]?.getD 1000000)))
    | "view_set" => s := viewSetValue c s (handles[(← nat opj "view")]?.getD 1000000) (← chars opj "value"); out := out.push (Json.str "ok")
    | "view_rename" =>
      let (s', r) := renameView c s (handles[(← nat opj "view")]?.getD 1000000) (← str opj "ns", ← str opj "name")
      s := s'; out := out.push (resToJson r)
    | o => throw s!"unknown attrs op {o}"
  let dict := absStore s.store
  return Json.mkObj [("results", Json.arr out),
    ("dict", Json.arr (dict.map fun e => Json.arr #[Json.str e.1.1, Json.str e.1.2, jstr e.2]).toArray)]

end DelbDriver
